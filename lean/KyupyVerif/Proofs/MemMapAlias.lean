import KyupyVerif.Proofs.MemMapSpec
/-! The two alias passes at the end of the memory map of `SimOps.__init__` (`mapAliases`, sim.py:306-314): branches get the
location / capacity of their stem, output slots get those of the captured line. Both passes are folds of
`c_locs[dst], c_caps[dst] = c_locs[src], c_caps[src]` over a list of `(dst, src)` pairs with pairwise distinct targets; a
target whose source is not itself a target ends up with the ORIGINAL value of its source (`aliasFold_set`), an index that
is no target keeps its value (`aliasFold_keep`). -/
namespace KV

/-- a sequence of `c_locs[dst], c_caps[dst] = c_locs[src], c_caps[src]` -/
def aliasFold (s : MapSt) (ps : List (Nat × Nat)) : MapSt := ps.foldl (fun s p => aliasSet s p.1 p.2) s

theorem getD_setIfInBounds_nat (a : Array Nat) (i x : Nat) (v d : Nat) :
    (a.setIfInBounds i v).getD x d = if i = x ∧ i < a.size then v else a.getD x d := by
  simp only [Array.getD_eq_getD_getElem?, Array.getElem?_setIfInBounds]
  by_cases h : i = x
  · subst h
    by_cases h2 : i < a.size
    · simp [h2]
    · simp [h2]
  · simp [h]

theorem aliasFold_cons (s : MapSt) (p : Nat × Nat) (r : List (Nat × Nat)) :
    aliasFold s (p :: r) = aliasFold (aliasSet s p.1 p.2) r := rfl

/-- heap and table sizes are untouched -/
theorem aliasFold_basic (s : MapSt) (ps : List (Nat × Nat)) :
    (aliasFold s ps).heap = s.heap ∧ (aliasFold s ps).locs.size = s.locs.size ∧
    (aliasFold s ps).caps.size = s.caps.size := by
  induction ps generalizing s with
  | nil => exact ⟨rfl, rfl, rfl⟩
  | cons p r ih =>
    rw [aliasFold_cons]
    obtain ⟨h1, h2, h3⟩ := ih (aliasSet s p.1 p.2)
    refine ⟨h1, ?_, ?_⟩
    · rw [h2]; simp only [aliasSet, Array.size_setIfInBounds]
    · rw [h3]; simp only [aliasSet, Array.size_setIfInBounds]

/-- one assignment leaves other indices alone -/
theorem aliasSet_keep (s : MapSt) (d t x : Nat) (h : d ≠ x) :
    (aliasSet s d t).locs.getD x (-1) = s.locs.getD x (-1) ∧ (aliasSet s d t).caps.getD x 0 = s.caps.getD x 0 := by
  simp only [aliasSet, getD_setIfInBounds_int, getD_setIfInBounds_nat]
  constructor
  · rw [if_neg (fun hc => h hc.1)]
  · rw [if_neg (fun hc => h hc.1)]

/-- one assignment inside the tables -/
theorem aliasSet_hit (s : MapSt) (d t : Nat) (hl : d < s.locs.size) (hc : d < s.caps.size) :
    (aliasSet s d t).locs.getD d (-1) = s.locs.getD t (-1) ∧ (aliasSet s d t).caps.getD d 0 = s.caps.getD t 0 := by
  constructor
  · show (s.locs.setIfInBounds d (s.locs.getD t (-1))).getD d (-1) = s.locs.getD t (-1)
    rw [getD_setIfInBounds_int, if_pos ⟨rfl, hl⟩]
  · show (s.caps.setIfInBounds d (s.caps.getD t 0)).getD d 0 = s.caps.getD t 0
    rw [getD_setIfInBounds_nat, if_pos ⟨rfl, hc⟩]

/-- an index that is no target keeps its value -/
theorem aliasFold_keep (s : MapSt) (ps : List (Nat × Nat)) (x : Nat) (h : ∀ p ∈ ps, p.1 ≠ x) :
    (aliasFold s ps).locs.getD x (-1) = s.locs.getD x (-1) ∧ (aliasFold s ps).caps.getD x 0 = s.caps.getD x 0 := by
  induction ps generalizing s with
  | nil => exact ⟨rfl, rfl⟩
  | cons p r ih =>
    rw [aliasFold_cons]
    obtain ⟨h1, h2⟩ := ih (aliasSet s p.1 p.2) (fun q hq => h q (List.mem_cons_of_mem _ hq))
    obtain ⟨k1, k2⟩ := aliasSet_keep s p.1 p.2 x (h p List.mem_cons_self)
    exact ⟨h1.trans k1, h2.trans k2⟩

/-- a target (inside the tables, targets pairwise distinct) whose source is no target ends with the original value of its
    source -/
theorem aliasFold_set (s : MapSt) (ps : List (Nat × Nat)) (d t : Nat)
    (hpw : ps.Pairwise (fun a b => a.1 ≠ b.1)) (hmem : (d, t) ∈ ps) (hsrc : ∀ p ∈ ps, p.1 ≠ t)
    (hl : d < s.locs.size) (hc : d < s.caps.size) :
    (aliasFold s ps).locs.getD d (-1) = s.locs.getD t (-1) ∧ (aliasFold s ps).caps.getD d 0 = s.caps.getD t 0 := by
  induction ps generalizing s with
  | nil => cases hmem
  | cons p r ih =>
    rw [aliasFold_cons]
    rw [List.pairwise_cons] at hpw
    rcases List.mem_cons.mp hmem with heq | hr
    · subst heq
      obtain ⟨h1, h2⟩ := aliasFold_keep (aliasSet s d t) r d (fun q hq => (hpw.1 q hq).symm)
      obtain ⟨k1, k2⟩ := aliasSet_hit s d t hl hc
      exact ⟨h1.trans k1, h2.trans k2⟩
    · have hl' : d < (aliasSet s p.1 p.2).locs.size := by
        simp only [aliasSet, Array.size_setIfInBounds]; exact hl
      have hc' : d < (aliasSet s p.1 p.2).caps.size := by
        simp only [aliasSet, Array.size_setIfInBounds]; exact hc
      obtain ⟨h1, h2⟩ := ih (aliasSet s p.1 p.2) hpw.2 hr (fun q hq => hsrc q (List.mem_cons_of_mem _ hq)) hl' hc'
      obtain ⟨k1, k2⟩ := aliasSet_keep s p.1 p.2 t (hsrc p List.mem_cons_self)
      exact ⟨h1.trans k1, h2.trans k2⟩

/-! ### pass 1: stems → branches -/

def stemPairF (ol : Option Nat × Nat) : Option (Nat × Nat) := ol.1.map fun t => (ol.2, t)

/-- the `(branch, stem)` assignments of pass 1 in loop order -/
def stemPairs (st : Array (Option Nat)) : List (Nat × Nat) := st.toList.zipIdx.filterMap stemPairF

theorem stemFold_eq (s : MapSt) (l : List (Option Nat × Nat)) :
    l.foldl stemAliasStep s = aliasFold s (l.filterMap stemPairF) := by
  induction l generalizing s with
  | nil => rfl
  | cons a r ih =>
    obtain ⟨o, k⟩ := a
    cases o with
    | none =>
      rw [List.foldl_cons, List.filterMap_cons_none (by rfl)]
      exact ih s
    | some t =>
      rw [List.foldl_cons, List.filterMap_cons_some (b := (k, t)) (by rfl), aliasFold_cons]
      exact ih _

theorem mem_stemPairs (st : Array (Option Nat)) (d t : Nat) : (d, t) ∈ stemPairs st ↔ st.getD d none = some t := by
  unfold stemPairs
  rw [List.mem_filterMap]
  constructor
  · rintro ⟨⟨o, k⟩, hmem, hf⟩
    have hk := mem_zipIdx_getElem? hmem
    cases o with
    | none => cases hf
    | some t' =>
      simp only [stemPairF, Option.map_some, Option.some.injEq, Prod.mk.injEq] at hf
      obtain ⟨rfl, rfl⟩ := hf
      rw [Array.getD_eq_getD_getElem?, ← Array.getElem?_toList, hk]
      rfl
  · intro h
    refine ⟨(some t, d), ?_, rfl⟩
    rw [List.mem_zipIdx_iff_getElem?]
    show st.toList[d]? = some (some t)
    rw [Array.getD_eq_getD_getElem?, ← Array.getElem?_toList] at h
    cases hg : st.toList[d]? with
    | none => rw [hg] at h; cases h
    | some v => rw [hg] at h; simp only [Option.getD_some] at h; rw [h]

theorem stemPairs_pairwise (st : Array (Option Nat)) : (stemPairs st).Pairwise (fun a b => a.1 ≠ b.1) := by
  unfold stemPairs
  refine List.Pairwise.filterMap stemPairF ?_ (zipIdx_pairwise_lt st.toList 0)
  rintro ⟨o, k⟩ ⟨o', k'⟩ hlt b hb b' hb'
  cases o with
  | none => cases hb
  | some t =>
    cases o' with
    | none => cases hb'
    | some t' =>
      simp only [stemPairF, Option.map_some, Option.some.injEq] at hb hb'
      subst hb; subst hb'
      exact Nat.ne_of_lt hlt

/-- pass 1: an index inside the table whose stem (if any) is not itself a branch carries the value of its stem -/
theorem stemPass_spec (st : Array (Option Nat)) (s : MapSt) (x : Nat) (hl : x < s.locs.size) (hc : x < s.caps.size)
    (hx : ∀ t, st.getD x none = some t → st.getD t none = none) :
    (aliasFold s (stemPairs st)).locs.getD x (-1) = s.locs.getD (viaStem st x) (-1) ∧
    (aliasFold s (stemPairs st)).caps.getD x 0 = s.caps.getD (viaStem st x) 0 := by
  unfold viaStem
  cases h : st.getD x none with
  | none =>
    simp only [Option.getD_none]
    apply aliasFold_keep
    rintro ⟨d, t⟩ hp heq
    simp only at heq
    subst heq
    rw [mem_stemPairs, h] at hp
    cases hp
  | some t =>
    simp only [Option.getD_some]
    apply aliasFold_set s (stemPairs st) x t (stemPairs_pairwise st) ((mem_stemPairs st x t).mpr h) _ hl hc
    rintro ⟨d, t'⟩ hp heq
    simp only at heq
    rw [heq, mem_stemPairs, hx t h] at hp
    cases hp

/-! ### pass 2: captured lines → output slots -/

def ppoPairF (net : Net) (ni : Nat × Nat) : Option (Nat × Nat) :=
  match (net.node ni.1).inPin 0 with
  | some l => some (net.idx.ppo + ni.2, l)
  | none => if net.io.length ≤ ni.2 then some (net.idx.ppo + ni.2, net.idx.zero) else none

/-- the `(output slot, captured signal)` assignments of pass 2 in loop order -/
def ppoPairs (net : Net) : List (Nat × Nat) := net.sNodes.zipIdx.filterMap (ppoPairF net)

theorem ppoFold_eq (net : Net) (s : MapSt) (l : List (Nat × Nat)) :
    l.foldl (ppoAliasStep net) s = aliasFold s (l.filterMap (ppoPairF net)) := by
  induction l generalizing s with
  | nil => rfl
  | cons a r ih =>
    rw [List.foldl_cons]
    cases hf : ppoPairF net a with
    | none =>
      rw [List.filterMap_cons_none hf]
      have : ppoAliasStep net s a = s := by
        unfold ppoPairF at hf
        unfold ppoAliasStep
        split at hf
        · cases hf
        · rename_i hp
          rw [hp]
          simp only
          split at hf
          · cases hf
          · rename_i hio
            rw [if_neg hio]
      rw [this]
      exact ih s
    | some b =>
      rw [List.filterMap_cons_some hf, aliasFold_cons]
      have : ppoAliasStep net s a = aliasSet s b.1 b.2 := by
        unfold ppoPairF at hf
        unfold ppoAliasStep
        split at hf
        · rename_i l hp
          rw [hp]
          cases hf
          rfl
        · rename_i hp
          rw [hp]
          simp only
          split at hf
          · rename_i hio
            rw [if_pos hio]
            cases hf
            rfl
          · cases hf
      rw [this]
      exact ih _

/-- every target of pass 2 is an output slot -/
theorem ppoPairs_dst (net : Net) (p : Nat × Nat) (hp : p ∈ ppoPairs net) :
    ∃ n i, (n, i) ∈ net.sNodes.zipIdx ∧ p.1 = net.idx.ppo + i := by
  unfold ppoPairs at hp
  rw [List.mem_filterMap] at hp
  obtain ⟨⟨n, i⟩, hmem, hf⟩ := hp
  refine ⟨n, i, hmem, ?_⟩
  unfold ppoPairF at hf
  split at hf
  · cases hf; rfl
  · split at hf
    · cases hf; rfl
    · cases hf

theorem ppoPairs_mem (net : Net) (n i l : Nat) (hmem : (n, i) ∈ net.sNodes.zipIdx)
    (hp : (net.node n).inPin 0 = some l) : (net.idx.ppo + i, l) ∈ ppoPairs net := by
  unfold ppoPairs
  rw [List.mem_filterMap]
  refine ⟨(n, i), hmem, ?_⟩
  unfold ppoPairF
  simp only [hp]

theorem ppoPairs_pairwise (net : Net) : (ppoPairs net).Pairwise (fun a b => a.1 ≠ b.1) := by
  unfold ppoPairs
  refine List.Pairwise.filterMap (ppoPairF net) ?_ (zipIdx_pairwise_lt net.sNodes 0)
  rintro ⟨n, i⟩ ⟨n', i'⟩ hlt b hb b' hb'
  have h1 : b.1 = net.idx.ppo + i := by
    unfold ppoPairF at hb
    split at hb
    · cases hb; rfl
    · split at hb
      · cases hb; rfl
      · cases hb
  have h2 : b'.1 = net.idx.ppo + i' := by
    unfold ppoPairF at hb'
    split at hb'
    · cases hb'; rfl
    · split at hb'
      · cases hb'; rfl
      · cases hb'
  have hlt' : i < i' := hlt
  omega

theorem idx_facts (net : Net) : net.idx.zero < net.idx.ppo ∧ net.idx.len = net.idx.ppo + net.sNodes.length := by
  simp only [Net.idx]
  omega

theorem mapAliases_eq (net : Net) (st : Array (Option Nat)) (s : MapSt) :
    mapAliases net st s = aliasFold (aliasFold s (stemPairs st)) (ppoPairs net) := by
  unfold mapAliases
  rw [stemFold_eq, ppoFold_eq]
  rfl

/-- **the alias passes**: heap and sizes unchanged; an index below the output slots whose stem is not itself a branch
    carries the value its stem had before the passes; an output slot carries the value the captured line's stem had -/
theorem mapAliases_spec (net : Net) (st : Array (Option Nat)) (s : MapSt)
    (hst : st.size = net.idx.len) (hl : s.locs.size = net.idx.len) (hc : s.caps.size = net.idx.len)
    (hcap : ∀ n i l, (n, i) ∈ net.sNodes.zipIdx → (net.node n).inPin 0 = some l → l < net.idx.zero) :
    (mapAliases net st s).heap = s.heap ∧ (mapAliases net st s).locs.size = net.idx.len ∧
    (mapAliases net st s).caps.size = net.idx.len ∧
    (∀ x, x < net.idx.ppo → (∀ t, st.getD x none = some t → st.getD t none = none) →
        (mapAliases net st s).locs.getD x (-1) = s.locs.getD (viaStem st x) (-1) ∧
        (mapAliases net st s).caps.getD x 0 = s.caps.getD (viaStem st x) 0) ∧
    (∀ n i l, (n, i) ∈ net.sNodes.zipIdx → (net.node n).inPin 0 = some l →
        (∀ t, st.getD l none = some t → st.getD t none = none) →
        (mapAliases net st s).locs.getD (net.idx.ppo + i) (-1) = s.locs.getD (viaStem st l) (-1) ∧
        (mapAliases net st s).caps.getD (net.idx.ppo + i) 0 = s.caps.getD (viaStem st l) 0) := by
  have _ := hst
  rw [mapAliases_eq]
  obtain ⟨hz, hlen⟩ := idx_facts net
  obtain ⟨a1, a2, a3⟩ := aliasFold_basic s (stemPairs st)
  obtain ⟨b1, b2, b3⟩ := aliasFold_basic (aliasFold s (stemPairs st)) (ppoPairs net)
  -- an index below the output slots is no target of pass 2
  have hlow : ∀ x, x < net.idx.ppo → ∀ p ∈ ppoPairs net, p.1 ≠ x := by
    intro x hx p hp heq
    obtain ⟨n, i, _, hd⟩ := ppoPairs_dst net p hp
    omega
  refine ⟨b1.trans a1, by rw [b2, a2, hl], by rw [b3, a3, hc], ?_, ?_⟩
  · intro x hx hxs
    obtain ⟨k1, k2⟩ := aliasFold_keep (aliasFold s (stemPairs st)) (ppoPairs net) x (hlow x hx)
    obtain ⟨j1, j2⟩ := stemPass_spec st s x (by omega) (by omega) hxs
    exact ⟨k1.trans j1, k2.trans j2⟩
  · intro n i l hmem hp hls
    have hlz := hcap n i l hmem hp
    have hi : i < net.sNodes.length := by
      have := List.snd_lt_of_mem_zipIdx hmem
      simpa using this
    obtain ⟨k1, k2⟩ := aliasFold_set (aliasFold s (stemPairs st)) (ppoPairs net) (net.idx.ppo + i) l
      (ppoPairs_pairwise net) (ppoPairs_mem net n i l hmem hp) (hlow l (by omega)) (by omega) (by omega)
    obtain ⟨j1, j2⟩ := stemPass_spec st s l (by omega) (by omega) hls
    exact ⟨k1.trans j1, k2.trans j2⟩

end KV
