import KyupyVerif.Model.Def
/-! Helper lemmas for C20 (dictionary algebra, wildcard resolution, via walk, aggregation). Core Lean only. -/
namespace KV.Def

/-! ## Dict -/
namespace Dict
variable {α : Type}

theorem get_push (d : Dict α) (k : String) (v : α) (k' : String) :
    (d.push k v).get k' = if k = k' then d.get k' ++ [v] else d.get k' := by
  induction d with
  | nil => by_cases h : k = k' <;> simp [push, get, h]
  | cons e r ih =>
    obtain ⟨k0, l⟩ := e
    by_cases h0 : k0 = k <;> by_cases h1 : k0 = k' <;> by_cases h : k = k' <;> simp_all [push, get]

theorem get_extend (d : Dict α) (k : String) (vs : List α) (k' : String) :
    (d.extend k vs).get k' = if k = k' then d.get k' ++ vs else d.get k' := by
  induction d with
  | nil => by_cases h : k = k' <;> simp [extend, get, h]
  | cons e r ih =>
    obtain ⟨k0, l⟩ := e
    by_cases h0 : k0 = k <;> by_cases h1 : k0 = k' <;> by_cases h : k = k' <;> simp_all [extend, get]

theorem get_foldl_push (vs : List α) (d : Dict α) (n k : String) :
    (vs.foldl (fun d v => d.push n v) d).get k = if n = k then d.get k ++ vs else d.get k := by
  induction vs generalizing d with
  | nil => simp
  | cons v vs ih =>
    simp only [List.foldl_cons, ih, get_push]
    by_cases h : n = k <;> simp [h]

theorem keys_push (d : Dict α) (k : String) (v : α) :
    (d.push k v).keys = if k ∈ d.keys then d.keys else d.keys ++ [k] := by
  induction d with
  | nil => simp [push, keys]
  | cons e r ih =>
    obtain ⟨k0, l⟩ := e
    by_cases h0 : k0 = k
    · subst h0; simp [push, keys]
    · have h0' : ¬ k = k0 := fun h => h0 h.symm
      simp only [keys] at ih
      by_cases hm : k ∈ r.map (·.1) <;> simp_all [push, keys]

theorem keys_extend (d : Dict α) (k : String) (vs : List α) :
    (d.extend k vs).keys = if k ∈ d.keys then d.keys else d.keys ++ [k] := by
  induction d with
  | nil => simp [extend, keys]
  | cons e r ih =>
    obtain ⟨k0, l⟩ := e
    by_cases h0 : k0 = k
    · subst h0; simp [extend, keys]
    · have h0' : ¬ k = k0 := fun h => h0 h.symm
      simp only [keys] at ih
      by_cases hm : k ∈ r.map (·.1) <;> simp_all [extend, keys]

theorem mem_keys_push (d : Dict α) (k : String) (v : α) (k' : String) :
    k' ∈ (d.push k v).keys ↔ k' ∈ d.keys ∨ k' = k := by
  rw [keys_push]; split
  · constructor
    · exact Or.inl
    · rintro (h | rfl)
      · exact h
      · assumption
  · simp

theorem mem_keys_extend (d : Dict α) (k : String) (vs : List α) (k' : String) :
    k' ∈ (d.extend k vs).keys ↔ k' ∈ d.keys ∨ k' = k := by
  rw [keys_extend]; split
  · constructor
    · exact Or.inl
    · rintro (h | rfl)
      · exact h
      · assumption
  · simp

theorem mem_keys_foldl_push (vs : List α) (d : Dict α) (n k : String) :
    k ∈ (vs.foldl (fun d v => d.push n v) d).keys ↔ k ∈ d.keys ∨ (vs ≠ [] ∧ k = n) := by
  induction vs generalizing d with
  | nil => simp
  | cons v vs ih =>
    simp only [List.foldl_cons, ih, mem_keys_push]
    constructor
    · rintro ((h | h) | ⟨_, h⟩)
      · exact Or.inl h
      · exact Or.inr ⟨by simp, h⟩
      · exact Or.inr ⟨by simp, h⟩
    · rintro (h | ⟨_, h⟩)
      · exact Or.inl (Or.inl h)
      · exact Or.inl (Or.inr h)

theorem nodup_append_singleton {l : List String} {k : String} (h : l.Nodup) (hk : k ∉ l) : (l ++ [k]).Nodup := by
  rw [List.nodup_append]
  refine ⟨h, by simp, ?_⟩
  intro a ha b hb
  simp at hb; subst hb
  intro e; subst e; exact hk ha

theorem nodup_keys_push {d : Dict α} (h : d.keys.Nodup) (k : String) (v : α) : (d.push k v).keys.Nodup := by
  rw [keys_push]; split
  · exact h
  · exact nodup_append_singleton h ‹_›

theorem nodup_keys_extend {d : Dict α} (h : d.keys.Nodup) (k : String) (vs : List α) : (d.extend k vs).keys.Nodup := by
  rw [keys_extend]; split
  · exact h
  · exact nodup_append_singleton h ‹_›

theorem nodup_keys_foldl_push (vs : List α) (d : Dict α) (n : String) (h : d.keys.Nodup) :
    (vs.foldl (fun d v => d.push n v) d).keys.Nodup := by
  induction vs generalizing d with
  | nil => exact h
  | cons v vs ih => exact ih _ (nodup_keys_push h n v)

/-- reading a dictionary with distinct keys through `.items()` and filtering on the key gives the stored list -/
theorem items_get {d : Dict α} (h : d.keys.Nodup) (t : String) :
    (d.filter (·.1 = t)).flatMap (·.2) = d.get t := by
  induction d with
  | nil => simp [get]
  | cons e r ih =>
    obtain ⟨k0, l⟩ := e
    simp only [keys, List.map_cons, List.nodup_cons] at h
    by_cases h0 : k0 = t
    · subst h0
      have : r.filter (fun e => decide (e.1 = k0)) = [] := by
        rw [List.filter_eq_nil_iff]; intro e he hek
        simp at hek; apply h.1; rw [← hek]; exact List.mem_map_of_mem he
      simp [get, this]
    · have := ih h.2
      simp [get, h0, this]

theorem get_not_mem_keys {d : Dict α} {t : String} (h : t ∉ d.keys) : d.get t = [] := by
  induction d with
  | nil => rfl
  | cons e r ih =>
    obtain ⟨k0, l⟩ := e
    simp only [keys, List.map_cons, List.mem_cons, not_or] at h
    have h0 : ¬ k0 = t := fun e => h.1 e.symm
    simp only [get, h0, if_false]; exact ih h.2
end Dict

/-! ## wildcard resolution -/
theorem length_resolveFrom (loc : Loc) (ps : List RPt) : (resolveFrom loc ps).length = ps.length := by
  induction ps generalizing loc with
  | nil => rfl
  | cons p ps ih => simp [resolveFrom, ih]

/-- the x coordinate of the most recent explicit value among `ps[0..i]`, or the incoming `loc` when all are `*` -/
theorem resolve_prev_x (loc : Loc) (ps : List RPt) (i : Nat) (hi : i < ps.length)
    (hr : i < (resolveFrom loc ps).length) :
    (∃ j, ∃ hj : j < ps.length, j ≤ i ∧ ps[j].x = some ((resolveFrom loc ps)[i]).1 ∧
        ∀ k, ∀ hk : k < ps.length, j < k → k ≤ i → ps[k].x = none) ∨
    ((∀ k, ∀ hk : k < ps.length, k ≤ i → ps[k].x = none) ∧ ((resolveFrom loc ps)[i]).1 = loc.1) := by
  induction ps generalizing loc i with
  | nil => simp at hi
  | cons p ps ih =>
    cases i with
    | zero =>
      cases hx : p.x with
      | some v =>
        left; refine ⟨0, by simp, Nat.le_refl _, ?_, ?_⟩
        · simp [resolveFrom, RPt.onto, hx]
        · intro k hk h1 h2; omega
      | none =>
        right; refine ⟨?_, ?_⟩
        · intro k hk h; have : k = 0 := by omega
          subst this; simpa using hx
        · simp [resolveFrom, RPt.onto, hx]
    | succ i =>
      have hi' : i < ps.length := by simpa using hi
      have hr' : i < (resolveFrom (p.onto loc) ps).length := by rw [length_resolveFrom]; exact hi'
      have e : (resolveFrom loc (p :: ps))[i + 1] = (resolveFrom (p.onto loc) ps)[i] := by
        simp [resolveFrom]
      rw [e]
      rcases ih (p.onto loc) i hi' hr' with ⟨j, hj, hji, hv, hn⟩ | ⟨hall, hv⟩
      · left; refine ⟨j + 1, by simpa using hj, by omega, by simpa using hv, ?_⟩
        intro k hk h1 h2
        cases k with
        | zero => omega
        | succ k => simpa using hn k (by simpa using hk) (by omega) (by omega)
      · cases hx : p.x with
        | some v =>
          left; refine ⟨0, by simp, by omega, ?_, ?_⟩
          · rw [hv]; simp [RPt.onto, hx]
          · intro k hk h1 h2
            cases k with
            | zero => omega
            | succ k => simpa using hall k (by simpa using hk) (by omega)
        | none =>
          right; refine ⟨?_, ?_⟩
          · intro k hk h
            cases k with
            | zero => simpa using hx
            | succ k => simpa using hall k (by simpa using hk) (by omega)
          · rw [hv]; simp [RPt.onto, hx]

theorem resolve_prev_y (loc : Loc) (ps : List RPt) (i : Nat) (hi : i < ps.length)
    (hr : i < (resolveFrom loc ps).length) :
    (∃ j, ∃ hj : j < ps.length, j ≤ i ∧ ps[j].y = some ((resolveFrom loc ps)[i]).2 ∧
        ∀ k, ∀ hk : k < ps.length, j < k → k ≤ i → ps[k].y = none) ∨
    ((∀ k, ∀ hk : k < ps.length, k ≤ i → ps[k].y = none) ∧ ((resolveFrom loc ps)[i]).2 = loc.2) := by
  induction ps generalizing loc i with
  | nil => simp at hi
  | cons p ps ih =>
    cases i with
    | zero =>
      cases hx : p.y with
      | some v =>
        left; refine ⟨0, by simp, Nat.le_refl _, ?_, ?_⟩
        · simp [resolveFrom, RPt.onto, hx]
        · intro k hk h1 h2; omega
      | none =>
        right; refine ⟨?_, ?_⟩
        · intro k hk h; have : k = 0 := by omega
          subst this; simpa using hx
        · simp [resolveFrom, RPt.onto, hx]
    | succ i =>
      have hi' : i < ps.length := by simpa using hi
      have hr' : i < (resolveFrom (p.onto loc) ps).length := by rw [length_resolveFrom]; exact hi'
      have e : (resolveFrom loc (p :: ps))[i + 1] = (resolveFrom (p.onto loc) ps)[i] := by
        simp [resolveFrom]
      rw [e]
      rcases ih (p.onto loc) i hi' hr' with ⟨j, hj, hji, hv, hn⟩ | ⟨hall, hv⟩
      · left; refine ⟨j + 1, by simpa using hj, by omega, by simpa using hv, ?_⟩
        intro k hk h1 h2
        cases k with
        | zero => omega
        | succ k => simpa using hn k (by simpa using hk) (by omega) (by omega)
      · cases hx : p.y with
        | some v =>
          left; refine ⟨0, by simp, by omega, ?_, ?_⟩
          · rw [hv]; simp [RPt.onto, hx]
          · intro k hk h1 h2
            cases k with
            | zero => omega
            | succ k => simpa using hall k (by simpa using hk) (by omega)
        | none =>
          right; refine ⟨?_, ?_⟩
          · intro k hk h
            cases k with
            | zero => simpa using hx
            | succ k => simpa using hall k (by simpa using hk) (by omega)
          · rw [hv]; simp [RPt.onto, hx]

/-- local reading: point `i+1` takes its explicit value, or the resolved value of point `i` -/
theorem resolve_succ (loc : Loc) (ps : List RPt) (i : Nat) (h1 : i + 1 < ps.length)
    (hr0 : i < (resolveFrom loc ps).length) (hr1 : i + 1 < (resolveFrom loc ps).length) :
    (resolveFrom loc ps)[i + 1] = ps[i + 1].onto ((resolveFrom loc ps)[i]) := by
  induction ps generalizing loc i with
  | nil => simp at h1
  | cons p ps ih =>
    cases i with
    | zero =>
      match ps, h1 with
      | q :: qs, _ => simp [resolveFrom]
    | succ i =>
      have h1' : i + 1 < ps.length := by simpa using h1
      have := ih (p.onto loc) i h1' (by rw [length_resolveFrom]; omega) (by rw [length_resolveFrom]; omega)
      simpa [resolveFrom] using this

theorem resolve_zero (loc : Loc) (p : RPt) (ps : List RPt) :
    (resolveFrom loc (p :: ps))[0]'(by simp [resolveFrom]) = p.onto loc := by
  simp [resolveFrom]

theorem length_attachExt (ls : List Loc) (ps : List RPt) (h : ls.length = ps.length) :
    (attachExt ls ps).length = ps.length := by
  induction ls generalizing ps with
  | nil => cases ps <;> simp_all [attachExt]
  | cons l ls ih =>
    cases ps with
    | nil => simp at h
    | cons p ps => simp [attachExt, ih ps (by simpa using h)]

theorem getElem_attachExt (ls : List Loc) (ps : List RPt) (i : Nat) (h1 : i < ls.length) (h2 : i < ps.length)
    (h3 : i < (attachExt ls ps).length) :
    (attachExt ls ps)[i] = ⟨ls[i].1, ls[i].2, ps[i].ext⟩ := by
  induction ls generalizing ps i with
  | nil => simp at h1
  | cons l ls ih =>
    cases ps with
    | nil => simp at h2
    | cons p ps =>
      cases i with
      | zero => simp [attachExt]
      | succ i => simpa [attachExt] using ih ps i (by simpa using h1) (by simpa using h2) (by simpa [attachExt] using h3)

/-! ## via walk -/
theorem ptsOf_append (a b : List Item) : ptsOf (a ++ b) = ptsOf a ++ ptsOf b := by
  induction a with
  | nil => rfl
  | cons it a ih => cases it <;> simp [ptsOf, ih]

theorem endLoc_append (loc : Loc) (a b : List Item) : endLoc loc (a ++ b) = endLoc (endLoc loc a) b := by
  induction a generalizing loc with
  | nil => rfl
  | cons it a ih => cases it <;> simp [endLoc, ih]

theorem viasFlat_append (loc : Loc) (a b : List Item) :
    viasFlat loc (a ++ b) = viasFlat loc a ++ viasFlat (endLoc loc a) b := by
  induction a generalizing loc with
  | nil => rfl
  | cons it a ih => cases it <;> simp [viasFlat, endLoc, ih]

theorem viasFlat_cons (loc : Loc) (it : Item) (r : List Item) :
    viasFlat loc (it :: r) = emit loc it ++ viasFlat (endLoc loc [it]) r := by
  cases it <;> simp [viasFlat, endLoc, emit]

/-- the walk's location is the last resolved point so far (or the start when there was none) -/
theorem endLoc_eq_last (loc : Loc) (l : List Item) :
    endLoc loc l = ((resolveFrom loc (ptsOf l)).getLast?).getD loc := by
  induction l generalizing loc with
  | nil => rfl
  | cons it r ih =>
    cases it with
    | pt p =>
      simp only [endLoc, ptsOf, resolveFrom, ih]
      cases h : resolveFrom (p.onto loc) (ptsOf r) with
      | nil => simp
      | cons a t => cases hl : (a :: t).getLast? <;> simp_all
    | via n o => simp [endLoc, ptsOf, ih]
    | arr n nx ny dx dy => simp [endLoc, ptsOf, ih]

theorem selectKey_append {α : Type} (t : String) (a b : List (String × α)) :
    selectKey t (a ++ b) = selectKey t a ++ selectKey t b := by
  simp [selectKey]

theorem selectKey_emit (loc : Loc) (it : Item) (t : String) :
    selectKey t (emit loc it) = match it with
      | .pt _ => []
      | .via n o => if n = t then [(loc.1, loc.2, orientOf o)] else []
      | .arr n nx ny dx dy => if n = t then arrayAt loc nx ny dx dy else [] := by
  cases it with
  | pt p => simp [emit, selectKey]
  | via n o => by_cases h : n = t <;> simp [emit, selectKey, h]
  | arr n nx ny dx dy =>
    by_cases h : n = t
    · simp [emit, selectKey, h, List.filter_map, Function.comp_def]
    · simp [emit, selectKey, h, List.filter_map, Function.comp_def]

/-- the loop of `DefWire.vias` from any state: final location and per-key content -/
theorem foldl_viasStep (l : List Item) (st : Loc × Dict ViaLoc) :
    (l.foldl viasStep st).1 = endLoc st.1 l ∧
    (∀ t, (l.foldl viasStep st).2.get t = st.2.get t ++ selectKey t (viasFlat st.1 l)) ∧
    (st.2.keys.Nodup → (l.foldl viasStep st).2.keys.Nodup) := by
  induction l generalizing st with
  | nil => simp [endLoc, viasFlat, selectKey]
  | cons it r ih =>
    obtain ⟨loc, d⟩ := st
    cases it with
    | pt p =>
      have := ih (p.onto loc, d)
      simpa [viasStep, endLoc, viasFlat] using this
    | via n o =>
      have := ih (loc, d.push n (loc.1, loc.2, orientOf o))
      refine ⟨by simpa [viasStep, endLoc] using this.1, ?_, ?_⟩
      · intro t
        have h2 := this.2.1 t
        simp only [List.foldl_cons, viasStep, viasFlat, selectKey_append, selectKey_emit] at h2 ⊢
        rw [h2, Dict.get_push]
        by_cases h : n = t <;> simp [h]
      · intro hn
        exact this.2.2 (Dict.nodup_keys_push hn _ _)
    | arr n nx ny dx dy =>
      have := ih (loc, (arrayAt loc nx ny dx dy).foldl (fun d v => d.push n v) d)
      refine ⟨by simpa [viasStep, endLoc] using this.1, ?_, ?_⟩
      · intro t
        have h2 := this.2.1 t
        simp only [List.foldl_cons, viasStep, viasFlat, selectKey_append, selectKey_emit] at h2 ⊢
        rw [h2, Dict.get_foldl_push]
        by_cases h : n = t <;> simp [h]
      · intro hn
        exact this.2.2 (Dict.nodup_keys_foldl_push _ _ _ hn)

theorem mem_emit (loc : Loc) (it : Item) (k : String) :
    (∃ e ∈ emit loc it, e.1 = k) ↔ match it with
      | .pt _ => False
      | .via n _ => k = n
      | .arr n nx ny dx dy => arrayAt loc nx ny dx dy ≠ [] ∧ k = n := by
  cases it with
  | pt p => simp [emit]
  | via n o => simp [emit, eq_comm]
  | arr n nx ny dx dy =>
    simp only [emit, List.mem_map]
    constructor
    · rintro ⟨e, ⟨v, hv, rfl⟩, rfl⟩
      exact ⟨List.ne_nil_of_mem hv, rfl⟩
    · rintro ⟨hne, rfl⟩
      obtain ⟨v, hv⟩ := List.exists_mem_of_ne_nil _ hne
      exact ⟨(k, v), ⟨v, hv, rfl⟩, rfl⟩

theorem mem_keys_foldl_viasStep (l : List Item) (st : Loc × Dict ViaLoc) (k : String) :
    k ∈ (l.foldl viasStep st).2.keys ↔ k ∈ st.2.keys ∨ ∃ e ∈ viasFlat st.1 l, e.1 = k := by
  induction l generalizing st with
  | nil => simp [viasFlat]
  | cons it r ih =>
    obtain ⟨loc, d⟩ := st
    cases it with
    | pt p => simpa [viasStep, viasFlat] using ih (p.onto loc, d)
    | via n o =>
      have := ih (loc, d.push n (loc.1, loc.2, orientOf o))
      simp only [List.foldl_cons, viasStep, viasFlat, List.mem_append, Dict.mem_keys_push] at this ⊢
      rw [this]
      have he := mem_emit loc (.via n o) k
      simp only at he
      constructor
      · rintro ((h | h) | ⟨e, he', h⟩)
        · exact Or.inl h
        · obtain ⟨e, h1, h2⟩ := he.2 h
          exact Or.inr ⟨e, Or.inl h1, h2⟩
        · exact Or.inr ⟨e, Or.inr he', h⟩
      · rintro (h | ⟨e, he' | he', h⟩)
        · exact Or.inl (Or.inl h)
        · exact Or.inl (Or.inr (he.1 ⟨e, he', h⟩))
        · exact Or.inr ⟨e, he', h⟩
    | arr n nx ny dx dy =>
      have := ih (loc, (arrayAt loc nx ny dx dy).foldl (fun d v => d.push n v) d)
      simp only [List.foldl_cons, viasStep, viasFlat, List.mem_append, Dict.mem_keys_foldl_push] at this ⊢
      rw [this]
      have he := mem_emit loc (.arr n nx ny dx dy) k
      simp only at he
      constructor
      · rintro ((h | h) | ⟨e, he', h⟩)
        · exact Or.inl h
        · obtain ⟨e, h1, h2⟩ := he.2 h
          exact Or.inr ⟨e, Or.inl h1, h2⟩
        · exact Or.inr ⟨e, Or.inr he', h⟩
      · rintro (h | ⟨e, he' | he', h⟩)
        · exact Or.inl (Or.inl h)
        · exact Or.inl (Or.inr (he.1 ⟨e, he', h⟩))
        · exact Or.inr ⟨e, he', h⟩

theorem mem_viasD_keys (w : Wire) (k : String) : k ∈ w.viasD.keys ↔ ∃ e ∈ w.viasFlat, e.1 = k := by
  have := mem_keys_foldl_viasStep w.rest (w.loc0, []) k
  simpa [Wire.viasD, Wire.viasFlat, Dict.keys] using this

theorem viasD_get (w : Wire) (t : String) : w.viasD.get t = selectKey t w.viasFlat := by
  have := (foldl_viasStep w.rest (w.loc0, [])).2.1 t
  simpa [Wire.viasD, Wire.viasFlat, Dict.get] using this

theorem viasD_keys_nodup (w : Wire) : w.viasD.keys.Nodup := by
  have := (foldl_viasStep w.rest (w.loc0, [])).2.2
  exact this (by simp [Dict.keys])

/-! ## via arrays -/
theorem mem_arrayAt (loc : Loc) (nx ny : Nat) (dx dy : Int) (v : ViaLoc) :
    v ∈ arrayAt loc nx ny dx dy ↔
      ∃ i j : Nat, i < nx ∧ j < ny ∧ v = (loc.1 + (i : Int) * dx, loc.2 + (j : Int) * dy, "N") := by
  simp only [arrayAt, List.mem_flatMap, List.mem_range, List.mem_map]
  constructor
  · rintro ⟨i, hi, j, hj, rfl⟩; exact ⟨i, j, hi, hj, rfl⟩
  · rintro ⟨i, j, hi, hj, rfl⟩; exact ⟨i, hi, j, hj, rfl⟩

theorem length_arrayAt (loc : Loc) (nx ny : Nat) (dx dy : Int) :
    (arrayAt loc nx ny dx dy).length = nx * ny := by
  simp only [arrayAt, List.length_flatMap, List.length_map, List.length_range]
  induction nx with
  | zero => simp
  | succ n ih => simp [List.range_succ, ih, Nat.succ_mul]

/-- entry at flat index `i * ny + j` -/
theorem getElem_arrayAt (loc : Loc) (nx ny : Nat) (dx dy : Int) (i j : Nat) (hi : i < nx) (hj : j < ny)
    (h : i * ny + j < (arrayAt loc nx ny dx dy).length) :
    (arrayAt loc nx ny dx dy)[i * ny + j] = (loc.1 + (i : Int) * dx, loc.2 + (j : Int) * dy, "N") := by
  induction nx generalizing i with
  | zero => omega
  | succ n ih =>
    have split : arrayAt loc (n + 1) ny dx dy = arrayAt loc n ny dx dy ++
        (List.range ny).map (fun (j : Nat) => (loc.1 + (n : Int) * dx, loc.2 + (j : Int) * dy, "N")) := by
      simp [arrayAt, List.range_succ]
    have hl := length_arrayAt loc n ny dx dy
    by_cases hin : i < n
    · have hlt : i * ny + j < (arrayAt loc n ny dx dy).length := by
        rw [hl]
        calc i * ny + j < i * ny + ny := by omega
          _ = (i + 1) * ny := by rw [Nat.succ_mul]
          _ ≤ n * ny := Nat.mul_le_mul_right _ hin
      have := ih i hin hlt
      simp only [split]
      rw [List.getElem_append_left hlt]; exact this
    · have : i = n := by omega
      subst this
      simp only [split]
      rw [List.getElem_append_right (by rw [hl]; omega)]
      simp [hl]

theorem int_mul_right_cancel {a b d : Int} (hd : d ≠ 0) (h : a * d = b * d) : a = b :=
  Int.eq_of_mul_eq_mul_right hd h

theorem nodup_arrayAt (loc : Loc) (nx ny : Nat) (dx dy : Int) (hx : nx ≤ 1 ∨ dx ≠ 0) (hy : ny ≤ 1 ∨ dy ≠ 0) :
    (arrayAt loc nx ny dx dy).Nodup := by
  unfold arrayAt List.Nodup
  rw [List.pairwise_flatMap]
  refine ⟨?_, ?_⟩
  · intro i _
    rw [List.pairwise_map, List.pairwise_iff_getElem]
    intro a b ha hb hab
    simp only [List.length_range] at ha hb
    simp only [List.getElem_range, ne_eq, Prod.mk.injEq, and_true, not_and]
    intro _ e
    have hy' : dy ≠ 0 := by
      rcases hy with h | h
      · omega
      · exact h
    have := int_mul_right_cancel hy' (by omega : (a : Int) * dy = (b : Int) * dy)
    omega
  · rw [List.pairwise_iff_getElem]
    intro a b ha hb hab
    simp only [List.length_range] at ha hb
    simp only [List.getElem_range]
    intro v hv1 w hv2
    simp only [List.mem_map, List.mem_range] at hv1 hv2
    obtain ⟨j1, _, rfl⟩ := hv1
    obtain ⟨j2, _, rfl⟩ := hv2
    intro e
    simp only [Prod.mk.injEq, and_true] at e
    have hx' : dx ≠ 0 := by
      rcases hx with h | h
      · omega
      · exact h
    have := int_mul_right_cancel hx' (by omega : (a : Int) * dx = (b : Int) * dx)
    omega

/-! ## aggregation -/
theorem get_foldl_wires {β : Type} (pts : Wire → List β) (ws : List Wire) (d : Dict (Option Nat × List β)) (layer : String) :
    (ws.foldl (fun d w => if (pts w).isEmpty then d else d.push w.layer (w.width, pts w)) d).get layer =
      d.get layer ++ ws.flatMap (fun w => if w.layer = layer ∧ ¬ (pts w).isEmpty then [(w.width, pts w)] else []) := by
  induction ws generalizing d with
  | nil => simp
  | cons w ws ih =>
    simp only [List.foldl_cons, List.flatMap_cons, ih]
    by_cases he : (pts w).isEmpty = true
    · simp [he]
    · by_cases hl : w.layer = layer <;> simp [he, hl, Dict.get_push]

theorem keys_foldl_wires {β : Type} (pts : Wire → List β) (ws : List Wire) (d : Dict (Option Nat × List β)) (k : String) :
    k ∈ (ws.foldl (fun d w => if (pts w).isEmpty then d else d.push w.layer (w.width, pts w)) d).keys ↔
      k ∈ d.keys ∨ ∃ w ∈ ws, w.layer = k ∧ ¬ (pts w).isEmpty := by
  induction ws generalizing d with
  | nil => simp
  | cons w ws ih =>
    simp only [List.foldl_cons, ih]
    by_cases he : (pts w).isEmpty = true
    · rw [if_pos he]; constructor
      · rintro (h | ⟨w', hw', h⟩)
        · exact Or.inl h
        · exact Or.inr ⟨w', List.mem_cons_of_mem _ hw', h⟩
      · rintro (h | ⟨w', hw', hl, hn⟩)
        · exact Or.inl h
        · rcases List.mem_cons.1 hw' with rfl | hw''
          · exact absurd he hn
          · exact Or.inr ⟨w', hw'', hl, hn⟩
    · rw [if_neg he, Dict.keys_push]
      by_cases hm : w.layer ∈ d.keys
      · rw [if_pos hm]; constructor
        · rintro (h | ⟨w', hw', h⟩)
          · exact Or.inl h
          · exact Or.inr ⟨w', List.mem_cons_of_mem _ hw', h⟩
        · rintro (h | ⟨w', hw', hl, hn⟩)
          · exact Or.inl h
          · rcases List.mem_cons.1 hw' with rfl | hw''
            · exact Or.inl (hl ▸ hm)
            · exact Or.inr ⟨w', hw'', hl, hn⟩
      · rw [if_neg hm]; constructor
        · rintro (h | ⟨w', hw', h⟩)
          · rcases List.mem_append.1 h with h | h
            · exact Or.inl h
            · have : k = w.layer := by simpa using h
              exact Or.inr ⟨w, List.mem_cons_self, this.symm, he⟩
          · exact Or.inr ⟨w', List.mem_cons_of_mem _ hw', h⟩
        · rintro (h | ⟨w', hw', hl, hn⟩)
          · exact Or.inl (List.mem_append_left _ h)
          · rcases List.mem_cons.1 hw' with rfl | hw''
            · exact Or.inl (List.mem_append_right _ (by simp [hl]))
            · exact Or.inr ⟨w', hw'', hl, hn⟩

theorem nodup_keys_foldl_wires {β : Type} (pts : Wire → List β) (ws : List Wire) (d : Dict (Option Nat × List β))
    (h : d.keys.Nodup) :
    (ws.foldl (fun d w => if (pts w).isEmpty then d else d.push w.layer (w.width, pts w)) d).keys.Nodup := by
  induction ws generalizing d with
  | nil => exact h
  | cons w ws ih =>
    simp only [List.foldl_cons]
    apply ih
    split
    · exact h
    · exact Dict.nodup_keys_push h _ _

theorem get_foldl_extend {α : Type} (kvs : List (String × List α)) (d : Dict α) (t : String) :
    (kvs.foldl (fun d kv => d.extend kv.1 kv.2) d).get t = d.get t ++ (kvs.filter (·.1 = t)).flatMap (·.2) := by
  induction kvs generalizing d with
  | nil => simp
  | cons kv kvs ih =>
    simp only [List.foldl_cons, ih, Dict.get_extend]
    by_cases h : kv.1 = t <;> simp [h]

theorem nodup_keys_foldl_extend {α : Type} (kvs : List (String × List α)) (d : Dict α) (h : d.keys.Nodup) :
    (kvs.foldl (fun d kv => d.extend kv.1 kv.2) d).keys.Nodup := by
  induction kvs generalizing d with
  | nil => exact h
  | cons kv kvs ih => exact ih _ (Dict.nodup_keys_extend h _ _)

theorem mem_keys_foldl_extend {α : Type} (kvs : List (String × List α)) (d : Dict α) (k : String) :
    k ∈ (kvs.foldl (fun d kv => d.extend kv.1 kv.2) d).keys ↔ k ∈ d.keys ∨ k ∈ kvs.map (·.1) := by
  induction kvs generalizing d with
  | nil => simp
  | cons kv kvs ih =>
    simp only [List.foldl_cons, ih, Dict.mem_keys_extend, List.map_cons, List.mem_cons]
    constructor
    · rintro ((h | h) | h)
      · exact Or.inl h
      · exact Or.inr (Or.inl h)
      · exact Or.inr (Or.inr h)
    · rintro (h | h | h)
      · exact Or.inl (Or.inl h)
      · exact Or.inl (Or.inr h)
      · exact Or.inr h

theorem mem_keys_foldl_vias (ws : List Wire) (d : Dict ViaLoc) (k : String) :
    k ∈ (ws.foldl (fun d w => w.viasD.foldl (fun d kv => d.extend kv.1 kv.2) d) d).keys ↔
      k ∈ d.keys ∨ ∃ w ∈ ws, k ∈ w.viasD.keys := by
  induction ws generalizing d with
  | nil => simp
  | cons w ws ih =>
    simp only [List.foldl_cons, ih, mem_keys_foldl_extend, List.mem_cons, exists_eq_or_imp]
    simp only [Dict.keys, or_assoc]

theorem get_foldl_vias (ws : List Wire) (d : Dict ViaLoc) (t : String) :
    (ws.foldl (fun d w => w.viasD.foldl (fun d kv => d.extend kv.1 kv.2) d) d).get t =
      d.get t ++ ws.flatMap (fun w => w.viasD.get t) := by
  induction ws generalizing d with
  | nil => simp
  | cons w ws ih =>
    simp only [List.foldl_cons, List.flatMap_cons, ih, get_foldl_extend, Dict.items_get (viasD_keys_nodup w)]
    simp

theorem nodup_keys_foldl_vias (ws : List Wire) (d : Dict ViaLoc) (h : d.keys.Nodup) :
    (ws.foldl (fun d w => w.viasD.foldl (fun d kv => d.extend kv.1 kv.2) d) d).keys.Nodup := by
  induction ws generalizing d with
  | nil => exact h
  | cons w ws ih => exact ih _ (nodup_keys_foldl_extend _ _ h)

end KV.Def
