import KyupyVerif.Model.Stil
/-! Helper lemmas for C18: one pass over a chain (`invScan`), consecutive array stores (`applyWrites`),
the write lists of the three assembly loops. -/
deriving instance DecidableEq for Except

namespace KV.Stil
open KV

/-! ## chains -/
theorem odd_succ (k : Nat) : odd (k + 1) = !odd k := by
  unfold odd
  rcases Nat.mod_two_eq_zero_or_one k with h | h <;> simp [Nat.add_mod, h]

theorem cellsOf_append (a b : List String) : cellsOf (a ++ b) = cellsOf a ++ cellsOf b := by
  simp [cellsOf]
theorem markers_append (a b : List String) : markers (a ++ b) = markers a + markers b := by
  simp [markers]
theorem cellsOf_reverse (l : List String) : cellsOf l.reverse = (cellsOf l).reverse := by
  simp [cellsOf, List.filter_reverse]
theorem markers_reverse (l : List String) : markers l.reverse = markers l := by
  simp [markers, List.filter_reverse]
theorem cellsOf_cons_cell {x : String} (hx : isMark x = false) (l : List String) : cellsOf (x :: l) = x :: cellsOf l := by
  simp [cellsOf, hx]
theorem markers_cons_cell {x : String} (hx : isMark x = false) (l : List String) : markers (x :: l) = markers l := by
  simp [markers, hx]

theorem invScan_length (b : Bool) (l : List String) : (invScan b l).length = (cellsOf l).length := by
  induction l generalizing b with
  | nil => rfl
  | cons n r ih =>
    unfold invScan
    by_cases h : isMark n = true
    · simp [h, cellsOf, ih]
    · have h' : isMark n = false := by simpa using h
      simp [h', cellsOf, ih]

theorem invScan_append (b : Bool) (pre rest : List String) :
    invScan b (pre ++ rest) = invScan b pre ++ invScan (b ^^ odd (markers pre)) rest := by
  induction pre generalizing b with
  | nil => simp [invScan, markers, odd]
  | cons n r ih =>
    by_cases h : isMark n = true
    · have hm : markers (n :: r) = markers r + 1 := by simp [markers, h]
      simp only [List.cons_append, invScan, h, if_true, hm, odd_succ]
      rw [ih]
      cases b <;> cases odd (markers r) <;> rfl
    · have h' : isMark n = false := by simpa using h
      simp only [List.cons_append, invScan, h', markers_cons_cell h']
      simp [ih]

theorem invScan_cell (b : Bool) {x : String} (hx : isMark x = false) (post : List String) :
    invScan b (x :: post) = b :: invScan b post := by
  simp [invScan, hx]

/-- position `j` from scan-out of the cell `x` in `pre ++ x :: post` -/
theorem scanNames_at (pre post : List String) {x : String} (hx : isMark x = false) :
    (scanNames (pre ++ x :: post))[(cellsOf post).length]? = some x := by
  unfold scanNames
  rw [List.reverse_append, List.reverse_cons, List.append_assoc, cellsOf_append, cellsOf_append]
  have : (cellsOf post.reverse).length = (cellsOf post).length := by simp [cellsOf_reverse]
  rw [List.getElem?_append_right (by omega), this]
  simp [cellsOf, hx]

theorem scanInInv_at (pre post : List String) {x : String} (hx : isMark x = false) :
    (scanInInv (pre ++ x :: post))[(cellsOf post).length]? = some (odd (markers pre)) := by
  unfold scanInInv
  rw [invScan_append, invScan_cell _ hx, List.reverse_append, List.reverse_cons, List.append_assoc]
  have : (invScan (false ^^ odd (markers pre)) post).reverse.length = (cellsOf post).length := by
    simp [invScan_length]
  rw [List.getElem?_append_right (by omega), this]
  simp

theorem scanOutInv_at (pre post : List String) {x : String} (hx : isMark x = false) :
    (scanOutInv (pre ++ x :: post))[(cellsOf post).length]? = some (odd (markers post)) := by
  unfold scanOutInv
  rw [List.reverse_append, List.reverse_cons, List.append_assoc, invScan_append]
  have : (invScan false post.reverse).length = (cellsOf post).length := by
    simp [invScan_length, cellsOf_reverse]
  rw [List.getElem?_append_right (by omega), this]
  simp [invScan_cell _ hx, markers_reverse]

theorem scanNames_length (mid : List String) : (scanNames mid).length = (cellsOf mid).length := by
  simp [scanNames, cellsOf_reverse]
theorem scanInInv_length (mid : List String) : (scanInInv mid).length = (cellsOf mid).length := by
  simp [scanInInv, invScan_length]
theorem scanOutInv_length (mid : List String) : (scanOutInv mid).length = (cellsOf mid).length := by
  simp [scanOutInv, invScan_length, cellsOf_reverse]

/-! ## consecutive stores -/
theorem applyWrites_length (col : List V3) (ws : List (Nat × V3)) : (applyWrites col ws).length = col.length := by
  induction ws generalizing col with
  | nil => rfl
  | cons w r ih => simp [applyWrites, List.foldl_cons] ; have := ih (col.set w.1 w.2) ; simpa [applyWrites] using this

theorem applyWrites_cons (col : List V3) (w : Nat × V3) (ws : List (Nat × V3)) :
    applyWrites col (w :: ws) = applyWrites (col.set w.1 w.2) ws := rfl

theorem applyWrites_get_of_not_mem (col : List V3) (ws : List (Nat × V3)) (r : Nat)
    (h : r ∉ ws.map Prod.fst) : (applyWrites col ws)[r]? = col[r]? := by
  induction ws generalizing col with
  | nil => rfl
  | cons w rest ih =>
    rw [applyWrites_cons, ih]
    · have : w.1 ≠ r := by intro e; apply h; simp [e]
      exact List.getElem?_set_ne this
    · intro hm; apply h; simp only [List.map_cons, List.mem_cons]; exact Or.inr hm

/-- with pairwise different target rows, a store is what is read back -/
theorem applyWrites_get_unique (col : List V3) (ws : List (Nat × V3)) (r : Nat) (v : V3)
    (hnd : (ws.map Prod.fst).Nodup) (hm : (r, v) ∈ ws) (hr : r < col.length) :
    (applyWrites col ws)[r]? = some v := by
  induction ws generalizing col with
  | nil => cases hm
  | cons w rest ih =>
    rw [applyWrites_cons]
    simp only [List.map_cons, List.nodup_cons] at hnd
    rcases List.mem_cons.1 hm with e | hm'
    · subst e
      rw [applyWrites_get_of_not_mem _ _ _ hnd.1]
      exact List.getElem?_set_self hr
    · exact ih _ hnd.2 hm' (by simpa using hr)

/-! ## sublists of target rows -/
theorem zip_fst_sublist {α β : Type} (l : List α) (l' : List β) : ((l.zip l').map Prod.fst).Sublist l := by
  induction l generalizing l' with
  | nil => simp
  | cons a r ih =>
    cases l' with
    | nil => simp
    | cons b r' => simp only [List.zip_cons_cons, List.map_cons]; exact (ih r').cons₂ a

theorem flatMap_sublist {α β : Type} (l : List α) (f g : α → List β) (h : ∀ a, (f a).Sublist (g a)) :
    (l.flatMap f).Sublist (l.flatMap g) := by
  induction l with
  | nil => simp
  | cons a r ih => simp only [List.flatMap_cons]; exact (h a).append ih

theorem loadWrites_targets (f : Bool → V3 → V3) (cms : List ChainMap) (p : Pat) :
    ((loadWrites f cms p).map Prod.fst).Sublist (cms.flatMap (·.map)) := by
  unfold loadWrites
  rw [List.map_flatMap]
  exact flatMap_sublist _ _ _ fun cm => zip_fst_sublist _ _

theorem unloadWrites_targets (cms : List ChainMap) (p : Pat) :
    ((unloadWrites cms p).map Prod.fst).Sublist (cms.flatMap (·.map)) := by
  unfold unloadWrites
  rw [List.map_flatMap]
  exact flatMap_sublist _ _ _ fun cm => zip_fst_sublist _ _

theorem mem_zip_of_getElem? {α β : Type} {l : List α} {l' : List β} {j : Nat} {a : α} {b : β}
    (h1 : l[j]? = some a) (h2 : l'[j]? = some b) : (a, b) ∈ l.zip l' :=
  List.mem_iff_getElem?.2 ⟨j, List.getElem?_zip_eq_some.2 ⟨h1, h2⟩⟩

/-! ## maps in property mode -/
theorem str_of_lookup {d : Dict} {k : String} {s : List Char} (h : d.lookup k = some s) : str d k = s := by
  simp [str, h]

theorem idxOf_get {l : List String} {x : String} (h : x ∈ l) : l[l.idxOf x]? = some x := by
  have hl : l.idxOf x < l.length := List.idxOf_lt_length_iff.2 h
  rw [List.getElem?_eq_getElem hl, List.getElem_idxOf hl]

/-! ### name → row (audit finding 2): the last position of a name, by role -/
theorem lastIdx_get {l : List String} {x : String} (h : x ∈ l) : l[lastIdx l x]? = some x ∧ lastIdx l x < l.length := by
  have hr : x ∈ l.reverse := List.mem_reverse.2 h
  have hl : l.reverse.idxOf x < l.reverse.length := List.idxOf_lt_length_iff.2 hr
  have hl' : l.reverse.idxOf x < l.length := by simpa using hl
  have hg : l.reverse[l.reverse.idxOf x]? = some x := idxOf_get hr
  unfold lastIdx
  refine ⟨?_, by omega⟩
  rw [List.getElem?_reverse hl'] at hg
  exact hg

theorem mem_take_or_drop {l : List String} {x : String} (n : Nat) (h : x ∈ l) : x ∈ l.take n ∨ x ∈ l.drop n := by
  rw [← List.take_append_drop n l] at h
  exact List.mem_append.1 h

theorem take_get {l : List String} {n i : Nat} {x : String} (h : (l.take n)[i]? = some x) : l[i]? = some x ∧ i < l.length := by
  have hi : i < (l.take n).length := (List.getElem?_eq_some_iff.1 h).1
  rw [List.getElem?_take] at h
  split at h
  · exact ⟨h, (List.getElem?_eq_some_iff.1 h).1⟩
  · cases h

theorem drop_get {l : List String} {n i : Nat} {x : String} (h : (l.drop n)[i]? = some x) : l[n + i]? = some x ∧ n + i < l.length := by
  rw [List.getElem?_drop] at h
  exact ⟨h, (List.getElem?_eq_some_iff.1 h).1⟩

theorem cellPos_get {nio : Nat} {l : List String} {x : String} (h : x ∈ l) : l[cellPos nio l x]? = some x ∧ cellPos nio l x < l.length := by
  unfold cellPos
  by_cases hd : (l.drop nio).contains x = true
  · simp only [hd, if_true]
    exact drop_get (lastIdx_get (by simpa using hd)).1
  · simp only [hd, Bool.false_eq_true, if_false]
    have : x ∈ l.take nio := by
      rcases mem_take_or_drop nio h with h' | h'
      · exact h'
      · exact absurd (by simpa using h') hd
    exact take_get (lastIdx_get this).1

theorem portPos_get {nio : Nat} {l : List String} {x : String} (h : x ∈ l) : l[portPos nio l x]? = some x ∧ portPos nio l x < l.length := by
  unfold portPos
  by_cases hd : (l.take nio).contains x = true
  · simp only [hd, if_true]
    exact take_get (lastIdx_get (by simpa using hd)).1
  · simp only [hd, Bool.false_eq_true, if_false]
    have : x ∈ l.drop nio := by
      rcases mem_take_or_drop nio h with h' | h'
      · exact absurd (by simpa using h') hd
      · exact h'
    exact drop_get (lastIdx_get this).1

theorem cellRow_get {c : Circ} {x : String} (h : x ∈ c.sNodes) : c.sNodes[c.cellRow x]? = some x := (cellPos_get h).1
theorem cellRow_lt {c : Circ} {x : String} (h : x ∈ c.sNodes) : c.cellRow x < c.sNodes.length := (cellPos_get h).2
theorem portRow_get {c : Circ} {x : String} (h : x ∈ c.sNodes) : c.sNodes[c.portRow x]? = some x := (portPos_get h).1
theorem portRow_lt {c : Circ} {x : String} (h : x ∈ c.sNodes) : c.portRow x < c.sNodes.length := (portPos_get h).2

/-- the state-element part of `s_nodes` -/
def Circ.stateNames (c : Circ) : List String :=
  (c.nodes.filter fun n => Stil.hasSub "dff".toList (lowerOf n.2)).map (·.1) ++
  (c.nodes.filter fun n => Stil.hasSub "latch".toList (lowerOf n.2)).map (·.1)

theorem sNodes_split (c : Circ) : c.sNodes = c.io ++ c.stateNames := by simp [Circ.sNodes, Circ.stateNames]
theorem sNodes_take (c : Circ) : c.sNodes.take c.io.length = c.io := by rw [sNodes_split]; simp
theorem sNodes_drop (c : Circ) : c.sNodes.drop c.io.length = c.stateNames := by rw [sNodes_split]; simp

/-- **by role**: a scan cell that IS a state element gets a state row (at or behind `io.length`) — also when a port has its name -/
theorem cellRow_state {c : Circ} {x : String} (h : x ∈ c.stateNames) :
    c.io.length ≤ c.cellRow x ∧ c.stateNames[c.cellRow x - c.io.length]? = some x := by
  unfold Circ.cellRow cellPos
  have hd : c.stateNames.contains x = true := by simpa using h
  simp only [sNodes_drop, hd, if_true]
  exact ⟨by omega, by rw [Nat.add_sub_cancel_left]; exact (lastIdx_get h).1⟩

/-- **by role**: a `_pi`/`_po` member that IS a port gets a port row (in front of `io.length`) — also when a flip-flop has its name -/
theorem portRow_port {c : Circ} {x : String} (h : x ∈ c.io) : c.portRow x < c.io.length ∧ c.io[c.portRow x]? = some x := by
  unfold Circ.portRow portPos
  have hd : c.io.contains x = true := by simpa using h
  simp only [sNodes_take, hd, if_true]
  exact ⟨(lastIdx_get h).2, (lastIdx_get h).1⟩

/-- where names are unique all look-ups agree with the first position (the earlier formulation of the theorems) -/
theorem lastIdx_nodup {l : List String} {x : String} (hnd : l.Nodup) (h : x ∈ l) : lastIdx l x = l.idxOf x := by
  have h1 := lastIdx_get h
  have h2 : l[l.idxOf x]? = some x := idxOf_get h
  exact (List.getElem?_inj h1.2 hnd).1 (h1.1.trans h2.symm)

/-- all target rows of the scan cells (per chain, from scan-out), of `_pi` and of `_po` -/
def Maps.scanRows (m : Maps) : List Nat := m.chains.flatMap (·.map)

section cell
variable (c : Circ) (fl : File) (p : Pat) (ch : Chain) (pre post : List String) (x : String)

theorem chainMap_mem (hch : ch ∈ fl.chains) :
    chainMap .spec c.io.length c.sNodes ch ∈ (mapsPure .spec c fl).chains := by
  simp only [mapsPure, Mode.spec, Circ.intf]
  exact List.mem_map_of_mem hch

theorem chainMap_row (hmid : ch.mid = pre ++ x :: post) (hx : isMark x = false) :
    (chainMap .spec c.io.length c.sNodes ch).map[(cellsOf post).length]? = some (c.cellRow x) := by
  simp only [chainMap, List.getElem?_map, hmid, scanNames_at pre post hx, Option.map_some]
  rfl

theorem row_mem_scanRows (hch : ch ∈ fl.chains) (hmid : ch.mid = pre ++ x :: post) (hx : isMark x = false) :
    c.cellRow x ∈ (mapsPure .spec c fl).scanRows := by
  unfold Maps.scanRows
  exact List.mem_flatMap.2 ⟨_, chainMap_mem c fl ch hch, List.mem_of_getElem? (chainMap_row c ch pre post x hmid hx)⟩

/-- the store that the load loop performs for the cell `x` of chain `ch` -/
theorem loadWrites_mem (f : Bool → V3 → V3) (hch : ch ∈ fl.chains) (hmid : ch.mid = pre ++ x :: post)
    (hx : isMark x = false) {s : List Char} (hs : p.load.lookup ch.si = some s) {cj : Char}
    (hcj : s[(cellsOf post).length]? = some cj) :
    (c.cellRow x, f (odd (markers pre)) (interp cj)) ∈ loadWrites f (mapsPure .spec c fl).chains p := by
  unfold loadWrites
  refine List.mem_flatMap.2 ⟨_, chainMap_mem c fl ch hch, ?_⟩
  refine mem_zip_of_getElem? (chainMap_row c ch pre post x hmid hx) ?_
  rw [List.getElem?_zipWith_eq_some]
  refine ⟨odd (markers pre), interp cj, ?_, ?_, rfl⟩
  · simp only [chainMap, Mode.spec, invVec, hmid]; exact scanInInv_at pre post hx
  · simp only [chainMap, str_of_lookup hs, mvarray, List.getElem?_map, hcj, Option.map_some]

theorem unloadWrites_mem (hch : ch ∈ fl.chains) (hmid : ch.mid = pre ++ x :: post)
    (hx : isMark x = false) {s : List Char} (hs : p.unload.lookup ch.so = some s) {cj : Char}
    (hcj : s[(cellsOf post).length]? = some cj) :
    (c.cellRow x, xorInv (odd (markers post)) (interp cj)) ∈ unloadWrites (mapsPure .spec c fl).chains p := by
  unfold unloadWrites
  refine List.mem_flatMap.2 ⟨_, chainMap_mem c fl ch hch, ?_⟩
  refine mem_zip_of_getElem? (chainMap_row c ch pre post x hmid hx) ?_
  rw [List.getElem?_zipWith_eq_some]
  refine ⟨odd (markers post), interp cj, ?_, ?_, rfl⟩
  · simp only [chainMap, Mode.spec, invVec, hmid]; exact scanOutInv_at pre post hx
  · simp only [chainMap, str_of_lookup hs, mvarray, List.getElem?_map, hcj, Option.map_some]

end cell

theorem blank_length (m : Maps) : (blank m).length = m.n := by simp [blank]
theorem mapsPure_n (c : Circ) (fl : File) : (mapsPure .spec c fl).n = c.sNodes.length := rfl

/-- a `_pi` / `_po` store: `k`-th member of the group and `k`-th character -/
theorem group_write_mem (c : Circ) (names : List String) (s : List Char) (k : Nat) (x : String) (ck : Char)
    (hk : names[k]? = some x) (hs : s[k]? = some ck) :
    (c.portRow x, interp ck) ∈ (names.map fun n => portLook .spec c.io.length c.sNodes n).zip (mvarray s) := by
  refine mem_zip_of_getElem? (j := k) ?_ ?_
  · simp only [List.getElem?_map, hk, Option.map_some]; rfl
  · simp [mvarray, hs]

/-! ## results of the three functions when nothing raises -/
theorem tests_ok {mode : Mode} {c : Circ} {fl : File} {M : List (List V3)} (h : tests mode c fl = .ok M) :
    M = (extract fl).map (testsCol (mapsPure mode c fl)) := by
  unfold tests at h
  split at h
  · cases h
  · simp only at h
    split at h
    · cases h
    · injection h with h; exact h.symm

theorem responses_ok {mode : Mode} {c : Circ} {fl : File} {M : List (List V3)} (h : responses mode c fl = .ok M) :
    M = (extract fl).map (respCol (mapsPure mode c fl)) := by
  unfold responses at h
  split at h
  · cases h
  · simp only at h
    split at h
    · cases h
    · injection h with h; exact h.symm

theorem firstErr_none {l : List (Option Err)} (h : firstErr l = none) : ∀ e ∈ l, e = none := by
  induction l with
  | nil => intro e he; cases he
  | cons a r ih =>
    cases a with
    | some e => simp [firstErr] at h
    | none =>
      intro e he
      rcases List.mem_cons.1 he with rfl | he
      · rfl
      · exact ih (by simpa [firstErr] using h) e he

theorem testsLoc_ok {mode : Mode} {c : Circ} {fl : File} {nxt M : List (List V3)}
    (h : testsLoc mode c fl nxt = .ok M) :
    M = zipCols (locCol (mapsPure mode c fl)) (extract fl) nxt ∧
      nxt.length = (extract fl).length ∧ ∀ nx ∈ nxt, nx.length = c.sNodes.length := by
  unfold testsLoc at h
  split at h
  · cases h
  · simp only at h
    split at h
    · cases h
    · rename_i he
      injection h with h
      refine ⟨h.symm, ?_⟩
      have := firstErr_none he
        (if (mapsPure mode c fl).n == c.sNodes.length && nxt.length == (extract fl).length &&
            nxt.all (·.length == c.sNodes.length) then none else some .shape)
        (by simp)
      split at this
      · rename_i hc
        simp only [Bool.and_eq_true, beq_iff_eq, List.all_eq_true] at hc
        exact ⟨hc.1.2, hc.2⟩
      · cases this

theorem zipCols_get (g : Pat → List V3 → List V3) (ps : List Pat) (nxt : List (List V3)) (i : Nat) (p : Pat)
    (nx : List V3) (hp : ps[i]? = some p) (hn : nxt[i]? = some nx) : (zipCols g ps nxt)[i]? = some (g p nx) := by
  induction ps generalizing nxt i with
  | nil => cases i <;> cases hp
  | cons q qs ih =>
    cases nxt with
    | nil => cases i <;> cases hn
    | cons y ys =>
      cases i with
      | zero => simp at hp hn; subst hp; subst hn; simp [zipCols]
      | succ k => simp at hp hn; simp [zipCols]; exact ih ys k hp hn

theorem zipCols_length (g : Pat → List V3 → List V3) (ps : List Pat) (nxt : List (List V3))
    (h : nxt.length = ps.length) : (zipCols g ps nxt).length = ps.length := by
  induction ps generalizing nxt with
  | nil => cases nxt <;> simp [zipCols]
  | cons q qs ih =>
    cases nxt with
    | nil => simp at h
    | cons y ys => simp [zipCols]; exact ih ys (by simpa using h)

/-! ## no exception ⇒ every name resolves -/
theorem mapsErr_none_cells {mode : Mode} {c : Circ} {fl : File} (h : mapsErr mode c fl = none) (ch : Chain)
    (hch : ch ∈ fl.chains) (x : String) (hx : x ∈ cellsOf ch.mid) : x ∈ c.intf mode.intf := by
  unfold mapsErr at h
  have := firstErr_none h (keyErr (c.intf mode.intf) (cellsOf ch.mid)) (by
    simp only [List.mem_append, List.mem_flatMap]; right; exact ⟨ch, hch, by simp⟩)
  unfold keyErr at this
  split at this
  · rename_i hall
    simp only [List.all_eq_true] at hall
    simpa using hall x hx
  · cases this

theorem mapsErr_none_group {mode : Mode} {c : Circ} {fl : File} (h : mapsErr mode c fl = none) (g : String)
    (hg : g = "_pi" ∨ g = "_po") (x : String) (hx : x ∈ group fl g) : x ∈ c.intf mode.intf := by
  unfold mapsErr at h
  have := firstErr_none h (keyErr (c.intf mode.intf) (group fl g)) (by
    rcases hg with rfl | rfl <;> simp)
  unfold keyErr at this
  split at this
  · rename_i hall
    simp only [List.all_eq_true] at hall
    simpa using hall x hx
  · cases this

theorem tests_ok_maps {mode : Mode} {c : Circ} {fl : File} {M : List (List V3)} (h : tests mode c fl = .ok M) :
    mapsErr mode c fl = none := by
  unfold tests at h
  split at h
  · cases h
  · assumption
theorem responses_ok_maps {mode : Mode} {c : Circ} {fl : File} {M : List (List V3)} (h : responses mode c fl = .ok M) :
    mapsErr mode c fl = none := by
  unfold responses at h
  split at h
  · cases h
  · assumption
theorem testsLoc_ok_maps {mode : Mode} {c : Circ} {fl : File} {nxt M : List (List V3)} (h : testsLoc mode c fl nxt = .ok M) :
    mapsErr mode c fl = none := by
  unfold testsLoc at h
  split at h
  · cases h
  · assumption

end KV.Stil
