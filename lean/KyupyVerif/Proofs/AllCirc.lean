import KyupyVerif.Proofs.SemL
import KyupyVerif.Proofs.GenOpsWO
import KyupyVerif.Gen.Tables
/-! Lifting program-level theorems to ALL circuits (C02, C05, C16).

Generic part (any value domain): for a well-ordered program (`WOJ`, which `genOps_WOJ` proves for the op program of every
well-formed netlist in every topological order)
* simulating with a dispatch `sem` that agrees with a specification `spec` on the ops of the program yields THE solution of
  the `spec` equation system (`sim_is_spec_solution`);
* a relation preserved by every op relates ANY two solutions of the two equation systems (`solutions_related`) — this is
  how X-soundness, the component homomorphism and the waveform abstraction are stated on the netlist, without mentioning
  an execution order.

Netlist part: every op code `SimOps` can emit for a netlist is one of the 33 primitives (`genOps_known`): interface rows
carry `BUF1`/`INV1`, fork rows `BUF1`, cell rows a code of the generated prefix table `Gen.kindPrefixes`, all of whose codes
are codes of `Gen.prims` (kernel-checked table fact). -/
namespace KV
open KV.Sig

/-! ### equal semantics on the ops of a program -/

theorem All2.eq_of_eq {α} {xs ys : List α} (h : All2 (fun a b => a = b) xs ys) : xs = ys := by
  induction h with
  | nil => rfl
  | cons h _ ih => rw [h, ih]

theorem execG_congr_on {α} (s1 s2 : Op → List α → α) (ops : List Op)
    (h : ∀ op ∈ ops, ∀ xs, s1 op xs = s2 op xs) (env : Nat → α) : execG s1 ops env = execG s2 ops env := by
  funext l
  apply execG_rel_on (fun a b => a = b) s1 s2 ops _ env env (fun _ => rfl)
  intro op hop xs ys hxy
  rw [All2.eq_of_eq hxy]
  exact h op hop ys

theorem solvesJ_congr_on {α} (J : Nat → Bool) (s1 s2 : Op → List α → α) (ops : List Op)
    (h : ∀ op ∈ ops, ∀ xs, s1 op xs = s2 op xs) (env val : Nat → α) (hs : SolvesJ J s1 ops env val) :
    SolvesJ J s2 ops env val :=
  ⟨hs.1, fun o ho hj => by rw [hs.2 o ho hj, h o ho]⟩

/-- simulation with the dispatched semantics computes THE solution of the specified equation system -/
theorem sim_is_spec_solution {α} (J : Nat → Bool) (sem spec : Op → List α → α) (ops : List Op) (hw : WOJ J ops)
    (heq : ∀ op ∈ ops, ∀ xs, sem op xs = spec op xs) (env : Nat → α) :
    SolvesJ J spec ops env (execG sem ops env) ∧
    ∀ val, SolvesJ J spec ops env val → ∀ x, J x = false → val x = execG sem ops env x := by
  rw [execG_congr_on sem spec ops heq env]
  exact ⟨execG_solution J spec ops hw env, fun val hs => solution_uniqueJ J spec ops hw env val hs⟩

/-- a relation preserved by every op of a well-ordered program relates any solution of the first equation system to any
    solution of the second, on every signal except the scratch slot -/
theorem solutions_related {α β} (J : Nat → Bool) (R : α → β → Prop) (s1 : Op → List α → α) (s2 : Op → List β → β)
    (ops : List Op) (hw : WOJ J ops)
    (hop : ∀ op ∈ ops, ∀ (xs : List α) (ys : List β), All2 R xs ys → R (s1 op xs) (s2 op ys))
    (e1 : Nat → α) (e2 : Nat → β) (h : ∀ l, R (e1 l) (e2 l)) (v1 : Nat → α) (v2 : Nat → β)
    (h1 : SolvesJ J s1 ops e1 v1) (h2 : SolvesJ J s2 ops e2 v2) :
    ∀ x, J x = false → R (v1 x) (v2 x) := by
  intro x hx
  rw [solution_uniqueJ J s1 ops hw e1 v1 h1 x hx, solution_uniqueJ J s2 ops hw e2 v2 h2 x hx]
  exact execG_rel_on R s1 s2 ops hop e1 e2 h x

/-! ### the op codes of a generated program -/

theorem selectPrim_mem {tbl : List PrefixRow} {k : String} {c2 c3 : Bool} {sp : Nat}
    (h : selectPrim tbl k c2 c3 = some sp) : ∃ r ∈ tbl, sp = r.p4 ∨ sp = r.p3 ∨ sp = r.p2 := by
  unfold selectPrim at h
  split at h
  · cases h
  · rename_i r hr
    refine ⟨r, List.mem_of_find?_eq_some hr, ?_⟩
    simp only [Option.some.injEq] at h
    subst h
    cases c3
    · cases c2
      · exact Or.inr (Or.inr rfl)
      · exact Or.inr (Or.inl rfl)
    · exact Or.inl rfl

/-- every op of node `n` carries `BUF1`, `INV1` or a code of the prefix table -/
theorem nodeOps_code (tbl : List PrefixRow) (net : Net) (sn : List Nat) (ix : Idx) (strip : Bool) (n : Nat)
    (op : OpRow) (h : op ∈ nodeOpsS tbl net sn ix strip n) :
    op.lut = BUF1 ∨ op.lut = INV1 ∨ ∃ r ∈ tbl, op.lut = r.p4 ∨ op.lut = r.p3 ∨ op.lut = r.p2 := by
  unfold nodeOpsS at h
  simp only at h
  split at h
  · simp only [List.mem_filterMap] at h
    obtain ⟨⟨o, k⟩, _, hg⟩ := h
    cases o with
    | none => simp at hg
    | some l =>
      simp only [Option.map_some, Option.some.injEq] at hg
      subst hg
      simp only
      split
      · exact Or.inr (Or.inl rfl)
      · exact Or.inl rfl
  · split at h
    · split at h
      · cases h
      · simp only [List.mem_filterMap] at h
        obtain ⟨⟨o, k⟩, _, hg⟩ := h
        cases o with
        | none => simp at hg
        | some l =>
          simp only [Option.map_some, Option.some.injEq] at hg
          subst hg
          exact Or.inl rfl
    · split at h
      · rename_i sp hsp
        simp only [List.mem_singleton] at h
        subst h
        exact Or.inr (Or.inr (selectPrim_mem hsp))
      · cases h

theorem known_of_contains {c : Nat} (h : (Gen.prims.map (·.2)).contains c = true) : KnownCode c := by
  simp only [List.contains_eq_mem, List.mem_map, decide_eq_true_eq] at h
  obtain ⟨⟨name, code⟩, hm, rfl⟩ := h
  exact ⟨name, hm⟩

/-- table fact (kernel-checked on the generated tables): every code of `kind_prefixes` is a code of `sim.names` -/
theorem prefix_codes_in_prims :
    ∀ r ∈ Gen.kindPrefixes, ∀ c ∈ [r.p4, r.p3, r.p2], (Gen.prims.map (·.2)).contains c = true := by
  decide +kernel

theorem buf1_inv1_in_prims : (Gen.prims.map (·.2)).contains BUF1 = true ∧ (Gen.prims.map (·.2)).contains INV1 = true := by
  decide +kernel

/-- **every op code of the program generated from ANY netlist is a known primitive** -/
theorem genOps_known (net : Net) (order : List Nat) (strip : Bool) :
    KnownProg ((genOps Gen.kindPrefixes net order strip).map OpRow.toOp) := by
  intro op hop
  obtain ⟨r, hr, rfl⟩ := List.mem_map.mp hop
  simp only [genOps, List.mem_flatMap] at hr
  obtain ⟨n, _, hn⟩ := hr
  show KnownCode r.lut
  rcases nodeOps_code _ _ _ _ _ _ _ hn with h | h | ⟨row, hrow, h⟩
  · rw [h]; exact known_of_contains buf1_inv1_in_prims.1
  · rw [h]; exact known_of_contains buf1_inv1_in_prims.2
  · apply known_of_contains
    apply prefix_codes_in_prims row hrow
    simp only [List.mem_cons, List.mem_nil_iff, or_false]
    exact h

/-- the same for the stripped schedule with operands resolved through the stems (codes are unchanged) -/
theorem genOps_known_map (net : Net) (order : List Nat) (strip : Bool) (g : OpRow → Op) (hg : ∀ r, (g r).code = r.lut) :
    KnownProg ((genOps Gen.kindPrefixes net order strip).map g) := by
  intro op hop
  obtain ⟨r, hr, rfl⟩ := List.mem_map.mp hop
  rw [hg]
  exact genOps_known net order strip r.toOp (List.mem_map_of_mem hr)

/-! ### outputs of a generated program: lines or the scratch slot -/

theorem orderOK_lt {net : Net} {order : List Nat} (ho : orderOKB net order = true) : ∀ n ∈ order, n < net.nodes.size := by
  unfold orderOKB at ho
  simp only [Bool.and_eq_true, List.all_eq_true, decide_eq_true_eq] at ho
  exact ho.1.2

theorem genOps_out_line (tbl : List PrefixRow) (net : Net) (order : List Nat) (strip : Bool)
    (hwf : net.wfB = true) (ho : orderOKB net order = true) :
    ∀ op ∈ (genOps tbl net order strip).map OpRow.toOp, op.out = net.idx.tmp ∨ op.out < net.lines.size := by
  intro op hop
  obtain ⟨r, hr, rfl⟩ := List.mem_map.mp hop
  simp only [genOps, List.mem_flatMap] at hr
  obtain ⟨n, hn, hmem⟩ := hr
  show r.out = _ ∨ r.out < _
  rcases nodeOps_out _ _ _ _ _ _ _ hmem with h | ⟨pin, hpin⟩
  · exact Or.inl h
  · exact Or.inr (wf_out hwf (orderOK_lt ho n hn) hpin).1

theorem Jt_line {net : Net} {l : Nat} (h : l < net.lines.size) : Jt net l = false := by
  simp only [Jt, beq_eq_false_iff_ne, (idx_vals net).2.1]
  omega

/-! ### code-indexed semantics (LogicSim) on the program of a netlist -/

/-- **every netlist, every topological order**: simulating the generated program with a dispatch that agrees with the
    specification on the known op codes computes THE solution of the netlist's gate equations in the specified algebra -/
theorem logic_all_circuits {α} (sem spec : Nat → List α → α)
    (heq : ∀ code, KnownCode code → ∀ xs, sem code xs = spec code xs)
    (net : Net) (order : List Nat) (strip : Bool) (hwf : net.wfB = true) (ho : orderOKB net order = true) (env : Nat → α) :
    SolvesJ (Jt net) (fun op => spec op.code) ((genOps Gen.kindPrefixes net order strip).map OpRow.toOp) env
      (exec sem ((genOps Gen.kindPrefixes net order strip).map OpRow.toOp) env) ∧
    ∀ val, SolvesJ (Jt net) (fun op => spec op.code) ((genOps Gen.kindPrefixes net order strip).map OpRow.toOp) env val →
      ∀ x, Jt net x = false → val x = exec sem ((genOps Gen.kindPrefixes net order strip).map OpRow.toOp) env x :=
  sim_is_spec_solution (Jt net) (fun op => sem op.code) (fun op => spec op.code) _
    (genOps_WOJ Gen.kindPrefixes net order strip hwf ho)
    (fun op hop xs => heq op.code (genOps_known net order strip op hop) xs) env

/-- **every netlist, every topological order**: a relation preserved by every known primitive relates any solution of the
    gate equations in the first algebra to any solution in the second -/
theorem logic_related_all_circuits {α β} (R : α → β → Prop) (s1 : Nat → List α → α) (s2 : Nat → List β → β)
    (hop : ∀ code, KnownCode code → ∀ (xs : List α) (ys : List β), All2 R xs ys → R (s1 code xs) (s2 code ys))
    (net : Net) (order : List Nat) (strip : Bool) (hwf : net.wfB = true) (ho : orderOKB net order = true)
    (e1 : Nat → α) (e2 : Nat → β) (h : ∀ l, R (e1 l) (e2 l)) (v1 : Nat → α) (v2 : Nat → β)
    (h1 : SolvesJ (Jt net) (fun op => s1 op.code) ((genOps Gen.kindPrefixes net order strip).map OpRow.toOp) e1 v1)
    (h2 : SolvesJ (Jt net) (fun op => s2 op.code) ((genOps Gen.kindPrefixes net order strip).map OpRow.toOp) e2 v2) :
    ∀ x, Jt net x = false → R (v1 x) (v2 x) :=
  solutions_related (Jt net) R (fun op => s1 op.code) (fun op => s2 op.code) _
    (genOps_WOJ Gen.kindPrefixes net order strip hwf ho)
    (fun op hmem xs ys hxy => hop op.code (genOps_known net order strip op hmem) xs ys hxy) e1 e2 h v1 v2 h1 h2

end KV
