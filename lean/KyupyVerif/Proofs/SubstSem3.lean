import KyupyVerif.Proofs.SubstSem2
/-! Helper lemmas for C10 (`substitute_sem`), part 3: under the certificate — which nodes of the implementation are in
`node_map`, what the lines at the pins of the copied nodes are, and the key fact: every copied node reads, pin by pin,
what its original reads in the implementation. -/
namespace KV.Transform
open KV

theorem head?_of_getD0 {l : List (Option Nat)} {x : Nat} (h : l.getD 0 none = some x) : l.head? = some (some x) := by
  cases l with
  | nil => simp at h
  | cons a r => simp at h; simp [h]

section cert
variable {h : NNet} {c : Nat} {m : NNet} {sh : Shape} {dn : Nat} {map : Array (Option Nat)} {h' : NNet}
variable (ct : SubstPre h c m sh dn map h')
include ct

/-- no two lines of the implementation end at the same pin -/
theorem SubstPre.pinU (i1 i2 : Nat) (h1 : i1 < m.net.lines.size) (h2 : i2 < m.net.lines.size)
    (hr : (m.net.line i1).reader = (m.net.line i2).reader) (hp : (m.net.line i1).rpin = (m.net.line i2).rpin) : i1 = i2 := by
  have b1 := (ct.mwf.back i1 h1).2.2.2
  have b2 := (ct.mwf.back i2 h2).2.2.2
  rw [hr, hp, b2] at b1
  exact (Option.some.inj b1).symm

/-- no two lines of the implementation start at the same pin -/
theorem SubstPre.poutU (i1 i2 : Nat) (h1 : i1 < m.net.lines.size) (h2 : i2 < m.net.lines.size)
    (hr : (m.net.line i1).driver = (m.net.line i2).driver) (hp : (m.net.line i1).dpin = (m.net.line i2).dpin) : i1 = i2 := by
  have b1 := (ct.mwf.back i1 h1).2.2.1
  have b2 := (ct.mwf.back i2 h2).2.2.1
  rw [hr, hp, b2] at b1
  exact (Option.some.inj b1).symm

theorem SubstPre.unmapped (j : Nat) (hj : j < m.net.nodes.size) (hn : map.getD j none = none) :
    j ∈ m.net.io ∧ ¬ (0 < (m.net.node j).ins.length ∧ 0 < (m.net.node j).outs.length) ∧
    ¬ ((m.net.node j).ins.length = 0 ∧ 1 < (m.net.node j).outs.length) := by
  have hd := ct.mapDom j hj
  rw [hn] at hd
  refine ⟨?_, ?_, ?_⟩
  · apply Classical.byContradiction; intro hc
    exact absurd (hd.mpr (Or.inl hc)) (by simp)
  · intro hc; exact absurd (hd.mpr (Or.inr (Or.inl hc))) (by simp)
  · intro hc; exact absurd (hd.mpr (Or.inr (Or.inr hc))) (by simp)

theorem SubstPre.mapped_of (j : Nat) (hj : j < m.net.nodes.size)
    (hd : j ∉ m.net.io ∨ (0 < (m.net.node j).ins.length ∧ 0 < (m.net.node j).outs.length) ∨
      ((m.net.node j).ins.length = 0 ∧ 1 < (m.net.node j).outs.length)) : ∃ x, map.getD j none = some x := by
  have := (ct.mapDom j hj).mpr hd
  exact Option.isSome_iff_exists.mp this

/-- a line whose driver is not in `node_map` is the only line of an input port -/
theorem SubstPre.unmapped_driver (i : Nat) (hi : i < m.net.lines.size) (hn : map.getD (m.net.line i).driver none = none) :
    (m.net.line i).driver ∈ sh.inPorts ∧ (m.net.node (m.net.line i).driver).outs.length = 1 ∧
    (m.net.node (m.net.line i).driver).outs.head? = some (some i) := by
  obtain ⟨hd, _, ho, _⟩ := ct.mwf.back i hi
  obtain ⟨hio, h1, h2⟩ := ct.unmapped _ hd hn
  have hpos := getD_some_lt ho
  have hins : (m.net.node (m.net.line i).driver).ins.length = 0 := by omega
  have hlen : (m.net.node (m.net.line i).driver).outs.length = 1 := by omega
  refine ⟨(mem_inPorts ct.shape _).mpr ⟨hio, hins⟩, hlen, ?_⟩
  have : (m.net.line i).dpin = 0 := by omega
  rw [this] at ho
  exact head?_of_getD0 ho

/-- a line whose reader is not in `node_map` ends at an output port that is not read inside the implementation -/
theorem SubstPre.unmapped_reader (i : Nat) (hi : i < m.net.lines.size) (hn : map.getD (m.net.line i).reader none = none) :
    (m.net.line i).reader ∈ sh.outPorts ∧ (m.net.node (m.net.line i).reader).outs.length = 0 := by
  obtain ⟨_, hr, _, hin⟩ := ct.mwf.back i hi
  obtain ⟨hio, h1, h2⟩ := ct.unmapped _ hr hn
  have hpos := getD_some_lt hin
  refine ⟨(mem_outPorts ct.shape _).mpr ⟨hio, by omega⟩, by omega⟩

/-- an input port is in `node_map` only when it has several readers -/
theorem SubstPre.inPort_mapped (inn x : Nat) (hin : inn ∈ sh.inPorts) (hm : map.getD inn none = some x) :
    1 < (m.net.node inn).outs.length := by
  obtain ⟨hio, hins⟩ := (mem_inPorts ct.shape inn).mp hin
  have hj := ct.mapM inn x hm
  have := (ct.mapDom inn hj).mp (by rw [hm]; rfl)
  rcases this with h1 | h1 | h1
  · exact absurd hio h1
  · omega
  · exact h1.2

/-- the only line of an input port with one reader is not copied -/
theorem SubstPre.single_not_copied (inn i0 : Nat) (hin : inn ∈ sh.inPorts) (hlen : (m.net.node inn).outs.length = 1)
    (hh : (m.net.node inn).outs.head? = some (some i0)) :
    i0 < m.net.lines.size ∧ (m.net.line i0).driver = inn ∧ map.getD inn none = none := by
  obtain ⟨hio, hins⟩ := (mem_inPorts ct.shape inn).mp hin
  have hlt := ct.mwf.io inn hio
  have fo := ct.mwf.fwdOut inn hlt 0 i0 (head?_getD hh)
  refine ⟨fo.1, fo.2.1, ?_⟩
  cases hm : map.getD inn none with
  | none => rfl
  | some x => have := ct.inPort_mapped inn x hin hm; omega

/-- the lines of the result: host lines, then the copies -/
theorem SubstPre.line_split (l : Nat) (hl : l < h'.net.lines.size) :
    l < h.net.lines.size ∨ ∃ t, ∃ ht : t < (copiedLines m map).length, l = h.net.lines.size + t := by
  rw [ct.lsize] at hl
  by_cases h1 : l < h.net.lines.size
  · exact Or.inl h1
  · exact Or.inr ⟨l - h.net.lines.size, by omega, by omega⟩

omit ct in
theorem copiedLines_mem (i : Nat) : i ∈ copiedLines m map ↔ i < m.net.lines.size ∧ copiedB m map i = true := by
  simp [copiedLines, List.mem_filter]

omit ct in
theorem copiedLines_nodup : (copiedLines m map).Nodup := (List.nodup_range).filter _

omit ct in
theorem copiedB_iff (i : Nat) : copiedB m map i = true ↔
    ∃ xd xr, map.getD (m.net.line i).driver none = some xd ∧ map.getD (m.net.line i).reader none = some xr := by
  simp only [copiedB, Bool.and_eq_true, Option.isSome_iff_exists]
  constructor
  · rintro ⟨⟨a, ha⟩, ⟨b, hb⟩⟩; exact ⟨a, b, ha, hb⟩
  · rintro ⟨a, b, ha, hb⟩; exact ⟨⟨a, ha⟩, ⟨b, hb⟩⟩

/-- the `t`-th copied line -/
theorem SubstPre.new_fields (t : Nat) (ht : t < (copiedLines m map).length) :
    (copiedLines m map)[t] < m.net.lines.size ∧
    ∃ xd xr, map.getD (m.net.line (copiedLines m map)[t]).driver none = some xd ∧
      map.getD (m.net.line (copiedLines m map)[t]).reader none = some xr ∧
      h'.net.line (h.net.lines.size + t) =
        ⟨xd, (m.net.line (copiedLines m map)[t]).dpin, xr, (m.net.line (copiedLines m map)[t]).rpin⟩ := by
  have hmem := (copiedLines_mem (m := m) (map := map) _).mp (List.getElem_mem ht)
  obtain ⟨xd, xr, h1, h2⟩ := (copiedB_iff _).mp hmem.2
  refine ⟨hmem.1, xd, xr, h1, h2, ?_⟩
  rw [ct.newLine t ht]
  simp [mkLine, h1, h2]

/-- a copied line has a copy -/
theorem SubstPre.copy_of (i : Nat) (hi : i < m.net.lines.size) (xd xr : Nat)
    (h1 : map.getD (m.net.line i).driver none = some xd) (h2 : map.getD (m.net.line i).reader none = some xr) :
    ∃ t, ∃ ht : t < (copiedLines m map).length, (copiedLines m map)[t] = i ∧
      h'.net.line (h.net.lines.size + t) = ⟨xd, (m.net.line i).dpin, xr, (m.net.line i).rpin⟩ := by
  have hmem : i ∈ copiedLines m map := (copiedLines_mem i).mpr ⟨hi, (copiedB_iff i).mpr ⟨xd, xr, h1, h2⟩⟩
  obtain ⟨t, ht, e⟩ := List.getElem_of_mem hmem
  refine ⟨t, ht, e, ?_⟩
  rw [ct.newLine t ht, e]
  simp [mkLine, h1, h2]

/-- a host line that points back in the host and ends at a node of `node_map` afterwards is a line at an input pin of the
    instance -/
theorem SubstPre.host_reader_own (l x : Nat) (hl : l < h.net.lines.size) (hp : PtsBack h l) (hr : (h'.net.line l).reader = x)
    (hx : x = c ∨ h.net.nodes.size ≤ x) : ∃ k, instIn h c k = some l := by
  by_cases e : (h.net.line l).reader = c
  · refine ⟨(h.net.line l).rpin, ?_⟩
    have : (h.net.node (h.net.line l).reader).ins.getD (h.net.line l).rpin none = some l := hp
    rw [e] at this; exact this
  · have f := (ct.rdrFrame l hl e).1
    have b := (ct.hwf.back l hl).2.1
    rw [hr] at f
    rcases hx with hx | hx
    · exact absurd (f.symm.trans hx) e
    · omega

theorem SubstPre.host_driver_own (l x : Nat) (hl : l < h.net.lines.size) (hr : (h'.net.line l).driver = x)
    (hx : x = c ∨ h.net.nodes.size ≤ x) : ∃ k, instOut h c k = some l := by
  by_cases e : (h.net.line l).driver = c
  · refine ⟨(h.net.line l).dpin, ?_⟩
    have := (ct.hwf.back l hl).2.2
    rw [e] at this; exact this
  · have f := (ct.drvFrame l hl e).1
    have b := (ct.hwf.back l hl).1
    rw [hr] at f
    rcases hx with hx | hx
    · exact absurd (f.symm.trans hx) e
    · omega

end cert
end KV.Transform
