import KyupyVerif.Proofs.AllCirc
/-! All-circuits support for C16 (callback): facts about a well-ordered program (`WOJ`, proved for the program of every
well-formed netlist in every topological order) split at one of its rows. -/
namespace KV
open KV.Sig

theorem getElem?_split {α} {l : List α} {k : Nat} {a : α} (h : l[k]? = some a) :
    l = l.take k ++ a :: l.drop (k + 1) ∧ (l.take k).length = k := by
  have hk : k < l.length := by
    rcases Nat.lt_or_ge k l.length with h' | h'
    · exact h'
    · rw [List.getElem?_eq_none h'] at h; cases h
  have ha : l[k] = a := by
    rw [List.getElem?_eq_getElem hk] at h
    exact Option.some.inj h
  refine ⟨?_, by rw [List.length_take]; omega⟩
  rw [← ha, List.getElem_cons_drop, List.take_append_drop]

/-- a well-ordered program split at a row: its operands are not written by the row or after it; its (non-scratch) output is
    written neither before nor after it -/
theorem woj_at_row {J : Nat → Bool} {pre post : List Op} {o : Op} (hw : WOJ J (pre ++ o :: post)) :
    (∀ x ∈ o.ins, ∀ p ∈ o :: post, p.out ≠ x) ∧
    (J o.out = false → (∀ p ∈ post, p.out ≠ o.out) ∧ ∀ p ∈ pre, p.out ≠ o.out) := by
  obtain ⟨hp, hl⟩ := hw
  rw [List.pairwise_append] at hp
  obtain ⟨_, hop, hcross⟩ := hp
  have hrel := (List.pairwise_cons.mp hop).1
  have hloc := hl o (List.mem_append_right _ List.mem_cons_self)
  refine ⟨?_, fun hj => ⟨fun p hp => (hrel p hp).1 hj, ?_⟩⟩
  · intro x hx p hp
    rcases List.mem_cons.mp hp with rfl | hp
    · exact fun e => (hloc x hx).2 e.symm
    · exact (hrel p hp).2 x hx
  · intro p hp e
    have := (hcross p hp o List.mem_cons_self).1
    by_cases hjp : J p.out = false
    · exact this hjp e.symm
    · rw [e] at hjp; exact hjp hj

/-- when a row of a well-ordered program is evaluated its operands already carry their FINAL values -/
theorem operands_final {α} (J : Nat → Bool) (sem : Op → List α → α) (pre post : List Op) (o : Op) (env : Nat → α)
    (hw : WOJ J (pre ++ o :: post)) :
    o.ins.map (execG sem pre env) = o.ins.map (execG sem (pre ++ o :: post) env) := by
  apply List.map_congr_left
  intro x hx
  rw [execG_append, execG_frame sem (o :: post) _ x ((woj_at_row hw).1 x hx)]

/-- signals whose last writer stands before a row are not affected by what that row and the later rows do -/
theorem execG_before {α} (sem : Op → List α → α) (pre rest : List Op) (env : Nat → α) (y : Nat)
    (h : ∀ p ∈ rest, p.out ≠ y) : execG sem (pre ++ rest) env y = execG sem pre env y := by
  rw [execG_append, execG_frame sem rest _ y h]

/-- the non-scratch outputs of a well-ordered program are pairwise different: every line is written once -/
theorem woj_outs_nodup {J : Nat → Bool} {ops : List Op} (hw : WOJ J ops) :
    ((ops.map (·.out)).filter (fun x => !J x)).Nodup := by
  induction ops with
  | nil => exact List.nodup_nil
  | cons o rest ih =>
    have hrel := (List.pairwise_cons.mp hw.1).1
    simp only [List.map_cons, List.filter_cons]
    split
    · rename_i hj
      simp only [Bool.not_eq_true', ] at hj
      refine List.nodup_cons.mpr ⟨?_, ih hw.tail⟩
      intro hm
      obtain ⟨hm', _⟩ := List.mem_filter.mp hm
      obtain ⟨p, hp, hpo⟩ := List.mem_map.mp hm'
      exact (hrel p hp).1 hj hpo
    · exact ih hw.tail

end KV
