import KyupyVerif.Model.Sig

namespace KV.Sig

/-- a signal that no op of the list writes keeps its value -/
theorem exec_frame {α} (sem : Nat → List α → α) (ops : List Op) (env : Nat → α) (j : Nat)
    (h : ∀ o ∈ ops, o.out ≠ j) : exec sem ops env j = env j := by
  induction ops generalizing env with
  | nil => rfl
  | cons o os ih =>
    simp only [exec, List.foldl_cons]
    have := ih (execOp sem env o) (fun o' ho' => h o' (List.mem_cons_of_mem _ ho'))
    simp only [exec] at this
    rw [this]
    simp [execOp, upd, (h o (by simp)).symm]

theorem exec_append {α} (sem : Nat → List α → α) (a b : List Op) (env : Nat → α) :
    exec sem (a ++ b) env = exec sem b (exec sem a env) := by
  simp [exec, List.foldl_append]

/-- C01 core: in a straight-line program, an op whose output is not written again and whose operands are
neither its own output nor written later satisfies its defining equation in the FINAL state:
`final[out] = sem code (final[ins])`. With ops generated in topological order from a netlist this is
"the simulator's result is the gate-by-gate evaluation of the netlist". -/
theorem exec_equation {α} (sem : Nat → List α → α) (pre post : List Op) (o : Op) (env : Nat → α)
    (hout : ∀ p ∈ post, p.out ≠ o.out)
    (hins : ∀ x ∈ o.ins, x ≠ o.out ∧ ∀ p ∈ post, p.out ≠ x) :
    exec sem (pre ++ o :: post) env o.out
      = sem o.code (o.ins.map (exec sem (pre ++ o :: post) env)) := by
  rw [exec_append]
  simp only [exec, List.foldl_cons]
  have e1 : ∀ j, (∀ p ∈ post, p.out ≠ j) →
      List.foldl (execOp sem) (execOp sem (List.foldl (execOp sem) env pre) o) post j
        = execOp sem (List.foldl (execOp sem) env pre) o j := by
    intro j hj
    exact exec_frame sem post _ j hj
  rw [e1 o.out hout]
  have hargs : o.ins.map (List.foldl (execOp sem) (execOp sem (List.foldl (execOp sem) env pre) o) post)
      = o.ins.map (List.foldl (execOp sem) env pre) := by
    apply List.map_congr_left
    intro x hx
    rw [e1 x (hins x hx).2]
    simp [execOp, upd, (hins x hx).1]
  rw [hargs]
  simp [execOp, upd]

end KV.Sig
