import KyupyVerif.Proofs.SubstGen21
/-! Helper lemmas for C10 (`resolve_sem_general`), part 5: one substitution keeps the loop invariant — the two semantic
directions.  In direction (1) the values of the output lines of the substituted cell that an EARLIER substitution removed
are prescribed (the cell was a hole then): they take the values of the implementation's output lines. -/
namespace KV.Transform
open KV

section step
variable {α : Type _} {lib : Lib} {h : NNet} {z : α} {neg : α → α} {prim : String → α → α → α → α → α}
  {cur : NNet} {D : Nat → Prop} {ρ : Ren} (r : ResRelG lib h z neg prim cur D ρ) (hw : WFm h)
  {j d : Nat} (hj : j < cur.net.nodes.size) (hjd : ρ.node j = d) (hd : d < h.net.nodes.size) (hnD : ¬ D d)
  (hcf : (cur.net.node j).isFork = false)
  {impl : NNet} {sh : Shape} {map : Array (Option Nat)} {nxt : NNet} {R : Ren}
  (g : SubstG z neg prim cur j impl sh map nxt R)
  (hfind : lib.find (h.net.node d).kind = some impl) (hs : implShape impl = some sh)
include r hw hj hjd hd hnD hcf g hfind hs

theorem resStep_holes (S : Nat → Prop) (hS : ∀ s, S s → s < h.net.nodes.size ∧ ¬ (D s ∨ s = d)) (j' : Nat) :
    S ((stepRho h cur j ρ R).node j') ↔ (R.node j' < cur.net.nodes.size ∧ R.node j' ≠ j ∧ S (ρ.node (R.node j'))) := by
  constructor
  · intro hs'
    obtain ⟨a1, a2, a3⟩ := stepRho_node (hS _ hs').1
    exact ⟨a1, a2, a3 ▸ hs'⟩
  · rintro ⟨a1, a2, a3⟩
    rw [stepRho_node_eq a1 a2]; exact a3

theorem resStep_pins : (∀ k, (instIn cur j k).isNone = (instIn h d k).isNone) ∧
    (∀ k l1 l2, instIn cur j k = some l1 → instIn h d k = some l2 → l1 < cur.net.lines.size ∧ ρ.line l1 = l2 ∧ l2 < h.net.lines.size) := by
  have hn := (r.node j hj (hjd ▸ hd)).2.2
  rw [hjd] at hn
  constructor
  · intro k
    have := hn k
    simp only [instIn]
    show ((cur.net.node j).inPin k).isNone = ((h.net.node d).inPin k).isNone
    rw [← this]; simp
  · intro k l1 l2 h1 h2
    have := hn k
    have h1' : (cur.net.node j).inPin k = some l1 := h1
    have h2' : (h.net.node d).inPin k = some l2 := h2
    rw [h1', h2'] at this
    simp only [Option.map_some, Option.some.injEq] at this
    exact ⟨(r.wf.fwdIn j hj k l1 h1).1, this, (hw.fwdIn d hd k l2 h2).1⟩

theorem resStep_fw (S : Nat → Prop) (hS : ∀ s, S s → s < h.net.nodes.size ∧ ¬ (D s ∨ s = d)) (pre an' v' : Nat → α)
    (hc : ConsOff nxt (fun j' => S ((stepRho h cur j ρ R).node j')) z neg prim an' v') :
    ∃ an v, ConsOff h (fun x => S x ∨ (D x ∨ x = d)) z neg prim an v ∧ (∀ c, (D c ∨ c = d) → CellSem lib h c z neg prim v) ∧
      (∀ l', l' < nxt.net.lines.size → (stepRho h cur j ρ R).line l' < h.net.lines.size → v ((stepRho h cur j ρ R).line l') = v' l') ∧
      (∀ j', j' < nxt.net.nodes.size → (stepRho h cur j ρ R).node j' < h.net.nodes.size → an ((stepRho h cur j ρ R).node j') = an' j') ∧
      (∀ l, l < h.net.lines.size → (¬ ∃ l', l' < nxt.net.lines.size ∧ (stepRho h cur j ρ R).line l' = l) →
        S (h.net.line l).driver → v l = pre l) := by
  have hSd : ¬ S d := fun hs' => (hS d hs').2 (Or.inr rfl)
  have hc1 : ConsOff nxt (fun j' => (fun x => x < cur.net.nodes.size ∧ x ≠ j ∧ S (ρ.node x)) (R.node j')) z neg prim an' v' :=
    consOff_congr (fun j' => resStep_holes r hw hj hjd hd hnD hcf g hfind hs S hS j') hc
  obtain ⟨anc, vc, anm, vm, f1, f2, f3, f4, _, f6⟩ := g.fw (fun x => x < cur.net.nodes.size ∧ x ≠ j ∧ S (ρ.node x))
    (fun s hs' => ⟨hs'.1, hs'.2.1⟩) (fun lc => pre (ρ.line lc)) an' v' hc1
  let pre2 : Nat → α := fun l => if (h.net.line l).driver = d then
      (match sh.outLines[(h.net.line l).dpin]? with | some il => vm il | none => pre l) else pre l
  have hS2 : ∀ s, (S s ∨ s = d) → s < h.net.nodes.size ∧ ¬ D s := by
    rintro s (hs' | hs')
    · exact ⟨(hS s hs').1, fun x => (hS s hs').2 (Or.inl x)⟩
    · rw [hs']; exact ⟨hd, hnD⟩
  have hc2 : ConsOff cur (fun x => (fun s => S s ∨ s = d) (ρ.node x)) z neg prim anc vc := by
    intro l hl hnS
    apply f1 l hl
    rintro (⟨_, _, hs'⟩ | hs')
    · exact hnS (Or.inl hs')
    · exact hnS (Or.inr (by rw [hs', hjd]))
  obtain ⟨an, v, i1, i2, i3, i4, i5⟩ := r.fw (fun s => S s ∨ s = d) hS2 pre2 anc vc hc2
  obtain ⟨p1, p2⟩ := resStep_pins r hw hj hjd hd hnD hcf g hfind hs
  have hiff : ∀ x, ((S x ∨ x = d) ∨ D x) ↔ (S x ∨ (D x ∨ x = d)) := by
    intro x
    constructor
    · rintro ((a | a) | a)
      · exact Or.inl a
      · exact Or.inr (Or.inr a)
      · exact Or.inr (Or.inl a)
    · rintro (a | a | a)
      · exact Or.inl (Or.inl a)
      · exact Or.inr a
      · exact Or.inl (Or.inr a)
  refine ⟨an, v, consOff_congr hiff i1, ?_, ?_, ?_, ?_⟩
  · rintro c' (hc' | hc')
    · exact i2 c' hc'
    · subst hc'
      refine ⟨impl, sh, anm, vm, hfind, hs, ?_⟩
      apply implMatches_move cur h j c' impl sh z neg prim anm vm vc v p1 _ _ f2
      · intro k l1 l2 h1 h2
        obtain ⟨q1, q2, q3⟩ := p2 k l1 l2 h1 h2
        rw [← q2]; exact i3 l1 q1 (q2 ▸ q3)
      · intro k il l2 hk hout
        rcases r.outsB j k l2 hj (hjd ▸ hd) hcf (by rw [hjd]; exact hout) with ⟨l', hl', el'⟩ | ⟨_, hnp⟩
        · rw [f2.2.2 k il l' hk hl', ← el']
          exact (i3 l' (r.wf.fwdOut j hj k l' hl').1 (el' ▸ (hw.fwdOut c' hd k l2 hout).1)).symm
        · obtain ⟨q1, q2, q3⟩ := hw.fwdOut c' hd k l2 hout
          rw [i5 l2 q1 hnp (by rw [q2]; exact Or.inr rfl)]
          show vm il = pre2 l2
          simp only [pre2, q2, q3, hk, if_true]
  · intro l' _ hlt
    obtain ⟨a1, a3⟩ := stepRho_line hlt
    rw [a3, i3 _ a1 (a3 ▸ hlt), f3 l' (by assumption)]
    simp [glueV, a1]
  · intro j' hj' hlt
    obtain ⟨a1, a2, a3⟩ := stepRho_node hlt
    rw [a3, i4 _ a1 (a3 ▸ hlt), f4 j' hj' a1 a2]
  · intro l hl hn hSl
    have hnDd : ¬ D (h.net.line l).driver := fun x => (hS _ hSl).2 (Or.inl x)
    have hned : (h.net.line l).driver ≠ d := fun e => hSd (e ▸ hSl)
    by_cases hcur : ∃ lc, lc < cur.net.lines.size ∧ ρ.line lc = l
    · obtain ⟨lc, hlc, elc⟩ := hcur
      have hlt : ρ.line lc < h.net.lines.size := elc ▸ hl
      rw [← elc, i3 lc hlc hlt]
      apply f6 lc hlc
      · rintro ⟨l'', hl'', e⟩
        exact hn ⟨l'', hl'', by rw [stepRho_line_eq (e ▸ hlc), e, elc]⟩
      · have hdr := r.drv lc hlc hlt (by rw [elc]; exact hnDd)
        rw [elc] at hdr
        refine ⟨(r.wf.back lc hlc).1, ?_, by rw [hdr]; exact hSl⟩
        intro e
        rw [e, hjd] at hdr
        exact hned hdr.symm
    · rw [i5 l hl hcur (Or.inl hSl)]
      show pre2 l = pre l
      simp only [pre2, hned, if_false]

theorem resStep_bw (S : Nat → Prop) (hS : ∀ s, S s → s < h.net.nodes.size ∧ ¬ (D s ∨ s = d)) (an v : Nat → α)
    (hH : ConsOff h (fun x => S x ∨ (D x ∨ x = d)) z neg prim an v) (hcells : ∀ c, (D c ∨ c = d) → CellSem lib h c z neg prim v) :
    ∃ an' v', ConsOff nxt (fun j' => S ((stepRho h cur j ρ R).node j')) z neg prim an' v' ∧
      (∀ l', l' < nxt.net.lines.size → (stepRho h cur j ρ R).line l' < h.net.lines.size → v' l' = v ((stepRho h cur j ρ R).line l')) ∧
      (∀ j', j' < nxt.net.nodes.size → (stepRho h cur j ρ R).node j' < h.net.nodes.size → an' j' = an ((stepRho h cur j ρ R).node j')) := by
  have hS2 : ∀ s, (S s ∨ s = d) → s < h.net.nodes.size ∧ ¬ D s := by
    rintro s (hs' | hs')
    · exact ⟨(hS s hs').1, fun x => (hS s hs').2 (Or.inl x)⟩
    · rw [hs']; exact ⟨hd, hnD⟩
  have hiff : ∀ x, (S x ∨ (D x ∨ x = d)) ↔ ((S x ∨ x = d) ∨ D x) := by
    intro x
    constructor
    · rintro (a | a | a)
      · exact Or.inl (Or.inl a)
      · exact Or.inr a
      · exact Or.inl (Or.inr a)
    · rintro ((a | a) | a)
      · exact Or.inl a
      · exact Or.inr (Or.inr a)
      · exact Or.inr (Or.inl a)
  obtain ⟨anc, vc, j1, j2, j3⟩ := r.bw (fun s => S s ∨ s = d) hS2 an v (consOff_congr hiff hH)
    (fun c hc => hcells c (Or.inl hc))
  obtain ⟨impl', sh', anm, vm, hf', hs', hM⟩ := hcells d (Or.inr rfl)
  have : impl' = impl := Option.some.inj (hf'.symm.trans hfind)
  subst this
  have : sh' = sh := Option.some.inj (hs'.symm.trans hs)
  subst this
  obtain ⟨p1, p2⟩ := resStep_pins r hw hj hjd hd hnD hcf g hfind hs'
  have hM1 : ImplMatches cur j impl' sh' z neg prim anm vm vc := by
    apply implMatches_move h cur d j impl' sh' z neg prim anm vm v vc (fun k => (p1 k).symm) _ _ hM
    · intro k l1 l2 h1 h2
      obtain ⟨q1, q2, q3⟩ := p2 k l2 l1 h2 h1
      rw [j2 l2 q1 (q2 ▸ q3), q2]
    · intro k il l2 hk hout
      have ho := r.outsF j k l2 hj (hjd ▸ hd) hcf hout
      rw [hjd] at ho
      rw [hM.2.2 k il _ hk ho]
      exact (j2 l2 (r.wf.fwdOut j hj k l2 hout).1 (hw.fwdOut d hd k _ ho).1).symm
  have hcur : ConsOff cur (fun x => (x < cur.net.nodes.size ∧ x ≠ j ∧ S (ρ.node x)) ∨ x = j) z neg prim anc vc := by
    intro l hl hnS
    apply j1 l hl
    rintro (hs'' | hs'')
    · by_cases e : (cur.net.line l).driver = j
      · exact hnS (Or.inr e)
      · exact hnS (Or.inl ⟨(r.wf.back l hl).1, e, hs''⟩)
    · exact hnS (Or.inr (r.nodeInj _ _ (r.wf.back l hl).1 hj (hs'' ▸ hd) (hs''.trans hjd.symm)))
  obtain ⟨an', v', k1, k2, k3, _⟩ := g.bw (fun x => x < cur.net.nodes.size ∧ x ≠ j ∧ S (ρ.node x)) anc vc anm vm hcur hM1
  refine ⟨an', v', consOff_congr (fun j' => (resStep_holes r hw hj hjd hd hnD hcf g hfind hs' S hS j').symm) k1, ?_, ?_⟩
  · intro l' hl' hlt
    obtain ⟨a1, a3⟩ := stepRho_line hlt
    rw [a3, k2 l' hl', ← j2 _ a1 (a3 ▸ hlt)]
    simp [glueV, a1]
  · intro j' hj' hlt
    obtain ⟨a1, a2, a3⟩ := stepRho_node hlt
    rw [a3, k3 j' hj' a1 a2, j3 _ a1 (a3 ▸ hlt)]

end step
end KV.Transform
