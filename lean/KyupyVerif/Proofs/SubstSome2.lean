import KyupyVerif.Proofs.SubstSome1
import KyupyVerif.Proofs.SubstLens
/-! C10, audit finding 6 (progress of `substitute`), part 2: the invariant of the host part of the circuit (`HostOK`: for every node
that is neither the cell nor a copied node the output list and the lines agree, forks are gap-free) through the loops over the
implementation's nodes and lines, and the progress of the loop over the input pins (`Line.remove()` at an ignored pin). -/
namespace KV.Transform
open KV

/-- node `d` is in order on the driver side and, if a fork, gap-free -/
structure HostAt (net : Net) (Ex : Nat → Prop) (d : Nat) : Prop where
  drv : DrvAt net Ex d
  dense : (net.node d).isFork = true → ∀ o ∈ (net.node d).outs, o ≠ none

def HostOK (Own : Nat → Prop) (Ex : Nat → Prop) (net : Net) : Prop := ∀ d, d < net.nodes.size → ¬ Own d → HostAt net Ex d

theorem hostOK_pushNode {Own Ex} {net : Net} (kind : String) (h : HostOK Own Ex net) (ho : Own net.nodes.size) :
    HostOK Own Ex (pushNode net kind) := by
  intro d hd hn
  have hd' : d < net.nodes.size := by
    have : (pushNode net kind).nodes.size = net.nodes.size + 1 := by simp [pushNode]
    rw [this] at hd
    by_cases e : d = net.nodes.size
    · rw [e] at hn; exact absurd ho hn
    · omega
  have hnode : (pushNode net kind).node d = net.node d := by rw [pushNode_node, if_neg (by omega)]
  obtain ⟨⟨_, f, b⟩, dn⟩ := h d hd' hn
  refine ⟨⟨hd, ?_, ?_⟩, ?_⟩
  · intro p y hp; rw [hnode] at hp; exact f p y hp
  · intro y hy hex hdy; rw [hnode]; exact b y hy hex hdy
  · rw [hnode]; exact dn

theorem hostOK_pushNodes {Own Ex} : ∀ (kinds : List String) (net : Net),
    HostOK Own Ex net → (∀ y, net.nodes.size ≤ y → Own y) → HostOK Own Ex (kinds.foldl pushNode net)
  | [], _, h, _ => h
  | k :: ks, net, h, ho => by
    rw [List.foldl_cons]
    apply hostOK_pushNodes ks _ (hostOK_pushNode k h (ho _ (Nat.le_refl _)))
    have : (pushNode net k).nodes.size = net.nodes.size + 1 := by simp [pushNode]
    intro y hy; rw [this] at hy; exact ho y (by omega)

theorem hostOK_addLineNet {Own Ex} {net : Net} (d dp r rp : Nat) (h : HostOK Own Ex net) (ho : Own d) :
    HostOK Own Ex (addLineNet net d dp r rp) := by
  obtain ⟨s1, s2, _⟩ := addLineNet_sizes net d dp r rp
  intro x hx hn
  rw [s1] at hx
  have hne : x ≠ d := fun e => hn (e ▸ ho)
  have houts : ((addLineNet net d dp r rp).node x).outs = (net.node x).outs := by
    rw [addLineNet_node]
    dsimp only
    rw [ite_ins_outs, if_neg (fun hc => hne hc.1)]
  have hkind : ((addLineNet net d dp r rp).node x).isFork = (net.node x).isFork := by
    rw [addLineNet_node]
    dsimp only
    rw [if_neg (fun hc : x = d ∧ d < net.nodes.size => hne hc.1)]
    split <;> rfl
  obtain ⟨⟨_, f, b⟩, dn⟩ := h x hx hn
  refine ⟨⟨by rw [s1]; exact hx, ?_, ?_⟩, ?_⟩
  · intro p y hp
    rw [houts] at hp
    obtain ⟨a1, a2, a3, a4⟩ := f p y hp
    rw [s2, addLineNet_line_lt net d dp r rp y a1]
    exact ⟨by omega, a2, a3, a4⟩
  · intro y hy hex hdy
    rw [s2] at hy
    by_cases e : y = net.lines.size
    · subst e
      rw [addLineNet_line_eq] at hdy
      exact absurd hdy.symm hne
    · have hy' : y < net.lines.size := by omega
      rw [addLineNet_line_lt net d dp r rp y hy'] at hdy ⊢
      rw [houts]; exact b y hy' hex hdy
  · rw [hkind, houts]; exact dn

theorem hostOK_addImplLines {Own Ex} (map : Array (Option Nat)) (hm : ∀ j x, map.getD j none = some x → Own x) :
    ∀ (lns : List LineD) (net : Net), HostOK Own Ex net → HostOK Own Ex (lns.foldl (addImplLineN map) net)
  | [], _, h => h
  | ln :: lns, net, h => by
    rw [List.foldl_cons]
    apply hostOK_addImplLines map hm lns
    unfold addImplLineN
    cases hd : map.getD ln.driver none with
    | none => exact h
    | some d =>
      cases hr : map.getD ln.reader none with
      | none => exact h
      | some r => exact hostOK_addLineNet d ln.dpin r ln.rpin h (hm _ _ hd)

theorem lines_pushNodes : ∀ (ks : List String) (n : Net), (ks.foldl pushNode n).lines = n.lines
  | [], _ => rfl
  | k :: ks, n => by rw [List.foldl_cons, lines_pushNodes ks]; rfl

theorem size_pushNodes : ∀ (ks : List String) (n : Net), n.nodes.size ≤ (ks.foldl pushNode n).nodes.size
  | [], _ => Nat.le_refl _
  | k :: ks, n => by
    rw [List.foldl_cons]
    have := size_pushNodes ks (pushNode n k)
    have h2 : (pushNode n k).nodes.size = n.nodes.size + 1 := by simp [pushNode]
    omega

theorem line_addImplLines (map : Array (Option Nat)) : ∀ (lns : List LineD) (net : Net) (l : Nat), l < net.lines.size →
    (lns.foldl (addImplLineN map) net).line l = net.line l ∧ net.lines.size ≤ (lns.foldl (addImplLineN map) net).lines.size ∧
    (lns.foldl (addImplLineN map) net).nodes.size = net.nodes.size
  | [], _, _, _ => ⟨rfl, Nat.le_refl _, rfl⟩
  | ln :: lns, net, l, hl => by
    rw [List.foldl_cons]
    have key : (addImplLineN map net ln).line l = net.line l ∧ net.lines.size ≤ (addImplLineN map net ln).lines.size ∧
        (addImplLineN map net ln).nodes.size = net.nodes.size := by
      unfold addImplLineN
      cases map.getD ln.driver none with
      | none => exact ⟨rfl, Nat.le_refl _, rfl⟩
      | some d =>
        cases map.getD ln.reader none with
        | none => exact ⟨rfl, Nat.le_refl _, rfl⟩
        | some r =>
          obtain ⟨s1, s2, _⟩ := addLineNet_sizes net d ln.dpin r ln.rpin
          exact ⟨addLineNet_line_lt net d ln.dpin r ln.rpin l hl, by show net.lines.size ≤ (addLineNet net d ln.dpin r ln.rpin).lines.size; omega, s1⟩
    obtain ⟨a1, a2, a3⟩ := line_addImplLines map lns (addImplLineN map net ln) l (by omega)
    exact ⟨a1.trans key.1, by omega, a3.trans key.2.2⟩

theorem hostOK_setReader {Own Ex} {net : Net} (ll r rp : Nat) (h : HostOK Own Ex net) : HostOK Own Ex (setReader net ll r rp) := by
  obtain ⟨s1, s2, _⟩ := setReader_sizes net ll r rp
  intro x hx hn
  rw [s1] at hx
  have houts : ((setReader net ll r rp).node x).outs = (net.node x).outs := by
    rw [setReader_node]; split <;> rfl
  have hkind : ((setReader net ll r rp).node x).isFork = (net.node x).isFork := by
    rw [setReader_node]; split <;> rfl
  have hdrv : ∀ y, y < net.lines.size → ((setReader net ll r rp).line y).driver = (net.line y).driver ∧
      ((setReader net ll r rp).line y).dpin = (net.line y).dpin := by
    intro y hy; rw [setReader_line net ll r rp y hy]; split <;> exact ⟨rfl, rfl⟩
  obtain ⟨⟨_, f, b⟩, dn⟩ := h x hx hn
  refine ⟨⟨by rw [s1]; exact hx, ?_, ?_⟩, ?_⟩
  · intro p y hp
    rw [houts] at hp
    obtain ⟨a1, a2, a3, a4⟩ := f p y hp
    rw [s2, (hdrv y a1).1, (hdrv y a1).2]
    exact ⟨a1, a2, a3, a4⟩
  · intro y hy hex hdy
    rw [s2] at hy
    rw [(hdrv y hy).1] at hdy
    rw [(hdrv y hy).2, houts]; exact b y hy hex hdy
  · rw [hkind, houts]; exact dn

/-- `Line.remove()` (reader side already cleared) does not raise when the driver is in order -/
theorem removeLineF_some (net : Net) (Ex : Nat → Prop) (l : Nat) (hl : l < net.lines.size) (hex : ¬ Ex l)
    (w : HostAt net Ex (net.line l).driver) : ∃ net', removeLine false net l = some net' := by
  have hb := w.drv.back l hl hex rfl
  have hd := w.drv.lt
  have : ∃ net1, detachDriver net l = some net1 := by
    unfold detachDriver
    dsimp only
    split
    · rename_i hf
      split
      · rename_i hany
        exfalso
        have hlt := getD_some_lt hb
        have hmem := mem_of_any_isNone hany
        have e1 : growSet (net.node (net.line l).driver).outs (net.line l).dpin none =
            (net.node (net.line l).driver).outs.set (net.line l).dpin none := by simp [growSet, hlt]
        rw [e1] at hmem
        obtain ⟨k, hk, e⟩ := List.getElem_of_mem hmem
        rw [List.getElem_eraseIdx] at e
        split at e
        · rw [List.getElem_set] at e
          split at e
          · omega
          · exact w.dense hf _ (List.getElem_mem _) e
        · rw [List.getElem_set] at e
          split at e
          · omega
          · exact w.dense hf _ (List.getElem_mem _) e
      · exact ⟨_, rfl⟩
    · exact ⟨_, rfl⟩
  obtain ⟨net1, h1⟩ := this
  simp only [removeLine, h1, Option.map_some]
  exact ⟨_, rfl⟩

theorem dense_removeLine (b : Bool) (net net' : Net) (l : Nat) (he : removeLine b net l = some net') (j : Nat)
    (hj : j < net.nodes.size) (hd : (net.node j).isFork = true → ∀ o ∈ (net.node j).outs, o ≠ none) :
    (net'.node j).isFork = true → ∀ o ∈ (net'.node j).outs, o ≠ none := by
  simp only [removeLine, Option.map_eq_some_iff] at he
  obtain ⟨net1, h1, e⟩ := he
  subst e
  obtain ⟨O, _, hn, hcase⟩ := detachDriver_spec net net1 l h1
  have hnode1 : net1.node j = if j = (net.line l).driver ∧ (net.line l).driver < net.nodes.size then
      { net.node j with outs := O } else net.node j := by
    have := node_modify net net.nodes rfl (net.line l).driver (fun n => { n with outs := O }) j
    simp only [Net.node] at this ⊢
    rw [hn]; exact this
  have d1 : (net1.node j).isFork = true → ∀ o ∈ (net1.node j).outs, o ≠ none := by
    rw [hnode1]
    split
    · rename_i hc
      intro hf o ho
      rcases hcase with ⟨_, _, hany, _⟩ | ⟨hnf, _, _⟩
      · intro eo; subst eo
        have : O.any (·.isNone) = true := List.any_eq_true.mpr ⟨none, ho, rfl⟩
        rw [hany] at this; exact absurd this (by simp)
      · have hf' : (net.node j).isFork = true := hf
        rw [hc.1, hnf] at hf'; exact absurd hf' (by simp)
    · exact hd
  -- the optional clearing of the reader pin and `del lines[l]`
  have key : ∀ net2 : Net, (net2.node j).isFork = (net1.node j).isFork → (net2.node j).outs = (net1.node j).outs →
      ((delLine net2 l).node j).isFork = true → ∀ o ∈ ((delLine net2 l).node j).outs, o ≠ none := by
    intro net2 e1 e2 hf o ho
    rw [delLine_node] at hf ho
    simp only [List.mem_map] at ho
    obtain ⟨o', ho', e⟩ := ho
    have hf1 : (net1.node j).isFork = true := by rw [← e1]; exact hf
    have := d1 hf1 o' (by rw [← e2]; exact ho')
    intro eo; subst eo
    split at e
    · simp at e
    · exact this e
  cases b
  · exact key net1 rfl rfl
  · simp only [if_true]
    apply key
    · rw [node_modify net1 net1.nodes rfl]; split <;> rfl
    · rw [node_modify net1 net1.nodes rfl]; split <;> rfl

/-- node `j` is no fork with a gap in its output list -/
def Dn (net : Net) (j : Nat) : Prop := (net.node j).isFork = true → ∀ o ∈ (net.node j).outs, o ≠ none

theorem inTarget_val (m : NNet) (map : Array (Option Nat)) (inn r rp : Nat) (h : inTarget m map inn = some (r, rp)) :
    r ∈ map.toList.filterMap id := by
  unfold inTarget at h
  dsimp only at h
  split at h
  · split at h
    · rename_i l _
      cases hm : map.getD (m.net.line l).reader none with
      | none => rw [hm] at h; simp at h
      | some x => rw [hm] at h; simp at h; rw [← h.1]; exact mem_vals_of_getD map _ x hm
    · exact absurd h (by simp)
  · cases hm : map.getD inn none with
    | none => rw [hm] at h; simp at h
    | some x => rw [hm] at h; simp at h; rw [← h.1]; exact mem_vals_of_getD map _ x hm

/-- state of the loop over the input pins of the instance -/
structure CI (Own : Nat → Prop) (m : NNet) (net : Net) (ren : Option Nat → Option Nat) (Ex : Nat → Prop)
    (pins : List (Nat × Option Nat)) : Prop where
  rnone : ren none = none
  host : HostOK Own Ex net
  pend : ∀ inn l0, (inn, some l0) ∈ pins → ∃ ll, ren (some l0) = some ll ∧ ll < net.lines.size ∧
    (ignoredPort m inn = true → ¬ Ex ll ∧ (net.line ll).driver < net.nodes.size ∧ ¬ Own (net.line ll).driver)
  inj : ∀ i1 l1 i2 l2, (i1, some l1) ∈ pins → (i2, some l2) ∈ pins → ren (some l1) = ren (some l2) → l1 = l2
  nd : (pins.filterMap (·.2)).Nodup

theorem CI.tail {Own m net ren Ex p pins} (ci : CI Own m net ren Ex (p :: pins)) : CI Own m net ren Ex pins :=
  ⟨ci.rnone, ci.host, fun inn l0 hm => ci.pend inn l0 (List.mem_cons_of_mem _ hm),
   fun i1 l1 i2 l2 h1 h2 => ci.inj i1 l1 i2 l2 (List.mem_cons_of_mem _ h1) (List.mem_cons_of_mem _ h2), by
     have := ci.nd
     rw [List.filterMap_cons] at this
     split at this
     · exact this
     · exact (List.nodup_cons.mp this).2⟩

/-- **the loop over the input pins succeeds** (`HostOK` is kept: returned for the loop over the output pins) -/
theorem connectIns_some (Own : Nat → Prop) (m : NNet) (map : Array (Option Nat)) :
    ∀ (pins : List (Nat × Option Nat)) (net : Net) (ren : Option Nat → Option Nat) (Ex : Nat → Prop),
    (∀ inn l0, (inn, some l0) ∈ pins → ignoredPort m inn = false → ∃ p, inTarget m map inn = some p) →
    CI Own m net ren Ex pins →
    ∃ net' ren' Ex', connectIns m map pins (net, ren) = some (net', ren') ∧ HostOK Own Ex' net' ∧ net'.nodes.size = net.nodes.size ∧
      (∀ j, j < net.nodes.size → Dn net j → Dn net' j) ∧ ren' none = none ∧
      (∀ x, x ∉ map.toList.filterMap id → LS net net' x)
  | [], net, ren, Ex, _, ci => ⟨net, ren, Ex, rfl, ci.host, rfl, fun _ _ h => h, ci.rnone, fun x _ => LS.refl net x⟩
  | (inn, none) :: rest, net, ren, Ex, ht, ci => by
    obtain ⟨n', r', e', h1, h2, h3, h4, h5, h6⟩ := connectIns_some Own m map rest net ren Ex
      (fun i l hm => ht i l (List.mem_cons_of_mem _ hm)) ci.tail
    refine ⟨n', r', e', ?_, h2, h3, h4, h5, h6⟩
    simp only [connectIns, ci.rnone]
    exact h1
  | (inn, some l0) :: rest, net, ren, Ex, ht, ci => by
    obtain ⟨ll, hren, hll, hig⟩ := ci.pend inn l0 List.mem_cons_self
    have hnd : l0 ∉ rest.filterMap (·.2) ∧ (rest.filterMap (·.2)).Nodup := by
      have := ci.nd; simpa [List.filterMap_cons] using this
    by_cases hi : ignoredPort m inn = true
    · obtain ⟨hex, hdl, hdo⟩ := hig hi
      have hat := ci.host _ hdl hdo
      obtain ⟨a1, hrm⟩ := removeLineF_some net Ex ll hll hex hat
      have sp := removeLineF_spec net Ex ll hll hex hat.drv a1 hrm
      have ci' : CI Own m a1 (fun o => mvLine net.lines.size ll (ren o)) (fun y => Ex (nmN net.lines.size ll y)) rest := by
        refine ⟨by simp [ci.rnone, mvLine], ?_, ?_, ?_, hnd.2⟩
        · intro d hd hno
          rw [sp.nsize] at hd
          have old := ci.host d hd hno
          exact ⟨rlF_drvAt hll hex sp d old.drv, dense_removeLine false net a1 ll hrm d hd old.dense⟩
        · intro i2 l2 hm2
          obtain ⟨ll2, hr2, hl2, hg2⟩ := ci.pend i2 l2 (List.mem_cons_of_mem _ hm2)
          have hne : ll2 ≠ ll := by
            intro e
            have := ci.inj i2 l2 inn l0 (List.mem_cons_of_mem _ hm2) List.mem_cons_self (by rw [hr2, hren, e])
            subst this
            exact hnd.1 (List.mem_filterMap.mpr ⟨(i2, some l2), hm2, rfl⟩)
          obtain ⟨m1, m2⟩ := mv_facts hll hl2 hne
          refine ⟨mvN net.lines.size ll ll2, ?_, by rw [sp.lsize]; exact m1, ?_⟩
          · show mvLine net.lines.size ll (ren (some l2)) = _
            rw [hr2]
            simp only [mvLine, mvN, beq_iff_eq, Option.some.injEq]
            split <;> rfl
          · intro hi2
            obtain ⟨g1, g2, g3⟩ := hg2 hi2
            rw [m2, (sp.line _ m1).1, m2, sp.nsize]
            exact ⟨g1, g2, g3⟩
        · intro i1 l1 i2 l2 hm1 hm2 e
          obtain ⟨x1, hr1, hx1, _⟩ := ci.pend i1 l1 (List.mem_cons_of_mem _ hm1)
          obtain ⟨x2, hr2, hx2, _⟩ := ci.pend i2 l2 (List.mem_cons_of_mem _ hm2)
          have n1 : x1 ≠ ll := by
            intro e0
            have := ci.inj i1 l1 inn l0 (List.mem_cons_of_mem _ hm1) List.mem_cons_self (by rw [hr1, hren, e0])
            subst this
            exact hnd.1 (List.mem_filterMap.mpr ⟨(i1, some l1), hm1, rfl⟩)
          have n2 : x2 ≠ ll := by
            intro e0
            have := ci.inj i2 l2 inn l0 (List.mem_cons_of_mem _ hm2) List.mem_cons_self (by rw [hr2, hren, e0])
            subst this
            exact hnd.1 (List.mem_filterMap.mpr ⟨(i2, some l2), hm2, rfl⟩)
          apply ci.inj i1 l1 i2 l2 (List.mem_cons_of_mem _ hm1) (List.mem_cons_of_mem _ hm2)
          rw [hr1, hr2]
          have e' : mvLine net.lines.size ll (ren (some l1)) = mvLine net.lines.size ll (ren (some l2)) := e
          rw [hr1, hr2] at e'
          simp only [mvLine, beq_iff_eq, Option.some.injEq] at e'
          congr 1
          split at e' <;> split at e' <;> simp only [Option.some.injEq] at e' <;> omega
      obtain ⟨n', r', e', h1, h2, h3, h4, h5, h6⟩ := connectIns_some Own m map rest a1 _ _
        (fun i l hm => ht i l (List.mem_cons_of_mem _ hm)) ci'
      refine ⟨n', r', e', ?_, h2, by rw [h3, sp.nsize], fun j hj hd => h4 j (by rw [sp.nsize]; exact hj)
        (dense_removeLine false net a1 ll hrm j hj hd), h5, fun x hx => LS.trans
          (ls_removeLine false net a1 ll hrm (getD_some_lt (hat.drv.back ll hll hex rfl)) (fun e => absurd e (by simp)) x) (h6 x hx)⟩
      have hi' : ((m.net.node inn).outs.length == 0) = true := hi
      simp only [connectIns, hren, hi', if_true, hrm]
      exact h1
    · have hi0 : ignoredPort m inn = false := by simpa using hi
      obtain ⟨⟨r, rp⟩, hp⟩ := ht inn l0 List.mem_cons_self hi0
      obtain ⟨s1, s2, _⟩ := setReader_sizes net ll r rp
      have ci' : CI Own m (setReader net ll r rp) ren Ex rest := by
        refine ⟨ci.rnone, hostOK_setReader ll r rp ci.host, ?_,
          fun i1 l1 i2 l2 h1 h2 => ci.inj i1 l1 i2 l2 (List.mem_cons_of_mem _ h1) (List.mem_cons_of_mem _ h2), hnd.2⟩
        intro i2 l2 hm2
        obtain ⟨ll2, hr2, hl2, hg2⟩ := ci.pend i2 l2 (List.mem_cons_of_mem _ hm2)
        refine ⟨ll2, hr2, by rw [s2]; exact hl2, fun hi2 => ?_⟩
        have hd : ((setReader net ll r rp).line ll2).driver = (net.line ll2).driver := by
          rw [setReader_line net ll r rp ll2 hl2]; split <;> rfl
        rw [hd, s1]; exact hg2 hi2
      obtain ⟨n', r', e', h1, h2, h3, h4, h5, h6⟩ := connectIns_some Own m map rest _ ren Ex
        (fun i l hm => ht i l (List.mem_cons_of_mem _ hm)) ci'
      refine ⟨n', r', e', ?_, h2, by rw [h3, s1], fun j hj hd => h4 j (by rw [s1]; exact hj) (by
        intro hf o ho
        rw [setReader_node] at hf ho
        split at hf
        · rw [if_pos (by assumption)] at ho; exact hd hf o ho
        · rw [if_neg (by assumption)] at ho; exact hd hf o ho), h5, fun x hx => LS.trans (LS.of_eq (by
          rw [setReader_node, if_neg (fun hc : x = r ∧ r < net.nodes.size => hx (hc.1 ▸ inTarget_val m map inn r rp hp))])) (h6 x hx)⟩
      have hi' : ((m.net.node inn).outs.length == 0) = false := hi0
      simp only [connectIns, hren, hi', hp]
      exact h1

end KV.Transform
