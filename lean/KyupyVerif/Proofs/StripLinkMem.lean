import KyupyVerif.Proofs.StripLinkLogic
import KyupyVerif.Proofs.MapSound
/-! Map records (`MapIn`) of the un-stripped and of the stripped simulator: without stripping operands denote themselves;
captured signals of an interface node. Used to compose `strip_irrelevant_logic` with the soundness theorem of the
memory-map certificate (C08). -/

namespace KV
open KV.Sig KV.Wave

/-! ### map records of the un-stripped and of the stripped simulator -/

theorem stemsOf_false (net : Net) : stemsOf net false = Array.replicate net.idx.len none := by
  unfold stemsOf
  simp [Id.run]
  rfl

theorem viaStem_false (net : Net) (x : Nat) : viaStem (stemsOf net false) x = x := by
  unfold viaStem
  rw [stemsOf_false, Array.getD_eq_getD_getElem?, Array.getElem?_replicate]
  split <;> rfl

theorem sigOp_unstripped (p : MapIn) (hs : p.strip = false) (r : OpRow) : MapSound.sigOp p r = r.toOp := by
  unfold MapSound.sigOp OpRow.toOp MapIn.src MapIn.stems
  rw [hs]
  congr 1
  have : (fun i => viaStem (stemsOf p.net false) i) = id := funext (viaStem_false p.net)
  rw [this, List.map_id]
  rfl

theorem mem_ppoSrcs (p : MapIn) {n i l : Nat} (hn : (n, i) ∈ p.net.sNodes.zipIdx) (hp : (p.net.node n).inPin 0 = some l) :
    (p.ix.ppo + i, p.src l) ∈ p.ppoSrcs := by
  unfold MapIn.ppoSrcs MapIn.ppoSrcsW
  simp only [List.mem_filterMap]
  exact ⟨(n, i), hn, by simp [hp]⟩

end KV
