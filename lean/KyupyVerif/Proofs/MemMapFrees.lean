import KyupyVerif.Proofs.MemMapAccept
import KyupyVerif.Proofs.HeapHist
/-! Every release the `SimOps` model performs is a release of a LIVE chunk start (audit follow-up, C08).

The real `Heap.free(loc)` does not check that `loc` is the start of a live chunk (`Heap.free(0)` twice raises nothing and
corrupts the tables), so the allocator theorems speak about histories inside the domain "releases of live starts only"
(`histOkB`). `memMap_frees_live`: the histories `SimOps.__init__` produces are inside this domain — at the end of every level,
with `c_reuse`, every location in the pending free set is non-negative, is the start of a live region of the heap at that
moment and its release succeeds (so the "failing release changes nothing" branch of `freeAll` and `(-1).toNat = 0` are
never reached). -/
namespace KV
open KV.Heap

/-! ### the releases of `memMap` -/

/-- every release of `freeAll h fs`, in sequence: the location is non-negative, is the start of a live chunk of the heap at
    that moment, and the release succeeds -/
def freesLiveB : Heap → List Int → Bool
  | _, [] => true
  | h, l :: r => decide (0 ≤ l) && liveStartB h l.toNat &&
      (match h.free l.toNat with
       | some h' => freesLiveB h' r
       | none => false)

theorem freesLiveB_of (fs : List Int) : ∀ (h : Heap), HInv h → fs.Nodup →
    (∀ l ∈ fs, 0 ≤ l ∧ ∃ n, (l.toNat, n) ∈ h.used) → freesLiveB h fs = true := by
  induction fs with
  | nil => intro _ _ _ _; rfl
  | cons l r ih =>
    intro h hi hnd hl
    obtain ⟨hl0, n, hn⟩ := hl l List.mem_cons_self
    have hls : liveStartB h l.toNat = true := by
      simp only [liveStartB, List.contains_eq_mem, List.mem_map, decide_eq_true_eq]
      exact ⟨_, hn, rfl⟩
    obtain ⟨h', hf⟩ := liveStart_free h hi _ hls
    simp only [freesLiveB, hl0, decide_true, hls, Bool.and_self, hf, Bool.true_and]
    rw [List.nodup_cons] at hnd
    apply ih h' (free_inv h h' _ hi hf) hnd.2
    intro l' hl'
    obtain ⟨h0, n', hn'⟩ := hl l' (List.mem_cons_of_mem _ hl')
    refine ⟨h0, n', (free_used_iff h h' _ hi hf _).mpr ⟨hn', ?_⟩⟩
    intro he
    simp only at he
    apply hnd.1
    have : l' = l := by omega
    exact this ▸ hl'

theorem setAdd_nodup (l : List Int) (x : Int) (h : l.Nodup) : (setAdd l x).Nodup := by
  unfold setAdd
  split
  · exact h
  · rename_i hc
    rw [List.nodup_append]
    refine ⟨h, by simp, ?_⟩
    intro a ha b hb
    rw [List.mem_singleton] at hb
    subst hb
    intro e; subst e
    exact hc (by simpa using ha)

theorem collect_nodup (s : MapSt) (xs : List Nat) : ∀ (fs : List Int), fs.Nodup → (xs.foldl (collectStep s) fs).Nodup := by
  induction xs with
  | nil => intro fs h; exact h
  | cons x r ih =>
    intro fs h
    simp only [List.foldl_cons]
    apply ih
    unfold collectStep
    split
    · exact setAdd_nodup _ _ h
    · exact h

theorem mapOpStep_snd (ix : Idx) (st : Array (Option Nat)) (capsIn : Nat → Nat) (capsMin : Nat) (sf : MapSt × List Int)
    (op : OpRow) : (mapOpStep ix st capsIn capsMin sf op).2 =
      (opSrcs st op).foldl (collectStep ((opSrcs st op).foldl decRef sf.1)) sf.2 := by
  unfold mapOpStep
  by_cases ht : op.out = ix.tmp
  · have hb : (op.out != ix.tmp) = false := by simp [ht]
    simp only [hb, Bool.false_eq_true, if_false]
  · have hb : (op.out != ix.tmp) = true := by simp [ht]
    simp only [hb, if_true]

theorem mapOpStep_nodup (ix : Idx) (st : Array (Option Nat)) (capsIn : Nat → Nat) (capsMin : Nat) (ops : List OpRow) :
    ∀ (sf : MapSt × List Int), sf.2.Nodup → (ops.foldl (mapOpStep ix st capsIn capsMin) sf).2.Nodup := by
  induction ops with
  | nil => intro sf h; exact h
  | cons o r ih =>
    intro sf h
    simp only [List.foldl_cons]
    apply ih
    rw [mapOpStep_snd]
    exact collect_nodup _ _ _ h

/-- the level step together with the check that all its releases were releases of live starts -/
def mapLevelStepChk (ix : Idx) (st : Array (Option Nat)) (capsIn : Nat → Nat) (capsMin : Nat) (reuse : Bool)
    (ops : List OpRow) (sb : MapSt × Bool) (ab : Nat × Nat) : MapSt × Bool :=
  let r := (levelOps ops ab).foldl (mapOpStep ix st capsIn capsMin) (sb.1, [])
  (mapLevelStep ix st capsIn capsMin reuse ops sb.1 ab, sb.2 && (!reuse || freesLiveB r.1.heap r.2))

/-- all levels of `memMap`: `true` iff every release performed (all levels, in the order `freeAll` performs them) was the
    release of a non-negative location that is the start of a live chunk, and succeeded -/
def memMapFreesLiveB (net : Net) (ops : List OpRow) (st : Array (Option Nat)) (lev : LevSt)
    (capsIn : Nat → Nat) (capsMin : Nat) (reuse : Bool) : Bool :=
  ((levelPairs lev.starts.reverse ops.length).foldl (mapLevelStepChk net.idx st capsIn capsMin reuse ops)
    (mapPre net st lev capsMin, true)).2

/-- the instrumented fold computes the same states as `mapLevels` -/
theorem chk_fst (ix : Idx) (st : Array (Option Nat)) (capsIn : Nat → Nat) (capsMin : Nat) (reuse : Bool) (ops : List OpRow)
    (l : List (Nat × Nat)) : ∀ (sb : MapSt × Bool),
    (l.foldl (mapLevelStepChk ix st capsIn capsMin reuse ops) sb).1 = l.foldl (mapLevelStep ix st capsIn capsMin reuse ops) sb.1 := by
  induction l with
  | nil => intro _; rfl
  | cons ab r ih => intro sb; simp only [List.foldl_cons]; rw [ih]; rfl

theorem levelStep_frees {p : MapIn} (hp : ProgOK p) (hpos : 0 < p.capsMin) (capsIn : Nat → Nat)
    {a b : Nat} (ha : a ∈ p.starts) (hab : a ≤ b) (hb : b ≤ p.ops.length) (hgap : ∀ t ∈ p.starts, t ≤ a ∨ b ≤ t)
    (s : MapSt) (h : MInv p true a s) :
    freesLiveB ((levelOps p.ops (a, b)).foldl (mapOpStep p.ix p.stems capsIn p.capsMin) (s, [])).1.heap
      ((levelOps p.ops (a, b)).foldl (mapOpStep p.ix p.stems capsIn p.capsMin) (s, [])).2 = true := by
  have key := levelOps_fold_inv p.ops (mapOpStep p.ix p.stems capsIn p.capsMin)
    (fun k sf => a ≤ k ∧ AInv p true a (AllocAt p k) sf.1 ∧ RcInv p k sf.1 ∧ FsInv p true a k (AllocAt p k) sf.1 sf.2)
    b hb (by
      intro k o sf hkb hk ⟨hak, hA, hR, hF⟩
      obtain ⟨s', fs⟩ := sf
      have := opStep_inv hp hpos true capsIn ha hak (levelOf_const p hgap hak hkb) hk s' fs hA hR hF
      exact ⟨by omega, this⟩)
    (b - a) a (s, []) (by omega) ⟨Nat.le_refl _, h.1, h.2, fun _ l hl => by cases hl⟩
  obtain ⟨_, kA, _, kF⟩ := key
  apply freesLiveB_of _ _ kA.hi (mapOpStep_nodup _ _ _ _ _ _ List.nodup_nil)
  intro l hl
  obtain ⟨x, hx, hda, _, rfl⟩ := kF rfl l hl
  exact ⟨(kA.bd x hx).1, _, kA.lv x hx hda⟩

/-- **every release `memMap` performs is the release of a live chunk start** — for a record `p` with the model's rows and
    level table -/
theorem memMap_frees_live_p {p : MapIn} (hp : ProgOK p) (hpos : 0 < p.capsMin) (reuse : Bool) (capsIn : Nat → Nat) (lev : LevSt)
    (hst : p.starts = lev.starts.reverse)
    (hsz : lev.refc.size = p.ix.len) (hrc : ∀ x, x < p.ix.len → lev.refc.getD x 0 = (occ p.stems x p.ops : Int)) :
    memMapFreesLiveB p.net p.ops p.stems lev capsIn p.capsMin reuse = true := by
  unfold memMapFreesLiveB
  rw [← hst]
  have := levelPairs_fold_inv p.starts p.ops.length hp.starts (mapLevelStepChk p.ix p.stems capsIn p.capsMin reuse p.ops)
    (fun k sb => MInv p reuse k sb.1 ∧ sb.2 = true)
    (fun a b sb ha hab hb hgap h => by
      refine ⟨levelStep_inv hp hpos reuse capsIn ha hab hb hgap sb.1 h.1, ?_⟩
      simp only [mapLevelStepChk, h.2, Bool.true_and]
      cases reuse with
      | false => rfl
      | true => simpa using levelStep_frees hp hpos capsIn ha hab hb hgap sb.1 h.1)
    (mapPre p.net p.stems lev p.capsMin, true) ⟨mapPre_inv hpos reuse lev hsz hrc, rfl⟩
  exact this.2

/-- … for the scheduler model of every netlist -/
theorem simops_frees_live (tbl : List PrefixRow) (net : Net) (order : List Nat) (strip : Bool) (capsIn : Nat → Nat)
    (capsMin : Nat) (reuse : Bool) (hwf : net.wfB = true) (ho : orderOKB net order = true)
    (hf : strip = true → forksOKB net order = true) (hr : readsDrivenB tbl net order = true) (hpos : 0 < capsMin) :
    memMapFreesLiveB net (genOps tbl net order strip) (stemsOf net strip)
      (levelise net.idx.len (stemsOf net strip) (genOps tbl net order strip)) capsIn capsMin reuse = true := by
  have hp := simops_progOK tbl (simopsMap tbl net order strip capsIn capsMin reuse) order hwf ho hf hr rfl rfl
  exact memMap_frees_live_p (p := simopsMap tbl net order strip capsIn capsMin reuse) hp hpos reuse capsIn
    (levelise net.idx.len (stemsOf net strip) (genOps tbl net order strip)) rfl
    (levelise_refc_size _ _ _) (fun x hx => levelise_refc _ _ _ x hx)

end KV
