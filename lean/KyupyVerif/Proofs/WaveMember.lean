import KyupyVerif.Proofs.WaveTerm

namespace KV.Wave

/-- every stored time is `tmin` or an operand entry plus one of that operand's delays -/
def Reach (D : Delays) (ws : Fin 4 → List T) (x : T) : Prop :=
  x = T.tmin ∨ ∃ (i : Fin 4) (e : T) (p q : Bool), e ∈ ws i ∧ x = e.add (D i p q)

theorem cur_reach (E : Env) (ws) (s : St) (hd : DInv ws s) (hlt : T.lt (cur E.D E.terms s) .tmax = true) :
    Reach E.D ws (cur E.D E.terms s) := by
  have hne := pick_nonempty E s hlt
  have hp := pend_pick E.D E.terms s
  right
  cases hr : s.r (pick E.D E.terms s) with
  | nil => exact absurd hr hne
  | cons x xs =>
    refine ⟨pick E.D E.terms s, x, (s.k (pick E.D E.terms s) % 2 == 1), s.zval, ?_, ?_⟩
    · have := (hd (pick E.D E.terms s)).1
      rw [hr] at this
      exact List.mem_of_mem_drop (this ▸ List.mem_cons_self)
    · rw [← hp]; unfold pend; rw [hr]; simp [headT]

theorem step_member (E : Env) (ws) (s : St) (hd : DInv ws s) (hlt : T.lt (cur E.D E.terms s) .tmax = true)
    (h : ∀ x ∈ s.z, Reach E.D ws x) : ∀ x ∈ (step E.lut E.D E.terms E.zcap s).z, Reach E.D ws x := by
  have hc := cur_reach E ws s hd hlt
  unfold step; simp only []
  repeat' split
  · intro x hx; rcases List.mem_cons.mp hx with rfl | hx
    · exact hc
    · exact h x hx
  · intro x hx; exact h x (List.mem_of_mem_tail hx)
  · intro x hx; exact h x (List.mem_of_mem_tail hx)
  · exact h

/-- C04 (gate level): every entry of the produced waveform is `tmin` or an operand entry plus a delay of that line -/
theorem run_member (E : Env) (ws) (fuel : Nat) (s : St) (hd : DInv ws s) (h : ∀ x ∈ s.z, Reach E.D ws x) :
    ∀ x ∈ (run E.lut E.D E.terms E.zcap fuel s).z, Reach E.D ws x := by
  induction fuel generalizing s with
  | zero => simpa [run]
  | succ n ih =>
    unfold run; split
    · rename_i hlt; exact ih _ (step_dinv E ws s hd hlt) (step_member E ws s hd hlt h)
    · exact h

end KV.Wave
