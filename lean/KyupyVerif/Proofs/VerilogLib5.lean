import KyupyVerif.Proofs.VerilogLib4
/-! Capstone C11 ∘ C10 ∘ C19 ∘ C01/C02, part 5: the scheduled 2-valued simulation of the RESOLVED circuit computes THE datasheet
model of the module (`verilog_library_sim`), the acceptance check of the driver (`vModelLibB_sound`). -/
namespace KV.Transform
open KV

/-- `NNet.wf` contains the well-formedness the simulation theorems ask for -/
theorem wfB_of_WF {nn : NNet} (w : WF nn) : nn.net.wfB = true := by
  unfold Net.wfB
  simp only [List.all_eq_true, List.mem_range, Bool.and_eq_true]
  intro n hn
  refine ⟨?_, ?_⟩
  · intro ⟨o, pin⟩ hmem
    cases o with
    | none => rfl
    | some l =>
      have hget : (nn.net.node n).outs[pin]? = some (some l) := mem_zipIdx_getElem? hmem
      have hD : (nn.net.node n).outs.getD pin none = some l := by rw [List.getD_eq_getElem?_getD, hget]; rfl
      obtain ⟨h1, h2, h3⟩ := w.fwdOut n hn pin l hD
      simp [h1, h2, h3]
  · intro ⟨o, pin⟩ hmem
    cases o with
    | none => rfl
    | some l =>
      have hget : (nn.net.node n).ins[pin]? = some (some l) := mem_zipIdx_getElem? hmem
      have hD : (nn.net.node n).ins.getD pin none = some l := by rw [List.getD_eq_getElem?_getD, hget]; rfl
      obtain ⟨h1, h2, h3⟩ := w.fwdIn n hn pin l hD
      simp [h1, h2, h3]

end KV.Transform

namespace KV.Netlist
open KV KV.Transform KV.TL KV.DS KV.Sig

universe u
variable {cfg : Cfg} {tl : TL} {ports : List String} {stmts : List Stmt}

theorem sPos_some (net : Net) (n p : Nat) (h : net.sPos n = some p) :
    n ∈ net.sNodes ∧ net.sNodes.getD p 0 = n ∧ net.sNodes.idxOf n = p := by
  unfold Net.sPos sPosIn at h
  simp only at h
  split at h
  · rename_i hlt
    cases h
    refine ⟨List.idxOf_lt_length_iff.mp hlt, ?_, rfl⟩
    rw [List.getD_eq_getElem?_getD, List.getElem?_eq_getElem hlt]
    simp
  · cases h

theorem instVal_congr_a {α : Type u} (z : α) (neg : α → α) (prim : String → α → α → α → α → α) (a a' : Nat → α) (pos : Nat)
    (i : VInst) (idx : Nat) (σ : String → α) (h : isSeqKind i.ty = true → a pos = a' pos) :
    instVal tl z neg prim a pos i idx σ = instVal tl z neg prim a' pos i idx σ := by
  unfold instVal
  by_cases hs : isSeqKind i.ty = true
  · simp only [hs, if_true, h hs]
  · simp only [hs, Bool.false_eq_true, if_false]

/-- a model looks at the assignment only at the positions of input port bits and state elements -/
theorem vModelOff_congr_a {α : Type u} (hok : VOK cfg tl ports stmts) (HI : VInst → Prop) (z : α) (neg : α → α)
    (prim : String → α → α → α → α → α) (a a' : Nat → α) (σ : String → α)
    (h : ∀ n p, (verilogNet cfg tl ports stmts).sPos n = some p → a p = a' p)
    (hm : VModelOff HI tl ports stmts z neg prim a σ) : VModelOff HI tl ports stmts z neg prim a' σ := by
  refine ⟨fun i hi hH o ho => ?_, fun n hn => ?_, hm.2.2.1, hm.2.2.2⟩
  · rw [hm.1 i hi hH o ho]
    apply instVal_congr_a
    intro hs
    have := verilogNet_sPos_inst hok i hi 0
    rw [hs] at this
    exact h _ _ this
  · rw [hm.2.1 n hn]
    exact h _ _ (verilogNet_sPos_input hok n hn)

/-- no `s_node` of the parsed net is a library cell -/
theorem sNodes_not_lib (hok : VOK cfg tl ports stmts) (lib : Lib) (hcl : LibClean lib stmts) (n : Nat)
    (hn : n ∈ (verilogNet cfg tl ports stmts).sNodes) :
    n < (verilogNet cfg tl ports stmts).nodes.size ∧ (lib.find ((verilogNet cfg tl ports stmts).node n).kind).isSome = false := by
  rw [verilogNet_sNodes hok] at hn
  obtain ⟨e, he, rfl⟩ := List.mem_map.mp hn
  have hres := (vSNames_resolved hok e he).1
  refine ⟨by unfold verilogNet; rw [toNet_nodes_size]; exact hres, ?_⟩
  rw [verilogNet_kind _ hres]
  unfold vSNames at he
  simp only [List.mem_append, List.mem_map, List.mem_filter] at he
  have hseq : ∀ i ∈ vInsts stmts, isSeqKind i.ty = true → (lib.find i.ty).isSome = false := by
    intro i hi hs
    cases hl : (lib.find i.ty).isSome with
    | false => rfl
    | true => rw [hcl.noSeq i hi hl] at hs; cases hs
  rcases he with (⟨nm, hnm, rfl⟩ | ⟨i, ⟨hi, hd⟩, rfl⟩) | ⟨i, ⟨hi, hd⟩, rfl⟩
  · obtain ⟨d, hd, hk, hnd⟩ := (mem_portBitNames _ nm).mp (mem_posNames_port hok nm hnm)
    rw [kindOf_cell _ (module_cells_nodup hok) ⟨d.kind.str, nm, false⟩ (portCell_mem hok d hd hk nm hnd) 0]
    cases hdk : d.kind with
    | input => show (lib.find "input").isSome = false; rw [hcl.input]; rfl
    | output => show (lib.find "output").isSome = false; rw [hcl.output]; rfl
    | wire => exact absurd hdk hk
  · rw [v_kindOf_inst hok i hi]
    exact hseq i hi (by unfold isSeqKind; rw [hd]; rfl)
  · rw [v_kindOf_inst hok i hi]
    exact hseq i hi (by unfold isSeqKind; rw [hd]; simp)

/-- **the simulation of the resolved circuit computes THE datasheet model of the module** (2-valued): for every module of the
fragment over a library whose instances are certified, every topological order of the RESOLVED circuit that schedules every line
and every stimulus with 0 in the constant slot -/
theorem verilog_library_sim (hok : VOK cfg tl ports stmts) (lib : Lib) (hcl : LibClean lib stmts) (h' : NNet)
    (hw : (verilogNNet cfg tl ports stmts).wf = true)
    (hrok : resolveOKB lib (verilogNNet cfg tl ports stmts).keys (verilogNNet cfg tl ports stmts) = true)
    (he : resolveCells lib (verilogNNet cfg tl ports stmts) = some h') (row : String → Cell) (ord : String → List Nat)
    (hcert : ∀ c, c < (verilogNNet cfg tl ports stmts).net.nodes.size →
      (lib.find ((verilogNNet cfg tl ports stmts).net.node c).kind).isSome = true → InstCert lib row ord (verilogNNet cfg tl ports stmts) c)
    (hsn : h'.net.sNodes = (verilogNet cfg tl ports stmts).sNodes)
    (order : List Nat) (ho : orderOKB h'.net order = true) (hfk : forksOKB h'.net order = true)
    (hall : linesDrivenB Gen.kindPrefixes h'.net order = true) (env : Nat → Bool) (hz : env h'.net.idx.zero = false) :
    ∃ σ, VModelLib (libHas lib) row tl ports stmts (fun p => env (h'.net.idx.ppi + p)) σ ∧
      (∀ σ', VModelLib (libHas lib) row tl ports stmts (fun p => env (h'.net.idx.ppi + p)) σ' → σ' = σ) ∧
      (∀ i, i < (verilogNet cfg tl ports stmts).lines.size →
        exec semL2n ((genOps Gen.kindPrefixes h'.net order false).map OpRow.toOp) env i = vLabel cfg tl stmts false prim2 σ i) ∧
      ((verilogNet cfg tl ports stmts).sNodes.map fun n => (h'.net.node n).inPin 0 |>.map
        (exec semL2n ((genOps Gen.kindPrefixes h'.net order false).map OpRow.toOp) env)) =
          vCaptures tl ports stmts false prim2 σ := by
  obtain ⟨r1, r2, r3, r4, fw, bw⟩ := verilog_resolved_datasheet hok lib hcl h' hw hrok he row ord hcert
  have hwf' : h'.net.wfB = true := wfB_of_WF (WF.of_wf r1)
  obtain ⟨s1, s2⟩ := sim_is_the_labelling semL2n specL2 (fun _ h xs => semL2n_eq_spec h xs) (!·) prim2 semSpec2 h'.net order
    hwf' ho hfk hall env
  rw [hz] at s1 s2
  let a : Nat → Bool := fun p => env (h'.net.idx.ppi + p)
  let an' : Nat → Bool := fun n => a (h'.net.sNodes.idxOf n)
  have c1 : ConsOff h' (fun _ => False) false (!·) prim2 an'
      (exec semL2n ((genOps Gen.kindPrefixes h'.net order false).map OpRow.toOp) env) :=
    (consOff_iff_labellingOff h' _ false (!·) prim2 a an' (fun _ _ => rfl) _).mpr ((netLabellingOff_false _ _ _ _ _ _).mpr s1)
  obtain ⟨σ, hm, hl⟩ := fw an' _ c1
  -- the assignment of the model is the stimulus
  have hpos : ∀ n p, (verilogNet cfg tl ports stmts).sPos n = some p →
      an' ((verilogNet cfg tl ports stmts).sNodes.getD p 0) = a p := by
    intro n p hp
    obtain ⟨_, h2, h3⟩ := sPos_some _ n p hp
    show a (h'.net.sNodes.idxOf ((verilogNet cfg tl ports stmts).sNodes.getD p 0)) = a p
    rw [h2, hsn, h3]
  have hm' : VModelLib (libHas lib) row tl ports stmts a σ := ⟨vModelOff_congr_a hok _ false (!·) prim2 _ a σ hpos hm.1, hm.2⟩
  refine ⟨σ, hm', ?_, fun i hi => (hl i hi), ?_⟩
  · intro σ' hm2
    obtain ⟨an2, v2, d1, d2, d3⟩ := bw a σ' hm2
    have hagree : ∀ n ∈ h'.net.sNodes, an2 n = a (h'.net.sNodes.idxOf n) := by
      intro n hn
      rw [hsn] at hn ⊢
      obtain ⟨q1, q2⟩ := sNodes_not_lib hok lib hcl n hn
      exact d3 n q1 q2
    have d1' := (netLabellingOff_false _ _ _ _ _ _).mp ((consOff_iff_labellingOff h' _ false (!·) prim2 a an2 hagree v2).mp d1)
    have huniq := s2 v2 d1'
    apply v_model_unique_off hok _ _ false (!·) prim2 a a σ' σ hm2.1 hm'.1
    intro i hi
    rw [← d2 i hi, ← hl i hi]
    exact huniq i (by omega)
  · rw [← v_captures hok false prim2 σ]
    apply List.map_congr_left
    intro n hn
    obtain ⟨q1, q2⟩ := sNodes_not_lib hok lib hcl n hn
    rw [r4 n q1 q2]
    cases hp : ((verilogNet cfg tl ports stmts).node n).inPin 0 with
    | none => rfl
    | some l =>
      have hlt := (wf_in (net := verilogNet cfg tl ports stmts) (toNet_wf _ _) q1 (inPin_some hp)).1
      simp only [Option.map_some, hl l hlt]

/-! ## the driver's acceptance check -/

theorem vModelLibB_sound (isLib : String → Bool) (row : String → Cell) (a : Nat → Bool) (tab : List (String × Bool))
    (h : vModelLibB isLib row tl ports stmts a tab = true) : VModelLib isLib row tl ports stmts a (vEnvOf false tab) := by
  unfold vModelLibB at h
  simp only [Bool.and_eq_true, List.all_eq_true, beq_iff_eq, Bool.or_eq_true, Bool.not_eq_true'] at h
  obtain ⟨⟨⟨h1, h2⟩, h3⟩, h4⟩ := h
  refine ⟨⟨fun i hi hH o ho => ?_, fun n hn => h2 n hn, fun ts hts => h3 ts hts, fun s hs => ?_⟩, fun i hi hlib => ?_⟩
  · have := (h1 i hi).2 o ho
    rw [this]
    unfold instValLib
    have hf : isLib i.ty = false := by simpa using hH
    simp [hf]
  · unfold vEnvOf lookupA
    cases hf : tab.find? (fun p => p.1 == s) with
    | none => rfl
    | some p =>
      exfalso
      have g1 := List.mem_of_find?_eq_some hf
      have g2 : p.1 = s := by simpa using List.find?_some hf
      have g3 := h4 p g1
      rw [g2, hs] at g3
      cases g3
  · obtain ⟨hA, hB⟩ := h1 i hi
    rcases hA with hA | hA
    · rw [hlib] at hA; cases hA
    · cases hc : cellFuns row i.ty with
      | none => rw [hc] at hA; cases hA
      | some fs =>
        refine ⟨fs, rfl, fun o ho f hf => ?_⟩
        have := hB o ho
        rw [this]
        unfold instValLib
        simp only [hlib, if_true, hc, hf]

end KV.Netlist
