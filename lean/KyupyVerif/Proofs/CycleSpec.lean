import KyupyVerif.Proofs.NextStateSpec
import KyupyVerif.Proofs.BenchEnd
import KyupyVerif.Proofs.CycleStrip
/-! C01, audit-2 finding 7: the k-cycle statement against the INDEPENDENT next-state specification.

* `consistentB_asg` — the acceptance check reads the assignment only at the `s_nodes` positions of line drivers; there the memory
  after `s_to_c` holds `s[0]`: the check can be stated with the plain assignment `p ↦ s[0][p]` (no index tables);
* `simLabel_accepted` — EXISTENCE: the labelling the simulator model computes, read on the lines, is accepted by `consistentB`;
* `nextState_spec_gen` — one step, any value domain, any merge, against `nextStateFromM` (`= nextStateFrom` for copy);
* `cycleK_spec_gen` — k steps: `s[0]` after `cycle(k)` = the k-fold iterate of the specification's next-state function, for any
  labelling family accepted at the iterates; `specStep_total`, `specStep_functional` — the one-step relation of the specification is
  total and functional, so the iterate does not depend on the family. -/
namespace KV
open KV.Cycle KV.Sig KV.Netlist

/-- every line is the output of a pin of its driver, and that driver is a node (from `wfB` + every line is written by a row) -/
theorem line_driver_out (net : Net) (order : List Nat) (hwf : net.wfB = true) (ho : orderOKB net order = true)
    (hall : linesDrivenB Gen.kindPrefixes net order = true) (l : Nat) (hl : l < net.lines.size) :
    (net.line l).driver < net.nodes.size ∧ ∃ pin : Nat, (net.node (net.line l).driver).outs[pin]? = some (some l) := by
  unfold linesDrivenB at hall
  simp only [List.all_eq_true, List.mem_range, List.contains_eq_mem, decide_eq_true_eq] at hall
  obtain ⟨r, hr, he⟩ := List.mem_map.mp (hall l hl)
  obtain ⟨_, ht, _⟩ := idx_vals net
  have hne : r.out ≠ net.idx.tmp := by rw [he, ht]; omega
  simp only [genOps, List.mem_flatMap] at hr
  obtain ⟨n, hn, hmem⟩ := hr
  have hnlt := orderOK_lt ho n hn
  obtain ⟨pin, hpin⟩ := (nodeOps_out _ _ _ _ _ _ _ hmem).resolve_left hne
  rw [he] at hpin
  have hdrv := (wf_out hwf hnlt hpin).2.1
  rw [hdrv]
  exact ⟨hnlt, pin, hpin⟩

theorem sPosIn_some' (sn : List Nat) (n p : Nat) (h : sPosIn sn n = some p) : p < sn.length ∧ sn.getD p 0 = n := by
  unfold sPosIn at h
  simp only at h
  split at h
  · rename_i hlt
    simp only [Option.some.injEq] at h
    subst h
    refine ⟨hlt, ?_⟩
    rw [List.getD_eq_getElem?_getD, List.getElem?_eq_getElem hlt]
    simp
  · cases h

/-- the acceptance check looks at the assignment only at positions of line drivers -/
theorem consistentB_congr_asg {α} [BEq α] (net : Net) (z : α) (neg : α → α) (prim : String → α → α → α → α → α)
    (a1 a2 : Nat → α) (v : Array α)
    (h : ∀ l p, l < net.lines.size → net.sPosTable.getD (net.line l).driver none = some p → a1 p = a2 p) :
    consistentB net z neg prim a1 v = consistentB net z neg prim a2 v := by
  have hle : ∀ l, l < net.lines.size →
      lineEq net (fun n => net.sPosTable.getD n none) z neg prim a1 (fun i => v.getD i z) l =
        lineEq net (fun n => net.sPosTable.getD n none) z neg prim a2 (fun i => v.getD i z) l := by
    intro l hl'
    unfold lineEq
    cases hsp : net.sPosTable.getD (net.line l).driver none with
    | none => simp only [hsp]
    | some p => simp only [hsp, h l p hl' hsp]
  unfold consistentB
  rw [Bool.eq_iff_iff]
  simp only [List.all_eq_true, List.mem_range]
  constructor <;> intro hh l hl
  · rw [← hle l hl]; exact hh l hl
  · rw [hle l hl]; exact hh l hl

/-- after `s_to_c` the (P)PI slot of the position of every line driver holds `s[0]` at that position -/
theorem sToC_at_driver {α} (net : Net) (order : List Nat) (hwf : net.wfB = true) (ho : orderOKB net order = true)
    (hall : linesDrivenB Gen.kindPrefixes net order = true) (d : α) (a : List α) (env : Nat → α)
    (l p : Nat) (hl : l < net.lines.size) (hsp : net.sPosTable.getD (net.line l).driver none = some p) :
    sToC (tabsOf net false) d a env (net.idx.ppi + p) = a.getD p d := by
  obtain ⟨hnlt, pin, hpin⟩ := line_driver_out net order hwf ho hall l hl
  rw [sPosTable_getD net hnlt] at hsp
  obtain ⟨hp, hget⟩ := sPosIn_some' _ _ _ hsp
  have houts : 0 < (sNodeAt net p).outs.length := by
    unfold sNodeAt
    rw [hget]
    have := (List.getElem?_eq_some_iff.mp hpin).1
    omega
  rw [sToC_apply]
  have hm : net.idx.ppi + p ∈ (tabsOf net false).pippi.map (·.2) := by
    simp only [tabsOf, List.map_map, List.mem_map, List.mem_append, Function.comp_apply]
    refine ⟨p, ?_, rfl⟩
    by_cases hio : p < net.io.length
    · exact Or.inl ((mem_piS net p).mpr ⟨hio, houts⟩)
    · exact Or.inr ((mem_ppiUsedS net p).mpr ⟨⟨by omega, hp⟩, houts⟩)
  rw [if_pos hm]
  congr 1
  omega

/-- `s_to_c` leaves the constant slot alone -/
theorem sToC_zero {α} (net : Net) (d : α) (a : List α) (env : Nat → α) :
    sToC (tabsOf net false) d a env net.idx.zero = env net.idx.zero := by
  obtain ⟨hz, _, hp⟩ := idx_vals net
  rw [sToC_apply, if_neg]
  intro hm
  obtain ⟨px, hpx, he⟩ := List.mem_map.1 hm
  have := pippi_sig net false px hpx
  omega

/-- **the acceptance check without index tables**: for the assignment in the (P)PI slots after `s_to_c` = for the plain
assignment `p ↦ s[0][p]`, constant = content of the constant slot -/
theorem consistentB_asg {α} [BEq α] (net : Net) (order : List Nat) (hwf : net.wfB = true) (ho : orderOKB net order = true)
    (hall : linesDrivenB Gen.kindPrefixes net order = true) (neg : α → α) (prim : String → α → α → α → α → α)
    (d : α) (a : List α) (env : Nat → α) (v : Array α) :
    consistentB net (sToC (tabsOf net false) d a env net.idx.zero) neg prim
        (fun p => sToC (tabsOf net false) d a env (net.idx.ppi + p)) v =
      consistentB net (env net.idx.zero) neg prim (fun p => a.getD p d) v := by
  rw [sToC_zero]
  exact consistentB_congr_asg net _ neg prim _ _ v fun l p hl hsp => sToC_at_driver net order hwf ho hall d a env l p hl hsp

/-- the labelling of the lines computed by the simulator model under assignment `a` (memory `env` before `s_to_c`) -/
def simLabel {α} (sem : Nat → List α → α) (net : Net) (order : List Nat) (d : α) (env : Nat → α) (a : List α) : Array α :=
  Array.ofFn (n := net.lines.size) fun i =>
    exec sem ((genOps Gen.kindPrefixes net order false).map OpRow.toOp) (sToC (tabsOf net false) d a env) i.val

theorem simLabel_getD {α} (sem : Nat → List α → α) (net : Net) (order : List Nat) (d : α) (env : Nat → α) (a : List α)
    (z : α) (i : Nat) (hi : i < net.lines.size) :
    (simLabel sem net order d env a).getD i z =
      exec sem ((genOps Gen.kindPrefixes net order false).map OpRow.toOp) (sToC (tabsOf net false) d a env) i := by
  unfold simLabel
  simp [Array.getD_eq_getD_getElem?, hi]

/-- **existence of an accepted labelling**: for every well-formed netlist, topological order that schedules every line, every
assignment and memory, the labelling the simulator model computes is accepted by the specification's check `consistentB` -/
theorem simLabel_accepted {α} [BEq α] [LawfulBEq α] (sem spec : Nat → List α → α)
    (heq : ∀ code, KnownCode code → ∀ xs, sem code xs = spec code xs) (neg : α → α) (prim : String → α → α → α → α → α)
    (hs : SemSpec spec neg prim) (net : Net) (order : List Nat) (hwf : net.wfB = true) (ho : orderOKB net order = true)
    (hfk : forksOKB net order = true) (hall : linesDrivenB Gen.kindPrefixes net order = true)
    (d : α) (env : Nat → α) (a : List α) :
    consistentB net (env net.idx.zero) neg prim (fun p => a.getD p d) (simLabel sem net order d env a) = true := by
  rw [← consistentB_asg net order hwf ho hall neg prim d a env]
  have hdrv : ∀ l, l < net.lines.size → (net.line l).driver < net.nodes.size :=
    fun l hl => (line_driver_out net order hwf ho hall l hl).1
  rw [netLabelling_iff_consistentB net hdrv]
  have h1 := (sim_is_the_labelling sem spec heq neg prim hs net order hwf ho hfk hall (sToC (tabsOf net false) d a env)).1
  intro i hi
  show (simLabel sem net order d env a).getD i _ = _
  rw [simLabel_getD sem net order d env a _ i hi, h1 i hi]
  apply lineEq_congr
  · rfl
  · intro k l' hk
    have hl' : l' < net.lines.size := (wf_in hwf (hdrv i hi) (inPin_some hk)).1
    rw [simLabel_getD sem net order d env a _ l' hl']

/-- independent next-state specification with a merge (m = 8: `s_ppo_to_ppi` builds a transition from old and captured value):
ports keep their value; a state element takes `merge old (v of its data line)`; an open data pin reads the constant `z` -/
def nextStateFromM {α} (net : Net) (merge : α → α → α) (z : α) (v : Array α) (a : List α) : List α :=
  a.mapIdx fun p x => if net.io.length ≤ p then
    merge x (match (net.node (net.sNodes.getD p 0)).inPin 0 with | some l => v.getD l z | none => z) else x

theorem nextStateFromM_copy (net : Net) (z : Bool) (v : Array Bool) (a : List Bool) :
    nextStateFromM net mergeCopy z v a = nextStateFrom net z v a := rfl

theorem nextStateFromM_length {α} (net : Net) (merge : α → α → α) (z : α) (v : Array α) (a : List α) :
    (nextStateFromM net merge z v a).length = a.length := by
  simp [nextStateFromM]

/-- the specification's one-step function depends on the labelling only on the lines -/
theorem nextStateFromM_congr {α} (net : Net) (hwf : net.wfB = true) (merge : α → α → α) (z : α) (v w : Array α) (a : List α)
    (h : ∀ l, l < net.lines.size → v.getD l z = w.getD l z) :
    nextStateFromM net merge z v a = nextStateFromM net merge z w a := by
  unfold nextStateFromM
  apply List.ext_getElem?
  intro p
  rw [List.getElem?_mapIdx, List.getElem?_mapIdx]
  cases a[p]? with
  | none => rfl
  | some x =>
    simp only [Option.map_some, Option.some.injEq]
    by_cases hp : net.io.length ≤ p
    · simp only [hp, if_true]
      cases hl : (net.node (net.sNodes.getD p 0)).inPin 0 with
      | none => rfl
      | some l =>
        simp only
        rw [h l (sNode_pin_lt net hwf p l (by unfold sNodeAt; exact hl))]
    · simp only [hp, if_false]

/-- **one step, any value domain, any merge** (generalises `nextState_is_spec_main`; hypotheses without index tables) -/
theorem nextState_spec_gen {α} [BEq α] [LawfulBEq α] (sem spec : Nat → List α → α)
    (heq : ∀ code, KnownCode code → ∀ xs, sem code xs = spec code xs) (neg : α → α) (prim : String → α → α → α → α → α)
    (hs : SemSpec spec neg prim) (net : Net) (order : List Nat) (hwf : net.wfB = true) (ho : orderOKB net order = true)
    (hfk : forksOKB net order = true) (hall : linesDrivenB Gen.kindPrefixes net order = true)
    (merge : α → α → α) (d : α) (env : Nat → α) (a : List α) (v : Array α)
    (hc : consistentB net (env net.idx.zero) neg prim (fun p => a.getD p d) v = true) :
    Cycle.nextState (fun op => sem op.code) (sigOps Gen.kindPrefixes net order false) net false merge d env a =
      nextStateFromM net merge (env net.idx.zero) v a := by
  rw [← consistentB_asg net order hwf ho hall neg prim d a env] at hc
  have hdrv : ∀ l, l < net.lines.size → (net.line l).driver < net.nodes.size :=
    fun l hl => (line_driver_out net order hwf ho hall l hl).1
  have h2 := (sim_is_the_labelling sem spec heq neg prim hs net order hwf ho hfk hall (sToC (tabsOf net false) d a env)).2 _
    ((netLabelling_iff_consistentB net hdrv _ neg prim _ v).mp hc)
  rw [sToC_zero] at h2
  unfold Cycle.nextState nextRow nextStateFromM
  apply List.ext_getElem?
  intro p
  rw [List.getElem?_mapIdx, List.getElem?_mapIdx]
  cases a[p]? with
  | none => rfl
  | some x =>
    simp only [Option.map_some, Option.some.injEq]
    by_cases hp : net.io.length ≤ p
    · simp only [hp, if_true]
      congr 1
      rw [capSig_false]
      unfold sNodeAt solOf
      rw [sigOps_false, ← exec_eq_execG]
      cases hl : (net.node (net.sNodes.getD p 0)).inPin 0 with
      | none =>
        simp only
        rw [exec_eq_execG, execG_inputs _ _ _ _ (genOps_zero_untouched net order hwf ho), sToC_zero]
      | some l =>
        simp only
        exact (h2 l (sNode_pin_lt net hwf p l (by unfold sNodeAt; exact hl))).symm
    · rw [if_neg hp, if_neg hp]

/-! ### k cycles -/

/-- `s[0]` after `cycle(k)` is the k-fold iterate of the model's next-state function (the `s[0]` clause of C01 `cycle_iter`) -/
theorem cycleK_s0_iter {α} (tbl : List PrefixRow) (net : Net) (order : List Nat)
    (hwf : net.wfB = true) (ho : orderOKB net order = true) (sem : Op → List α → α) (merge : α → α → α) (d : α)
    (st : St α) (h0 : st.s.s0.length = net.sNodes.length) (h1 : st.s.s1.length = net.sNodes.length) (k : Nat) :
    (cycleK sem (sigOps tbl net order false) (tabsOf net false) merge d k st).s.s0 =
      iter (Cycle.nextState sem (sigOps tbl net order false) net false merge d st.env) k st.s.s0 := by
  have hw : WOJ (Jt net) (sigOps tbl net order false) := by
    rw [sigOps_false]; exact genOps_WOJ tbl net order false hwf ho
  rw [cycleK_s (Jt net) sem _ hw net false (capSig_notJunk net hwf) merge d st.env k st h0 h1 (Agree.refl _ _ _)]
  exact iter_stepS_s0 _ _ _ _ _ _ _ _ _

theorem iter_congr_along {β} (N F : β → β) : ∀ (k : Nat) (a : β), (∀ j, j < k → N (iter F j a) = F (iter F j a)) →
    iter N k a = iter F k a
  | 0, _, _ => rfl
  | k + 1, a, h => by
    show iter N k (N a) = iter F k (F a)
    rw [show N a = F a from h 0 (Nat.succ_pos k)]
    exact iter_congr_along N F k (F a) fun j hj => h (j + 1) (Nat.succ_lt_succ hj)

/-- **k cycles against the independent specification, any value domain, any merge.**  For ANY family `v` of labellings (one per
assignment) that the specification's check accepts at the iterates `0 … k-1`, `s[0]` after `cycle(k)` is the k-fold iterate of the
specification's next-state function under that family. -/
theorem cycleK_spec_gen {α} [BEq α] [LawfulBEq α] (sem spec : Nat → List α → α)
    (heq : ∀ code, KnownCode code → ∀ xs, sem code xs = spec code xs) (neg : α → α) (prim : String → α → α → α → α → α)
    (hs : SemSpec spec neg prim) (net : Net) (order : List Nat) (hwf : net.wfB = true) (ho : orderOKB net order = true)
    (hfk : forksOKB net order = true) (hall : linesDrivenB Gen.kindPrefixes net order = true)
    (merge : α → α → α) (d : α) (st : St α) (h0 : st.s.s0.length = net.sNodes.length)
    (h1 : st.s.s1.length = net.sNodes.length) (k : Nat) (v : List α → Array α)
    (hv : ∀ j, j < k → consistentB net (st.env net.idx.zero) neg prim
        (fun p => (iter (fun a => nextStateFromM net merge (st.env net.idx.zero) (v a) a) j st.s.s0).getD p d)
        (v (iter (fun a => nextStateFromM net merge (st.env net.idx.zero) (v a) a) j st.s.s0)) = true) :
    (cycleK (fun op => sem op.code) (sigOps Gen.kindPrefixes net order false) (tabsOf net false) merge d k st).s.s0 =
      iter (fun a => nextStateFromM net merge (st.env net.idx.zero) (v a) a) k st.s.s0 := by
  rw [cycleK_s0_iter Gen.kindPrefixes net order hwf ho _ merge d st h0 h1 k]
  apply iter_congr_along
  intro j hj
  exact nextState_spec_gen sem spec heq neg prim hs net order hwf ho hfk hall merge d st.env _ _ (hv j hj)

/-- one step of the specification as a RELATION between assignments: some labelling accepted by `consistentB` for `a` yields `a'` -/
def SpecStep {α} [BEq α] (net : Net) (neg : α → α) (prim : String → α → α → α → α → α) (merge : α → α → α) (z d : α)
    (a a' : List α) : Prop :=
  ∃ v : Array α, consistentB net z neg prim (fun p => a.getD p d) v = true ∧ a' = nextStateFromM net merge z v a

/-- the specification's step is TOTAL (an accepted labelling exists for every assignment) … -/
theorem specStep_total {α} [BEq α] [LawfulBEq α] (spec : Nat → List α → α) (neg : α → α) (prim : String → α → α → α → α → α)
    (hs : SemSpec spec neg prim) (net : Net) (order : List Nat) (hwf : net.wfB = true) (ho : orderOKB net order = true)
    (hfk : forksOKB net order = true) (hall : linesDrivenB Gen.kindPrefixes net order = true)
    (merge : α → α → α) (z d : α) (a : List α) : ∃ a', SpecStep net neg prim merge z d a a' :=
  ⟨_, simLabel spec net order d (fun _ => z) a,
    simLabel_accepted spec spec (fun _ _ _ => rfl) neg prim hs net order hwf ho hfk hall d (fun _ => z) a, rfl⟩

/-- … and FUNCTIONAL (two accepted labellings give the same next assignment) -/
theorem specStep_functional {α} [BEq α] [LawfulBEq α] (spec : Nat → List α → α) (neg : α → α)
    (prim : String → α → α → α → α → α)
    (hs : SemSpec spec neg prim) (net : Net) (order : List Nat) (hwf : net.wfB = true) (ho : orderOKB net order = true)
    (hfk : forksOKB net order = true) (hall : linesDrivenB Gen.kindPrefixes net order = true)
    (merge : α → α → α) (z d : α) (a a1 a2 : List α)
    (s1 : SpecStep net neg prim merge z d a a1) (s2 : SpecStep net neg prim merge z d a a2) : a1 = a2 := by
  obtain ⟨v, hv, rfl⟩ := s1
  obtain ⟨w, hw, rfl⟩ := s2
  rw [← nextState_spec_gen spec spec (fun _ _ _ => rfl) neg prim hs net order hwf ho hfk hall merge d (fun _ => z) a v hv,
    ← nextState_spec_gen spec spec (fun _ _ _ => rfl) neg prim hs net order hwf ho hfk hall merge d (fun _ => z) a w hw]

/-- **the run of `cycle` is THE run of the specification**: (a) consecutive `s[0]` rows of the simulator are related by the
specification's step; (b) every sequence of assignments that starts at `s[0]` and follows the specification's step for `k` steps ends
in `s[0]` after `cycle(k)`. -/
theorem cycleK_spec_run {α} [BEq α] [LawfulBEq α] (sem spec : Nat → List α → α)
    (heq : ∀ code, KnownCode code → ∀ xs, sem code xs = spec code xs) (neg : α → α) (prim : String → α → α → α → α → α)
    (hs : SemSpec spec neg prim) (net : Net) (order : List Nat) (hwf : net.wfB = true) (ho : orderOKB net order = true)
    (hfk : forksOKB net order = true) (hall : linesDrivenB Gen.kindPrefixes net order = true)
    (merge : α → α → α) (d : α) (st : St α) (h0 : st.s.s0.length = net.sNodes.length)
    (h1 : st.s.s1.length = net.sNodes.length) :
    let run := fun k => (cycleK (fun op => sem op.code) (sigOps Gen.kindPrefixes net order false) (tabsOf net false) merge d k st).s.s0
    (∀ k, SpecStep net neg prim merge (st.env net.idx.zero) d (run k) (run (k + 1))) ∧
    (∀ (seq : Nat → List α) (k : Nat), seq 0 = st.s.s0 →
      (∀ j, j < k → SpecStep net neg prim merge (st.env net.idx.zero) d (seq j) (seq (j + 1))) → seq k = run k) := by
  intro run
  have hrun : ∀ k, run k = iter (Cycle.nextState (fun op => sem op.code) (sigOps Gen.kindPrefixes net order false) net false
      merge d st.env) k st.s.s0 := fun k => cycleK_s0_iter Gen.kindPrefixes net order hwf ho _ merge d st h0 h1 k
  constructor
  · intro k
    refine ⟨simLabel sem net order d st.env (run k),
      simLabel_accepted sem spec heq neg prim hs net order hwf ho hfk hall d st.env (run k), ?_⟩
    rw [← nextState_spec_gen sem spec heq neg prim hs net order hwf ho hfk hall merge d st.env (run k) _
      (simLabel_accepted sem spec heq neg prim hs net order hwf ho hfk hall d st.env (run k))]
    rw [hrun (k + 1), iter_succ', ← hrun k]
  · intro seq k hs0 hstep
    induction k with
    | zero => rw [hs0]; rfl
    | succ k ih =>
      obtain ⟨v, hv, he⟩ := hstep k (Nat.lt_succ_self k)
      rw [he, ih (fun j hj => hstep j (Nat.lt_succ_of_lt hj))]
      rw [← nextState_spec_gen sem spec heq neg prim hs net order hwf ho hfk hall merge d st.env (run k) v
        (by rw [← ih (fun j hj => hstep j (Nat.lt_succ_of_lt hj))]; exact hv)]
      rw [hrun (k + 1), iter_succ', ← hrun k]

/-! ### the driver's executable oracle function `KV.iterState` -/

theorem sPosTable_some_lt (net : Net) (n p : Nat) (h : net.sPosTable.getD n none = some p) : p < net.sNodes.length := by
  by_cases hn : n < net.nodes.size
  · rw [sPosTable_getD net hn] at h
    exact (sPosIn_some' _ _ _ h).1
  · unfold Net.sPosTable at h
    simp only [Array.getD_eq_getD_getElem?, List.getElem?_toArray, List.getElem?_map] at h
    rw [List.getElem?_eq_none (by simpa using hn)] at h
    cases h

/-- the default value of the assignment list plays no role in the acceptance check -/
theorem consistentB_asg_default {α} [BEq α] (net : Net) (z : α) (neg : α → α) (prim : String → α → α → α → α → α)
    (a : List α) (ha : a.length = net.sNodes.length) (d d' : α) (v : Array α) :
    consistentB net z neg prim (fun p => a.getD p d) v = consistentB net z neg prim (fun p => a.getD p d') v := by
  apply consistentB_congr_asg
  intro l p _ hsp
  have hp := sPosTable_some_lt net _ p hsp
  rw [List.getD_eq_getElem?_getD, List.getD_eq_getElem?_getD, List.getElem?_eq_getElem (by omega)]
  rfl

/-- the specification's next-state function with the evaluator's labelling, on assignment lists -/
def specF (net : Net) (l : List Bool) : List Bool :=
  nextStateFrom net false (evalAll net false (!·) prim2 (fun j => l.getD j false)) l

theorem specF_length (net : Net) (l : List Bool) : (specF net l).length = l.length := by
  simp [specF, nextStateFrom]

theorem iter_specF_length (net : Net) (k : Nat) (l : List Bool) : (iter (specF net) k l).length = l.length := by
  induction k generalizing l with
  | zero => rfl
  | succ k ih => show (iter (specF net) k (specF net l)).length = _; rw [ih, specF_length]

/-- the materialised next state of `iterState` is `specF` -/
theorem nextState_list (net : Net) (l : List Bool) (hl : l.length = net.sNodes.length) :
    (List.range net.sNodes.length).map (nextState net (fun j => l.getD j false)) = specF net l := by
  apply List.ext_getElem
  · simp [specF_length, hl]
  · intro j h1 h2
    have hj : j < net.sNodes.length := by simpa using h1
    rw [List.getElem_map, List.getElem_range, nextState_eq_from_main net _ j hj]
    have hr : (List.range net.sNodes.length).map (fun j => l.getD j false) = l := by
      apply List.ext_getElem
      · simp [hl]
      · intro i a1 a2
        simp [List.getD_eq_getElem?_getD, List.getElem?_eq_getElem a2]
    rw [hr, List.getD_eq_getElem?_getD]
    show (specF net l)[j]?.getD false = _
    rw [List.getElem?_eq_getElem h2]
    rfl

/-- **`KV.iterState` (what the driver's `eval2` evaluates) is the k-fold iterate of `specF`** -/
theorem iterState_list (net : Net) (k : Nat) (l : List Bool) (hl : l.length = net.sNodes.length) :
    iterState net k (fun j => l.getD j false) = fun j => (iter (specF net) k l).getD j false := by
  induction k generalizing l with
  | zero => rfl
  | succ k ih =>
    show iterState net k (fun j => ((List.range net.sNodes.length).map (nextState net fun j => l.getD j false)).toArray.getD j false) = _
    rw [nextState_list net l hl]
    have : (fun j => (specF net l).toArray.getD j false) = fun j => (specF net l).getD j false := by
      funext j; simp [Array.getD_eq_getD_getElem?, List.getD_eq_getElem?_getD]
    rw [this, ih (specF net l) (by rw [specF_length, hl])]
    rfl

/-- the flag `iterAccepted` says: the evaluator's labelling is accepted at every iterate `0 … k` -/
theorem iterAccepted_list (net : Net) (k : Nat) (l : List Bool) (hl : l.length = net.sNodes.length)
    (h : iterAccepted net k (fun j => l.getD j false) = true) :
    ∀ j, j ≤ k → consistentB net false (!·) prim2 (fun p => (iter (specF net) j l).getD p false)
      (evalAll net false (!·) prim2 (fun p => (iter (specF net) j l).getD p false)) = true := by
  induction k generalizing l with
  | zero =>
    intro j hj
    have : j = 0 := by omega
    subst this
    exact h
  | succ k ih =>
    intro j hj
    have h' : (consistentB net false (!·) prim2 (fun j => l.getD j false) (evalAll net false (!·) prim2 fun j => l.getD j false) &&
        iterAccepted net k (fun j => ((List.range net.sNodes.length).map (nextState net fun j => l.getD j false)).toArray.getD j false)) = true := h
    rw [Bool.and_eq_true, nextState_list net l hl] at h'
    cases j with
    | zero => exact h'.1
    | succ j =>
      have : (fun j => (specF net l).toArray.getD j false) = fun j => (specF net l).getD j false := by
        funext j; simp [Array.getD_eq_getD_getElem?, List.getD_eq_getElem?_getD]
      rw [this] at h'
      exact ih (specF net l) (by rw [specF_length, hl]) h'.2 j (by omega)

/-- **`cycle(k)` = `KV.iterState`**: the 2-valued simulator's `s[0]` after k cycles is, position by position, what the driver's
executable specification `iterState` (the oracle's expected values) computes — provided the evaluator's labelling is accepted at the
iterates `0 … k-1` (the flag `iterAccepted` of the driver's `eval2` request for `k-1`) and the constant slot holds 0. -/
theorem cycleK_iterState (sem : Nat → List Bool → Bool) (heq : ∀ code, KnownCode code → ∀ xs, sem code xs = specL2 code xs)
    (net : Net) (order : List Nat) (hwf : net.wfB = true) (ho : orderOKB net order = true)
    (hfk : forksOKB net order = true) (hall : linesDrivenB Gen.kindPrefixes net order = true)
    (d : Bool) (st : St Bool) (h0 : st.s.s0.length = net.sNodes.length) (h1 : st.s.s1.length = net.sNodes.length)
    (hz : st.env net.idx.zero = false) (k : Nat)
    (hacc : k = 0 ∨ iterAccepted net (k - 1) (fun p => st.s.s0.getD p false) = true) (p : Nat) :
    (cycleK (fun op => sem op.code) (sigOps Gen.kindPrefixes net order false) (tabsOf net false) mergeCopy d k st).s.s0.getD p false =
      iterState net k (fun p => st.s.s0.getD p false) p := by
  rw [iterState_list net k _ h0]
  show _ = (iter (specF net) k st.s.s0).getD p false
  congr 1
  have := cycleK_spec_gen sem specL2 heq (!·) prim2 semSpec2 net order hwf ho hfk hall mergeCopy d st h0 h1 k
    (fun a => evalAll net false (!·) prim2 (fun j => a.getD j false))
  rw [hz] at this
  apply this
  intro j hj
  rcases hacc with hk | hacc
  · omega
  · show consistentB net false (!·) prim2 (fun p => (iter (specF net) j st.s.s0).getD p d)
      (evalAll net false (!·) prim2 (fun p => (iter (specF net) j st.s.s0).getD p false)) = true
    rw [consistentB_asg_default net false (!·) prim2 _ (by rw [iter_specF_length, h0]) d false]
    exact iterAccepted_list net (k - 1) _ h0 hacc j (by omega)

end KV
