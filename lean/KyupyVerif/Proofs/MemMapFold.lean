import KyupyVerif.Model.SimOps
import KyupyVerif.Proofs.StripLink
/-! Fold form of `memMap` (the hand model of `sim.py:257-314`): the imperative `Id.run do` block with nested loops is
equal to a composition of pure folds — one step function per loop body. All later proofs about the memory map
(`Proofs/MemMap*.lean`) are about the fold form; `memMap_eq_fold` transfers them to the model the driver runs. -/
namespace KV

/-- the four operands of a row, resolved through the stems -/
def opSrcs (st : Array (Option Nat)) (op : OpRow) : List Nat :=
  [viaStem st op.i0, viaStem st op.i1, viaStem st op.i2, viaStem st op.i3]

def decRef (s : MapSt) (x : Nat) : MapSt := { s with refc := s.refc.setIfInBounds x (s.refc.getD x 0 - 1) }

/-- `if ref_count[x] <= 0: free_set.add(c_locs[x])` -/
def collectStep (s : MapSt) (fs : List Int) (x : Nat) : List Int :=
  if s.refc.getD x 0 ≤ 0 then setAdd fs (s.locs.getD x (-1)) else fs

/-- body of the loop over the ops of one level: state and pending free set -/
def mapOpStep (ix : Idx) (st : Array (Option Nat)) (capsIn : Nat → Nat) (capsMin : Nat)
    (sf : MapSt × List Int) (op : OpRow) : MapSt × List Int :=
  let s1 := (opSrcs st op).foldl decRef sf.1
  let fs := (opSrcs st op).foldl (collectStep s1) sf.2
  if op.out != ix.tmp then (allocAt s1 op.out (max capsMin (capsIn op.out)), fs) else (s1, fs)

/-- the rows `ops[a:b]` as the model reads them -/
def levelOps (ops : List OpRow) (ab : Nat × Nat) : List OpRow :=
  (List.range (ab.2 - ab.1)).map fun k => ops.toArray.getD (ab.1 + k) default

/-- one level: all rows, then (with `c_reuse`) the releases -/
def mapLevelStep (ix : Idx) (st : Array (Option Nat)) (capsIn : Nat → Nat) (capsMin : Nat) (reuse : Bool)
    (ops : List OpRow) (s : MapSt) (ab : Nat × Nat) : MapSt :=
  let r := (levelOps ops ab).foldl (mapOpStep ix st capsIn capsMin) (s, [])
  if reuse then { r.1 with heap := freeAll r.1.heap r.2 } else r.1

/-- body of the loop over `s_nodes` before the levels: input slot allocated and pinned, captured signal pinned -/
def mapSnStep (net : Net) (st : Array (Option Nat)) (capsMin : Nat) (s : MapSt) (ni : Nat × Nat) : MapSt :=
  let nd := net.node ni.1
  let s1 := if nd.outs.length > 0 then incRef (allocAt s (net.idx.ppi + ni.2) capsMin) (net.idx.ppi + ni.2) else s
  if nd.ins.length > 0 then
    match nd.inPin 0 with
    | some l => incRef s1 (viaStem st l)
    | none => s1
  else s1

/-- `c_locs[dst], c_caps[dst] = c_locs[src], c_caps[src]` -/
def aliasSet (s : MapSt) (dst src : Nat) : MapSt :=
  { s with locs := s.locs.setIfInBounds dst (s.locs.getD src (-1)), caps := s.caps.setIfInBounds dst (s.caps.getD src 0) }

def stemAliasStep (s : MapSt) (sl : Option Nat × Nat) : MapSt :=
  match sl.1 with
  | some t => aliasSet s sl.2 t
  | none => s

def ppoAliasStep (net : Net) (s : MapSt) (ni : Nat × Nat) : MapSt :=
  match (net.node ni.1).inPin 0 with
  | some l => aliasSet s (net.idx.ppo + ni.2) l
  | none => if net.io.length ≤ ni.2 then aliasSet s (net.idx.ppo + ni.2) net.idx.zero else s

def mapInit (net : Net) (lev : LevSt) : MapSt :=
  { heap := { cs := [], maxSz := 0 }, locs := Array.replicate net.idx.len (-1),
    caps := Array.replicate net.idx.len 0, refc := lev.refc }

/-- state before the level loop: special slots and input slots allocated, pins counted -/
def mapPre (net : Net) (st : Array (Option Nat)) (lev : LevSt) (capsMin : Nat) : MapSt :=
  let s1 := [net.idx.zero, net.idx.tmp, net.idx.tmp2].foldl (fun s x => allocAt s x capsMin) (mapInit net lev)
  let s2 := [net.idx.zero, net.idx.tmp, net.idx.tmp2].foldl incRef s1
  net.sNodes.zipIdx.foldl (mapSnStep net st capsMin) s2

/-- the `(level_start, level_stop)` pairs -/
def levelPairs (starts : List Nat) (n : Nat) : List (Nat × Nat) := starts.zip (starts.drop 1 ++ [n])

/-- state after the level loop -/
def mapLevels (net : Net) (ops : List OpRow) (st : Array (Option Nat)) (lev : LevSt)
    (capsIn : Nat → Nat) (capsMin : Nat) (reuse : Bool) : MapSt :=
  (levelPairs lev.starts.reverse ops.length).foldl (mapLevelStep net.idx st capsIn capsMin reuse ops)
    (mapPre net st lev capsMin)

/-- alias passes: stems → branches, captured lines → output slots -/
def mapAliases (net : Net) (st : Array (Option Nat)) (s : MapSt) : MapSt :=
  net.sNodes.zipIdx.foldl (ppoAliasStep net) (st.toList.zipIdx.foldl stemAliasStep s)

def memMapF (net : Net) (ops : List OpRow) (st : Array (Option Nat)) (lev : LevSt)
    (capsIn : Nat → Nat) (capsMin : Nat) (reuse : Bool) : MapSt :=
  mapAliases net st (mapLevels net ops st lev capsIn capsMin reuse)

theorem forIn_id_fold {α β} (l : List α) (init : β) (f : α → β → Id (ForInStep β)) (g : β → α → β)
    (h : ∀ x s, f x s = pure (ForInStep.yield (g s x))) :
    forIn l init f = (pure (l.foldl g init) : Id β) :=
  forIn_id_yield l init f (fun x s => g s x) h

/-- **the model is its fold form** -/
theorem memMap_eq_fold (net : Net) (ops : List OpRow) (st : Array (Option Nat)) (lev : LevSt)
    (capsIn : Nat → Nat) (capsMin : Nat) (reuse : Bool) :
    memMap net ops st lev capsIn capsMin reuse = memMapF net ops st lev capsIn capsMin reuse := by
  unfold memMap
  simp only [Id.run]
  rw [forIn_id_fold _ _ _ (fun s x => allocAt s x capsMin) (fun _ _ => rfl)]
  simp only [pure_bind]
  rw [forIn_id_fold _ _ _ incRef (fun _ _ => rfl)]
  simp only [pure_bind]
  rw [forIn_id_fold _ _ _ (mapSnStep net st capsMin)]
  · simp only [pure_bind]
    rw [forIn_id_fold _ _ _ (mapLevelStep net.idx st capsIn capsMin reuse ops)]
    · simp only [pure_bind]
      rw [forIn_id_fold _ _ _ stemAliasStep]
      · simp only [pure_bind]
        rw [forIn_id_fold _ _ _ (ppoAliasStep net)]
        · rfl
        · intro x s
          unfold ppoAliasStep aliasSet
          cases h : (net.node x.1).inPin 0 with
          | some l => rfl
          | none => simp only; split <;> rfl
      · intro x s
        unfold stemAliasStep aliasSet
        cases h : x.1 <;> rfl
    · intro x s
      rw [forIn_id_fold _ _ _ (fun sf k => mapOpStep net.idx st capsIn capsMin sf (ops.toArray.getD (x.1 + k) default))]
      · simp only [pure_bind]
        unfold mapLevelStep levelOps
        simp only [List.foldl_map]
        cases reuse <;> rfl
      · intro k sf
        rw [forIn_id_fold _ _ _ decRef (by intros; rfl)]
        simp only [pure_bind]
        rw [forIn_id_fold _ _ _ (collectStep ((opSrcs st (ops.toArray.getD (x.1 + k) default)).foldl decRef sf.1))]
        · simp only [pure_bind]
          unfold mapOpStep opSrcs
          simp only
          split <;> rfl
        · intro y fs
          unfold collectStep opSrcs
          by_cases hc : ((List.foldl decRef sf.fst
              [viaStem st (ops.toArray.getD (x.fst + k) default).i0, viaStem st (ops.toArray.getD (x.fst + k) default).i1,
               viaStem st (ops.toArray.getD (x.fst + k) default).i2,
               viaStem st (ops.toArray.getD (x.fst + k) default).i3]).refc.getD y 0 ≤ 0)
          · simp only [hc, if_true]
          · simp only [hc, if_false]
  · intro x s
    unfold mapSnStep
    simp only
    by_cases h1 : (net.node x.1).outs.length > 0 <;> by_cases h2 : (net.node x.1).ins.length > 0 <;>
      cases h3 : (net.node x.1).inPin 0 <;> simp only [h1, h2, if_true, if_false] <;> rfl

end KV
