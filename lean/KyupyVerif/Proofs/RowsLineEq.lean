import KyupyVerif.Proofs.AllCirc
import KyupyVerif.Proofs.SelectSpec
import KyupyVerif.Proofs.StripLink
/-! The equations of the rows `SimOps` generates ARE the gate equations of the netlist as the specification evaluator states
them (`lineEq`, Model/Net.lean — written independently of `SimOps`: interface nodes, flip-flop `QN`, forks, prefix families
with the longest match, unconnected pins read constant 0): any labelling that solves the row equations (`SolvesJ`) satisfies
`val l = lineEq … val l` on every line a row writes. Every well-formed netlist, every topological order, any value domain,
any op semantics that agrees with the primitive meanings `prim` (`SemSpec`). Ingredients: the shape of the rows of a node
(`nodeOps_shape`), `select_is_spec` (first match in the generated table = longest specified family, every kind string) and
the domain hypothesis `forksOKB` (a node scheduled as a fork — lower-cased kind — is a fork for the specification — exact
kind). -/
namespace KV
open KV.Sig

/-- the op semantics agrees with the specification's meaning of primitive names, inversion and buffering -/
structure SemSpec {α} (sem : Nat → List α → α) (neg : α → α) (prim : String → α → α → α → α → α) : Prop where
  prim_eq : ∀ name code, (name, code) ∈ Gen.prims → ∀ a b c d, sem code [a, b, c, d] = prim name a b c d
  buf : ∀ a b c d, sem BUF1 [a, b, c, d] = a
  inv : ∀ a b c d, sem INV1 [a, b, c, d] = neg a

/-- the three shapes of a row of node `n` in the un-stripped schedule -/
theorem nodeOps_shape (tbl : List PrefixRow) (net : Net) (sn : List Nat) (ix : Idx) (n : Nat) (r : OpRow)
    (h : r ∈ nodeOpsS tbl net sn ix false n) :
    (∃ p k, sPosIn sn n = some p ∧ drivenFork net n = false ∧ (net.node n).outs[k]? = some (some r.out) ∧
      ((net.node n).isDff = true → k < 2) ∧
      r = ⟨if (net.node n).isDff && k == 1 then INV1 else BUF1, r.out, ix.ppi + p, ix.zero, ix.zero, ix.zero⟩) ∨
    ((sPosIn sn n = none ∨ drivenFork net n = true) ∧ (net.node n).lkind = "__fork__" ∧
      r = ⟨BUF1, r.out, ((net.node n).inPin 0).getD ix.zero, ((net.node n).inPin 1).getD ix.zero,
        ((net.node n).inPin 2).getD ix.zero, ((net.node n).inPin 3).getD ix.zero⟩) ∨
    ((sPosIn sn n = none ∨ drivenFork net n = true) ∧ (net.node n).lkind ≠ "__fork__" ∧
      r.out = ((net.node n).outPin 0).getD ix.tmp ∧
      selectPrim tbl (net.node n).lkind (((net.node n).inPin 2).getD ix.zero != ix.zero)
        (((net.node n).inPin 3).getD ix.zero != ix.zero) = some r.lut ∧
      r = ⟨r.lut, r.out, ((net.node n).inPin 0).getD ix.zero, ((net.node n).inPin 1).getD ix.zero,
        ((net.node n).inPin 2).getD ix.zero, ((net.node n).inPin 3).getD ix.zero⟩) := by
  unfold nodeOpsS at h
  simp only at h
  split at h
  · -- interface node
    rename_i p hp
    left
    have hdf : drivenFork net n = false ∧ sPosIn sn n = some p := by
      unfold drivenFork
      split at hp
      · cases hp
      · rename_i hd
        simp only [Bool.not_eq_true] at hd
        exact ⟨hd, hp⟩
    simp only [List.mem_filterMap] at h
    obtain ⟨⟨o, k⟩, hmem, hg⟩ := h
    cases o with
    | none => simp at hg
    | some l =>
      simp only [Option.map_some, Option.some.injEq] at hg
      subst hg
      have hk := mem_zipIdx_getElem? hmem
      refine ⟨p, k, hdf.2, hdf.1, ?_, ?_, rfl⟩
      · split at hk
        · exact getElem?_take_some hk
        · exact hk
      · intro hd
        rw [if_pos hd] at hk
        rw [List.getElem?_take] at hk
        split at hk
        · assumption
        · cases hk
  · rename_i hp
    have hcase : sPosIn sn n = none ∨ drivenFork net n = true := by
      unfold drivenFork
      split at hp
      · rename_i hd; exact Or.inr hd
      · exact Or.inl hp
    right
    split at h
    · rename_i hfk
      left
      simp only [Bool.false_eq_true, if_false, List.mem_filterMap] at h
      obtain ⟨⟨o, k⟩, _, hg⟩ := h
      cases o with
      | none => simp at hg
      | some l =>
        simp only [Option.map_some, Option.some.injEq] at hg
        subst hg
        exact ⟨hcase, by simpa using hfk, rfl⟩
    · rename_i hfk
      right
      split at h
      · rename_i sp hsp
        simp only [List.mem_singleton] at h
        subst h
        exact ⟨hcase, by simpa using hfk, rfl, hsp, rfl⟩
      · cases h

theorem fork_not_seq {nd : NodeD} (h : nd.isFork = true) : nd.isSeq = false ∧ nd.lkind = "__fork__" := by
  have hk : nd.kind = "__fork__" := by simpa [NodeD.isFork] using h
  have h1 : hasSub "dff" ("__fork__" : String).toLower = false := by decide +kernel
  have h2 : hasSub "latch" ("__fork__" : String).toLower = false := by decide +kernel
  have h3 : ("__fork__" : String).toLower = "__fork__" := by decide +kernel
  refine ⟨?_, ?_⟩
  · simp only [NodeD.isSeq, NodeD.isDff, NodeD.isLatch, NodeD.lkind, hk, h1, h2, Bool.or_self]
  · simp only [NodeD.lkind, hk, h3]

theorem getD_ne_zero {net : Net} (hwf : net.wfB = true) (n i : Nat) :
    (((net.node n).inPin i).getD net.idx.zero != net.idx.zero) = ((net.node n).inPin i).isSome := by
  cases h : (net.node n).inPin i with
  | none => simp
  | some l =>
    have := (inPin_lt' hwf h)
    simp only [Option.getD_some, Option.isSome_some, bne_iff_ne, ne_eq, (idx_vals net).1]
    omega
where
  inPin_lt' {net : Net} (hwf : net.wfB = true) {n i l : Nat} (h : (net.node n).inPin i = some l) : l < net.lines.size := by
    by_cases hn : n < net.nodes.size
    · exact (wf_in hwf hn (inPin_some h)).1
    · exfalso
      have h' := inPin_some h
      have : (net.node n).ins = [] := by
        unfold Net.node
        rw [Array.getD_eq_getD_getElem?, Array.getElem?_eq_none (Nat.le_of_not_lt hn)]
        rfl
      rw [this] at h'
      simp at h'

theorem forksOK_isFork {net : Net} {order : List Nat} (hfk : forksOKB net order = true) {n : Nat} (hn : n ∈ order)
    (hl : (net.node n).lkind = "__fork__") : (net.node n).isFork = true := by
  unfold forksOKB at hfk
  simp only [List.all_eq_true] at hfk
  have := hfk n hn
  simp only [hl, beq_self_eq_true, Bool.not_true, Bool.false_or, Bool.and_eq_true] at this
  exact this.1.1.1.1

/-- **the right-hand side of a row IS the right-hand side of the netlist's gate equation** for the line the row writes: for
    ANY labelling `val`, the row's primitive applied to the labels of its operands equals what the specification evaluator's
    `lineEq` computes for that line from the same labelling (stimulus `a p` = label of the `p`-th input slot, unconnected pins
    read the label of the constant-0 slot) -/
theorem row_rhs_lineEq {α} (net : Net) (order : List Nat) (hwf : net.wfB = true) (ho : orderOKB net order = true)
    (hfk : forksOKB net order = true) (sem : Nat → List α → α) (neg : α → α) (prim : String → α → α → α → α → α)
    (hs : SemSpec sem neg prim) (val : Nat → α)
    (r : OpRow) (hr : r ∈ genOps Gen.kindPrefixes net order false) (hl : r.out ≠ net.idx.tmp) :
    sem r.lut [val r.i0, val r.i1, val r.i2, val r.i3] =
      lineEq net net.sPos (val net.idx.zero) neg prim (fun p => val (net.idx.ppi + p)) val r.out := by
  simp only [genOps, List.mem_flatMap] at hr
  obtain ⟨n, hn, hmem⟩ := hr
  have hnlt := orderOK_lt ho n hn
  obtain ⟨pin, hpin⟩ := (nodeOps_out _ _ _ _ _ _ _ hmem).resolve_left hl
  obtain ⟨_, hdrv, hdpin⟩ := wf_out hwf hnlt hpin
  have hopv : ∀ i, val (((net.node n).inPin i).getD net.idx.zero) =
      (match (net.node n).inPin i with | some l' => val l' | none => val net.idx.zero) := by
    intro i
    cases (net.node n).inPin i <;> rfl
  have hspos : net.sPos n = sPosIn net.sNodes n := rfl
  unfold lineEq
  simp only [hdrv]
  rcases nodeOps_shape _ _ _ _ _ _ hmem with ⟨p, k, hsp, hdf, hk, hk2, hrow⟩ | ⟨hcase, hfork, hrow⟩ |
    ⟨hcase, hnf, hout, hsel, hrow⟩
  · -- interface row
    have hkp : (net.line r.out).dpin = k := (wf_out hwf hnlt hk).2.2
    have e0 : r.i0 = net.idx.ppi + p := congrArg OpRow.i0 hrow
    have elut : r.lut = if (net.node n).isDff && k == 1 then INV1 else BUF1 := congrArg OpRow.lut hrow
    rw [hspos, hsp]
    simp only [hkp]
    rw [e0]
    cases hd : (net.node n).isDff with
    | true =>
      have hseq : (net.node n).isSeq = true := by simp [NodeD.isSeq, hd]
      simp only [hseq, if_true, Bool.true_and]
      rw [hd] at elut
      simp only [Bool.true_and] at elut
      cases hk1 : (k == 1) with
      | true =>
        rw [hk1] at elut
        simp only [if_true] at elut ⊢
        rw [elut, hs.inv]
      | false =>
        rw [hk1] at elut
        simp only [Bool.false_eq_true, if_false] at elut ⊢
        rw [elut, hs.buf]
    | false =>
      rw [hd] at elut
      simp only [Bool.false_and, Bool.false_eq_true, if_false] at elut ⊢
      rw [elut, hs.buf]
      cases hsq : (net.node n).isSeq with
      | true => simp
      | false =>
        simp only [Bool.false_eq_true, if_false]
        cases hi0 : (net.node n).inPin 0 with
        | none => rfl
        | some l' =>
          simp only
          have : (net.node n).isFork = false := by
            unfold drivenFork at hdf
            rw [hi0] at hdf
            simpa using hdf
          rw [this]
          simp
  · -- fork row
    have hisf := forksOK_isFork hfk hn hfork
    have hns := (fork_not_seq hisf).1
    have e0 : r.i0 = ((net.node n).inPin 0).getD net.idx.zero := congrArg OpRow.i0 hrow
    have elut : r.lut = BUF1 := congrArg OpRow.lut hrow
    rw [elut, hs.buf, e0, hopv 0]
    cases hsp : net.sPos n with
    | none =>
      simp only [hisf, if_true]
      cases (net.node n).inPin 0 <;> rfl
    | some p =>
      simp only [hns, Bool.false_eq_true, if_false]
      cases hi0 : (net.node n).inPin 0 with
      | some l' => simp only [hisf, if_true]
      | none =>
        exfalso
        rcases hcase with h | h
        · rw [← hspos, hsp] at h; cases h
        · unfold drivenFork at h
          rw [hi0] at h
          simp at h
  · -- cell row
    have hnotf : (net.node n).isFork = false := by
      cases h : (net.node n).isFork with
      | false => rfl
      | true => exact absurd (fork_not_seq h).2 hnf
    have hsp : net.sPos n = none := by
      rcases hcase with h | h
      · exact h
      · unfold drivenFork at h
        rw [hnotf] at h
        simp at h
    rw [hsp]
    simp only [hnotf, Bool.false_eq_true, if_false]
    rw [getD_ne_zero hwf n 2, getD_ne_zero hwf n 3, select_is_spec] at hsel
    cases hname : specPrimName (net.node n).lkind ((net.node n).inPin 2).isSome ((net.node n).inPin 3).isSome with
    | none => rw [hname] at hsel; cases hsel
    | some name =>
      rw [hname] at hsel
      simp only [Option.bind_some] at hsel
      have hm := primCode_mem hsel
      have e0 : r.i0 = ((net.node n).inPin 0).getD net.idx.zero := congrArg OpRow.i0 hrow
      have e1 : r.i1 = ((net.node n).inPin 1).getD net.idx.zero := congrArg OpRow.i1 hrow
      have e2 : r.i2 = ((net.node n).inPin 2).getD net.idx.zero := congrArg OpRow.i2 hrow
      have e3 : r.i3 = ((net.node n).inPin 3).getD net.idx.zero := congrArg OpRow.i3 hrow
      simp only
      rw [hs.prim_eq name r.lut hm, e0, e1, e2, e3, hopv 0, hopv 1, hopv 2, hopv 3]
      cases (net.node n).inPin 0 <;> cases (net.node n).inPin 1 <;> cases (net.node n).inPin 2 <;>
        cases (net.node n).inPin 3 <;> rfl

/-- a labelling is **consistent with the netlist** (in the sense of the specification evaluator): it keeps the stimulus on
    every signal no row writes (input slots, constant-0 slot, undriven lines) and on every line a row writes it satisfies the
    gate equation `lineEq` of that line -/
def NetConsistent {α} (net : Net) (order : List Nat) (neg : α → α) (prim : String → α → α → α → α → α)
    (env val : Nat → α) : Prop :=
  (∀ x, x ≠ net.idx.tmp → (∀ r ∈ genOps Gen.kindPrefixes net order false, r.out ≠ x) → val x = env x) ∧
  (∀ r ∈ genOps Gen.kindPrefixes net order false, r.out ≠ net.idx.tmp →
    val r.out = lineEq net net.sPos (env net.idx.zero) neg prim (fun p => env (net.idx.ppi + p)) val r.out)

/-- **row equations ⇔ netlist gate equations**: a labelling solves the equations of the generated rows iff it is consistent
    with the netlist in the sense of the specification evaluator -/
theorem solves_iff_consistent {α} (net : Net) (order : List Nat) (hwf : net.wfB = true) (ho : orderOKB net order = true)
    (hfk : forksOKB net order = true) (sem : Nat → List α → α) (neg : α → α) (prim : String → α → α → α → α → α)
    (hs : SemSpec sem neg prim) (env val : Nat → α) :
    SolvesJ (Jt net) (fun op => sem op.code) ((genOps Gen.kindPrefixes net order false).map OpRow.toOp) env val ↔
      NetConsistent net order neg prim env val := by
  obtain ⟨hz, ht, hpp⟩ := idx_vals net
  have hops := genOps_out_line Gen.kindPrefixes net order false hwf ho
  have hJ : ∀ x, Jt net x = false ↔ x ≠ net.idx.tmp := by intro x; simp [Jt]
  have hframe : ∀ (v : Nat → α), (∀ x, x ≠ net.idx.tmp →
      (∀ r ∈ genOps Gen.kindPrefixes net order false, r.out ≠ x) → v x = env x) →
      v net.idx.zero = env net.idx.zero ∧ ∀ p, v (net.idx.ppi + p) = env (net.idx.ppi + p) := by
    intro v hv
    have key : ∀ x, net.lines.size ≤ x → x ≠ net.idx.tmp → v x = env x := by
      intro x hx hxt
      apply hv x hxt
      intro r hr he
      rcases hops r.toOp (List.mem_map_of_mem hr) with h | h
      · exact hxt (he ▸ h)
      · have : r.toOp.out = x := he
        omega
    exact ⟨key _ (by omega) (by omega), fun p => key _ (by omega) (by omega)⟩
  constructor
  · intro hv
    have h1 : ∀ x, x ≠ net.idx.tmp → (∀ r ∈ genOps Gen.kindPrefixes net order false, r.out ≠ x) → val x = env x := by
      intro x hx hw
      apply hv.1 x ((hJ x).mpr hx)
      intro p hp
      obtain ⟨r, hr, rfl⟩ := List.mem_map.mp hp
      exact hw r hr
    obtain ⟨hzero, hppi⟩ := hframe val h1
    refine ⟨h1, fun r hr hl => ?_⟩
    have heq : val r.out = sem r.lut [val r.i0, val r.i1, val r.i2, val r.i3] :=
      hv.2 r.toOp (List.mem_map_of_mem hr) ((hJ _).mpr hl)
    rw [heq, row_rhs_lineEq net order hwf ho hfk sem neg prim hs val r hr hl, hzero]
    simp only [hppi]
  · intro hc
    obtain ⟨hzero, hppi⟩ := hframe val hc.1
    refine ⟨fun x hx hw => hc.1 x ((hJ x).mp hx) (fun r hr => hw r.toOp (List.mem_map_of_mem hr)), ?_⟩
    intro o ho' hj
    obtain ⟨r, hr, rfl⟩ := List.mem_map.mp ho'
    have hl : r.out ≠ net.idx.tmp := (hJ _).mp hj
    show val r.out = sem r.lut [val r.i0, val r.i1, val r.i2, val r.i3]
    rw [row_rhs_lineEq net order hwf ho hfk sem neg prim hs val r hr hl, hzero]
    simp only [hppi]
    exact hc.2 r hr hl

end KV
