import KyupyVerif.Proofs.MemMapSpec
import KyupyVerif.Proofs.StripLinkOps
import KyupyVerif.Proofs.StripLinkMem
/-! The program facts of `ProgOK` (Proofs/MemMapSpec.lean) for the scheduler model: for every well-formed netlist, every
topological order and the op program `genOps` with the stems `stemsOf`, the fields `out_ok`, `first`, `opnd`, `ppo`,
`branch`, `stem_opnd`, `stem_cap`, `cap_lt` hold (the level fields `lev`, `starts` are in `Proofs/LeveliseStarts.lean`). -/
namespace KV
open KV.Sig

/-! ### small facts -/

theorem mem_genOps {tbl : List PrefixRow} {net : Net} {order : List Nat} {strip : Bool} {o : OpRow} :
    o ∈ genOps tbl net order strip ↔ ∃ n ∈ order, o ∈ nodeOpsS tbl net net.sNodes net.idx strip n := by
  simp only [genOps, List.mem_flatMap]

theorem stems_false_none (net : Net) (x : Nat) : (stemsOf net false).getD x none = none := by
  rw [stemsOf_false, Array.getD_eq_getD_getElem?, Array.getElem?_replicate]
  split <;> rfl

/-- no stem at a slot index (constant, scratch, input or output slot) -/
theorem stems_none_slot {net : Net} (hwf : net.wfB = true) (strip : Bool) {x : Nat} (h : net.lines.size ≤ x) :
    (stemsOf net strip).getD x none = none := by
  cases strip with
  | false => exact stems_false_none net x
  | true => exact stems_none_ge hwf h

theorem viaStem_none {st : Array (Option Nat)} {x : Nat} (h : st.getD x none = none) : viaStem st x = x := by
  unfold viaStem; rw [h]; rfl

theorem viaStem_some {st : Array (Option Nat)} {x t : Nat} (h : st.getD x none = some t) : viaStem st x = t := by
  unfold viaStem; rw [h]; rfl

theorem mem_opSrcs {st : Array (Option Nat)} {o : OpRow} {x : Nat} (h : x ∈ opSrcs st o) :
    ∃ i ∈ o.ins, x = viaStem st i := by
  simp only [opSrcs, List.mem_cons, List.mem_nil_iff, or_false] at h
  simp only [OpRow.ins, List.mem_cons, List.mem_nil_iff, or_false]
  rcases h with h | h | h | h
  · exact ⟨_, Or.inl rfl, h⟩
  · exact ⟨_, Or.inr (Or.inl rfl), h⟩
  · exact ⟨_, Or.inr (Or.inr (Or.inl rfl)), h⟩
  · exact ⟨_, Or.inr (Or.inr (Or.inr rfl)), h⟩

theorem node_default_ins {net : Net} {n : Nat} (h : net.nodes.size ≤ n) : (net.node n).ins = [] := by
  unfold Net.node
  rw [Array.getD_eq_getD_getElem?, Array.getElem?_eq_none h]
  rfl

/-- a connected input pin belongs to a node of the netlist, and the line is a line -/
theorem inPin_lt {net : Net} (hwf : net.wfB = true) {n i l : Nat} (h : (net.node n).inPin i = some l) :
    n < net.nodes.size ∧ l < net.lines.size := by
  by_cases hn : n < net.nodes.size
  · exact ⟨hn, (wf_in hwf hn (inPin_some h)).1⟩
  · exfalso
    have := inPin_some h
    rw [node_default_ins (Nat.le_of_not_lt hn)] at this
    simp at this

/-! ### T8, T1, T2 -/

theorem genOps_cap_lt (p : MapIn) (hwf : p.net.wfB = true) :
    ∀ n i l, (n, i) ∈ p.net.sNodes.zipIdx → (p.net.node n).inPin 0 = some l → l < p.ix.zero := by
  intro n i l _ hp
  exact (inPin_lt hwf hp).2

theorem genOps_out_ok (tbl : List PrefixRow) (p : MapIn) (order : List Nat)
    (hwf : p.net.wfB = true) (ho : orderOKB p.net order = true)
    (hops : p.ops = genOps tbl p.net order p.strip) :
    ∀ o ∈ p.ops, o.out = p.ix.tmp ∨ o.out < p.ix.zero := by
  obtain ⟨_, hlt, _⟩ := orderOK_spec ho
  intro o hmem
  rw [hops] at hmem
  obtain ⟨n, hn, hr⟩ := mem_genOps.mp hmem
  rcases nodeOps_out _ _ _ _ _ _ _ hr with h | ⟨pin, hpin⟩
  · exact Or.inl h
  · exact Or.inr (wf_out hwf (hlt n hn) hpin).1

theorem genOps_first (tbl : List PrefixRow) (p : MapIn) (order : List Nat)
    (hwf : p.net.wfB = true) (ho : orderOKB p.net order = true)
    (hops : p.ops = genOps tbl p.net order p.strip) :
    ∀ (k : Nat) (o : OpRow), p.ops[k]? = some o → o.out ≠ p.ix.tmp →
      p.ops.findIdx? (fun o' => o'.out == o.out) = some k := by
  intro k o hk hnt
  have hw := (genOps_WOJ tbl p.net order p.strip hwf ho).1
  rw [← hops, List.pairwise_map, List.pairwise_iff_getElem] at hw
  obtain ⟨hlen, hget⟩ := List.getElem?_eq_some_iff.mp hk
  rw [List.findIdx?_eq_some_iff_getElem]
  refine ⟨hlen, ?_, ?_⟩
  · rw [hget]; simp
  · intro j hj
    have := (hw j k (by omega) hlen hj).1
    rw [hget] at this
    simp only [beq_iff_eq]
    intro he
    have hj' : Jt p.net (p.ops[j]'(by omega)).toOp.out = false := by
      simp only [Jt, OpRow.toOp, beq_eq_false_iff_ne, ne_eq]
      rw [he]; exact hnt
    exact this hj' he.symm

/-! ### T5: a branch is a line no row writes -/

theorem genOps_branch (tbl : List PrefixRow) (p : MapIn) (order : List Nat)
    (hwf : p.net.wfB = true) (ho : orderOKB p.net order = true)
    (hops : p.ops = genOps tbl p.net order p.strip) :
    ∀ l t, p.stems.getD l none = some t → l < p.ix.zero ∧ ∀ o ∈ p.ops, o.out ≠ l := by
  obtain ⟨_, hlt, _⟩ := orderOK_spec ho
  obtain ⟨hz, ht, _⟩ := idx_vals p.net
  intro l t hst
  unfold MapIn.stems at hst
  cases hs : p.strip with
  | false => rw [hs, stems_false_none] at hst; cases hst
  | true =>
    rw [hs] at hst
    obtain ⟨l0, _, hfk, hp, _, _, hl⟩ := stems_some hwf hst
    refine ⟨hl, ?_⟩
    intro o hmem he
    rw [hops, hs] at hmem
    obtain ⟨n, hn, hr⟩ := mem_genOps.mp hmem
    rcases nodeOps_out _ _ _ _ _ _ _ hr with h | ⟨pin, hpin⟩
    · omega
    · rw [he] at hpin
      have hd := (wf_out hwf (hlt n hn) hpin).2.1
      rw [hd] at hfk hp
      have hdf : drivenFork p.net n = true := by simp [drivenFork, hfk, hp]
      rw [nodeOps_fork _ _ _ _ _ _ hdf] at hr
      simp at hr

/-! ### T6, T7: the stem of a stem -/

/-- the stem of a branch whose fork stands in the order is not itself a branch -/
theorem stem_of_stem_none {net : Net} {order : List Nat} (hwf : net.wfB = true) (ho : orderOKB net order = true)
    {i t : Nat} (hst : (stemsOf net true).getD i none = some t) (hmem : (net.line i).driver ∈ order) :
    (stemsOf net true).getD t none = none := by
  obtain ⟨_, hlt, hdrv⟩ := orderOK_spec ho
  obtain ⟨l0, hfN, hfk, hp, _, ht, _⟩ := stems_some hwf hst
  have hdf : drivenFork net (net.line i).driver = true := by simp [drivenFork, hfk, hp]
  have h0 := hdrv _ hmem (drivenFork_not_src hdf) 0 l0 (inPin_some hp)
  have hmem0 := mem_of_idxOf_lt h0
  have hfuel : order.idxOf (net.line l0).driver < net.nodes.size := by
    have := order_length_le ho
    have : order.idxOf (net.line i).driver ≤ order.length := List.idxOf_le_length
    omega
  obtain ⟨h1, _, _, _⟩ := stemWalk_spec hwf ho net.nodes.size l0 hmem0 hfuel
  rw [← ht] at h1
  cases hs : (stemsOf net true).getD t none with
  | none => rfl
  | some s =>
    obtain ⟨l1, _, hfk1, hp1, _, _, _⟩ := stems_some hwf hs
    simp [drivenFork, hfk1, hp1] at h1

theorem genOps_stem_opnd (tbl : List PrefixRow) (p : MapIn) (order : List Nat)
    (hwf : p.net.wfB = true) (ho : orderOKB p.net order = true)
    (hops : p.ops = genOps tbl p.net order p.strip) :
    ∀ o ∈ p.ops, ∀ i ∈ o.ins, ∀ t, p.stems.getD i none = some t → p.stems.getD t none = none := by
  obtain ⟨_, hlt, hdrv⟩ := orderOK_spec ho
  obtain ⟨hz, _, hpp⟩ := idx_vals p.net
  intro o hmem i hi t hst
  unfold MapIn.stems at hst ⊢
  cases hs : p.strip with
  | false => exact stems_false_none _ _
  | true =>
    rw [hs] at hst
    rw [hops, hs] at hmem
    obtain ⟨n, hn, hr⟩ := mem_genOps.mp hmem
    rcases nodeOps_ins _ _ _ _ _ _ _ hr i hi with h | ⟨_, q, _, h⟩ | ⟨hns, pin, hpin⟩
    · rw [stems_none_ge hwf (by omega)] at hst; cases hst
    · rw [stems_none_ge hwf (by omega)] at hst; cases hst
    · exact stem_of_stem_none hwf ho hst (mem_of_idxOf_lt (hdrv n hn hns pin i hpin))

/-! ### the domain predicate `readsDrivenB` -/

theorem readsDriven_spec {tbl : List PrefixRow} {net : Net} {order : List Nat}
    (hr : readsDrivenB tbl net order = true) :
    (∀ n ∈ order, isSrcNode net net.sNodes n = false → ∀ (pin l : Nat),
      (net.node n).ins[pin]? = some (some l) → l ∈ (genOps tbl net order false).map (·.out)) ∧
    (∀ n ∈ net.sNodes, ∀ l, (net.node n).inPin 0 = some l → l ∈ (genOps tbl net order false).map (·.out)) := by
  unfold readsDrivenB at hr
  simp only [Bool.and_eq_true, List.all_eq_true, Bool.or_eq_true] at hr
  obtain ⟨h1, h2⟩ := hr
  constructor
  · intro n hn hns pin l hpin
    rcases h1 n hn with h | h
    · rw [hns] at h; cases h
    · have := h (some l) (List.mem_of_getElem? hpin)
      simpa using this
  · intro n hn l hp
    have := h2 n hn
    rw [hp] at this
    simpa using this

/-- a line among the outputs of the un-stripped program is written by a row of its driver, which stands in the order -/
theorem driven_writer {tbl : List PrefixRow} {net : Net} {order : List Nat} (hwf : net.wfB = true)
    (ho : orderOKB net order = true) {l : Nat} (hl : l < net.lines.size)
    (h : l ∈ (genOps tbl net order false).map (·.out)) :
    (net.line l).driver ∈ order ∧ ∃ o' ∈ nodeOpsS tbl net net.sNodes net.idx false (net.line l).driver, o'.out = l := by
  obtain ⟨_, hlt, _⟩ := orderOK_spec ho
  obtain ⟨_, ht, _⟩ := idx_vals net
  obtain ⟨o', hmem, he⟩ := List.mem_map.mp h
  obtain ⟨m, hm, hr⟩ := mem_genOps.mp hmem
  rcases nodeOps_out _ _ _ _ _ _ _ hr with h | ⟨pin, hpin⟩
  · omega
  · rw [he] at hpin
    have hd := (wf_out hwf (hlt m hm) hpin).2.1
    rw [hd]
    exact ⟨hm, o', hr, he⟩

theorem genOps_stem_cap (tbl : List PrefixRow) (p : MapIn) (order : List Nat)
    (hwf : p.net.wfB = true) (ho : orderOKB p.net order = true)
    (hr : readsDrivenB tbl p.net order = true) :
    ∀ n i l, (n, i) ∈ p.net.sNodes.zipIdx → (p.net.node n).inPin 0 = some l →
      ∀ t, p.stems.getD l none = some t → p.stems.getD t none = none := by
  intro n i l hni hp t hst
  unfold MapIn.stems at hst ⊢
  cases hs : p.strip with
  | false => exact stems_false_none _ _
  | true =>
    rw [hs] at hst
    have hn : n ∈ p.net.sNodes := List.mem_of_getElem? (mem_zipIdx_getElem? hni)
    have hout := (readsDriven_spec hr).2 n hn l hp
    exact stem_of_stem_none hwf ho hst (driven_writer hwf ho (inPin_lt hwf hp).2 hout).1

/-! ### positions in a `flatMap` -/

theorem flatMap_getElem?_before {α β} (f : α → List β) (l : List α) (k : Nat) (o : β)
    (h : (l.flatMap f)[k]? = some o) :
    ∃ (j : Nat) (a : α), l[j]? = some a ∧ o ∈ f a ∧ ∀ (j' : Nat) (a' : α), j' < j → l[j']? = some a' → ∀ o' ∈ f a',
      ∃ k' : Nat, k' < k ∧ (l.flatMap f)[k']? = some o' := by
  induction l generalizing k with
  | nil => simp at h
  | cons a r ih =>
    rw [List.flatMap_cons] at h ⊢
    by_cases hk : k < (f a).length
    · rw [List.getElem?_append_left hk] at h
      refine ⟨0, a, rfl, List.mem_of_getElem? h, ?_⟩
      intro j' a' hj'
      omega
    · have hk' : (f a).length ≤ k := Nat.le_of_not_lt hk
      rw [List.getElem?_append_right hk'] at h
      obtain ⟨j, a2, hj, ho, hb⟩ := ih _ h
      refine ⟨j + 1, a2, by simpa using hj, ho, ?_⟩
      intro j' a' hj' ha' o' ho'
      cases j' with
      | zero =>
        simp only [List.getElem?_cons_zero, Option.some.injEq] at ha'
        subst ha'
        obtain ⟨k', hk'lt, hk'e⟩ := List.getElem_of_mem ho'
        refine ⟨k', by omega, ?_⟩
        rw [List.getElem?_append_left hk'lt, List.getElem?_eq_getElem hk'lt, hk'e]
      | succ j'' =>
        simp only [List.getElem?_cons_succ] at ha'
        obtain ⟨k'', hlt, he⟩ := hb j'' a' (by omega) ha' o' ho'
        refine ⟨k'' + (f a).length, by omega, ?_⟩
        rw [List.getElem?_append_right (by omega)]
        simpa using he

/-- in a duplicate-free list a smaller `idxOf` is a smaller position -/
theorem idx_before {order : List Nat} (hnd : order.Nodup) {j n d : Nat} (hj : order[j]? = some n)
    (h : order.idxOf d < order.idxOf n) : ∃ j', j' < j ∧ order[j']? = some d := by
  have hd : d ∈ order := mem_of_idxOf_lt h
  have hdl : order.idxOf d < order.length := List.idxOf_lt_length_iff.mpr hd
  have hde : order[order.idxOf d] = d := List.getElem_idxOf hdl
  obtain ⟨hjl, hje⟩ := List.getElem?_eq_some_iff.mp hj
  have hpw := List.pairwise_iff_getElem.mp (idxOf_pairwise_of_nodup order hnd)
  refine ⟨order.idxOf d, ?_, by rw [List.getElem?_eq_getElem hdl, hde]⟩
  apply Nat.lt_of_not_le
  intro hle
  rcases Nat.eq_or_lt_of_le hle with he | hlt
  · have : n = d := by
      rw [← hje, ← hde]
      congr 1
    rw [this] at h; omega
  · have := hpw j (order.idxOf d) hjl hdl hlt
    rw [hje, hde] at this
    omega

/-- the rows of a node that stands before the node of row `k` have numbers below `k` -/
theorem genOps_pos {tbl : List PrefixRow} {net : Net} {order : List Nat} {strip : Bool} (hnd : order.Nodup)
    {k : Nat} {o : OpRow} (h : (genOps tbl net order strip)[k]? = some o) :
    ∃ n ∈ order, o ∈ nodeOpsS tbl net net.sNodes net.idx strip n ∧
      ∀ d, order.idxOf d < order.idxOf n → ∀ o' ∈ nodeOpsS tbl net net.sNodes net.idx strip d,
        ∃ k', k' < k ∧ (genOps tbl net order strip)[k']? = some o' := by
  unfold genOps at h ⊢
  simp only at h ⊢
  obtain ⟨j, n, hj, ho, hb⟩ := flatMap_getElem?_before _ _ _ _ h
  refine ⟨n, List.mem_of_getElem? hj, ho, ?_⟩
  intro d hd o' ho'
  obtain ⟨j', hj', hje⟩ := idx_before hnd hj hd
  exact hb j' d hj' hje o' ho'

/-! ### the writer of a resolved operand -/

/-- following the stem walk from the line a driven fork of the order reads, one arrives at a line that again a driven
    fork of the order (no later) reads on pin 0 -/
theorem stemWalk_reader {net : Net} {order : List Nat} (ho : orderOKB net order = true) :
    ∀ (fuel l0 g0 : Nat), g0 ∈ order → drivenFork net g0 = true → (net.node g0).inPin 0 = some l0 →
      order.idxOf (net.line l0).driver < fuel →
      ∃ g ∈ order, drivenFork net g = true ∧ (net.node g).inPin 0 = some (stemWalk net fuel l0) ∧
        order.idxOf g ≤ order.idxOf g0 := by
  obtain ⟨_, hlt, hdrv⟩ := orderOK_spec ho
  intro fuel
  induction fuel with
  | zero => intro l0 g0 _ _ _ h; omega
  | succ fuel ih =>
    intro l0 g0 hg0 hdf0 hp0 hfuel
    rw [stemWalk_succ]
    cases hdf : drivenFork net (net.line l0).driver with
    | false =>
      simp only [Bool.false_eq_true, if_false]
      exact ⟨g0, hg0, hdf0, hp0, Nat.le_refl _⟩
    | true =>
      rw [if_pos rfl]
      obtain ⟨_, l1, hp1⟩ := drivenFork_spec hdf
      rw [hp1, Option.getD_some]
      have h01 := hdrv g0 hg0 (drivenFork_not_src hdf0) 0 l0 (inPin_some hp0)
      have hg1 := mem_of_idxOf_lt h01
      have h12 := hdrv _ hg1 (drivenFork_not_src hdf) 0 l1 (inPin_some hp1)
      obtain ⟨g, hg, hdg, hpg, hle⟩ := ih l1 _ hg1 hdf hp1 (by omega)
      exact ⟨g, hg, hdg, hpg, by omega⟩

/-- the signal a driven line `l` denotes (through the stems) is a line written by a row of a node of the order that
    stands no later than the driver of `l` -/
theorem src_writer {tbl : List PrefixRow} {net : Net} {order : List Nat} (strip : Bool)
    (hwf : net.wfB = true) (ho : orderOKB net order = true)
    (hf : strip = true → forksOKB net order = true) (hr : readsDrivenB tbl net order = true)
    {l : Nat} (hl : l < net.lines.size) (hout : l ∈ (genOps tbl net order false).map (·.out)) :
    viaStem (stemsOf net strip) l < net.lines.size ∧
    ∃ d ∈ order, order.idxOf d ≤ order.idxOf (net.line l).driver ∧
      ∃ o' ∈ nodeOpsS tbl net net.sNodes net.idx strip d, o'.out = viaStem (stemsOf net strip) l := by
  obtain ⟨_, hlt, hdrv⟩ := orderOK_spec ho
  obtain ⟨hdo, o', ho', he'⟩ := driven_writer hwf ho hl hout
  cases strip with
  | false =>
    rw [viaStem_false]
    exact ⟨hl, _, hdo, Nat.le_refl _, o', ho', he'⟩
  | true =>
    have hfk := hf rfl
    cases hst : (stemsOf net true).getD l none with
    | none =>
      rw [viaStem_none hst]
      refine ⟨hl, _, hdo, Nat.le_refl _, o', ?_, he'⟩
      rw [nodeOps_strip_filter tbl net order hwf hfk _ hdo (hlt _ hdo), List.mem_filter]
      refine ⟨ho', ?_⟩
      simp [isBranchRow, he', hst]
    | some t =>
      rw [viaStem_some hst]
      obtain ⟨l0, _, hfork, hp, _, ht, _⟩ := stems_some hwf hst
      have hdf : drivenFork net (net.line l).driver = true := by simp [drivenFork, hfork, hp]
      have h0 := hdrv _ hdo (drivenFork_not_src hdf) 0 l0 (inPin_some hp)
      have hmem0 := mem_of_idxOf_lt h0
      have hfuel : order.idxOf (net.line l0).driver < net.nodes.size := by
        have := order_length_le ho
        have : order.idxOf (net.line l).driver ≤ order.length := List.idxOf_le_length
        omega
      have hl0 := (wf_in hwf (hlt _ hdo) (inPin_some hp)).1
      obtain ⟨h1, _, h3, _⟩ := stemWalk_spec hwf ho net.nodes.size l0 hmem0 hfuel
      obtain ⟨g, hg, hdg, hpg, hle⟩ := stemWalk_reader ho net.nodes.size l0 _ hdo hdf hp hfuel
      rw [← ht] at h1 h3 hpg
      have htl := h3 hl0
      have hgns : isSrcNode net net.sNodes g = false := drivenFork_not_src hdg
      have htout := (readsDriven_spec hr).1 g hg hgns 0 t (inPin_some hpg)
      obtain ⟨hdt, ot, hot, het⟩ := driven_writer hwf ho htl htout
      have htg := hdrv g hg hgns 0 t (inPin_some hpg)
      have hstt : (stemsOf net true).getD t none = none := by
        cases hs : (stemsOf net true).getD t none with
        | none => rfl
        | some s =>
          obtain ⟨l1, _, hfk1, hp1, _, _, _⟩ := stems_some hwf hs
          simp [drivenFork, hfk1, hp1] at h1
      refine ⟨htl, _, hdt, by omega, ot, ?_, het⟩
      rw [nodeOps_strip_filter tbl net order hwf hfk _ hdt (hlt _ hdt), List.mem_filter]
      refine ⟨hot, ?_⟩
      simp [isBranchRow, het, hstt]

/-! ### T4: captured signals -/

theorem genOps_ppo (tbl : List PrefixRow) (p : MapIn) (order : List Nat)
    (hwf : p.net.wfB = true) (ho : orderOKB p.net order = true)
    (hf : p.strip = true → forksOKB p.net order = true)
    (hr : readsDrivenB tbl p.net order = true)
    (hops : p.ops = genOps tbl p.net order p.strip) :
    ∀ j s, (j, s) ∈ p.ppoSrcs → s < p.ix.zero ∧ ∃ o ∈ p.ops, o.out = s := by
  intro j s hjs
  unfold MapIn.ppoSrcs MapIn.ppoSrcsW at hjs
  simp only [List.mem_filterMap] at hjs
  obtain ⟨⟨n, i⟩, hni, hg⟩ := hjs
  cases hp : (p.net.node n).inPin 0 with
  | none => rw [hp] at hg; simp at hg
  | some l =>
    rw [hp] at hg
    simp only [Option.map_some, Option.some.injEq, Prod.mk.injEq] at hg
    obtain ⟨_, hs⟩ := hg
    have hn : n ∈ p.net.sNodes := List.mem_of_getElem? (mem_zipIdx_getElem? hni)
    have hout := (readsDriven_spec hr).2 n hn l hp
    obtain ⟨hlt, d, hd, _, o', ho', he'⟩ := src_writer p.strip hwf ho hf hr (inPin_lt hwf hp).2 hout
    rw [← hs]
    refine ⟨hlt, o', ?_, he'⟩
    rw [hops]
    exact mem_genOps.mpr ⟨d, hd, ho'⟩

/-! ### T3: operands -/

/-- a source node that has a row has an output pin -/
theorem srcNode_rows_outs {tbl : List PrefixRow} {net : Net} {sn : List Nat} {ix : Idx} {strip : Bool} {n : Nat}
    {o : OpRow} (h : o ∈ nodeOpsS tbl net sn ix strip n) (hsrc : isSrcNode net sn n = true) :
    (net.node n).outs.length > 0 := by
  unfold isSrcNode at hsrc
  simp only [Bool.and_eq_true, Bool.not_eq_true'] at hsrc
  obtain ⟨hdf, hsp⟩ := hsrc
  unfold nodeOpsS at h
  simp only [hdf, Bool.false_eq_true, if_false] at h
  split at h
  · simp only [List.mem_filterMap] at h
    obtain ⟨⟨x, k⟩, hmem, _⟩ := h
    have hk := mem_zipIdx_getElem? hmem
    have hk' : (net.node n).outs[k]? = some x := by
      split at hk
      · exact getElem?_take_some hk
      · exact hk
    obtain ⟨hlen, _⟩ := List.getElem?_eq_some_iff.mp hk'
    omega
  · rename_i hnone
    rw [hnone] at hsp
    cases hsp

theorem mem_ppiSlots (p : MapIn) {n q : Nat} (hq : sPosIn p.net.sNodes n = some q)
    (hout : (p.net.node n).outs.length > 0) : p.ix.ppi + q ∈ p.ppiSlots := by
  unfold sPosIn at hq
  simp only at hq
  split at hq
  · rename_i hlt
    simp only [Option.some.injEq] at hq
    unfold MapIn.ppiSlots
    simp only [List.mem_map, List.mem_filter]
    refine ⟨(n, q), ⟨?_, by simpa using hout⟩, rfl⟩
    rw [List.mem_zipIdx_iff_getElem?]
    simp only
    rw [← hq, List.getElem?_eq_getElem hlt, List.getElem_idxOf hlt]
  · cases hq

theorem genOps_opnd (tbl : List PrefixRow) (p : MapIn) (order : List Nat)
    (hwf : p.net.wfB = true) (ho : orderOKB p.net order = true)
    (hf : p.strip = true → forksOKB p.net order = true)
    (hr : readsDrivenB tbl p.net order = true)
    (hops : p.ops = genOps tbl p.net order p.strip) :
    ∀ (k : Nat) (o : OpRow), p.ops[k]? = some o → ∀ x ∈ opSrcs p.stems o,
      x = p.ix.zero ∨ x ∈ p.ppiSlots ∨
        (x < p.ix.zero ∧ ∃ k' o', k' < k ∧ p.ops[k']? = some o' ∧ o'.out = x) := by
  obtain ⟨hnd, hlt, hdrv⟩ := orderOK_spec ho
  obtain ⟨hz, _, hpp⟩ := idx_vals p.net
  intro k o hk x hx
  obtain ⟨i, hi, hxi⟩ := mem_opSrcs hx
  unfold MapIn.stems at hxi
  rw [hops] at hk
  obtain ⟨n, hn, hrow, hbefore⟩ := genOps_pos hnd hk
  rcases nodeOps_ins _ _ _ _ _ _ _ hrow i hi with h | ⟨hsrc, q, hq, h⟩ | ⟨hns, pin, hpin⟩
  · left
    rw [hxi, viaStem_none (stems_none_slot hwf _ (by omega)), h]
    rfl
  · right; left
    rw [hxi, viaStem_none (stems_none_slot hwf _ (by omega)), h]
    exact mem_ppiSlots p hq (srcNode_rows_outs hrow hsrc)
  · right; right
    have hil := (wf_in hwf (hlt n hn) hpin).1
    have hout := (readsDriven_spec hr).1 n hn hns pin i hpin
    have hdn := hdrv n hn hns pin i hpin
    obtain ⟨hxl, d, _, hdle, o', ho', he'⟩ := src_writer p.strip hwf ho hf hr hil hout
    rw [← hxi] at hxl he'
    refine ⟨hxl, ?_⟩
    obtain ⟨k', hk', hke⟩ := hbefore d (by omega) o' ho'
    exact ⟨k', o', hk', by rw [hops]; exact hke, he'⟩

end KV
