import KyupyVerif.Model.Net
import KyupyVerif.Gen.Tables
/-! Selection of the simulation primitive for a node kind, **every kind string**: the first match over the generated,
ordered `kind_prefixes` table of `sim.py` (`selectPrim Gen.kindPrefixes`) is the member of the LONGEST matching family of
the hand-written specification (`specPrimName` over `specFamilies`), for all pin-connection flags. (`C01.select_vocab` checks
the same equation on a vocabulary of kinds by evaluation.)

Why first match = longest match: all matching prefixes are prefixes of the same string, so of two matching prefixes the
shorter is a prefix of the longer; the table never lists a prefix before one of its proper extensions (`fam_order_ok`,
kernel-checked on the table), hence no later match is longer than the first one. The generated table is the specified
family table with every primitive name replaced by its code (`table_is_spec`, kernel-checked on the regenerated tables). -/
namespace KV

/-- code of a primitive name in `sim.names` -/
def primCode (name : String) : Option Nat := (Gen.prims.find? (·.1 == name)).map (·.2)

theorem primCode_mem {name : String} {code : Nat} (h : primCode name = some code) : (name, code) ∈ Gen.prims := by
  unfold primCode at h
  cases hf : Gen.prims.find? (·.1 == name) with
  | none => rw [hf] at h; cases h
  | some e =>
    rw [hf] at h
    simp only [Option.map_some, Option.some.injEq] at h
    have hm := List.mem_of_find?_eq_some hf
    have hp := List.find?_some hf
    have hn : e.1 = name := by simpa using hp
    rcases e with ⟨a, b⟩
    simp only at hn h
    subst hn; subst h
    exact hm

abbrev Fam := String × String × String × String

/-- the fold of `specFamily` -/
def famStep (best : Option Fam) (f : Fam) : Option Fam :=
  match best with
  | none => some f
  | some b => if b.1.length < f.1.length then some f else some b

theorem specFamily_def (k : String) :
    specFamily k = (specFamilies.filter (fun f => startsWithL k f.1)).foldl famStep none := rfl

theorem foldl_famStep_some (l : List Fam) (b : Fam) (h : ∀ f ∈ l, f.1.length ≤ b.1.length) :
    l.foldl famStep (some b) = some b := by
  induction l with
  | nil => rfl
  | cons f r ih =>
    have hf := h f List.mem_cons_self
    have : famStep (some b) f = some b := by
      simp only [famStep]
      rw [if_neg (by omega)]
    rw [List.foldl_cons, this]
    exact ih (fun g hg => h g (List.mem_cons_of_mem _ hg))

/-- `p` is a proper prefix of `q` -/
def properPrefixB (p q : String) : Bool := p.toList.isPrefixOf q.toList && decide (p.length < q.length)

/-- no family prefix stands before one of its proper extensions -/
def famOrderOK : List Fam → Bool
  | [] => true
  | f :: r => r.all (fun g => !properPrefixB f.1 g.1) && famOrderOK r

theorem famOrderOK_pairwise : ∀ (l : List Fam), famOrderOK l = true → l.Pairwise (fun f g => properPrefixB f.1 g.1 = false)
  | [], _ => List.Pairwise.nil
  | f :: r, h => by
    simp only [famOrderOK, Bool.and_eq_true, List.all_eq_true, Bool.not_eq_true'] at h
    exact List.pairwise_cons.mpr ⟨h.1, famOrderOK_pairwise r h.2⟩

/-- table fact, hand-written specification -/
theorem fam_order_ok : famOrderOK specFamilies = true := by decide +kernel

/-- the longest matching family is the first matching family -/
theorem specFamily_eq_find (k : String) : specFamily k = specFamilies.find? (fun f => startsWithL k f.1) := by
  rw [specFamily_def, ← List.head?_filter]
  have hpw := (famOrderOK_pairwise _ fam_order_ok).filter (fun f => startsWithL k f.1)
  have hall : ∀ f ∈ specFamilies.filter (fun f => startsWithL k f.1), startsWithL k f.1 = true :=
    fun f hf => (List.mem_filter.mp hf).2
  generalize specFamilies.filter (fun f => startsWithL k f.1) = l at hpw hall
  cases l with
  | nil => rfl
  | cons b r =>
    rw [List.foldl_cons]
    show r.foldl famStep (some b) = some b
    apply foldl_famStep_some
    intro f hf
    have hrel := (List.pairwise_cons.mp hpw).1 f hf
    have hb : b.1.toList <+: k.toList := by
      have := hall b List.mem_cons_self
      simpa [startsWithL] using this
    have hfk : f.1.toList <+: k.toList := by
      have := hall f (List.mem_cons_of_mem _ hf)
      simpa [startsWithL] using this
    rcases Nat.lt_or_ge b.1.length f.1.length with hlt | hge
    · exfalso
      have hpre : b.1.toList <+: f.1.toList :=
        List.prefix_of_prefix_length_le hb hfk (by rw [String.length_toList, String.length_toList]; omega)
      have : properPrefixB b.1 f.1 = true := by
        simp only [properPrefixB, Bool.and_eq_true, decide_eq_true_eq]
        exact ⟨by simpa using hpre, hlt⟩
      rw [this] at hrel; cases hrel
    · exact hge

/-- the row of `kind_prefixes` a specified family stands for -/
def famRow (f : Fam) : Option (String × Nat × Nat × Nat) :=
  match primCode f.2.1, primCode f.2.2.1, primCode f.2.2.2 with
  | some a, some b, some c => some (f.1, a, b, c)
  | _, _, _ => none

/-- table fact, regenerated from the working tree on every run: `sim.kind_prefixes` (in dictionary order) is the
    specified family table with every primitive name replaced by its code in `sim.names` -/
theorem table_is_spec : specFamilies.map famRow = Gen.kindPrefixes.map (fun r => some (r.pre, r.p4, r.p3, r.p2)) := by
  decide +kernel

theorem find_rows (m : String → Bool) : ∀ (F : List Fam) (T : List PrefixRow),
    F.map famRow = T.map (fun r => some (r.pre, r.p4, r.p3, r.p2)) →
    match F.find? (fun f => m f.1), T.find? (fun r => m r.pre) with
    | some f, some r => famRow f = some (r.pre, r.p4, r.p3, r.p2)
    | none, none => True
    | _, _ => False
  | [], [], _ => trivial
  | [], _ :: _, h => by simp at h
  | _ :: _, [], h => by simp at h
  | f :: F, r :: T, h => by
    simp only [List.map_cons, List.cons.injEq] at h
    obtain ⟨h1, h2⟩ := h
    have hpre : f.1 = r.pre := by
      unfold famRow at h1
      split at h1
      · simp only [Option.some.injEq, Prod.mk.injEq] at h1; exact h1.1
      · cases h1
    simp only [List.find?_cons, hpre]
    cases m r.pre with
    | true => exact h1
    | false => exact find_rows m F T h2

/-- **every kind string, every pin-connection pattern**: the primitive `SimOps` selects is the code of the primitive the
    specification names -/
theorem select_is_spec (k : String) (c2 c3 : Bool) :
    selectPrim Gen.kindPrefixes k c2 c3 = (specPrimName k c2 c3).bind primCode := by
  have h := find_rows (fun p => startsWithL k p) specFamilies Gen.kindPrefixes table_is_spec
  unfold selectPrim specPrimName
  rw [specFamily_eq_find]
  cases hF : specFamilies.find? (fun f => startsWithL k f.1) with
  | none =>
    cases hT : Gen.kindPrefixes.find? (fun r => startsWithL k r.pre) with
    | none => rfl
    | some r => rw [hF, hT] at h; exact absurd h id
  | some f =>
    cases hT : Gen.kindPrefixes.find? (fun r => startsWithL k r.pre) with
    | none => rw [hF, hT] at h; exact absurd h id
    | some r =>
      rw [hF, hT] at h
      simp only at h
      unfold famRow at h
      split at h
      · rename_i a b c ha hb hc
        simp only [Option.some.injEq, Prod.mk.injEq] at h
        obtain ⟨_, e4, e3, e2⟩ := h
        simp only [Option.map_some, Option.bind_some]
        cases c3
        · cases c2
          · simp only [Bool.false_eq_true, if_false]; rw [hc, e2]
          · simp only [Bool.false_eq_true, if_false, if_true]; rw [hb, e3]
        · simp only [if_true]; rw [ha, e4]
      · cases h

end KV
