import KyupyVerif.Model.TextLex
/-! Lemmas about the scanner engine `KV.TextLex`: matchers on texts of the form `token ++ rest`, and the three
rewriting rules for `next` (end of text, token, ignored match) that keep the fuel out of the grammar proofs. -/
namespace KV.TextLex

/-! ## matchers -/
@[simp] theorem stripPrefix_append (k r : List Char) : stripPrefix k (k ++ r) = some r := by
  induction k with
  | nil => cases r <;> rfl
  | cons a k ih => simp [stripPrefix, ih]

theorem lit_append (k r : List Char) : lit k (k ++ r) = some (k, r) := by simp [lit]

theorem spanP_nil (p : Char → Bool) : spanP p [] = ([], []) := rfl

theorem spanP_cons_false (p : Char → Bool) (c : Char) (r : List Char) (h : p c = false) :
    spanP p (c :: r) = ([], c :: r) := by simp [spanP, h]

/-- the run stops at the first character outside the class -/
theorem spanP_append (p : Char → Bool) (a r : List Char) (ha : ∀ c ∈ a, p c = true)
    (hr : ∀ c r', r = c :: r' → p c = false) : spanP p (a ++ r) = (a, r) := by
  induction a with
  | nil =>
    cases r with
    | nil => rfl
    | cons c r' => simp [spanP, hr c r' rfl]
  | cons x a ih =>
    have hx : p x = true := ha x (by simp)
    have := ih (fun c hc => ha c (by simp [hc]))
    simp [spanP, hx, this]

theorem plus_append (p : Char → Bool) (a r : List Char) (hne : a ≠ []) (ha : ∀ c ∈ a, p c = true)
    (hr : ∀ c r', r = c :: r' → p c = false) : plus p (a ++ r) = some (a, r) := by
  unfold plus
  rw [spanP_append p a r ha hr]
  cases a with
  | nil => exact absurd rfl hne
  | cons x a => rfl

theorem plus_cons_false (p : Char → Bool) (c : Char) (r : List Char) (h : p c = false) : plus p (c :: r) = none := by
  simp [plus, spanP, h]

theorem plus_nil (p : Char → Bool) : plus p [] = none := rfl

theorem chr_cons (k : Char) (r : List Char) : chr k (k :: r) = some ([k], r) := by simp [chr]

theorem chr_cons_ne (k c : Char) (r : List Char) (h : c ≠ k) : chr k (c :: r) = none := by simp [chr, h]

theorem delimited_cons_ne (o c x : Char) (r : List Char) (h : x ≠ o) : delimited o c (x :: r) = none := by
  simp [delimited, h]

theorem delimited_append (o c : Char) (t r : List Char) (hne : t ≠ []) (ht : ∀ x ∈ t, x ≠ c) :
    delimited o c (o :: (t ++ c :: r)) = some (o :: (t ++ [c]), r) := by
  unfold delimited
  simp only [↓reduceIte]
  rw [spanP_append (· ≠ c) t (c :: r) (by intro x hx; simpa using ht x hx)
        (by intro x r' h; cases h; simp)]
  cases t with
  | nil => exact absurd rfl hne
  | cons x t => simp

/-! ## `next` without fuel -/
theorem nextF_mono (L : Lex τ) (ts : List τ) : ∀ (n m : Nat) (cs : List Char), cs.length ≤ n → cs.length ≤ m →
    nextF L ts n cs = nextF L ts m cs := by
  intro n
  induction n with
  | zero =>
    intro m cs hn _
    have : cs = [] := List.eq_nil_of_length_eq_zero (by omega)
    subst this
    cases m <;> rfl
  | succ n ih =>
    intro m cs hn hm
    cases cs with
    | nil => cases m <;> rfl
    | cons c cs =>
      cases m with
      | zero => simp at hm
      | succ m =>
        simp only [nextF]
        cases hf : first L ts (c :: cs) with
        | none => rfl
        | some x =>
          obtain ⟨t, tok, r⟩ := x
          simp only
          split
          · split
            · rename_i hlt
              simp only [List.length_cons] at hlt hn hm
              exact ih m r (by omega) (by omega)
            · rfl
          · rfl

@[simp] theorem next_nil (L : Lex τ) (ts : List τ) : next L ts [] = some (.eof, []) := rfl

theorem next_tok (L : Lex τ) (ts : List τ) (cs : List Char) (t : τ) (tok r : List Char)
    (hf : first L ts cs = some (t, tok, r)) (hi : L.ign t = false) (hne : cs ≠ []) :
    next L ts cs = some (.tok t tok, r) := by
  cases cs with
  | nil => exact absurd rfl hne
  | cons c cs => simp [next, nextF, hf, hi]

theorem next_ign (L : Lex τ) (ts : List τ) (cs : List Char) (t : τ) (tok r : List Char)
    (hf : first L ts cs = some (t, tok, r)) (hi : L.ign t = true) (hlt : r.length < cs.length) :
    next L ts cs = next L ts r := by
  cases cs with
  | nil => simp at hlt
  | cons c cs =>
    simp only [next, List.length_cons, nextF, hf, hi, ↓reduceIte]
    simp only [List.length_cons] at hlt
    simp only [hlt, ↓reduceIte]
    exact nextF_mono L ts _ _ r (by omega) (by omega)

/-! ## counting: a text is at least as long as the number of its non-empty pieces -/
theorem length_le_flatMap {α β : Type} (g : α → List β) (l : List α) (h : ∀ x ∈ l, 1 ≤ (g x).length) :
    l.length ≤ (l.flatMap g).length := by
  induction l with
  | nil => simp
  | cons x l ih =>
    have h1 := h x (by simp)
    have h2 := ih (fun y hy => h y (by simp [hy]))
    simp only [List.flatMap_cons, List.length_append, List.length_cons]
    omega

theorem length_le_of_mem_flatMap {α β : Type} (g : α → List β) (l : List α) (x : α) (hx : x ∈ l) :
    (g x).length ≤ (l.flatMap g).length := by
  induction l with
  | nil => cases hx
  | cons y l ih =>
    simp only [List.flatMap_cons, List.length_append]
    rcases List.mem_cons.mp hx with rfl | h
    · omega
    · have := ih h; omega

end KV.TextLex
