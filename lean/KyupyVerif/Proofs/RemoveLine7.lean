import KyupyVerif.Proofs.RemoveLine6
/-! Helper lemmas for C10 (removal of dangling logic), part 7: `remove_dangling_nodes` (model `removeDangling`, any start
nodes, any `only` set of valid node references) keeps the circuit well-formed (`WFm`) and embeds the result into the
circuit before: `removeDangling_emb`. -/
namespace KV.Transform
open KV

theorem outs_all_none {l : List (Option Nat)} (h : l.any (·.isSome) = false) : ∀ k, l.getD k none = none := by
  intro k
  cases hk : l.getD k none with
  | none => rfl
  | some x =>
    have hlt := getD_some_lt hk
    rw [List.getD_eq_getElem?_getD, List.getElem?_eq_getElem hlt] at hk
    have hm : l[k] ∈ l := List.getElem_mem hlt
    have : l.any (·.isSome) = true := List.any_eq_true.mpr ⟨l[k], hm, by simp at hk; rw [hk]; rfl⟩
    rw [h] at this; exact absurd this (by simp)

theorem removeDangling_emb : ∀ (fuel : Nat) (nn : NNet) (own : List Nat) (stack : List (Option Nat)) (nn' : NNet),
    WFm nn → (∀ x ∈ own, x < nn.net.nodes.size) → removeDangling fuel nn own stack = some nn' →
    WFm nn' ∧ ∃ r, Emb nn nn' r ∧
      ∀ j, j < nn.net.nodes.size → isSeqKind (nn.net.node j).kind = true → ∃ j', j' < nn'.net.nodes.size ∧ r.node j' = j
  | 0, _, _, _, _, _, _, h => by simp [removeDangling] at h
  | fuel + 1, nn, own, [], nn', w, _, h => by
    simp only [removeDangling] at h
    cases h
    exact ⟨w, Ren.id, Emb.refl nn w.io (fun l hl => (w.back l hl).1), fun j hj _ => ⟨j, hj, rfl⟩⟩
  | fuel + 1, nn, own, none :: rest, nn', w, ho, h => by
    simp only [removeDangling] at h
    exact removeDangling_emb fuel nn own rest nn' w ho h
  | fuel + 1, nn, own, some root :: rest, nn', w, ho, h => by
    simp only [removeDangling] at h
    split at h
    · exact removeDangling_emb fuel nn own rest nn' w ho h
    · rename_i hany
      split at h
      · exact removeDangling_emb fuel nn own rest nn' w ho h
      · rename_i hio
        split at h
        · exact removeDangling_emb fuel nn own rest nn' w ho h
        · rename_i hseq
          split at h
          · exact removeDangling_emb fuel nn own rest nn' w ho h
          · rename_i hown
            split at h
            · exact absurd h (by simp)
            · rename_i net1 h1
              have hown' : root ∈ own := by simpa using hown
              have hr : root < nn.net.nodes.size := ho root hown'
              have hio' : root ∉ nn.net.io := by simpa using hio
              have houts := outs_all_none (by simpa using hany : (nn.net.node root).outs.any (·.isSome) = false)
              obtain ⟨w2, r2, e2, s2, _, _⟩ := removeRoot_emb nn w root hr hio' houts net1 h1
              have po := pinsOnly_removeLines _ _ _ _ h1
              have ho2 : ∀ x ∈ own.filterMap (fun x => mvNode nn.net.nodes.size root (some x)),
                  x < (delNode { nn with net := net1 } root).net.nodes.size := by
                intro x hx
                rw [List.mem_filterMap] at hx
                obtain ⟨y, hy, e⟩ := hx
                have hy' := ho y hy
                have hs : (delNode { nn with net := net1 } root).net.nodes.size = nn.net.nodes.size - 1 := by
                  simp [delNode, po.1.1]
                rw [hs]
                simp only [mvNode, beq_iff_eq, Option.some.injEq] at e
                split at e
                · exact absurd e (by simp)
                · split at e
                  · cases e; omega
                  · cases e; omega
              obtain ⟨w3, r3, e3, s3⟩ := removeDangling_emb fuel _ _ _ nn' w2 ho2 h
              refine ⟨w3, r2.comp r3, (EmbX.trans e2 e3).strengthen (fun j _ hc => by rcases hc with hc | hc <;> exact hc), ?_⟩
              intro j hj hsq
              have hne : j ≠ root := by
                intro e0; subst e0
                exact hseq hsq
              obtain ⟨j1, hj1, ej1⟩ := s2 j hj hne
              have hk := e2.kind j1 hj1
              rw [ej1] at hk
              obtain ⟨j', hj', ej'⟩ := s3 j1 hj1 (by rw [hk]; exact hsq)
              exact ⟨j', hj', by show r2.node (r3.node j') = j; rw [ej', ej1]⟩

end KV.Transform
