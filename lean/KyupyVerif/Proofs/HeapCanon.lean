import KyupyVerif.Proofs.HeapInv
import KyupyVerif.Model.SimOps
/-! Canonical form of the heap: under the invariant (positive sizes, adjacent free chunks coalesced, no trailing
free chunk) the chunk list is DETERMINED by the set of live regions. Consequence: releasing a set of regions gives the
same heap in every order — `SimOps` iterates a Python `set` of locations (sim.py:306), the model a list. -/
namespace KV.Heap

/-- the chunk list of a coalesced heap whose live regions are `us` (address order), starting at address `s` -/
def rebuild : Nat → List (Nat × Nat) → List Chunk
  | _, [] => []
  | s, (a, n) :: r => (if s < a then [⟨a - s, true⟩] else []) ++ ⟨n, false⟩ :: rebuild (a + n) r

theorem noAdj_ne_nil_of_free {c : Chunk} {l : List Chunk} (h : NoAdj (c :: l)) (hc : c.free = true) : l ≠ [] := by
  intro hl; subst hl; simp [NoAdj] at h; simp [hc] at h

theorem chunk_eta (c : Chunk) (b : Bool) (hc : c.free = b) : c = ⟨c.size, b⟩ := by
  cases c; simp at hc; simp [hc]

theorem cs_eq_rebuild : ∀ (l : List Chunk) (s : Nat), Pos l → (l ≠ [] → NoAdj l) → l = rebuild s (usedFrom s l)
  | [], s, _, _ => by simp [usedFrom, rebuild]
  | [c], s, hp, hn => by
    have hc : c.free = false := hn (by simp)
    simp only [usedFrom, hc, Bool.false_eq_true, ↓reduceIte, List.append_nil, rebuild, Nat.lt_irrefl, List.nil_append]
    rw [← chunk_eta c false hc]
  | c :: d :: r, s, hp, hn => by
    have hn' : NoAdj (c :: d :: r) := hn (by simp)
    have hpt : Pos (d :: r) := fun x hx => hp x (List.mem_cons_of_mem _ hx)
    have hnt : NoAdj (d :: r) := hn'.2
    cases hc : c.free with
    | false =>
      have ih := cs_eq_rebuild (d :: r) (s + c.size) hpt (fun _ => hnt)
      have hu : usedFrom s (c :: d :: r) = (s, c.size) :: usedFrom (s + c.size) (d :: r) := by
        simp [usedFrom, hc]
      rw [hu]
      simp only [rebuild, Nat.lt_irrefl, ↓reduceIte, List.nil_append]
      rw [← ih, ← chunk_eta c false hc]
    | true =>
      have hd : d.free = false := by
        have := hn'.1; cases hdd : d.free with
        | false => rfl
        | true => exact absurd ⟨hc, hdd⟩ this
      have hcp : 0 < c.size := hp c List.mem_cons_self
      have hu : usedFrom s (c :: d :: r) = (s + c.size, d.size) :: usedFrom (s + c.size + d.size) r := by
        simp [usedFrom, hc, hd]
      rw [hu]
      simp only [rebuild]
      have hlt : s < s + c.size := by omega
      simp only [hlt, ↓reduceIte, List.singleton_append, Nat.add_sub_cancel_left]
      have hpr : Pos r := fun x hx => hpt x (List.mem_cons_of_mem _ hx)
      have hnr : r ≠ [] → NoAdj r := by
        intro hne
        cases r with
        | nil => exact absurd rfl hne
        | cons e r' => exact hnt.2
      have ih := cs_eq_rebuild r (s + c.size + d.size) hpr hnr
      rw [← ih, ← chunk_eta c true hc, ← chunk_eta d false hd]

/-- live regions of a heap with positive sizes are strictly ordered -/
theorem usedFrom_pos (s : Nat) (l : List Chunk) (hp : Pos l) : ∀ r ∈ usedFrom s l, 0 < r.2 := by
  induction l generalizing s with
  | nil => intro r hr; simp [usedFrom] at hr
  | cons c l ih =>
    intro r hr
    simp only [usedFrom, List.mem_append] at hr
    rcases hr with hr | hr
    · split at hr
      · simp at hr
      · simp at hr; subst hr; exact hp c List.mem_cons_self
    · exact ih (s + c.size) (fun x hx => hp x (List.mem_cons_of_mem _ hx)) r hr

theorem used_nodup (h : Heap) (hi : HInv h) : h.used.Nodup := by
  have hs := usedFrom_sorted 0 h.cs
  have hp := usedFrom_pos 0 h.cs hi.pos
  unfold Heap.used
  refine List.Pairwise.imp_of_mem ?_ hs
  intro a b ha hb hab e
  subst e
  have := hp a ha; omega

/-- two coalesced heaps with the same SET of live regions have the same list of live regions … -/
theorem used_ext (h1 h2 : Heap) (i1 : HInv h1) (i2 : HInv h2) (he : ∀ r, r ∈ h1.used ↔ r ∈ h2.used) : h1.used = h2.used := by
  have hperm : h1.used.Perm h2.used := (List.perm_ext_iff_of_nodup (used_nodup h1 i1) (used_nodup h2 i2)).mpr he
  refine List.Perm.eq_of_pairwise (le := fun a b => a.1 + a.2 ≤ b.1) ?_ (usedFrom_sorted 0 h1.cs) (usedFrom_sorted 0 h2.cs) hperm
  intro a b ha hb hab hba
  have := usedFrom_pos 0 h1.cs i1.pos a ha
  have := usedFrom_pos 0 h2.cs i2.pos b hb
  omega

/-- … and the same chunk list: the heap state is a function of the live set -/
theorem cs_of_used (h1 h2 : Heap) (i1 : HInv h1) (i2 : HInv h2) (he : ∀ r, r ∈ h1.used ↔ r ∈ h2.used) : h1.cs = h2.cs := by
  have e := used_ext h1 h2 i1 i2 he
  rw [cs_eq_rebuild h1.cs 0 i1.pos (fun _ => i1.noadj), cs_eq_rebuild h2.cs 0 i2.pos (fun _ => i2.noadj)]
  unfold Heap.used at e
  rw [e]

/-- a live region can be released -/
theorem freeIn_isSome (loc : Nat) : ∀ (s : Nat) (l : List Chunk) (n : Nat), Pos l → (loc, n) ∈ usedFrom s l → (freeIn loc s l).isSome = true
  | _, [], _, _, h => by simp [usedFrom] at h
  | s, c :: r, n, hp, h => by
    have hcp : 0 < c.size := hp c List.mem_cons_self
    have hpr : Pos r := fun x hx => hp x (List.mem_cons_of_mem _ hx)
    simp only [usedFrom, List.mem_append] at h
    unfold freeIn
    by_cases hs : s = loc
    · subst hs
      simp only [beq_self_eq_true, ↓reduceIte]
      rcases h with h | h
      · split at h
        · simp at h
        · rename_i hf
          simp only [hf, Bool.false_eq_true, ↓reduceIte]
          cases r with
          | nil => rfl
          | cons d r' => simp only; split <;> rfl
      · have := (usedFrom_bounds (s + c.size) r _ h).1
        first | omega | (simp at this; omega)
    · have hne : (s == loc) = false := by simp [hs]
      simp only [hne, Bool.false_eq_true, ↓reduceIte]
      rcases h with h | h
      · split at h
        · simp at h
        · simp at h; omega
      · have hb := (usedFrom_bounds (s + c.size) r _ h).1
        simp at hb
        have hlt : s < loc := by omega
        simp only [hlt, ↓reduceIte]
        have ih := freeIn_isSome loc (s + c.size) r n hpr h
        cases hf : freeIn loc (s + c.size) r with
        | none => simp [hf] at ih
        | some res =>
          cases res with
          | nil => rfl
          | cons d rest => dsimp only; split <;> rfl

theorem free_isSome (h : Heap) (hi : HInv h) (loc n : Nat) (hu : (loc, n) ∈ h.used) : (h.free loc).isSome = true := by
  unfold Heap.free
  have := freeIn_isSome loc 0 h.cs n hi.pos hu
  cases hf : freeIn loc 0 h.cs with
  | none => simp [hf] at this
  | some _ => rfl

theorem pairwise_mem_cases {α} {R : α → α → Prop} : ∀ {l : List α}, l.Pairwise R → ∀ {a b : α}, a ∈ l → b ∈ l → a = b ∨ R a b ∨ R b a
  | [], _, _, _, ha, _ => by cases ha
  | x :: l, hp, a, b, ha, hb => by
    rw [List.pairwise_cons] at hp
    rcases List.mem_cons.mp ha with rfl | ha' <;> rcases List.mem_cons.mp hb with rfl | hb'
    · exact Or.inl rfl
    · exact Or.inr (Or.inl (hp.1 _ hb'))
    · exact Or.inr (Or.inr (hp.1 _ ha'))
    · exact pairwise_mem_cases hp.2 ha' hb'

/-- regions with the same start are the same region -/
theorem used_start_unique (h : Heap) (hi : HInv h) {loc n n' : Nat} (h1 : (loc, n) ∈ h.used) (h2 : (loc, n') ∈ h.used) : n = n' := by
  have hp1 := usedFrom_pos 0 h.cs hi.pos _ h1
  have hp2 := usedFrom_pos 0 h.cs hi.pos _ h2
  rcases pairwise_mem_cases (usedFrom_sorted 0 h.cs) h1 h2 with e | e | e
  · simpa using e
  · simp at e hp1; omega
  · simp at e hp2; omega

theorem usedFrom_cons (s : Nat) (c : Chunk) (r : List Chunk) :
    usedFrom s (c :: r) = (if c.free then [] else [(s, c.size)]) ++ usedFrom (s + c.size) r := rfl

/-- after a release no live region starts at the released address -/
theorem freeIn_removed (loc : Nat) : ∀ (s : Nat) (l l' : List Chunk), Pos l → freeIn loc s l = some l' →
    ∀ r ∈ usedFrom s l', r.1 ≠ loc
  | _, [], _, _, h => by simp [freeIn] at h
  | s, c :: rest, l', hpos, h => by
    have hcpos : 0 < c.size := hpos c List.mem_cons_self
    have hrpos : Pos rest := fun x hx => hpos x (List.mem_cons_of_mem _ hx)
    unfold freeIn at h
    split at h
    · rename_i heq
      simp only [beq_iff_eq] at heq; subst heq
      split at h
      · cases h
      · cases rest with
        | nil => simp only [Option.some.injEq] at h; subst h; intro r hr; simp [usedFrom] at hr
        | cons n rest' =>
          have hnpos : 0 < n.size := hrpos n List.mem_cons_self
          simp only at h
          split at h
          · simp only [Option.some.injEq] at h; subst h
            intro r hr
            simp only [usedFrom, ↓reduceIte, List.nil_append] at hr
            have := (usedFrom_bounds _ _ r hr).1; omega
          · rename_i hn
            simp only [Option.some.injEq] at h; subst h
            intro r hr
            rw [usedFrom_cons] at hr
            simp only [↓reduceIte, List.nil_append] at hr
            have := (usedFrom_bounds _ _ r hr).1; omega
    · split at h
      · rename_i hne hlt
        cases hf : freeIn loc (s + c.size) rest with
        | none => simp [hf] at h
        | some res =>
          have ih := freeIn_removed loc (s + c.size) rest res hrpos hf
          rw [hf] at h
          cases res with
          | nil =>
            simp only [Option.some.injEq] at h; subst h
            intro r hr
            split at hr
            · simp [usedFrom] at hr
            · simp only [usedFrom, List.append_nil] at hr
              split at hr
              · simp at hr
              · simp at hr; subst hr; simp; omega
          | cons d rest' =>
            simp only at h
            split at h
            · rename_i hm
              simp only [Option.some.injEq] at h; subst h
              intro r hr
              simp only [usedFrom, ↓reduceIte, List.nil_append] at hr
              refine ih r ?_
              simp only [Bool.and_eq_true] at hm
              have hd : d.free = true := hm.1.2
              simp only [usedFrom, hd, ↓reduceIte, List.nil_append]
              have e : s + (c.size + d.size) = s + c.size + d.size := by omega
              rw [e] at hr; exact hr
            · simp only [Option.some.injEq] at h; subst h
              intro r hr
              rw [usedFrom_cons, List.mem_append] at hr
              rcases hr with hr | hr
              · split at hr
                · simp at hr
                · simp at hr; subst hr; simp; omega
              · exact ih r hr
      · cases h

/-- releasing removes exactly the regions that start at `loc` -/
theorem free_used_iff (h h' : Heap) (loc : Nat) (hi : HInv h) (hf : h.free loc = some h') :
    ∀ r, r ∈ h'.used ↔ r ∈ h.used ∧ r.1 ≠ loc := by
  obtain ⟨n, hm, hu, _⟩ := free_spec h h' loc hi hf
  have hrem : ∀ r ∈ h'.used, r.1 ≠ loc := by
    unfold Heap.free at hf
    cases hfi : freeIn loc 0 h.cs with
    | none => rw [hfi] at hf; simp at hf
    | some cs' =>
      rw [hfi] at hf; simp only [Option.map_some, Option.some.injEq] at hf; subst hf
      exact freeIn_removed loc 0 h.cs cs' hi.pos hfi
  intro r
  constructor
  · intro hr
    exact ⟨(hu r).mpr (Or.inr hr), hrem r hr⟩
  · rintro ⟨hr, hne⟩
    rcases (hu r).mp hr with e | e
    · subst e; exact absurd rfl hne
    · exact e

/-- a failing release means that no live region starts there -/
theorem free_none_iff (h : Heap) (hi : HInv h) (loc : Nat) (hf : h.free loc = none) : ∀ r ∈ h.used, r.1 ≠ loc := by
  intro r hr e
  obtain ⟨a, n⟩ := r; simp only at e; subst e
  have := free_isSome h hi a n hr
  rw [hf] at this; simp at this

end KV.Heap

namespace KV
open KV.Heap

theorem freeAll_spec : ∀ (l : List Int) (h : Heap.Heap), HInv h →
    HInv (freeAll h l) ∧ (freeAll h l).maxSz = h.maxSz ∧
    ∀ r, r ∈ (freeAll h l).used ↔ r ∈ h.used ∧ r.1 ∉ l.map Int.toNat
  | [], h, hi => by simp [freeAll, hi]
  | x :: l, h, hi => by
    unfold freeAll
    simp only [List.foldl_cons]
    cases hf : h.free x.toNat with
    | none =>
      obtain ⟨i1, i2, i3⟩ := freeAll_spec l h hi
      refine ⟨i1, i2, ?_⟩
      intro r; rw [show List.foldl _ h l = freeAll h l from rfl, i3 r]
      simp only [List.map_cons, List.mem_cons, not_or]
      constructor
      · rintro ⟨a, b⟩; exact ⟨a, free_none_iff h hi _ hf r a, b⟩
      · rintro ⟨a, _, b⟩; exact ⟨a, b⟩
    | some h' =>
      have hi' := free_inv h h' _ hi hf
      obtain ⟨i1, i2, i3⟩ := freeAll_spec l h' hi'
      have hm : h'.maxSz = h.maxSz := by
        unfold Heap.free at hf
        cases hfi : freeIn x.toNat 0 h.cs with
        | none => rw [hfi] at hf; simp at hf
        | some cs' => rw [hfi] at hf; simp only [Option.map_some, Option.some.injEq] at hf; subst hf; rfl
      refine ⟨i1, by rw [show List.foldl _ h' l = freeAll h' l from rfl, i2, hm], ?_⟩
      intro r; rw [show List.foldl _ h' l = freeAll h' l from rfl, i3 r, free_used_iff h h' _ hi hf r]
      simp only [List.map_cons, List.mem_cons, not_or]
      constructor
      · rintro ⟨⟨a, b⟩, c⟩; exact ⟨a, b, c⟩
      · rintro ⟨a, b, c⟩; exact ⟨⟨a, b⟩, c⟩

/-- the heap after releasing a collection of locations depends only on the SET of locations — not on the order, not
    on repetitions, and locations at which no live region starts are ignored -/
theorem freeAll_order_irrelevant (h : Heap.Heap) (hi : HInv h) (l1 l2 : List Int)
    (he : ∀ x, x ∈ l1.map Int.toNat ↔ x ∈ l2.map Int.toNat) : freeAll h l1 = freeAll h l2 := by
  obtain ⟨a1, a2, a3⟩ := freeAll_spec l1 h hi
  obtain ⟨b1, b2, b3⟩ := freeAll_spec l2 h hi
  have hcs : (freeAll h l1).cs = (freeAll h l2).cs := by
    refine cs_of_used _ _ a1 b1 ?_
    intro r; rw [a3 r, b3 r, he r.1]
  have hm : (freeAll h l1).maxSz = (freeAll h l2).maxSz := by rw [a2, b2]
  cases h1 : freeAll h l1; cases h2 : freeAll h l2
  rw [h1] at hcs hm; rw [h2] at hcs hm
  simp only at hcs hm
  rw [hcs, hm]

end KV
