import KyupyVerif.Proofs.ResolveSome
import KyupyVerif.Proofs.SubstKeys
import KyupyVerif.Proofs.SubstGen17
import KyupyVerif.Proofs.CopyTrim
import KyupyVerif.Proofs.SubstTwin
import KyupyVerif.Model.ResolveStatic
/-! C10, audit 2 finding 6 (open part): the per-instance clauses of `resolveInstB` (evaluated along the run) follow from the STATIC
hypothesis `resolveStaticB` on the ORIGINAL circuit.

* `NSim a d b j` — node `j` of `b` looks like node `d` of `a` for everything the per-instance clauses `instHypB` read: kind, name, port
  status, pin-list lengths, and "an input pin driven by the node itself was so before".
* `StepFrame h c h'` — one substitution keeps every host node other than the cell (`NSim`).
* `static_resolveInst` — whole-run induction: static hypothesis + `StepFrame` of every step ⇒ `resolveInstB`.
* `stepFrame_of_substG` — `StepFrame` from the general certificate `SubstG` (kind, name, port status, self-driven pins: transport
  lemmas (2) and (4) of Props/C10Library.lean) and the pin-list lengths `LenFrame`. -/
namespace KV.Transform
open KV

/-- node `j` of `b` is node `d` of `a` as far as the per-instance clauses `instHypB` look -/
structure NSim (a : NNet) (d : Nat) (b : NNet) (j : Nat) : Prop where
  kind : (b.net.node j).kind = (a.net.node d).kind
  name : b.names.getD j "" = a.names.getD d ""
  io : b.net.io.contains j = a.net.io.contains d
  insLen : (b.net.node j).ins.length = (a.net.node d).ins.length
  outsLen : (a.net.node d).isFork = false → (b.net.node j).outs.length = (a.net.node d).outs.length
  self : ∀ p l', (b.net.node j).ins.getD p none = some l' → (b.net.line l').driver = j →
    ∃ l, (a.net.node d).ins.getD p none = some l ∧ (a.net.line l).driver = d

theorem NSim.refl (a : NNet) (d : Nat) : NSim a d a d :=
  ⟨rfl, rfl, rfl, rfl, fun _ => rfl, fun _ l' h1 h2 => ⟨l', h1, h2⟩⟩

theorem NSim.isFork {a b : NNet} {d j : Nat} (s : NSim a d b j) : (b.net.node j).isFork = (a.net.node d).isFork := by
  simp only [NodeD.isFork, s.kind]

theorem NSim.key {a b : NNet} {d j : Nat} (s : NSim a d b j) : b.key j = a.key d := by
  simp only [NNet.key, s.name, s.isFork]

theorem NSim.trans {a b c : NNet} {d j k : Nat} (s1 : NSim a d b j) (s2 : NSim b j c k) : NSim a d c k :=
  ⟨s2.kind.trans s1.kind, s2.name.trans s1.name, s2.io.trans s1.io, s2.insLen.trans s1.insLen,
   fun hf => (s2.outsLen (by rw [s1.isFork]; exact hf)).trans (s1.outsLen hf),
   fun p l' h1 h2 => by
     obtain ⟨l, h3, h4⟩ := s2.self p l' h1 h2
     exact s1.self p l h3 h4⟩

/-- one substitution keeps every host node other than the cell -/
def StepFrame (h : NNet) (c : Nat) (h' : NNet) : Prop :=
  ∀ d, d < h.net.nodes.size → d ≠ c → ∃ j', j' < h'.net.nodes.size ∧ NSim h d h' j'

/-! ### transfer of the per-instance clauses along `NSim` -/
theorem arityOKB_of_sim {a b : NNet} {d j : Nat} (m : NNet) (s : NSim a d b j) (hnf : (a.net.node d).isFork = false)
    (h : arityOKB a d m = true) : arityOKB b j m = true := by
  unfold arityOKB at h ⊢
  rw [s.insLen, s.outsLen hnf]
  exact h

theorem noSelfIgnB_of_sim {a b : NNet} {d j : Nat} (m : NNet) (s : NSim a d b j) (h : noSelfIgnB a d m = true) :
    noSelfIgnB b j m = true := by
  unfold noSelfIgnB at h ⊢
  split
  · rfl
  · rename_i sh hs
    rw [hs] at h
    dsimp only at h
    rw [List.all_eq_true] at h ⊢
    rintro ⟨inn, o⟩ hm
    cases o with
    | none => rfl
    | some ll' =>
      dsimp only
      cases hig : ignoredPort m inn with
      | false => rfl
      | true =>
        simp only [Bool.not_true, Bool.false_or, bne_iff_ne, ne_eq]
        intro hdrv
        obtain ⟨k, hk1, hk2⟩ := mem_zip_padTo hm
        obtain ⟨l, hl1, hl2⟩ := s.self k ll' hk2 hdrv
        have hmem : (inn, some l) ∈ sh.inPorts.zip (padTo (a.net.node d).ins sh.inPorts.length) :=
          mem_zip_of_getElem? hk1 (padTo_getElem? _ _ k l hl1)
        have := h _ hmem
        simp only [hig, Bool.not_true, Bool.false_or, bne_iff_ne, ne_eq] at this
        exact this hl2

/-! ### list facts -/
theorem mem_keys (nn : NNet) (k : String × Bool) : k ∈ nn.keys ↔ ∃ x, x < nn.net.nodes.size ∧ nn.key x = k := by
  simp only [NNet.keys, List.mem_map, List.mem_range]

theorem key_lookup (nn : NNet) (k : String × Bool) (h : nn.lookup k < nn.net.nodes.size) : nn.key (nn.lookup k) = k := by
  have hl : nn.keys.idxOf k < nn.keys.length := by simpa [NNet.keys, NNet.lookup] using h
  have := List.getElem_idxOf hl
  simp only [NNet.keys, List.getElem_map, List.getElem_range] at this
  exact this

theorem flatMap_range_nodup {β : Type} (f : Nat → List β) (n : Nat) (h : ((List.range n).flatMap f).Nodup) :
    (∀ d, d < n → (f d).Nodup) ∧ ∀ d d', d < n → d' < n → d ≠ d' → ∀ x ∈ f d, x ∉ f d' := by
  rw [List.Nodup, List.pairwise_flatMap] at h
  obtain ⟨h1, h2⟩ := h
  refine ⟨fun d hd => h1 d (List.mem_range.mpr hd), ?_⟩
  rw [List.pairwise_iff_getElem] at h2
  intro d d' hd hd' hne x hx hx'
  rcases Nat.lt_or_gt_of_ne hne with hlt | hgt
  · have := h2 d d' (by simpa using hd) (by simpa using hd') hlt
    simp only [List.getElem_range] at this
    exact this x hx x hx' rfl
  · have := h2 d' d (by simpa using hd') (by simpa using hd) hgt
    simp only [List.getElem_range] at this
    exact this x hx' x hx rfl

/-- the keys after the first statements of `substitute` (cell re-kinded or removed) -/
theorem phase1_keys_mem (h : NNet) (c : Nat) (m : NNet) (des : Option Nat) (w : WFm h) (hc : c < h.net.nodes.size)
    (hio : h.net.io.contains c = false) (k : String × Bool) (hk : k ∈ (phase1 h c m des).1.keys) :
    k ∈ h.keys ∨ ∃ dn, des = some dn ∧ k = keyOfKN ((m.net.node dn).kind, h.names.getD c "") := by
  have li : LI h := ⟨w.names, w.io⟩
  rw [keys_eq_kindNames, List.mem_map] at hk
  obtain ⟨kn, hkn, rfl⟩ := hk
  cases des with
  | none =>
    have := (phase1_none_obs h c m li hc hio).1
    left
    rw [keys_eq_kindNames]
    exact List.mem_map_of_mem (List.mem_of_mem_eraseIdx (this.mem_iff.mp hkn))
  | some dn =>
    rw [(phase1_some_obs h c m dn li hc).1] at hkn
    rcases List.mem_or_eq_of_mem_set hkn with h2 | h2
    · left; rw [keys_eq_kindNames]; exact List.mem_map_of_mem h2
    · right; exact ⟨dn, rfl, by rw [h2]⟩

/-! ### the whole run -/
/-- **static hypothesis ⇒ the per-instance clauses along the run**: induction over the key list.  Invariant: the circuit is `wfNoTrail`
    with gap-free forks; every node of the original circuit whose key is still to come is present (`NSim`); every key of the current
    circuit is an original key or was added by an instance whose key is no more to come. -/
theorem static_resolveInst (lib : Lib) (h0 : NNet) (hl : libOKB lib = true) (hst : resolveStaticB lib h0 = true)
    (hframe : ∀ cur c m nxt, substSomeHypB cur c m = true → substitute cur c m = some nxt → StepFrame cur c nxt) :
    ∀ (keys : List (String × Bool)) (cur : NNet), cur.wfNoTrail = true → forksDenseB cur.net = true →
      keys.Nodup → (∀ k ∈ keys, k ∈ h0.keys) →
      (∀ k ∈ keys, ∀ d, d < h0.net.nodes.size → h0.key d = k → ∃ j, j < cur.net.nodes.size ∧ NSim h0 d cur j) →
      (∀ k' ∈ cur.keys, k' ∈ h0.keys ∨ ∃ d, d < h0.net.nodes.size ∧ h0.key d ∉ keys ∧ k' ∈ instAdded lib h0 d) →
      resolveInstB lib keys cur = true
  | [], _, _, _, _, _, _, _ => rfl
  | key :: rest, cur, hw, hf, hnd, hk0, hsim, hkeys => by
    obtain ⟨hkr, hndr⟩ := List.nodup_cons.mp hnd
    have hsimr : ∀ k ∈ rest, ∀ d, d < h0.net.nodes.size → h0.key d = k → ∃ j, j < cur.net.nodes.size ∧ NSim h0 d cur j :=
      fun k hk => hsim k (List.mem_cons_of_mem _ hk)
    have hkeysr : ∀ k' ∈ cur.keys, k' ∈ h0.keys ∨ ∃ d, d < h0.net.nodes.size ∧ h0.key d ∉ rest ∧ k' ∈ instAdded lib h0 d := by
      intro k' hk'
      rcases hkeys k' hk' with h1 | ⟨d, h1, h2, h3⟩
      · exact Or.inl h1
      · exact Or.inr ⟨d, h1, fun hm => h2 (List.mem_cons_of_mem _ hm), h3⟩
    have skip := static_resolveInst lib h0 hl hst hframe rest cur hw hf hndr (fun k hk => hk0 k (List.mem_cons_of_mem _ hk)) hsimr hkeysr
    unfold resolveInstB
    dsimp only
    split
    · rename_i hlt
      split
      · rename_i impl hfd
        have wm := WFm.of_wfNoTrail hw
        -- the node found under the key is the original instance
        obtain ⟨d, hd, hdk⟩ := (mem_keys h0 key).mp (hk0 key List.mem_cons_self)
        obtain ⟨j, hj, sj⟩ := hsim key List.mem_cons_self d hd hdk
        have hji : j = cur.lookup key := by
          have := lookup_key_m cur wm j hj
          rw [sj.key, hdk] at this
          exact this.symm
        subst hji
        -- static clauses of the instance
        have hst0 := hst
        simp only [resolveStaticB, Bool.and_eq_true, List.all_eq_true, List.mem_range, decide_eq_true_eq] at hst
        obtain ⟨hst1, hst2⟩ := hst
        have hfd0 : lib.find (h0.net.node d).kind = some impl := by rw [← sj.kind]; exact hfd
        have hi := hst1 d hd
        simp only [instStaticB, hfd0, Bool.and_eq_true, Bool.not_eq_true'] at hi
        obtain ⟨⟨⟨hi1, hi2⟩, hi3⟩, hi4⟩ := hi
        obtain ⟨e, hem, rfl⟩ := Lib.find_mem lib _ impl hfd
        have hm := List.all_eq_true.mp hl e hem
        simp only [implSomeOKB, Bool.and_eq_true] at hm
        obtain ⟨sh, hs, k2, k3, k4⟩ := implGenOKB_spec e.2 hm.1.1.1.2
        have hadd : instAdded lib h0 d = addedKeys e.2 (cur.names.getD (cur.lookup key) "") sh.des := by
          simp only [instAdded, hfd0, hs, sj.name]
        obtain ⟨hn0, hn1, hn2⟩ := List.nodup_append.mp hst2
        obtain ⟨hn3, hn4⟩ := flatMap_range_nodup _ _ hn1
        have hio : cur.net.io.contains (cur.lookup key) = false := by rw [sj.io]; exact hi1
        have hfresh : addFreshB cur (cur.lookup key) e.2 = true := by
          unfold addFreshB
          rw [hs]
          simp only [Bool.and_eq_true, decide_eq_true_eq, List.all_eq_true, Bool.not_eq_true']
          refine ⟨by rw [← hadd]; exact hn3 d hd, ?_⟩
          intro k' hk'
          rw [← hadd] at hk'
          cases hc : (phase1 cur (cur.lookup key) e.2 sh.des).1.keys.contains k' with
          | false => rfl
          | true =>
            exfalso
            have hmem : k' ∈ (phase1 cur (cur.lookup key) e.2 sh.des).1.keys := by simpa using hc
            have hin : k' ∈ cur.keys := by
              rcases phase1_keys_mem cur _ e.2 sh.des wm hlt hio k' hmem with h1 | ⟨dn, hdn, rfl⟩
              · exact h1
              · have hnp := implShape_des_notPort e.2 (WF.of_wf hm.1.1.1.1) sh dn hs hdn k3
                have hnf := (implShape_des e.2 (WF.of_wf hm.1.1.1.1) sh dn hs hdn).2 hnp
                have hcf : (cur.net.node (cur.lookup key)).isFork = false := by rw [sj.isFork]; exact hi2
                have : keyOfKN ((e.2.net.node dn).kind, cur.names.getD (cur.lookup key) "") = cur.key (cur.lookup key) := by
                  simp only [keyOfKN, NNet.key, hcf]
                  have : ((e.2.net.node dn).kind == "__fork__") = false := hnf
                  rw [this]
                rw [this]
                exact (mem_keys cur _).mpr ⟨_, hlt, rfl⟩
            rcases hkeys k' hin with h1 | ⟨d', hd', h2, h3⟩
            · exact hn2 k' h1 k' (List.mem_flatMap.mpr ⟨d, List.mem_range.mpr hd, hk'⟩) rfl
            · have hne : d ≠ d' := by
                intro e0
                subst e0
                exact h2 (by rw [hdk]; exact List.mem_cons_self)
              exact hn4 d d' hd hd' hne k' hk' h3
        have hcf : (cur.net.node (cur.lookup key)).isFork = false := by rw [sj.isFork]; exact hi2
        have hinst : instHypB cur (cur.lookup key) e.2 = true := by
          simp only [instHypB, Bool.and_eq_true, Bool.not_eq_true']
          exact ⟨⟨⟨⟨hio, hcf⟩, noSelfIgnB_of_sim e.2 sj hi3⟩, hfresh⟩, arityOKB_of_sim e.2 sj hi2 hi4⟩
        have hyp : substSomeHypB cur (cur.lookup key) e.2 = true := by
          simp only [instHypB, Bool.and_eq_true, Bool.not_eq_true'] at hinst
          simp only [substSomeHypB, Bool.and_eq_true, decide_eq_true_eq, Bool.not_eq_true']
          exact ⟨⟨⟨⟨⟨⟨⟨⟨⟨⟨hw, hf⟩, hm.1.1.1.1⟩, hlt⟩, hio⟩, hcf⟩, hm.1.1.1.2⟩, hm.1.1.2⟩, hinst.1.1.2⟩, hinst.1.2⟩, hinst.2⟩
        obtain ⟨nxt, hsome, w', f'⟩ := substitute_some_inv cur e.2 _ hyp
        simp only [Bool.and_eq_true]
        refine ⟨hinst, ?_⟩
        rw [hsome]
        dsimp only
        have fr := hframe cur _ e.2 nxt hyp hsome
        refine static_resolveInst lib h0 hl hst0 hframe rest nxt w' f' hndr (fun k hk => hk0 k (List.mem_cons_of_mem _ hk)) ?_ ?_
        · -- surviving originals
          intro k hk d2 hd2 hdk2
          obtain ⟨j2, hj2, s2⟩ := hsimr k hk d2 hd2 hdk2
          have hne : j2 ≠ cur.lookup key := by
            intro e0
            have h1 := s2.key
            rw [e0, key_lookup cur key hlt, hdk2] at h1
            rw [h1] at hkr
            exact hkr hk
          obtain ⟨j', hj', s'⟩ := fr j2 hj2 hne
          exact ⟨j', hj', s2.trans s'⟩
        · -- keys of the result
          have har : ∀ sh', implShape e.2 = some sh' →
              (cur.net.node (cur.lookup key)).ins.length ≤ sh'.inPorts.length ∧
              (cur.net.node (cur.lookup key)).outs.length ≤ sh'.outLines.length := fun sh' hs' => by
            have h11 := (by simpa only [instHypB, Bool.and_eq_true] using hinst : _ ∧ arityOKB cur (cur.lookup key) e.2 = true).2
            simp only [arityOKB, hs', Bool.and_eq_true, decide_eq_true_eq] at h11
            exact h11
          simp only [instHypB, Bool.and_eq_true, Bool.not_eq_true'] at hinst
          obtain ⟨sh', hs', hkn⟩ := substitute_kindNames_mem cur e.2 nxt _ wm (FD_of_forksDenseB hf) (WF.of_wf hm.1.1.1.1) hlt
            (by simpa using hio) hcf hm.1.1.1.2 hm.1.1.2 hinst.1.1.2 hinst.1.2 har hsome
          rw [hs] at hs'
          cases hs'
          intro k' hk'
          rw [keys_eq_kindNames, List.mem_map] at hk'
          obtain ⟨kn, hkn', rfl⟩ := hk'
          rcases hkn kn hkn' with h1 | ⟨dn, hdn, rfl⟩ | h1
          · exact hkeysr _ (by rw [keys_eq_kindNames]; exact List.mem_map_of_mem h1)
          · have hnp := implShape_des_notPort e.2 (WF.of_wf hm.1.1.1.1) sh dn hs hdn k3
            have hnf := (implShape_des e.2 (WF.of_wf hm.1.1.1.1) sh dn hs hdn).2 hnp
            have : keyOfKN ((e.2.net.node dn).kind, cur.names.getD (cur.lookup key) "") = cur.key (cur.lookup key) := by
              simp only [keyOfKN, NNet.key, hcf]
              have : ((e.2.net.node dn).kind == "__fork__") = false := hnf
              rw [this]
            rw [this]
            exact hkeysr _ ((mem_keys cur _).mpr ⟨_, hlt, rfl⟩)
          · refine Or.inr ⟨d, hd, by rw [hdk]; exact hkr, ?_⟩
            rw [hadd]
            exact List.mem_map_of_mem h1
      · exact skip
    · exact skip

/-! ### `StepFrame` is a theorem -/
/-- `StepFrame` from the general certificate `SubstG` (kind, name, port status, input pins, `lineDrvHost`: a line driven by a surviving
    host node was driven by it before) and the pin-list lengths `LenFrame` -/
theorem stepFrame_of_substG {α : Type _} {z : α} {neg : α → α} {prim : String → α → α → α → α → α} {h m h' : NNet} {c : Nat}
    {sh : Shape} {map : Array (Option Nat)} {R : Ren} (g : SubstG z neg prim h c m sh map h' R) (hlen : LenFrame h c h') :
    StepFrame h c h' := by
  intro d hd hdc
  obtain ⟨j', hj', hR⟩ := g.hostSurj d hd hdc
  obtain ⟨hk, hn, hp⟩ := g.hostNode j' hj' (by rw [hR]; exact hd) (by rw [hR]; exact hdc)
  rw [hR] at hk hn hp
  have hkey : h'.key j' = h.key d := by simp only [NNet.key, hn, NodeD.isFork, hk]
  obtain ⟨l1, l2⟩ := hlen d j' hd hdc hj' hkey
  refine ⟨j', hj', hk, hn, ?_, l1, l2, ?_⟩
  · -- port status
    have hiff : j' ∈ h'.net.io ↔ d ∈ h.net.io := by
      rw [← g.io, List.mem_map]
      constructor
      · intro hm; exact ⟨j', hm, hR⟩
      · rintro ⟨j0, h0, e0⟩
        have := g.nodeInj j0 j' (g.wf'.io j0 h0) hj' (e0.trans hR.symm)
        rw [← this]; exact h0
    rw [Bool.eq_iff_iff, List.contains_iff_mem, List.contains_iff_mem]
    exact hiff
  · -- a pin driven by the node itself
    intro p l' h1 h2
    obtain ⟨hl', _, _⟩ := g.wf'.fwdIn j' hj' p l' h1
    have hRd : R.node (h'.net.line l').driver = d := by rw [h2]; exact hR
    obtain ⟨hlt, hne⟩ := g.lineDrvHost l' hl' (by rw [hRd]; exact hd) (by rw [hRd]; exact hdc)
    have hdrv := (g.hostDrv l' hl' hlt hne).1
    have hpin := hp p
    simp only [NodeD.inPin] at hpin
    rw [h1] at hpin
    exact ⟨R.line l', hpin.symm, by rw [← hdrv, hRd]⟩

/-- **one substitution keeps every host node other than the cell** (kind, name, port status, pin-list lengths, self-driven pins) -/
theorem substitute_stepFrame (h m h' : NNet) (c : Nat) (hyp : substSomeHypB h c m = true) (he : substitute h c m = some h') :
    StepFrame h c h' := by
  simp only [substSomeHypB, Bool.and_eq_true, decide_eq_true_eq, Bool.not_eq_true'] at hyp
  obtain ⟨⟨⟨⟨⟨⟨⟨⟨⟨⟨h1, h2⟩, h3⟩, h4⟩, h5⟩, h6⟩, h7⟩, h8⟩, h9⟩, h10⟩, h11⟩ := hyp
  have har : ∀ sh, implShape m = some sh →
      (h.net.node c).ins.length ≤ sh.inPorts.length ∧ (h.net.node c).outs.length ≤ sh.outLines.length := fun sh hs => by
    simp only [arityOKB, hs, Bool.and_eq_true, decide_eq_true_eq] at h11
    exact h11
  have hlen := substitute_lenFrame h m h' c (WFm.of_wfNoTrail h1) (FD_of_forksDenseB h2) (WF.of_wf h3) h4 (by simpa using h5) h6 h7 h8
    h9 h10 har he
  obtain ⟨sh, map, R, _, g⟩ := substitute_general false (!·) (fun _ _ _ _ _ => false) h m h' c (WFm.of_wfNoTrail h1) (WF.of_wf h3) h4
    (by simpa using h5) h6 h7 h9 he
  exact stepFrame_of_substG g hlen

/-- **static hypothesis ⇒ `resolveInstB`** for the whole key list of the original circuit -/
theorem resolveInstB_of_static (lib : Lib) (h0 : NNet) (hl : libOKB lib = true) (hw : h0.wfNoTrail = true)
    (hf : forksDenseB h0.net = true) (hst : resolveStaticB lib h0 = true) : resolveInstB lib h0.keys h0 = true := by
  have wm := WFm.of_wfNoTrail hw
  exact static_resolveInst lib h0 hl hst (fun cur c m nxt hyp he => substitute_stepFrame cur m nxt c hyp he) h0.keys h0 hw hf wm.nodup
    (fun k hk => hk) (fun k _ d hd _ => ⟨d, hd, NSim.refl h0 d⟩) (fun k' hk' => Or.inl hk')

end KV.Transform
