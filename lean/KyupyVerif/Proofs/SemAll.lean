import KyupyVerif.Proofs.SemChk
import KyupyVerif.Proofs.Sem8_0
import KyupyVerif.Proofs.Sem8_1
import KyupyVerif.Proofs.Sem8_2
import KyupyVerif.Proofs.Sem8_3
import KyupyVerif.Proofs.Sem8_4
import KyupyVerif.Proofs.Sem8_5
import KyupyVerif.Proofs.Sem8_6

namespace KV

theorem prims_len : Gen.prims.length ≤ 35 := by decide +kernel

theorem sem8_all : Gen.prims.all chkSem8 = true :=
  all_of_slices _ _ prims_len sem8_slice0 sem8_slice1 sem8_slice2 sem8_slice3 sem8_slice4 sem8_slice5 sem8_slice6

theorem sem4_all : Gen.prims.all chkSem4 = true := by decide +kernel

theorem sem2n_all : Gen.prims.all (chkSem2 Gen.sem2n) = true := by decide +kernel
theorem sem2p_all : Gen.prims.all (chkSem2 Gen.sem2p) = true := by decide +kernel
theorem sem2c_all : Gen.prims.all (chkSem2 Gen.sem2c) = true := by decide +kernel

/-- every primitive name the specification knows is present in `sim.names`, and vice versa -/
theorem prims_names : (Gen.prims.map (·.1)).all (primNames.contains ·) = true ∧
    primNames.all ((Gen.prims.map (·.1)).contains ·) = true := by decide +kernel

theorem sem8_eq_comp {name : String} {code : Nat} (h : (name, code) ∈ Gen.prims) :
    ∃ f, comp8 name = some f ∧ ∀ a b c d : V3,
      (Gen.sem8 code (.ofV3 a) (.ofV3 b) (.ofV3 c) (.ofV3 d)).toV3 = f a b c d := by
  have := List.all_eq_true.mp sem8_all _ h
  unfold chkSem8 at this
  split at this
  · exact absurd this (by simp)
  · rename_i f hf; exact ⟨f, hf, agree8_sound this⟩

theorem sem4_eq_comp {name : String} {code : Nat} (h : (name, code) ∈ Gen.prims) :
    ∃ f, comp4 name = some f ∧ ∀ a b c d : V2,
      (Gen.sem4 code (.ofV2 a) (.ofV2 b) (.ofV2 c) (.ofV2 d)).toV2 = f a b c d := by
  have := List.all_eq_true.mp sem4_all _ h
  unfold chkSem4 at this
  split at this
  · exact absurd this (by simp)
  · rename_i f hf; exact ⟨f, hf, agree4_sound this⟩

theorem sem2_eq {sem} (hall : Gen.prims.all (chkSem2 sem) = true) {name : String} {code : Nat}
    (h : (name, code) ∈ Gen.prims) (a b c d : Bool) :
    sem code a b c d = lutBit4 code a b c d ∧ formula name a b c d = some (sem code a b c d) := by
  have := List.all_eq_true.mp hall _ h
  exact chk2_sound (e := (name, code, sem code)) this a b c d

end KV
