import KyupyVerif.Model.SdfCirc
import KyupyVerif.Proofs.Transform
/-! Declarative specification of the look-ups of `DelayFile.iopaths` / `.interconnects` (Model/SdfCirc.lean) on a
well-formed circuit dump (`KV.Transform.WF`, the decidable `NNet.wf` of C10). -/
namespace KV.Sdf
open KV KV.Transform

theorem cellOf_some {C : NNet} {name : String} {i : Nat} (h : cellOf C name = some i) :
    i < C.net.nodes.size ∧ C.key i = (name, false) := by
  unfold cellOf at h
  simp only at h
  split at h
  · rename_i hlt
    cases h
    refine ⟨hlt, ?_⟩
    unfold NNet.lookup at hlt ⊢
    have hlen : C.keys.length = C.net.nodes.size := by simp [NNet.keys]
    have hl : C.keys.idxOf (name, false) < C.keys.length := by omega
    have := List.getElem_idxOf hl
    simp only [NNet.keys, List.getElem_map, List.getElem_range] at this
    exact this
  · cases h

/-- the node found under a name is a cell (not a fork) carrying that name -/
theorem cellOf_spec {C : NNet} {name : String} {i : Nat} (h : cellOf C name = some i) :
    i < C.net.nodes.size ∧ C.names.getD i "" = name ∧ (C.net.node i).isFork = false := by
  obtain ⟨h1, h2⟩ := cellOf_some h
  simp only [NNet.key, Prod.mk.injEq] at h2
  exact ⟨h1, h2.1, h2.2⟩

/-- … and it is the only one (names of cells are unique in a well-formed dump) -/
theorem cellOf_complete {C : NNet} (hwf : WF C) {name : String} {i : Nat} (hi : i < C.net.nodes.size)
    (hn : C.names.getD i "" = name) (hf : (C.net.node i).isFork = false) : cellOf C name = some i := by
  unfold cellOf NNet.lookup
  have hlen : C.keys.length = C.net.nodes.size := by simp [NNet.keys]
  have hk : C.keys[i]'(by omega) = (name, false) := by
    simp [NNet.keys, NNet.key, hn, hf]
  have := idxOf_getElem_nodup C.keys i (by omega) hwf.nodup
  rw [hk] at this
  simp [this, hi]

/-- **IOPATH look-up, specification.**  On a well-formed dump the look-up answers line `l` exactly when `l` is THE line whose
reader is the cell of that name and whose reader pin is `tlib.pin_index(kind, pin)`. -/
theorem pinLook_line_iff (C : NNet) (hwf : WF C) (tl : PinIdx) (name pin : String) (l : Nat) :
    pinLook C tl name pin = .line l ↔
      ∃ i idx, cellOf C name = some i ∧ tl (C.net.node i).kind pin = some idx ∧
        l < C.net.lines.size ∧ (C.net.line l).reader = i ∧ (C.net.line l).rpin = idx := by
  unfold pinLook
  constructor
  · intro h
    split at h
    · cases h
    · rename_i i hc
      split at h
      · cases h
      · rename_i idx ht
        split at h
        · split at h
          · rename_i l' hl
            cases h
            obtain ⟨h1, h2, h3⟩ := hwf.fwdIn i (cellOf_some hc).1 idx l hl
            exact ⟨i, idx, hc, ht, h1, h2, h3⟩
          · cases h
        · cases h
  · rintro ⟨i, idx, hc, ht, hl, hr, hp⟩
    have hb := (hwf.back l hl).2.2.2
    rw [hr, hp] at hb
    have hlt : idx < (C.net.node i).ins.length := getD_some_lt hb
    simp only [hc, ht, hlt, if_true, NodeD.inPin, hb]

/-- the look-up warns (skips the entry) exactly when the cell is not in the circuit or the pin exists and is open -/
theorem pinLook_skip_iff (C : NNet) (tl : PinIdx) (name pin : String) :
    pinLook C tl name pin = .skip ↔
      cellOf C name = none ∨ ∃ i idx, cellOf C name = some i ∧ tl (C.net.node i).kind pin = some idx ∧
        idx < (C.net.node i).ins.length ∧ (C.net.node i).inPin idx = none := by
  unfold pinLook
  cases hc : cellOf C name with
  | none => simp
  | some i =>
    cases ht : tl (C.net.node i).kind pin with
    | none => simp [ht]
    | some idx =>
      by_cases hlt : idx < (C.net.node i).ins.length
      · cases hp : (C.net.node i).inPin idx <;> simp [ht, hlt, hp]
      · simp [ht, hlt]

/-- **INTERCONNECT look-up, specification** (soundness).  When the look-up answers line `l` on a well-formed dump, then with
`lo` = the line leaving output pin `p1` of cell `c1` and `li` = the line entering input pin `p2` of cell `c2`:
the reader `f1` of `lo` and the driver `f2` of `li` are forks, `f2` has exactly one reader, `l` is the line that enters pin 0
of `f2`, and either `f1 = f2` (sole line: the signal fork itself feeds `c2`, no fan-out) or `f1 ≠ f2` and `l` is driven by `f1`
(`f2` is a branch fork of the signal fork `f1`). -/
theorem icLook_line_spec (C : NNet) (hwf : WF C) (tl : PinIdx) (c1 : String) (p1 : Option String) (c2 : String)
    (p2 : Option String) (l : Nat) (h : icLook C tl c1 p1 c2 p2 = .line l) :
    ∃ i1 i2 q1 q2 lo li, cellOf C c1 = some i1 ∧ cellOf C c2 = some i2 ∧
      endPin tl (C.net.node i1).kind p1 = some q1 ∧ endPin tl (C.net.node i2).kind p2 = some q2 ∧
      (C.net.node i1).outPin q1 = some lo ∧ (C.net.node i2).inPin q2 = some li ∧
      (C.net.node (C.net.line lo).reader).isFork = true ∧ (C.net.node (C.net.line li).driver).isFork = true ∧
      (C.net.node (C.net.line li).driver).outs.length = 1 ∧
      l < C.net.lines.size ∧ (C.net.line l).reader = (C.net.line li).driver ∧ (C.net.line l).rpin = 0 ∧
      ((C.net.line lo).reader = (C.net.line li).driver ∨
       ((C.net.line lo).reader ≠ (C.net.line li).driver ∧ (C.net.line l).driver = (C.net.line lo).reader)) := by
  have hfin : ∀ {n : NodeD} {l : Nat}, forkIn n = some l → n.ins.getD 0 none = some l := by
    intro n l hf
    unfold forkIn at hf
    split at hf
    · rename_i l' _ hins; cases hf; simp [hins]
    · cases hf
  unfold icLook at h
  split at h
  · rename_i i1 i2 hc1 hc2
    split at h
    · rename_i q1 q2 hq1 hq2
      split at h
      · cases h
      · rename_i lo hlo
        split at h
        · cases h
        · rename_i li hli
          simp only at h
          have hi1 := (cellOf_some hc1).1
          have hi2 := (cellOf_some hc2).1
          have hlo' := hwf.fwdOut i1 hi1 q1 lo hlo
          have hli' := hwf.fwdIn i2 hi2 q2 li hli
          have hf1 := (hwf.back lo hlo'.1).2.1
          have hf2 := (hwf.back li hli'.1).1
          split at h
          · cases h
          · rename_i hfk
            simp only [Bool.not_eq_true, Bool.not_eq_false', Bool.and_eq_true] at hfk
            split at h
            · rename_i hne
              split at h
              · rename_i l' hf
                split at h
                · rename_i hcond
                  cases h
                  simp only [Bool.and_eq_true, beq_iff_eq] at hcond
                  have hd := hwf.fwdOut (C.net.line lo).reader hf1 _ l hcond.2
                  have hl := hwf.fwdIn _ hf2 0 l (hfin hf)
                  refine ⟨i1, i2, q1, q2, lo, li, hc1, hc2, hq1, hq2, hlo, hli, hfk.1, hfk.2, hcond.1, hl.1, hl.2.1, hl.2.2,
                    Or.inr ⟨?_, hd.2.1⟩⟩
                  simpa using hne
                · cases h
              · cases h
            · rename_i heq
              simp only [bne_iff_ne, ne_eq, Decidable.not_not] at heq
              split at h
              · rename_i hone
                split at h
                · rename_i l' hf
                  cases h
                  simp only [beq_iff_eq] at hone
                  have hl := hwf.fwdIn _ hf2 0 l (hfin hf)
                  exact ⟨i1, i2, q1, q2, lo, li, hc1, hc2, hq1, hq2, hlo, hli, hfk.1, hfk.2, hone, hl.1, hl.2.1, hl.2.2, Or.inl heq⟩
                · cases h
              · cases h
    · cases h
  · cases h

/-- … in the sole-line case `l` is the very line that leaves `c1` when that line enters the fork at pin 0 (a fork has one
input: `lo` is `f.ins[0]`) -/
theorem icLook_sole_line (C : NNet) (hwf : WF C) (l lo : Nat) (hl : l < C.net.lines.size) (hlo : lo < C.net.lines.size)
    (hr : (C.net.line l).reader = (C.net.line lo).reader) (hp : (C.net.line l).rpin = 0) (hp' : (C.net.line lo).rpin = 0) :
    l = lo := by
  have h1 := (hwf.back l hl).2.2.2
  have h2 := (hwf.back lo hlo).2.2.2
  rw [hr, hp] at h1
  rw [hp'] at h2
  rw [h1] at h2
  exact Option.some.inj h2

end KV.Sdf
