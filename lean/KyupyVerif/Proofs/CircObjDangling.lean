import KyupyVerif.Proofs.CircObjSInvRemove
/-! C09: `remove_dangling_nodes` preserves `WFc0` and gap-freeness of fork outputs (hence `WFc`). -/
namespace KV.CircObj

/-! ## loops -/
theorem foldO_inv {σ α : Type} (f : σ → α → Option σ) (Inv : σ → List α → Prop)
    (step : ∀ s a rest s', Inv s (a :: rest) → f s a = some s' → Inv s' rest) :
    ∀ (as : List α) (s s' : σ), Inv s as → foldO f s as = some s' → Inv s' [] := by
  intro as
  induction as with
  | nil => intro s s' h e; simp only [foldO, Option.some.injEq] at e; exact e ▸ h
  | cons a rest ih =>
    intro s s' h e
    simp only [foldO] at e
    cases hf : f s a with
    | none => simp [hf] at e
    | some s1 => simp only [hf] at e; exact ih s1 s' (step s a rest s1 h hf) e

/-- the same with a guard that is known to hold before every iteration -/
theorem foldO_inv_guard {σ α : Type} (f : σ → α → Option σ) (g : σ → α → Bool) (Inv : σ → List α → Prop)
    (step : ∀ s a rest s', Inv s (a :: rest) → g s a = true → f s a = some s' → Inv s' rest) :
    ∀ (as : List α) (s s' : σ), Inv s as → foldG f g s as = true → foldO f s as = some s' → Inv s' [] := by
  intro as
  induction as with
  | nil => intro s s' h _ e; simp only [foldO, Option.some.injEq] at e; exact e ▸ h
  | cons a rest ih =>
    intro s s' h hg e
    simp only [foldO] at e
    simp only [foldG, Bool.and_eq_true] at hg
    cases hf : f s a with
    | none => simp [hf] at e
    | some s1 =>
      simp only [hf] at e hg
      exact ih s1 s' (step s a rest s1 h hg.1 hf) hg.2 e

/-! ## pin lists -/
theorem pin_eq_getElem? (l : Pins) (p : Nat) : pin l p = (l[p]?).join := by
  unfold pin
  rw [List.getD_eq_getElem?_getD]
  cases h : l[p]? <;> simp

theorem mem_filterMap_pin {L : Pins} {x : Nat} : x ∈ L.filterMap id ↔ ∃ p, pin L p = some x := by
  simp only [List.mem_filterMap, id]
  constructor
  · rintro ⟨a, ha, rfl⟩
    obtain ⟨p, hp, hpe⟩ := List.mem_iff_getElem.1 ha
    exact ⟨p, by rw [pin_eq_getElem?, List.getElem?_eq_getElem hp, hpe]; rfl⟩
  · rintro ⟨p, hp⟩
    have hlt := pin_eq_some_lt hp
    rw [pin_eq_getElem?, List.getElem?_eq_getElem hlt] at hp
    exact ⟨L[p], List.getElem_mem hlt, by simpa using hp⟩

theorem filterMap_pin_nodup {L : Pins} (hinj : ∀ p q y, pin L p = some y → pin L q = some y → p = q) :
    (L.filterMap id).Nodup := by
  induction L with
  | nil => simp
  | cons a L ih =>
    have hinj' : ∀ p q y, pin L p = some y → pin L q = some y → p = q := fun p q y h1 h2 => by
      have := hinj (p + 1) (q + 1) y (by simpa using h1) (by simpa using h2); omega
    cases a with
    | none => simpa using ih hinj'
    | some x =>
      simp only [List.filterMap_cons, id]
      refine List.nodup_cons.2 ⟨?_, ih hinj'⟩
      intro hx
      obtain ⟨p, hp⟩ := mem_filterMap_pin.1 hx
      have := hinj 0 (p + 1) x (by simp) (by simpa using hp)
      omega

theorem pin_none_of_any {L : Pins} (h : L.any (·.isSome) = false) (p : Nat) : pin L p = none := by
  cases hp : pin L p with
  | none => rfl
  | some x =>
    have hlt := pin_eq_some_lt hp
    rw [pin_eq_getElem?, List.getElem?_eq_getElem hlt] at hp
    have : L.any (·.isSome) = true := List.any_eq_true.2 ⟨L[p], List.getElem_mem hlt, by
      have : L[p] = some x := by simpa using hp
      simp [this]⟩
    simp [this] at h

/-! ## gap-freeness of fork outputs -/
def FFull (c : Circ) : Prop := ∀ i ∈ c.nodes, (c.nobj i).kind = FORK → none ∉ (c.nobj i).outs

theorem wfc_iff {c : Circ} : WFc c ↔ WFc0 c ∧ FFull c :=
  ⟨fun wf => ⟨wf.toWFc0, wf.forkFull⟩, fun h => ⟨h.1, h.2⟩⟩

theorem removeLine_ffull {c : Circ} {PI PO} {l : Nat} (s : SInv c PI PO) (hl : l ∈ c.lines) (hPO : ¬ PO l) (ff : FFull c) :
    FFull (removeLine c l) := by
  obtain ⟨d, hdrv, hd, hdpin⟩ := s.ldrv l hl hPO
  have ha := (s.lfresh l hl).2
  have hn := removeLine_nobj' hdrv ha
  have hnodes : (removeLine c l).nodes = c.nodes := (removeLine_frame c l).1
  intro j hj hk'
  rw [hnodes] at hj
  rw [(hn j).2.1] at hk'
  rw [(hn j).2.2.2.2.1]
  split
  · rename_i hjd; subst hjd
    have := ff j hj hk'
    have hlt := pin_eq_some_lt hdpin
    unfold outsAfter
    simp only [hk', if_true, pin_set_lt hlt, List.eraseIdx_set_eq]
    exact fun h => this ((List.eraseIdx_sublist _ _).subset h)
  · exact ff j hj hk'

theorem removeNode_ffull {c : Circ} {i : Nat} (wf : WFc0 c) (hi : i ∈ c.nodes) (ff : FFull c) : FFull (removeNode c i) := by
  have ha := (wf.nfresh i hi).2
  have hn := removeNode_nobj ha
  obtain ⟨hk, hki⟩ := (SInv.of_wfc0 wf).node_at hi
  have spec := idxDel_spec c.nodes (fun j => (c.nobj j).index) wf.nidx (c.nobj i).index hk
  rw [hki] at spec
  intro j hj hk'
  have hj1 : j ∈ c.nodes := by
    have : j ∈ (idxDel c.nodes (c.nobj i).index).1 := by rw [removeNode_eq ha] at hj; exact hj
    exact (spec.2.1 j |>.1 this).1
  rw [(hn j).2.1] at hk'
  rw [(hn j).2.2.2.1]; exact ff j hj1 hk'

/-! ## `root_node.remove(); for l in lines: l.remove()` -/
theorem removeNode_mem_wfc0 {c : Circ} {i : Nat} (wf : WFc0 c) (hi : i ∈ c.nodes) (j : Nat) :
    j ∈ (removeNode c i).nodes ↔ j ∈ c.nodes ∧ j ≠ i := by
  have ha := (wf.nfresh i hi).2
  obtain ⟨hk, hki⟩ := (SInv.of_wfc0 wf).node_at hi
  have spec := idxDel_spec c.nodes (fun j => (c.nobj j).index) wf.nidx (c.nobj i).index hk
  rw [hki] at spec
  rw [removeNode_eq ha]; exact spec.2.1 j

theorem removeNode_dead {c : Circ} {i : Nat} (h : (c.nobj i).alive = false) : removeNode c i = c := by
  unfold removeNode; simp [h]

theorem removeLineChk_some {c c' : Circ} {l : Nat} (h : removeLineChk c l = some c') : c' = removeLine c l := by
  unfold removeLineChk at h
  split at h
  · cases h
  · exact (Option.some.inj h).symm

/-- state while the input lines of the removed node `root` are removed one by one; `rest` = the lines still to go -/
structure RmInv (root : Nat) (dead : Nat → Prop) (c0 : Circ) (c : Circ) (rest : List Nat) : Prop where
  s : SInv c (fun x => x ∈ rest) NoLine
  nodup : rest.Nodup
  nodes : c.nodes = c0.nodes
  io : c.io = c0.io
  rootOut : root ∉ c.nodes
  rdr : ∀ x ∈ rest, (c.lobj x).reader = some root
  rpins : ∀ p x, pin (c.nobj root).ins p = some x → x ∈ rest ∧ (c.lobj x).readerPin = p
  alive : ∀ j, (c.nobj j).alive = (c0.nobj j).alive
  kinds : ∀ j, (c.nobj j).kind = (c0.nobj j).kind ∧ (c.nobj j).name = (c0.nobj j).name
  others : ∀ j, dead j → j ≠ root → (c.nobj j).ins = (c0.nobj j).ins
  ff : FFull c0 → FFull c

theorem rmInv_step {root : Nat} {dead : Nat → Prop} {c0 c c' : Circ} {l : Nat} {rest : List Nat}
    (inv : RmInv root dead c0 c (l :: rest)) (h : removeLineChk c l = some c') : RmInv root dead c0 c' rest := by
  have hc' := removeLineChk_some h
  subst hc'
  have hnd := List.nodup_cons.1 inv.nodup
  obtain ⟨hlm, hlu⟩ := inv.s.piOk l (by simp)
  have hPO : ¬ NoLine l := fun h => h
  obtain ⟨d, hdrv, hd, hdpin⟩ := inv.s.ldrv l hlm hPO
  have ha := (inv.s.lfresh l hlm).2
  have hn := removeLine_nobj' hdrv ha
  have hL := removeLine_lobj' hdrv ha
  have hr := inv.rdr l (by simp)
  have fr := removeLine_frame c l
  have s' := removeLine_sinv inv.s hlm hPO (by
    intro r hr' hrm
    rw [hr] at hr'; cases hr'
    exact absurd hrm inv.rootOut)
  refine ⟨?_, hnd.2, ?_, ?_, ?_, ?_, ?_, ?_, ?_, ?_, ?_⟩
  · refine s'.congr_pred ?_ (fun _ => Iff.rfl)
    intro x
    constructor
    · intro hx; exact ⟨by simp [hx], fun e => hnd.1 (e ▸ hx)⟩
    · rintro ⟨hx, hne⟩
      simp only [List.mem_cons] at hx
      rcases hx with hx | hx
      · exact absurd hx hne
      · exact hx
  · rw [fr.1]; exact inv.nodes
  · rw [fr.2.1]; exact inv.io
  · rw [fr.1]; exact inv.rootOut
  · intro x hx
    have hxl : x ≠ l := fun e => hnd.1 (e ▸ hx)
    rw [(hL x hxl).2.1]; exact inv.rdr x (by simp [hx])
  · intro p x hp
    rw [(hn root).2.2.2.2.2] at hp
    simp only [hr, if_true, pin_growSet] at hp
    split at hp
    · cases hp
    · rename_i hpp
      obtain ⟨h1, h2⟩ := inv.rpins p x hp
      have hxl : x ≠ l := by
        intro e; subst e
        -- the pin of `l` itself is the one that was cleared
        exact hpp h2.symm
      simp only [List.mem_cons] at h1
      rcases h1 with h1 | h1
      · exact absurd h1 hxl
      · exact ⟨h1, by rw [(hL x hxl).2.2.1]; exact h2⟩
  · intro j; rw [(hn j).2.2.2.1]; exact inv.alive j
  · intro j; rw [(hn j).2.1, (hn j).1]; exact inv.kinds j
  · intro j hj hjr
    rw [(hn j).2.2.2.2.2]
    have : (c.lobj l).reader ≠ some j := by rw [hr]; intro e; exact hjr (Option.some.inj e).symm
    simp only [this, if_false]
    exact inv.others j hj hjr
  · intro ff0
    exact removeLine_ffull inv.s hlm hPO (inv.ff ff0)

/-- the effect of one removing visit of `remove_dangling_nodes` on a well-formed circuit -/
theorem rdRemove_spec {c c' : Circ} {root : Nat} (wf : WFc0 c) (hi : root ∈ c.nodes) (hio : root ∉ c.io)
    (houts : ∀ p, pin (c.nobj root).outs p = none) (h : rdRemove c root = some c') :
    WFc0 c' ∧ (FFull c → FFull c') ∧ (∀ j, j ∈ c'.nodes ↔ j ∈ c.nodes ∧ j ≠ root) ∧ c'.io = c.io ∧
    (c'.nobj root).alive = false ∧ (∀ p, pin (c'.nobj root).ins p = none) ∧
    (∀ j, j ≠ root → (c'.nobj j).alive = (c.nobj j).alive) ∧
    (∀ j, j ∉ c.nodes → (c'.nobj j).ins = (c.nobj j).ins) ∧
    (∀ j, j ≠ root → ((c'.nobj j).kind = (c.nobj j).kind ∧ (c'.nobj j).name = (c.nobj j).name)) := by
  have ha := (wf.nfresh root hi).2
  have hn1 := removeNode_nobj ha
  have hmem1 := removeNode_mem_wfc0 wf hi
  have s1 := removeNode_sinv wf hi hio
  have hlobj1 : (removeNode c root).lobj = c.lobj := removeNode_lobj' c root
  have hio1 : (removeNode c root).io = c.io := by rw [removeNode_eq ha]
  have hinj : ∀ p q y, pin (c.nobj root).ins p = some y → pin (c.nobj root).ins q = some y → p = q := by
    intro p q y h1 h2
    have a := (wf.insBack root hi p y h1).2.2
    have b := (wf.insBack root hi q y h2).2.2
    omega
  have inv0 : RmInv root (fun j => j ∉ c.nodes) (removeNode c root) (removeNode c root) (inLines c root) := by
    refine ⟨?_, filterMap_pin_nodup hinj, rfl, rfl, ?_, ?_, ?_, fun _ => rfl, fun _ => ⟨rfl, rfl⟩, fun _ _ _ => rfl, fun h => h⟩
    · refine s1.congr_pred ?_ ?_
      · intro x; exact mem_filterMap_pin
      · intro x; constructor
        · intro h; exact h.elim
        · rintro ⟨p, hp⟩; rw [houts p] at hp; cases hp
    · intro h; exact ((hmem1 root).1 h).2 rfl
    · intro x hx
      obtain ⟨p, hp⟩ := mem_filterMap_pin.1 hx
      rw [hlobj1]; exact (wf.insBack root hi p x hp).2.1
    · intro p x hp
      rw [(hn1 root).2.2.1] at hp
      exact ⟨mem_filterMap_pin.2 ⟨p, hp⟩, by rw [hlobj1]; exact (wf.insBack root hi p x hp).2.2⟩
  have fin := foldO_inv removeLineChk (fun cc rest => RmInv root (fun j => j ∉ c.nodes) (removeNode c root) cc rest)
    (fun s a rest s' hinv hf => rmInv_step hinv hf) (inLines c root) (removeNode c root) c' inv0 h
  refine ⟨fin.s.to_wfc0 (fun _ _ h => by simp at h) (fun _ _ h => h), ?_, ?_, ?_, ?_, ?_, ?_, ?_, ?_⟩
  · intro ff; exact fin.ff (removeNode_ffull wf hi ff)
  · intro j; rw [fin.nodes]; exact hmem1 j
  · rw [fin.io, hio1]
  · rw [fin.alive]; rw [removeNode_eq ha]; simp
  · intro p
    cases hp : pin (c'.nobj root).ins p with
    | none => rfl
    | some x => exact absurd (fin.rpins p x hp).1 (by simp)
  · intro j hj; rw [fin.alive, (hn1 j).2.2.2.2.2 hj]
  · intro j hj
    have hjr : j ≠ root := fun e => hj (e ▸ hi)
    rw [fin.others j hj hjr, (hn1 j).2.2.1]
  · intro j _; rw [(fin.kinds j).1, (fin.kinds j).2, (hn1 j).2.1, (hn1 j).1]; exact ⟨rfl, rfl⟩

/-! ## the traversal -/
/-- a stack entry is a node of the circuit, or a node that was removed together with its input lines -/
def StackOK (c : Circ) (stack : List (Option Nat)) : Prop :=
  ∀ d, some d ∈ stack → d ∈ c.nodes ∨ ((c.nobj d).alive = false ∧ ∀ p, pin (c.nobj d).ins p = none)

/-- nodes stay in the circuit or are switched off -/
def Keeps (c c' : Circ) : Prop := ∀ j, (j ∈ c.nodes ∨ (c.nobj j).alive = false) → (j ∈ c'.nodes ∨ (c'.nobj j).alive = false)

theorem rdGo_wf0 (only : Option (List Nat)) : ∀ (fuel : Nat) (c : Circ) (stack : List (Option Nat)) (c' : Circ),
    WFc0 c → StackOK c stack → rdGo only fuel c stack = some c' → WFc0 c' ∧ (FFull c → FFull c') ∧ Keeps c c' := by
  intro fuel
  induction fuel with
  | zero =>
    intro c stack c' wf _ h
    cases stack with
    | nil => simp only [rdGo, Option.some.injEq] at h; subst h; exact ⟨wf, id, fun _ h => h⟩
    | cons a rest => simp [rdGo] at h
  | succ fuel ih =>
    intro c stack c' wf hst h
    cases stack with
    | nil => simp only [rdGo, Option.some.injEq] at h; subst h; exact ⟨wf, id, fun _ h => h⟩
    | cons a rest =>
      cases a with
      | none => simp [rdGo] at h
      | some root =>
        simp only [rdGo] at h
        have hrest : StackOK c rest := fun d hd => hst d (by simp [hd])
        split at h
        · rename_i hrem
          simp only [rdRemoves, Bool.and_eq_true, Bool.not_eq_true', List.contains_eq_mem, decide_eq_false_iff_not] at hrem
          obtain ⟨⟨⟨houts, hio⟩, _⟩, _⟩ := hrem
          cases hrm : rdRemove c root with
          | none => simp [hrm] at h
          | some c1 =>
            simp only [hrm] at h
            rcases hst root (by simp) with hin | ⟨hdead, hpins⟩
            · -- the node is removed together with its input lines
              obtain ⟨wf1, ff1, hmem1, hio1, hal1, hins1, halive1, hothers1, _⟩ :=
                rdRemove_spec wf hin hio (pin_none_of_any houts) hrm
              have hst1 : StackOK c1 (((inLines c root).map fun l => (c.lobj l).driver) ++ rest) := by
                intro d hd
                rcases List.mem_append.1 hd with hd | hd
                · obtain ⟨l, hl, hld⟩ := List.mem_map.1 hd
                  obtain ⟨p, hp⟩ := mem_filterMap_pin.1 hl
                  obtain ⟨b1, _, _⟩ := wf.insBack root hin p l hp
                  obtain ⟨d', e1, e2, e3⟩ := wf.ldrv l b1
                  rw [e1] at hld; cases hld
                  have : d ≠ root := by
                    intro e; subst e; rw [pin_none_of_any houts] at e3; cases e3
                  exact Or.inl ((hmem1 d).2 ⟨e2, this⟩)
                · by_cases hdr : d = root
                  · subst hdr; exact Or.inr ⟨hal1, hins1⟩
                  · rcases hrest d hd with h1 | ⟨h1, h2⟩
                    · exact Or.inl ((hmem1 d).2 ⟨h1, hdr⟩)
                    · refine Or.inr ⟨by rw [halive1 d hdr]; exact h1, ?_⟩
                      have hdn : d ∉ c.nodes := fun hm => by
                        have := (wf.nfresh d hm).2; rw [h1] at this; cases this
                      intro p; rw [hothers1 d hdn]; exact h2 p
              obtain ⟨r1, r2, r3⟩ := ih c1 _ c' wf1 hst1 h
              refine ⟨r1, fun ff => r2 (ff1 ff), ?_⟩
              intro j hj
              apply r3
              by_cases hjr : j = root
              · subst hjr; exact Or.inr hal1
              · rcases hj with hj | hj
                · exact Or.inl ((hmem1 j).2 ⟨hj, hjr⟩)
                · exact Or.inr (by rw [halive1 j hjr]; exact hj)
            · -- a node that is already removed: nothing happens
              have hil : inLines c root = [] := by
                unfold inLines
                cases hL : (c.nobj root).ins.filterMap id with
                | nil => rfl
                | cons x xs =>
                  have : x ∈ (c.nobj root).ins.filterMap id := by rw [hL]; simp
                  obtain ⟨p, hp⟩ := mem_filterMap_pin.1 this
                  rw [hpins p] at hp; cases hp
              have : c1 = c := by
                unfold rdRemove at hrm
                rw [hil, removeNode_dead hdead] at hrm
                simp only [foldO, Option.some.injEq] at hrm
                exact hrm.symm
              subst this
              rw [hil] at h
              exact ih c1 _ c' wf hrest h
        · exact ih c _ c' wf hrest h

theorem removeDanglingFrom_wf0 {only : Option (List Nat)} {c c' : Circ} {root : Nat} (wf : WFc0 c)
    (hroot : root ∈ c.nodes ∨ (c.nobj root).alive = false ∧ ∀ p, pin (c.nobj root).ins p = none)
    (h : removeDanglingFrom only c root = some c') : WFc0 c' ∧ (FFull c → FFull c') ∧ Keeps c c' := by
  unfold removeDanglingFrom at h
  refine rdGo_wf0 only _ c _ c' wf ?_ h
  intro d hd
  simp only [List.mem_singleton, Option.some.injEq] at hd
  subst hd; exact hroot

/-- `c.remove_dangling_nodes(root)` for any node of a well-formed circuit -/
theorem removeDanglingObj_wf {c c' : Circ} {root : Nat} (wf : WFc c) (hroot : root ∈ c.nodes)
    (h : removeDanglingObj c root = some c') : WFc c' := by
  obtain ⟨h1, h2, _⟩ := removeDanglingFrom_wf0 wf.toWFc0 (Or.inl hroot) h
  exact ⟨h1, h2 wf.forkFull⟩

end KV.CircObj
