import KyupyVerif.Proofs.CircObjDangling
import KyupyVerif.Proofs.CircObjHistory
/-! C09: `substitute` preserves `WFc0` under `substPre0` (kinds, no self loop, the run-time pin guards), and `WFc` when in
addition the fork outputs of the result are gap-free (`substPre`); `resolve_tlib_cells`; histories with the new operations. -/
namespace KV.CircObj

/-! ## `node_map` -/
theorem nmFind_mem {m : Circ} {nm : NMap} {n v : Nat} (h : nmFind m nm n = some v) : ∃ e ∈ nm, e.2 = v := by
  unfold nmFind at h
  simp only [Option.map_eq_some_iff] at h
  obtain ⟨e, he, rfl⟩ := h
  exact ⟨e, List.mem_of_find?_eq_some he, rfl⟩

theorem nmSet_mem {m : Circ} {nm : NMap} {n v : Nat} {e : Nat × Nat} (h : e ∈ nmSet m nm n v) : e ∈ nm ∨ e.2 = v := by
  unfold nmSet at h
  split at h
  · simp only [List.mem_map] at h
    obtain ⟨e0, he0, rfl⟩ := h
    split
    · exact Or.inr rfl
    · exact Or.inl he0
  · simp only [List.mem_append, List.mem_singleton] at h
    rcases h with h | h
    · exact Or.inl h
    · exact Or.inr (by rw [h])

/-! ## pending lines of a zipped pin list -/
/-- the lines that still wait in the remaining part of `zip(ports, node_lines)` -/
def Pend (rem : List (Nat × Option Nat)) : Nat → Prop := fun l => ∃ pr ∈ rem, pr.2 = some l

theorem pend_nil (l : Nat) : ¬ Pend [] l := by rintro ⟨_, h, _⟩; simp at h

theorem zip_padTo_pend {A : List Nat} {L : Pins} (hlen : L.length ≤ A.length) (l : Nat) :
    Pend (A.zip (padTo L A.length)) l ↔ ∃ p, pin L p = some l := by
  have hl : (padTo L A.length).length = A.length := by simp [padTo]; omega
  constructor
  · rintro ⟨pr, hpr, hl2⟩
    obtain ⟨k, hk, hke⟩ := List.mem_iff_getElem.1 hpr
    simp only [List.length_zip, hl, Nat.min_self] at hk
    have : pr.2 = (padTo L A.length)[k]'(by omega) := by rw [← hke]; simp
    rw [this] at hl2
    unfold padTo at hl2
    by_cases hkl : k < L.length
    · rw [List.getElem_append_left hkl] at hl2
      exact ⟨k, by rw [pin_eq_getElem?, List.getElem?_eq_getElem hkl, hl2]; rfl⟩
    · rw [List.getElem_append_right (by omega)] at hl2
      simp at hl2
  · rintro ⟨p, hp⟩
    have hlt := pin_eq_some_lt hp
    have hpA : p < A.length := by omega
    refine ⟨(A[p], some l), ?_, rfl⟩
    apply List.mem_iff_getElem.2
    refine ⟨p, by simp [hl]; omega, ?_⟩
    simp only [List.getElem_zip, Prod.mk.injEq, true_and]
    unfold padTo
    rw [List.getElem_append_left hlt]
    rw [pin_eq_getElem?, List.getElem?_eq_getElem hlt] at hp
    simpa using hp

/-- the `some` entries of the remaining list are pairwise distinct -/
def PendNodup (rem : List (Nat × Option Nat)) : Prop := (rem.filterMap (·.2)).Nodup

theorem pendNodup_tail {a : Nat × Option Nat} {rem : List (Nat × Option Nat)} (h : PendNodup (a :: rem)) : PendNodup rem := by
  unfold PendNodup at *
  cases ha : a.2 with
  | none => simpa [List.filterMap_cons, ha] using h
  | some x => simp only [List.filterMap_cons, ha] at h; exact (List.nodup_cons.1 h).2

theorem pend_cons_some {inn ll : Nat} {rem : List (Nat × Option Nat)} (h : PendNodup ((inn, some ll) :: rem)) (l : Nat) :
    (Pend ((inn, some ll) :: rem) l ∧ l ≠ ll) ↔ Pend rem l := by
  unfold PendNodup at h
  simp only [List.filterMap_cons] at h
  have hnot : ll ∉ rem.filterMap (·.2) := (List.nodup_cons.1 h).1
  constructor
  · rintro ⟨⟨pr, hpr, hl⟩, hne⟩
    simp only [List.mem_cons] at hpr
    rcases hpr with rfl | hpr
    · simp at hl; exact absurd hl.symm hne
    · exact ⟨pr, hpr, hl⟩
  · rintro ⟨pr, hpr, hl⟩
    refine ⟨⟨pr, by simp [hpr], hl⟩, ?_⟩
    intro e; subst e
    exact hnot (List.mem_filterMap.2 ⟨pr, hpr, hl⟩)

theorem pend_cons_none {inn : Nat} {rem : List (Nat × Option Nat)} (l : Nat) : Pend ((inn, none) :: rem) l ↔ Pend rem l := by
  constructor
  · rintro ⟨pr, hpr, hl⟩
    simp only [List.mem_cons] at hpr
    rcases hpr with rfl | hpr
    · simp at hl
    · exact ⟨pr, hpr, hl⟩
  · rintro ⟨pr, hpr, hl⟩; exact ⟨pr, by simp [hpr], hl⟩

theorem zip_padTo_pendNodup {A : List Nat} {L : Pins} (hlen : L.length ≤ A.length)
    (hinj : ∀ p q y, pin L p = some y → pin L q = some y → p = q) : PendNodup (A.zip (padTo L A.length)) := by
  unfold PendNodup
  have hl : (padTo L A.length).length = A.length := by simp [padTo]; omega
  have e : (A.zip (padTo L A.length)).filterMap (·.2) = (padTo L A.length).filterMap id := by
    have h1 : (A.zip (padTo L A.length)).map (·.2) = padTo L A.length := by
      rw [← List.unzip_snd, List.unzip_zip_right (by omega)]
    have h2 : ((A.zip (padTo L A.length)).map (·.2)).filterMap id = (A.zip (padTo L A.length)).filterMap (·.2) := by
      rw [List.filterMap_map]; rfl
    rw [← h2, h1]
  rw [e]
  have : (padTo L A.length).filterMap id = L.filterMap id := by
    unfold padTo
    rw [List.filterMap_append]
    have : (List.replicate (A.length - L.length) (none : Option Nat)).filterMap id = [] := by
      rw [List.filterMap_eq_nil_iff]; intro a ha; rw [List.eq_of_mem_replicate ha]; rfl
    rw [this, List.append_nil]
  rw [this]
  exact filterMap_pin_nodup hinj

/-! ## the copy loops -/
/-- state of the loop `for n in impl.nodes`: the circuit with the pending lines of the substituted node, and every
value of `node_map` is a node of the circuit -/
structure CopyInv (PI PO : Nat → Prop) (c : Circ) (nm : NMap) : Prop where
  s : SInv c PI PO
  nm : ∀ e ∈ nm, e.2 ∈ c.nodes

theorem addImplNode_inv {PI PO} {m : Circ} {hostName : String} {des : Option Nat} {st st' : Circ × NMap} {n : Nat}
    (inv : CopyInv PI PO st.1 st.2) (h : addImplNode m hostName des st n = some st') : CopyInv PI PO st'.1 st'.2 := by
  have key : ∀ kind, (if nameFree st.1 (hostName ++ "~" ++ (m.nobj n).name) kind = true then
        some (addNode st.1 (hostName ++ "~" ++ (m.nobj n).name) kind, nmSet m st.2 n st.1.nextN) else none) = some st' →
      CopyInv PI PO st'.1 st'.2 := by
    intro kind hk
    split at hk
    · rename_i hfree
      cases hk
      refine ⟨addNode_sinv inv.s hfree, ?_⟩
      intro e he
      show e.2 ∈ st.1.nodes ++ [st.1.nextN]
      rcases nmSet_mem he with h1 | h1
      · exact List.mem_append_left _ (inv.nm e h1)
      · rw [h1]; simp
    · cases hk
  unfold addImplNode at h
  simp only at h
  by_cases hio : inIos m n = true
  · simp only [hio, Bool.not_true, Bool.false_eq_true, if_false] at h
    split at h
    · exact key _ h
    · split at h
      · exact key _ h
      · cases h; exact inv
  · simp only [hio, Bool.not_false, if_true] at h
    cases des with
    | none => simp only [if_true] at h; exact key _ h
    | some dn =>
      simp only at h
      split at h
      · exact key _ h
      · cases h; exact inv

theorem addImplLine_inv {PI PO} {m : Circ} {nm : NMap} {c c' : Circ} {l : Nat}
    (inv : CopyInv PI PO c nm) (hg : gImplLine m nm c l = true) (h : addImplLine m nm c l = some c') : CopyInv PI PO c' nm := by
  unfold addImplLine at h
  unfold gImplLine at hg
  cases he : implLineEnds m nm l with
  | none => simp only [he] at h; cases h; exact inv
  | some q =>
    obtain ⟨D, dp, R, rp⟩ := q
    simp only [he, Bool.and_eq_true, Option.isNone_iff_eq_none] at h hg
    cases h
    -- the two ends are values of node_map
    unfold implLineEnds at he
    have hDR : (∃ e ∈ nm, e.2 = D) ∧ (∃ e ∈ nm, e.2 = R) := by
      cases hr : (m.lobj l).reader with
      | none => simp [hr] at he
      | some r =>
        cases hd : (m.lobj l).driver with
        | none => simp [hr, hd] at he
        | some d =>
          simp only [hr, hd] at he
          cases h1 : nmFind m nm r with
          | none => simp [h1] at he
          | some R' =>
            cases h2 : nmFind m nm d with
            | none => simp [h1, h2] at he
            | some D' =>
              simp only [h1, h2, Option.some.injEq, Prod.mk.injEq] at he
              obtain ⟨e1, _, e3, _⟩ := he
              subst e1 e3
              exact ⟨nmFind_mem h2, nmFind_mem h1⟩
    obtain ⟨⟨e1, he1, rfl⟩, ⟨e2, he2, rfl⟩⟩ := hDR
    exact ⟨addLine_sinv inv.s (inv.nm e1 he1) (inv.nm e2 he2) hg.1 hg.2, inv.nm⟩

/-! ## the loops that connect the instance pins -/
theorem inTarget_mem {m : Circ} {nm : NMap} {inn R rp : Nat} (h : inTarget m nm inn = some (R, rp)) : ∃ e ∈ nm, e.2 = R := by
  unfold inTarget at h
  simp only at h
  split at h
  · split at h
    · split at h
      · simp only [Option.map_eq_some_iff, Prod.mk.injEq] at h
        obtain ⟨a, ha, rfl, _⟩ := h
        exact nmFind_mem ha
      · cases h
    · cases h
  · simp only [Option.map_eq_some_iff, Prod.mk.injEq] at h
    obtain ⟨a, ha, rfl, _⟩ := h
    exact nmFind_mem ha

theorem outTarget_mem {m : Circ} {nm : NMap} {l D dp : Nat} (h : outTarget m nm l = some (D, dp)) : ∃ e ∈ nm, e.2 = D := by
  unfold outTarget at h
  split at h
  · cases h
  · split at h
    · simp only [Option.map_eq_some_iff, Prod.mk.injEq] at h
      obtain ⟨a, ha, rfl, _⟩ := h
      exact nmFind_mem ha
    · split at h
      · simp only [Option.map_eq_some_iff, Prod.mk.injEq] at h
        obtain ⟨a, ha, rfl, _⟩ := h
        exact nmFind_mem ha
      · cases h

theorem connectIn_inv {PO} {m : Circ} {nm : NMap} {c c' : Circ} {p : Nat × Option Nat} {rest : List (Nat × Option Nat)}
    (inv : CopyInv (Pend (p :: rest)) PO c nm) (hnd : PendNodup (p :: rest)) (hdisj : ∀ l, Pend (p :: rest) l → ¬ PO l)
    (hg : gConnectIn m nm c p = true) (h : connectIn m nm c p = some c') : CopyInv (Pend rest) PO c' nm := by
  obtain ⟨inn, o⟩ := p
  cases o with
  | none =>
    simp only [connectIn] at h
    cases h
    exact ⟨inv.s.congr_pred (fun l => (pend_cons_none l).symm) (fun _ => Iff.rfl), inv.nm⟩
  | some ll =>
    have hpll : Pend ((inn, some ll) :: rest) ll := ⟨(inn, some ll), by simp, rfl⟩
    simp only [connectIn] at h
    simp only [gConnectIn] at hg
    split at h
    · -- ignored input: `ll.reader = None; ll.remove()`
      have h' : removeLineChk (setStaleReader c ll none (c.lobj ll).readerPin) ll = some c' := h
      have hc' := removeLineChk_some h'
      subst hc'
      have s0 := staleReader_sinv inv.s hpll none (c.lobj ll).readerPin
      have hll := (s0.piOk ll hpll).1
      have s1 := removeLine_sinv s0 hll (hdisj ll hpll) (by
        intro r hr _
        simp [setStaleReader] at hr)
      refine ⟨s1.congr_pred (fun l => (pend_cons_some hnd l).symm) (fun _ => Iff.rfl), ?_⟩
      intro e he
      rw [(removeLine_frame _ ll).1]
      exact inv.nm e he
    · rename_i hlen
      simp only [hlen] at hg
      cases ht : inTarget m nm inn with
      | none => simp [ht] at h
      | some q =>
        obtain ⟨R, rp⟩ := q
        simp only [ht, Option.some.injEq] at h hg
        subst h
        obtain ⟨e, he, rfl⟩ := inTarget_mem ht
        have s1 := setReader_sinv inv.s hpll (inv.nm e he) (by simpa using hg)
        exact ⟨s1.congr_pred (fun l => (pend_cons_some hnd l).symm) (fun _ => Iff.rfl), inv.nm⟩

/-- state of the loop that connects the outputs: additionally every entry of `dangling` is a node of the circuit -/
structure OutInv (PI PO : Nat → Prop) (st : Circ × List Nat) (nm : NMap) : Prop where
  s : SInv st.1 PI PO
  nm : ∀ e ∈ nm, e.2 ∈ st.1.nodes
  dang : ∀ n ∈ st.2, n ∈ st.1.nodes

theorem connectOut_inv {PI} {m : Circ} {nm : NMap} {st st' : Circ × List Nat} {p : Nat × Option Nat} {rest : List (Nat × Option Nat)}
    (inv : OutInv PI (Pend (p :: rest)) st nm) (hnd : PendNodup (p :: rest))
    (hg : gConnectOut m nm st p = true) (h : connectOut m nm st p = some st') : OutInv PI (Pend rest) st' nm := by
  obtain ⟨l, o⟩ := p
  cases o with
  | none =>
    simp only [connectOut] at h
    cases h
    refine ⟨inv.s.congr_pred (fun _ => Iff.rfl) (fun l => (pend_cons_none l).symm), inv.nm, ?_⟩
    intro n hn
    simp only at hn
    split at hn
    · split at hn
      · rename_i x hx
        rcases List.mem_append.1 hn with h1 | h1
        · exact inv.dang n h1
        · simp only [List.mem_singleton] at h1; subst h1
          obtain ⟨e, he, rfl⟩ := nmFind_mem hx
          exact inv.nm e he
      · exact inv.dang n hn
    · exact inv.dang n hn
  | some ll =>
    have hpll : Pend ((l, some ll) :: rest) ll := ⟨(l, some ll), by simp, rfl⟩
    simp only [connectOut] at h
    simp only [gConnectOut] at hg
    cases ht : outTarget m nm l with
    | none => simp [ht] at h
    | some q =>
      obtain ⟨D, dp⟩ := q
      simp only [ht, Option.some.injEq] at h hg
      subst h
      obtain ⟨e, he, rfl⟩ := outTarget_mem ht
      have s1 := setDriver_sinv inv.s hpll (inv.nm e he) (by simpa using hg)
      exact ⟨s1.congr_pred (fun _ => Iff.rfl) (fun l => (pend_cons_some hnd l).symm), inv.nm, inv.dang⟩

/-! ## making the outputs of the copied forks dense again -/
theorem pin_map_some (L : List Nat) (p : Nat) : pin (L.map some) p = L[p]? := by
  rw [pin_eq_getElem?, List.getElem?_map]
  cases L[p]? <;> rfl

theorem densifyNode_frame (c : Circ) (v : Nat) :
    (densifyNode c v).nodes = c.nodes ∧ (densifyNode c v).lines = c.lines ∧ (densifyNode c v).io = c.io ∧
    (densifyNode c v).cells = c.cells ∧ (densifyNode c v).forks = c.forks ∧ (densifyNode c v).nextN = c.nextN ∧
    (densifyNode c v).nextL = c.nextL ∧
    (∀ j, ((densifyNode c v).nobj j).name = (c.nobj j).name ∧ ((densifyNode c v).nobj j).kind = (c.nobj j).kind ∧
      ((densifyNode c v).nobj j).index = (c.nobj j).index ∧ ((densifyNode c v).nobj j).alive = (c.nobj j).alive ∧
      ((densifyNode c v).nobj j).ins = (c.nobj j).ins ∧ (j ≠ v → ((densifyNode c v).nobj j).outs = (c.nobj j).outs)) := by
  unfold densifyNode
  simp only
  split
  · refine ⟨rfl, rfl, rfl, rfl, rfl, rfl, rfl, ?_⟩
    intro j
    by_cases hj : j = v
    · subst hj; simp
    · simp [hj]
  · exact ⟨rfl, rfl, rfl, rfl, rfl, rfl, rfl, fun j => ⟨rfl, rfl, rfl, rfl, rfl, fun _ => rfl⟩⟩

/-- after the step the outputs of `v` are gap-free if `v` is a fork -/
theorem densifyNode_full (c : Circ) (v : Nat) (hk : (c.nobj v).kind = FORK) : none ∉ ((densifyNode c v).nobj v).outs := by
  unfold densifyNode
  simp only
  split
  · simp
  · rename_i hc
    simp only [hk, beq_self_eq_true, Bool.true_and, Bool.not_eq_true] at hc
    intro hm
    have : (c.nobj v).outs.any (·.isNone) = true := List.any_eq_true.2 ⟨none, hm, rfl⟩
    rw [this] at hc; cases hc

theorem densifyNode_wf0 {c : Circ} {v : Nat} (wf : WFc0 c) (hv : v ∈ c.nodes) : WFc0 (densifyNode c v) := by
  unfold densifyNode
  simp only
  split
  · -- the outputs are squeezed and the driver pins renumbered
    have hinj : ∀ p q y, pin (c.nobj v).outs p = some y → pin (c.nobj v).outs q = some y → p = q := by
      intro p q y a b
      have := (wf.outsBack v hv p y a).2.2; have := (wf.outsBack v hv q y b).2.2; omega
    have hnd : ((c.nobj v).outs.filterMap id).Nodup := filterMap_pin_nodup hinj
    have hinj2 : ∀ p q y, pin (((c.nobj v).outs.filterMap id).map some) p = some y →
        pin (((c.nobj v).outs.filterMap id).map some) q = some y → p = q := by
      intro p q y a b
      rw [pin_map_some] at a b
      have ha := (List.getElem?_eq_some_iff.1 a)
      have hb := (List.getElem?_eq_some_iff.1 b)
      obtain ⟨h1, e1⟩ := ha; obtain ⟨h2, e2⟩ := hb
      have hpw := List.pairwise_iff_getElem.1 hnd
      rcases Nat.lt_trichotomy p q with hlt | heq | hgt
      · exact absurd (e1.trans e2.symm) (hpw p q h1 h2 hlt)
      · exact heq
      · exact absurd (e2.trans e1.symm) (hpw q p h2 h1 hgt)
    have hmem2 : ∀ p y, pin (((c.nobj v).outs.filterMap id).map some) p = some y → ∃ q, pin (c.nobj v).outs q = some y := by
      intro p y a
      rw [pin_map_some] at a
      exact mem_filterMap_pin.1 (List.mem_of_getElem? a)
    have hf := fun x => renumber_fields c.lobj (((c.nobj v).outs.filterMap id).map some) 0 x
    have hin : ∀ x p, pin (((c.nobj v).outs.filterMap id).map some) p = some x →
        ((renumber c.lobj (((c.nobj v).outs.filterMap id).map some) 0).get x).driverPin = p := by
      intro x p hp
      rw [renumber_in _ _ 0 x p hinj2 hp]; omega
    have hout : ∀ x, (∀ q, pin (c.nobj v).outs q ≠ some x) →
        (renumber c.lobj (((c.nobj v).outs.filterMap id).map some) 0).get x = c.lobj x := by
      intro x hx
      apply renumber_notin
      intro p hp
      obtain ⟨q, hq⟩ := hmem2 p x hp
      exact hx q hq
    refine ⟨?_, ?_, ?_, ?_, wf.ckeys, wf.fkeys, ?_, ?_, ?_, ?_, ?_, ?_, ?_, ?_, wf.ioIn⟩
    · intro p hp
      show ((upd c.nobj v _).get _).index = p
      have := wf.nidx p hp
      by_cases hj : c.nodes[p] = v
      · simp only [upd_get, hj, if_true]; rw [← hj]; exact this
      · simp only [upd_get, hj, if_false]; exact this
    · intro p hp; show ((renumber _ _ _).get _).index = p; rw [(hf _).1]; exact wf.lidx p hp
    · intro j hj
      show _ ∧ ((upd c.nobj v _).get j).alive = true
      have := wf.nfresh j hj
      by_cases hjv : j = v
      · subst hjv; simp only [upd_get, if_true]; exact this
      · simp only [upd_get, hjv, if_false]; exact this
    · intro x hx; show _ ∧ ((renumber _ _ _).get x).alive = true; rw [(hf x).2.2.2.2]; exact wf.lfresh x hx
    · intro e he
      obtain ⟨h1, h2, h3⟩ := wf.cellsSound e he
      show _ ∧ ((upd c.nobj v _).get e.2).kind ≠ FORK ∧ ((upd c.nobj v _).get e.2).name = e.1
      by_cases hjv : e.2 = v
      · simp only [upd_get, hjv, if_true]; rw [hjv] at h2 h3; exact ⟨hjv ▸ h1, h2, h3⟩
      · simp only [upd_get, hjv, if_false]; exact ⟨h1, h2, h3⟩
    · intro e he
      obtain ⟨h1, h2, h3⟩ := wf.forksSound e he
      show _ ∧ ((upd c.nobj v _).get e.2).kind = FORK ∧ ((upd c.nobj v _).get e.2).name = e.1
      by_cases hjv : e.2 = v
      · simp only [upd_get, hjv, if_true]; rw [hjv] at h2 h3; exact ⟨hjv ▸ h1, h2, h3⟩
      · simp only [upd_get, hjv, if_false]; exact ⟨h1, h2, h3⟩
    · intro j hj hk
      show (((upd c.nobj v _).get j).name, j) ∈ c.cells
      by_cases hjv : j = v
      · subst hjv; simp only [upd_get, if_true] at hk ⊢; exact wf.cellsComplete j hj hk
      · simp only [upd_get, hjv, if_false] at hk ⊢; exact wf.cellsComplete j hj hk
    · intro j hj hk
      show (((upd c.nobj v _).get j).name, j) ∈ c.forks
      by_cases hjv : j = v
      · subst hjv; simp only [upd_get, if_true] at hk ⊢; exact wf.forksComplete j hj hk
      · simp only [upd_get, hjv, if_false] at hk ⊢; exact wf.forksComplete j hj hk
    · -- ldrv
      intro x hx
      obtain ⟨d, e1, e2, e3⟩ := wf.ldrv x hx
      refine ⟨d, by show ((renumber _ _ _).get x).driver = _; rw [(hf x).2.1]; exact e1, e2, ?_⟩
      show pin ((upd c.nobj v _).get d).outs ((renumber _ _ _).get x).driverPin = some x
      by_cases hdv : d = v
      · subst hdv
        simp only [upd_get, if_true]
        have hxm : x ∈ (c.nobj d).outs.filterMap id := mem_filterMap_pin.2 ⟨_, e3⟩
        obtain ⟨p, hp, hpe⟩ := List.mem_iff_getElem.1 hxm
        have hpp : pin (((c.nobj d).outs.filterMap id).map some) p = some x := by
          rw [pin_map_some, List.getElem?_eq_getElem hp, hpe]
        rw [hin x p hpp]; exact hpp
      · simp only [upd_get, hdv, if_false]
        rw [hout x (by
          intro q hq
          have := (wf.outsBack v hv q x hq).2.1
          rw [e1] at this; exact hdv (Option.some.inj this))]
        exact e3
    · -- lrdr
      intro x hx
      obtain ⟨r, e1, e2, e3⟩ := wf.lrdr x hx
      refine ⟨r, by show ((renumber _ _ _).get x).reader = _; rw [(hf x).2.2.1]; exact e1, e2, ?_⟩
      show pin ((upd c.nobj v _).get r).ins ((renumber _ _ _).get x).readerPin = some x
      rw [(hf x).2.2.2.1]
      by_cases hrv : r = v
      · subst hrv; simp only [upd_get, if_true]; exact e3
      · simp only [upd_get, hrv, if_false]; exact e3
    · -- outsBack
      intro j hj p x hp
      show x ∈ c.lines ∧ ((renumber _ _ _).get x).driver = some j ∧ ((renumber _ _ _).get x).driverPin = p
      by_cases hjv : j = v
      · subst hjv
        have hp' : pin (((c.nobj j).outs.filterMap id).map some) p = some x := by
          have : ((upd c.nobj j { c.nobj j with outs := ((c.nobj j).outs.filterMap id).map some }).get j).outs =
              ((c.nobj j).outs.filterMap id).map some := by simp
          rw [← this]; exact hp
        obtain ⟨q, hq⟩ := hmem2 p x hp'
        obtain ⟨b1, b2, _⟩ := wf.outsBack j hj q x hq
        exact ⟨b1, by rw [(hf x).2.1]; exact b2, hin x p hp'⟩
      · have hp' : pin (c.nobj j).outs p = some x := by
          have : ((upd c.nobj v { c.nobj v with outs := ((c.nobj v).outs.filterMap id).map some }).get j).outs = (c.nobj j).outs := by
            simp [hjv]
          rw [← this]; exact hp
        obtain ⟨b1, b2, b3⟩ := wf.outsBack j hj p x hp'
        rw [hout x (by
          intro q hq
          have := (wf.outsBack v hv q x hq).2.1
          rw [b2] at this; exact hjv (Option.some.inj this))]
        exact ⟨b1, b2, b3⟩
    · -- insBack
      intro j hj p x hp
      show x ∈ c.lines ∧ ((renumber _ _ _).get x).reader = some j ∧ ((renumber _ _ _).get x).readerPin = p
      have hp' : pin (c.nobj j).ins p = some x := by
        have : ((upd c.nobj v { c.nobj v with outs := ((c.nobj v).outs.filterMap id).map some }).get j).ins = (c.nobj j).ins := by
          by_cases hjv : j = v
          · subst hjv; simp
          · simp [hjv]
        rw [← this]; exact hp
      obtain ⟨b1, b2, b3⟩ := wf.insBack j hj p x hp'
      exact ⟨b1, by rw [(hf x).2.2.1]; exact b2, by rw [(hf x).2.2.2.1]; exact b3⟩
  · exact wf

theorem densify_wf0 : ∀ (vs : List Nat) (c : Circ), WFc0 c → (∀ v ∈ vs, v ∈ c.nodes) → WFc0 (vs.foldl densifyNode c) := by
  intro vs
  induction vs with
  | nil => intro c wf _; exact wf
  | cons v vs ih =>
    intro c wf hv
    simp only [List.foldl_cons]
    apply ih _ (densifyNode_wf0 wf (hv v (by simp)))
    intro x hx
    rw [(densifyNode_frame c v).1]; exact hv x (by simp [hx])

theorem densify_nodes : ∀ (vs : List Nat) (c : Circ), (vs.foldl densifyNode c).nodes = c.nodes := by
  intro vs
  induction vs with
  | nil => intro c; rfl
  | cons v vs ih => intro c; simp only [List.foldl_cons]; rw [ih, (densifyNode_frame c v).1]

/-! ## removal of the dangling logic -/
theorem dangling_inv {own : List Nat} : ∀ (dang : List Nat) (c c' : Circ), WFc0 c →
    (∀ n ∈ dang, n ∈ c.nodes ∨ (c.nobj n).alive = false) → foldO (danglingStep own) c dang = some c' → WFc0 c' := by
  intro dang
  induction dang with
  | nil => intro c c' wf _ h; simp only [foldO, Option.some.injEq] at h; exact h ▸ wf
  | cons n rest ih =>
    intro c c' wf hd h
    simp only [foldO] at h
    cases hs : danglingStep own c n with
    | none => simp [hs] at h
    | some c1 =>
      simp only [hs] at h
      unfold danglingStep at hs
      split at hs
      · rename_i hal
        have hn : n ∈ c.nodes := by
          rcases hd n (by simp) with h1 | h1
          · exact h1
          · rw [h1] at hal; cases hal
        obtain ⟨wf1, _, keeps⟩ := removeDanglingFrom_wf0 wf (Or.inl hn) hs
        exact ih c1 c' wf1 (fun x hx => keeps x (hd x (by simp [hx]))) h
      · cases hs
        exact ih c c' wf (fun x hx => hd x (by simp [hx])) h

/-! ## `substitute` -/
theorem substKinds_des {c : Circ} {i : Nat} {m : Circ} {sh : Shape} (hk : substKinds c i m = true) (hs : implShape m = some sh) :
    (c.nobj i).kind ≠ FORK ∧ (∀ dn, sh.des = some dn → (m.nobj dn).kind ≠ FORK) ∧ (sh.des = none → i ∉ c.io) := by
  unfold substKinds at hk
  simp only [hs, Bool.and_eq_true, bne_iff_ne, ne_eq] at hk
  refine ⟨hk.1, ?_, ?_⟩
  · intro dn hd; have := hk.2; simp only [hd, bne_iff_ne, ne_eq] at this; exact this
  · intro hd; have := hk.2; simp only [hd, Bool.not_eq_true', List.contains_eq_mem, decide_eq_false_iff_not] at this; exact this

theorem noSelfLoop_disj {c : Circ} {i : Nat} (wf : WFc0 c) (hi : i ∈ c.nodes) (h : noSelfLoop c i = true) (l : Nat) :
    InL c i l → ¬ OutL c i l := by
  rintro ⟨p, hp⟩ ⟨q, hq⟩
  have hd := (wf.outsBack i hi q l hq).2.1
  unfold noSelfLoop at h
  have hlt := pin_eq_some_lt hp
  have hmem : some l ∈ (c.nobj i).ins := by
    rw [pin_eq_getElem?, List.getElem?_eq_getElem hlt] at hp
    have : (c.nobj i).ins[p] = some l := by simpa using hp
    rw [← this]; exact List.getElem_mem hlt
  have := List.all_eq_true.1 h _ hmem
  simp only [hd, bne_self_eq_false] at this
  cases this

theorem phase1_inv {c : Circ} {i : Nat} {m : Circ} {sh : Shape} (wf : WFc0 c) (hi : i ∈ c.nodes)
    (hk : substKinds c i m = true) (hs : implShape m = some sh) :
    CopyInv (InL c i) (OutL c i) (phase1 c i m sh.des).1 (phase1 c i m sh.des).2 := by
  obtain ⟨k1, k2, k3⟩ := substKinds_des hk hs
  unfold phase1
  cases hd : sh.des with
  | some dn =>
    refine ⟨rekindClear_sinv wf hi k1 (k2 dn hd), ?_⟩
    intro e he
    simp only [List.mem_singleton] at he
    subst he; exact hi
  | none =>
    exact ⟨removeNode_sinv wf hi (k3 hd), fun e he => by simp at he⟩

theorem substituteObj_wf0 {c c' : Circ} {i : Nat} {m : Circ} (wf : WFc0 c) (hpre : substPre0 c i m = true)
    (h : substituteObj c i m = some c') : WFc0 c' := by
  unfold substPre0 at hpre
  simp only [Bool.and_eq_true, List.contains_eq_mem, decide_eq_true_eq] at hpre
  obtain ⟨⟨⟨hi, hk⟩, hloop⟩, hguard⟩ := hpre
  unfold substituteObj at h
  cases hs : implShape m with
  | none => simp [hs] at h
  | some sh =>
    simp only [hs] at h
    split at h
    · cases h
    rename_i har
    have har' : arityOK c i sh = true := by simpa using har
    unfold substGuards at hguard
    simp only [hs, har', Bool.not_true, Bool.false_eq_true, if_false] at hguard
    unfold substCopy at h
    cases h2 : foldO (addImplNode m (c.nobj i).name sh.des) (phase1 c i m sh.des) m.nodes with
    | none => simp [h2] at h
    | some st2 =>
      obtain ⟨c2, nm⟩ := st2
      simp only [h2] at h hguard
      cases h3 : foldO (addImplLine m nm) c2 m.lines with
      | none => simp [h3] at h
      | some c3 =>
        simp only [h3, Option.map_some, Bool.and_eq_true] at h hguard
        unfold substConnect at h
        cases h4 : foldO (connectIn m nm) c3 (sh.inPorts.zip (padTo (c.nobj i).ins sh.inPorts.length)) with
        | none => simp [h4] at h
        | some c4 =>
          simp only [h4] at h hguard
          cases h5 : foldO (connectOut m nm) (c4, []) (sh.outLines.zip (padTo (c.nobj i).outs sh.outLines.length)) with
          | none => simp [h5] at h
          | some st5 =>
            obtain ⟨c5, dang⟩ := st5
            simp only [h5] at h
            obtain ⟨g3, g4, g5⟩ := hguard
            unfold arityOK at har'
            simp only [Bool.and_eq_true, decide_eq_true_eq] at har'
            -- loop over the implementation nodes
            have i2 := foldO_inv (addImplNode m (c.nobj i).name sh.des)
              (fun st _ => CopyInv (InL c i) (OutL c i) st.1 st.2)
              (fun s a rest s' hinv hf => addImplNode_inv hinv hf) m.nodes _ _ (phase1_inv wf hi hk hs) h2
            -- loop over the implementation lines
            have i3 := foldO_inv_guard (addImplLine m nm) (gImplLine m nm)
              (fun cc _ => CopyInv (InL c i) (OutL c i) cc nm)
              (fun s a rest s' hinv hg hf => addImplLine_inv hinv hg hf) m.lines _ _ i2 g3 h3
            -- inputs
            have hinjI : ∀ p q y, pin (c.nobj i).ins p = some y → pin (c.nobj i).ins q = some y → p = q := by
              intro p q y a b
              have := (wf.insBack i hi p y a).2.2; have := (wf.insBack i hi q y b).2.2; omega
            have hinjO : ∀ p q y, pin (c.nobj i).outs p = some y → pin (c.nobj i).outs q = some y → p = q := by
              intro p q y a b
              have := (wf.outsBack i hi p y a).2.2; have := (wf.outsBack i hi q y b).2.2; omega
            have i4 := foldO_inv_guard (connectIn m nm) (gConnectIn m nm)
              (fun cc rem => CopyInv (Pend rem) (OutL c i) cc nm ∧ PendNodup rem ∧ (∀ l, Pend rem l → ¬ OutL c i l))
              (fun s a rest s' hinv hg hf => ⟨connectIn_inv hinv.1 hinv.2.1 hinv.2.2 hg hf, pendNodup_tail hinv.2.1,
                fun l hl => hinv.2.2 l (by obtain ⟨pr, hpr, e⟩ := hl; exact ⟨pr, by simp [hpr], e⟩)⟩)
              _ _ _
              ⟨⟨i3.s.congr_pred (fun l => zip_padTo_pend har'.1 l) (fun _ => Iff.rfl), i3.nm⟩,
               zip_padTo_pendNodup har'.1 hinjI,
               fun l hl => noSelfLoop_disj wf hi hloop l ((zip_padTo_pend har'.1 l).1 hl)⟩ g4 h4
            -- outputs
            have i5 := foldO_inv_guard (connectOut m nm) (gConnectOut m nm)
              (fun st rem => OutInv (Pend []) (Pend rem) st nm ∧ PendNodup rem)
              (fun s a rest s' hinv hg hf => ⟨connectOut_inv hinv.1 hinv.2 hg hf, pendNodup_tail hinv.2⟩)
              _ _ _
              ⟨⟨i4.1.s.congr_pred (fun _ => Iff.rfl) (fun l => zip_padTo_pend har'.2 l), i4.1.nm, fun n hn => by simp at hn⟩,
               zip_padTo_pendNodup har'.2 hinjO⟩ g5 h5
            have wf5 : WFc0 c5 := i5.1.s.to_wfc0 (fun l _ => pend_nil l) (fun l _ => pend_nil l)
            have hvals : ∀ v ∈ nm.map (·.2), v ∈ c5.nodes := by
              intro v hv
              obtain ⟨e, he, rfl⟩ := List.mem_map.1 hv
              exact i5.1.nm e he
            have wf5d : WFc0 (densify c5 nm) := densify_wf0 _ c5 wf5 hvals
            exact dangling_inv dang (densify c5 nm) c' wf5d (fun n hn => Or.inl (by
              show n ∈ (densify c5 nm).nodes
              unfold densify
              rw [densify_nodes]; exact i5.1.dang n hn)) h

theorem forksFull_ffull {c : Circ} (h : forksFull c = true) : FFull c := by
  intro i hi hk hnone
  unfold forksFull at h
  have := List.all_eq_true.1 h i hi
  simp only [hk, bne_self_eq_false, Bool.false_or] at this
  have := List.all_eq_true.1 this _ hnone
  simp at this

/-- `c.substitute(node, impl)`: under the decidable well-formed-use precondition `substPre` the result satisfies `WFc` -/
theorem substituteObj_wf {c c' : Circ} {i : Nat} {m : Circ} (wf : WFc c) (hpre : substPre c i m = true)
    (h : substituteObj c i m = some c') : WFc c' := by
  unfold substPre at hpre
  simp only [Bool.and_eq_true, h] at hpre
  exact ⟨substituteObj_wf0 wf.toWFc0 hpre.1 h, forksFull_ffull hpre.2⟩

/-! ## `resolve_tlib_cells` -/
theorem resolveObj_wf {lib : Lib} {c c' : Circ} (wf : WFc c) (hpre : resolvePre lib c = true) (h : resolveObj lib c = some c') :
    WFc c' := by
  unfold resolvePre at hpre
  unfold resolveObj at h
  exact foldO_inv_guard (resolveStep lib)
    (fun c n => match lib.find (c.nobj n).kind with | some m => substPre c n m | none => true)
    (fun cc _ => WFc cc)
    (fun s a rest s' hinv hg hf => by
      unfold resolveStep at hf
      cases hl : lib.find (s.nobj a).kind with
      | none => simp only [hl, Option.some.injEq] at hf; exact hf ▸ hinv
      | some mm =>
        simp only [hl] at hf hg
        exact substituteObj_wf hinv hg hf)
    c.nodes c c' wf hpre h

/-! ## histories -/
theorem step2_wf {c c' : Circ} (wf : WFc c) (op : Op2) (hpre : pre2 c op = true) (h : step2 c op = some c') : WFc c' := by
  cases op with
  | base op =>
    simp only [step2, Option.some.injEq] at h
    exact h ▸ step_wf wf op hpre
  | substitute ni m =>
    simp only [pre2, step2] at hpre h
    cases hi : c.nodes[ni]? with
    | none => simp [hi] at hpre
    | some i => simp only [hi] at hpre h; exact substituteObj_wf wf hpre h
  | removeDangling ni =>
    simp only [pre2, decide_eq_true_eq] at hpre
    simp only [step2, List.getElem?_eq_getElem hpre] at h
    exact removeDanglingObj_wf wf (List.getElem_mem hpre) h
  | resolve lib => exact resolveObj_wf wf hpre h

theorem run2_wf (ops : List Op2) (c c' : Circ) (wf : WFc c) (h : run2 c ops = some c') : WFc c' := by
  induction ops generalizing c with
  | nil => simp only [run2, Option.some.injEq] at h; exact h ▸ wf
  | cons op rest ih =>
    simp only [run2] at h
    split at h
    · rename_i hp
      cases hs : step2 c op with
      | none => simp [hs] at h
      | some c1 => simp only [hs] at h; exact ih c1 (step2_wf wf op hp hs) h
    · cases h

end KV.CircObj
