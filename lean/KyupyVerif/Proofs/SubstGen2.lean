import KyupyVerif.Proofs.SubstGen1
/-! Helper lemmas for C10 (`substitute_sem_general`), part 2: the lockstep relation `Lk` between the state `a` of the real run
of `substitute` (in which `Line.remove()` renumbers the lines) and the state `b` of a *virtual* run in which the line at an
ignored pin simply stays where it is (stale on the reader side).  `ψ` sends a line index of `a` to the index of the same
line object in `b`, `π` a node index of `a` to the index in `b`; `G` = the lines already removed in `a` (in `b`-indices);
`PI` / `PO` = lines of `b` whose reader / driver side is still to be connected.  The relation is kept by `setReader`,
`setDriver` (both runs) and by `removeLine false` (real run only). -/
namespace KV.Transform
open KV

/-! ### accessors of `setReader` / `setDriver` -/
theorem setReader_node (net : Net) (ll r rp x : Nat) : (setReader net ll r rp).node x =
    if x = r ∧ r < net.nodes.size then { net.node x with ins := growSet (net.node x).ins rp (some ll) } else net.node x := by
  show nodeA (net.nodes.modify r _) x = _
  rw [nodeA_modify]; rfl

theorem setReader_line (net : Net) (ll r rp l : Nat) (hl : l < net.lines.size) : (setReader net ll r rp).line l =
    if ll = l then { net.line l with reader := r, rpin := rp } else net.line l := by
  show lineA (net.lines.modify ll _) l = _
  rw [lineA_modify _ _ _ _ hl]; rfl

theorem setReader_sizes (net : Net) (ll r rp : Nat) : (setReader net ll r rp).nodes.size = net.nodes.size ∧
    (setReader net ll r rp).lines.size = net.lines.size ∧ (setReader net ll r rp).io = net.io := by
  simp [setReader]

theorem setDriver_node (net : Net) (ll d dp x : Nat) : (setDriver net ll d dp).node x =
    if x = d ∧ d < net.nodes.size then { net.node x with outs := growSet (net.node x).outs dp (some ll) } else net.node x := by
  show nodeA (net.nodes.modify d _) x = _
  rw [nodeA_modify]; rfl

theorem setDriver_line (net : Net) (ll d dp l : Nat) (hl : l < net.lines.size) : (setDriver net ll d dp).line l =
    if ll = l then { net.line l with driver := d, dpin := dp } else net.line l := by
  show lineA (net.lines.modify ll _) l = _
  rw [lineA_modify _ _ _ _ hl]; rfl

theorem setDriver_sizes (net : Net) (ll d dp : Nat) : (setDriver net ll d dp).nodes.size = net.nodes.size ∧
    (setDriver net ll d dp).lines.size = net.lines.size ∧ (setDriver net ll d dp).io = net.io := by
  simp [setDriver]

theorem isFork_of_kind_eq {n1 n2 : NodeD} (h : n1.kind = n2.kind) : n1.isFork = n2.isFork := by
  simp [NodeD.isFork, h]

/-! ### the relation -/
structure Lk (Own : Nat → Prop) (π ψ : Nat → Nat) (G PI PO : Nat → Prop) (a b : Net) : Prop where
  πinj : ∀ x y, π x = π y → x = y
  nodeLt : ∀ x, x < a.nodes.size → π x < b.nodes.size
  kind : ∀ x, x < a.nodes.size → (a.node x).kind = (b.node (π x)).kind
  io : a.io.map π = b.io
  ins : ∀ x k, x < a.nodes.size → ((a.node x).ins.getD k none).map ψ = (b.node (π x)).ins.getD k none
  outs : ∀ x k, x < a.nodes.size → Own x → ((a.node x).outs.getD k none).map ψ = (b.node (π x)).outs.getD k none
  lineLt : ∀ l, l < a.lines.size → ψ l < b.lines.size ∧ ¬ G (ψ l)
  lineInj : ∀ l1 l2, l1 < a.lines.size → l2 < a.lines.size → ψ l1 = ψ l2 → l1 = l2
  lineSurj : ∀ l', l' < b.lines.size → ¬ G l' → ∃ l, l < a.lines.size ∧ ψ l = l'
  drv : ∀ l, l < a.lines.size → ¬ PO (ψ l) →
    (a.line l).driver < a.nodes.size ∧ π (a.line l).driver = (b.line (ψ l)).driver ∧
    ((a.line l).dpin = (b.line (ψ l)).dpin ∨ (¬ Own (a.line l).driver ∧ (a.node (a.line l).driver).isFork = true))
  rdr : ∀ l, l < a.lines.size → ¬ PI (ψ l) →
    (a.line l).reader < a.nodes.size ∧ π (a.line l).reader = (b.line (ψ l)).reader ∧ (a.line l).rpin = (b.line (ψ l)).rpin
  insLt : ∀ x k l, (a.node x).ins.getD k none = some l → l < a.lines.size ∧ ¬ PI (ψ l)
  outsLt : ∀ x k l, Own x → (a.node x).outs.getD k none = some l → l < a.lines.size ∧ ¬ PI (ψ l)
  host : ∀ d, d < a.nodes.size → ¬ Own d → DrvAt a (fun y => PO (ψ y)) d

section steps
variable {Own : Nat → Prop} {π ψ : Nat → Nat} {G PI PO : Nat → Prop} {a b : Net}

/-- `ll.reader = r; ll.reader_pin = rp; r.ins[rp] = ll` in both runs -/
theorem Lk.stepReader (lk : Lk Own π ψ G PI PO a b) (ll' ll r rp : Nat) (h1 : ll' < a.lines.size) (h2 : ψ ll' = ll)
    (hr : r < a.nodes.size) :
    Lk Own π ψ G (fun x => PI x ∧ x ≠ ll) PO (setReader a ll' r rp) (setReader b ll (π r) rp) := by
  have hllb : ll < b.lines.size := by rw [← h2]; exact (lk.lineLt ll' h1).1
  have hrb : π r < b.nodes.size := lk.nodeLt r hr
  obtain ⟨sa1, sa2, sa3⟩ := setReader_sizes a ll' r rp
  obtain ⟨sb1, sb2, sb3⟩ := setReader_sizes b ll (π r) rp
  have hψ : ∀ l, l < a.lines.size → (ll = ψ l ↔ ll' = l) := by
    intro l hl
    constructor
    · intro e; exact lk.lineInj ll' l h1 hl (h2.trans e)
    · intro e; rw [← e]; exact h2.symm
  have hπ : ∀ x, (π x = π r ↔ x = r) := fun x => ⟨fun e => lk.πinj x r e, fun e => by rw [e]⟩
  refine ⟨lk.πinj, ?_, ?_, ?_, ?_, ?_, ?_, ?_, ?_, ?_, ?_, ?_, ?_, ?_⟩
  · intro x hx; rw [sa1] at hx; rw [sb1]; exact lk.nodeLt x hx
  · intro x hx
    rw [sa1] at hx
    rw [setReader_node, setReader_node]
    have := lk.kind x hx
    split <;> split <;> exact this
  · rw [sa3, sb3]; exact lk.io
  · intro x k hx
    rw [sa1] at hx
    rw [setReader_node, setReader_node]
    by_cases e : x = r
    · subst e
      simp only [hr, hrb, and_self, if_true]
      rw [getD_growSet, getD_growSet]
      by_cases ek : k = rp
      · simp [ek, h2]
      · simp only [ek, if_false]; exact lk.ins x k hx
    · have : ¬ π x = π r := fun e' => e ((hπ x).mp e')
      simp only [e, this, false_and, if_false]; exact lk.ins x k hx
  · intro x k hx ho
    rw [sa1] at hx
    rw [setReader_node, setReader_node]
    have := lk.outs x k hx ho
    split <;> split <;> exact this
  · intro l hl; rw [sa2] at hl; rw [sb2]; exact lk.lineLt l hl
  · intro l1 l2 a1 a2; rw [sa2] at a1 a2; exact lk.lineInj l1 l2 a1 a2
  · intro l' hl' hg; rw [sb2] at hl'; rw [sa2]; exact lk.lineSurj l' hl' hg
  · intro l hl hpo
    rw [sa2] at hl
    obtain ⟨d1, d2, d3⟩ := lk.drv l hl hpo
    rw [setReader_line a _ _ _ _ hl, setReader_line b _ _ _ _ (lk.lineLt l hl).1, sa1]
    have hk : ((setReader a ll' r rp).node (a.line l).driver).isFork = (a.node (a.line l).driver).isFork := by
      rw [setReader_node]; split <;> rfl
    by_cases e : ll' = l
    · have e' : ll = ψ l := (hψ l hl).mpr e
      rw [if_pos e, if_pos e']
      exact ⟨d1, d2, by rw [hk]; exact d3⟩
    · have e' : ¬ ll = ψ l := fun x => e ((hψ l hl).mp x)
      rw [if_neg e, if_neg e']
      exact ⟨d1, d2, by rw [hk]; exact d3⟩
  · intro l hl hpi
    rw [sa2] at hl
    rw [setReader_line a _ _ _ _ hl, setReader_line b _ _ _ _ (lk.lineLt l hl).1, sa1]
    by_cases e : ll' = l
    · have e' : ll = ψ l := (hψ l hl).mpr e
      rw [if_pos e, if_pos e']
      exact ⟨hr, rfl, rfl⟩
    · have e' : ¬ ll = ψ l := fun x => e ((hψ l hl).mp x)
      rw [if_neg e, if_neg e']
      exact lk.rdr l hl (fun hp => hpi ⟨hp, fun x => e' x.symm⟩)
  · intro x k l hp
    rw [sa2]
    rw [setReader_node] at hp
    split at hp
    · rename_i hc
      rw [getD_growSet] at hp
      split at hp
      · have : l = ll' := (Option.some.inj hp).symm
        subst this
        exact ⟨h1, fun hc' => hc'.2 h2⟩
      · obtain ⟨q1, q2⟩ := lk.insLt x k l hp
        exact ⟨q1, fun hc' => q2 hc'.1⟩
    · obtain ⟨q1, q2⟩ := lk.insLt x k l hp
      exact ⟨q1, fun hc' => q2 hc'.1⟩
  · intro x k l ho hp
    rw [sa2]
    have hp' : (a.node x).outs.getD k none = some l := by
      rw [setReader_node] at hp
      split at hp <;> exact hp
    obtain ⟨q1, q2⟩ := lk.outsLt x k l ho hp'
    exact ⟨q1, fun hc' => q2 hc'.1⟩
  · intro d hd hno
    rw [sa1] at hd
    have w := lk.host d hd hno
    have hn : ((setReader a ll' r rp).node d).outs = (a.node d).outs := by
      rw [setReader_node]; split <;> rfl
    have hln : ∀ y, y < a.lines.size → ((setReader a ll' r rp).line y).driver = (a.line y).driver ∧
        ((setReader a ll' r rp).line y).dpin = (a.line y).dpin := by
      intro y hy
      rw [setReader_line a _ _ _ _ hy]
      split <;> exact ⟨rfl, rfl⟩
    refine ⟨by rw [sa1]; exact hd, ?_, ?_⟩
    · intro p y hp
      rw [hn] at hp
      obtain ⟨q1, q2, q3, q4⟩ := w.fwd p y hp
      rw [sa2, (hln y q1).1, (hln y q1).2]
      exact ⟨q1, q2, q3, q4⟩
    · intro y hy hex hdy
      rw [sa2] at hy
      rw [(hln y hy).1] at hdy
      rw [hn, (hln y hy).2]
      exact w.back y hy hex hdy

/-- `ll.driver = d; ll.driver_pin = dp; d.outs[dp] = ll` in both runs -/
theorem Lk.stepDriver (lk : Lk Own π ψ G PI PO a b) (ll' ll d dp : Nat) (h1 : ll' < a.lines.size) (h2 : ψ ll' = ll)
    (hd : d < a.nodes.size) (hown : Own d) (hpo : PO ll) (hpi : ¬ PI ll) :
    Lk Own π ψ G PI (fun x => PO x ∧ x ≠ ll) (setDriver a ll' d dp) (setDriver b ll (π d) dp) := by
  have hllb : ll < b.lines.size := by rw [← h2]; exact (lk.lineLt ll' h1).1
  have hdb : π d < b.nodes.size := lk.nodeLt d hd
  obtain ⟨sa1, sa2, sa3⟩ := setDriver_sizes a ll' d dp
  obtain ⟨sb1, sb2, sb3⟩ := setDriver_sizes b ll (π d) dp
  have hψ : ∀ l, l < a.lines.size → (ll = ψ l ↔ ll' = l) := by
    intro l hl
    constructor
    · intro e; exact lk.lineInj ll' l h1 hl (h2.trans e)
    · intro e; rw [← e]; exact h2.symm
  have hπ : ∀ x, (π x = π d ↔ x = d) := fun x => ⟨fun e => lk.πinj x d e, fun e => by rw [e]⟩
  have hfk : ∀ x, ((setDriver a ll' d dp).node x).isFork = (a.node x).isFork := by
    intro x; rw [setDriver_node]; split <;> rfl
  refine ⟨lk.πinj, ?_, ?_, ?_, ?_, ?_, ?_, ?_, ?_, ?_, ?_, ?_, ?_, ?_⟩
  · intro x hx; rw [sa1] at hx; rw [sb1]; exact lk.nodeLt x hx
  · intro x hx
    rw [sa1] at hx
    rw [setDriver_node, setDriver_node]
    have := lk.kind x hx
    split <;> split <;> exact this
  · rw [sa3, sb3]; exact lk.io
  · intro x k hx
    rw [sa1] at hx
    rw [setDriver_node, setDriver_node]
    have := lk.ins x k hx
    split <;> split <;> exact this
  · intro x k hx ho
    rw [sa1] at hx
    rw [setDriver_node, setDriver_node]
    by_cases e : x = d
    · subst e
      simp only [hd, hdb, and_self, if_true]
      rw [getD_growSet, getD_growSet]
      by_cases ek : k = dp
      · simp [ek, h2]
      · simp only [ek, if_false]; exact lk.outs x k hx ho
    · have : ¬ π x = π d := fun e' => e ((hπ x).mp e')
      simp only [e, this, false_and, if_false]; exact lk.outs x k hx ho
  · intro l hl; rw [sa2] at hl; rw [sb2]; exact lk.lineLt l hl
  · intro l1 l2 a1 a2; rw [sa2] at a1 a2; exact lk.lineInj l1 l2 a1 a2
  · intro l' hl' hg; rw [sb2] at hl'; rw [sa2]; exact lk.lineSurj l' hl' hg
  · intro l hl hpo'
    rw [sa2] at hl
    rw [setDriver_line a _ _ _ _ hl, setDriver_line b _ _ _ _ (lk.lineLt l hl).1, sa1]
    by_cases e : ll' = l
    · have e' : ll = ψ l := (hψ l hl).mpr e
      rw [if_pos e, if_pos e']
      exact ⟨hd, rfl, Or.inl rfl⟩
    · have e' : ¬ ll = ψ l := fun x => e ((hψ l hl).mp x)
      rw [if_neg e, if_neg e']
      obtain ⟨d1, d2, d3⟩ := lk.drv l hl (fun hp => hpo' ⟨hp, fun x => e' x.symm⟩)
      exact ⟨d1, d2, by rw [hfk]; exact d3⟩
  · intro l hl hpi'
    rw [sa2] at hl
    obtain ⟨r1, r2, r3⟩ := lk.rdr l hl hpi'
    rw [setDriver_line a _ _ _ _ hl, setDriver_line b _ _ _ _ (lk.lineLt l hl).1, sa1]
    by_cases e : ll' = l
    · have e' : ll = ψ l := (hψ l hl).mpr e
      rw [if_pos e, if_pos e']
      exact ⟨r1, r2, r3⟩
    · have e' : ¬ ll = ψ l := fun x => e ((hψ l hl).mp x)
      rw [if_neg e, if_neg e']
      exact ⟨r1, r2, r3⟩
  · intro x k l hp
    rw [sa2]
    have hp' : (a.node x).ins.getD k none = some l := by
      rw [setDriver_node] at hp
      split at hp <;> exact hp
    exact lk.insLt x k l hp'
  · intro x k l ho hp
    rw [sa2]
    rw [setDriver_node] at hp
    split at hp
    · rw [getD_growSet] at hp
      split at hp
      · have : l = ll' := (Option.some.inj hp).symm
        subst this
        exact ⟨h1, by rw [h2]; exact hpi⟩
      · exact lk.outsLt x k l ho hp
    · exact lk.outsLt x k l ho hp
  · intro d0 hd0 hno
    rw [sa1] at hd0
    have w := lk.host d0 hd0 hno
    have hne : d0 ≠ d := fun e => hno (e ▸ hown)
    have hn : ((setDriver a ll' d dp).node d0).outs = (a.node d0).outs := by
      rw [setDriver_node]; simp [hne]
    have hln : ∀ y, y < a.lines.size → y ≠ ll' → (setDriver a ll' d dp).line y = a.line y := by
      intro y hy hne'
      rw [setDriver_line a _ _ _ _ hy, if_neg (fun e => hne' e.symm)]
    refine ⟨by rw [sa1]; exact hd0, ?_, ?_⟩
    · intro p y hp
      rw [hn] at hp
      obtain ⟨q1, q2, q3, q4⟩ := w.fwd p y hp
      have hy : y ≠ ll' := fun e => q4 (by rw [e, h2]; exact hpo)
      rw [sa2, hln y q1 hy]
      exact ⟨q1, q2, q3, fun hc => q4 hc.1⟩
    · intro y hy hex hdy
      rw [sa2] at hy
      by_cases e : y = ll'
      · subst e
        rw [setDriver_line a _ _ _ _ hy] at hdy
        simp at hdy
        exact absurd hdy.symm hne
      · rw [hln y hy e] at hdy ⊢
        rw [hn]
        apply w.back y hy _ hdy
        intro hp
        apply hex
        refine ⟨hp, fun e' => e ?_⟩
        exact lk.lineInj y ll' hy h1 (e'.trans h2.symm)

end steps
end KV.Transform
