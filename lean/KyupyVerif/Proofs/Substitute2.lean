import KyupyVerif.Proofs.Substitute
/-! Helper lemmas for C10 (`substitute`), part 2: the observables (`kindNames`, port names) through the phases of
`substituteCore`, and the top-level statements about ports and state elements. -/
namespace KV.Transform
open KV

/-- every entry of `node_map` is a node of the host -/
def MapLt (map : Array (Option Nat)) (n : Nat) : Prop := ∀ k x, map.getD k none = some x → x < n

theorem mapLt_set (map : Array (Option Nat)) (n j v : Nat) (h : MapLt map n) (hv : v < n) :
    MapLt (map.setIfInBounds j (some v)) n := by
  intro k x hx
  simp only [Array.getD_eq_getD_getElem?, Array.getElem?_setIfInBounds] at hx
  split at hx
  · split at hx
    · simp at hx; omega
    · exact h k x (by simpa [Array.getD_eq_getD_getElem?] using hx)
  · exact h k x (by simpa [Array.getD_eq_getD_getElem?] using hx)

theorem MapLt.mono {map : Array (Option Nat)} {n n' : Nat} (h : MapLt map n) (hn : n ≤ n') : MapLt map n' :=
  fun k x hx => Nat.lt_of_lt_of_le (h k x hx) hn

theorem addImplNode_obs (m : NNet) (hn : String) (des : Option Nat) (st st' : NNet × Array (Option Nat)) (j : Nat)
    (he : addImplNode m hn des st j = some st') (li : LI st.1) (hm : MapLt st.2 st.1.net.nodes.size) :
    st'.1.kindNames = st.1.kindNames ++ (addedOne m hn des j).toList ∧ st'.1.ioNames = st.1.ioNames ∧ LI st'.1 ∧
    st'.1.net.io = st.1.net.io ∧ st.1.net.nodes.size ≤ st'.1.net.nodes.size ∧ MapLt st'.2 st'.1.net.nodes.size := by
  have hadd : ∀ kind, (addNode st.1 (hn ++ "~" ++ m.names.getD j "") kind).map
        (fun h' => (h', st.2.setIfInBounds j (some st.1.net.nodes.size))) = some st' →
      st'.1.kindNames = st.1.kindNames ++ [(kind, hn ++ "~" ++ m.names.getD j "")] ∧ st'.1.ioNames = st.1.ioNames ∧ LI st'.1 ∧
      st'.1.net.io = st.1.net.io ∧ st.1.net.nodes.size ≤ st'.1.net.nodes.size ∧ MapLt st'.2 st'.1.net.nodes.size := by
    intro kind h
    simp only [Option.map_eq_some_iff] at h
    obtain ⟨h', h1, e⟩ := h
    subst e
    have o := addNode_obs st.1 h' _ kind h1 li
    refine ⟨o.1, o.2.1, o.2.2.1, o.2.2.2.2, by rw [o.2.2.2.1]; omega, ?_⟩
    show MapLt (st.2.setIfInBounds j (some st.1.net.nodes.size)) h'.net.nodes.size
    rw [o.2.2.2.1]
    exact mapLt_set _ _ _ _ (hm.mono (by omega)) (by omega)
  have hsame : some st = some st' →
      st'.1.kindNames = st.1.kindNames ++ [] ∧ st'.1.ioNames = st.1.ioNames ∧ LI st'.1 ∧
      st'.1.net.io = st.1.net.io ∧ st.1.net.nodes.size ≤ st'.1.net.nodes.size ∧ MapLt st'.2 st'.1.net.nodes.size := by
    intro h; cases h
    exact ⟨by simp, rfl, li, rfl, Nat.le_refl _, hm⟩
  unfold addImplNode at he
  unfold addedOne
  dsimp only at he ⊢
  split at he
  · rename_i c1
    rw [if_pos c1]
    split at he
    · rename_i c2
      rw [if_pos c2]; exact hadd _ he
    · rename_i c2
      rw [if_neg c2]; exact hsame he
  · rename_i c1
    rw [if_neg c1]
    split at he
    · rename_i c2
      rw [if_pos c2]; exact hadd _ he
    · rename_i c2
      rw [if_neg c2]
      split at he
      · rename_i c3
        rw [if_pos c3]; exact hadd _ he
      · rename_i c3
        rw [if_neg c3]; exact hsame he

theorem foldlM_addImplNode_obs (m : NNet) (hn : String) (des : Option Nat) :
    ∀ (js : List Nat) (st st' : NNet × Array (Option Nat)), js.foldlM (addImplNode m hn des) st = some st' →
    LI st.1 → MapLt st.2 st.1.net.nodes.size →
    st'.1.kindNames = st.1.kindNames ++ js.filterMap (addedOne m hn des) ∧ st'.1.ioNames = st.1.ioNames ∧ LI st'.1 ∧
    st'.1.net.io = st.1.net.io ∧ st.1.net.nodes.size ≤ st'.1.net.nodes.size ∧ MapLt st'.2 st'.1.net.nodes.size
  | [], st, st', h, li, hm => by
    simp only [List.foldlM_nil] at h
    cases (Option.some.inj h)
    exact ⟨by simp, rfl, li, rfl, Nat.le_refl _, hm⟩
  | j :: js, st, st', h, li, hm => by
    simp only [List.foldlM_cons, Option.bind_eq_bind, Option.bind_eq_some_iff] at h
    obtain ⟨s1, h1, h2⟩ := h
    have o1 := addImplNode_obs m hn des st s1 j h1 li hm
    have o2 := foldlM_addImplNode_obs m hn des js s1 st' h2 o1.2.2.1 o1.2.2.2.2.2
    refine ⟨?_, o2.2.1.trans o1.2.1, o2.2.2.1, o2.2.2.2.1.trans o1.2.2.2.1, Nat.le_trans o1.2.2.2.2.1 o2.2.2.2.2.1, o2.2.2.2.2.2⟩
    rw [o2.1, o1.1, List.append_assoc]
    congr 1
    cases hao : addedOne m hn des j <;> simp [List.filterMap_cons, hao]

theorem getD_replicate_none (n k : Nat) : (Array.replicate n (none : Option Nat)).getD k none = none := by
  simp only [Array.getD_eq_getD_getElem?, Array.getElem?_replicate]
  split <;> rfl

theorem kindAt_modify_const (ns : Array NodeD) (c j : Nat) (x : NodeD) :
    kindAt (ns.modify c fun _ => x) j = if j = c ∧ c < ns.size then x.kind else kindAt ns j := by
  simp only [kindAt, Array.getD_eq_getD_getElem?, Array.getElem?_modify]
  by_cases e : c = j
  · subst e
    by_cases hc : c < ns.size
    · simp [hc, Array.getElem?_eq_getElem hc]
    · simp [hc, Array.getElem?_eq_none (by omega : ns.size ≤ c)]
  · have : ¬ j = c := fun x => e x.symm
    simp [e, this]

theorem phase1_some_obs (h : NNet) (c : Nat) (m : NNet) (dn : Nat) (li : LI h) (hc : c < h.net.nodes.size) :
    (phase1 h c m (some dn)).1.kindNames = h.kindNames.set c ((m.net.node dn).kind, h.names.getD c "") ∧
    (phase1 h c m (some dn)).1.ioNames = h.ioNames ∧ LI (phase1 h c m (some dn)).1 ∧
    MapLt (phase1 h c m (some dn)).2 (phase1 h c m (some dn)).1.net.nodes.size := by
  simp only [phase1]
  refine ⟨?_, rfl, ⟨by simpa using li.1, by simpa using li.2⟩, ?_⟩
  · rw [kindNames_eq, kindNames_eq]
    simp only [Array.size_modify]
    apply List.ext_getElem?
    intro x
    rw [List.getElem?_set]
    simp only [List.getElem?_map, List.length_map, List.length_range, hc, if_true]
    by_cases hx : x < h.net.nodes.size
    · rw [List.getElem?_range hx]
      simp only [Option.map_some, kindAt_modify_const]
      by_cases e : c = x
      · subst e; simp [hc]
      · have : ¬ x = c := fun y => e y.symm
        simp [e, this]
    · rw [List.getElem?_eq_none (by simp; omega)]
      have : ¬ c = x := by omega
      simp [this]
  · simp only [Array.size_modify]
    apply mapLt_set _ _ _ _ _ hc
    intro k x hx
    rw [getD_replicate_none] at hx
    exact absurd hx (by simp)

theorem phase1_none_obs (h : NNet) (c : Nat) (m : NNet) (li : LI h) (hc : c < h.net.nodes.size)
    (hio : h.net.io.contains c = false) :
    (phase1 h c m none).1.kindNames.Perm (h.kindNames.eraseIdx c) ∧
    (phase1 h c m none).1.ioNames = h.ioNames ∧ LI (phase1 h c m none).1 ∧
    MapLt (phase1 h c m none).2 (phase1 h c m none).1.net.nodes.size := by
  have d := delNode_obs h c li hc hio
  simp only [phase1]
  refine ⟨d.2.2, d.2.1, d.1, ?_⟩
  intro k x hx
  rw [getD_replicate_none] at hx
  exact absurd hx (by simp)

/-- the intermediate results of `substituteCore` -/
theorem substituteCore_inv (h : NNet) (c : Nat) (m : NNet) (sh : Shape) (hs : implShape m = some sh)
    (h5 : NNet) (map : Array (Option Nat)) (dang : List (Option Nat)) (he : substituteCore h c m = some (h5, map, dang)) :
    ∃ h2 net4 ren net5,
      (h.net.node c).ins.length ≤ sh.inPorts.length ∧ (h.net.node c).outs.length ≤ sh.outLines.length ∧
      (List.range m.net.nodes.size).foldlM (addImplNode m (h.names.getD c "") sh.des) (phase1 h c m sh.des) = some (h2, map) ∧
      connectIns m map (sh.inPorts.zip (padTo (h.net.node c).ins sh.inPorts.length)) (phase3 m map h2, id) = some (net4, ren) ∧
      connectOuts m map (sh.outLines.zip ((padTo (h.net.node c).outs sh.outLines.length).map ren)) (net4, []) = some (net5, dang) ∧
      h5 = { h2 with net := net5 } := by
  unfold substituteCore at he
  rw [hs] at he
  dsimp only at he
  split at he
  · exact absurd he (by simp)
  · rename_i hpins
    split at he
    · exact absurd he (by simp)
    · rename_i h2 map' hfold
      split at he
      · exact absurd he (by simp)
      · rename_i net4 ren hci
        split at he
        · exact absurd he (by simp)
        · rename_i net5 dang' hco
          simp only [Option.some.injEq, Prod.mk.injEq] at he
          obtain ⟨e1, e2, e3⟩ := he
          subst e2; subst e3
          simp only [Bool.or_eq_true, decide_eq_true_eq, not_or, Nat.not_lt] at hpins
          exact ⟨h2, net4, ren, net5, hpins.1, hpins.2, hfold, hci, hco, e1.symm⟩

theorem substituteCore_obs (h : NNet) (c : Nat) (m : NNet) (sh : Shape) (hs : implShape m = some sh)
    (h5 : NNet) (map : Array (Option Nat)) (dang : List (Option Nat)) (he : substituteCore h c m = some (h5, map, dang))
    (li : LI (phase1 h c m sh.des).1) (hm : MapLt (phase1 h c m sh.des).2 (phase1 h c m sh.des).1.net.nodes.size) :
    h5.kindNames = (phase1 h c m sh.des).1.kindNames ++ addedKN m (h.names.getD c "") sh.des ∧
    h5.ioNames = (phase1 h c m sh.des).1.ioNames ∧ LI h5 ∧ MapLt map h5.net.nodes.size := by
  obtain ⟨h2, net4, ren, net5, _, _, hfold, hci, hco, e⟩ := substituteCore_inv h c m sh hs h5 map dang he
  have o := foldlM_addImplNode_obs m _ sh.des _ _ _ hfold li hm
  have p3 := pinsOnly_phase3 m map h2
  have p4 := pinsOnly_connectIns m map _ _ _ hci
  have p5 := pinsOnly_connectOuts m map _ _ _ hco
  have po : PinsOnly h2.net h5.net := by
    subst e; exact p3.trans (p4.trans p5)
  have hn : h5.names = h2.names := by subst e; rfl
  have ob := obs_of_pinsOnly h2 h5 po hn
  refine ⟨by rw [ob.1, o.1]; rfl, ob.2.1.trans o.2.1, ob.2.2 o.2.2.1, ?_⟩
  rw [po.1.1]; exact o.2.2.2.2.2

end KV.Transform
