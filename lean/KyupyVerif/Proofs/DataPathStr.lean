import KyupyVerif.Proofs.DataPathArr
/-! String level of the data path: `simStrings` = `mv_str ∘ simArr ∘ mvarray`, generic in the arity; independence of a pattern's
result from the other patterns; the one-pattern (1-D) form. -/
namespace KV.DP
open KV KV.Sig KV.Cycle KV.Enc

section
variable {A : Nat → Type} {β : Type} (C : ∀ nb, Codec (A nb)) (ln : ∀ nb, Nat → A nb → β) (ofCode : Nat → β) (code : β → Nat)
  (keep : Nat) (semW : ∀ nb, Nat → List (A nb) → A nb) (semL : Nat → List β → β)

/-- **a pattern's result depends on that pattern only**: two arrays (any pattern counts `P`, `P'`) that carry the same values
    in pattern `p` resp. `p'` give the same results there — the other patterns, the position inside the batch, the number of
    patterns and the padding lanes are irrelevant -/
theorem simArr_indep (V : ∀ nb, LaneView (C nb) nb (ln nb) ofCode code keep)
    (hl : ∀ nb p, p < 8 * nb → ∀ (ops : List Op) (env : Nat → A nb) (l : Nat),
      ln nb p (exec (semW nb) ops env l) = exec semL ops (fun x => ln nb p (env x)) l)
    (tbl : List PrefixRow) (net : Net) (order : List Nat) (strip : Bool) (a a' : Arr Nat)
    (hwf : a.wf = true) (hS : a.lead = [net.sNodes.length]) (hwf' : a'.wf = true) (hS' : a'.lead = [net.sNodes.length])
    (p p' : Nat) (hp : p < a.last) (hp' : p' < a'.last)
    (hcol : a.rows.map (·.getD p 0) = a'.rows.map (·.getD p' 0)) :
    ∃ r r', simArr C (fun nb op => semW nb op.code) tbl net order strip a = some r ∧
      simArr C (fun nb op => semW nb op.code) tbl net order strip a' = some r' ∧
      ∀ q, q < net.sNodes.length → (r.rows.getD q []).getD p 0 = (r'.rows.getD q []).getD p' 0 := by
  obtain ⟨r, hr, _, _, _, he⟩ := simArr_entries C ln ofCode code keep semW semL V hl tbl net order strip a hwf hS
  obtain ⟨r', hr', _, _, _, he'⟩ := simArr_entries C ln ofCode code keep semW semL V hl tbl net order strip a' hwf' hS'
  refine ⟨r, r', hr, hr', fun q hq => ?_⟩
  rw [he q p hq hp, he' q p' hq hp']
  have : column ofCode a p = column ofCode a' p' := by
    have := congrArg (List.map ofCode) hcol
    simpa [column, List.map_map, Function.comp_def] using this
  rw [this]

/-- a 1-D array (one pattern string) is the one-column 2-D array -/
theorem simArr_1d (sem : ∀ nb, Op → List (A nb) → A nb) (tbl : List PrefixRow) (net : Net) (order : List Nat) (strip : Bool)
    (v : List Nat) :
    simArr C sem tbl net order strip ⟨[], v.length, [v]⟩ = simArr C sem tbl net order strip ⟨[v.length], 1, v.map ([·])⟩ := by
  simp [simArr, mvToBp, patterns]

/-- column `p` of the array `mvarray` makes of the strings `ss` is string `p`, character by character interpreted -/
theorem column_mvarray (itbl : List (Nat × Nat)) (ss : List (List Nat)) (S : Nat) (hu : ∀ s ∈ ss, s.length = S) (p : Nat)
    (hp : p < ss.length) :
    ((List.range S).map fun j => (ss.map (·.map (interpretWith itbl))).map (·.getD j 0)).map (fun row => ofCode (row.getD p 0))
      = (ss.getD p []).map fun c => ofCode (interpretWith itbl c) := by
  have hsp : ss.getD p [] = ss[p] := by simp [List.getD_eq_getElem?_getD, List.getElem?_eq_getElem hp]
  have hlen : ss[p].length = S := hu _ (List.getElem_mem hp)
  rw [hsp, List.map_map, ← range_map_getD ss[p] 0, hlen]
  apply range_map_congr
  intro j hj
  simp only [Function.comp, List.map_map]
  congr 1
  simp [List.getD_eq_getElem?_getD, List.getElem?_map, List.getElem?_eq_getElem hp, hlen, hj]

/-- **(T-C) string level, every arity**: `P ≥ 2` pattern strings of length `S = len(s_nodes) ≠ 1` in, `P` result strings out
    (one line per pattern, joined by `delim`): character `q` of line `p` renders the code of the one-lane simulation of string
    `p` (its characters interpreted) at the signal position `q` captures; `chars[2]` (UNASSIGNED) where nothing is captured. -/
theorem simStrings_eq (V : ∀ nb, LaneView (C nb) nb (ln nb) ofCode code keep)
    (hl : ∀ nb p, p < 8 * nb → ∀ (ops : List Op) (env : Nat → A nb) (l : Nat),
      ln nb p (exec (semW nb) ops env l) = exec semL ops (fun x => ln nb p (env x)) l)
    (hcode : ∀ b, code b < 8) (itbl : List (Nat × Nat)) (chars delim : List Nat) (hch : 8 ≤ chars.length)
    (tbl : List PrefixRow) (net : Net) (order : List Nat) (strip : Bool) (ss : List (List Nat))
    (hu : ∀ s ∈ ss, s.length = net.sNodes.length) (hP : 2 ≤ ss.length) (hS1 : net.sNodes.length ≠ 1) :
    simStrings C (fun nb op => semW nb op.code) itbl chars delim tbl net order strip ss =
      some (delim.intercalate ((List.range ss.length).map fun p => (List.range net.sNodes.length).map fun q =>
        chars.getD (if isPoppo net q then
          code (laneRun ofCode semL tbl net order strip ((ss.getD p []).map fun c => ofCode (interpretWith itbl c))
            (capSig net strip q)) else 2) 0)) := by
  unfold simStrings
  rw [mvarray_2d itbl ss _ hu hP hS1]
  simp only [Option.bind_some]
  obtain ⟨r, hr, hlead, hlast, hrwf, he⟩ := simArr_entries C ln ofCode code keep semW semL V hl tbl net order strip
    ⟨[net.sNodes.length], ss.length, (List.range net.sNodes.length).map fun j =>
      (ss.map (·.map (interpretWith itbl))).map (·.getD j 0)⟩ (by simp [wf_iff]) rfl
  rw [hr]
  simp only [Option.bind_some]
  obtain ⟨hrlen, hrrow⟩ := (wf_iff r).mp hrwf
  have hrlen' : r.rows.length = net.sNodes.length := by rw [hrlen, hlead]; simp
  simp only at hlast he
  have hlt : ∀ q p, q < net.sNodes.length → p < ss.length → (r.rows.getD q []).getD p 0 < 8 := by
    intro q p hq hp
    rw [he q p hq hp]
    split
    · exact hcode _
    · omega
  have hany : r.rows.any (·.any (· ≥ chars.length)) = false := by
    rw [List.any_eq_false]
    intro row hrow
    rw [Bool.not_eq_true, List.any_eq_false]
    intro x hx
    obtain ⟨q, hq, rfl⟩ := List.getElem_of_mem hrow
    obtain ⟨p, hp, rfl⟩ := List.getElem_of_mem hx
    have hpl : p < ss.length := by rw [← hlast, ← hrrow _ hrow]; exact hp
    have := hlt q p (by omega) hpl
    simp only [List.getD_eq_getElem?_getD, List.getElem?_eq_getElem hq, Option.getD_some,
      List.getElem?_eq_getElem hp] at this
    simp only [ge_iff_le, decide_eq_true_eq, Nat.not_le]
    omega
  simp only [mvStr, hany, Bool.false_eq_true, if_false, hlead, hlast]
  congr 2
  apply range_map_congr
  intro p hp
  rw [← range_map_getD r.rows [], hrlen']
  apply range_map_congr
  intro q hq
  rw [he q p hq hp]
  simp only [column, column_mvarray ofCode itbl ss _ hu p hp]

/-- **one pattern string** (`P = 1`, any `S`): `mvarray` gives a 1-D array, `mv_to_bp` reads it as one pattern; the result is one
    line -/
theorem simStrings_single (V : ∀ nb, LaneView (C nb) nb (ln nb) ofCode code keep)
    (hl : ∀ nb p, p < 8 * nb → ∀ (ops : List Op) (env : Nat → A nb) (l : Nat),
      ln nb p (exec (semW nb) ops env l) = exec semL ops (fun x => ln nb p (env x)) l)
    (hcode : ∀ b, code b < 8) (itbl : List (Nat × Nat)) (chars delim : List Nat) (hch : 8 ≤ chars.length)
    (tbl : List PrefixRow) (net : Net) (order : List Nat) (strip : Bool) (s : List Nat) (hu : s.length = net.sNodes.length) :
    simStrings C (fun nb op => semW nb op.code) itbl chars delim tbl net order strip [s] =
      some ((List.range net.sNodes.length).map fun q =>
        chars.getD (if isPoppo net q then
          code (laneRun ofCode semL tbl net order strip (s.map fun c => ofCode (interpretWith itbl c)) (capSig net strip q))
          else 2) 0) := by
  unfold simStrings
  rw [mvarray_single]
  simp only [Option.bind_some]
  have h1 := simArr_1d C (fun nb op => semW nb op.code) tbl net order strip (s.map (interpretWith itbl))
  rw [List.length_map] at h1
  rw [h1]
  obtain ⟨r, hr, hlead, hlast, hrwf, he⟩ := simArr_entries C ln ofCode code keep semW semL V hl tbl net order strip
    ⟨[s.length], 1, (s.map (interpretWith itbl)).map ([·])⟩ (by simp [wf_iff]) (by rw [hu])
  rw [hr]
  simp only [Option.bind_some]
  obtain ⟨hrlen, hrrow⟩ := (wf_iff r).mp hrwf
  have hrlen' : r.rows.length = net.sNodes.length := by rw [hrlen, hlead]; simp
  simp only at hlast he
  have hcol : column ofCode (⟨[s.length], 1, (s.map (interpretWith itbl)).map ([·])⟩ : Arr Nat) 0 =
      s.map fun c => ofCode (interpretWith itbl c) := by
    simp [column, List.map_map, Function.comp_def]
  have hlt : ∀ q, q < net.sNodes.length → (r.rows.getD q []).getD 0 0 < 8 := by
    intro q hq
    rw [he q 0 hq (by omega)]
    split
    · exact hcode _
    · omega
  have hany : r.rows.any (·.any (· ≥ chars.length)) = false := by
    rw [List.any_eq_false]
    intro row hrow
    rw [Bool.not_eq_true, List.any_eq_false]
    intro x hx
    obtain ⟨q, hq, rfl⟩ := List.getElem_of_mem hrow
    obtain ⟨p, hp, rfl⟩ := List.getElem_of_mem hx
    have hpl : p < 1 := by rw [← hlast, ← hrrow _ hrow]; exact hp
    have hp0 : p = 0 := by omega
    subst hp0
    have := hlt q (by omega)
    simp only [List.getD_eq_getElem?_getD, List.getElem?_eq_getElem hq, Option.getD_some,
      List.getElem?_eq_getElem hp] at this
    simp only [ge_iff_le, decide_eq_true_eq, Nat.not_le]
    omega
  simp only [mvStr, hany, Bool.false_eq_true, if_false, hlead, hlast]
  simp only [List.range_one, List.map_cons, List.map_nil, List.intercalate]
  simp only [List.intersperse_singleton, List.flatten_cons, List.flatten_nil, List.append_nil]
  congr 1
  rw [← range_map_getD r.rows [], hrlen']
  apply range_map_congr
  intro q hq
  rw [he q 0 hq (by omega), hcol]

end

end KV.DP
