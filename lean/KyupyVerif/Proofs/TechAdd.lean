import KyupyVerif.Proofs.TechChk
import KyupyVerif.Proofs.TechCells
/-! kernel evaluation of the C19 function checker on the half and full adders of all chunks -/
namespace KV.Tech
open KV.TL KV.DS

theorem adders : ∀ ch ∈ Gen.techChunks, ch.all (funOK (·.isAdder)) = true := by decide +kernel

end KV.Tech
