import KyupyVerif.Model.Stil
/-! Pattern assembly from the call list (`StilFile.__init__`, stil.py:28-56; model `Stil.extract`): what it yields on a call list of
the shape ATPG tools write — `load_unload`, optionally a `*_launch` call, a `*_capture` call, …, and a closing `load_unload`.
Pattern `k` = the load of the `k`-th `load_unload`, the launch / capture parameters of the calls behind it, and the UNLOAD of the
NEXT `load_unload` (the closing one for the last pattern); a block without launch call has the empty launch dictionary (not the
previous pattern's); strings cleaned (`\n` removed, `N` → `-`). -/
namespace KV.Stil

/-- one pattern block of the call list: `load_unload` with parameters `lu`, optionally a launch call, a capture call -/
structure Blk where
  /-- `load_unload` calls in front of the block's own that no capture follows: their loads are overwritten (no pattern results
      from them), but the FIRST of them unloads the pending pattern -/
  pre : List Dict := []
  lu : Dict
  la : Option (String × Dict)
  capName : String
  ca : Dict
deriving Repr, Inhabited

/-- the calls of a block behind its `load_unload` -/
def Blk.tail (b : Blk) : List Call :=
  (match b.la with | none => [] | some (n, d) => [⟨n, d⟩]) ++ [⟨b.capName, b.ca⟩]

def lus (ds : List Dict) : List Call := ds.map fun d => ⟨"load_unload", d⟩

def Blk.calls (b : Blk) : List Call := lus b.pre ++ ⟨"load_unload", b.lu⟩ :: b.tail

/-- the parameters that unload the pattern pending in front of the block: those of the first `load_unload` of the block -/
def Blk.unloadSrc (b : Blk) : Dict := match b.pre with | [] => b.lu | d :: _ => d

/-- the names are what they have to be: the launch call ends in `_launch` only, the capture call in `_capture` only, neither is
    `load_unload`, and the capture call has at least one parameter (`len(capture) > 0` is the code's "a pattern is pending") -/
def Blk.ok (b : Blk) : Bool :=
  (match b.la with
   | none => true
   | some (n, _) => endsWith n "_launch" && !endsWith n "_capture" && !(n == "load_unload")) &&
  endsWith b.capName "_capture" && !endsWith b.capName "_launch" && !(b.capName == "load_unload") && decide (b.ca.length > 0)

def Blk.launch (b : Blk) : Dict := match b.la with | none => [] | some (_, d) => cleanDict d

/-- a pending pattern `(load, launch, capture)` is closed by the next `load_unload` -/
def closeAll (siP soP : List String) (sl la ca : Dict) : List Blk → Dict → List Pat
  | [], fin => [⟨sl, la, ca, pick soP fin⟩]
  | b :: r, fin => ⟨sl, la, ca, pick soP b.unloadSrc⟩ :: closeAll siP soP (pick siP b.lu) b.launch (cleanDict b.ca) r fin

/-- the expected pattern list of a block list with closing `load_unload` parameters `fin` -/
def expectPats (siP soP : List String) : List Blk → Dict → List Pat
  | [], _ => []
  | b :: r, fin => closeAll siP soP (pick siP b.lu) b.launch (cleanDict b.ca) r fin

def callsOf (bs : List Blk) (fin : Dict) : List Call := bs.flatMap Blk.calls ++ [⟨"load_unload", fin⟩]

theorem callsOf_nil (fin : Dict) : callsOf [] fin = [⟨"load_unload", fin⟩] := rfl
theorem callsOf_cons (b : Blk) (r : List Blk) (fin : Dict) :
    callsOf (b :: r) fin = lus b.pre ++ ⟨"load_unload", b.lu⟩ :: (b.tail ++ callsOf r fin) := by
  simp [callsOf, Blk.calls]

theorem lu_not_launch : endsWith "load_unload" "_launch" = false := by decide
theorem lu_not_capture : endsWith "load_unload" "_capture" = false := by decide

/-- the closing / a block's `load_unload` in a state with a pending pattern -/
theorem xstep_lu_pending (siP soP : List String) (st : XSt) (ps : Dict) (h : st.capture.length > 0) :
    xstep siP soP st ⟨"load_unload", ps⟩ =
      { launch := [], capture := [], sload := pick siP ps,
        pats := st.pats ++ [⟨st.sload, st.launch, st.capture, pick soP ps⟩] } := by
  simp [xstep, lu_not_launch, lu_not_capture, h]

theorem xstep_lu_idle (siP soP : List String) (st : XSt) (ps : Dict) (h : st.capture = []) :
    xstep siP soP st ⟨"load_unload", ps⟩ = { st with sload := pick siP ps } := by
  simp [xstep, lu_not_launch, lu_not_capture, h]

/-- `load_unload` calls in a state without pending pattern only overwrite the load -/
theorem lus_idle (siP soP : List String) (ds : List Dict) (st : XSt) (h : st.capture = []) :
    ∃ sl, (lus ds).foldl (xstep siP soP) st = { st with sload := sl } := by
  induction ds generalizing st with
  | nil => exact ⟨st.sload, rfl⟩
  | cons d r ih =>
    obtain ⟨sl, hsl⟩ := ih { st with sload := pick siP d } h
    refine ⟨sl, ?_⟩
    show (lus r).foldl (xstep siP soP) (xstep siP soP st ⟨"load_unload", d⟩) = _
    rw [xstep_lu_idle siP soP st d h, hsl]

/-- the `load_unload` calls at the head of a block, no pattern pending -/
theorem heads_idle (siP soP : List String) (b : Blk) (st : XSt) (h : st.capture = []) :
    xstep siP soP ((lus b.pre).foldl (xstep siP soP) st) ⟨"load_unload", b.lu⟩ = { st with sload := pick siP b.lu } := by
  obtain ⟨sl, hsl⟩ := lus_idle siP soP b.pre st h
  rw [hsl, xstep_lu_idle siP soP { st with sload := sl } b.lu h]

/-- the `load_unload` calls at the head of a block with a pattern pending: the first one closes it -/
theorem heads_pending (siP soP : List String) (b : Blk) (st : XSt) (h : st.capture.length > 0) :
    xstep siP soP ((lus b.pre).foldl (xstep siP soP) st) ⟨"load_unload", b.lu⟩ =
      { launch := [], capture := [], sload := pick siP b.lu,
        pats := st.pats ++ [⟨st.sload, st.launch, st.capture, pick soP b.unloadSrc⟩] } := by
  unfold Blk.unloadSrc
  cases hp : b.pre with
  | nil => exact xstep_lu_pending siP soP st b.lu h
  | cons d r =>
    show xstep siP soP ((lus r).foldl (xstep siP soP) (xstep siP soP st ⟨"load_unload", d⟩)) ⟨"load_unload", b.lu⟩ = _
    rw [xstep_lu_pending siP soP st d h]
    obtain ⟨sl, hsl⟩ := lus_idle siP soP r
      ⟨[], [], pick siP d, st.pats ++ [⟨st.sload, st.launch, st.capture, pick soP d⟩]⟩ rfl
    rw [hsl, xstep_lu_idle _ _ _ _ rfl]

theorem xstep_launch (siP soP : List String) (st : XSt) (n : String) (d : Dict)
    (h1 : endsWith n "_launch" = true) (h2 : endsWith n "_capture" = false) (h3 : (n == "load_unload") = false) :
    xstep siP soP st ⟨n, d⟩ = { st with launch := cleanDict d } := by
  simp [xstep, h1, h2, h3]

theorem xstep_capture (siP soP : List String) (st : XSt) (n : String) (d : Dict)
    (h1 : endsWith n "_capture" = true) (h2 : endsWith n "_launch" = false) (h3 : (n == "load_unload") = false) :
    xstep siP soP st ⟨n, d⟩ = { st with capture := cleanDict d } := by
  simp [xstep, h1, h2, h3]

theorem cleanDict_length (d : Dict) : (cleanDict d).length = d.length := by simp [cleanDict]

/-- the calls of one block behind its `load_unload`: launch (if any) and capture -/
theorem block_tail (siP soP : List String) (st : XSt) (b : Blk) (hb : b.ok = true) (hl : st.launch = []) :
    b.tail.foldl (xstep siP soP) st = { st with launch := b.launch, capture := cleanDict b.ca } := by
  unfold Blk.tail
  unfold Blk.ok at hb
  simp only [Bool.and_eq_true, Bool.not_eq_true', decide_eq_true_eq] at hb
  obtain ⟨⟨⟨⟨hla, hc1⟩, hc2⟩, hc3⟩, _⟩ := hb
  cases hb' : b.la with
  | none =>
    simp only [List.nil_append, List.foldl_cons, List.foldl_nil]
    rw [xstep_capture siP soP st _ _ hc1 hc2 hc3]
    simp [Blk.launch, hb', hl]
  | some nd =>
    obtain ⟨n, d⟩ := nd
    rw [hb'] at hla
    simp only [Bool.and_eq_true, Bool.not_eq_true'] at hla
    simp only [List.cons_append, List.nil_append, List.foldl_cons, List.foldl_nil]
    rw [xstep_launch siP soP st n d hla.1.1 hla.1.2 hla.2, xstep_capture siP soP _ _ _ hc1 hc2 hc3]
    simp [Blk.launch, hb']

/-- from a state with a pending pattern: the remaining blocks and the closing call append `closeAll` -/
theorem foldl_pending (siP soP : List String) (bs : List Blk) (fin : Dict) (st : XSt) (hb : ∀ b ∈ bs, b.ok = true)
    (h : st.capture.length > 0) :
    ((callsOf bs fin).foldl (xstep siP soP) st).pats = st.pats ++ closeAll siP soP st.sload st.launch st.capture bs fin := by
  induction bs generalizing st with
  | nil =>
    rw [callsOf_nil, List.foldl_cons, List.foldl_nil, xstep_lu_pending siP soP st fin h]
    rfl
  | cons b r ih =>
    have hbk := hb b List.mem_cons_self
    rw [callsOf_cons, List.foldl_append, List.foldl_cons, List.foldl_append, heads_pending siP soP b st h,
      block_tail siP soP _ b hbk rfl]
    have hcap : (cleanDict b.ca).length > 0 := by
      rw [cleanDict_length]
      unfold Blk.ok at hbk
      simp only [Bool.and_eq_true, decide_eq_true_eq] at hbk
      exact hbk.2
    have := ih { launch := b.launch, capture := cleanDict b.ca, sload := pick siP b.lu,
                 pats := st.pats ++ [⟨st.sload, st.launch, st.capture, pick soP b.unloadSrc⟩] }
      (fun b' hb' => hb b' (List.mem_cons_of_mem _ hb')) hcap
    rw [this]
    simp only [closeAll, List.append_assoc, List.singleton_append]

/-- **pattern assembly**: on `load_unload [launch] capture … load_unload` the pattern list is `expectPats` -/
theorem extract_blocks (groups : List (String × List String)) (chains : List Chain) (bs : List Blk) (fin : Dict)
    (hb : ∀ b ∈ bs, b.ok = true) :
    extract ⟨groups, chains, callsOf bs fin⟩ = expectPats (chains.map (·.si)) (chains.map (·.so)) bs fin := by
  unfold extract
  simp only []
  cases bs with
  | nil =>
    rw [callsOf_nil, List.foldl_cons, List.foldl_nil, xstep_lu_idle _ _ _ _ rfl]
    rfl
  | cons b r =>
    have hbk := hb b List.mem_cons_self
    rw [callsOf_cons, List.foldl_append, List.foldl_cons, List.foldl_append, heads_idle _ _ b _ rfl, block_tail _ _ _ b hbk rfl]
    have hcap : (cleanDict b.ca).length > 0 := by
      rw [cleanDict_length]
      unfold Blk.ok at hbk
      simp only [Bool.and_eq_true, decide_eq_true_eq] at hbk
      exact hbk.2
    have := foldl_pending (chains.map (·.si)) (chains.map (·.so)) r fin
      { launch := b.launch, capture := cleanDict b.ca, sload := pick (chains.map (·.si)) b.lu, pats := [] }
      (fun b' hb' => hb b' (List.mem_cons_of_mem _ hb')) hcap
    rw [this]
    simp only [expectPats, List.nil_append]

theorem closeAll_length (siP soP : List String) (sl la ca : Dict) (bs : List Blk) (fin : Dict) :
    (closeAll siP soP sl la ca bs fin).length = bs.length + 1 := by
  induction bs generalizing sl la ca with
  | nil => rfl
  | cons b r ih => simp only [closeAll, List.length_cons, ih]

/-- one pattern per block -/
theorem expectPats_length (siP soP : List String) (bs : List Blk) (fin : Dict) : (expectPats siP soP bs fin).length = bs.length := by
  cases bs with
  | nil => rfl
  | cons b r => simp only [expectPats, closeAll_length, List.length_cons]

/-- the load / launch / capture / unload of pattern `k`: block `k`'s own `load_unload`, launch and capture parameters; the unload
    comes from the `load_unload` of block `k + 1`, for the last block from the closing call -/
theorem closeAll_get (siP soP : List String) (sl la ca : Dict) (bs : List Blk) (fin : Dict) (k : Nat) (hk : k < bs.length + 1) :
    (closeAll siP soP sl la ca bs fin)[k]'(by rw [closeAll_length]; exact hk) =
      ⟨(match k with | 0 => sl | j + 1 => pick siP (bs.getD j default).lu),
       (match k with | 0 => la | j + 1 => (bs.getD j default).launch),
       (match k with | 0 => ca | j + 1 => cleanDict (bs.getD j default).ca),
       pick soP (if k < bs.length then (bs.getD k default).unloadSrc else fin)⟩ := by
  induction bs generalizing sl la ca k with
  | nil =>
    have : k = 0 := by simpa using hk
    subst this; rfl
  | cons b r ih =>
    cases k with
    | zero => simp [closeAll]
    | succ j =>
      simp only [closeAll, List.getElem_cons_succ]
      rw [ih _ _ _ j (by simpa using hk)]
      cases j with
      | zero => simp
      | succ i => simp

theorem expectPats_get (siP soP : List String) (bs : List Blk) (fin : Dict) (k : Nat) (hk : k < bs.length) :
    (expectPats siP soP bs fin)[k]'(by rw [expectPats_length]; exact hk) =
      ⟨pick siP bs[k].lu, bs[k].launch, cleanDict bs[k].ca,
       pick soP (if h : k + 1 < bs.length then bs[k + 1].unloadSrc else fin)⟩ := by
  cases bs with
  | nil => exact absurd hk (by simp)
  | cons b r =>
    simp only [expectPats]
    rw [closeAll_get siP soP _ _ _ r fin k (by simpa using hk)]
    cases k with
    | zero =>
      cases r with
      | nil => simp
      | cons b' r' => simp
    | succ j =>
      have hj : j < r.length := by simpa using hk
      simp only [List.getElem_cons_succ, List.length_cons, Nat.add_lt_add_iff_right]
      rw [show r.getD j default = r[j] from by simp [List.getD, hj]]
      by_cases h2 : j + 1 < r.length
      · simp [h2, List.getD]
      · simp [h2]

end KV.Stil
