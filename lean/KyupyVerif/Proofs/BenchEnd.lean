import KyupyVerif.Proofs.BenchSem
/-! What the interface nodes of `benchNet stmts` capture (`bench_captures`), soundness of the driver's acceptance check
(`benchModelB_sound`), and the link between `NetLabelling` and the row-level consistency notion `NetConsistent` of C02
(`netLabelling_consistent`, `netConsistent_labelling`; generic in the net). -/
namespace KV.Netlist
open KV KV.Sig

universe u
variable {stmts : List BStmt}

/-! ## captured values -/

theorem label_inLine {α : Type u} (hok : BenchOK stmts) (σ : String → α) (e : Ep) :
    (inLineOf (benchL stmts) e).map (benchLabel stmts σ) =
      if (benchL stmts).any (fun p => p.2 == e) then some (wOf stmts σ e) else none := by
  have hs := inLineOf_isSome (benchL stmts) e
  cases hl : inLineOf (benchL stmts) e with
  | none => rw [hl] at hs; simp only [Option.isSome_none] at hs; rw [← hs]; rfl
  | some j =>
    rw [hl] at hs; simp only [Option.isSome_some] at hs; rw [← hs]
    obtain ⟨p, hp1, hp2⟩ := inLineOf_some _ _ _ hl
    obtain ⟨hj, hpj⟩ := List.getElem?_eq_some_iff.mp hp1
    simp only [Option.map_some, if_true, Option.some.injEq]
    rw [benchLabel_eq σ j hj, hpj, ← wOf_line hok σ p (hpj ▸ List.getElem_mem hj), hp2]

/-- what is captured at the `s_nodes` positions under the labelling of an environment: a port defined by a gate statement shows
that signal, a state element its first operand, nothing elsewhere -/
theorem bench_captures {α : Type u} (hok : BenchOK stmts) (σ : String → α) :
    ((benchNet stmts).sNodes.map fun n => ((benchNet stmts).node n).inPin 0 |>.map (benchLabel stmts σ)) =
      benchCaptures stmts σ := by
  rw [benchNet_sNodes hok, List.map_map]
  unfold benchCaptures
  apply List.map_congr_left
  intro e he
  obtain ⟨hres, h0⟩ := sNames_resolved hok e he
  have hpin : ((benchNet stmts).node ((bench stmts).nodeIdx e)).inPin 0 = inLineOf (benchL stmts) e := by
    have := toNet_inPin_ep (bench stmts) (bench stmts).ioBench e hres
    rw [h0, bench_flat] at this
    exact this
  simp only [Function.comp_def, hpin]
  rw [label_inLine hok σ e]
  cases e with
  | fork s =>
    rw [any_reader_fork]
    rfl
  | cell n p =>
    have hp : p = 0 := h0
    subst hp
    unfold benchSNames at he
    simp only [List.mem_append, List.mem_map, List.mem_filter] at he
    have hg : ∃ g ∈ benchGates stmts, g.name = n := by
      rcases he with (⟨s, _, h⟩ | ⟨g, ⟨hg, _⟩, h⟩) | ⟨g, ⟨hg, _⟩, h⟩
      · cases h
      · exact ⟨g, hg, by simpa using h⟩
      · exact ⟨g, hg, by simpa using h⟩
    obtain ⟨g, hg, rfl⟩ := hg
    rw [any_reader_cell stmts hok g hg 0]
    simp only [find_gate hok g hg]
    cases hd : g.drv with
    | nil => simp
    | cons d r =>
      have hk : 0 < g.drv.length := by rw [hd]; simp
      have := wOf_cell hok g hg σ 0 hk
      simp only [hd, List.length_cons, Nat.zero_lt_succ, decide_true, if_true, List.head?_cons, Option.map_some,
        Option.some.injEq]
      rw [this]
      simp [hd]

/-! ## the driver's acceptance check -/

theorem benchModelB_sound {α : Type u} [BEq α] [LawfulBEq α] (z : α) (prim : String → α → α → α → α → α) (a : Nat → α)
    (tab : List (String × α)) (h : benchModelB stmts z prim a tab = true) :
    BenchModel stmts z prim a (envOf stmts z a tab) := by
  unfold benchModelB at h
  simp only [Bool.and_eq_true, List.all_eq_true, beq_iff_eq] at h
  refine ⟨fun g hg => h.1 g hg, fun s hs => ?_⟩
  unfold envOf lookupA
  cases hf : tab.find? (fun p => p.1 == s) with
  | none => rfl
  | some p =>
    exfalso
    have h1 := List.mem_of_find?_eq_some hf
    have h2 := List.find?_some hf
    have h3 := h.2 p h1
    have : p.1 = s := by simpa using h2
    rw [this, hs] at h3
    cases h3

/-! ## `NetLabelling` and the row-level notion `NetConsistent` (any net) -/

/-- a row-consistent valuation satisfies the gate equation on every line, when every line is written by a row -/
theorem netConsistent_labelling {α : Type u} (net : Net) (order : List Nat)
    (hall : linesDrivenB Gen.kindPrefixes net order = true) (neg : α → α) (prim : String → α → α → α → α → α)
    (env val : Nat → α) (hc : NetConsistent net order neg prim env val) :
    NetLabelling net (env net.idx.zero) neg prim (fun p => env (net.idx.ppi + p)) val := by
  intro i hi
  unfold linesDrivenB at hall
  simp only [List.all_eq_true, List.mem_range, List.contains_eq_mem, decide_eq_true_eq] at hall
  obtain ⟨r, hr, he⟩ := List.mem_map.mp (hall i hi)
  obtain ⟨_, ht, _⟩ := idx_vals net
  have := hc.2 r hr (by rw [he, ht]; omega)
  rw [he] at this
  exact this

/-- a labelling of the lines that satisfies every gate equation, extended by the stimulus outside the lines, is row-consistent -/
theorem netLabelling_consistent {α : Type u} (net : Net) (order : List Nat) (hwf : net.wfB = true) (ho : orderOKB net order = true)
    (hall : linesDrivenB Gen.kindPrefixes net order = true) (neg : α → α) (prim : String → α → α → α → α → α)
    (env v : Nat → α) (hc : NetLabelling net (env net.idx.zero) neg prim (fun p => env (net.idx.ppi + p)) v) :
    NetConsistent net order neg prim env (fun x => if x < net.lines.size then v x else env x) := by
  have hops := genOps_out_line Gen.kindPrefixes net order false hwf ho
  constructor
  · intro x hx hw
    have hge : ¬ x < net.lines.size := by
      intro hlt
      unfold linesDrivenB at hall
      simp only [List.all_eq_true, List.mem_range, List.contains_eq_mem, decide_eq_true_eq] at hall
      obtain ⟨r, hr, he⟩ := List.mem_map.mp (hall x hlt)
      exact hw r hr he
    simp only [if_neg hge]
  · intro r hr hl
    have hlt : r.out < net.lines.size := by
      rcases hops r.toOp (List.mem_map_of_mem hr) with h | h
      · exact absurd h hl
      · exact h
    have hr' := hr
    simp only [genOps, List.mem_flatMap] at hr'
    obtain ⟨n, hn, hmem⟩ := hr'
    have hnlt := orderOK_lt ho n hn
    obtain ⟨pin, hpin⟩ := (nodeOps_out _ _ _ _ _ _ _ hmem).resolve_left hl
    have hdrv := (wf_out hwf hnlt hpin).2.1
    simp only [if_pos hlt]
    rw [hc r.out hlt]
    apply lineEq_congr
    · rfl
    · intro i l' hi
      have hl' : l' < net.lines.size := by
        rw [hdrv] at hi
        exact (wf_in hwf hnlt (inPin_some hi)).1
      simp only [if_pos hl']

/-- **any net**: the simulation of the generated program, read on the lines, is THE labelling that satisfies every gate equation
of the specification evaluator -/
theorem sim_is_the_labelling {α : Type u} (sem spec : Nat → List α → α)
    (heq : ∀ code, KnownCode code → ∀ xs, sem code xs = spec code xs) (neg : α → α) (prim : String → α → α → α → α → α)
    (hs : SemSpec spec neg prim) (net : Net) (order : List Nat) (hwf : net.wfB = true) (ho : orderOKB net order = true)
    (hfk : forksOKB net order = true) (hall : linesDrivenB Gen.kindPrefixes net order = true) (env : Nat → α) :
    NetLabelling net (env net.idx.zero) neg prim (fun p => env (net.idx.ppi + p))
      (exec sem ((genOps Gen.kindPrefixes net order false).map OpRow.toOp) env) ∧
    ∀ v, NetLabelling net (env net.idx.zero) neg prim (fun p => env (net.idx.ppi + p)) v →
      ∀ i, i < net.lines.size → v i = exec sem ((genOps Gen.kindPrefixes net order false).map OpRow.toOp) env i := by
  obtain ⟨h1, h2⟩ := logic_all_circuits sem spec heq net order false hwf ho env
  have hiff := solves_iff_consistent net order hwf ho hfk spec neg prim hs env
  refine ⟨netConsistent_labelling net order hall neg prim env _ ((hiff _).mp h1), ?_⟩
  intro v hv i hi
  have hc := netLabelling_consistent net order hwf ho hall neg prim env v hv
  have := h2 _ ((hiff _).mpr hc) i (by
    obtain ⟨_, ht, _⟩ := idx_vals net
    simp only [Jt, ht, beq_eq_false_iff_ne, ne_eq]; omega)
  simp only [if_pos hi] at this
  exact this

/-- **bench, any algebra**: what the scheduled simulation of `benchNet stmts` computes is the labelling of THE model of the
description; what it leaves at the interface nodes is what the description observes -/
theorem bench_sim_generic {α : Type u} (hok : BenchOK stmts) (sem spec : Nat → List α → α)
    (heq : ∀ code, KnownCode code → ∀ xs, sem code xs = spec code xs) (neg : α → α) (prim : String → α → α → α → α → α)
    (hs : SemSpec spec neg prim) (order : List Nat) (ho : orderOKB (benchNet stmts) order = true)
    (hfk : forksOKB (benchNet stmts) order = true) (hall : linesDrivenB Gen.kindPrefixes (benchNet stmts) order = true)
    (env : Nat → α) :
    ∃ σ, BenchModel stmts (env (benchNet stmts).idx.zero) prim (fun p => env ((benchNet stmts).idx.ppi + p)) σ ∧
      (∀ σ', BenchModel stmts (env (benchNet stmts).idx.zero) prim (fun p => env ((benchNet stmts).idx.ppi + p)) σ' → σ' = σ) ∧
      (∀ i, i < (benchNet stmts).lines.size →
        exec sem ((genOps Gen.kindPrefixes (benchNet stmts) order false).map OpRow.toOp) env i = benchLabel stmts σ i) ∧
      ((benchNet stmts).sNodes.map fun n => ((benchNet stmts).node n).inPin 0 |>.map
        (exec sem ((genOps Gen.kindPrefixes (benchNet stmts) order false).map OpRow.toOp) env)) = benchCaptures stmts σ := by
  have hwf : (benchNet stmts).wfB = true := toNet_wf _ _
  obtain ⟨h1, h2⟩ := sim_is_the_labelling sem spec heq neg prim hs (benchNet stmts) order hwf ho hfk hall env
  obtain ⟨hm, hl⟩ := bench_labelling_model hok _ neg prim _ _ h1
  refine ⟨_, hm, ?_, hl, ?_⟩
  · intro σ' hm'
    apply bench_model_unique hok _ prim _ σ' _ hm' hm
    intro i hi
    rw [← hl i hi]
    exact h2 _ (bench_model_labelling hok _ neg prim _ σ' hm') i hi
  · rw [← bench_captures hok]
    apply List.map_congr_left
    intro n hn
    cases hp : ((benchNet stmts).node n).inPin 0 with
    | none => rfl
    | some l =>
      have hnlt : n < (benchNet stmts).nodes.size := by
        rw [benchNet_sNodes hok] at hn
        obtain ⟨e, he, rfl⟩ := List.mem_map.mp hn
        unfold benchNet
        rw [toNet_nodes_size]
        exact (sNames_resolved hok e he).1
      have hlt := (wf_in hwf hnlt (inPin_some hp)).1
      simp only [Option.map_some, hl l hlt]

end KV.Netlist
