import KyupyVerif.Proofs.SpecBase
/-! Component homomorphism on the waveform values {0,1,P,R,F,N}: the result is again a waveform value
and its final / initial plane is the Boolean formula of the operands' final / initial planes. -/
namespace KV

def hom8 (name : String) : Bool :=
  match comp8 name, formulaF name with
  | some f, some g =>
    waveVals.all fun a => waveVals.all fun b => waveVals.all fun c => waveVals.all fun d =>
      let r := f a b c d
      r.isWave && (g a.p0 b.p0 c.p0 d.p0 == r.p0) && (g a.p1 b.p1 c.p1 d.p1 == r.p1)
  | _, _ => false

theorem hom8_all : primNames.all hom8 = true := by decide +kernel

theorem comp8_hom {name : String} (hn : name ∈ primNames) :
    ∃ f g, comp8 name = some f ∧ formulaF name = some g ∧
      ∀ a b c d : V3, a.isWave → b.isWave → c.isWave → d.isWave →
        (f a b c d).isWave = true ∧ g a.p0 b.p0 c.p0 d.p0 = (f a b c d).p0 ∧
        g a.p1 b.p1 c.p1 d.p1 = (f a b c d).p1 := by
  have h := List.all_eq_true.mp hom8_all _ hn
  unfold hom8 at h
  split at h
  · rename_i f g hf hg
    refine ⟨f, g, hf, hg, ?_⟩
    intro a b c d ha hb hc hd
    simp only [List.all_eq_true, Bool.and_eq_true, beq_iff_eq] at h
    have := h a (mem_waveVals ha) b (mem_waveVals hb) c (mem_waveVals hc) d (mem_waveVals hd)
    exact ⟨this.1.1, this.1.2, this.2⟩
  · exact absurd h (by simp)

end KV
