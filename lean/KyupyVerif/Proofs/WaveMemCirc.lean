import KyupyVerif.Proofs.WaveMemSound
import KyupyVerif.Proofs.MemMapAccept
import KyupyVerif.Proofs.StripLinkOk
/-! The map records the `SimOps` model builds (`simopsMap`), for ALL circuits: the value a code-indexed logic semantics
computes for the signal an output slot captures is the value THE solution of the netlist's gate equations (the
un-stripped program in any topological order) gives to the captured line — with and without fork stripping. -/
namespace KV.Wave
open KV KV.Sig KV.MapSound

theorem lutSem_buf1 (xs : List Bool) : lutSem BUF1 xs = xs.getD 0 false := by
  unfold lutSem
  generalize xs.getD 0 false = a
  generalize xs.getD 1 false = b
  generalize xs.getD 2 false = c
  generalize xs.getD 3 false = d
  cases a <;> cases b <;> cases c <;> cases d <;> decide

theorem simopsMap_src (tbl : List PrefixRow) (net : Net) (order : List Nat) (strip : Bool) (capsIn : Nat → Nat)
    (capsMin : Nat) (reuse : Bool) (x : Nat) :
    (simopsMap tbl net order strip capsIn capsMin reuse).src x = viaStem (stemsOf net strip) x := rfl

/-- **the captured signal carries the netlist's value of the captured line.** `f`: any code-indexed semantics in which
    `BUF1` returns its first operand; `val`: ANY solution of the gate equations of the netlist (rows of the un-stripped
    program). For the interface node `n` at position `i` whose data pin reads line `l`, the signal-level program of the
    map record (operands resolved through the stems) computes `val l` on the signal `src l` that output slot `i` captures. -/
theorem captured_logic {α} (tbl : List PrefixRow) (net : Net) (order : List Nat) (strip : Bool) (capsIn : Nat → Nat)
    (capsMin : Nat) (reuse : Bool) (hwf : net.wfB = true) (ho : orderOKB net order = true)
    (hf : strip = true → forksOKB net order = true) (hr : readsDrivenB tbl net order = true)
    (f : Nat → List α → α) (dflt : α) (hbuf : ∀ xs, f BUF1 xs = xs.getD 0 dflt) (env val : Nat → α)
    (hval : SolvesJ (Jt net) (fun op => f op.code) ((genOps tbl net order false).map OpRow.toOp) env val)
    (n i l : Nat) (hn : (n, i) ∈ net.sNodes.zipIdx) (hp : (net.node n).inPin 0 = some l) :
    exec f ((simopsMap tbl net order strip capsIn capsMin reuse).ops.map
        (sigOp (simopsMap tbl net order strip capsIn capsMin reuse))) env
      ((simopsMap tbl net order strip capsIn capsMin reuse).src l) = val l := by
  have hprog := simops_progOK tbl (simopsMap tbl net order strip capsIn capsMin reuse) order hwf ho hf hr rfl rfl
  have hlt : l < net.idx.zero := hprog.cap_lt n i l hn hp
  have hJ : Jt net l = false := by
    simp only [Jt, beq_eq_false_iff_ne]
    have : net.idx.tmp = net.idx.zero + 1 := rfl
    omega
  have hun : exec f ((genOps tbl net order false).map OpRow.toOp) env l = val l := by
    rw [exec_eq_execG]
    exact (solution_uniqueJ (Jt net) (fun op => f op.code) _ (genOps_WOJ tbl net order false hwf ho) env val hval l hJ).symm
  cases strip with
  | false =>
    rw [simopsMap_src, viaStem_false]
    have : (simopsMap tbl net order false capsIn capsMin reuse).ops.map
        (sigOp (simopsMap tbl net order false capsIn capsMin reuse)) = (genOps tbl net order false).map OpRow.toOp :=
      List.map_congr_left (fun r _ => sigOp_unstripped _ rfl r)
    rw [this]
    exact hun
  | true =>
    have hf' := hf rfl
    have hsp : (simopsMap tbl net order true capsIn capsMin reuse).ops.map
        (sigOp (simopsMap tbl net order true capsIn capsMin reuse)) =
        stripOps4 (stemList net) ((genOps tbl net order false).map OpRow.toOp) := by
      rw [← genOps_strip_eq_stripOps4 tbl hwf ho hf']
      rfl
    rw [hsp, simopsMap_src]
    obtain ⟨g1, g2⟩ := strip_logic f dflt hbuf (stemList net) net.idx.zero ((genOps tbl net order false).map OpRow.toOp)
      env (genOps_stripOk tbl hwf ho hf')
    cases hst : (stemsOf net true).getD l none with
    | none =>
      have : viaStem (stemsOf net true) l = l := by unfold viaStem; rw [hst]; rfl
      rw [this, g1 l (by rw [stemList_lookup]; exact hst)]
      exact hun
    | some s =>
      have : viaStem (stemsOf net true) l = s := by unfold viaStem; rw [hst]; rfl
      rw [this]
      have hmem : n ∈ net.sNodes := (List.mem_zipIdx hn).2.2 ▸ List.getElem_mem _
      have hw := (readsDriven_spec hr).2 n hmem l hp
      obtain ⟨r, hr1, hr2⟩ := List.mem_map.1 hw
      rw [← g2 l s (by rw [stemList_lookup]; exact hst) ⟨r.toOp, List.mem_map_of_mem hr1, hr2⟩]
      exact hun

end KV.Wave
