import KyupyVerif.Proofs.TransformSem6
import KyupyVerif.Proofs.SubstSem9
/-! Helper lemmas for C10 (`elim_sem_converse`, audit finding 5), part 7: the CONVERSE of the semantic step of
`eliminate_1to1_forks` — every consistent labelling of the result is the renaming of a consistent labelling of the
circuit before (the removed line carries the value of the fork's in-line), and that labelling is unique — composed over
the visiting order; the exported well-formedness of the result. -/
namespace KV.Transform
open KV
variable {skip : Bool}

/-- converse: every consistent labelling of `nn'` (under the renamed assignment) is the restriction of a consistent
    labelling of `nn` -/
def SemQ {α : Type _} (z : α) (neg : α → α) (prim : String → α → α → α → α → α) (nn nn' : NNet) (r : Ren) : Prop :=
  ∀ (an v' : Nat → α), ConsN nn' z neg prim (fun j => an (r.node j)) v' →
    ∃ v, ConsN nn z neg prim an v ∧ ∀ l', l' < nn'.net.lines.size → v (r.line l') = v' l'

/-- uniqueness: a consistent labelling of `nn` is determined by its restriction to the lines of `nn'` -/
def SemU {α : Type _} (z : α) (neg : α → α) (prim : String → α → α → α → α → α) (nn nn' : NNet) (r : Ren) : Prop :=
  ∀ (an v1 v2 : Nat → α), ConsN nn z neg prim an v1 → ConsN nn z neg prim an v2 →
    (∀ l', l' < nn'.net.lines.size → v1 (r.line l') = v2 (r.line l')) → ∀ l, l < nn.net.lines.size → v1 l = v2 l

theorem SemQ.refl {α : Type _} (z : α) (neg : α → α) (prim : String → α → α → α → α → α) (nn : NNet) :
    SemQ z neg prim nn nn Ren.id := fun _ v' h => ⟨v', h, fun _ _ => rfl⟩

theorem SemU.refl {α : Type _} (z : α) (neg : α → α) (prim : String → α → α → α → α → α) (nn : NNet) :
    SemU z neg prim nn nn Ren.id := fun _ _ _ _ _ h => h

theorem SemQ.trans {α : Type _} {z : α} {neg : α → α} {prim : String → α → α → α → α → α} {a b c : NNet} {r1 r2 : Ren}
    (s2 : Sim b c r2) (h1 : SemQ z neg prim a b r1) (h2 : SemQ z neg prim b c r2) : SemQ z neg prim a c (r1.comp r2) := by
  intro an v'' hc
  obtain ⟨vb, cb, eb⟩ := h2 (fun j => an (r1.node j)) v'' hc
  obtain ⟨v, ca, ea⟩ := h1 an vb cb
  exact ⟨v, ca, fun l' hl => (ea _ (s2.lineLt l' hl)).trans (eb l' hl)⟩

theorem SemU.trans {α : Type _} {z : α} {neg : α → α} {prim : String → α → α → α → α → α} {a b c : NNet} {r1 r2 : Ren}
    (p1 : SemP z neg prim a b r1) (h1 : SemU z neg prim a b r1) (h2 : SemU z neg prim b c r2) :
    SemU z neg prim a c (r1.comp r2) := by
  intro an v1 v2 c1 c2 hag
  apply h1 an v1 v2 c1 c2
  intro l' hl'
  exact h2 (fun j => an (r1.node j)) (fun l => v1 (r1.line l)) (fun l => v2 (r1.line l)) (p1 an v1 c1).1 (p1 an v2 c2).1
    hag l' hl'

section step
variable {nn : NNet} {i a b : Nat} (c : SC nn i a b)
include c

/-- the equation of a surviving line is the same before and after the splice (for labellings that give the fork's
    out-line the value of its in-line) -/
theorem splice_lineEq {α : Type _} (z : α) (neg : α → α) (prim : String → α → α → α → α → α) (an : Nat → α) (v : Nat → α)
    (hv : v b = v a) (l' : Nat) (hl' : l' < nn.net.lines.size - 1) :
    lineEq (splice nn i a b).net (spN (splice nn i a b).net) z neg prim (fun j => an (nmN nn.net.nodes.size i j))
      (fun l => v (nmN nn.net.lines.size b l)) l' =
    lineEq nn.net (spN nn.net) z neg prim an v (nmN nn.net.lines.size b l') := by
  have hb := c.b_facts
  obtain ⟨hl, hlb, hml⟩ := nm_facts hb.1 hl'
  have bk := c.si.back _ hl
  have hdr : (nn.net.line (nmN nn.net.lines.size b l')).driver ≠ i := fun e => hlb (c.drv_i _ hl e)
  have md := mv_facts c.hi bk.1 hdr
  have hdrv : ((splice nn i a b).net.line l').driver = mvN nn.net.nodes.size i (nn.net.line (nmN nn.net.lines.size b l')).driver := by
    rw [splice_line c l' hl']
  have hdpin : ((splice nn i a b).net.line l').dpin = (nn.net.line (nmN nn.net.lines.size b l')).dpin := by
    rw [splice_line c l' hl']
  apply lineEq_congr
  · rw [hdrv, splice_kind c _ md.1, md.2]
  · exact hdpin
  · rw [hdrv]
    have hm := splice_mem_sNodes c _ md.1
    rw [md.2] at hm
    simp only [spN, List.contains_iff_mem]
    by_cases e : (nn.net.line (nmN nn.net.lines.size b l')).driver ∈ nn.net.sNodes
    · simp [e, hm.mpr e, md.2]
    · have : ¬ mvN nn.net.nodes.size i (nn.net.line (nmN nn.net.lines.size b l')).driver ∈ (splice nn i a b).net.sNodes :=
        fun x => e (hm.mp x)
      simp [e, this]
  · intro k
    rw [hdrv]
    have := splice_pins c v hv _ k md.1
    rw [md.2] at this
    exact this

/-- the converse semantic step: a consistent labelling of the result, extended by "the removed line carries the value of
    the fork's in-line", is a consistent labelling of the circuit before -/
theorem splice_consN_conv {α : Type _} (z : α) (neg : α → α) (prim : String → α → α → α → α → α) (an : Nat → α) (v' : Nat → α)
    (hc' : ConsN (splice nn i a b) z neg prim (fun j => an (nmN nn.net.nodes.size i j)) v') :
    ∃ v, ConsN nn z neg prim an v ∧ ∀ l', l' < nn.net.lines.size - 1 → v (nmN nn.net.lines.size b l') = v' l' := by
  have hsz := splice_sizes (nn := nn) (i := i) (a := a) (b := b)
  have hb := c.b_facts
  have ha := c.a_facts
  let v : Nat → α := fun l => if l = b then v' (mvN nn.net.lines.size b a) else v' (mvN nn.net.lines.size b l)
  have hvb : v b = v a := by
    show (if b = b then _ else _) = (if a = b then _ else _)
    rw [if_pos rfl, if_neg c.hab]
  have hag : ∀ l', l' < nn.net.lines.size - 1 → v (nmN nn.net.lines.size b l') = v' l' := by
    intro l' hl'
    obtain ⟨_, hne, hm⟩ := nm_facts hb.1 hl'
    show (if nmN nn.net.lines.size b l' = b then _ else _) = _
    rw [if_neg hne, hm]
  have hc'' : ConsN (splice nn i a b) z neg prim (fun j => an (nmN nn.net.nodes.size i j))
      (fun l => v (nmN nn.net.lines.size b l)) :=
    consN_congr (splice_SI c) z neg prim _ _ _ _ (fun _ _ => rfl)
      (fun l hl => by rw [hsz.2] at hl; exact (hag l hl).symm) hc'
  refine ⟨v, ?_, hag⟩
  intro l hl
  by_cases e : l = b
  · subst e
    rw [hvb]
    exact (lineEq_fork nn.net _ z neg prim an _ l i a hb.2.1 c.fork (spN_none nn.net i c.nio c.fork)
      (by simp [NodeD.inPin, c.ins_eq])).symm
  · have mf := mv_facts hb.1 hl e
    have h1 := hc'' (mvN nn.net.lines.size b l) (by rw [hsz.2]; exact mf.1)
    rw [splice_lineEq c z neg prim an v hvb _ mf.1, mf.2] at h1
    simpa [mf.2] using h1

/-- … and the extension is unique -/
theorem splice_unique {α : Type _} (z : α) (neg : α → α) (prim : String → α → α → α → α → α) (an : Nat → α) (v1 v2 : Nat → α)
    (c1 : ConsN nn z neg prim an v1) (c2 : ConsN nn z neg prim an v2)
    (hag : ∀ l', l' < nn.net.lines.size - 1 → v1 (nmN nn.net.lines.size b l') = v2 (nmN nn.net.lines.size b l')) :
    ∀ l, l < nn.net.lines.size → v1 l = v2 l := by
  have hb := c.b_facts
  have ha := c.a_facts
  have key : ∀ l, l < nn.net.lines.size → l ≠ b → v1 l = v2 l := by
    intro l hl e
    have mf := mv_facts hb.1 hl e
    have := hag _ mf.1
    rwa [mf.2] at this
  intro l hl
  by_cases e : l = b
  · subst e
    rw [consN_fork c z neg prim an v1 c1, consN_fork c z neg prim an v2 c2]
    exact key a ha.1 c.hab
  · exact key l hl e

theorem SemQ.splice {α : Type _} (z : α) (neg : α → α) (prim : String → α → α → α → α → α) :
    SemQ z neg prim nn (splice nn i a b) (stepRen nn i b) := by
  intro an v' hc
  obtain ⟨v, cv, hv⟩ := splice_consN_conv c z neg prim an v' hc
  refine ⟨v, cv, fun l' hl' => ?_⟩
  rw [(splice_sizes (nn := nn) (i := i) (a := a) (b := b)).2] at hl'
  exact hv l' hl'

theorem SemU.splice {α : Type _} (z : α) (neg : α → α) (prim : String → α → α → α → α → α) :
    SemU z neg prim nn (splice nn i a b) (stepRen nn i b) := by
  intro an v1 v2 c1 c2 hag
  apply splice_unique c z neg prim an v1 v2 c1 c2
  intro l' hl'
  exact hag l' (by rw [(splice_sizes (nn := nn) (i := i) (a := a) (b := b)).2]; exact hl')

end step

/-- one loop iteration, converse and uniqueness -/
theorem elimOneM_simQ {α : Type _} (z : α) (neg : α → α) (prim : String → α → α → α → α → α) (nn nn' : NNet) (r : Ren) (i : Nat)
    (h : SI nn) (hi : i < nn.net.nodes.size) (hf : (nn.net.node i).isFork = true)
    (he : elimOneM skip nn i = some (nn', r)) : SemQ z neg prim nn nn' r ∧ SemU z neg prim nn nn' r := by
  rcases elimOneM_cases nn nn' r i he with ⟨e1, e2⟩ | ⟨a, b, hio, hlen, hin, hout, hab, e1, e2⟩
  · subst e1; subst e2; exact ⟨SemQ.refl z neg prim _, SemU.refl z neg prim _⟩
  · subst e1; subst e2
    have c : SC nn i a b := ⟨h, hi, hf, hio, hlen, hin, hout, hab⟩
    exact ⟨SemQ.splice c z neg prim, SemU.splice c z neg prim⟩

theorem foldM_simQ {α : Type _} (z : α) (neg : α → α) (prim : String → α → α → α → α → α) :
    ∀ (order : List String) (s : NNet × Ren) (nn' : NNet) (r : Ren), SI s.1 →
    order.foldlM (fun (s : NNet × Ren) name =>
      let i := s.1.lookup (name, true)
      if i < s.1.net.nodes.size then (elimOneM skip s.1 i).map fun p => (p.1, s.2.comp p.2) else some s) s = some (nn', r) →
    ∃ r2, r = s.2.comp r2 ∧ Sim s.1 nn' r2 ∧ SemP z neg prim s.1 nn' r2 ∧ SemQ z neg prim s.1 nn' r2 ∧ SemU z neg prim s.1 nn' r2
  | [], s, nn', r, h, he => by
    simp only [List.foldlM_nil] at he
    cases (Option.some.inj he)
    exact ⟨Ren.id, rfl, Sim.refl h, SemP.refl z neg prim _, SemQ.refl z neg prim _, SemU.refl z neg prim _⟩
  | name :: order, s, nn', r, h, he => by
    simp only [List.foldlM_cons, Option.bind_eq_bind, Option.bind_eq_some_iff] at he
    obtain ⟨s1, hs, hrest⟩ := he
    by_cases hlt : s.1.lookup (name, true) < s.1.net.nodes.size
    · simp only [hlt, if_true, Option.map_eq_some_iff] at hs
      obtain ⟨p, hp, e⟩ := hs
      subst e
      have st := elimOneM_sim z neg prim s.1 p.1 p.2 _ h hlt (lookup_isFork s.1 name hlt) hp
      have sq := elimOneM_simQ z neg prim s.1 p.1 p.2 _ h hlt (lookup_isFork s.1 name hlt) hp
      obtain ⟨r2, e2, sim2, sem2, q2, u2⟩ := foldM_simQ z neg prim order (p.1, s.2.comp p.2) nn' r st.1.si hrest
      exact ⟨p.2.comp r2, by rw [e2]; rfl, st.1.trans sim2, SemP.trans sim2 st.2 sem2, SemQ.trans sim2 sq.1 q2,
        SemU.trans st.2 sq.2 u2⟩
    · simp only [hlt, if_false] at hs
      cases (Option.some.inj hs)
      exact foldM_simQ z neg prim order _ nn' r h hrest

theorem elimForksInM_simQ {α : Type _} (z : α) (neg : α → α) (prim : String → α → α → α → α → α)
    (order : List String) (nn nn' : NNet) (r : Ren) (h : SI nn) (he : elimForksInM skip order nn = some (nn', r)) :
    Sim nn nn' r ∧ SemP z neg prim nn nn' r ∧ SemQ z neg prim nn nn' r ∧ SemU z neg prim nn nn' r := by
  obtain ⟨r2, e, s1, s2, s3, s4⟩ := foldM_simQ z neg prim order (nn, Ren.id) nn' r h he
  have : r = r2 := e
  subst this; exact ⟨s1, s2, s3, s4⟩

/-! ### array / position form -/

/-- the labelling function as an array over the lines of the circuit -/
def tabulate {α : Type _} (n : Nat) (f : Nat → α) : Array α := (Array.range n).map f

theorem tabulate_getD {α : Type _} (n : Nat) (f : Nat → α) (z : α) (l : Nat) (hl : l < n) : (tabulate n f).getD l z = f l := by
  simp [tabulate, Array.getD_eq_getD_getElem?, hl]

theorem tabulate_size {α : Type _} (n : Nat) (f : Nat → α) : (tabulate n f).size = n := by simp [tabulate]

/-- the converse of `sim_consistentB`: a consistent labelling of `nn'` under the permuted assignment is `relabel` of a
    consistent labelling of `nn`, which is unique on the lines of `nn` -/
theorem sim_consistentB_conv {α : Type _} [BEq α] [LawfulBEq α] {nn nn' : NNet} {r : Ren} (h : SI nn) (s : Sim nn nn' r)
    (z : α) (neg : α → α) (prim : String → α → α → α → α → α) (semq : SemQ z neg prim nn nn' r)
    (asg : Nat → α) (v' : Array α) (hc : consistentB nn'.net z neg prim (reassign r nn nn' asg) v' = true) :
    ∃ v : Array α, v.size = nn.net.lines.size ∧ consistentB nn.net z neg prim asg v = true ∧
      (∀ l', l' < nn'.net.lines.size → v.getD (r.line l') z = v'.getD l' z) ∧
      (v'.size = nn'.net.lines.size → relabel r nn' v z = v') := by
  have hN := (consistentB_iff s.si z neg prim _ v').mp hc
  have hN' : ConsN nn' z neg prim (fun j => (fun n => asg (nn.net.sNodes.idxOf n)) (r.node j)) (fun l => v'.getD l z) := by
    apply consN_congr s.si z neg prim _ _ _ _ _ (fun _ _ => rfl) hN
    intro n hn
    simp only [reassign, sigma]
    rw [getD_idxOf hn]
  obtain ⟨vf, cv, ev⟩ := semq (fun n => asg (nn.net.sNodes.idxOf n)) (fun l => v'.getD l z) hN'
  have hget : ∀ l, l < nn.net.lines.size → (tabulate nn.net.lines.size vf).getD l z = vf l :=
    fun l hl => tabulate_getD _ vf z l hl
  have hag : ∀ l', l' < nn'.net.lines.size → (tabulate nn.net.lines.size vf).getD (r.line l') z = v'.getD l' z := by
    intro l' hl'
    rw [hget _ (s.lineLt l' hl'), ev l' hl']
  refine ⟨tabulate nn.net.lines.size vf, tabulate_size _ _, ?_, hag, ?_⟩
  · rw [consistentB_iff h]
    exact consN_congr h z neg prim _ _ _ _ (fun _ _ => rfl) (fun l hl => (hget l hl).symm) cv
  · intro hsz
    apply Array.ext
    · simp [relabel, hsz]
    · intro l h1 h2
      have hl : l < nn'.net.lines.size := by simpa [relabel] using h1
      have e1 := relabel_getD r nn' (tabulate nn.net.lines.size vf) z l hl
      rw [hag l hl] at e1
      simpa [Array.getD_eq_getD_getElem?, h1, h2, Array.getElem?_eq_getElem] using e1

theorem sim_consistentB_unique {α : Type _} [BEq α] [LawfulBEq α] {nn nn' : NNet} {r : Ren} (h : SI nn) (s : Sim nn nn' r)
    (z : α) (neg : α → α) (prim : String → α → α → α → α → α) (semu : SemU z neg prim nn nn' r)
    (asg : Nat → α) (v1 v2 : Array α) (c1 : consistentB nn.net z neg prim asg v1 = true)
    (c2 : consistentB nn.net z neg prim asg v2 = true) (he : relabel r nn' v1 z = relabel r nn' v2 z) :
    ∀ l, l < nn.net.lines.size → v1.getD l z = v2.getD l z := by
  have n1 := (consistentB_iff h z neg prim asg v1).mp c1
  have n2 := (consistentB_iff h z neg prim asg v2).mp c2
  apply semu _ _ _ n1 n2
  intro l' hl'
  rw [← relabel_getD r nn' v1 z l' hl', ← relabel_getD r nn' v2 z l' hl', he]

/-! ### the result is well-formed -/

theorem noTrail_iff2 (l : List (Option Nat)) : noTrail l = true ↔ (0 < l.length → l.getD (l.length - 1) none ≠ none) := by
  simp only [noTrail, bne_iff_ne, ne_eq, List.getLast?_eq_getElem?, List.getD_eq_getElem?_getD]
  by_cases h : 0 < l.length
  · have hl : l.length - 1 < l.length := by omega
    simp [h, List.getElem?_eq_getElem hl]
  · have : l = [] := by cases l with | nil => rfl | cons _ _ => simp at h
    subst this; simp

theorem mvL_eq_none {last b : Nat} {o : Option Nat} : mvL last b o = none ↔ o = none := by
  cases o with
  | none => simp [mvL]
  | some x => simp only [mvL]; split <;> simp

/-- no pin list ends in `None` -/
def NT (nn : NNet) : Prop :=
  ∀ j, j < nn.net.nodes.size → noTrail (nn.net.node j).ins = true ∧ noTrail (nn.net.node j).outs = true

theorem splice_NT {nn : NNet} {i a b : Nat} (c : SC nn i a b) (t : NT nn) : NT (splice nn i a b) := by
  intro j' hj
  rw [(splice_sizes (nn := nn) (i := i) (a := a) (b := b)).1] at hj
  obtain ⟨hd, hdi, _⟩ := nm_facts c.hi hj
  have told := t _ hd
  constructor
  · rw [noTrail_iff2, splice_insLen c j' hj]
    intro hpos
    have h0 := (noTrail_iff2 _).mp told.1 hpos
    rw [splice_inPin c j' _ hj]
    split
    · simp
    · intro e; exact h0 (mvL_eq_none.mp e)
  · have hlen : ((splice nn i a b).net.node j').outs.length = (nn.net.node (nmN nn.net.nodes.size i j')).outs.length := by
      rw [splice_node c j' hj, spliceMid_node nn i a b _ hd]
      simp [hdi]
    rw [noTrail_iff2, hlen]
    intro hpos
    have h0 := (noTrail_iff2 _).mp told.2 hpos
    rw [splice_outPin c j' _ hj]
    intro e; exact h0 (mvL_eq_none.mp e)

theorem elimOneM_NT (nn nn' : NNet) (r : Ren) (i : Nat) (h : SI nn) (hi : i < nn.net.nodes.size)
    (hf : (nn.net.node i).isFork = true) (he : elimOneM skip nn i = some (nn', r)) (t : NT nn) : NT nn' := by
  rcases elimOneM_cases nn nn' r i he with ⟨e1, e2⟩ | ⟨a, b, hio, hlen, hin, hout, hab, e1, e2⟩
  · subst e1; exact t
  · subst e1
    exact splice_NT ⟨h, hi, hf, hio, hlen, hin, hout, hab⟩ t

theorem foldM_NT : ∀ (order : List String) (s : NNet × Ren) (nn' : NNet) (r : Ren), SI s.1 → NT s.1 →
    order.foldlM (fun (s : NNet × Ren) name =>
      let i := s.1.lookup (name, true)
      if i < s.1.net.nodes.size then (elimOneM skip s.1 i).map fun p => (p.1, s.2.comp p.2) else some s) s = some (nn', r) →
    NT nn'
  | [], s, nn', r, _, t, he => by
    simp only [List.foldlM_nil] at he
    cases (Option.some.inj he)
    exact t
  | name :: order, s, nn', r, h, t, he => by
    simp only [List.foldlM_cons, Option.bind_eq_bind, Option.bind_eq_some_iff] at he
    obtain ⟨s1, hs, hrest⟩ := he
    by_cases hlt : s.1.lookup (name, true) < s.1.net.nodes.size
    · simp only [hlt, if_true, Option.map_eq_some_iff] at hs
      obtain ⟨p, hp, e⟩ := hs
      subst e
      have st := elimOneM_sim (α := Bool) false (!·) (fun _ _ _ _ _ => false) s.1 p.1 p.2 _ h hlt (lookup_isFork s.1 name hlt) hp
      exact foldM_NT order (p.1, s.2.comp p.2) nn' r st.1.si
        (elimOneM_NT s.1 p.1 p.2 _ h hlt (lookup_isFork s.1 name hlt) hp t) hrest
    · simp only [hlt, if_false] at hs
      cases (Option.some.inj hs)
      exact foldM_NT order _ nn' r h t hrest

/-- keys of the result: the injective image of keys of the circuit before -/
theorem sim_keys_nodup {nn nn' : NNet} {r : Ren} (s : Sim nn nn' r) (hn : nn.keys.Nodup) : nn'.keys.Nodup := by
  have hk : ∀ j', j' < nn'.net.nodes.size → nn'.key j' = nn.key (r.node j') := by
    intro j' hj
    simp only [NNet.key, s.name j' hj, (isDff_of_kind (s.kind j' hj)).2.2]
  have hinj : ∀ x y, x < nn.net.nodes.size → y < nn.net.nodes.size → nn.key x = nn.key y → x = y := by
    intro x y hx hy e
    have hx' : x < nn.keys.length := by simpa [NNet.keys] using hx
    have hy' : y < nn.keys.length := by simpa [NNet.keys] using hy
    have e' : nn.keys[x] = nn.keys[y] := by simpa [NNet.keys] using e
    rw [← idxOf_getElem_nodup nn.keys x hx' hn, ← idxOf_getElem_nodup nn.keys y hy' hn, e']
  simp only [NNet.keys]
  rw [List.nodup_iff_pairwise_ne, List.pairwise_iff_getElem]
  intro x y hx hy hxy e
  have hx' : x < nn'.net.nodes.size := by simpa using hx
  have hy' : y < nn'.net.nodes.size := by simpa using hy
  have e' : nn'.key x = nn'.key y := by simpa using e
  rw [hk x hx', hk y hy'] at e'
  have := s.inj x y hx' hy' (hinj _ _ (s.nodeLt x hx') (s.nodeLt y hy') e')
  omega

theorem sim_WF {nn nn' : NNet} {r : Ren} (s : Sim nn nn' r) (hn : nn.keys.Nodup) (t : NT nn') : WF nn' :=
  ⟨s.si.names, sim_keys_nodup s hn, s.si.io, s.si.back, s.si.fwdIn, s.si.fwdOut, t⟩

theorem forkIns1_of_SI {nn : NNet} (s : SI nn) : nn.forkIns1 = true := by
  simp only [NNet.forkIns1, List.all_eq_true, List.mem_range]
  intro j hj
  by_cases hf : (nn.net.node j).isFork = true
  · simp [hf, s.fork1 j hj hf]
  · simp [hf]

theorem elimForksInM_wf (order : List String) (nn nn' : NNet) (r : Ren) (w : WF nn) (hf : nn.forkIns1 = true)
    (he : elimForksInM skip order nn = some (nn', r)) : nn'.wf = true ∧ nn'.forkIns1 = true := by
  have si := SI.of_wf w hf
  have s := (elimForksInM_sim (α := Bool) false (!·) (fun _ _ _ _ _ => false) order nn nn' r si he).1
  exact ⟨wf_of_WF (sim_WF s w.nodup (foldM_NT order (nn, Ren.id) nn' r si w.trail he)), forkIns1_of_SI s.si⟩

end KV.Transform
