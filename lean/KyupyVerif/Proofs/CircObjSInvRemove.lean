import KyupyVerif.Proofs.CircObjSInv
/-! C09: `SInv` under the removers: `Node.remove()` of a node that still has lines (they become pending), `Line.remove()` of
a line whose reader end is attached, `None`, or a node that has left the circuit; the first assignments of `substitute`
(kind change with cleared pins). -/
namespace KV.CircObj

/-- the lines at the input / output pins of a node -/
def InL (c : Circ) (i : Nat) : Nat → Prop := fun l => ∃ p, pin (c.nobj i).ins p = some l
def OutL (c : Circ) (i : Nat) : Nat → Prop := fun l => ∃ p, pin (c.nobj i).outs p = some l

theorem SInv_congr {c c' : Circ} {PI PO} (s : SInv c PI PO) (hn : c'.nodes = c.nodes) (hl : c'.lines = c.lines) (hio : c'.io = c.io)
    (hc : c'.cells = c.cells) (hf : c'.forks = c.forks) (hnN : c'.nextN = c.nextN) (hnL : c'.nextL = c.nextL)
    (hnobj : ∀ i ∈ c.nodes, c'.nobj i = c.nobj i) (hlobj : ∀ l ∈ c.lines, c'.lobj l = c.lobj l) : SInv c' PI PO := by
  refine ⟨?_, ?_, ?_, ?_, ?_, ?_, ?_, ?_, ?_, ?_, ?_, ?_, ?_, ?_, ?_, ?_, ?_⟩
  · intro p hp; simp only [hn] at hp ⊢; rw [hnobj _ (List.getElem_mem hp)]; exact s.nidx p hp
  · intro p hp; simp only [hl] at hp ⊢; rw [hlobj _ (List.getElem_mem hp)]; exact s.lidx p hp
  · intro i hi; rw [hn] at hi; rw [hnobj i hi, hnN]; exact s.nfresh i hi
  · intro l hl'; rw [hl] at hl'; rw [hlobj l hl', hnL]; exact s.lfresh l hl'
  · rw [hc]; exact s.ckeys
  · rw [hf]; exact s.fkeys
  · intro e he; rw [hc] at he; obtain ⟨h1, h2, h3⟩ := s.cellsSound e he; rw [hn, hnobj _ h1]; exact ⟨h1, h2, h3⟩
  · intro e he; rw [hf] at he; obtain ⟨h1, h2, h3⟩ := s.forksSound e he; rw [hn, hnobj _ h1]; exact ⟨h1, h2, h3⟩
  · intro i hi hk; rw [hn] at hi; rw [hnobj i hi] at hk ⊢; rw [hc]; exact s.cellsComplete i hi hk
  · intro i hi hk; rw [hn] at hi; rw [hnobj i hi] at hk ⊢; rw [hf]; exact s.forksComplete i hi hk
  · intro l hl' hpo; rw [hl] at hl'; obtain ⟨d, h1, h2, h3⟩ := s.ldrv l hl' hpo
    exact ⟨d, by rw [hlobj l hl']; exact h1, by rw [hn]; exact h2, by rw [hlobj l hl', hnobj d h2]; exact h3⟩
  · intro l hl' hpi; rw [hl] at hl'; obtain ⟨d, h1, h2, h3⟩ := s.lrdr l hl' hpi
    exact ⟨d, by rw [hlobj l hl']; exact h1, by rw [hn]; exact h2, by rw [hlobj l hl', hnobj d h2]; exact h3⟩
  · intro i hi p l hp; rw [hn] at hi; rw [hnobj i hi] at hp
    obtain ⟨h1, h2, h3⟩ := s.outsBack i hi p l hp
    rw [hl, hlobj l h1]; exact ⟨h1, h2, h3⟩
  · intro i hi p l hp; rw [hn] at hi; rw [hnobj i hi] at hp
    obtain ⟨h1, h2, h3⟩ := s.insBack i hi p l hp
    rw [hl, hlobj l h1]; exact ⟨h1, h2, h3⟩
  · intro i hi; rw [hio] at hi; rw [hn]; exact s.ioIn i hi
  · intro l hp; obtain ⟨h1, h2⟩ := s.piOk l hp
    refine ⟨by rw [hl]; exact h1, ?_⟩
    intro i hi p; rw [hn] at hi; rw [hnobj i hi]; exact h2 i hi p
  · intro l hp; obtain ⟨h1, h2⟩ := s.poOk l hp
    refine ⟨by rw [hl]; exact h1, ?_⟩
    intro i hi p; rw [hn] at hi; rw [hnobj i hi]; exact h2 i hi p

/-! ## `Node.remove()` of a node of a well-formed circuit that is not a port: its lines become pending -/
theorem removeNode_sinv {c : Circ} {i : Nat} (wf : WFc0 c) (hi : i ∈ c.nodes) (hio : i ∉ c.io) :
    SInv (removeNode c i) (InL c i) (OutL c i) := by
  have ha := (wf.nfresh i hi).2
  obtain ⟨hk, hki⟩ := (SInv.of_wfc0 wf).node_at hi
  have spec := idxDel_spec c.nodes (fun j => (c.nobj j).index) wf.nidx (c.nobj i).index hk
  rw [hki] at spec
  obtain ⟨sp1, sp2, sp3⟩ := spec
  have hn := removeNode_nobj ha
  have hnodes : (removeNode c i).nodes = (idxDel c.nodes (c.nobj i).index).1 := by rw [removeNode_eq ha]
  have hlobj : (removeNode c i).lobj = c.lobj := by rw [removeNode_eq ha]
  have hlines : (removeNode c i).lines = c.lines := by rw [removeNode_eq ha]
  have hmem : ∀ j, j ∈ (removeNode c i).nodes ↔ j ∈ c.nodes ∧ j ≠ i := by rw [hnodes]; exact sp2
  have hcells : (removeNode c i).cells = if (c.nobj i).kind = FORK then c.cells else eraseKey c.cells (c.nobj i).name := by
    rw [removeNode_eq ha]; simp
  have hforks : (removeNode c i).forks = if (c.nobj i).kind = FORK then eraseKey c.forks (c.nobj i).name else c.forks := by
    rw [removeNode_eq ha]; simp
  refine ⟨?_, ?_, ?_, ?_, ?_, ?_, ?_, ?_, ?_, ?_, ?_, ?_, ?_, ?_, ?_, ?_, ?_⟩
  · -- nidx
    intro p hp
    have := sp1 p (by rw [← hnodes]; exact hp)
    rw [(hn _).2.2.2.2.1]
    simp only [hnodes]
    exact this
  · rw [hlobj, hlines]; exact wf.lidx
  · intro j hj
    obtain ⟨hj1, hj2⟩ := (hmem j).1 hj
    have := wf.nfresh j hj1
    rw [(hn j).2.2.2.2.2 hj2]
    rw [removeNode_eq ha]; exact this
  · rw [hlobj, hlines]; rw [removeNode_eq ha]; exact wf.lfresh
  · rw [hcells]; split
    · exact wf.ckeys
    · exact keysNodup_eraseKey _ wf.ckeys
  · rw [hforks]; split
    · exact keysNodup_eraseKey _ wf.fkeys
    · exact wf.fkeys
  · -- cellsSound
    intro e he
    have he' : e ∈ c.cells ∧ ((c.nobj i).kind = FORK ∨ e.1 ≠ (c.nobj i).name) := by
      rw [hcells] at he; split at he
      · exact ⟨he, Or.inl ‹_›⟩
      · exact ⟨(mem_eraseKey.1 he).1, Or.inr (mem_eraseKey.1 he).2⟩
    obtain ⟨h1, h2, h3⟩ := wf.cellsSound e he'.1
    rw [(hn _).1, (hn _).2.1, hmem]
    refine ⟨⟨h1, ?_⟩, h2, h3⟩
    intro heq
    rw [heq] at h2 h3
    rcases he'.2 with h | h
    · exact h2 h
    · exact h h3.symm
  · -- forksSound
    intro e he
    have he' : e ∈ c.forks ∧ ((c.nobj i).kind ≠ FORK ∨ e.1 ≠ (c.nobj i).name) := by
      rw [hforks] at he; split at he
      · exact ⟨(mem_eraseKey.1 he).1, Or.inr (mem_eraseKey.1 he).2⟩
      · exact ⟨he, Or.inl ‹_›⟩
    obtain ⟨h1, h2, h3⟩ := wf.forksSound e he'.1
    rw [(hn _).1, (hn _).2.1, hmem]
    refine ⟨⟨h1, ?_⟩, h2, h3⟩
    intro heq
    rw [heq] at h2 h3
    rcases he'.2 with h | h
    · exact h h2
    · exact h h3.symm
  · -- cellsComplete
    intro j hj hk'
    obtain ⟨hj1, hj2⟩ := (hmem j).1 hj
    rw [(hn j).2.1] at hk'
    rw [(hn j).1, hcells]
    have hjc := wf.cellsComplete j hj1 hk'
    split
    · exact hjc
    · rename_i hik
      refine mem_eraseKey.2 ⟨hjc, ?_⟩
      intro heq
      simp only at heq
      have hic := wf.cellsComplete i hi hik
      rw [← heq] at hic
      exact hj2 (keys_unique wf.ckeys hjc hic)
  · -- forksComplete
    intro j hj hk'
    obtain ⟨hj1, hj2⟩ := (hmem j).1 hj
    rw [(hn j).2.1] at hk'
    rw [(hn j).1, hforks]
    have hjc := wf.forksComplete j hj1 hk'
    split
    · rename_i hik
      refine mem_eraseKey.2 ⟨hjc, ?_⟩
      intro heq
      simp only at heq
      have hic := wf.forksComplete i hi hik
      rw [← heq] at hic
      exact hj2 (keys_unique wf.fkeys hjc hic)
    · exact hjc
  · -- ldrv
    intro l hl hpo
    rw [hlines] at hl
    obtain ⟨d, h1, h2, h3⟩ := wf.ldrv l hl
    refine ⟨d, by rw [hlobj]; exact h1, (hmem d).2 ⟨h2, ?_⟩, by rw [hlobj, (hn d).2.2.2.1]; exact h3⟩
    intro heq; rw [heq] at h3; exact hpo ⟨_, h3⟩
  · -- lrdr
    intro l hl hpi
    rw [hlines] at hl
    obtain ⟨d, h1, h2, h3⟩ := wf.lrdr l hl
    refine ⟨d, by rw [hlobj]; exact h1, (hmem d).2 ⟨h2, ?_⟩, by rw [hlobj, (hn d).2.2.1]; exact h3⟩
    intro heq; rw [heq] at h3; exact hpi ⟨_, h3⟩
  · intro j hj p l hp
    obtain ⟨hj1, _⟩ := (hmem j).1 hj
    rw [(hn j).2.2.2.1] at hp
    rw [hlobj, hlines]; exact wf.outsBack j hj1 p l hp
  · intro j hj p l hp
    obtain ⟨hj1, _⟩ := (hmem j).1 hj
    rw [(hn j).2.2.1] at hp
    rw [hlobj, hlines]; exact wf.insBack j hj1 p l hp
  · intro j hj
    have : (removeNode c i).io = c.io := by rw [removeNode_eq ha]
    rw [this] at hj
    exact (hmem j).2 ⟨wf.ioIn j hj, fun h => hio (h ▸ hj)⟩
  · -- piOk
    rintro l ⟨q, hq⟩
    obtain ⟨b1, b2, b3⟩ := wf.insBack i hi q l hq
    refine ⟨by rw [hlines]; exact b1, ?_⟩
    intro j hj p hp
    obtain ⟨hj1, hj2⟩ := (hmem j).1 hj
    rw [(hn j).2.2.1] at hp
    have := (wf.insBack j hj1 p l hp).2.1
    rw [b2] at this
    exact hj2 (Option.some.inj this).symm
  · -- poOk
    rintro l ⟨q, hq⟩
    obtain ⟨b1, b2, b3⟩ := wf.outsBack i hi q l hq
    refine ⟨by rw [hlines]; exact b1, ?_⟩
    intro j hj p hp
    obtain ⟨hj1, hj2⟩ := (hmem j).1 hj
    rw [(hn j).2.2.2.1] at hp
    have := (wf.outsBack j hj1 p l hp).2.1
    rw [b2] at this
    exact hj2 (Option.some.inj this).symm

/-! ## the first assignments of `substitute` with a designated cell: `node.kind = k; node.ins = []; node.outs = []` -/
def rekindClear (c : Circ) (i : Nat) (k : String) : Circ :=
  { c with nobj := upd c.nobj i { c.nobj i with kind := k, ins := [], outs := [] } }

theorem rekindClear_sinv {c : Circ} {i : Nat} {k : String} (wf : WFc0 c) (hi : i ∈ c.nodes) (hk : (c.nobj i).kind ≠ FORK)
    (hk' : k ≠ FORK) : SInv (rekindClear c i k) (InL c i) (OutL c i) := by
  have hold : ∀ j, j ≠ i → (rekindClear c i k).nobj j = c.nobj j := by
    intro j hj; simp [rekindClear, hj]
  have hnew : (rekindClear c i k).nobj i = { c.nobj i with kind := k, ins := [], outs := [] } := by
    simp [rekindClear]
  have hst : ∀ j, ((rekindClear c i k).nobj j).name = (c.nobj j).name ∧ ((rekindClear c i k).nobj j).index = (c.nobj j).index ∧
      ((rekindClear c i k).nobj j).alive = (c.nobj j).alive ∧
      (((rekindClear c i k).nobj j).kind = FORK ↔ (c.nobj j).kind = FORK) := by
    intro j; by_cases hj : j = i
    · subst hj; rw [hnew]; simp [hk, hk']
    · rw [hold j hj]; simp
  refine ⟨?_, wf.lidx, ?_, wf.lfresh, wf.ckeys, wf.fkeys, ?_, ?_, ?_, ?_, ?_, ?_, ?_, ?_, wf.ioIn, ?_, ?_⟩
  · intro p hp; rw [(hst _).2.1]; exact wf.nidx p hp
  · intro j hj; rw [(hst j).2.2.1]; exact wf.nfresh j hj
  · intro e he; obtain ⟨h1, h2, h3⟩ := wf.cellsSound e he
    exact ⟨h1, fun h => h2 ((hst _).2.2.2.1 h), by rw [(hst _).1]; exact h3⟩
  · intro e he; obtain ⟨h1, h2, h3⟩ := wf.forksSound e he
    exact ⟨h1, (hst _).2.2.2.2 h2, by rw [(hst _).1]; exact h3⟩
  · intro j hj hkj; rw [(hst j).1]; exact wf.cellsComplete j hj (fun h => hkj ((hst j).2.2.2.2 h))
  · intro j hj hkj; rw [(hst j).1]; exact wf.forksComplete j hj ((hst j).2.2.2.1 hkj)
  · -- ldrv
    intro l hl hpo
    obtain ⟨d, h1, h2, h3⟩ := wf.ldrv l hl
    have hdi : d ≠ i := by intro heq; rw [heq] at h3; exact hpo ⟨_, h3⟩
    exact ⟨d, h1, h2, by rw [hold d hdi]; exact h3⟩
  · intro l hl hpi
    obtain ⟨d, h1, h2, h3⟩ := wf.lrdr l hl
    have hdi : d ≠ i := by intro heq; rw [heq] at h3; exact hpi ⟨_, h3⟩
    exact ⟨d, h1, h2, by rw [hold d hdi]; exact h3⟩
  · intro j hj p l hp
    by_cases hji : j = i
    · subst hji; rw [hnew] at hp; simp at hp
    · rw [hold j hji] at hp; exact wf.outsBack j hj p l hp
  · intro j hj p l hp
    by_cases hji : j = i
    · subst hji; rw [hnew] at hp; simp at hp
    · rw [hold j hji] at hp; exact wf.insBack j hj p l hp
  · rintro l ⟨q, hq⟩
    obtain ⟨b1, b2, b3⟩ := wf.insBack i hi q l hq
    refine ⟨b1, ?_⟩
    intro j hj p hp
    by_cases hji : j = i
    · subst hji; rw [hnew] at hp; simp at hp
    · rw [hold j hji] at hp
      have := (wf.insBack j hj p l hp).2.1
      rw [b2] at this
      exact hji (Option.some.inj this).symm
  · rintro l ⟨q, hq⟩
    obtain ⟨b1, b2, b3⟩ := wf.outsBack i hi q l hq
    refine ⟨b1, ?_⟩
    intro j hj p hp
    by_cases hji : j = i
    · subst hji; rw [hnew] at hp; simp at hp
    · rw [hold j hji] at hp
      have := (wf.outsBack j hj p l hp).2.1
      rw [b2] at this
      exact hji (Option.some.inj this).symm

/-! ## `Line.remove()`: description of the result for a line with a driver, whatever its reader field holds -/
section removeLine
variable {c : Circ} {l d : Nat}

theorem removeLine_eq_none (hdrv : (c.lobj l).driver = some d) (hrdr : (c.lobj l).reader = none)
    (ha : (c.lobj l).alive = true) :
    removeLine c l =
      let h1 := upd c.nobj d { c.nobj d with outs := outsAfter c l d }
      let k := (c.lobj l).index
      let L2 := reindexL (lobjAfter c l d) (idxDel c.lines k).2 k
      { c with nobj := h1, lines := (idxDel c.lines k).1,
               lobj := upd L2 l { L2 l with driver := none, reader := none, alive := false } } := by
  have hf := lobjAfter_fields c l d l
  unfold removeLine
  rw [detachDriver_eq hdrv]
  simp only [detachReader, hf.2.2.1, hrdr]
  simp only [delLine, hf.2.2.2.2, ha, if_true, hf.1]
  simp only [killLine]

/-- node objects after `Line.remove()` -/
theorem removeLine_nobj' (hdrv : (c.lobj l).driver = some d) (ha : (c.lobj l).alive = true) (j : Nat) :
    ((removeLine c l).nobj j).name = (c.nobj j).name ∧ ((removeLine c l).nobj j).kind = (c.nobj j).kind ∧
    ((removeLine c l).nobj j).index = (c.nobj j).index ∧ ((removeLine c l).nobj j).alive = (c.nobj j).alive ∧
    ((removeLine c l).nobj j).outs = (if j = d then outsAfter c l d else (c.nobj j).outs) ∧
    ((removeLine c l).nobj j).ins =
      (if (c.lobj l).reader = some j then growSet (c.nobj j).ins (c.lobj l).readerPin none else (c.nobj j).ins) := by
  cases hrdr : (c.lobj l).reader with
  | some r =>
    have := removeLine_nobj hdrv hrdr ha j
    simp only [Option.some.injEq]
    by_cases hjr : j = r
    · subst hjr; simpa using this
    · have h2 : ¬ r = j := fun h => hjr h.symm
      simpa [hjr, h2] using this
  | none =>
    rw [removeLine_eq_none hdrv hrdr ha]
    simp only [upd_get]
    by_cases h2 : j = d <;> simp [h2]

theorem removeLine_lobj' (hdrv : (c.lobj l).driver = some d) (ha : (c.lobj l).alive = true) (x : Nat) (hx : x ≠ l) :
    ((removeLine c l).lobj x).driver = (c.lobj x).driver ∧ ((removeLine c l).lobj x).reader = (c.lobj x).reader ∧
    ((removeLine c l).lobj x).readerPin = (c.lobj x).readerPin ∧ ((removeLine c l).lobj x).alive = (c.lobj x).alive ∧
    ((removeLine c l).lobj x).driverPin = ((lobjAfter c l d) x).driverPin ∧
    ((removeLine c l).lobj x).index =
      (if (idxDel c.lines (c.lobj l).index).2 = some x then (c.lobj l).index else (c.lobj x).index) := by
  cases hrdr : (c.lobj l).reader with
  | some r => exact removeLine_lobj hdrv hrdr ha x hx
  | none =>
    rw [removeLine_eq_none hdrv hrdr ha]
    simp only [upd_get, hx, if_false]
    have h1 := reindexL_get (lobjAfter c l d) (idxDel c.lines (c.lobj l).index).2 (c.lobj l).index x
    have h2 := lobjAfter_fields c l d x
    grind

theorem removeLine_lines' (hdrv : (c.lobj l).driver = some d) (ha : (c.lobj l).alive = true) :
    (removeLine c l).lines = (idxDel c.lines (c.lobj l).index).1 := by
  cases hrdr : (c.lobj l).reader with
  | some r => rw [removeLine_eq hdrv hrdr ha]
  | none => rw [removeLine_eq_none hdrv hrdr ha]

end removeLine

/-! ## `Line.remove()` preserves `SInv` -/
theorem removeLine_sinv {c : Circ} {PI PO} {l : Nat} (s : SInv c PI PO) (hl : l ∈ c.lines) (hPO : ¬ PO l)
    (hrpin : ∀ r, (c.lobj l).reader = some r → r ∈ c.nodes → pin (c.nobj r).ins (c.lobj l).readerPin = some l) :
    SInv (removeLine c l) (fun x => PI x ∧ x ≠ l) PO := by
  obtain ⟨d, hdrv, hd, hdpin⟩ := s.ldrv l hl hPO
  have ha := (s.lfresh l hl).2
  obtain ⟨hk, hki⟩ := s.line_at hl
  have spec := idxDel_spec c.lines (fun j => (c.lobj j).index) s.lidx (c.lobj l).index hk
  rw [hki] at spec
  obtain ⟨sp1, sp2, sp3⟩ := spec
  have hn := removeLine_nobj' hdrv ha
  have hL := removeLine_lobj' hdrv ha
  have hlines : (removeLine c l).lines = (idxDel c.lines (c.lobj l).index).1 := removeLine_lines' hdrv ha
  have fr := removeLine_frame c l
  have hnodes : (removeLine c l).nodes = c.nodes := fr.1
  have hcells : (removeLine c l).cells = c.cells := fr.2.2.1
  have hforks : (removeLine c l).forks = c.forks := fr.2.2.2.1
  have hio : (removeLine c l).io = c.io := fr.2.1
  have hnext : (removeLine c l).nextN = c.nextN ∧ (removeLine c l).nextL = c.nextL := ⟨fr.2.2.2.2.1, fr.2.2.2.2.2⟩
  have hmem : ∀ x, x ∈ (removeLine c l).lines ↔ x ∈ c.lines ∧ x ≠ l := by rw [hlines]; exact sp2
  -- injectivity of the driver's pins
  have oinj : ∀ p q y, pin (c.nobj d).outs p = some y → pin (c.nobj d).outs q = some y → p = q := by
    intro p q y h1 h2
    have a := (s.outsBack d hd p y h1).2.2
    have b := (s.outsBack d hd q y h2).2.2
    omega
  have ainj : ∀ p q y, pin (outsAfter c l d) p = some y → pin (outsAfter c l d) q = some y → p = q := by
    intro p q y h1 h2
    obtain ⟨p', hp1, hp2, hp3⟩ := outsAfter_bwd h1
    obtain ⟨q', hq1, hq2, hq3⟩ := outsAfter_bwd h2
    rw [hp3, hq3, oinj p' q' y hp2 hq2]
  -- driver pins after renumbering
  have hdpin_in : ∀ x q, q ≠ (c.lobj l).driverPin → pin (c.nobj d).outs q = some x →
      ((lobjAfter c l d) x).driverPin = newPos c d (c.lobj l).driverPin q := by
    intro x q hq hx
    unfold lobjAfter
    by_cases hkf : (c.nobj d).kind = FORK
    · simp only [hkf, if_true]
      rw [renumber_in _ _ 0 x _ ainj (outsAfter_fwd hq hx)]; omega
    · simp only [hkf, if_false]
      rw [(s.outsBack d hd q x hx).2.2]; simp [newPos, hkf]
  have hdpin_out : ∀ x, (∀ q, pin (c.nobj d).outs q ≠ some x) → ((lobjAfter c l d) x).driverPin = (c.lobj x).driverPin := by
    intro x hx
    unfold lobjAfter
    split
    · rw [renumber_notin]
      intro p hp
      obtain ⟨q, _, hq2, _⟩ := outsAfter_bwd hp
      exact hx q hq2
    · rfl
  -- the pins of the input lists after the removal
  have hins : ∀ j ∈ c.nodes, ∀ p x, pin ((removeLine c l).nobj j).ins p = some x → pin (c.nobj j).ins p = some x ∧ x ≠ l := by
    intro j hj p x hp
    rw [(hn j).2.2.2.2.2] at hp
    split at hp
    · rename_i hrj
      rw [pin_growSet] at hp
      split at hp
      · cases hp
      · rename_i hpp
        refine ⟨hp, ?_⟩
        intro hxl; subst hxl
        have := hrpin j hrj hj
        exact hpp (s.insBack j hj p x hp).2.2.symm
    · rename_i hrj
      refine ⟨hp, ?_⟩
      intro hxl; subst hxl
      exact hrj (s.insBack j hj p x hp).2.1
  refine ⟨?_, ?_, ?_, ?_, ?_, ?_, ?_, ?_, ?_, ?_, ?_, ?_, ?_, ?_, ?_, ?_, ?_⟩
  · intro p hp; rw [(hn _).2.2.1]; simp only [hnodes] at hp ⊢; exact s.nidx p hp
  · -- lidx
    intro p hp
    have hp' : p < (idxDel c.lines (c.lobj l).index).1.length := by rw [← hlines]; exact hp
    have hx : (removeLine c l).lines[p] ∈ (removeLine c l).lines := List.getElem_mem _
    rw [(hL _ ((hmem _).1 hx).2).2.2.2.2.2]
    simp only [hlines]
    exact sp1 p hp'
  · intro j hj; rw [hnodes] at hj; rw [(hn j).2.2.2.1, hnext.1]; exact s.nfresh j hj
  · intro x hx
    obtain ⟨h1, h2⟩ := (hmem x).1 hx
    rw [(hL x h2).2.2.2.1, hnext.2]; exact s.lfresh x h1
  · rw [hcells]; exact s.ckeys
  · rw [hforks]; exact s.fkeys
  · intro e he; rw [hcells] at he; rw [(hn _).1, (hn _).2.1, hnodes]; exact s.cellsSound e he
  · intro e he; rw [hforks] at he; rw [(hn _).1, (hn _).2.1, hnodes]; exact s.forksSound e he
  · intro j hj hk'; rw [hnodes] at hj; rw [(hn _).1, hcells]; rw [(hn _).2.1] at hk'; exact s.cellsComplete j hj hk'
  · intro j hj hk'; rw [hnodes] at hj; rw [(hn _).1, hforks]; rw [(hn _).2.1] at hk'; exact s.forksComplete j hj hk'
  · -- ldrv
    intro x hx hpo
    obtain ⟨h1, h2⟩ := (hmem x).1 hx
    obtain ⟨d0, e1, e2, e3⟩ := s.ldrv x h1 hpo
    refine ⟨d0, by rw [(hL x h2).1]; exact e1, by rw [hnodes]; exact e2, ?_⟩
    rw [(hL x h2).2.2.2.2.1, (hn d0).2.2.2.2.1]
    by_cases hd0 : d0 = d
    · subst hd0
      simp only [if_true]
      have hq : (c.lobj x).driverPin ≠ (c.lobj l).driverPin := by
        intro h; rw [h, hdpin] at e3; exact h2 (Option.some.inj e3).symm
      rw [hdpin_in x _ hq e3]
      exact outsAfter_fwd hq e3
    · simp only [hd0, if_false]
      rw [hdpin_out x (by
        intro q hq
        have := (s.outsBack d hd q x hq).2.1
        rw [e1] at this; exact hd0 (Option.some.inj this))]
      exact e3
  · -- lrdr
    intro x hx hpi
    obtain ⟨h1, h2⟩ := (hmem x).1 hx
    have hpi' : ¬ PI x := fun h => hpi ⟨h, h2⟩
    obtain ⟨r0, e1, e2, e3⟩ := s.lrdr x h1 hpi'
    refine ⟨r0, by rw [(hL x h2).2.1]; exact e1, by rw [hnodes]; exact e2, ?_⟩
    rw [(hL x h2).2.2.1, (hn r0).2.2.2.2.2]
    split
    · rename_i hr0
      rw [pin_growSet]
      split
      · rename_i hp
        have := hrpin r0 hr0 e2
        rw [hp, this] at e3; exact absurd (Option.some.inj e3).symm h2
      · exact e3
    · exact e3
  · -- outsBack
    intro j hj p x hp
    rw [hnodes] at hj
    rw [(hn j).2.2.2.2.1] at hp
    by_cases hjd : j = d
    · subst hjd
      simp only [if_true] at hp
      obtain ⟨q, hq1, hq2, hq3⟩ := outsAfter_bwd hp
      obtain ⟨b1, b2, b3⟩ := s.outsBack j hj q x hq2
      have hxl : x ≠ l := by
        intro h; subst h; exact hq1 b3.symm
      rw [(hL x hxl).1, (hL x hxl).2.2.2.2.1, hdpin_in x q hq1 hq2]
      exact ⟨(hmem x).2 ⟨b1, hxl⟩, b2, hq3.symm⟩
    · simp only [hjd, if_false] at hp
      obtain ⟨b1, b2, b3⟩ := s.outsBack j hj p x hp
      have hxl : x ≠ l := by
        intro h; subst h; rw [hdrv] at b2; exact hjd (Option.some.inj b2).symm
      rw [(hL x hxl).1, (hL x hxl).2.2.2.2.1, hdpin_out x (by
        intro q hq
        have := (s.outsBack d hd q x hq).2.1
        rw [b2] at this; exact hjd (Option.some.inj this))]
      exact ⟨(hmem x).2 ⟨b1, hxl⟩, b2, b3⟩
  · -- insBack
    intro j hj p x hp
    rw [hnodes] at hj
    obtain ⟨hp', hxl⟩ := hins j hj p x hp
    obtain ⟨b1, b2, b3⟩ := s.insBack j hj p x hp'
    rw [(hL x hxl).2.1, (hL x hxl).2.2.1]
    exact ⟨(hmem x).2 ⟨b1, hxl⟩, b2, b3⟩
  · intro j hj; rw [hio] at hj; rw [hnodes]; exact s.ioIn j hj
  · -- piOk
    intro x hx
    obtain ⟨h1, h2⟩ := s.piOk x hx.1
    refine ⟨(hmem x).2 ⟨h1, hx.2⟩, ?_⟩
    intro j hj p hp
    rw [hnodes] at hj
    exact h2 j hj p (hins j hj p x hp).1
  · -- poOk
    intro x hx
    obtain ⟨h1, h2⟩ := s.poOk x hx
    have hxl : x ≠ l := fun h => hPO (h ▸ hx)
    refine ⟨(hmem x).2 ⟨h1, hxl⟩, ?_⟩
    intro j hj p hp
    rw [hnodes] at hj
    rw [(hn j).2.2.2.2.1] at hp
    split at hp
    · rename_i hjd
      obtain ⟨q, _, hq2, _⟩ := outsAfter_bwd hp
      exact h2 d hd q hq2
    · exact h2 j hj p hp

/-- membership in the line list after `Line.remove()` -/
theorem removeLine_mem' {c : Circ} {PI PO} {l : Nat} (s : SInv c PI PO) (hl : l ∈ c.lines) (hPO : ¬ PO l) (x : Nat) :
    x ∈ (removeLine c l).lines ↔ x ∈ c.lines ∧ x ≠ l := by
  obtain ⟨d, hdrv, _, _⟩ := s.ldrv l hl hPO
  have ha := (s.lfresh l hl).2
  obtain ⟨hk, hki⟩ := s.line_at hl
  have spec := idxDel_spec c.lines (fun j => (c.lobj j).index) s.lidx (c.lobj l).index hk
  rw [hki] at spec
  rw [removeLine_lines' hdrv ha]; exact spec.2.1 x

end KV.CircObj
