import KyupyVerif.Proofs.VerilogLib2
import KyupyVerif.Proofs.ImplDatasheet2
import KyupyVerif.Proofs.CircOuts
/-! Capstone C11 ∘ C10 ∘ C19, part 3: the pins of a library instance in the parsed net, by names — what the labelling of an
environment shows on its input pins (`instVals_label`) and which lines hang on its output pins (`instOut_of_conn`,
`conn_of_instOut`); the datasheet meaning of the instance node (`CellDatasheet`, C10/C19) as an equation of the module
(`cellDatasheet_iff_module`). -/
namespace KV.Netlist
open KV KV.Transform KV.TL KV.DS

universe u
variable {cfg : Cfg} {tl : TL} {ports : List String} {stmts : List Stmt}

/-- what the labelling of `σ` shows at input pin `k` of an instance: the signal or constant connected there -/
theorem inst_inPin_label {α : Type u} (hok : VOK cfg tl ports stmts) (i : VInst) (hi : i ∈ vInsts stmts) (z : α)
    (prim : String → α → α → α → α → α) (σ : String → α) (k : Nat) :
    (((verilogNet cfg tl ports stmts).node ((module cfg tl ports stmts).nodeIdx (.cell i.name 0))).inPin k).map
      (vLabel cfg tl stmts z prim σ) = (inSig tl i k).map (sigVal z prim σ) := by
  have hres := v_resolved_inst hok i hi k
  have hpin : ((verilogNet cfg tl ports stmts).node ((module cfg tl ports stmts).nodeIdx (.cell i.name k))).inPin k =
      inLineOf (vL cfg tl stmts) (.cell i.name k) := by
    have := toNet_inPin_ep (module cfg tl ports stmts) (module cfg tl ports stmts).ioVerilog (.cell i.name k) hres
    rw [module_flat' hok] at this
    exact this
  rw [nodeIdx_cell_pin _ i.name 0 k, hpin, v_label_inLine hok z prim σ]
  have h1 := inVal_inst hok i hi z prim (wOfV cfg tl stmts z prim σ) σ (fun t ht _ => wOfV_line hok z prim σ t ht) 0 k
  rw [inVal_cell_eq, any_vL] at h1
  exact h1

/-- the values on the input pins of an instance under a labelling that is the labelling of `σ` on the lines -/
theorem instVals_label {α : Type u} (hok : VOK cfg tl ports stmts) (i : VInst) (hi : i ∈ vInsts stmts) (z : α)
    (prim : String → α → α → α → α → α) (σ : String → α) (v : Nat → α)
    (hv : ∀ j, j < (verilogNet cfg tl ports stmts).lines.size → v j = vLabel cfg tl stmts z prim σ j) :
    instVals (verilogNNet cfg tl ports stmts) ((module cfg tl ports stmts).nodeIdx (.cell i.name 0)) z v =
      (List.range ((verilogNet cfg tl ports stmts).node ((module cfg tl ports stmts).nodeIdx (.cell i.name 0))).ins.length).map
        fun k => match inSig tl i k with
          | some s => sigVal z prim σ s
          | none => z := by
  have hres := v_resolved_inst hok i hi 0
  have hsz : (module cfg tl ports stmts).nodeIdx (.cell i.name 0) < (verilogNet cfg tl ports stmts).nodes.size := by
    unfold verilogNet; rw [toNet_nodes_size]; exact hres
  unfold instVals
  rw [verilogNNet_net]
  apply List.ext_getElem
  · simp
  · intro k h1 h2
    simp only [List.getElem_map, List.getElem_range]
    have hk : k < ((verilogNet cfg tl ports stmts).node ((module cfg tl ports stmts).nodeIdx (.cell i.name 0))).ins.length := by
      simpa using h1
    have hlab := inst_inPin_label hok i hi z prim σ k
    have hpin : ((verilogNet cfg tl ports stmts).node ((module cfg tl ports stmts).nodeIdx (.cell i.name 0))).inPin k =
        ((verilogNet cfg tl ports stmts).node ((module cfg tl ports stmts).nodeIdx (.cell i.name 0))).ins[k] := by
      unfold NodeD.inPin
      rw [List.getD_eq_getElem?_getD, List.getElem?_eq_getElem hk]; rfl
    rw [hpin] at hlab
    cases ho : ((verilogNet cfg tl ports stmts).node ((module cfg tl ports stmts).nodeIdx (.cell i.name 0))).ins[k] with
    | none =>
      rw [ho] at hlab
      cases hs : inSig tl i k with
      | none => rfl
      | some s => rw [hs] at hlab; cases hlab
    | some l =>
      rw [ho] at hlab
      have hl : l < (verilogNet cfg tl ports stmts).lines.size :=
        (wf_in (net := verilogNet cfg tl ports stmts) (toNet_wf _ _) hsz (pin := k) (l := l)
          (by rw [List.getElem?_eq_getElem hk, ho])).1
      cases hs : inSig tl i k with
      | none => rw [hs] at hlab; cases hlab
      | some s =>
        rw [hs] at hlab
        simp only [Option.map_some, Option.some.injEq] at hlab
        simp only [hv l hl, hlab]

/-- the line of an output connection hangs on that output pin of the instance node, and carries the driven signal -/
theorem instOut_of_conn {α : Type u} (hok : VOK cfg tl ports stmts) (hw : WF (verilogNNet cfg tl ports stmts)) (i : VInst)
    (hi : i ∈ vInsts stmts) (o : Nat × String) (ho : o ∈ outConn tl (sigDecls stmts) i) (z : α)
    (prim : String → α → α → α → α → α) (σ : String → α) :
    ∃ j, j < (verilogNet cfg tl ports stmts).lines.size ∧
      instOut (verilogNNet cfg tl ports stmts) ((module cfg tl ports stmts).nodeIdx (.cell i.name 0)) o.1 = some j ∧
      vLabel cfg tl stmts z prim σ j = σ o.2 := by
  have hmem := vFlat_inst_out (cfg := cfg) (sigDecls stmts) i hi o ho
  obtain ⟨j, hj, hjt⟩ := List.getElem_of_mem hmem
  have hjL : j < (flatLines (module cfg tl ports stmts)).length := by rw [module_flat' hok, vL_length]; exact hj
  have hjs : j < (verilogNet cfg tl ports stmts).lines.size := by rw [verilogNet_lines_size hok]; exact hj
  have hfl : (flatLines (module cfg tl ports stmts))[j] = (Ep.cell i.name o.1, Ep.fork o.2) := by
    have := vL_get (cfg := cfg) (tl := tl) (stmts := stmts) j (by rw [vL_length]; exact hj)
    simp only [module_flat' hok, this, hjt]
    rfl
  have hline := toNet_line (module cfg tl ports stmts) (module cfg tl ports stmts).ioVerilog j hjL
  rw [hfl] at hline
  have hb := (hw.back j hjs).2.2.1
  have hline' : (verilogNNet cfg tl ports stmts).net.line j =
      ⟨(module cfg tl ports stmts).nodeIdx (.cell i.name o.1), o.1, (module cfg tl ports stmts).nodeIdx (.fork o.2), 0⟩ := hline
  rw [hline'] at hb
  refine ⟨j, hjs, hb, ?_⟩
  rw [vLabel_eq z prim σ j hj, hjt]
  exact sigVal_driven hok z prim σ _ ((mem_drivenSigs _ _).mpr (Or.inl ⟨i, hi, o, ho, rfl⟩))

/-- a line on output pin `k` of an instance node is the line of an output connection with index `k` -/
theorem conn_of_instOut {α : Type u} (hok : VOK cfg tl ports stmts) (hw : WF (verilogNNet cfg tl ports stmts)) (i : VInst)
    (hi : i ∈ vInsts stmts) (k ll : Nat)
    (h : instOut (verilogNNet cfg tl ports stmts) ((module cfg tl ports stmts).nodeIdx (.cell i.name 0)) k = some ll) (z : α)
    (prim : String → α → α → α → α → α) (σ : String → α) :
    ll < (verilogNet cfg tl ports stmts).lines.size ∧
      ∃ o ∈ outConn tl (sigDecls stmts) i, o.1 = k ∧ vLabel cfg tl stmts z prim σ ll = σ o.2 := by
  have hres := v_resolved_inst hok i hi 0
  have hsz : (module cfg tl ports stmts).nodeIdx (.cell i.name 0) < (verilogNNet cfg tl ports stmts).net.nodes.size := by
    show _ < (verilogNet cfg tl ports stmts).nodes.size
    unfold verilogNet; rw [toNet_nodes_size]; exact hres
  obtain ⟨hl, hd, hp⟩ := hw.fwdOut _ hsz k ll h
  have hl' : ll < (verilogNet cfg tl ports stmts).lines.size := hl
  refine ⟨hl', ?_⟩
  have hj : ll < (vFlat cfg tl (sigDecls stmts) stmts).length := by rw [← verilogNet_lines_size hok]; exact hl'
  have hjL : ll < (flatLines (module cfg tl ports stmts)).length := by rw [module_flat' hok, vL_length]; exact hj
  have hfl : (flatLines (module cfg tl ports stmts))[ll] = vl ((vFlat cfg tl (sigDecls stmts) stmts)[ll]) := by
    have := vL_get (cfg := cfg) (tl := tl) (stmts := stmts) ll (by rw [vL_length]; exact hj)
    simp only [module_flat' hok, this]
  have hline : (verilogNNet cfg tl ports stmts).net.line ll = _ :=
    toNet_line (module cfg tl ports stmts) (module cfg tl ports stmts).ioVerilog ll hjL
  rw [hline, hfl] at hd hp
  simp only [vl] at hd hp
  have ht := List.getElem_mem hj
  rcases ep_driver_inj _ _ _ hres hd with ⟨f, h1, _⟩ | ⟨n, p, p', h1, h2⟩
  · cases h1
  · simp only [Ep.cell.injEq] at h1
    obtain ⟨rfl, rfl⟩ := h1
    rcases v_driver_cases hok _ ht with ⟨j, hjm, o, ho, hto⟩ | ⟨hnh, _⟩
    · rw [hto] at h2 hp
      simp only [Ep.cell.injEq] at h2
      have hij := inst_eq hok hjm hi h2.1
      subst hij
      refine ⟨o, ho, ?_, ?_⟩
      · simpa [dpinOf] using hp
      · rw [vLabel_eq z prim σ ll hj, hto]
        exact sigVal_driven hok z prim σ _ ((mem_drivenSigs _ _).mpr (Or.inl ⟨j, hjm, o, ho, rfl⟩))
    · exact absurd ⟨i, hi, trivial, p', h2⟩ (hnh (fun _ => True))

/-- **the datasheet meaning of a library instance's node is an equation of the module**: under a labelling that is the
labelling of `σ` on the lines, with as many input pins as the table row has inputs -/
theorem cellDatasheet_iff_module (hok : VOK cfg tl ports stmts) (hw : WF (verilogNNet cfg tl ports stmts)) (row : String → Cell)
    (i : VInst) (hi : i ∈ vInsts stmts) (σ : String → Bool) (v : Nat → Bool)
    (hv : ∀ j, j < (verilogNet cfg tl ports stmts).lines.size → v j = vLabel cfg tl stmts false prim2 σ j)
    (hn : ((verilogNet cfg tl ports stmts).node ((module cfg tl ports stmts).nodeIdx (.cell i.name 0))).ins.length =
      (row i.ty).inNames.length) :
    CellDatasheet row (verilogNNet cfg tl ports stmts) ((module cfg tl ports stmts).nodeIdx (.cell i.name 0)) v ↔
      ∃ fs, cellFuns row i.ty = some fs ∧ ∀ o ∈ outConn tl (sigDecls stmts) i, ∀ f, fs[o.1]? = some f →
        σ o.2 = f (libInVals tl σ i (row i.ty).inNames.length) := by
  have hkind : ((verilogNNet cfg tl ports stmts).net.node ((module cfg tl ports stmts).nodeIdx (.cell i.name 0))).kind = i.ty := by
    rw [verilogNNet_net, verilogNet_kind _ (v_resolved_inst hok i hi 0), v_kindOf_inst hok i hi]
  have hvals : instVals (verilogNNet cfg tl ports stmts) ((module cfg tl ports stmts).nodeIdx (.cell i.name 0)) false v =
      libInVals tl σ i (row i.ty).inNames.length := by
    rw [instVals_label hok i hi false prim2 σ v hv, hn]; rfl
  unfold CellDatasheet cellFuns
  rw [hkind, hvals]
  constructor
  · rintro ⟨fam, fs, hf, hd, hall⟩
    refine ⟨fs, by rw [hf]; exact hd, ?_⟩
    intro o ho f hfo
    obtain ⟨j, hj, hjo, hjl⟩ := instOut_of_conn hok hw i hi o ho false prim2 σ
    obtain ⟨hk, hfe⟩ := List.getElem?_eq_some_iff.mp hfo
    rw [← hjl, ← hv j hj, hall o.1 hk j hjo, hfe]
  · rintro ⟨fs, hf, hall⟩
    cases hc : classify (baseName i.ty.toList) with
    | none => rw [hc] at hf; cases hf
    | some fam =>
      rw [hc] at hf
      refine ⟨fam, fs, rfl, hf, ?_⟩
      intro k hk ll hll
      obtain ⟨hl, o, ho, hok', hlab⟩ := conn_of_instOut hok hw i hi k ll hll false prim2 σ
      subst hok'
      rw [hv ll hl, hlab]
      exact hall o ho _ (List.getElem?_eq_getElem hk)

end KV.Netlist
