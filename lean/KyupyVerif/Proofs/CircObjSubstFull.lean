import KyupyVerif.Proofs.CircObjSubstStatic
/-! C09: the fork outputs of the result of `substitute` are gap-free, so that `substStatic` alone gives `WFc`.

Forks that are not images of `node_map` (the forks of the host): only `Line.remove` of an ignored input touches their
output lists, and the squeeze keeps them gap-free; every other assignment of `substitute` writes output pins of images.
Images that are forks: after the connecting loops their output lists may have a gap (an unconnected output pin of the
instance); the loop that follows makes them dense again (`densify`).  The removal of the dangling logic keeps all forks
gap-free. -/
namespace KV.CircObj

/-- one pin list of a fork is gap-free after `Line.remove()` if it was before -/
theorem removeLine_outs_gapfree {c : Circ} {PI PO} {l : Nat} (s : SInv c PI PO) (hl : l ∈ c.lines) (hPO : ¬ PO l) (j : Nat)
    (hk : (c.nobj j).kind = FORK) (hj : none ∉ (c.nobj j).outs) : none ∉ ((removeLine c l).nobj j).outs := by
  obtain ⟨d, hdrv, hd, hdpin⟩ := s.ldrv l hl hPO
  have ha := (s.lfresh l hl).2
  have hn := removeLine_nobj' hdrv ha
  rw [(hn j).2.2.2.2.1]
  split
  · rename_i hjd; subst hjd
    have hlt := pin_eq_some_lt hdpin
    unfold outsAfter
    simp only [hk, if_true, pin_set_lt hlt, List.eraseIdx_set_eq]
    exact fun h => hj ((List.eraseIdx_sublist _ _).subset h)
  · exact hj

/-- the forks that are not images of `node_map` are gap-free -/
def OldFF (nm : NMap) (c : Circ) : Prop :=
  ∀ j ∈ c.nodes, (∀ e ∈ nm, e.2 ≠ j) → (c.nobj j).kind = FORK → none ∉ (c.nobj j).outs

/-- `OldFF` is preserved by every step that leaves kinds and node list alone and changes output lists only of images -/
theorem OldFF.step {nm : NMap} {c c' : Circ} (f : OldFF nm c) (hnodes : c'.nodes = c.nodes)
    (hkind : ∀ j, (c'.nobj j).kind = (c.nobj j).kind)
    (houts : ∀ j, (c'.nobj j).outs = (c.nobj j).outs ∨ ∃ e ∈ nm, e.2 = j) : OldFF nm c' := by
  intro j hj hni hk
  rw [hnodes] at hj; rw [hkind] at hk
  rcases houts j with h | ⟨e, he, hej⟩
  · rw [h]; exact f j hj hni hk
  · exact absurd hej (hni e he)

/-! ## the loops -/
theorem addImplNode_oldff {m : Circ} {hostName : String} {des : Option Nat} {st st' : Circ × NMap} {n : Nat} {rest : List Nat}
    (wf : WFc0 m) (hdes : ∀ dn, des = some dn → inIos m dn = false) (hn : n ∈ m.nodes)
    (inv : NmInv m des st.1 st.2 (n :: rest)) (f : OldFF st.2 st.1)
    (h : addImplNode m hostName des st n = some st') : OldFF st'.2 st'.1 := by
  rcases addImplNode_cases h with rfl | ⟨kind, rfl, hc1, hc2⟩
  · exact f
  · have hfresh : ∀ e ∈ st.2, e.1 ≠ n := by
      intro e he
      rcases inv.keyDone e he with hd | hd
      · intro heq
        by_cases hio : inIos m n = true
        · have := hdes e.1 hd; rw [heq, hio] at this; cases this
        · have := hc2 (by simpa using hio) e.1 hd
          rw [heq, sameNode_self] at this; cases this
      · intro heq; exact hd (by simp [heq])
    rw [nmSet_fresh wf inv.ok hn hfresh]
    intro j hj hni hk
    have hjn : j ≠ st.1.nextN := fun e => hni (n, st.1.nextN) (by simp) e.symm
    have hj' : j ∈ st.1.nodes := by
      have : j ∈ st.1.nodes ++ [st.1.nextN] := hj
      simpa [hjn] using this
    have hold : (addNode st.1 (hostName ++ "~" ++ (m.nobj n).name) kind).nobj j = st.1.nobj j := by
      simp [addNode, hjn]
    rw [hold] at hk ⊢
    exact f j hj' (fun e he => hni e (by simp [he])) hk

theorem phase1_oldff {c : Circ} {i : Nat} {m : Circ} (des : Option Nat) (wfc : WFc c) (hi : i ∈ c.nodes) :
    OldFF (phase1 c i m des).2 (phase1 c i m des).1 := by
  unfold phase1
  cases des with
  | none =>
    intro j hj _ hk
    exact removeNode_ffull wfc.toWFc0 hi wfc.forkFull j hj hk
  | some dn =>
    intro j hj hni hk
    have hji : j ≠ i := fun e => hni (dn, i) (by simp) e.symm
    simp only [upd_get, hji, if_false] at hk ⊢
    exact wfc.forkFull j hj hk

theorem addImplLine_oldff {m : Circ} {nm : NMap} {c c' : Circ} {l : Nat} (wf : WFc0 m) (ok : NmOK m nm)
    (hl : l ∈ m.lines) (f : OldFF nm c) (h : addImplLine m nm c l = some c') : OldFF nm c' := by
  unfold addImplLine at h
  cases he : implLineEnds m nm l with
  | none => simp only [he, Option.some.injEq] at h; subst h; exact f
  | some q =>
    obtain ⟨D, dp, R, rp⟩ := q
    obtain ⟨d, r, hd, hr, hdm, hrm, hdp, hrp⟩ := implLineEnds_spec wf ok hl he
    simp only [he, Option.some.injEq] at h
    subst h
    have hn := addLine_nobj c D (some dp) R (some rp)
    refine f.step rfl (fun j => (hn j).2.1) ?_
    intro j
    rw [(hn j).2.2.2.2.1]
    by_cases hj : j = D
    · subst hj; exact Or.inr ⟨(d, j), hdm, rfl⟩
    · exact Or.inl (by simp [hj])

theorem connectIn_oldff {c0 : Circ} {i : Nat} {m : Circ} {nm : NMap} {L0 : Nat} {c c' : Circ} {p : Nat × Option Nat}
    {rest : List (Nat × Option Nat)} (inv : Inv4 c0 i m nm L0 c (p :: rest)) (f : OldFF nm c)
    (h : connectIn m nm c p = some c') : OldFF nm c' := by
  obtain ⟨inn, o⟩ := p
  cases o with
  | none => simp only [connectIn, Option.some.injEq] at h; subst h; exact f
  | some ll =>
    have hpll : Pend ((inn, some ll) :: rest) ll := ⟨(inn, some ll), by simp, rfl⟩
    simp only [connectIn] at h
    split at h
    · have h' : removeLineChk (setStaleReader c ll none (c.lobj ll).readerPin) ll = some c' := h
      have hc' := removeLineChk_some h'
      subst hc'
      have s0 := staleReader_sinv inv.ci.s hpll none (c.lobj ll).readerPin
      have hll := (s0.piOk ll hpll).1
      obtain ⟨d, hdrv, hd, hdpin⟩ := s0.ldrv ll hll (inv.disj ll hpll)
      have ha := (s0.lfresh ll hll).2
      have hn := removeLine_nobj' hdrv ha
      intro j hj hni hk
      rw [(removeLine_frame _ ll).1] at hj
      rw [(hn j).2.1] at hk
      exact removeLine_outs_gapfree s0 hll (inv.disj ll hpll) j hk (f j hj hni hk)
    · cases ht : inTarget m nm inn with
      | none => simp [ht] at h
      | some q =>
        obtain ⟨R, rp⟩ := q
        simp only [ht, Option.some.injEq] at h
        subst h
        have hn := setReader_nobj c ll R rp
        exact f.step rfl (fun j => (hn j).2.1) (fun j => Or.inl (hn j).2.2.2.2.1)

theorem connectOut_oldff {m : Circ} {nm : NMap} {st st' : Circ × List Nat} {p : Nat × Option Nat} (f : OldFF nm st.1)
    (h : connectOut m nm st p = some st') : OldFF nm st'.1 := by
  obtain ⟨l, o⟩ := p
  cases o with
  | none => simp only [connectOut, Option.some.injEq] at h; subst h; exact f
  | some ll =>
    simp only [connectOut] at h
    cases ht : outTarget m nm l with
    | none => simp [ht] at h
    | some q =>
      obtain ⟨D, dp⟩ := q
      simp only [ht, Option.some.injEq] at h
      subst h
      have hn := setDriver_nobj st.1 ll D dp
      obtain ⟨e, he, hed⟩ := outTarget_mem ht
      refine f.step rfl (fun j => (hn j).2.1) ?_
      intro j
      rw [(hn j).2.2.2.2.2]
      by_cases hj : j = D
      · subst hj; exact Or.inr ⟨e, he, hed⟩
      · exact Or.inl (by simp [hj])

/-! ## the dense outputs -/
theorem densify_kind : ∀ (vs : List Nat) (c : Circ) (x : Nat), ((vs.foldl densifyNode c).nobj x).kind = (c.nobj x).kind := by
  intro vs
  induction vs with
  | nil => intro c x; rfl
  | cons v vs ih => intro c x; simp only [List.foldl_cons]; rw [ih, ((densifyNode_frame c v).2.2.2.2.2.2.2 x).2.1]

theorem densify_outs_notin : ∀ (vs : List Nat) (c : Circ) (x : Nat), x ∉ vs → ((vs.foldl densifyNode c).nobj x).outs = (c.nobj x).outs := by
  intro vs
  induction vs with
  | nil => intro c x _; rfl
  | cons v vs ih =>
    intro c x hx
    simp only [List.mem_cons, not_or] at hx
    simp only [List.foldl_cons]
    rw [ih _ x hx.2, ((densifyNode_frame c v).2.2.2.2.2.2.2 x).2.2.2.2.2 hx.1]

/-- a gap-free fork stays gap-free through the loop -/
theorem densify_keeps : ∀ (vs : List Nat) (c : Circ) (x : Nat), (c.nobj x).kind = FORK → none ∉ (c.nobj x).outs →
    none ∉ ((vs.foldl densifyNode c).nobj x).outs := by
  intro vs
  induction vs with
  | nil => intro c x _ h; exact h
  | cons v vs ih =>
    intro c x hk h
    simp only [List.foldl_cons]
    apply ih
    · rw [((densifyNode_frame c v).2.2.2.2.2.2.2 x).2.1]; exact hk
    · by_cases hxv : x = v
      · subst hxv; exact densifyNode_full c x hk
      · rw [((densifyNode_frame c v).2.2.2.2.2.2.2 x).2.2.2.2.2 hxv]; exact h

/-- a fork that the loop visits is gap-free afterwards -/
theorem densify_visited : ∀ (vs : List Nat) (c : Circ) (x : Nat), x ∈ vs → (c.nobj x).kind = FORK →
    none ∉ ((vs.foldl densifyNode c).nobj x).outs := by
  intro vs
  induction vs with
  | nil => intro c x hx; simp at hx
  | cons v vs ih =>
    intro c x hx hk
    simp only [List.foldl_cons]
    by_cases hxv : x = v
    · subst hxv
      exact densify_keeps vs _ x (by rw [((densifyNode_frame c x).2.2.2.2.2.2.2 x).2.1]; exact hk) (densifyNode_full c x hk)
    · simp only [List.mem_cons] at hx
      rcases hx with hx | hx
      · exact absurd hx hxv
      · exact ih _ x hx (by rw [((densifyNode_frame c v).2.2.2.2.2.2.2 x).2.1]; exact hk)

/-- after `densify` every fork is gap-free: the images by the loop, the others by `OldFF` -/
theorem densify_ffull {nm : NMap} {c5 : Circ} (f : OldFF nm c5) : FFull (densify c5 nm) := by
  intro j hj hk
  unfold densify at hj hk ⊢
  rw [densify_nodes] at hj
  rw [densify_kind] at hk
  by_cases hjv : j ∈ nm.map (·.2)
  · exact densify_visited _ c5 j hjv hk
  · rw [densify_outs_notin _ c5 j hjv]
    exact f j hj (fun e he hej => hjv (List.mem_map.2 ⟨e, he, hej⟩)) hk

/-! ## removal of the dangling logic keeps the forks gap-free -/
theorem dangling_ffull {own : List Nat} : ∀ (dang : List Nat) (c c' : Circ), WFc0 c → FFull c →
    (∀ n ∈ dang, n ∈ c.nodes ∨ (c.nobj n).alive = false) → foldO (danglingStep own) c dang = some c' → FFull c' := by
  intro dang
  induction dang with
  | nil => intro c c' _ ff _ h; simp only [foldO, Option.some.injEq] at h; exact h ▸ ff
  | cons n rest ih =>
    intro c c' wf ff hd h
    simp only [foldO] at h
    cases hs : danglingStep own c n with
    | none => simp [hs] at h
    | some c1 =>
      simp only [hs] at h
      unfold danglingStep at hs
      split at hs
      · rename_i hal
        have hn : n ∈ c.nodes := by
          rcases hd n (by simp) with h1 | h1
          · exact h1
          · rw [h1] at hal; cases hal
        obtain ⟨wf1, ff1, keeps⟩ := removeDanglingFrom_wf0 wf (Or.inl hn) hs
        exact ih c1 c' wf1 (ff1 ff) (fun x hx => keeps x (hd x (by simp [hx]))) h
      · cases hs
        exact ih c c' wf ff (fun x hx => hd x (by simp [hx])) h

/-! ## the theorem -/
/-- under the structural precondition the fork outputs of the result of `substitute` are gap-free -/
theorem substituteObj_ffull {c c' : Circ} {i : Nat} {m : Circ} (wfc : WFc c) (hst : substStatic c i m = true)
    (h : substituteObj c i m = some c') : FFull c' := by
  have wfc0 := wfc.toWFc0
  unfold substStatic implStatic at hst
  simp only [Bool.and_eq_true, List.contains_eq_mem, decide_eq_true_eq] at hst
  obtain ⟨⟨⟨hi, hk⟩, hloop⟩, ⟨hinv, hioN⟩, hdesNP⟩ := hst
  have wf : WFc0 m := ((invOK_iff m).1 hinv).toWFc0
  unfold substituteObj at h
  cases hs : implShape m with
  | none => simp [hs] at h
  | some sh =>
    simp only [hs] at h
    split at h
    · cases h
    rename_i har
    have har' : arityOK c i sh = true := by simpa using har
    unfold arityOK at har'
    simp only [Bool.and_eq_true, decide_eq_true_eq] at har'
    have hdes : ∀ dn, sh.des = some dn → inIos m dn = false := by
      intro dn hd
      unfold desNotPort at hdesNP
      simp only [hs, hd, Bool.not_eq_true'] at hdesNP
      exact hdesNP
    obtain ⟨hsp1, hsp2, _⟩ := implShape_spec hs
    unfold substCopy at h
    cases h2 : foldO (addImplNode m (c.nobj i).name sh.des) (phase1 c i m sh.des) m.nodes with
    | none => simp [h2] at h
    | some st2 =>
      obtain ⟨c2, nm⟩ := st2
      simp only [h2] at h
      cases h3 : foldO (addImplLine m nm) c2 m.lines with
      | none => simp [h3] at h
      | some c3 =>
        simp only [h3, Option.map_some] at h
        unfold substConnect at h
        cases h4 : foldO (connectIn m nm) c3 (sh.inPorts.zip (padTo (c.nobj i).ins sh.inPorts.length)) with
        | none => simp [h4] at h
        | some c4 =>
          simp only [h4] at h
          cases h5 : foldO (connectOut m nm) (c4, []) (sh.outLines.zip (padTo (c.nobj i).outs sh.outLines.length)) with
          | none => simp [h5] at h
          | some st5 =>
            obtain ⟨c5, dang⟩ := st5
            simp only [h5] at h
            -- the node loop
            have n2 := foldO_inv (addImplNode m (c.nobj i).name sh.des)
              (fun st rest => CopyInv (InL c i) (OutL c i) st.1 st.2 ∧ NmInv m sh.des st.1 st.2 rest ∧ st.1.nextL = c.nextL ∧
                (∀ x ∈ rest, x ∈ m.nodes) ∧ rest.Nodup ∧ OldFF st.2 st.1)
              (fun s a rest s' hinv hf => by
                obtain ⟨a1, a2, a3, a4, a5, a6⟩ := hinv
                have hnd := List.nodup_cons.1 a5
                have han := a4 a (by simp)
                exact ⟨addImplNode_inv a1 hf, addImplNode_nm wf hdes han hnd.1 a2 hf, by rw [addImplNode_nextL hf]; exact a3,
                  fun x hx => a4 x (by simp [hx]), hnd.2, addImplNode_oldff wf hdes han a2 a6 hf⟩)
              m.nodes _ _ ⟨phase1_inv wfc0 hi hk hs, phase1_nm wfc0 hi wf hs hdes _, phase1_nextL c i m sh.des, fun x hx => hx,
                wf.nodes_nodup, phase1_oldff sh.des wfc hi⟩ h2
            obtain ⟨i2, nmi, hnl2, _, _, ff2⟩ := n2
            simp only at i2 nmi hnl2 ff2
            have ok := nmi.ok
            -- the line loop
            have inv3_0 : Inv3 m nm c.nextL c2 m.lines := by
              refine ⟨by rw [hnl2]; exact Nat.le_refl _, ?_, ?_⟩
              · intro e he p y hp; rw [(nmi.empty e he).2] at hp; simp at hp
              · intro e he p y hp; rw [(nmi.empty e he).1] at hp; simp at hp
            have n3 := foldO_inv (addImplLine m nm)
              (fun cc rest => Inv3 m nm c.nextL cc rest ∧ CopyInv (InL c i) (OutL c i) cc nm ∧ (∀ x ∈ rest, x ∈ m.lines) ∧ rest.Nodup ∧
                OldFF nm cc)
              (fun s a rest s' hinv hf => by
                obtain ⟨a1, a2, a3, a4, a5⟩ := hinv
                have hnd := List.nodup_cons.1 a4
                have hla := a3 a (by simp)
                exact ⟨addImplLine_inv3 wf ok hla hnd.1 a1 hf, addImplLine_inv a2 (gImplLine_of_inv3 wf ok hla a1) hf,
                  fun x hx => a3 x (by simp [hx]), hnd.2, addImplLine_oldff wf ok hla a5 hf⟩)
              m.lines c2 c3 ⟨inv3_0, i2, fun x hx => hx, wf.lines_nodup, ff2⟩ h3
            obtain ⟨inv3, ci3, _, _, ff3⟩ := n3
            -- the inputs
            have hinjI : ∀ p q y, pin (c.nobj i).ins p = some y → pin (c.nobj i).ins q = some y → p = q := by
              intro p q y a b
              have := (wfc0.insBack i hi p y a).2.2; have := (wfc0.insBack i hi q y b).2.2; omega
            have hinjO : ∀ p q y, pin (c.nobj i).outs p = some y → pin (c.nobj i).outs q = some y → p = q := by
              intro p q y a b
              have := (wfc0.outsBack i hi p y a).2.2; have := (wfc0.outsBack i hi q y b).2.2; omega
            have hinN : sh.inPorts.Nodup := by rw [hsp1]; exact hioN.sublist List.filter_sublist
            have inv4_0 : Inv4 c i m nm c.nextL c3 (sh.inPorts.zip (padTo (c.nobj i).ins sh.inPorts.length)) := by
              refine ⟨⟨ci3.s.congr_pred (fun l => zip_padTo_pend har'.1 l) (fun _ => Iff.rfl), ci3.nm⟩,
                zip_padTo_pendNodup har'.1 hinjI,
                fun l hl => noSelfLoop_disj wfc0 hi hloop l ((zip_padTo_pend har'.1 l).1 hl), ?_, zip_map_fst_nodup hinN, ?_, ?_, ?_⟩
              · intro l hl
                obtain ⟨p, hp⟩ := (zip_padTo_pend har'.1 l).1 hl
                exact (wfc0.lfresh l (wfc0.insBack i hi p l hp).1).1
              · intro pr hpr
                have := mem_zip_fst hpr
                rw [hsp1, List.mem_filter] at this
                exact ⟨this.1, by simpa using this.2⟩
              · intro e he p y hp
                obtain ⟨h0, l', h1, _, h3'⟩ := inv3.outs e he p y hp
                exact ⟨h0, l', h1, h3'⟩
              · intro e he p y hp
                obtain ⟨_, l', h1, _, h3'⟩ := inv3.ins e he p y hp
                exact Or.inl ⟨l', h1, h3'⟩
            have n4 := foldO_inv (connectIn m nm)
              (fun cc rest => Inv4 c i m nm c.nextL cc rest ∧ OldFF nm cc)
              (fun s a rest s' hinv hf => by
                obtain ⟨a1, a2⟩ := hinv
                exact ⟨connectIn_inv4 a1 (gConnectIn_of_inv4 wf ok nmi.keyCond a1) hf, connectIn_oldff a1 a2 hf⟩)
              _ c3 c4 ⟨inv4_0, ff3⟩ h4
            obtain ⟨inv4, ff4⟩ := n4
            -- the outputs
            have houtN : sh.outLines.Nodup := by
              rw [hsp2, List.filterMap_map]
              apply nodup_filterMap_of_inj _ _ (hioN.sublist List.filter_sublist)
              intro a ha b hb y h1 h2'
              simp only [Function.comp, id] at h1 h2'
              have ha' := (List.mem_filter.1 ha).1
              have hb' := (List.mem_filter.1 hb).1
              have r1 := (wf.insBack a (wf.ioIn a ha') 0 y h1).2.1
              have r2 := (wf.insBack b (wf.ioIn b hb') 0 y h2').2.1
              rw [r1] at r2; exact Option.some.inj r2
            have inv5_0 : Inv5 m nm (sh.outLines.zip (padTo (c.nobj i).outs sh.outLines.length)) (c4, [])
                (sh.outLines.zip (padTo (c.nobj i).outs sh.outLines.length)) := by
              refine ⟨⟨inv4.ci.s.congr_pred (fun _ => Iff.rfl) (fun l => zip_padTo_pend har'.2 l), inv4.ci.nm,
                fun n hn => by simp at hn⟩, zip_padTo_pendNodup har'.2 hinjO, zip_map_fst_nodup houtN, ?_, fun _ h => h, ?_⟩
              · intro pr hpr
                have := mem_zip_fst hpr
                rw [hsp2] at this
                simp only [List.mem_filterMap, List.mem_map, List.mem_filter, id] at this
                obtain ⟨a, ⟨O, ⟨hO, hOl⟩, hOa⟩, ha⟩ := this
                subst ha
                exact ⟨O, hO, by simpa using hOl, hOa⟩
              · intro e he p y hp
                obtain ⟨_, l', h1, h3'⟩ := inv4.outs e he p y hp
                exact Or.inl ⟨l', h1, h3'⟩
            have n5 := foldO_inv (connectOut m nm)
              (fun st rest => Inv5 m nm (sh.outLines.zip (padTo (c.nobj i).outs sh.outLines.length)) st rest ∧ OldFF nm st.1)
              (fun s a rest s' hinv hf => by
                obtain ⟨a1, a2⟩ := hinv
                exact ⟨connectOut_inv5 a1 (gConnectOut_of_inv5 wf ok nmi.keyCond a1) hf, connectOut_oldff a2 hf⟩)
              _ (c4, []) (c5, dang) ⟨inv5_0, ff4⟩ h5
            obtain ⟨inv5, ff5⟩ := n5
            simp only at ff5
            -- dense outputs, then the removal of the dangling logic
            have wf5 : WFc0 c5 := inv5.oi.s.to_wfc0 (fun l _ => pend_nil l) (fun l _ => pend_nil l)
            have hvals : ∀ v ∈ nm.map (·.2), v ∈ c5.nodes := by
              intro v hv
              obtain ⟨e, he, rfl⟩ := List.mem_map.1 hv
              exact inv5.oi.nm e he
            have wf5d : WFc0 (densify c5 nm) := densify_wf0 _ c5 wf5 hvals
            exact dangling_ffull dang (densify c5 nm) c' wf5d (densify_ffull ff5) (fun n hn => Or.inl (by
              show n ∈ (densify c5 nm).nodes
              unfold densify
              rw [densify_nodes]; exact inv5.oi.dang n hn)) h

/-- `substitute` under the structural precondition `substStatic`: the result satisfies `WFc` -/
theorem substituteObj_wf_static {c c' : Circ} {i : Nat} {m : Circ} (wfc : WFc c) (hst : substStatic c i m = true)
    (h : substituteObj c i m = some c') : WFc c' :=
  ⟨substituteObj_wf0 wfc.toWFc0 (substPre0_of_static wfc.toWFc0 hst) h, substituteObj_ffull wfc hst h⟩

theorem ffull_forksFull {c : Circ} (h : FFull c) : forksFull c = true := by
  unfold forksFull
  rw [List.all_eq_true]
  intro i hi
  by_cases hk : (c.nobj i).kind = FORK
  · have := h i hi hk
    simp only [hk, bne_self_eq_false, Bool.false_or, List.all_eq_true]
    intro x hx
    cases x with
    | none => exact absurd hx this
    | some _ => rfl
  · simp [hk]

/-- the structural precondition implies the run-time precondition `substPre` -/
theorem substPre_of_static {c : Circ} {i : Nat} {m : Circ} (wfc : WFc c) (hst : substStatic c i m = true) :
    substPre c i m = true := by
  unfold substPre
  rw [substPre0_of_static wfc.toWFc0 hst, Bool.true_and]
  cases h : substituteObj c i m with
  | none => rfl
  | some c' => exact ffull_forksFull (substituteObj_ffull wfc hst h)

/-! ## `resolve_tlib_cells` -/
theorem foldG_mono {σ α : Type} (f : σ → α → Option σ) (g g' : σ → α → Bool) (Inv : σ → Prop)
    (himp : ∀ s a, Inv s → g s a = true → g' s a = true) (step : ∀ s a s', Inv s → g s a = true → f s a = some s' → Inv s') :
    ∀ (as : List α) (s : σ), Inv s → foldG f g s as = true → foldG f g' s as = true := by
  intro as
  induction as with
  | nil => intro _ _ _; rfl
  | cons a rest ih =>
    intro s hs h
    simp only [foldG, Bool.and_eq_true] at h ⊢
    refine ⟨himp s a hs h.1, ?_⟩
    cases hf : f s a with
    | none => rfl
    | some s1 =>
      simp only [hf] at h
      exact ih s1 (step s a s1 hs h.1 hf) h.2

theorem resolvePre_of_static {lib : Lib} {c : Circ} (wf : WFc c) (h : resolveStatic lib c = true) : resolvePre lib c = true := by
  unfold resolveStatic at h
  unfold resolvePre
  refine foldG_mono (resolveStep lib) _ _ (fun cc => WFc cc) ?_ ?_ c.nodes c wf h
  · intro s a hs hg
    cases hl : lib.find (s.nobj a).kind with
    | none => rfl
    | some mm =>
      simp only [hl] at hg ⊢
      exact substPre_of_static hs hg
  · intro s a s' hs hg hf
    unfold resolveStep at hf
    cases hl : lib.find (s.nobj a).kind with
    | none => simp only [hl, Option.some.injEq] at hf; exact hf ▸ hs
    | some mm =>
      simp only [hl] at hf hg
      exact substituteObj_wf_static hs hg hf

end KV.CircObj
