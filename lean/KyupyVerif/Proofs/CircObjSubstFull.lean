import KyupyVerif.Proofs.CircObjSubstStatic
/-! C09: in the regular case (`substRegular`: every output of the instance connected, output ports of the implementation
with exactly one input line, ports that become forks gap-free) the fork outputs of the result of `substitute` are gap-free,
so that `substStatic ∧ substRegular` gives `WFc` without anything evaluated along the run.

Old forks: only `Line.remove` of an ignored input touches them (squeeze keeps them gap-free).  A copied fork `X` of the
implementation fork / port `n`: every occupied pin is `< len(n.outs)` or the one extra pin of a port that is read
internally; every pin `< len(n.outs)` is occupied, because the implementation line there is either copied (its reader has
an image) or leads to a pure output port, whose instance pin is connected. -/
namespace KV.CircObj

theorem pin_some_of_gapfree {L : Pins} (h : none ∉ L) {p : Nat} (hp : p < L.length) : ∃ x, pin L p = some x := by
  rw [pin_eq_getElem?, List.getElem?_eq_getElem hp]
  cases hx : L[p] with
  | none => exact absurd (hx ▸ List.getElem_mem hp) h
  | some x => exact ⟨x, rfl⟩

theorem gapfree_of_pins {L : Pins} (h : ∀ p, p < L.length → pin L p ≠ none) : none ∉ L := by
  intro hm
  obtain ⟨p, hp, he⟩ := List.mem_iff_getElem.1 hm
  apply h p hp
  rw [pin_eq_getElem?, List.getElem?_eq_getElem hp, he]; rfl

theorem all_isSome_gapfree {L : Pins} (h : L.all (·.isSome) = true) : none ∉ L := by
  intro hm
  have := List.all_eq_true.1 h _ hm
  simp at this

/-- one pin of a node is gap-free after `Line.remove()` if it was before -/
theorem removeLine_outs_gapfree {c : Circ} {PI PO} {l : Nat} (s : SInv c PI PO) (hl : l ∈ c.lines) (hPO : ¬ PO l) (j : Nat)
    (hk : (c.nobj j).kind = FORK) (hj : none ∉ (c.nobj j).outs) : none ∉ ((removeLine c l).nobj j).outs := by
  obtain ⟨d, hdrv, hd, hdpin⟩ := s.ldrv l hl hPO
  have ha := (s.lfresh l hl).2
  have hn := removeLine_nobj' hdrv ha
  rw [(hn j).2.2.2.2.1]
  split
  · rename_i hjd; subst hjd
    have hlt := pin_eq_some_lt hdpin
    unfold outsAfter
    simp only [hk, if_true, pin_set_lt hlt, List.eraseIdx_set_eq]
    exact fun h => hj ((List.eraseIdx_sublist _ _).subset h)
  · exact hj

/-! ## the facts carried through the loops -/
/-- forks that are not images of `node_map` are gap-free; an image that is a fork comes from an implementation fork or from
a port for which a fork is made (`isForkImage`); output lists of images never end in `None` -/
structure FFk (m : Circ) (nm : NMap) (c : Circ) : Prop where
  old : ∀ j ∈ c.nodes, (∀ e ∈ nm, e.2 ≠ j) → (c.nobj j).kind = FORK → none ∉ (c.nobj j).outs
  gap : ∀ e ∈ nm, (c.nobj e.2).kind = FORK → isForkImage m e.1 = true
  last : ∀ e ∈ nm, LastSome (c.nobj e.2).outs

/-- `FFk` is preserved by every step that leaves kinds and node list alone and changes output lists only of images, by
`growSet … (some _)` -/
theorem FFk.step {m : Circ} {nm : NMap} {c c' : Circ} (f : FFk m nm c) (hnodes : c'.nodes = c.nodes)
    (hkind : ∀ j, (c'.nobj j).kind = (c.nobj j).kind)
    (houts : ∀ j, (c'.nobj j).outs = (c.nobj j).outs ∨ ((∃ e ∈ nm, e.2 = j) ∧ ∃ p x, (c'.nobj j).outs = growSet (c.nobj j).outs p (some x))) :
    FFk m nm c' := by
  refine ⟨?_, ?_, ?_⟩
  · intro j hj hni hk
    rw [hnodes] at hj; rw [hkind] at hk
    rcases houts j with h | ⟨⟨e, he, hej⟩, _⟩
    · rw [h]; exact f.old j hj hni hk
    · exact absurd hej (hni e he)
  · intro e he hk; rw [hkind] at hk; exact f.gap e he hk
  · intro e he
    rcases houts e.2 with h | ⟨_, p, x, h⟩
    · rw [h]; exact f.last e he
    · rw [h]; exact lastSome_growSet (f.last e he) p x

/-! ## the node loop -/
theorem addImplNode_cases2 {m : Circ} {hostName : String} {des : Option Nat} {st st' : Circ × NMap} {n : Nat}
    (h : addImplNode m hostName des st n = some st') :
    (st' = st ∧ ((inIos m n = false ∧ ∃ dn, des = some dn ∧ sameNode (m.nobj n) (m.nobj dn) = true) ∨
                 (inIos m n = true ∧ forkCond m n = false))) ∨
    ∃ kind, st' = (addNode st.1 (hostName ++ "~" ++ (m.nobj n).name) kind, nmSet m st.2 n st.1.nextN) ∧
      (inIos m n = true → forkCond m n = true ∧ kind = FORK) ∧
      (inIos m n = false → kind = (m.nobj n).kind ∧ ∀ dn, des = some dn → sameNode (m.nobj n) (m.nobj dn) = false) := by
  have key : ∀ kind, (if nameFree st.1 (hostName ++ "~" ++ (m.nobj n).name) kind = true then
        some (addNode st.1 (hostName ++ "~" ++ (m.nobj n).name) kind, nmSet m st.2 n st.1.nextN) else none) = some st' →
      st' = (addNode st.1 (hostName ++ "~" ++ (m.nobj n).name) kind, nmSet m st.2 n st.1.nextN) := by
    intro kind hk
    split at hk
    · cases hk; rfl
    · cases hk
  unfold addImplNode at h
  simp only at h
  by_cases hio : inIos m n = true
  · simp only [hio, Bool.not_true, Bool.false_eq_true, if_false] at h
    split at h
    · rename_i hc
      exact Or.inr ⟨_, key _ h, fun _ => ⟨by unfold forkCond; simp only [hc, Bool.true_or], rfl⟩, fun h' => by simp [hio] at h'⟩
    · rename_i hc1
      split at h
      · rename_i hc
        exact Or.inr ⟨_, key _ h, fun _ => ⟨by unfold forkCond; simp only [hc, Bool.or_true], rfl⟩, fun h' => by simp [hio] at h'⟩
      · rename_i hc2
        cases h
        refine Or.inl ⟨rfl, Or.inr ⟨hio, ?_⟩⟩
        unfold forkCond
        simp only [Bool.not_eq_true] at hc1 hc2
        simp only [hc1, hc2, Bool.or_self]
  · have hio' : inIos m n = false := by simpa using hio
    simp only [hio, Bool.not_false, if_true] at h
    cases des with
    | none =>
      simp only [if_true] at h
      exact Or.inr ⟨_, key _ h, fun h' => absurd h' hio, fun _ => ⟨rfl, fun dn hd => by cases hd⟩⟩
    | some dn =>
      simp only at h
      split at h
      · rename_i hs
        refine Or.inr ⟨_, key _ h, fun h' => absurd h' hio, fun _ => ⟨rfl, fun dn' hd => ?_⟩⟩
        cases hd
        simpa using hs
      · rename_i hs
        cases h
        exact Or.inl ⟨rfl, Or.inl ⟨hio', dn, rfl, by simpa using hs⟩⟩

/-- every visited implementation node has an image, or is a port for which no fork is made -/
def KeysC (m : Circ) (nm : NMap) (rest : List Nat) : Prop :=
  ∀ n ∈ m.nodes, n ∉ rest → (∃ v, (n, v) ∈ nm) ∨ (inIos m n = true ∧ forkCond m n = false)

structure FF2 (m : Circ) (des : Option Nat) (c : Circ) (nm : NMap) (rest : List Nat) : Prop where
  k : FFk m nm c
  keysC : KeysC m nm rest
  desKey : ∀ dn, des = some dn → ∃ v, (dn, v) ∈ nm

theorem addImplNode_ff2 {PI PO} {m : Circ} {hostName : String} {des : Option Nat} {st st' : Circ × NMap} {n : Nat} {rest : List Nat}
    (wf : WFc m) (hdes : ∀ dn, des = some dn → inIos m dn = false) (hn : n ∈ m.nodes)
    (ci : CopyInv PI PO st.1 st.2) (inv : NmInv m des st.1 st.2 (n :: rest)) (f : FF2 m des st.1 st.2 (n :: rest))
    (h : addImplNode m hostName des st n = some st') : FF2 m des st'.1 st'.2 rest := by
  have wf0 := wf.toWFc0
  rcases addImplNode_cases2 h with ⟨rfl, hcase⟩ | ⟨kind, rfl, hc1, hc2⟩
  · refine ⟨f.k, ?_, f.desKey⟩
    intro x hx hxr
    by_cases hxn : x = n
    · subst hxn
      rcases hcase with ⟨_, dn, hd, hs⟩ | hr
      · obtain ⟨v, hv⟩ := f.desKey dn hd
        have : x = dn := sameNode_inj wf0 hx (inv.ok.keysIn _ hv) hs
        subst this
        exact Or.inl ⟨v, hv⟩
      · exact Or.inr hr
    · exact f.keysC x hx (by simp [hxn, hxr])
  · have hfresh : ∀ e ∈ st.2, e.1 ≠ n := by
      intro e he
      rcases inv.keyDone e he with hd | hd
      · intro heq
        by_cases hio : inIos m n = true
        · have := hdes e.1 hd; rw [heq, hio] at this; cases this
        · have := (hc2 (by simpa using hio)).2 e.1 hd
          rw [heq, sameNode_self] at this; cases this
      · intro heq; exact hd (by simp [heq])
    rw [nmSet_fresh wf0 inv.ok hn hfresh]
    have hvne : ∀ e ∈ st.2, e.2 ≠ st.1.nextN := fun e he => Nat.ne_of_lt (inv.valsLt e he)
    have hold : ∀ j, j ≠ st.1.nextN → (addNode st.1 (hostName ++ "~" ++ (m.nobj n).name) kind).nobj j = st.1.nobj j := by
      intro j hj; simp [addNode, hj]
    have hnew : (addNode st.1 (hostName ++ "~" ++ (m.nobj n).name) kind).nobj st.1.nextN =
        { name := hostName ++ "~" ++ (m.nobj n).name, kind := kind, index := st.1.nodes.length, ins := [], outs := [], alive := true } := by
      simp [addNode]
    refine ⟨⟨?_, ?_, ?_⟩, ?_, ?_⟩
    · intro j hj hni hk
      have hjn : j ≠ st.1.nextN := fun e => hni (n, st.1.nextN) (by simp) e.symm
      have hj' : j ∈ st.1.nodes := by
        have : j ∈ st.1.nodes ++ [st.1.nextN] := hj
        simpa [hjn] using this
      rw [hold j hjn] at hk ⊢
      exact f.k.old j hj' (fun e he => hni e (by simp [he])) hk
    · intro e he hk
      rcases List.mem_append.1 he with h1 | h1
      · rw [hold _ (hvne e h1)] at hk; exact f.k.gap e h1 hk
      · simp only [List.mem_singleton] at h1; subst h1
        simp only [hnew] at hk
        unfold isForkImage
        by_cases hio : inIos m n = true
        · simp only [hio, if_true]; exact (hc1 hio).1
        · have := (hc2 (by simpa using hio)).1
          rw [this] at hk
          simp [hio, hk]
    · intro e he
      rcases List.mem_append.1 he with h1 | h1
      · rw [hold _ (hvne e h1)]; exact f.k.last e h1
      · simp only [List.mem_singleton] at h1; subst h1
        rw [hnew]; exact lastSome_nil
    · intro x hx hxr
      by_cases hxn : x = n
      · subst hxn; exact Or.inl ⟨st.1.nextN, by simp⟩
      · rcases f.keysC x hx (by simp [hxn, hxr]) with ⟨v, hv⟩ | hr
        · exact Or.inl ⟨v, by simp [hv]⟩
        · exact Or.inr hr
    · intro dn hd
      obtain ⟨v, hv⟩ := f.desKey dn hd
      exact ⟨v, by simp [hv]⟩

theorem phase1_ff2 {c : Circ} {i : Nat} {m : Circ} {sh : Shape} (wfc : WFc c) (hi : i ∈ c.nodes)
    (hkd : ∀ dn, sh.des = some dn → (m.nobj dn).kind ≠ FORK) :
    FF2 m sh.des (phase1 c i m sh.des).1 (phase1 c i m sh.des).2 m.nodes := by
  unfold phase1
  cases hd : sh.des with
  | none =>
    refine ⟨⟨?_, fun e he => by simp at he, fun e he => by simp at he⟩, fun x _ hxr => absurd ‹x ∈ m.nodes› hxr, fun dn h => by cases h⟩
    intro j hj _ hk
    exact removeNode_ffull wfc.toWFc0 hi wfc.forkFull j hj hk
  | some dn =>
    refine ⟨⟨?_, ?_, ?_⟩, fun x _ hxr => absurd ‹x ∈ m.nodes› hxr, fun dn' h => by cases h; exact ⟨i, by simp⟩⟩
    · intro j hj hni hk
      have hji : j ≠ i := fun e => hni (dn, i) (by simp) e.symm
      simp only [upd_get, hji, if_false] at hk ⊢
      exact wfc.forkFull j hj hk
    · intro e he hk
      simp only [List.mem_singleton] at he; subst he
      simp only [upd_get, if_true] at hk
      exact absurd hk (hkd dn hd)
    · intro e he
      simp only [List.mem_singleton] at he; subst he
      simp only [upd_get, if_true]
      exact lastSome_nil

/-! ## the line loop -/
/-- every visited implementation line with both ends in `node_map` occupies the output pin of its driver's image -/
def Done3 (m : Circ) (nm : NMap) (c : Circ) (rest : List Nat) : Prop :=
  ∀ l ∈ m.lines, l ∉ rest → ∀ D dp R rp, implLineEnds m nm l = some (D, dp, R, rp) → pin (c.nobj D).outs dp ≠ none

theorem addImplLine_ff3 {m : Circ} {nm : NMap} {c c' : Circ} {l : Nat} {rest : List Nat} (wf : WFc0 m) (ok : NmOK m nm)
    (hl : l ∈ m.lines) (f : FFk m nm c) (d3 : Done3 m nm c (l :: rest)) (h : addImplLine m nm c l = some c') :
    FFk m nm c' ∧ Done3 m nm c' rest := by
  unfold addImplLine at h
  cases he : implLineEnds m nm l with
  | none =>
    simp only [he, Option.some.injEq] at h; subst h
    refine ⟨f, ?_⟩
    intro x hx hxr D dp R rp hq
    by_cases hxl : x = l
    · subst hxl; rw [he] at hq; cases hq
    · exact d3 x hx (by simp [hxl, hxr]) D dp R rp hq
  | some q =>
    obtain ⟨D, dp, R, rp⟩ := q
    obtain ⟨d, r, hd, hr, hdm, hrm, hdp, hrp⟩ := implLineEnds_spec wf ok hl he
    simp only [he, Option.some.injEq] at h
    subst h
    have hn := addLine_nobj c D (some dp) R (some rp)
    refine ⟨f.step rfl (fun j => (hn j).2.1) ?_, ?_⟩
    · intro j
      rw [(hn j).2.2.2.2.1]
      by_cases hj : j = D
      · subst hj
        exact Or.inr ⟨⟨(d, j), hdm, rfl⟩, dp, c.nextL, by simp [dpinOf]⟩
      · exact Or.inl (by simp [hj])
    · intro x hx hxr D' dp' R' rp' hq
      rw [(hn D').2.2.2.2.1]
      by_cases hxl : x = l
      · subst hxl
        rw [he] at hq
        simp only [Option.some.injEq, Prod.mk.injEq] at hq
        obtain ⟨rfl, rfl, _, _⟩ := hq
        simp [dpinOf, pin_growSet]
      · have old := d3 x hx (by simp [hxl, hxr]) D' dp' R' rp' hq
        split
        · simp only [dpinOf, Option.getD_some, pin_growSet]
          split
          · simp
          · exact old
        · exact old

/-! ## the input loop: the output lists of the images do not change -/
theorem connectIn_ff4 {c0 : Circ} {i : Nat} {m : Circ} {nm : NMap} {L0 : Nat} {c c' : Circ} {p : Nat × Option Nat}
    {rest : List (Nat × Option Nat)} (inv : Inv4 c0 i m nm L0 c (p :: rest)) (f : FFk m nm c) (d3 : Done3 m nm c [])
    (h : connectIn m nm c p = some c') : FFk m nm c' ∧ Done3 m nm c' [] := by
  obtain ⟨inn, o⟩ := p
  cases o with
  | none => simp only [connectIn, Option.some.injEq] at h; subst h; exact ⟨f, d3⟩
  | some ll =>
    have hpll : Pend ((inn, some ll) :: rest) ll := ⟨(inn, some ll), by simp, rfl⟩
    simp only [connectIn] at h
    split at h
    · have h' : removeLineChk (setStaleReader c ll none (c.lobj ll).readerPin) ll = some c' := h
      have hc' := removeLineChk_some h'
      subst hc'
      have s0 := staleReader_sinv inv.ci.s hpll none (c.lobj ll).readerPin
      have hll := (s0.piOk ll hpll).1
      obtain ⟨d, hdrv, hd, hdpin⟩ := s0.ldrv ll hll (inv.disj ll hpll)
      have ha := (s0.lfresh ll hll).2
      have hn := removeLine_nobj' hdrv ha
      have hnobj : ∀ j, (setStaleReader c ll none (c.lobj ll).readerPin).nobj j = c.nobj j := fun _ => rfl
      have hne : ∀ e ∈ nm, e.2 ≠ d := by
        intro e he heq
        rw [hnobj] at hdpin
        have := (inv.outs e he _ ll (by rw [heq]; exact hdpin)).1
        have := inv.old ll hpll
        omega
      have himg : ∀ e ∈ nm, ((removeLine (setStaleReader c ll none (c.lobj ll).readerPin) ll).nobj e.2).outs = (c.nobj e.2).outs := by
        intro e he
        rw [(hn e.2).2.2.2.2.1]; simp only [hne e he, if_false, hnobj]
      refine ⟨⟨?_, ?_, ?_⟩, ?_⟩
      · intro j hj hni hk
        rw [(removeLine_frame _ ll).1] at hj
        rw [(hn j).2.1] at hk
        exact removeLine_outs_gapfree s0 hll (inv.disj ll hpll) j hk (f.old j hj hni hk)
      · intro e he hk; rw [(hn e.2).2.1] at hk; exact f.gap e he hk
      · intro e he; rw [himg e he]; exact f.last e he
      · intro x hx hxr D dp R rp hq
        have hDm : ∃ e ∈ nm, e.2 = D := by
          unfold implLineEnds at hq
          cases hr : (m.lobj x).reader with
          | none => simp [hr] at hq
          | some r =>
            cases hd' : (m.lobj x).driver with
            | none => simp [hr, hd'] at hq
            | some d' =>
              simp only [hr, hd'] at hq
              cases h1 : nmFind m nm r with
              | none => simp [h1] at hq
              | some R' =>
                cases h2 : nmFind m nm d' with
                | none => simp [h1, h2] at hq
                | some D' =>
                  simp only [h1, h2, Option.some.injEq, Prod.mk.injEq] at hq
                  obtain ⟨e1, _, _, _⟩ := hq
                  subst e1
                  exact nmFind_mem h2
        obtain ⟨e, he, rfl⟩ := hDm
        rw [himg e he]; exact d3 x hx hxr e.2 dp R rp hq
    · cases ht : inTarget m nm inn with
      | none => simp [ht] at h
      | some q =>
        obtain ⟨R, rp⟩ := q
        simp only [ht, Option.some.injEq] at h
        subst h
        have hn := setReader_nobj c ll R rp
        refine ⟨f.step rfl (fun j => (hn j).2.1) (fun j => Or.inl (hn j).2.2.2.2.1), ?_⟩
        intro x hx hxr D dp R' rp' hq
        rw [(hn D).2.2.2.2.1]; exact d3 x hx hxr D dp R' rp' hq

/-! ## the output loop -/
/-- every visited output line of the implementation occupies its target pin -/
def Done5 (m : Circ) (nm : NMap) (all : List Nat) (c : Circ) (rest : List (Nat × Option Nat)) : Prop :=
  ∀ l ∈ all, l ∉ rest.map (·.1) → ∀ D dp, outTarget m nm l = some (D, dp) → pin (c.nobj D).outs dp ≠ none

theorem connectOut_ff5 {m : Circ} {nm : NMap} {all : List Nat} {st st' : Circ × List Nat} {p : Nat × Option Nat}
    {rest : List (Nat × Option Nat)} (hsome : p.2.isSome = true) (f : FFk m nm st.1) (d3 : Done3 m nm st.1 [])
    (d5 : Done5 m nm all st.1 (p :: rest)) (hd : st.2 = []) (h : connectOut m nm st p = some st') :
    FFk m nm st'.1 ∧ Done3 m nm st'.1 [] ∧ Done5 m nm all st'.1 rest ∧ st'.2 = [] := by
  obtain ⟨l, o⟩ := p
  cases o with
  | none => simp at hsome
  | some ll =>
    simp only [connectOut] at h
    cases ht : outTarget m nm l with
    | none => simp [ht] at h
    | some q =>
      obtain ⟨D, dp⟩ := q
      simp only [ht, Option.some.injEq] at h
      subst h
      have hn := setDriver_nobj st.1 ll D dp
      obtain ⟨e, he, hed⟩ := outTarget_mem ht
      refine ⟨f.step rfl (fun j => (hn j).2.1) ?_, ?_, ?_, hd⟩
      · intro j
        rw [(hn j).2.2.2.2.2]
        by_cases hj : j = D
        · subst hj; exact Or.inr ⟨⟨e, he, hed⟩, dp, ll, by simp⟩
        · exact Or.inl (by simp [hj])
      · intro x hx hxr D' dp' R' rp' hq
        rw [(hn D').2.2.2.2.2]
        have old := d3 x hx hxr D' dp' R' rp' hq
        split
        · rw [pin_growSet]; split
          · simp
          · exact old
        · exact old
      · intro x hx hxr D' dp' hq
        rw [(hn D').2.2.2.2.2]
        by_cases hxl : x = l
        · subst hxl
          rw [ht] at hq
          simp only [Option.some.injEq, Prod.mk.injEq] at hq
          obtain ⟨rfl, rfl⟩ := hq
          simp [pin_growSet]
        · have old := d5 x hx (by simp only [List.map_cons, List.mem_cons, not_or]; exact ⟨hxl, hxr⟩) D' dp' hq
          split
          · rw [pin_growSet]; split
            · simp
            · exact old
          · exact old

/-! ## the fork outputs of the result -/
theorem ffull_final {m : Circ} {nm : NMap} {all : List Nat} {allp : List (Nat × Option Nat)} {c5 : Circ} (wf : WFc m) (ok : NmOK m nm) (keysC : KeysC m nm [])
    (hone : ∀ O ∈ m.io, (m.nobj O).ins.length ≤ 1) (hall : ∀ l, OutLine m l → l ∈ all)
    (hports : ∀ x ∈ m.io, forkCond m x = true → none ∉ (m.nobj x).outs)
    (inv5 : Inv5 m nm allp (c5, []) []) (f : FFk m nm c5) (d3 : Done3 m nm c5 []) (d5 : Done5 m nm all c5 []) : FFull c5 := by
  have wf0 := wf.toWFc0
  intro j hj hk
  by_cases himg : ∃ e ∈ nm, e.2 = j
  · obtain ⟨e, he, rfl⟩ := himg
    have hn : e.1 ∈ m.nodes := ok.keysIn e he
    have gap : none ∉ (m.nobj e.1).outs := by
      have hfi := f.gap e he hk
      unfold isForkImage at hfi
      by_cases hio : inIos m e.1 = true
      · simp only [hio, if_true] at hfi
        exact hports e.1 ((inIos_iff wf0 hn).1 hio) hfi
      · simp only [hio] at hfi
        exact wf.forkFull e.1 hn (by simpa using hfi)
    have hee : (e.1, e.2) ∈ nm := he
    -- every pin below the number of outputs of the implementation node is occupied
    have cover : ∀ p, p < (m.nobj e.1).outs.length → pin (c5.nobj e.2).outs p ≠ none := by
      intro p hp
      obtain ⟨l, hl⟩ := pin_some_of_gapfree gap hp
      obtain ⟨hlm, hld, hlp⟩ := wf0.outsBack e.1 hn p l hl
      obtain ⟨r, hr1, hr2, hr3⟩ := wf0.lrdr l hlm
      rcases keysC r hr2 (by simp) with ⟨R, hR⟩ | ⟨hio, hfc⟩
      · have : implLineEnds m nm l = some (e.2, p, R, (m.lobj l).readerPin) := by
          unfold implLineEnds
          simp only [hr1, hld, (nmFind_iff wf0 ok hr2).2 hR, (nmFind_iff wf0 ok hn).2 hee, hlp]
        exact d3 l hlm (by simp) _ _ _ _ this
      · have hrio : r ∈ m.io := (inIos_iff wf0 hr2).1 hio
        have hins := ins_pos_of_reader wf0 hlm hr1
        have houts0 : (m.nobj r).outs.length = 0 := by
          unfold forkCond at hfc
          simp only [Bool.or_eq_false_iff, Bool.and_eq_false_iff, decide_eq_false_iff_not, Nat.not_lt, Nat.le_zero_eq,
            beq_eq_false_iff_ne, ne_eq] at hfc
          rcases hfc.1 with h1 | h1
          · exact h1
          · exact absurd h1 hins
        have hrp : (m.lobj l).readerPin = 0 := by
          have := pin_eq_some_lt hr3
          have := hone r hrio
          omega
        rw [hrp] at hr3
        have hol : OutLine m l := ⟨r, hrio, hins, hr3⟩
        have : outTarget m nm l = some (e.2, p) := by
          unfold outTarget
          simp only [hr1, houts0, Nat.lt_irrefl, if_false, hld, (nmFind_iff wf0 ok hn).2 hee, Option.map_some, hlp]
        exact d5 l (hall l hol) (by simp) _ _ this
    apply gapfree_of_pins
    intro p hp
    obtain ⟨q, hpq, hq⟩ := f.last e he p hp
    cases hqy : pin (c5.nobj e.2).outs q with
    | none => exact absurd hqy hq
    | some y =>
      -- an occupied pin is below the number of outputs of the implementation node, or is exactly that number
      have bound : q ≤ (m.nobj e.1).outs.length := by
        rcases inv5.outs e he q y hqy with ⟨l', hl', h1, h2, _⟩ | ⟨l2, _, _, hol2, _, ht2⟩
        · have := outs_lt_of_driver wf0 hl' h1; omega
        · obtain ⟨hlm2, O2, _, _, _, hcase2⟩ := outTarget_spec wf0 ok hol2 ht2
          rcases hcase2 with ⟨_, hDm2, hdp2⟩ | ⟨_, d2, hd2, hDm2, hdp2⟩
          · have : O2 = e.1 := (Prod.mk.inj (pairwise_snd_unique ok.valsD hDm2 hee rfl)).1
            subst this; omega
          · have : d2 = e.1 := (Prod.mk.inj (pairwise_snd_unique ok.valsD hDm2 hee rfl)).1
            subst this
            have := outs_lt_of_driver wf0 hlm2 hd2; omega
      by_cases hpl : p < (m.nobj e.1).outs.length
      · exact cover p hpl
      · have : p = q := by omega
        rw [this]; exact hq
  · exact f.old j hj (fun e he hej => himg ⟨e, he, hej⟩) hk

theorem padTo_self (L : Pins) : padTo L L.length = L := by simp [padTo]

/-- the regular case: the fork outputs of the result of `substitute` are gap-free -/
theorem substituteObj_ffull {c c' : Circ} {i : Nat} {m : Circ} (wfc : WFc c) (hst : substStatic c i m = true)
    (hreg : substRegular c i m = true) (h : substituteObj c i m = some c') : FFull c' := by
  have wfc0 := wfc.toWFc0
  unfold substStatic implStatic at hst
  simp only [Bool.and_eq_true, List.contains_eq_mem, decide_eq_true_eq] at hst
  obtain ⟨⟨⟨hi, hk⟩, hloop⟩, ⟨hinv, hioN⟩, hdesNP⟩ := hst
  have wfm : WFc m := (invOK_iff m).1 hinv
  have wf : WFc0 m := wfm.toWFc0
  unfold substituteObj at h
  cases hs : implShape m with
  | none => simp [hs] at h
  | some sh =>
    simp only [hs] at h
    split at h
    · cases h
    rename_i har
    have har' : arityOK c i sh = true := by simpa using har
    unfold arityOK at har'
    simp only [Bool.and_eq_true, decide_eq_true_eq] at har'
    unfold substRegular at hreg
    simp only [hs, Bool.and_eq_true, beq_iff_eq, List.all_eq_true, decide_eq_true_eq, Bool.or_eq_true, Bool.not_eq_true'] at hreg
    obtain ⟨⟨⟨hlenO, hallO⟩, hone⟩, hports⟩ := hreg
    have hports' : ∀ x ∈ m.io, forkCond m x = true → none ∉ (m.nobj x).outs := by
      intro x hx hf
      rcases hports x hx with h1 | h1
      · rw [hf] at h1; cases h1
      · exact all_isSome_gapfree (List.all_eq_true.2 h1)
    have hdes : ∀ dn, sh.des = some dn → inIos m dn = false := by
      intro dn hd
      unfold desNotPort at hdesNP
      simp only [hs, hd, Bool.not_eq_true'] at hdesNP
      exact hdesNP
    obtain ⟨k1, k2, k3⟩ := substKinds_des hk hs
    obtain ⟨hsp1, hsp2, _⟩ := implShape_spec hs
    unfold substCopy at h
    cases h2 : foldO (addImplNode m (c.nobj i).name sh.des) (phase1 c i m sh.des) m.nodes with
    | none => simp [h2] at h
    | some st2 =>
      obtain ⟨c2, nm⟩ := st2
      simp only [h2] at h
      cases h3 : foldO (addImplLine m nm) c2 m.lines with
      | none => simp [h3] at h
      | some c3 =>
        simp only [h3, Option.map_some] at h
        unfold substConnect at h
        cases h4 : foldO (connectIn m nm) c3 (sh.inPorts.zip (padTo (c.nobj i).ins sh.inPorts.length)) with
        | none => simp [h4] at h
        | some c4 =>
          simp only [h4] at h
          cases h5 : foldO (connectOut m nm) (c4, []) (sh.outLines.zip (padTo (c.nobj i).outs sh.outLines.length)) with
          | none => simp [h5] at h
          | some st5 =>
            obtain ⟨c5, dang⟩ := st5
            simp only [h5] at h
            -- the node loop
            have n2 := foldO_inv (addImplNode m (c.nobj i).name sh.des)
              (fun st rest => CopyInv (InL c i) (OutL c i) st.1 st.2 ∧ NmInv m sh.des st.1 st.2 rest ∧ st.1.nextL = c.nextL ∧
                (∀ x ∈ rest, x ∈ m.nodes) ∧ rest.Nodup ∧ FF2 m sh.des st.1 st.2 rest)
              (fun s a rest s' hinv hf => by
                obtain ⟨a1, a2, a3, a4, a5, a6⟩ := hinv
                have hnd := List.nodup_cons.1 a5
                have han := a4 a (by simp)
                exact ⟨addImplNode_inv a1 hf, addImplNode_nm wf hdes han hnd.1 a2 hf, by rw [addImplNode_nextL hf]; exact a3,
                  fun x hx => a4 x (by simp [hx]), hnd.2, addImplNode_ff2 wfm hdes han a1 a2 a6 hf⟩)
              m.nodes _ _ ⟨phase1_inv wfc0 hi hk hs, phase1_nm wfc0 hi wf hs hdes _, phase1_nextL c i m sh.des, fun x hx => hx,
                wf.nodes_nodup, phase1_ff2 wfc hi k2⟩ h2
            obtain ⟨i2, nmi, hnl2, _, _, ff2⟩ := n2
            simp only at i2 nmi hnl2 ff2
            have ok := nmi.ok
            -- the line loop
            have inv3_0 : Inv3 m nm c.nextL c2 m.lines := by
              refine ⟨by rw [hnl2]; exact Nat.le_refl _, ?_, ?_⟩
              · intro e he p y hp; rw [(nmi.empty e he).2] at hp; simp at hp
              · intro e he p y hp; rw [(nmi.empty e he).1] at hp; simp at hp
            have n3 := foldO_inv (addImplLine m nm)
              (fun cc rest => Inv3 m nm c.nextL cc rest ∧ CopyInv (InL c i) (OutL c i) cc nm ∧ (∀ x ∈ rest, x ∈ m.lines) ∧ rest.Nodup ∧
                FFk m nm cc ∧ Done3 m nm cc rest)
              (fun s a rest s' hinv hf => by
                obtain ⟨a1, a2, a3, a4, a5, a6⟩ := hinv
                have hnd := List.nodup_cons.1 a4
                have hla := a3 a (by simp)
                have hff := addImplLine_ff3 wf ok hla a5 a6 hf
                exact ⟨addImplLine_inv3 wf ok hla hnd.1 a1 hf, addImplLine_inv a2 (gImplLine_of_inv3 wf ok hla a1) hf,
                  fun x hx => a3 x (by simp [hx]), hnd.2, hff.1, hff.2⟩)
              m.lines c2 c3 ⟨inv3_0, i2, fun x hx => hx, wf.lines_nodup, ff2.k, fun l hl hlr => absurd hl hlr⟩ h3
            obtain ⟨inv3, ci3, _, _, ff3, d3⟩ := n3
            -- the inputs
            have hinjI : ∀ p q y, pin (c.nobj i).ins p = some y → pin (c.nobj i).ins q = some y → p = q := by
              intro p q y a b
              have := (wfc0.insBack i hi p y a).2.2; have := (wfc0.insBack i hi q y b).2.2; omega
            have hinjO : ∀ p q y, pin (c.nobj i).outs p = some y → pin (c.nobj i).outs q = some y → p = q := by
              intro p q y a b
              have := (wfc0.outsBack i hi p y a).2.2; have := (wfc0.outsBack i hi q y b).2.2; omega
            have hinN : sh.inPorts.Nodup := by rw [hsp1]; exact hioN.sublist List.filter_sublist
            have inv4_0 : Inv4 c i m nm c.nextL c3 (sh.inPorts.zip (padTo (c.nobj i).ins sh.inPorts.length)) := by
              refine ⟨⟨ci3.s.congr_pred (fun l => zip_padTo_pend har'.1 l) (fun _ => Iff.rfl), ci3.nm⟩,
                zip_padTo_pendNodup har'.1 hinjI,
                fun l hl => noSelfLoop_disj wfc0 hi hloop l ((zip_padTo_pend har'.1 l).1 hl), ?_, zip_map_fst_nodup hinN, ?_, ?_, ?_⟩
              · intro l hl
                obtain ⟨p, hp⟩ := (zip_padTo_pend har'.1 l).1 hl
                exact (wfc0.lfresh l (wfc0.insBack i hi p l hp).1).1
              · intro pr hpr
                have := mem_zip_fst hpr
                rw [hsp1, List.mem_filter] at this
                exact ⟨this.1, by simpa using this.2⟩
              · intro e he p y hp
                obtain ⟨h0, l', h1, _, h3'⟩ := inv3.outs e he p y hp
                exact ⟨h0, l', h1, h3'⟩
              · intro e he p y hp
                obtain ⟨_, l', h1, _, h3'⟩ := inv3.ins e he p y hp
                exact Or.inl ⟨l', h1, h3'⟩
            have n4 := foldO_inv (connectIn m nm)
              (fun cc rest => Inv4 c i m nm c.nextL cc rest ∧ FFk m nm cc ∧ Done3 m nm cc [])
              (fun s a rest s' hinv hf => by
                obtain ⟨a1, a2, a3⟩ := hinv
                have hff := connectIn_ff4 a1 a2 a3 hf
                exact ⟨connectIn_inv4 a1 (gConnectIn_of_inv4 wf ok nmi.keyCond a1) hf, hff.1, hff.2⟩)
              _ c3 c4 ⟨inv4_0, ff3, d3⟩ h4
            obtain ⟨inv4, ff4, d34⟩ := n4
            -- the outputs
            have houtN : sh.outLines.Nodup := by
              rw [hsp2, List.filterMap_map]
              apply nodup_filterMap_of_inj _ _ (hioN.sublist List.filter_sublist)
              intro a ha b hb y h1 h2'
              simp only [Function.comp, id] at h1 h2'
              have ha' := (List.mem_filter.1 ha).1
              have hb' := (List.mem_filter.1 hb).1
              have r1 := (wf.insBack a (wf.ioIn a ha') 0 y h1).2.1
              have r2 := (wf.insBack b (wf.ioIn b hb') 0 y h2').2.1
              rw [r1] at r2; exact Option.some.inj r2
            have hpad : padTo (c.nobj i).outs sh.outLines.length = (c.nobj i).outs := by rw [← hlenO]; exact padTo_self _
            have hallsome : ∀ pr ∈ sh.outLines.zip (padTo (c.nobj i).outs sh.outLines.length), pr.2.isSome = true := by
              intro pr hpr
              rw [hpad] at hpr
              exact hallO pr.2 (List.of_mem_zip hpr).2
            have hfst : (sh.outLines.zip (padTo (c.nobj i).outs sh.outLines.length)).map (·.1) = sh.outLines := by
              rw [hpad]
              exact List.map_fst_zip (by omega)
            have inv5_0 : Inv5 m nm (sh.outLines.zip (padTo (c.nobj i).outs sh.outLines.length)) (c4, [])
                (sh.outLines.zip (padTo (c.nobj i).outs sh.outLines.length)) := by
              refine ⟨⟨inv4.ci.s.congr_pred (fun _ => Iff.rfl) (fun l => zip_padTo_pend har'.2 l), inv4.ci.nm,
                fun n hn => by simp at hn⟩, zip_padTo_pendNodup har'.2 hinjO, zip_map_fst_nodup houtN, ?_, fun _ h => h, ?_⟩
              · intro pr hpr
                have := mem_zip_fst hpr
                rw [hsp2] at this
                simp only [List.mem_filterMap, List.mem_map, List.mem_filter, id] at this
                obtain ⟨a, ⟨O, ⟨hO, hOl⟩, hOa⟩, ha⟩ := this
                subst ha
                exact ⟨O, hO, by simpa using hOl, hOa⟩
              · intro e he p y hp
                obtain ⟨_, l', h1, h3'⟩ := inv4.outs e he p y hp
                exact Or.inl ⟨l', h1, h3'⟩
            have n5 := foldO_inv (connectOut m nm)
              (fun st rest => Inv5 m nm (sh.outLines.zip (padTo (c.nobj i).outs sh.outLines.length)) st rest ∧ FFk m nm st.1 ∧ Done3 m nm st.1 [] ∧ Done5 m nm sh.outLines st.1 rest ∧ st.2 = [] ∧
                (∀ pr ∈ rest, pr.2.isSome = true))
              (fun s a rest s' hinv hf => by
                obtain ⟨a1, a2, a3, a4, a5, a6⟩ := hinv
                have hff := connectOut_ff5 (a6 a (by simp)) a2 a3 a4 a5 hf
                exact ⟨connectOut_inv5 a1 (gConnectOut_of_inv5 wf ok nmi.keyCond a1) hf, hff.1, hff.2.1, hff.2.2.1, hff.2.2.2,
                  fun pr hpr => a6 pr (by simp [hpr])⟩)
              _ (c4, []) (c5, dang)
              ⟨inv5_0, ff4, d34, fun l hl hlr => by rw [hfst] at hlr; exact absurd hl hlr, rfl, hallsome⟩ h5
            obtain ⟨inv5, ff5, d35, d5, hdang, _⟩ := n5
            simp only at hdang ff5 d35 d5
            subst hdang
            simp only [foldO, Option.some.injEq] at h
            subst h
            refine ffull_final wfm ok ff2.keysC hone ?_ hports' inv5 ff5 d35 d5
            rintro l ⟨O, hO, hOl, hOp⟩
            rw [hsp2]
            simp only [List.mem_filterMap, List.mem_map, List.mem_filter, id]
            exact ⟨some l, ⟨O, ⟨hO, by simpa using hOl⟩, hOp⟩, rfl⟩

/-- `substitute`, regular case, structural precondition only: the result satisfies `WFc` -/
theorem substituteObj_wf_static {c c' : Circ} {i : Nat} {m : Circ} (wfc : WFc c) (hst : substStatic c i m = true)
    (hreg : substRegular c i m = true) (h : substituteObj c i m = some c') : WFc c' :=
  ⟨substituteObj_wf0 wfc.toWFc0 (substPre0_of_static wfc.toWFc0 hst) h, substituteObj_ffull wfc hst hreg h⟩

theorem ffull_forksFull {c : Circ} (h : FFull c) : forksFull c = true := by
  unfold forksFull
  rw [List.all_eq_true]
  intro i hi
  by_cases hk : (c.nobj i).kind = FORK
  · have := h i hi hk
    simp only [hk, bne_self_eq_false, Bool.false_or, List.all_eq_true]
    intro x hx
    cases x with
    | none => exact absurd hx this
    | some _ => rfl
  · simp [hk]

/-- structural conditions imply the full precondition `substPre` -/
theorem substPre_of_static {c : Circ} {i : Nat} {m : Circ} (wfc : WFc c) (hst : substStatic c i m = true)
    (hreg : substRegular c i m = true) : substPre c i m = true := by
  unfold substPre
  rw [substPre0_of_static wfc.toWFc0 hst, Bool.true_and]
  cases h : substituteObj c i m with
  | none => rfl
  | some c' => exact ffull_forksFull (substituteObj_ffull wfc hst hreg h)

end KV.CircObj
