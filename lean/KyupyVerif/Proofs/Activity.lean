import KyupyVerif.Proofs.WaveIOOrder
import KyupyVerif.Proofs.Capture
import KyupyVerif.Proofs.WaveCircuit
/-! Switching-activity accumulation of a whole `c_prop` (C13, auditor's `activity_all_circuits`).

`WaveIO.cpuCProp` / `gpuCProp` (Model/WaveIO.lean) thread the pair (memory column, accumulator column) of every lane through the op
rows of all levels. Here: what that does to ONE lane is the run of the rows in schedule order (`cpuCProp_lane`); the memory column does
not depend on the accumulators (`laneRun_c`); the accumulator column is `Wave.accumulate` — the function the driver runs for the
correspondence `accum` — of the contributions `a_loc : nrise·a_wr + nfall·a_wf` of the rows in that order (`laneRun_ab`), hence start
value + weighted sum per accumulator (`accumulate_spec`); with the waveform evaluator `evWave` the counts of every row are the numbers
of rising / falling transitions of the waveform the row left in its output region (`evWave_counts_transitions`). -/
namespace KV.WaveIO
open KV KV.Sig KV.Wave

/-- the op rows in the order `c_prop` runs them on a lane: the levels in order, within a level `op_start … op_stop - 1` -/
def sched (ops : List AOp) (levels : List (Nat × Nat)) : List AOp :=
  levels.flatMap fun lv => (List.range (lv.2 - lv.1)).map fun y => ops.getD (lv.1 + y) default

/-- the loop body applied to the rows in order, on one lane -/
def laneRun (ev : Ev) (sim : Nat) (rows : List AOp) (st : LaneSt) : LaneSt :=
  rows.foldl (fun st o => cpuBody ev o sim st) st

/-- **a whole `c_prop` seen from lane `k < sims`**: the rows of all levels in schedule order, applied to that lane's state alone -/
theorem cpuCProp_lane (ev : Ev) (ops : List AOp) (levels : List (Nat × Nat)) (sims : Nat) (S : Nat → LaneSt) (k : Nat)
    (hk : k < sims) : cpuCProp ev ops levels sims S k = laneRun ev k (sched ops levels) (S k) := by
  unfold cpuCProp sched laneRun
  induction levels generalizing S with
  | nil => rfl
  | cons lv r ih =>
    simp only [List.foldl_cons, List.flatMap_cons, List.foldl_append]
    rw [ih, cpuLevel_lane, if_pos hk, List.foldl_map]
    rfl

/-- memory column of a lane after the rows (accumulators play no part) -/
def laneMem (ev : Ev) (sim : Nat) : List AOp → Col → Col
  | [], c => c
  | o :: r, c => laneMem ev sim r (ev o.op sim c).1

/-- the rows with the counts the evaluator returned for them, in order -/
def laneTrace (ev : Ev) (sim : Nat) : List AOp → Col → List (AOp × Nat × Nat)
  | [], _ => []
  | o :: r, c => (o, (ev o.op sim c).2.1, (ev o.op sim c).2.2) :: laneTrace ev sim r (ev o.op sim c).1

/-- the contribution of one evaluated row: `a_loc < 0` = none, amount `nrise·a_wr + nfall·a_wf` -/
def contribOf (e : AOp × Nat × Nat) : Contrib :=
  ⟨if e.1.aLoc < 0 then none else some e.1.aLoc.toNat, (e.2.1 : Int) * e.1.aWr + (e.2.2 : Int) * e.1.aWf⟩

theorem laneRun_cons (ev : Ev) (sim : Nat) (o : AOp) (r : List AOp) (st : LaneSt) :
    laneRun ev sim (o :: r) st = laneRun ev sim r (cpuBody ev o sim st) := rfl

theorem laneRun_c (ev : Ev) (sim : Nat) (rows : List AOp) (st : LaneSt) :
    (laneRun ev sim rows st).c = laneMem ev sim rows st.c := by
  induction rows generalizing st with
  | nil => rfl
  | cons o r ih => rw [laneRun_cons, ih]; rfl

theorem accAdd_nat (o : AOp) (nr nf : Nat) (ab : Int → Int) (a : Nat) :
    accAdd o nr nf ab (a : Int) = accStep (fun j : Nat => ab (j : Int)) (contribOf (o, nr, nf)) a := by
  unfold accAdd accStep contribOf
  by_cases h : 0 ≤ o.aLoc
  · have h' : ¬ o.aLoc < 0 := by omega
    simp only [h, if_true, h', if_false, updI]
    by_cases ha : (a : Int) = o.aLoc
    · have : a = o.aLoc.toNat := by omega
      have hc : ((o.aLoc.toNat : Nat) : Int) = o.aLoc := by omega
      simp only [ha, if_true, this, hc]
    · have : ¬ a = o.aLoc.toNat := by omega
      simp only [ha, if_false, this]
  · have h' : o.aLoc < 0 := by omega
    simp only [h, if_false, h', if_true]

theorem accAdd_neg (o : AOp) (nr nf : Nat) (ab : Int → Int) (a : Int) (ha : a < 0) : accAdd o nr nf ab a = ab a := by
  unfold accAdd
  split
  · unfold updI; rw [if_neg (by omega)]
  · rfl

/-- **the accumulator column of a lane after the rows** = `Wave.accumulate` of the contributions of the rows, in schedule order,
    on the lane's start values -/
theorem laneRun_ab (ev : Ev) (sim : Nat) (rows : List AOp) (st : LaneSt) (a : Nat) :
    (laneRun ev sim rows st).ab (a : Int) =
      accumulate (fun j : Nat => st.ab (j : Int)) ((laneTrace ev sim rows st.c).map contribOf) a := by
  induction rows generalizing st with
  | nil => rfl
  | cons o r ih =>
    rw [laneRun_cons, ih]
    simp only [laneTrace, List.map_cons, accumulate, List.foldl_cons]
    have hab : (fun j : Nat => (cpuBody ev o sim st).ab (j : Int)) =
        accStep (fun j : Nat => st.ab (j : Int)) (contribOf (o, (ev o.op sim st.c).2.1, (ev o.op sim st.c).2.2)) := by
      funext j
      exact accAdd_nat o _ _ st.ab j
    rw [hab]
    rfl

/-- negative accumulator indices are never written (`if a_loc >= 0`) -/
theorem laneRun_ab_neg (ev : Ev) (sim : Nat) (rows : List AOp) (st : LaneSt) (a : Int) (ha : a < 0) :
    (laneRun ev sim rows st).ab a = st.ab a := by
  induction rows generalizing st with
  | nil => rfl
  | cons o r ih => rw [laneRun_cons, ih]; exact accAdd_neg o _ _ st.ab a ha

theorem laneTrace_length (ev : Ev) (sim : Nat) (rows : List AOp) (c : Col) : (laneTrace ev sim rows c).length = rows.length := by
  induction rows generalizing c with
  | nil => rfl
  | cons o r ih => simp only [laneTrace, List.length_cons, ih]

/-- the `i`-th trace entry: the `i`-th row with the counts of its evaluation on the memory the rows before it left -/
theorem laneTrace_get (ev : Ev) (sim : Nat) (rows : List AOp) (c : Col) (i : Nat) (hi : i < rows.length) :
    (laneTrace ev sim rows c)[i]'(by rw [laneTrace_length]; exact hi) =
      (rows[i], (ev rows[i].op sim (laneMem ev sim (rows.take i) c)).2.1,
        (ev rows[i].op sim (laneMem ev sim (rows.take i) c)).2.2) := by
  induction rows generalizing c i with
  | nil => exact absurd hi (by simp)
  | cons o r ih =>
    cases i with
    | zero => rfl
    | succ i =>
      simp only [laneTrace, List.getElem_cons_succ, List.take_succ_cons, laneMem]
      exact ih _ i (by simpa using hi)

theorem laneMem_append (ev : Ev) (sim : Nat) (a b : List AOp) (c : Col) :
    laneMem ev sim (a ++ b) c = laneMem ev sim b (laneMem ev sim a c) := by
  induction a generalizing c with
  | nil => rfl
  | cons o r ih => simp only [List.cons_append, laneMem, ih]

/-- **the counts are the transitions of the stored waveform** (evaluator `evWave`, one configuration `g`): delays ≥ 0, output
    capacity ≥ 4, well-formed operand waveforms in memory — the `(nrise, nfall)` the evaluation returns are the numbers of rising
    and falling transitions of the waveform that the output region holds afterwards -/
theorem evWave_counts_transitions (g : WCfg) (loc : Nat → Int) (o : OpRow) (sim : Nat) (c : Col)
    (hd : ∀ l p q, 0 ≤ g.delay l p q) (hc : 4 ≤ g.cap o.out)
    (hx : ∀ i ∈ o.ins, (readWave (rdCells c (loc i) (g.cap i))).ok) :
    (evWave (fun _ => g) loc o sim c).2 =
      countTrans false (readWave (rdCells (evWave (fun _ => g) loc o sim c).1 (loc o.out) (g.cap o.out))).ents := by
  obtain ⟨h1, h2, _⟩ := evWave_reads_back g loc o sim c hd hc hx
  rw [h1, h2]
  have hxs : ∀ x ∈ (o.ins.map fun i => readWave (rdCells c (loc i) (g.cap i))), x.ok := by
    intro x hx'
    obtain ⟨i, hi, rfl⟩ := List.mem_map.mp hx'
    exact hx i hi
  have hok := waveSem_ok g ⟨o.lut, o.out, o.ins⟩ _ hd hc hxs
  rw [counts_spec _ hok.1]
  unfold waveCounts waveSem waveEval
  simp only []

/-- level table from boundaries: `[(b₀, b₁), (b₁, b₂), …]` = `zip(level_starts, level_stops)` -/
def levelPairs (a : Nat) (bs : List Nat) : List (Nat × Nat) := List.zip (a :: bs) bs

theorem sched_levelPairs (ops : List AOp) (a : Nat) (bs : List Nat) (h : List.Pairwise (· ≤ ·) (a :: bs)) :
    sched ops (levelPairs a bs) = (List.range' a ((bs.getLast?).getD a - a)).map fun i => ops.getD i default := by
  induction bs generalizing a with
  | nil => simp [sched, levelPairs]
  | cons b r ih =>
    have hab : a ≤ b := (List.pairwise_cons.1 h).1 b List.mem_cons_self
    have hr : List.Pairwise (· ≤ ·) (b :: r) := (List.pairwise_cons.1 h).2
    have hlast : b ≤ (r.getLast?).getD b := by
      cases hl : r.getLast? with
      | none => simp
      | some x => simp only [Option.getD_some]; exact (List.pairwise_cons.1 hr).1 x (List.mem_of_getLast? hl)
    have ih' := ih b hr
    unfold sched levelPairs at ih' ⊢
    simp only [List.zip_cons_cons, List.flatMap_cons]
    rw [ih']
    have hl2 : ((b :: r).getLast?).getD a = (r.getLast?).getD b := by
      cases r with
      | nil => simp
      | cons c t =>
        have : (c :: t).getLast? = some ((c :: t).getLast (by simp)) := List.getLast?_eq_some_getLast (by simp)
        simp only [List.getLast?_cons_cons, this, Option.getD_some]
    rw [hl2]
    have hsplit : List.range' a ((r.getLast?).getD b - a) = List.range' a (b - a) ++ List.range' b ((r.getLast?).getD b - b) := by
      have : (r.getLast?).getD b - a = (b - a) + ((r.getLast?).getD b - b) := by omega
      rw [this, ← List.range'_append_1]
      congr 2
      omega
    rw [hsplit, List.map_append]
    congr 1
    rw [List.range'_eq_map_range, List.map_map]
    rfl

/-- **contiguous levels from 0 to the table's length** (what the levelisation produces, C07 `levels_contiguous`): the schedule of a
    lane is the op table in program order -/
theorem sched_contiguous (ops : List AOp) (bs : List Nat) (h : List.Pairwise (· ≤ ·) (0 :: bs))
    (hlast : (bs.getLast?).getD 0 = ops.length) : sched ops (levelPairs 0 bs) = ops := by
  rw [sched_levelPairs ops 0 bs h, hlast, Nat.sub_zero, ← List.range_eq_range']
  apply List.ext_getElem
  · simp
  · intro i h1 h2
    simp only [List.getElem_map, List.getElem_range]
    simp [List.getD, h2]

end KV.WaveIO
