import KyupyVerif.Model.StilText
import KyupyVerif.Proofs.TextLex
/-! Scanner facts for the STIL text model (`Lx s t x`: in state `s`, a blank, the text `x` and then a blank / line end is
the token `t` with text `x`). -/
namespace KV.StilText
open KV.TextLex

/-- the rest of the text starts with a blank or a line end -/
def WsHead (R : List Char) : Prop := ∃ c R', R = c :: R' ∧ (c = ' ' ∨ c = '\n')

def Lx (s : List Tm) (t : Tm) (x : Txt) : Prop :=
  ∀ R, WsHead R → next L s (' ' :: (x ++ R)) = some (.tok t x, R)

theorem wsHead_cons_blank (R : List Char) : WsHead (' ' :: R) := ⟨' ', R, rfl, Or.inl rfl⟩
theorem wsHead_nl : WsHead ['\n'] := ⟨'\n', [], rfl, Or.inr rfl⟩
theorem wsHead_enc (ts : List Txt) (R : List Char) (h : WsHead R) : WsHead (enc ts ++ R) := by
  cases ts with
  | nil => simpa [enc] using h
  | cons t ts => exact ⟨' ', t ++ (enc ts ++ R), by simp [enc], Or.inl rfl⟩

theorem enc_cons (t : Txt) (ts : List Txt) (R : List Char) : enc (t :: ts) ++ R = ' ' :: (t ++ (enc ts ++ R)) := by
  simp [enc]

theorem skipIgn_solid (c : Char) (X : List Char) (h : solid c = true) : skipIgn false (c :: X) = c :: X := by
  simp only [solid, Bool.and_eq_true, Bool.not_eq_true', ne_eq, decide_not, decide_eq_false_iff_not] at h
  obtain ⟨⟨⟨h1, h2⟩, h3⟩, h4⟩ := h
  cases X <;> simp [skipIgn, h1, h2, h3, h4]

theorem ignM_solid (c : Char) (X : List Char) (h : solid c = true) : ignM (c :: X) = none := by
  simp [ignM, skipIgn_solid c X h]

theorem ignM_blank (c : Char) (X : List Char) (h : solid c = true) : ignM (' ' :: c :: X) = some ([], c :: X) := by
  have : skipIgn false (' ' :: c :: X) = c :: X := by
    rw [skipIgn]; simp [isBlank, skipIgn_solid c X h]
  simp [ignM, this]

theorem next_skip (ts : List Tm) (c : Char) (X : List Char) (h : solid c = true) :
    next L (.ign :: ts) (' ' :: c :: X) = next L (.ign :: ts) (c :: X) := by
  apply next_ign L _ _ .ign [] (c :: X)
  · simp [first, L, Tm.run, ignM_blank c X h]
  · rfl
  · simp

theorem first_pre (pre post : List Tm) (t : Tm) (cs x r : List Char) (hpre : ∀ u ∈ pre, u.run cs = none)
    (ht : t.run cs = some (x, r)) : first L (pre ++ t :: post) cs = some (t, x, r) := by
  induction pre with
  | nil => simp [first, L, ht]
  | cons u pre ih =>
    have hu : u.run cs = none := hpre u (by simp)
    simp only [List.cons_append, first, L, hu]
    exact ih (fun v hv => hpre v (by simp [hv]))

/-- generic: the scan list is `ign :: (c ++ t :: d)`, nothing in `c` matches, `t` matches exactly `x` -/
theorem Lx_core (t : Tm) (c0 : Char) (x' : Txt) (c d : List Tm) (hc0 : solid c0 = true)
    (hpre : ∀ R, WsHead R → ∀ u ∈ c, u.run (c0 :: x' ++ R) = none)
    (ht : ∀ R, WsHead R → t.run (c0 :: x' ++ R) = some (c0 :: x', R))
    (hign : t.ign? = false) : Lx (.ign :: (c ++ t :: d)) t (c0 :: x') := by
  intro R hR
  have h1 : next L (.ign :: (c ++ t :: d)) (' ' :: (c0 :: x' ++ R)) = next L (.ign :: (c ++ t :: d)) (c0 :: x' ++ R) :=
    next_skip _ c0 _ hc0
  rw [h1]
  have : Tm.ign :: (c ++ t :: d) = (Tm.ign :: c) ++ t :: d := rfl
  rw [this]
  refine next_tok L _ _ t _ _ (first_pre (.ign :: c) d t _ _ _ ?_ (ht R hR)) hign (by simp)
  intro u hu
  rcases List.mem_cons.mp hu with rfl | hu
  · simp only [List.cons_append, Tm.run]; exact ignM_solid c0 _ hc0
  · exact hpre R hR u hu

/-! ## literals -/
def notWsCh (c : Char) : Bool := c ≠ ' ' && c ≠ '\n'

theorem kw_chars_ok (k : Kw) : k.chars ≠ [] ∧ k.chars.all notWsCh = true := by
  cases k <;> exact ⟨by simp [Kw.chars], by decide⟩

theorem stripPrefix_none (a b R : List Char) (h : a.isPrefixOf b = false) (ha : a.all notWsCh = true) (hR : WsHead R) :
    stripPrefix a (b ++ R) = none := by
  induction a generalizing b with
  | nil => simp at h
  | cons x a ih =>
    simp only [List.all_cons, Bool.and_eq_true] at ha
    cases b with
    | nil =>
      obtain ⟨c, R', rfl, hc⟩ := hR
      have : x ≠ c := by
        intro e; subst e
        have := ha.1
        rcases hc with rfl | rfl <;> simp [notWsCh] at this
      simp [stripPrefix, this]
    | cons y b =>
      simp only [List.cons_append, stripPrefix]
      by_cases e : x = y
      · subst e
        simp only [List.isPrefixOf, beq_self_eq_true, Bool.true_and] at h
        simp [ih b h ha.2]
      · simp [e]

/-- `u` cannot match a text that starts with `c0` / is `x` followed by a blank (sound, not complete) -/
def failsAt (c0 : Char) (x : Txt) : Tm → Bool
  | .ign => solid c0
  | .lit k => !(k.chars.isPrefixOf x)
  | .quoted => c0 ≠ '"'
  | .float => !isFloatCh c0
  | .nob => c0 = '{' || c0 = '}'
  | .digits => !isDigit c0
  | .value => c0 = ';'
  | .ukw => false

theorem failsAt_sound (c0 : Char) (x' : Txt) (u : Tm) (h : failsAt c0 (c0 :: x') u = true) (R : List Char) (hR : WsHead R) :
    u.run (c0 :: x' ++ R) = none := by
  cases u with
  | ign => exact ignM_solid c0 _ h
  | lit k =>
    simp only [failsAt, Bool.not_eq_true'] at h
    simp only [Tm.run, TextLex.lit]
    rw [stripPrefix_none k.chars (c0 :: x') R h (kw_chars_ok k).2 hR]
    rfl
  | quoted => simp only [failsAt, ne_eq, decide_not, Bool.not_eq_true', decide_eq_false_iff_not] at h; simp [Tm.run, quotedM, h]
  | float => simp only [failsAt, Bool.not_eq_true'] at h; simp [Tm.run, plus, spanP, h]
  | nob =>
    simp only [failsAt, Bool.or_eq_true, decide_eq_true_eq] at h
    rcases h with h | h <;> simp [Tm.run, plus, spanP, isNob, h]
  | digits => simp only [failsAt, Bool.not_eq_true'] at h; simp [Tm.run, plus, spanP, h]
  | value => simp only [failsAt, decide_eq_true_eq] at h; simp [Tm.run, plus, spanP, isValueCh, h]
  | ukw => simp [failsAt] at h

def splitAtTm (t : Tm) : List Tm → Option (List Tm × List Tm)
  | [] => none
  | u :: us => if u = t then some ([], us) else (splitAtTm t us).map fun p => (u :: p.1, p.2)

theorem splitAtTm_spec (t : Tm) (ts a b : List Tm) (h : splitAtTm t ts = some (a, b)) : ts = a ++ t :: b := by
  induction ts generalizing a with
  | nil => simp [splitAtTm] at h
  | cons u us ih =>
    simp only [splitAtTm] at h
    split at h
    · rename_i e; cases h; simp [e]
    · simp only [Option.map_eq_some_iff] at h
      obtain ⟨p, hp, he⟩ := h
      cases he
      rw [ih p.1 hp]; rfl

/-- decidable side conditions for terminal `t` with text `c0 :: x'` in the scan list `ts = ign :: ..` -/
def checkAt (ts : List Tm) (t : Tm) (x : Txt) : Bool :=
  match ts, x with
  | .ign :: rest, c0 :: x' =>
    (match splitAtTm t rest with
     | some (c, _) => c.all (failsAt c0 (c0 :: x')) && solid c0
     | none => false)
  | _, _ => false

theorem Lx_of_check (s : List Tm) (t : Tm) (x : Txt) (h : checkAt s t x = true)
    (ht : ∀ R, WsHead R → t.run (x ++ R) = some (x, R)) (hign : t.ign? = false) : Lx s t x := by
  unfold checkAt at h
  split at h
  · rename_i rest c0 x'
    split at h
    · rename_i c d hs
      simp only [Bool.and_eq_true] at h
      rw [splitAtTm_spec t rest c d hs]
      exact Lx_core t c0 x' c d h.2
        (fun R hR u hu => failsAt_sound c0 x' u (List.all_eq_true.mp h.1 u hu) R hR) ht hign
    · cases h
  · cases h

theorem Lx_lit (s : List Tm) (k : Kw) (h : checkAt s (.lit k) k.chars = true) : Lx s (.lit k) k.chars :=
  Lx_of_check s (.lit k) k.chars h (fun R _ => by simpa [Tm.run] using lit_append k.chars R) rfl

/-! ## quoted names, numbers, values -/
theorem vQ_spec (q : Txt) (h : vQ q = true) : ∃ body, q = '"' :: (body ++ ['"']) ∧ ∀ y ∈ body, notQuote y = true := by
  cases q with
  | nil => simp [vQ] at h
  | cons c r =>
    simp only [vQ, Bool.and_eq_true, decide_eq_true_eq, List.all_eq_true] at h
    obtain ⟨⟨rfl, h2⟩, h3⟩ := h
    have hne : r ≠ [] := by intro e; subst e; simp at h2
    have hl : r.getLast hne = '"' := by
      rw [List.getLast?_eq_some_getLast hne] at h2; exact Option.some.inj h2
    refine ⟨r.dropLast, ?_, h3⟩
    rw [← hl, List.dropLast_concat_getLast hne]

theorem quotedM_tok (q : Txt) (h : vQ q = true) (R : List Char) : quotedM (q ++ R) = some (q, R) := by
  obtain ⟨body, rfl, hb⟩ := vQ_spec q h
  have := spanP_append notQuote body ('"' :: R) hb (by intro c r e; cases e; decide)
  simp [quotedM, this]

/-- first-character version: `u` cannot match any text that starts with `c0` -/
def failsHead (c0 : Char) : Tm → Bool
  | .lit k => k.chars.head? != some c0
  | u => failsAt c0 [c0] u

theorem failsHead_sound (c0 : Char) (X : List Char) (u : Tm) (h : failsHead c0 u = true) : u.run (c0 :: X) = none := by
  cases u with
  | lit k =>
    simp only [failsHead, bne_iff_ne, ne_eq] at h
    have hk := kw_chars_ok k
    cases hkc : k.chars with
    | nil => exact absurd hkc hk.1
    | cons a as =>
      rw [hkc] at h
      have : a ≠ c0 := by intro e; subst e; simp at h
      simp [Tm.run, TextLex.lit, hkc, stripPrefix, this]
  | ign => exact ignM_solid c0 _ h
  | quoted => simp only [failsHead, failsAt, ne_eq, decide_not, Bool.not_eq_true', decide_eq_false_iff_not] at h; simp [Tm.run, quotedM, h]
  | float => simp only [failsHead, failsAt, Bool.not_eq_true'] at h; simp [Tm.run, plus, spanP, h]
  | nob =>
    simp only [failsHead, failsAt, Bool.or_eq_true, decide_eq_true_eq] at h
    rcases h with h | h <;> simp [Tm.run, plus, spanP, isNob, h]
  | digits => simp only [failsHead, failsAt, Bool.not_eq_true'] at h; simp [Tm.run, plus, spanP, h]
  | value => simp only [failsHead, failsAt, decide_eq_true_eq] at h; simp [Tm.run, plus, spanP, isValueCh, h]
  | ukw => simp [failsHead, failsAt] at h

def checkHead (ts : List Tm) (t : Tm) (c0 : Char) : Bool :=
  match ts with
  | .ign :: rest =>
    (match splitAtTm t rest with
     | some (c, _) => c.all (failsHead c0) && solid c0
     | none => false)
  | _ => false

theorem Lx_of_checkHead (s : List Tm) (t : Tm) (c0 : Char) (x' : Txt) (h : checkHead s t c0 = true)
    (ht : ∀ R, WsHead R → t.run (c0 :: x' ++ R) = some (c0 :: x', R)) (hign : t.ign? = false) : Lx s t (c0 :: x') := by
  unfold checkHead at h
  split at h
  · rename_i rest
    split at h
    · rename_i c d hs
      simp only [Bool.and_eq_true] at h
      rw [splitAtTm_spec t rest c d hs]
      exact Lx_core t c0 x' c d h.2
        (fun R _ u hu => failsHead_sound c0 _ u (List.all_eq_true.mp h.1 u hu)) ht hign
    · cases h
  · cases h

theorem Lx_quoted (s : List Tm) (q : Txt) (hq : vQ q = true) (h : checkHead s .quoted '"' = true) : Lx s .quoted q := by
  obtain ⟨body, rfl, hb⟩ := vQ_spec q hq
  exact Lx_of_checkHead s .quoted '"' _ h (fun R _ => quotedM_tok _ hq R) rfl

theorem Lx_digits (n : Txt) (h : vDigits n = true) : Lx sDigits .digits n := by
  simp only [vDigits, Bool.and_eq_true, Bool.not_eq_true', List.isEmpty_eq_false_iff, List.all_eq_true] at h
  cases n with
  | nil => exact absurd rfl h.1
  | cons c0 x' =>
    have hc := h.2 c0 (by simp)
    have hsolid : solid c0 = true := by
      simp only [isDigit, Bool.and_eq_true, decide_eq_true_eq] at hc
      simp only [solid, isBlank, Bool.and_eq_true, Bool.not_eq_true', Bool.or_eq_false_iff, decide_eq_false_iff_not, ne_eq,
        decide_not]
      refine ⟨⟨⟨⟨⟨?_, ?_⟩, ?_⟩, ?_⟩, ?_⟩, ?_⟩ <;> (intro e; subst e; revert hc; decide)
    refine Lx_of_checkHead sDigits .digits c0 x' (by simp [checkHead, sDigits, splitAtTm, hsolid]) ?_ rfl
    intro R hR
    obtain ⟨w, R', rfl, hw⟩ := hR
    have := plus_append isDigit (c0 :: x') (w :: R') (by simp) h.2
      (by intro c r e; cases e; rcases hw with rfl | rfl <;> decide)
    simpa [Tm.run] using this

theorem Lx_float (v : Txt) (h : vFloat v = true) : Lx sFloat .float v := by
  simp only [vFloat, Bool.and_eq_true, Bool.not_eq_true', List.isEmpty_eq_false_iff, List.all_eq_true] at h
  cases v with
  | nil => exact absurd rfl h.1
  | cons c0 x' =>
    have hc := h.2 c0 (by simp)
    have hsolid : solid c0 = true := by
      simp only [isFloatCh, isDigit, Bool.or_eq_true, Bool.and_eq_true, decide_eq_true_eq] at hc
      simp only [solid, isBlank, Bool.and_eq_true, Bool.not_eq_true', Bool.or_eq_false_iff, decide_eq_false_iff_not, ne_eq,
        decide_not]
      refine ⟨⟨⟨⟨⟨?_, ?_⟩, ?_⟩, ?_⟩, ?_⟩, ?_⟩ <;> (intro e; subst e; revert hc; decide)
    refine Lx_of_checkHead sFloat .float c0 x' (by simp [checkHead, sFloat, splitAtTm, hsolid]) ?_ rfl
    intro R hR
    obtain ⟨w, R', rfl, hw⟩ := hR
    have := plus_append isFloatCh (c0 :: x') (w :: R') (by simp) h.2
      (by intro c r e; cases e; rcases hw with rfl | rfl <;> decide)
    simpa [Tm.run] using this

/-- a parameter value is followed directly by its `;` -/
theorem next_value (v : Txt) (h : vValue v = true) (R : List Char) :
    next L sValue (' ' :: (v ++ ';' :: R)) = some (.tok .value v, ';' :: R) := by
  cases v with
  | nil => simp [vValue] at h
  | cons c0 x' =>
    simp only [vValue, Bool.and_eq_true, List.all_eq_true] at h
    obtain ⟨hsolid, h5⟩ := h
    have hp := plus_append isValueCh (c0 :: x') (';' :: R) (by simp) h5 (by intro c r e; cases e; decide)
    simp only [List.cons_append] at hp ⊢
    rw [sValue, next_skip _ c0 _ hsolid]
    exact next_tok L _ _ .value _ _ (by simp [first, L, Tm.run, ignM_solid c0 _ hsolid, hp]) rfl (by simp)

theorem next_semi_direct (R : List Char) : next L sSemi (';' :: R) = some (.tok (.lit .Semi) [';'], R) :=
  next_tok L _ _ (.lit .Semi) _ _ (by simp [sSemi, one, first, L, Tm.run, ignM_solid ';' R (by decide), lit, stripPrefix, Kw.chars])
    rfl (by simp)

theorem Lx_ukw (t : Txt) (h : vUkw t = true) : Lx sUk .ukw t := by
  simp only [vUkw, Bool.and_eq_true, decide_eq_true_eq, List.all_eq_true] at h
  have hne : t ≠ [] := by intro e; subst e; simp at h
  have hl : t.getLast hne = ';' := by
    have := h.1; rw [List.getLast?_eq_some_getLast hne] at this; exact Option.some.inj this
  have ht : t = t.dropLast ++ [';'] := by rw [← hl, List.dropLast_concat_getLast hne]
  have hsp : ∀ R, spanP isAlpha (t ++ R) = (t.dropLast, ';' :: R) := by
    intro R
    have := spanP_append isAlpha t.dropLast (';' :: R) h.2 (by intro c r e; cases e; decide)
    rw [ht]; simpa using this
  have hrun : ∀ R, ukwM (t ++ R) = some (t, R) := by
    intro R; simp only [ukwM, hsp R, ↓reduceIte]; rw [← ht]
  have hc0 : ∃ c0 x', t = c0 :: x' ∧ solid c0 = true := by
    cases hd : t.dropLast with
    | nil => rw [hd] at ht; exact ⟨';', [], ht, by decide⟩
    | cons a as =>
      rw [hd] at ht
      have ha : isAlpha a = true := h.2 a (by rw [hd]; simp)
      refine ⟨a, as ++ [';'], by simpa using ht, ?_⟩
      simp only [isAlpha, Bool.or_eq_true, Bool.and_eq_true, decide_eq_true_eq] at ha
      simp only [solid, isBlank, Bool.and_eq_true, Bool.not_eq_true', Bool.or_eq_false_iff, decide_eq_false_iff_not, ne_eq,
        decide_not]
      refine ⟨⟨⟨⟨⟨?_, ?_⟩, ?_⟩, ?_⟩, ?_⟩, ?_⟩ <;> (intro e; subst e; revert ha; decide)
  obtain ⟨c0, x', rfl, hs⟩ := hc0
  exact Lx_of_checkHead sUk .ukw c0 x' (by simp [checkHead, sUk, splitAtTm, hs]) (fun R _ => hrun R) rfl

end KV.StilText
