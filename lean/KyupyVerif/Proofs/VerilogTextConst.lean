import KyupyVerif.Proofs.VerilogText
import KyupyVerif.Proofs.Netlist
/-! Token class of SIZED CONSTANTS (audit finding 10(a)): every spelling `W'Bdigits` of the same width and the same value cut to
the width expands to the same bit list (`const_same`, exact: `const_same_iff`), and two module trees that differ only in such
spellings (`sameModule`) build the same circuit (`circOfModule_same`). -/
namespace KV.VerilogText
open KV.Netlist

/-! ## the expansion depends on width and value modulo `2^width` only -/

theorem constBits_eq (w : Nat) (b : Char) (ds : List Char) :
    constBits w b ds = (List.range w).map fun i => bitStr ((parseNum (baseOf b) ds).testBit (w - 1 - i)) := by
  simp [constBits, constLoop_eq]

theorem testBit_of_mod_eq {w K K' : Nat} (h : K % 2 ^ w = K' % 2 ^ w) (j : Nat) (hj : j < w) : K.testBit j = K'.testBit j := by
  have h1 := Nat.testBit_mod_two_pow K w j
  have h2 := Nat.testBit_mod_two_pow K' w j
  rw [h] at h1
  simp only [hj, decide_true, Bool.true_and] at h1 h2
  rw [← h1, h2]

theorem mod_eq_of_testBit {w K K' : Nat} (h : ∀ j, j < w → K.testBit j = K'.testBit j) : K % 2 ^ w = K' % 2 ^ w := by
  apply Nat.eq_of_testBit_eq
  intro j
  rw [Nat.testBit_mod_two_pow, Nat.testBit_mod_two_pow]
  by_cases hj : j < w
  · simp only [hj, decide_true, Bool.true_and]; exact h j hj
  · simp [hj]

theorem bitStr_inj {a b : Bool} (h : bitStr a = bitStr b) : a = b := by
  cases a <;> cases b <;> first | rfl | (exfalso; revert h; decide)

theorem collapse_inj {l l' : List String} (h : collapse l = collapse l') : l = l' := by
  have := congrArg SelVal.toList h
  rwa [collapse_toList, collapse_toList] at this

/-- same width, same value modulo `2^width` ⇒ same expansion — whatever base letter, letter case, leading zeros, excess digits -/
theorem const_same (w : Nat) (b b' : Char) (ds ds' : List Char)
    (h : parseNum (baseOf b) ds % 2 ^ w = parseNum (baseOf b') ds' % 2 ^ w) :
    sigsel (.const w b ds) = sigsel (.const w b' ds') := by
  simp only [sigsel, constBits_eq]
  congr 1
  apply List.map_congr_left
  intro i hi
  have hi' : i < w := List.mem_range.mp hi
  rw [testBit_of_mod_eq h (w - 1 - i) (by omega)]

/-- … and ONLY then: the class is exact -/
theorem const_same_iff (w w' : Nat) (b b' : Char) (ds ds' : List Char) :
    sigsel (.const w b ds) = sigsel (.const w' b' ds') ↔
      w = w' ∧ parseNum (baseOf b) ds % 2 ^ w = parseNum (baseOf b') ds' % 2 ^ w := by
  constructor
  · intro h
    simp only [sigsel, constBits_eq] at h
    have hl := collapse_inj h
    have hw : w = w' := by
      have := congrArg List.length hl
      simpa using this
    subst hw
    refine ⟨rfl, mod_eq_of_testBit fun j hj => ?_⟩
    have := List.map_inj_left.mp hl (w - 1 - j) (List.mem_range.mpr (by omega))
    have h2 := bitStr_inj this
    have e : w - 1 - (w - 1 - j) = j := by omega
    rwa [e] at h2
  · rintro ⟨rfl, h⟩
    exact const_same w b b' ds ds' h

/-- the base letter is case-insensitive -/
theorem const_base_case (w : Nat) (ds : List Char) :
    sigsel (.const w 'B' ds) = sigsel (.const w 'b' ds) ∧ sigsel (.const w 'D' ds) = sigsel (.const w 'd' ds) ∧
    sigsel (.const w 'H' ds) = sigsel (.const w 'h' ds) := ⟨rfl, rfl, rfl⟩

theorem parseNum_zero_cons (base : Nat) (ds : List Char) : parseNum base ('0' :: ds) = parseNum base ds := by
  simp [parseNum, digitVal]

/-- leading zeros of the digits do not matter -/
theorem const_leading_zero (w : Nat) (b : Char) (ds : List Char) : sigsel (.const w b ('0' :: ds)) = sigsel (.const w b ds) :=
  const_same w b b _ _ (by rw [parseNum_zero_cons])

/-! ## from the tree: names of sized constants -/

theorem contains_quote_of_const (w : List Char) (h : isConstWord w = true) : w.contains '\'' = true := by
  obtain ⟨c, ds, b, hh, hs, rfl, -⟩ := constWord_parts w h
  simp

theorem toSel_const (n : String) (h : isConstWord n.toList = true) :
    toSel (.sig n none) = some (.const (constW n) (constB n) (constD n)) := by
  simp only [toSel, contains_quote_of_const _ h, h, if_true, constW, constB, constD]

/-- what the post-parse model uses of a selection: its expansion and whether `sigsel` raises -/
def selKey (a : Sel) : SelVal × Bool := (sigsel a, a.ok)
def selsKey (l : List Sel) : List String × Bool := (concatL l, Sel.ok.okL l)

theorem sameConst_key (n n' : String) (h : sameConst n n' = true) :
    (toSel (.sig n none)).map selKey = (toSel (.sig n' none)).map selKey := by
  simp only [sameConst, Bool.and_eq_true, beq_iff_eq] at h
  obtain ⟨⟨⟨⟨h1, h2⟩, hw⟩, hv⟩, hd⟩ := h
  rw [toSel_const n h1, toSel_const n' h2]
  simp only [Option.map_some, selKey, Sel.ok, Option.some.injEq, Prod.mk.injEq]
  rw [← hw, hd]
  exact ⟨const_same _ _ _ _ _ hv, rfl⟩

mutual
theorem sameSel_key : ∀ (x y : VSel), sameSel x y = true → (toSel x).map selKey = (toSel y).map selKey
  | .sig n none, .sig n' none, h => by
    simp only [sameSel, Bool.or_eq_true, beq_iff_eq] at h
    rcases h with h | h
    · rw [h]
    · exact sameConst_key n n' h
  | .sig n (some rg), .sig n' (some rg'), h => by
    simp only [sameSel, Bool.and_eq_true, beq_iff_eq] at h
    rw [h.1, h.2]
  | .cat xs, .cat ys, h => by
    simp only [sameSel] at h
    have ih := sameSels_key xs ys h
    simp only [toSel]
    cases hx : toSels xs <;> cases hy : toSels ys <;> rw [hx, hy] at ih <;> simp_all [selKey, selsKey, sigsel, Sel.ok]
  | .sig _ none, .sig _ (some _), h => by simp [sameSel] at h
  | .sig _ (some _), .sig _ none, h => by simp [sameSel] at h
  | .sig _ none, .cat _, h => by simp [sameSel] at h
  | .sig _ (some _), .cat _, h => by simp [sameSel] at h
  | .cat _, .sig _ none, h => by simp [sameSel] at h
  | .cat _, .sig _ (some _), h => by simp [sameSel] at h
theorem sameSels_key : ∀ (xs ys : List VSel), sameSels xs ys = true → (toSels xs).map selsKey = (toSels ys).map selsKey
  | [], [], _ => rfl
  | x :: r, y :: r', h => by
    simp only [sameSels, Bool.and_eq_true] at h
    have ih1 := sameSel_key x y h.1
    have ih2 := sameSels_key r r' h.2
    simp only [toSels]
    cases hx : toSel x <;> cases hy : toSel y <;> cases hr : toSels r <;> cases hr' : toSels r' <;>
      rw [hx, hy] at ih1 <;> rw [hr, hr'] at ih2 <;> simp_all [selKey, selsKey, concatL, Sel.ok.okL]
  | [], _ :: _, h => by simp [sameSels] at h
  | _ :: _, [], h => by simp [sameSels] at h
end

/-! ## pins, statements, modules -/

def pinStep' (m : List (String × SelVal)) (q : String × Option SelVal) : List (String × SelVal) :=
  match q.2 with
  | some v => pinPut m q.1 v
  | none => m

theorem pinStep_eq (m : List (String × SelVal)) (p : String × Option Sel) : pinStep m p = pinStep' m (p.1, p.2.map sigsel) := by
  obtain ⟨n, o⟩ := p
  cases o <;> rfl

/-- `instantiation` uses of a pin list: pin names and the expansions of the connected selections -/
theorem instantiation_eq (l : List (String × Option Sel)) :
    instantiation l = (l.map fun p => (p.1, p.2.map sigsel)).foldl pinStep' [] := by
  simp only [instantiation, List.foldl_map]
  congr 1
  funext m p
  exact pinStep_eq m p

def pinOk (p : String × Option Sel) : Bool := match p.2 with | some s => s.ok | none => true

def pinsKey (l : List (String × Option Sel)) : List (String × Option SelVal) × Bool :=
  (l.map fun p => (p.1, p.2.map sigsel), l.all pinOk)

theorem samePins_key : ∀ (ps qs : List VPin), samePins ps qs = true →
    (toPins ps).map pinsKey = (toPins qs).map pinsKey ∧ ps.any VPin.isPos = qs.any VPin.isPos
  | [], [], _ => ⟨rfl, rfl⟩
  | [], _ :: _, h => by simp [samePins] at h
  | _ :: _, [], h => by simp [samePins] at h
  | p :: r, q :: r', h => by
    simp only [samePins, Bool.and_eq_true] at h
    obtain ⟨ih1, ih2⟩ := samePins_key r r' h.2
    cases p with
    | named pn o =>
      cases q with
      | pos _ => simp [samePin] at h
      | named qn o' =>
        cases o with
        | none =>
          cases o' with
          | some _ => simp [samePin] at h
          | none =>
            have hn : pn = qn := by simpa [samePin] using h.1
            subst hn
            refine ⟨?_, by simp only [List.any_cons, VPin.isPos, ih2]⟩
            simp only [toPins]
            cases hr : toPins r <;> cases hr' : toPins r' <;> rw [hr, hr'] at ih1 <;> simp_all [pinsKey, pinOk]
        | some x =>
          cases o' with
          | none => simp [samePin] at h
          | some y =>
            have hh : pn = qn ∧ sameSel x y = true := by simpa [samePin] using h.1
            obtain ⟨hn, hxy⟩ := hh
            subst hn
            have ihs := sameSel_key x y hxy
            refine ⟨?_, by simp only [List.any_cons, VPin.isPos, ih2]⟩
            simp only [toPins]
            cases hx : toSel x <;> cases hy : toSel y <;> cases hr : toPins r <;> cases hr' : toPins r' <;>
              rw [hx, hy] at ihs <;> rw [hr, hr'] at ih1 <;> simp_all [pinsKey, pinOk, selKey]
    | pos x =>
      cases q with
      | named _ _ => simp [samePin] at h
      | pos y =>
        refine ⟨?_, by simp only [List.any_cons, VPin.isPos, Bool.true_or]⟩
        simp only [toPins]
        exact ih1

/-- what `circOfModule` uses of a statement -/
def stmtKey (r : RStmt) : Stmt × Bool := (transform r, r.ok)

theorem rstmt_ok_inst (ty nm : String) (l : List (String × Option Sel)) : (RStmt.inst ty nm l).ok = l.all pinOk := rfl

theorem sameStmt_key (st st' : VStmt) (h : sameStmt st st' = true) :
    (toR st).map stmtKey = (toR st').map stmtKey ∧ st.hasPos = st'.hasPos := by
  cases st with
  | decl k r ns =>
    cases st' with
    | decl k' r' ns' =>
      simp only [sameStmt, Bool.and_eq_true, beq_iff_eq] at h
      obtain ⟨⟨h1, h2⟩, h3⟩ := h
      subst h1 h2 h3
      exact ⟨rfl, rfl⟩
    | _ => simp [sameStmt] at h
  | assign t s =>
    cases st' with
    | assign t' s' =>
      simp only [sameStmt, Bool.and_eq_true] at h
      have i1 := sameSel_key t t' h.1
      have i2 := sameSel_key s s' h.2
      refine ⟨?_, rfl⟩
      simp only [toR]
      cases ht : toSel t <;> cases ht' : toSel t' <;> cases hs : toSel s <;> cases hs' : toSel s' <;>
        rw [ht, ht'] at i1 <;> rw [hs, hs'] at i2 <;> simp_all [stmtKey, selKey, transform, RStmt.ok]
    | _ => simp [sameStmt] at h
  | inst ty nm pins =>
    cases st' with
    | inst ty' nm' pins' =>
      simp only [sameStmt, Bool.and_eq_true, beq_iff_eq] at h
      obtain ⟨⟨h1, h2⟩, h3⟩ := h
      subst h1 h2
      obtain ⟨i1, i2⟩ := samePins_key pins pins' h3
      refine ⟨?_, i2⟩
      simp only [toR]
      cases hp : toPins pins <;> cases hp' : toPins pins' <;> rw [hp, hp'] at i1 <;>
        simp_all [stmtKey, transform, rstmt_ok_inst, instantiation_eq, pinsKey]
    | _ => simp [sameStmt] at h

def stmtsKey (rs : List RStmt) : List Stmt × Bool := (rs.map transform, rs.all RStmt.ok)

theorem sameStmts_key : ∀ (a b : List VStmt), sameStmts a b = true →
    (toRs a).map stmtsKey = (toRs b).map stmtsKey ∧ a.any VStmt.hasPos = b.any VStmt.hasPos
  | [], [], _ => ⟨rfl, rfl⟩
  | [], _ :: _, h => by simp [sameStmts] at h
  | _ :: _, [], h => by simp [sameStmts] at h
  | x :: r, y :: r', h => by
    simp only [sameStmts, Bool.and_eq_true] at h
    obtain ⟨i1, i2⟩ := sameStmt_key x y h.1
    obtain ⟨j1, j2⟩ := sameStmts_key r r' h.2
    refine ⟨?_, by simp only [List.any_cons, i2, j2]⟩
    simp only [toRs]
    cases hx : toR x <;> cases hy : toR y <;> cases hr : toRs r <;> cases hr' : toRs r' <;>
      rw [hx, hy] at i1 <;> rw [hr, hr'] at j1 <;> simp_all [stmtsKey, stmtKey]

/-- two module trees that differ only in the spelling of sized constants build the same circuit (or both are outside the
modelled domain, or both raise) -/
theorem circOfModule_same (cfg : Cfg) (tl : TL) (m m' : VModule) (h : sameModule m m' = true) :
    circOfModule cfg tl m = circOfModule cfg tl m' := by
  simp only [sameModule, Bool.and_eq_true, beq_iff_eq] at h
  obtain ⟨⟨_, hp⟩, hs⟩ := h
  obtain ⟨i1, i2⟩ := sameStmts_key m.stmts m'.stmts hs
  simp only [circOfModule, hp, i2]
  cases hr : toRs m.stmts <;> cases hr' : toRs m'.stmts <;> rw [hr, hr'] at i1 <;> simp_all [stmtsKey]

theorem circOfText_of_parse (cfg : Cfg) (tl : TL) (text : String) (m : VModule) (h : parseVerilog text = some [m]) :
    circOfText cfg tl text = circOfModule cfg tl m := by
  simp only [circOfText, circOfModule, h]

end KV.VerilogText
