import KyupyVerif.Proofs.Netlist
/-! Helper lemmas for C11 (part 2): the circuit under construction only grows; what each step adds. -/
namespace KV.Netlist

/-! ## field access through the constructors -/
section simp_lemmas
variable (C : Circ) (n k : String) (b : Bool) (d r : Ep) (v : Option String)

@[simp] theorem addFork_lines : (C.addFork n b).lines = C.lines := rfl
@[simp] theorem addFork_nodes : (C.addFork n b).nodes = C.nodes ++ [⟨forkKind, n, b⟩] := rfl
@[simp] theorem addFork_io : (C.addFork n b).io = C.io := rfl
@[simp] theorem addFork_ioB : (C.addFork n b).ioB = C.ioB := rfl
@[simp] theorem addFork_cc : (C.addFork n b).cc = C.cc := rfl
@[simp] theorem addCell_lines : (C.addCell k n).lines = C.lines := rfl
@[simp] theorem addCell_nodes : (C.addCell k n).nodes = C.nodes ++ [⟨k, n, false⟩] := rfl
@[simp] theorem addCell_io : (C.addCell k n).io = C.io := rfl
@[simp] theorem addCell_ioB : (C.addCell k n).ioB = C.ioB := rfl
@[simp] theorem addCell_cc : (C.addCell k n).cc = C.cc := rfl
@[simp] theorem addLine_lines : (C.addLine d r v).lines = C.lines ++ [⟨d, r, v⟩] := rfl
@[simp] theorem addLine_nodes : (C.addLine d r v).nodes = C.nodes := rfl
@[simp] theorem addLine_io : (C.addLine d r v).io = C.io := rfl
@[simp] theorem addLine_ioB : (C.addLine d r v).ioB = C.ioB := rfl
@[simp] theorem addLine_cc : (C.addLine d r v).cc = C.cc := rfl
@[simp] theorem failIf_lines : (C.failIf b).lines = C.lines := rfl
@[simp] theorem failIf_nodes : (C.failIf b).nodes = C.nodes := rfl
@[simp] theorem failIf_io : (C.failIf b).io = C.io := rfl
@[simp] theorem failIf_ioB : (C.failIf b).ioB = C.ioB := rfl
@[simp] theorem failIf_cc : (C.failIf b).cc = C.cc := rfl
@[simp] theorem fail_lines : C.fail.lines = C.lines := rfl
@[simp] theorem fail_nodes : C.fail.nodes = C.nodes := rfl
@[simp] theorem fail_io : C.fail.io = C.io := rfl
@[simp] theorem fail_ioB : C.fail.ioB = C.ioB := rfl
@[simp] theorem fail_cc : C.fail.cc = C.cc := rfl
@[simp] theorem addLines_lines (ls : List LineM) : (C.addLines ls).lines = C.lines ++ ls := rfl
@[simp] theorem addLines_nodes (ls : List LineM) : (C.addLines ls).nodes = C.nodes := rfl
@[simp] theorem addLines_io (ls : List LineM) : (C.addLines ls).io = C.io := rfl
@[simp] theorem addLines_ioB (ls : List LineM) : (C.addLines ls).ioB = C.ioB := rfl
@[simp] theorem pushIo_lines (i : Nat) : (C.pushIo i n).lines = C.lines := rfl
@[simp] theorem pushIo_nodes (i : Nat) : (C.pushIo i n).nodes = C.nodes := rfl
@[simp] theorem pushIo_io (i : Nat) : (C.pushIo i n).io = C.io ++ [(i, n)] := rfl
@[simp] theorem pushIo_cc (i : Nat) : (C.pushIo i n).cc = C.cc := rfl
@[simp] theorem pushIoB_lines (ns : List String) : (C.pushIoB ns).lines = C.lines := rfl
@[simp] theorem pushIoB_nodes (ns : List String) : (C.pushIoB ns).nodes = C.nodes := rfl
@[simp] theorem pushIoB_ioB (ns : List String) : (C.pushIoB ns).ioB = C.ioB ++ ns := rfl
@[simp] theorem incCC_lines : C.incCC.lines = C.lines := rfl
@[simp] theorem incCC_nodes : C.incCC.nodes = C.nodes := rfl
@[simp] theorem incCC_io : C.incCC.io = C.io := rfl
@[simp] theorem incCC_cc : C.incCC.cc = C.cc + 1 := rfl
@[simp] theorem incCC_isFork (q : String) : C.incCC.isFork q = C.isFork q := rfl
@[simp] theorem pushIo_isFork (i : Nat) (q : String) : (C.pushIo i n).isFork q = C.isFork q := rfl
@[simp] theorem failIf_isFork (q : String) : (C.failIf b).isFork q = C.isFork q := rfl
@[simp] theorem addLine_isFork (q : String) : (C.addLine d r v).isFork q = C.isFork q := rfl
end simp_lemmas

theorem isFork_iff (C : Circ) (q : String) : C.isFork q = true ↔ ∃ b, (⟨forkKind, q, b⟩ : NodeM) ∈ C.nodes := by
  unfold Circ.isFork
  rw [List.any_eq_true]
  constructor
  · rintro ⟨x, hx, hp⟩
    simp only [Bool.and_eq_true, beq_iff_eq] at hp
    refine ⟨x.branch, ?_⟩
    have : x = ⟨forkKind, q, x.branch⟩ := by cases x; simp_all
    rw [← this]; exact hx
  · rintro ⟨b, hb⟩
    exact ⟨_, hb, by simp⟩

theorem isFork_addFork_self (C : Circ) (n : String) (b : Bool) : (C.addFork n b).isFork n = true := by
  rw [isFork_iff]; exact ⟨b, by simp⟩

/-! ## growth -/
/-- every node and every line of `C` is still in `C'` -/
structure Sub (C C' : Circ) : Prop where
  lines : ∀ l ∈ C.lines, l ∈ C'.lines
  nodes : ∀ n ∈ C.nodes, n ∈ C'.nodes

theorem Sub.refl (C : Circ) : Sub C C := ⟨fun _ h => h, fun _ h => h⟩
theorem Sub.trans {A B C : Circ} (h1 : Sub A B) (h2 : Sub B C) : Sub A C :=
  ⟨fun l h => h2.lines l (h1.lines l h), fun n h => h2.nodes n (h1.nodes n h)⟩

theorem Sub.isFork {C C' : Circ} (h : Sub C C') {q : String} (hq : C.isFork q = true) : C'.isFork q = true := by
  rw [isFork_iff] at *
  obtain ⟨b, hb⟩ := hq
  exact ⟨b, h.nodes _ hb⟩

theorem sub_of_eq {C C' : Circ} (hl : C'.lines = C.lines) (hn : C'.nodes = C.nodes) : Sub C C' :=
  ⟨fun l h => hl ▸ h, fun n h => hn ▸ h⟩

theorem sub_addFork (C : Circ) (n : String) (b : Bool) : Sub C (C.addFork n b) :=
  ⟨fun _ h => h, fun _ h => by simp [h]⟩
theorem sub_addCell (C : Circ) (k n : String) : Sub C (C.addCell k n) :=
  ⟨fun _ h => h, fun _ h => by simp [h]⟩
theorem sub_addLine (C : Circ) (d r : Ep) (v : Option String) : Sub C (C.addLine d r v) :=
  ⟨fun _ h => by simp [h], fun _ h => h⟩
theorem sub_failIf (C : Circ) (b : Bool) : Sub C (C.failIf b) := ⟨fun _ h => h, fun _ h => h⟩
theorem sub_fail (C : Circ) : Sub C C.fail := ⟨fun _ h => h, fun _ h => h⟩
theorem sub_incCC (C : Circ) : Sub C C.incCC := ⟨fun _ h => h, fun _ h => h⟩
theorem sub_pushIo (C : Circ) (k : Nat) (n : String) : Sub C (C.pushIo k n) := ⟨fun _ h => h, fun _ h => h⟩
theorem sub_pushIoB (C : Circ) (ns : List String) : Sub C (C.pushIoB ns) := ⟨fun _ h => h, fun _ h => h⟩
theorem sub_addLines (C : Circ) (ls : List LineM) : Sub C (C.addLines ls) :=
  ⟨fun _ h => by simp [h], fun _ h => h⟩

theorem sub_foldl {α} (step : Circ → α → Circ) (hmono : ∀ C x, Sub C (step C x)) (l : List α) (C : Circ) :
    Sub C (l.foldl step C) := by
  induction l generalizing C with
  | nil => exact Sub.refl C
  | cons x xs ih => exact (hmono C x).trans (ih _)

/-- the state right after the step for a member `x` is contained in the final state -/
theorem foldl_reach {α} (step : Circ → α → Circ) (hmono : ∀ C x, Sub C (step C x)) {l : List α} {x : α}
    (hx : x ∈ l) (C0 : Circ) : ∃ C, Sub C0 C ∧ Sub (step C x) (l.foldl step C0) := by
  induction l generalizing C0 with
  | nil => cases hx
  | cons y ys ih =>
    rcases List.mem_cons.mp hx with rfl | h
    · exact ⟨C0, Sub.refl _, sub_foldl step hmono ys _⟩
    · obtain ⟨C, h0, h1⟩ := ih h (step C0 y)
      exact ⟨C, (hmono C0 y).trans h0, h1⟩

/-! ### every pass only adds -/
theorem sub_pass1Pin (tl : TL) (ds : List Decl) (ty inst : String) (C : Circ) (ps : String × SelVal) :
    Sub C (pass1Pin tl ds ty inst C ps) := by
  unfold pass1Pin
  split
  · exact sub_fail C
  · split
    · exact sub_fail C
    · exact ((sub_addFork C _ _).trans (sub_addLine _ _ _ _)).trans (sub_failIf _ _)
  · exact Sub.refl C

theorem sub_pass1Stmt (tl : TL) (ds : List Decl) (C : Circ) (s : Stmt) : Sub C (pass1Stmt tl ds C s) := by
  cases s with
  | inst ty nm pins => exact (sub_addCell C ty nm).trans (sub_foldl _ (sub_pass1Pin tl ds ty nm) pins _)
  | decls _ => exact Sub.refl C
  | assign _ _ => exact Sub.refl C
  | other => exact Sub.refl C

theorem sub_ioStep (pn : List String) (C : Circ) (n : String) : Sub C (ioStep pn C n) := by
  unfold ioStep
  split
  · exact sub_pushIo _ _ _
  · exact Sub.refl C

theorem sub_portName (pn : List String) (k : DKind) (C : Circ) (n : String) : Sub C (portName pn k C n) := by
  unfold portName
  split
  · exact (sub_addCell C _ _).trans ((sub_ioStep _ _ _).trans ((sub_addFork _ _ _).trans (sub_addLine _ _ _ _)))
  · exact (sub_addCell C _ _).trans (sub_ioStep _ _ _)

theorem sub_portDecl (pn : List String) (C : Circ) (d : Decl) : Sub C (portDecl pn C d) := by
  unfold portDecl
  split
  · exact Sub.refl C
  · exact sub_foldl _ (sub_portName pn d.kind) _ _

theorem sub_portPass (pn : List String) (ds : List Decl) (C : Circ) : Sub C (portPass pn ds C) :=
  sub_foldl _ (sub_portDecl pn) _ _

theorem sub_assignStep (C : Circ) (ts : String × String) : Sub C (assignStep C ts) := by
  unfold assignStep
  split
  · exact ((sub_failIf C _).trans (sub_addFork _ _ _)).trans (sub_addLine _ _ _ _)
  · split
    · exact (sub_addFork C _ _).trans (sub_addLine _ _ _ _)
    · split
      · exact (sub_addCell C _ _).trans ((sub_incCC _).trans ((sub_addFork _ _ _).trans (sub_addLine _ _ _ _)))
      · exact Sub.refl C

theorem sub_roundStep (acc : Circ × List (String × String)) (ts : String × String) : Sub acc.1 (roundStep acc ts).1 := by
  unfold roundStep
  split
  · exact sub_assignStep _ _
  · exact Sub.refl _

theorem sub_assignRound_aux (pairs : List (String × String)) (acc : Circ × List (String × String)) :
    Sub acc.1 (pairs.foldl roundStep acc).1 := by
  induction pairs generalizing acc with
  | nil => exact Sub.refl _
  | cons ts rest ih =>
    simp only [List.foldl_cons]
    exact (sub_roundStep acc ts).trans (ih _)

theorem sub_assignRound (C : Circ) (pairs : List (String × String)) : Sub C (assignRound C pairs).1 :=
  sub_assignRound_aux pairs (C, [])

theorem sub_assignFix (fuel : Nat) (C : Circ) (pairs : List (String × String)) : Sub C (assignFix fuel C pairs).1 := by
  induction fuel generalizing C pairs with
  | zero => exact Sub.refl C
  | succ f ih =>
    unfold assignFix
    split
    · exact Sub.refl C
    · split
      · exact sub_assignRound C pairs
      · exact (sub_assignRound C pairs).trans (ih _ _)

theorem sub_pass15 (cfg : Cfg) (C : Circ) (pairs : List (String × String)) : Sub C (pass15 cfg C pairs) := by
  unfold pass15
  split
  · exact sub_assignFix _ _ _
  · exact sub_foldl _ sub_assignStep _ _

theorem sub_constPin (C : Circ) (s : String) : Sub C (constPin C s).1 := by
  unfold constPin
  split
  · exact (sub_addCell C _ _).trans ((sub_incCC _).trans ((sub_addFork _ _ _).trans (sub_addLine _ _ _ _)))
  · exact Sub.refl C

theorem sub_forkFor (cfg : Cfg) (ds : List Decl) (C : Circ) (s : String) : Sub C (forkFor cfg ds C s) := by
  unfold forkFor
  split
  · exact sub_addFork _ _ _
  · exact Sub.refl _

theorem sub_connectPin (bf : Bool) (inst pin : String) (idx : Nat) (C : Circ) (f : String) :
    Sub C (connectPin bf inst pin idx C f) := by
  unfold connectPin
  split
  · exact (sub_addFork _ _ _).trans (sub_addLine _ _ _ _)
  · exact sub_addLine _ _ _ _

theorem sub_readerOne (cfg : Cfg) (ds : List Decl) (inst pin : String) (idx : Nat) (C : Circ) (s0 : String) :
    Sub C (readerOne cfg ds inst pin idx C s0) :=
  (sub_constPin C s0).trans ((sub_forkFor _ _ _ _).trans (sub_connectPin _ _ _ _ _ _))

theorem sub_readerPin (cfg : Cfg) (tl : TL) (ds : List Decl) (ty inst : String) (C : Circ) (ps : String × SelVal) :
    Sub C (readerPin cfg tl ds ty inst C ps) := by
  unfold readerPin
  split
  · exact sub_fail C
  · exact Sub.refl C
  · split
    · exact sub_fail C
    · exact sub_readerOne _ _ _ _ _ _ _

theorem sub_pass2Stmt (cfg : Cfg) (tl : TL) (ds : List Decl) (C : Circ) (s : Stmt) : Sub C (pass2Stmt cfg tl ds C s) := by
  cases s with
  | inst ty nm pins => exact sub_foldl _ (sub_readerPin cfg tl ds ty nm) pins _
  | decls _ => exact Sub.refl C
  | assign _ _ => exact Sub.refl C
  | other => exact Sub.refl C

theorem sub_outName (C : Circ) (n : String) : Sub C (outName C n) := by
  unfold outName
  split
  · exact sub_addLine _ _ _ _
  · split
    · exact (sub_addLine _ _ _ _).trans (sub_failIf _ _)
    · exact Sub.refl C

theorem sub_outDecl (C : Circ) (d : Decl) : Sub C (outDecl C d) := by
  unfold outDecl
  split
  · exact sub_foldl _ sub_outName _ _
  · exact Sub.refl C

theorem sub_outPass (ds : List Decl) (C : Circ) : Sub C (outPass ds C) := sub_foldl _ sub_outDecl _ _

/-! ### the stages of `module` are nested -/
theorem sub_after1_after15 (cfg : Cfg) (tl : TL) (ports : List String) (stmts : List Stmt) :
    Sub (afterPass1 tl ports stmts) (afterPass15 cfg tl ports stmts) := sub_pass15 _ _ _

theorem sub_after15_after2 (cfg : Cfg) (tl : TL) (ports : List String) (stmts : List Stmt) :
    Sub (afterPass15 cfg tl ports stmts) (afterPass2 cfg tl ports stmts) :=
  sub_foldl _ (sub_pass2Stmt cfg tl _) _ _

theorem sub_after2_module (cfg : Cfg) (tl : TL) (ports : List String) (stmts : List Stmt) :
    Sub (afterPass2 cfg tl ports stmts) (module cfg tl ports stmts) := sub_outPass _ _

theorem sub_after1_module (cfg : Cfg) (tl : TL) (ports : List String) (stmts : List Stmt) :
    Sub (afterPass1 tl ports stmts) (module cfg tl ports stmts) :=
  (sub_after1_after15 cfg tl ports stmts).trans ((sub_after15_after2 cfg tl ports stmts).trans (sub_after2_module cfg tl ports stmts))

theorem sub_after15_module (cfg : Cfg) (tl : TL) (ports : List String) (stmts : List Stmt) :
    Sub (afterPass15 cfg tl ports stmts) (module cfg tl ports stmts) :=
  (sub_after15_after2 cfg tl ports stmts).trans (sub_after2_module cfg tl ports stmts)

end KV.Netlist
