import KyupyVerif.Proofs.SelectSpec
import KyupyVerif.Model.BenchSem
/-! Audit finding 1 / known finding D33: inside the arity domain (`benchArityB`: at most four operands per combinational gate
statement) the four-operand reading `gateVal` of the specification evaluator — which is what the real simulator computes — IS the
n-ary reading `gateFunN` (the family's operator over ALL operands). -/
namespace KV.Netlist
open KV

/-- all Boolean lists of length ≤ 4 -/
def lists4 : List (List Bool) :=
  [[]] ++ (bools.map fun a => [a]) ++ (bools.flatMap fun a => bools.map fun b => [a, b]) ++
  (bools.flatMap fun a => bools.flatMap fun b => bools.map fun c => [a, b, c]) ++
  (bools.flatMap fun a => bools.flatMap fun b => bools.flatMap fun c => bools.map fun d => [a, b, c, d])

theorem mem_lists4 (xs : List Bool) (h : xs.length ≤ 4) : xs ∈ lists4 := by
  match xs, h with
  | [], _ => decide
  | [a], _ => cases a <;> decide
  | [a, b], _ => cases a <;> cases b <;> decide
  | [a, b, c], _ => cases a <;> cases b <;> cases c <;> decide
  | [a, b, c, d], _ => cases a <;> cases b <;> cases c <;> cases d <;> decide
  | _ :: _ :: _ :: _ :: _ :: _, h => simp at h

/-- the n-ary reading for a given family row -/
def famFunN (z : Bool) (f : String × String × String × String) (xs : List Bool) : Bool :=
  if f.1 == "and" then (padTwo z xs).all id
  else if f.1 == "nand" then !(padTwo z xs).all id
  else if f.1 == "or" then (padTwo z xs).any id
  else if f.1 == "nor" then !(padTwo z xs).any id
  else if f.1 == "xor" then (padTwo z xs).foldl Bool.xor false
  else if f.1 == "xnor" then !(padTwo z xs).foldl Bool.xor false
  else prim2 f.2.2.2 (xs.getD 0 z) (xs.getD 1 z) (xs.getD 2 z) (xs.getD 3 z)

/-- the four-operand reading for a given family row: the arity variant is chosen by the operand count -/
def famFun4 (z : Bool) (f : String × String × String × String) (xs : List Bool) : Bool :=
  prim2 (if 3 < xs.length then f.2.1 else if 2 < xs.length then f.2.2.1 else f.2.2.2)
    (xs.getD 0 z) (xs.getD 1 z) (xs.getD 2 z) (xs.getD 3 z)

/-- the finite check: every family of the specification table, both values of the constant, every operand list of length ≤ 4 -/
theorem fam_check : (specFamilies.all fun f => bools.all fun z => lists4.all fun xs => famFunN z f xs == famFun4 z f xs) = true := by
  decide +kernel

theorem gateFunN_def (z : Bool) (lk : String) (xs : List Bool) :
    gateFunN z lk xs = match specFamily lk with | none => z | some f => famFunN z f xs := by
  unfold gateFunN famFunN
  cases specFamily lk <;> rfl

/-- **inside the arity domain the two readings agree**: for at most four operand values the n-ary meaning of a kind is the primitive
`specPrimName` selects by the operand count, applied to operands 0..3 (missing ones read `z`) -/
theorem gateFunN_eq (z : Bool) (lk : String) (xs : List Bool) (h : xs.length ≤ 4) :
    gateFunN z lk xs = match specPrimName lk (decide (2 < xs.length)) (decide (3 < xs.length)) with
      | some name => prim2 name (xs.getD 0 z) (xs.getD 1 z) (xs.getD 2 z) (xs.getD 3 z)
      | none => z := by
  rw [gateFunN_def]
  unfold specPrimName
  cases hf : specFamily lk with
  | none => rfl
  | some f =>
    have hmem : f ∈ specFamilies := by
      rw [specFamily_eq_find] at hf
      exact List.mem_of_find?_eq_some hf
    have hz : z ∈ bools := by cases z <;> decide
    have := List.all_eq_true.mp (List.all_eq_true.mp (List.all_eq_true.mp fam_check f hmem) z hz) xs (mem_lists4 xs h)
    simp only [beq_iff_eq] at this
    simp only [Option.map_some]
    rw [this]
    simp only [famFun4]
    by_cases h3 : 3 < xs.length
    · simp [h3]
    · by_cases h2 : 2 < xs.length <;> simp [h3, h2]

theorem getD_map_sigma (σ : String → Bool) (z : Bool) (drv : List String) (i : Nat) :
    (drv.map σ).getD i z = (match drv[i]? with | some d => σ d | none => z) := by
  simp only [List.getD, List.getElem?_map]
  cases drv[i]? <;> rfl

/-- the gate statement level: `gateVal` (operands 0..3, what kyupy simulates) = n-ary reading, for at most four operands -/
theorem gateVal_eq_nary (z : Bool) (kind : String) (drv : List String) (σ : String → Bool) (h : drv.length ≤ 4) :
    gateVal z prim2 kind drv σ = gateFunN z kind.toLower (drv.map σ) := by
  rw [gateFunN_eq z _ _ (by simpa using h)]
  unfold gateVal
  simp only [List.length_map, getD_map_sigma]
  rfl

/-- **inside the arity domain the models of a description in the n-ary reading are exactly the models in the four-operand
reading** (the reading of `bench_parsed_sem` / `bench_end_to_end`, which is what the simulator computes) -/
theorem benchModelN_iff (stmts : List BStmt) (har : benchArityB stmts = true) (z : Bool) (a : Nat → Bool) (σ : String → Bool) :
    BenchModelN stmts z a σ ↔ BenchModel stmts z prim2 a σ := by
  have hg : ∀ g ∈ benchGates stmts, stmtValN stmts z a g σ = stmtVal stmts z prim2 a g σ := by
    intro g hg
    unfold stmtValN stmtVal
    have := List.all_eq_true.mp har g hg
    by_cases hs : isSeqKind g.kind = true
    · simp [hs]
    · simp only [hs, Bool.false_or, decide_eq_true_eq] at this
      simp only [hs, Bool.false_eq_true, if_false]
      exact (gateVal_eq_nary z g.kind g.drv σ this).symm
  unfold BenchModelN BenchModel
  constructor
  · intro ⟨h1, h2⟩; exact ⟨fun g hm => by rw [h1 g hm, hg g hm], h2⟩
  · intro ⟨h1, h2⟩; exact ⟨fun g hm => by rw [h1 g hm, hg g hm], h2⟩

end KV.Netlist
