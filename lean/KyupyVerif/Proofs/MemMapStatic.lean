import KyupyVerif.Proofs.MemMapSpec
import KyupyVerif.Proofs.HeapInv
/-! Static notions for the allocation invariant of `memMap` (which signals are allocated after `k` rows, which are
dead at a level start) and their consequences from `ProgOK`. No mention of the heap. -/
namespace KV
open KV.MapIn

/-- signal `x` is an operand (through stems) of row number `k` -/
def usedAt (p : MapIn) (k x : Nat) : Prop := ∃ o, p.ops[k]? = some o ∧ x ∈ opSrcs p.stems o

/-- pinned in the model: the certificate's pinned signals and the two scratch slots -/
def pinnedM (p : MapIn) (x : Nat) : Bool := p.pinned x || x == p.ix.tmp || x == p.ix.tmp2

/-- with `c_reuse`: an unpinned signal that has readers, all of them before row `a` -/
def Dead (p : MapIn) (reuse : Bool) (a x : Nat) : Prop :=
  reuse = true ∧ pinnedM p x = false ∧ (∃ k, usedAt p k x) ∧ ∀ k, usedAt p k x → k < a

/-- signals that own memory after the first `k` rows -/
def AllocAt (p : MapIn) (k x : Nat) : Prop :=
  x = p.ix.zero ∨ x = p.ix.tmp ∨ x = p.ix.tmp2 ∨ x ∈ p.ppiSlots ∨
    ∃ k' o, k' < k ∧ p.ops[k']? = some o ∧ o.out = x ∧ x ≠ p.ix.tmp

theorem AllocAt.mono {p : MapIn} {k k' x : Nat} (h : AllocAt p k x) (hk : k ≤ k') : AllocAt p k' x := by
  rcases h with h | h | h | h | ⟨j, o, hj, ho, hx, ht⟩
  · exact .inl h
  · exact .inr (.inl h)
  · exact .inr (.inr (.inl h))
  · exact .inr (.inr (.inr (.inl h)))
  · exact .inr (.inr (.inr (.inr ⟨j, o, by omega, ho, hx, ht⟩)))

theorem Dead.mono {p : MapIn} {reuse : Bool} {a b x : Nat} (h : Dead p reuse a x) (hab : a ≤ b) : Dead p reuse b x :=
  ⟨h.1, h.2.1, h.2.2.1, fun k hk => Nat.lt_of_lt_of_le (h.2.2.2 k hk) hab⟩

theorem not_dead_noreuse (p : MapIn) (a x : Nat) : ¬ Dead p false a x := fun h => by cases h.1

theorem not_dead_zero (p : MapIn) (reuse : Bool) (x : Nat) : ¬ Dead p reuse 0 x := by
  intro h
  obtain ⟨k, hk⟩ := h.2.2.1
  have := h.2.2.2 k hk
  omega

theorem ix_vals (p : MapIn) : p.ix.zero = p.net.lines.size ∧ p.ix.tmp = p.net.lines.size + 1 ∧
    p.ix.tmp2 = p.net.lines.size + 2 ∧ p.ix.ppi = p.net.lines.size + 3 ∧
    p.ix.ppo = p.net.lines.size + 3 + p.net.sNodes.length ∧
    p.ix.len = p.net.lines.size + 3 + 2 * p.net.sNodes.length := by
  simp [MapIn.ix, Net.idx]

/-- input slots lie in `[ppi, ppo)` -/
theorem ppiSlots_range (p : MapIn) {x : Nat} (h : x ∈ p.ppiSlots) : p.ix.ppi ≤ x ∧ x < p.ix.ppo := by
  unfold MapIn.ppiSlots at h
  simp only [List.mem_map, List.mem_filter] at h
  obtain ⟨⟨n, i⟩, ⟨hm, _⟩, rfl⟩ := h
  have hi : i < p.net.sNodes.length := by
    have := mem_zipIdx_getElem? hm
    exact (List.getElem?_eq_some_iff.mp this).1
  obtain ⟨_, _, _, h4, h5, _⟩ := ix_vals p
  simp only
  omega

theorem pinnedM_zero (p : MapIn) : pinnedM p p.ix.zero = true := by
  simp [pinnedM, MapIn.pinned, MapIn.pinnedW]
theorem pinnedM_tmp (p : MapIn) : pinnedM p p.ix.tmp = true := by simp [pinnedM]
theorem pinnedM_tmp2 (p : MapIn) : pinnedM p p.ix.tmp2 = true := by simp [pinnedM]
theorem pinnedM_ppi (p : MapIn) {x : Nat} (h : x ∈ p.ppiSlots) : pinnedM p x = true := by
  simp [pinnedM, MapIn.pinned, MapIn.pinnedW, h]

end KV
