import KyupyVerif.Proofs.MemMapSpec
import KyupyVerif.Proofs.HeapInv
/-! Static notions for the allocation invariant of `memMap` (which signals are allocated after `k` rows, which are
dead at a level start) and their consequences from `ProgOK`. No mention of the heap. -/
namespace KV
open KV.MapIn

/-- signal `x` is an operand (through stems) of row number `k` -/
def usedAt (p : MapIn) (k x : Nat) : Prop := ∃ o, p.ops[k]? = some o ∧ x ∈ opSrcs p.stems o

/-- pinned in the model: the certificate's pinned signals and the two scratch slots -/
def pinnedM (p : MapIn) (x : Nat) : Bool := p.pinned x || x == p.ix.tmp || x == p.ix.tmp2

/-- with `c_reuse`: an unpinned signal that has readers, all of them before row `a` -/
def Dead (p : MapIn) (reuse : Bool) (a x : Nat) : Prop :=
  reuse = true ∧ pinnedM p x = false ∧ (∃ k, usedAt p k x) ∧ ∀ k, usedAt p k x → k < a

/-- signals that own memory after the first `k` rows -/
def AllocAt (p : MapIn) (k x : Nat) : Prop :=
  x = p.ix.zero ∨ x = p.ix.tmp ∨ x = p.ix.tmp2 ∨ x ∈ p.ppiSlots ∨
    ∃ k' o, k' < k ∧ p.ops[k']? = some o ∧ o.out = x ∧ x ≠ p.ix.tmp

theorem AllocAt.mono {p : MapIn} {k k' x : Nat} (h : AllocAt p k x) (hk : k ≤ k') : AllocAt p k' x := by
  rcases h with h | h | h | h | ⟨j, o, hj, ho, hx, ht⟩
  · exact .inl h
  · exact .inr (.inl h)
  · exact .inr (.inr (.inl h))
  · exact .inr (.inr (.inr (.inl h)))
  · exact .inr (.inr (.inr (.inr ⟨j, o, by omega, ho, hx, ht⟩)))

theorem Dead.mono {p : MapIn} {reuse : Bool} {a b x : Nat} (h : Dead p reuse a x) (hab : a ≤ b) : Dead p reuse b x :=
  ⟨h.1, h.2.1, h.2.2.1, fun k hk => Nat.lt_of_lt_of_le (h.2.2.2 k hk) hab⟩

theorem not_dead_noreuse (p : MapIn) (a x : Nat) : ¬ Dead p false a x := fun h => by cases h.1

theorem not_dead_zero (p : MapIn) (reuse : Bool) (x : Nat) : ¬ Dead p reuse 0 x := by
  intro h
  obtain ⟨k, hk⟩ := h.2.2.1
  have := h.2.2.2 k hk
  omega

theorem ix_vals (p : MapIn) : p.ix.zero = p.net.lines.size ∧ p.ix.tmp = p.net.lines.size + 1 ∧
    p.ix.tmp2 = p.net.lines.size + 2 ∧ p.ix.ppi = p.net.lines.size + 3 ∧
    p.ix.ppo = p.net.lines.size + 3 + p.net.sNodes.length ∧
    p.ix.len = p.net.lines.size + 3 + 2 * p.net.sNodes.length := by
  simp [MapIn.ix, Net.idx]

/-- input slots lie in `[ppi, ppo)` -/
theorem ppiSlots_range (p : MapIn) {x : Nat} (h : x ∈ p.ppiSlots) : p.ix.ppi ≤ x ∧ x < p.ix.ppo := by
  unfold MapIn.ppiSlots at h
  simp only [List.mem_map, List.mem_filter] at h
  obtain ⟨⟨n, i⟩, ⟨hm, _⟩, rfl⟩ := h
  have hi : i < p.net.sNodes.length := by
    have := mem_zipIdx_getElem? hm
    exact (List.getElem?_eq_some_iff.mp this).1
  obtain ⟨_, _, _, h4, h5, _⟩ := ix_vals p
  simp only
  omega

theorem pinnedM_zero (p : MapIn) : pinnedM p p.ix.zero = true := by
  simp [pinnedM, MapIn.pinned, MapIn.pinnedW]
theorem pinnedM_tmp (p : MapIn) : pinnedM p p.ix.tmp = true := by simp [pinnedM]
theorem pinnedM_tmp2 (p : MapIn) : pinnedM p p.ix.tmp2 = true := by simp [pinnedM]
theorem pinnedM_ppi (p : MapIn) {x : Nat} (h : x ∈ p.ppiSlots) : pinnedM p x = true := by
  simp [pinnedM, MapIn.pinned, MapIn.pinnedW, h]

/-! ### levels -/
theorem filter_length_le_of_imp {α} (l : List α) (f g : α → Bool) (h : ∀ t ∈ l, f t = true → g t = true) :
    (l.filter f).length ≤ (l.filter g).length := by
  induction l with
  | nil => simp
  | cons t r ih =>
    have ih' := ih (fun u hu => h u (List.mem_cons_of_mem _ hu))
    have ht := h t List.mem_cons_self
    simp only [List.filter_cons]
    cases hf : f t <;> cases hg : g t <;> simp <;> first | omega | (rw [hf] at ht; simp [hg] at ht)

theorem filter_length_lt_of_imp {α} (l : List α) (f g : α → Bool) (h : ∀ t ∈ l, f t = true → g t = true)
    (a : α) (ha : a ∈ l) (hfa : f a = false) (hga : g a = true) :
    (l.filter f).length < (l.filter g).length := by
  induction l with
  | nil => cases ha
  | cons t r ih =>
    have hle := filter_length_le_of_imp r f g (fun u hu => h u (List.mem_cons_of_mem _ hu))
    simp only [List.filter_cons]
    rcases List.mem_cons.mp ha with rfl | har
    · simp [hfa, hga]; omega
    · have ih' := ih (fun u hu => h u (List.mem_cons_of_mem _ hu)) har
      have ht := h t List.mem_cons_self
      cases hf : f t <;> cases hg : g t <;> simp <;> first | omega | (rw [hf] at ht; simp [hg] at ht)

theorem levelOf_const (p : MapIn) {a b k : Nat} (hgap : ∀ t ∈ p.starts, t ≤ a ∨ b ≤ t) (hak : a ≤ k) (hkb : k < b) :
    p.levelOf k = p.levelOf a := by
  unfold MapIn.levelOf
  congr 1
  apply List.filter_congr
  intro t ht
  rcases hgap t ht with h | h
  · simp only [decide_eq_decide]; omega
  · simp only [decide_eq_decide]; omega

theorem levelOf_lt_start (p : MapIn) {a j : Nat} (ha : a ∈ p.starts) (hj : j < a) : p.levelOf j < p.levelOf a := by
  unfold MapIn.levelOf
  apply filter_length_lt_of_imp _ _ _ _ a ha
  · simp only [decide_eq_false_iff_not]; omega
  · simp
  · intro t _ ht
    simp only [decide_eq_true_eq] at ht ⊢; omega

theorem levelOf_mono' (p : MapIn) {a b : Nat} (h : a ≤ b) : p.levelOf a ≤ p.levelOf b := by
  unfold MapIn.levelOf
  apply filter_length_le_of_imp
  intro t _ ht
  simp only [decide_eq_true_eq] at ht ⊢; omega

theorem levelOf_pos (p : MapIn) (h0 : 0 ∈ p.starts) (k : Nat) : 0 < p.levelOf k := by
  unfold MapIn.levelOf
  apply List.length_pos_of_mem (a := 0)
  simp [h0]

theorem foldl_max_lt {β} (g : β → Nat) (l : List β) (a L : Nat) (ha : a < L) (hl : ∀ y ∈ l, g y < L) :
    l.foldl (fun m y => Nat.max m (g y)) a < L := by
  induction l generalizing a with
  | nil => exact ha
  | cons y ys ih =>
    simp only [List.foldl_cons]
    apply ih
    · have := hl y List.mem_cons_self
      exact Nat.max_lt.mpr ⟨ha, this⟩
    · intro z hz; exact hl z (List.mem_cons_of_mem _ hz)

theorem ins_map_src (p : MapIn) (o : OpRow) : o.ins.map p.src = opSrcs p.stems o := rfl

/-! ### operand occurrences -/

theorem occ_cons (st : Array (Option Nat)) (x : Nat) (o : OpRow) (r : List OpRow) :
    occ st x (o :: r) = (opSrcs st o).count x + occ st x r := by
  simp [occ]

theorem occ_drop (st : Array (Option Nat)) (x : Nat) (ops : List OpRow) (k : Nat) (o : OpRow) (hk : ops[k]? = some o) :
    occ st x (ops.drop k) = (opSrcs st o).count x + occ st x (ops.drop (k + 1)) := by
  obtain ⟨hlt, he⟩ := List.getElem?_eq_some_iff.mp hk
  rw [List.drop_eq_getElem_cons hlt, occ_cons, he]

theorem occ_zero_not_mem (st : Array (Option Nat)) (x : Nat) (l : List OpRow) (h : occ st x l = 0) :
    ∀ o ∈ l, x ∉ opSrcs st o := by
  induction l with
  | nil => intro o ho; cases ho
  | cons a r ih =>
    rw [occ_cons] at h
    intro o ho
    rcases List.mem_cons.mp ho with rfl | ho
    · exact List.count_eq_zero.mp (by omega)
    · exact ih (by omega) o ho

/-- no occurrence from row `k` on: no reader from row `k` on -/
theorem occ_zero_no_use (p : MapIn) (x k : Nat) (h : occ p.stems x (p.ops.drop k) = 0) :
    ∀ j, usedAt p j x → j < k := by
  intro j ⟨o, ho, hx⟩
  rcases Nat.lt_or_ge j k with hlt | hge
  · exact hlt
  · exfalso
    obtain ⟨hlt, he⟩ := List.getElem?_eq_some_iff.mp ho
    have hm : o ∈ p.ops.drop k := by
      rw [List.mem_drop_iff_getElem]
      exact ⟨j - k, by omega, by simp only [Nat.add_sub_cancel' hge]; exact he⟩
    exact occ_zero_not_mem _ _ _ h o hm hx


/-! ### consequences of `ProgOK` -/
section
variable {p : MapIn} (hp : ProgOK p)
include hp

theorem ProgOK.zero_mem_starts : 0 ∈ p.starts := by
  have := hp.starts.1
  cases hs : p.starts with
  | nil => rw [hs] at this; cases this
  | cons a r => rw [hs] at this; simp at this; subst this; exact List.mem_cons_self

/-- `dfn` of a written line is the level of its writer -/
theorem ProgOK.dfn_out {k : Nat} {o : OpRow} (hk : p.ops[k]? = some o) (ht : o.out ≠ p.ix.tmp) :
    p.dfn o.out = p.levelOf k := by
  unfold MapIn.dfn
  rw [hp.first k o hk ht]

/-- no row writes the zero slot, an input slot or a scratch-2 slot: indices ≥ zero other than tmp -/
theorem ProgOK.dfn_zero_of_ge {x : Nat} (hx : p.ix.zero ≤ x) (ht : x ≠ p.ix.tmp) : p.dfn x = 0 := by
  unfold MapIn.dfn
  cases hf : p.ops.findIdx? (fun o => o.out == x) with
  | none => rfl
  | some k =>
    exfalso
    obtain ⟨hlt, hpk, _⟩ := List.findIdx?_eq_some_iff_getElem.1 hf
    have hm : p.ops[k] ∈ p.ops := List.getElem_mem hlt
    have he : p.ops[k].out = x := by simpa using hpk
    rcases hp.out_ok _ hm with h | h
    · exact ht (he ▸ h)
    · omega

/-- an operand owns memory before its reader runs, is inside the tables and is not a scratch slot -/
theorem ProgOK.operand_alloc {k : Nat} {o : OpRow} (hk : p.ops[k]? = some o) {x : Nat} (hx : x ∈ opSrcs p.stems o) :
    AllocAt p k x ∧ x < p.ix.len ∧ x ≠ p.ix.tmp ∧ x ≠ p.ix.tmp2 := by
  obtain ⟨h1, h2, h3, h4, h5, h6⟩ := ix_vals p
  rcases hp.opnd k o hk x hx with h | h | ⟨hz, k', o', hlt, hk', ho'⟩
  · exact ⟨.inl h, by omega, by omega, by omega⟩
  · have := ppiSlots_range p h
    exact ⟨.inr (.inr (.inr (.inl h))), by omega, by omega, by omega⟩
  · exact ⟨.inr (.inr (.inr (.inr ⟨k', o', hlt, hk', ho', by omega⟩))), by omega, by omega, by omega⟩

/-- the output of row `k` owns no memory before row `k` -/
theorem ProgOK.out_fresh {k : Nat} {o : OpRow} (hk : p.ops[k]? = some o) (ht : o.out ≠ p.ix.tmp) :
    ¬ AllocAt p k o.out ∧ o.out < p.ix.zero := by
  obtain ⟨h1, h2, h3, h4, h5, h6⟩ := ix_vals p
  have hz : o.out < p.ix.zero := by
    rcases hp.out_ok o (List.mem_of_getElem? hk) with h | h
    · exact absurd h ht
    · exact h
  refine ⟨?_, hz⟩
  rintro (h | h | h | h | ⟨k', o', hlt, hk', ho', _⟩)
  · omega
  · omega
  · omega
  · have := ppiSlots_range p h; omega
  · have e1 := hp.first k o hk ht
    have e2 := hp.first k' o' hk' (by rw [ho']; exact ht)
    rw [ho'] at e2
    rw [e1] at e2
    simp only [Option.some.injEq] at e2
    omega

/-- a signal that is dead at a level start ended its life in an earlier level -/
theorem ProgOK.dead_last {reuse : Bool} {a x : Nat} (ha : a ∈ p.starts) (hd : Dead p reuse a x) :
    p.last x < p.levelOf a := by
  obtain ⟨_, hpin, ⟨k0, hk0⟩, hall⟩ := hd
  have hnp : p.pinned x = false := by
    simp only [pinnedM, Bool.or_eq_false_iff] at hpin
    exact hpin.1.1
  have hk0a := hall k0 hk0
  obtain ⟨o0, ho0, hx0⟩ := hk0
  have hdfn : p.dfn x < p.levelOf a := by
    rcases hp.opnd k0 o0 ho0 x hx0 with h | h | ⟨hz, k', o', hlt, hk', ho'⟩
    · rw [h, pinnedM_zero] at hpin; cases hpin
    · rw [pinnedM_ppi p h] at hpin; cases hpin
    · have ht : o'.out ≠ p.ix.tmp := by
        have := (ix_vals p).2.1; have := (ix_vals p).1; omega
      have := hp.dfn_out hk' ht
      rw [ho'] at this
      rw [this]
      have h1 : p.levelOf k' ≤ p.levelOf k0 := levelOf_mono' p (by omega)
      have h2 := levelOf_lt_start p ha hk0a
      omega
  unfold MapIn.last MapIn.lastW
  rw [hnp]
  simp only [Bool.false_eq_true, if_false]
  apply foldl_max_lt _ _ _ _ hdfn
  intro ok hok
  rw [List.mem_filter] at hok
  obtain ⟨hm, hc⟩ := hok
  have hu : usedAt p ok.2 x := by
    refine ⟨ok.1, mem_zipIdx_getElem? hm, ?_⟩
    rw [ins_map_src] at hc
    simpa using hc
  exact levelOf_lt_start p ha (hall ok.2 hu)

end

end KV
