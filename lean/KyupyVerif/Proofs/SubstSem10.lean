import KyupyVerif.Proofs.SubstSem9
import KyupyVerif.Proofs.RemoveLine9
/-! Helper lemmas for C10: the certificate for the circuit `substituteCore` builds (before dangling logic is removed) under
`noIgnoredB` / `implOKB`, and `substitute` = that circuit with dangling logic removed, embedded into it. -/
namespace KV.Transform
open KV

theorem wfNoTrail_of_WFm {nn : NNet} (w : WFm nn) : nn.wfNoTrail = true := by
  simp only [NNet.wfNoTrail, Bool.and_eq_true, beq_iff_eq, decide_eq_true_eq, List.all_eq_true]
  refine ⟨⟨⟨⟨w.names, w.nodup⟩, fun i hi => w.io i hi⟩, ?_⟩, ?_⟩
  · simp only [NNet.pinsBack, List.all_eq_true, List.mem_range, Bool.and_eq_true, decide_eq_true_eq, beq_iff_eq]
    intro l hl
    obtain ⟨b1, b2, b3, b4⟩ := w.back l hl
    exact ⟨⟨⟨b1, b2⟩, b3⟩, b4⟩
  · simp only [NNet.pinsFwd, List.all_eq_true, List.mem_range, Bool.and_eq_true]
    intro i hi
    constructor
    · intro p _
      cases hp : (nn.net.node i).inPin p with
      | none => rfl
      | some l =>
        obtain ⟨a1, a2, a3⟩ := w.fwdIn i hi p l hp
        simp [a1, a2, a3]
    · intro p _
      cases hp : (nn.net.node i).outPin p with
      | none => rfl
      | some l =>
        obtain ⟨a1, a2, a3⟩ := w.fwdOut i hi p l hp
        simp [a1, a2, a3]

theorem noIgnoredB_spec (h : NNet) (c : Nat) (m : NNet) (hr : noIgnoredB h c m = true) :
    ∃ sh dn, implShape m = some sh ∧ sh.des = some dn ∧
      NoIgnored m (sh.inPorts.zip (padTo (h.net.node c).ins sh.inPorts.length)) := by
  unfold noIgnoredB at hr
  split at hr
  · exact absurd hr (by simp)
  · rename_i sh hs
    simp only [Bool.and_eq_true] at hr
    obtain ⟨h1, h2⟩ := hr
    cases hd : sh.des with
    | none => rw [hd] at h1; simp at h1
    | some dn =>
      refine ⟨sh, dn, hs, hd, ?_⟩
      intro p hp hsome
      have := List.all_eq_true.mp h2 p hp
      simpa [hsome] using this

theorem keepsAllB_noIgnored (h : NNet) (c : Nat) (m : NNet) (hr : keepsAllB h c m = true) : noIgnoredB h c m = true := by
  unfold keepsAllB at hr
  split at hr
  · rename_i sh h5 map dang hs hcore
    simp only [Bool.and_eq_true] at hr
    unfold noIgnoredB
    rw [hs]
    simp only [Bool.and_eq_true]
    exact ⟨hr.1.1, hr.1.2⟩
  · exact absurd hr (by simp)

/-- the certificate for the circuit before dangling logic is removed -/
theorem substituteCore_cert' (h m : NNet) (c : Nat) (hw : WF h) (mw : WF m) (hc : c < h.net.nodes.size)
    (hio : h.net.io.contains c = false) (hcf : (h.net.node c).isFork = false)
    (hr : noIgnoredB h c m = true) (hok : implOKB m = true)
    (h5 : NNet) (map : Array (Option Nat)) (dang : List (Option Nat)) (he : substituteCore h c m = some (h5, map, dang)) :
    ∃ sh dn, SubstCert h c m sh dn map h5 ∧ WF h5 ∧ dn < m.net.nodes.size := by
  obtain ⟨sh, dn, hs, hd, hni⟩ := noIgnoredB_spec h c m hr
  obtain ⟨k1, k2, k3, k4⟩ := implOKB_spec m mw sh dn hs hd hok
  obtain ⟨ct, w5⟩ := substituteCore_cert h c m sh dn hw mw hc (by simpa using hio) hcf hs hd k1 k2 k3 k4 hni h5 map dang he
  exact ⟨sh, dn, ct, w5, (implShape_des m mw sh dn hs hd).1⟩

theorem Ren.id_comp (r : Ren) : Ren.id.comp r = r := rfl

/-- `substitute` = the circuit `substituteCore` builds, the outputs of its copied forks made dense (`densify`: same nodes, same
    lines, only driver pins at forks change), with dangling logic removed; it embeds into the circuit `substituteCore` builds -/
theorem substitute_removing {α : Type _} (z : α) (neg : α → α) (prim : String → α → α → α → α → α)
    (h m h' : NNet) (c : Nat) (hw : WF h) (mw : WF m) (hc : c < h.net.nodes.size)
    (hio : h.net.io.contains c = false) (hcf : (h.net.node c).isFork = false)
    (hr : noIgnoredB h c m = true) (hok : implOKB m = true) (he : substitute h c m = some h') :
    ∃ h5 map dang sh dn r, substituteCore h c m = some (h5, map, dang) ∧ SubstCert h c m sh dn map h5 ∧ WF h5 ∧ dn < m.net.nodes.size ∧
      WFm h' ∧ Emb h5 h' r ∧
      (∀ j, j < h5.net.nodes.size → isSeqKind (h5.net.node j).kind = true → ∃ j', j' < h'.net.nodes.size ∧ r.node j' = j) ∧
      Ext z neg prim h5 h' r := by
  unfold substitute at he
  split at he
  · exact absurd he (by simp)
  · rename_i h5 map dang hcore
    obtain ⟨sh, dn, ct, w5, hdl⟩ := substituteCore_cert' h m c hw mw hc hio hcf hr hok h5 map dang hcore
    obtain ⟨dd, wd⟩ := densNN_dens (map.toList.filterMap id) h5 w5
    have he' : removeDangling (dang.length + h5.net.lines.size + 1) (densNN h5 (map.toList.filterMap id))
        (map.toList.filterMap id) dang = some h' := he
    have ho : ∀ x ∈ map.toList.filterMap id, x < (densNN h5 (map.toList.filterMap id)).net.nodes.size := by
      intro x hx
      obtain ⟨k, hk⟩ := mem_map_values map x hx
      rw [dd.nsize]
      exact ct.mapLt k x hk
    obtain ⟨w', r, e, sq, ex⟩ := removeDangling_ext z neg prim _ _ _ dang h' wd.toWFm ho he'
    have e5 : Emb h5 h' r := by
      have := ((dd.emb w5.toWFm).trans e).weaken (X' := fun _ => False) (fun j _ hx => by rcases hx with hx | hx <;> exact hx)
      rw [Ren.id_comp] at this
      exact this
    have ex5 : Ext z neg prim h5 h' r := by
      have := Ext.trans e (dd.ext w5.toWFm z neg prim) ex
      rw [Ren.id_comp] at this
      exact this
    refine ⟨h5, map, dang, sh, dn, r, hcore, ct, w5, hdl, w', e5, ?_, ex5⟩
    intro j hj hs
    exact sq j (by rw [dd.nsize]; exact hj) (by rw [dd.kind]; exact hs)

end KV.Transform

namespace KV.Transform
open KV

theorem WFm.of_wfNoTrail {nn : NNet} (h : nn.wfNoTrail = true) : WFm nn := by
  simp only [NNet.wfNoTrail, Bool.and_eq_true, beq_iff_eq, decide_eq_true_eq, List.all_eq_true] at h
  obtain ⟨⟨⟨⟨h1, h2⟩, h3⟩, h4⟩, h5⟩ := h
  refine ⟨h1, h2, h3, ?_, ?_, ?_⟩
  · intro l hl
    simp only [NNet.pinsBack, List.all_eq_true, List.mem_range, Bool.and_eq_true, decide_eq_true_eq, beq_iff_eq] at h4
    have := h4 l hl
    exact ⟨this.1.1.1, this.1.1.2, this.1.2, this.2⟩
  · intro i hi p l hp
    simp only [NNet.pinsFwd, List.all_eq_true, List.mem_range, Bool.and_eq_true] at h5
    have := (h5 i hi).1 p (getD_some_lt hp)
    simp only [NodeD.inPin, hp, Bool.and_eq_true, decide_eq_true_eq, beq_iff_eq] at this
    exact ⟨this.1.1, this.1.2, this.2⟩
  · intro i hi p l hp
    simp only [NNet.pinsFwd, List.all_eq_true, List.mem_range, Bool.and_eq_true] at h5
    have := (h5 i hi).2 p (getD_some_lt hp)
    simp only [NodeD.outPin, hp, Bool.and_eq_true, decide_eq_true_eq, beq_iff_eq] at this
    exact ⟨this.1.1, this.1.2, this.2⟩

theorem wf_wfNoTrail {nn : NNet} (h : nn.wf = true) : nn.wfNoTrail = true := wfNoTrail_of_WFm (WF.of_wf h).toWFm

end KV.Transform
