import KyupyVerif.Proofs.SubstGen16
/-! Helper lemmas for C10 (`substitute_sem_general`), part 17: the general certificate under the decidable side conditions
(`implGenOKB`, `noSelfIgnB`), for implementations with and without designated cell. -/
namespace KV.Transform
open KV

theorem implGenOKB_spec (m : NNet) (hok : implGenOKB m = true) :
    ∃ sh, implShape m = some sh ∧ m.net.io.Nodup ∧ (∀ p ∈ m.net.io, isSeqKind (m.net.node p).kind = false) ∧
    (∀ p ∈ m.net.io, 0 < (m.net.node p).ins.length → 0 < (m.net.node p).outs.length → (m.net.node p).isFork = true) := by
  unfold implGenOKB at hok
  split at hok
  · exact absurd hok (by simp)
  · rename_i sh hs
    simp only [Bool.and_eq_true, decide_eq_true_eq, List.all_eq_true, Bool.not_eq_true', Bool.or_eq_true] at hok
    obtain ⟨h2, h3⟩ := hok
    refine ⟨sh, hs, h2, fun p hp => (h3 p hp).1, fun p hp hi ho => ?_⟩
    rcases (h3 p hp).2 with h4 | h4
    · simp [hi, ho] at h4
    · exact h4

theorem noSelfIgnB_spec (h : NNet) (c : Nat) (m : NNet) (sh : Shape) (hs : implShape m = some sh) (hns : noSelfIgnB h c m = true) :
    ∀ ll, GhostLine h c m sh ll → (h.net.line ll).driver ≠ c := by
  rintro ll ⟨k, inn, h1, h2, h3⟩
  unfold noSelfIgnB at hns
  rw [hs] at hns
  have hmem : (inn, some ll) ∈ sh.inPorts.zip (padTo (h.net.node c).ins sh.inPorts.length) :=
    mem_zip_of_getElem? h2 (padTo_getElem? _ _ k ll h1)
  have := List.all_eq_true.mp hns _ hmem
  simp only [h3, Bool.not_true, Bool.false_or, bne_iff_ne, ne_eq] at this
  exact this

/-- **the general certificate for `substitute`**: every well-formed (up to trailing `None`s) host, every well-formed
    implementation satisfying `implGenOKB` — with or without designated cell, connected input pins may be ignored,
    outputs may be unconnected, dangling logic is removed -/
theorem substitute_general {α : Type _} (z : α) (neg : α → α) (prim : String → α → α → α → α → α) (h m h' : NNet) (c : Nat)
    (w : WFm h) (mw : WF m) (hc : c < h.net.nodes.size) (hio : c ∉ h.net.io) (hcf : (h.net.node c).isFork = false)
    (hok : implGenOKB m = true) (hns : noSelfIgnB h c m = true) (he : substitute h c m = some h') :
    ∃ sh map R, implShape m = some sh ∧ SubstG z neg prim h c m sh map h' R := by
  obtain ⟨sh, hs, k2, k3, k4⟩ := implGenOKB_spec m hok
  have hself := noSelfIgnB_spec h c m sh hs hns
  cases hd : sh.des with
  | none =>
    obtain ⟨map, R, g⟩ := substitute_general_none z neg prim h m h' c w mw hc hio hcf sh hs hd k2 k3 k4 hself he
    exact ⟨sh, map, R, hs, g⟩
  | some dn =>
    obtain ⟨map, R, g⟩ := substitute_general_some z neg prim h m h' c w mw hc hio hcf sh dn hs hd k2 k3 k4 hself he
    exact ⟨sh, map, R, hs, g⟩

end KV.Transform
