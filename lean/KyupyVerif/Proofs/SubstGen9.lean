import KyupyVerif.Proofs.SubstGen8
/-! Helper lemmas for C10 (`substitute_sem_general`), part 9: extension of labellings along an embedding **with prescribed values**
(`ExtP`): every labelling of the smaller circuit that is consistent outside a hole set `S` is the restriction of a
labelling of the larger circuit that is consistent outside `S`, and the values of the removed lines that are driven by
holes can be chosen at will (they are not constrained by any equation) — needed by `resolve_tlib_cells`, where a line
removed by one substitution may be driven by a cell that is substituted later. -/
namespace KV.Transform
open KV

def ExtP {α : Type _} (z : α) (neg : α → α) (prim : String → α → α → α → α → α) (nn nn' : NNet) (r : Ren) : Prop :=
  ∀ (S : Nat → Prop) (pre : Nat → α) (an' v' : Nat → α), ConsOff nn' (fun j' => S (r.node j')) z neg prim an' v' →
    ∃ an v, ConsOff nn S z neg prim an v ∧ (∀ l', l' < nn'.net.lines.size → v (r.line l') = v' l') ∧
      (∀ j', j' < nn'.net.nodes.size → an (r.node j') = an' j') ∧
      (∀ l, l < nn.net.lines.size → (¬ ∃ l', l' < nn'.net.lines.size ∧ r.line l' = l) → S (nn.net.line l).driver → v l = pre l)

theorem ExtP.refl {α : Type _} (z : α) (neg : α → α) (prim : String → α → α → α → α → α) (nn : NNet) : ExtP z neg prim nn nn Ren.id :=
  fun _ _ an' v' hc => ⟨an', v', hc, fun _ _ => rfl, fun _ _ => rfl, fun l hl hn _ => absurd ⟨l, hl, rfl⟩ hn⟩

theorem ExtP.trans {α : Type _} {z : α} {neg : α → α} {prim : String → α → α → α → α → α} {a b c : NNet} {r1 r2 : Ren}
    (e1 : Emb a b r1) (e2 : Emb b c r2) (h1 : ExtP z neg prim a b r1) (h2 : ExtP z neg prim b c r2) :
    ExtP z neg prim a c (r1.comp r2) := by
  intro S pre an' v' hc
  obtain ⟨anb, vb, cb, eb1, eb2, eb3⟩ := h2 (fun j => S (r1.node j)) (fun l => pre (r1.line l)) an' v' hc
  obtain ⟨ana, va, ca, ea1, ea2, ea3⟩ := h1 S pre anb vb cb
  refine ⟨ana, va, ca, fun l' hl' => ?_, fun j' hj' => ?_, ?_⟩
  · show va (r1.line (r2.line l')) = v' l'
    rw [ea1 _ (e2.lineLt l' hl'), eb1 l' hl']
  · show ana (r1.node (r2.node j')) = an' j'
    rw [ea2 _ (e2.nodeLt j' hj'), eb2 j' hj']
  · intro l hl hn hS
    by_cases hi : ∃ lb, lb < b.net.lines.size ∧ r1.line lb = l
    · obtain ⟨lb, hlb, e⟩ := hi
      subst e
      rw [ea1 lb hlb]
      apply eb3 lb hlb
      · rintro ⟨l', hl', e'⟩
        exact hn ⟨l', hl', by show r1.line (r2.line l') = _; rw [e']⟩
      · show S (r1.node (b.net.line lb).driver)
        rw [← (e1.drv lb hlb).2.1]; exact hS
    · exact ea3 l hl hi hS

/-- extension with prescribed values over an embedding in which the in-lines of the driver of a removed line survive -/
theorem ext_of_embP {α : Type _} (z : α) (neg : α → α) (prim : String → α → α → α → α → α) (nn nn' : NNet) (r : Ren)
    (w : WFr nn) (w' : WFm nn') (e : Emb nn nn' r)
    (hsurv : ∀ l, l < nn.net.lines.size → (¬ ∃ l', l' < nn'.net.lines.size ∧ r.line l' = l) →
      ∀ k l0, (nn.net.node (nn.net.line l).driver).inPin k = some l0 → ∃ l0', l0' < nn'.net.lines.size ∧ r.line l0' = l0) :
    ExtP z neg prim nn nn' r := by
  intro S pre an' v' hc
  haveI : DecidablePred S := fun _ => Classical.propDecidable _
  let invL : Nat → Option Nat := fun l => (List.range nn'.net.lines.size).find? (fun l' => r.line l' == l)
  let invN : Nat → Option Nat := fun j => (List.range nn'.net.nodes.size).find? (fun j' => r.node j' == j)
  let an : Nat → α := fun j => match invN j with | some j' => an' j' | none => z
  let vb : Nat → α := fun l => match invL l with | some l' => v' l' | none => z
  let v : Nat → α := fun l => match invL l with
    | some l' => v' l'
    | none => if S (nn.net.line l).driver then pre l else lineEq nn.net (spN nn.net) z neg prim an vb l
  have hinvL : ∀ l', l' < nn'.net.lines.size → invL (r.line l') = some l' :=
    fun l' hl' => find?_inv _ r.line e.lineInj l' hl'
  have hinvN : ∀ j', j' < nn'.net.nodes.size → invN (r.node j') = some j' :=
    fun j' hj' => find?_inv _ r.node e.nodeInj j' hj'
  have hv : ∀ l', l' < nn'.net.lines.size → v (r.line l') = v' l' := by
    intro l' hl'; show (match invL (r.line l') with | some l' => v' l' | none => _) = _; rw [hinvL l' hl']
  have hvb : ∀ l', l' < nn'.net.lines.size → vb (r.line l') = v' l' := by
    intro l' hl'; show (match invL (r.line l') with | some l' => v' l' | none => _) = _; rw [hinvL l' hl']
  have ha : ∀ j', j' < nn'.net.nodes.size → an (r.node j') = an' j' := by
    intro j' hj'; show (match invN (r.node j') with | some j' => an' j' | none => _) = _; rw [hinvN j' hj']
  have hrem : ∀ l, (¬ ∃ l', l' < nn'.net.lines.size ∧ r.line l' = l) →
      v l = if S (nn.net.line l).driver then pre l else lineEq nn.net (spN nn.net) z neg prim an vb l := by
    intro l hni
    have hnone : invL l = none := find?_none_of _ r.line l hni
    show (match invL l with | some l' => v' l' | none => _) = _; rw [hnone]
  refine ⟨an, v, ?_, hv, ha, ?_⟩
  · apply e.extend S z neg prim an v
    · exact consOff_congr_vals w' _ z neg prim an' _ v' _ (fun j hj => (ha j hj).symm) (fun l hl => (hv l hl).symm) hc
    · intro l hl hni hnS
      rw [hrem l hni, if_neg hnS]
      apply lineEq_congr
      · rfl
      · rfl
      · rfl
      · intro k
        cases ho : (nn.net.node (nn.net.line l).driver).inPin k with
        | none => rfl
        | some l0 =>
          simp only [Option.map_some]
          obtain ⟨l0', hl0', e0⟩ := hsurv l hl hni k l0 ho
          rw [← e0, hv l0' hl0', hvb l0' hl0']
  · intro l _ hni hS
    rw [hrem l hni, if_pos hS]

/-- squeezing the outputs of forks: the same lines, the same labellings -/
theorem Dens.extP {a b : NNet} {V : Nat → Prop} (d : Dens a b V) (w : WFm a) {α : Type _} (z : α) (neg : α → α)
    (prim : String → α → α → α → α → α) : ExtP z neg prim a b Ren.id :=
  fun S _ an' v' hc => ⟨an', v', (d.consOff_iff w S z neg prim an' v').mp hc, fun _ _ => rfl, fun _ _ => rfl,
    fun l hl hn _ => absurd ⟨l, by rw [d.lsize]; exact hl, rfl⟩ hn⟩

/-- `removeDangling_ext` with prescribed values; the nodes outside the `only` set survive -/
theorem removeDangling_extP {α : Type _} (z : α) (neg : α → α) (prim : String → α → α → α → α → α) :
    ∀ (fuel : Nat) (nn : NNet) (own : List Nat) (stack : List (Option Nat)) (nn' : NNet),
    WFm nn → (∀ x ∈ own, x < nn.net.nodes.size) → removeDangling fuel nn own stack = some nn' →
    WFm nn' ∧ ∃ r, Emb nn nn' r ∧
      (∀ j, j < nn.net.nodes.size → j ∉ own → ∃ j', j' < nn'.net.nodes.size ∧ r.node j' = j) ∧
      (∀ j, j < nn.net.nodes.size → isSeqKind (nn.net.node j).kind = true → ∃ j', j' < nn'.net.nodes.size ∧ r.node j' = j) ∧
      ExtP z neg prim nn nn' r
  | 0, _, _, _, _, _, _, h => by simp [removeDangling] at h
  | fuel + 1, nn, own, [], nn', w, _, h => by
    simp only [removeDangling] at h
    cases h
    exact ⟨w, Ren.id, Emb.refl nn w.io (fun l hl => (w.back l hl).1), fun j hj _ => ⟨j, hj, rfl⟩, fun j hj _ => ⟨j, hj, rfl⟩,
      ExtP.refl z neg prim nn⟩
  | fuel + 1, nn, own, none :: rest, nn', w, ho, h => by
    simp only [removeDangling] at h
    exact removeDangling_extP z neg prim fuel nn own rest nn' w ho h
  | fuel + 1, nn, own, some root :: rest, nn', w, ho, h => by
    simp only [removeDangling] at h
    split at h
    · exact removeDangling_extP z neg prim fuel nn own rest nn' w ho h
    · rename_i hany
      split at h
      · exact removeDangling_extP z neg prim fuel nn own rest nn' w ho h
      · rename_i hio
        split at h
        · exact removeDangling_extP z neg prim fuel nn own rest nn' w ho h
        · rename_i hseq
          split at h
          · exact removeDangling_extP z neg prim fuel nn own rest nn' w ho h
          · rename_i hown
            split at h
            · exact absurd h (by simp)
            · rename_i net1 h1
              have hown' : root ∈ own := by simpa using hown
              have hr : root < nn.net.nodes.size := ho root hown'
              have hio' : root ∉ nn.net.io := by simpa using hio
              have houts := outs_all_none (by simpa using hany : (nn.net.node root).outs.any (·.isSome) = false)
              obtain ⟨w2, r2, e2, s2, ls2, hr2⟩ := removeRoot_emb nn w root hr hio' houts net1 h1
              have hdrv : ∀ l, l < nn.net.lines.size → (nn.net.line l).driver ≠ root := by
                intro l hl e0
                have := (w.back l hl).2.2.1
                rw [e0, houts] at this
                exact absurd this (by simp)
              have wr : WFr nn := ⟨w.names, w.nodup, w.io, fun l hl => ⟨(w.back l hl).1, (w.back l hl).2.1, (w.back l hl).2.2.1⟩,
                w.fwdIn, w.fwdOut⟩
              have x2 : ExtP z neg prim nn (delNode { nn with net := net1 } root) r2 := by
                apply ext_of_embP z neg prim nn _ r2 wr w2 e2
                intro l hl _ k l0 ho'
                obtain ⟨a1, a2, _⟩ := w.fwdIn _ (w.back l hl).1 k l0 ho'
                exact ls2 l0 a1 (by rw [a2]; exact hdrv l hl)
              have po := pinsOnly_removeLines _ _ _ _ h1
              have hs : (delNode { nn with net := net1 } root).net.nodes.size = nn.net.nodes.size - 1 := by
                simp [delNode, po.1.1]
              have ho2 : ∀ x ∈ own.filterMap (fun x => mvNode nn.net.nodes.size root (some x)),
                  x < (delNode { nn with net := net1 } root).net.nodes.size := by
                intro x hx
                rw [List.mem_filterMap] at hx
                obtain ⟨y, hy, e⟩ := hx
                have hy' := ho y hy
                rw [hs]
                simp only [mvNode, beq_iff_eq, Option.some.injEq] at e
                split at e
                · exact absurd e (by simp)
                · split at e
                  · cases e; omega
                  · cases e; omega
              obtain ⟨w3, r3, e3, t3, s3, x3⟩ := removeDangling_extP z neg prim fuel _ _ _ nn' w2 ho2 h
              -- a node of the intermediate circuit that is in the renamed `own` list comes from a node in `own`
              have hnown : ∀ j1, j1 < nn.net.nodes.size - 1 → r2.node j1 ∉ own →
                  j1 ∉ own.filterMap (fun x => mvNode nn.net.nodes.size root (some x)) := by
                intro j1 hj1 hno hm
                rw [List.mem_filterMap] at hm
                obtain ⟨y, hy, e⟩ := hm
                have hy' := ho y hy
                apply hno
                rw [hr2]
                simp only [mvNode, beq_iff_eq, Option.some.injEq] at e
                unfold nmN
                split at e
                · exact absurd e (by simp)
                · rename_i hyr
                  split at e
                  · rename_i hlast
                    cases e
                    rw [if_pos rfl, ← hlast]; exact hy
                  · rename_i hlast
                    cases e
                    rw [if_neg hyr]; exact hy
              refine ⟨w3, r2.comp r3, (EmbX.trans e2 e3).strengthen (fun j _ hc => by rcases hc with hc | hc <;> exact hc), ?_, ?_,
                ExtP.trans e2 e3 x2 x3⟩
              · intro j hj hno
                have hne : j ≠ root := fun e0 => hno (e0 ▸ hown')
                obtain ⟨j1, hj1, ej1⟩ := s2 j hj hne
                obtain ⟨j', hj', ej'⟩ := t3 j1 hj1 (hnown j1 (by rw [← hs]; exact hj1) (by rw [ej1]; exact hno))
                exact ⟨j', hj', by show r2.node (r3.node j') = j; rw [ej', ej1]⟩
              · intro j hj hsq
                have hne : j ≠ root := by
                  intro e0; subst e0
                  exact hseq hsq
                obtain ⟨j1, hj1, ej1⟩ := s2 j hj hne
                have hk := e2.kind j1 hj1
                rw [ej1] at hk
                obtain ⟨j', hj', ej'⟩ := s3 j1 hj1 (by rw [hk]; exact hsq)
                exact ⟨j', hj', by show r2.node (r3.node j') = j; rw [ej', ej1]⟩

end KV.Transform
