import KyupyVerif.Proofs.SubstStruct3
import KyupyVerif.Proofs.SubstSem3
/-! Helper lemmas for C10 (`substitute_sem`), structural part 4: in the result of `substitute` no two of the lines that
were written to the pins of the cell / the new nodes (copied lines, lines at the instance's pins) share an end point. -/
namespace KV.Transform
open KV

section pre
variable {h : NNet} {c : Nat} {m : NNet} {sh : Shape} {dn : Nat} {map : Array (Option Nat)} {h' : NNet}
variable (ct : SubstPre h c m sh dn map h')
include ct

theorem SubstPre.outLine_facts (k il : Nat) (hk : sh.outLines[k]? = some il) :
    ∃ rd, sh.outPorts[k]? = some rd ∧ il < m.net.lines.size ∧ (m.net.line il).reader = rd ∧ rd ∈ m.net.io ∧
      (m.net.node rd).ins.length ≠ 0 := by
  obtain ⟨rd, hrd, hpin⟩ := outLines_port ct.shape k il hk
  obtain ⟨hrio, hrins⟩ := (mem_outPorts ct.shape rd).mp (List.mem_of_getElem? hrd)
  obtain ⟨hil, hr, _⟩ := ct.mwf.fwdIn rd (ct.mwf.io rd hrio) 0 il hpin
  exact ⟨rd, hrd, hil, hr, hrio, hrins⟩

/-- end point (reader side) of a written line -/
theorem SubstPre.uniqR (l1 l2 : Nat)
    (h1 : (h.net.lines.size ≤ l1 ∧ l1 < h'.net.lines.size) ∨ ∃ k, instIn h c k = some l1)
    (h2 : (h.net.lines.size ≤ l2 ∧ l2 < h'.net.lines.size) ∨ ∃ k, instIn h c k = some l2)
    (e1 : (h'.net.line l1).reader = (h'.net.line l2).reader) (e2 : (h'.net.line l1).rpin = (h'.net.line l2).rpin) : l1 = l2 := by
  -- the three kinds of collisions
  have newnew : ∀ t1 t2 (ht1 : t1 < (copiedLines m map).length) (ht2 : t2 < (copiedLines m map).length),
      (h'.net.line (h.net.lines.size + t1)).reader = (h'.net.line (h.net.lines.size + t2)).reader →
      (h'.net.line (h.net.lines.size + t1)).rpin = (h'.net.line (h.net.lines.size + t2)).rpin → t1 = t2 := by
    intro t1 t2 ht1 ht2 e1 e2
    obtain ⟨hi1, xd1, xr1, _, hr1, hl1⟩ := ct.new_fields t1 ht1
    obtain ⟨hi2, xd2, xr2, _, hr2, hl2⟩ := ct.new_fields t2 ht2
    rw [hl1, hl2] at e1 e2
    dsimp only at e1 e2
    subst e1
    have := ct.pinU _ _ hi1 hi2 (ct.mapInj _ _ _ hr1 hr2) e2
    exact (List.getElem_inj copiedLines_nodup).mp this
  have newin : ∀ t (ht : t < (copiedLines m map).length) k ll, instIn h c k = some ll →
      (h'.net.line (h.net.lines.size + t)).reader = (h'.net.line ll).reader →
      (h'.net.line (h.net.lines.size + t)).rpin = (h'.net.line ll).rpin → False := by
    intro t ht k ll hll e1 e2
    obtain ⟨hi, xd, xr, hd, hr, hl⟩ := ct.new_fields t ht
    obtain ⟨inn, r, rp, hinn, htg, f1, f2⟩ := ct.inWire k ll hll
    have hin : inn ∈ sh.inPorts := List.mem_of_getElem? hinn
    rw [hl, f1] at e1; rw [hl, f2] at e2
    dsimp only at e1 e2
    subst e1
    rcases inTarget_cases htg with ⟨hlen, i0, hh, hmr, hrp⟩ | ⟨_, hmi, _⟩
    · obtain ⟨hi0, hdrv, hnone⟩ := ct.single_not_copied inn i0 hin hlen hh
      have := ct.pinU _ _ hi hi0 (ct.mapInj _ _ _ hr hmr) (e2.trans hrp)
      rw [this, hdrv, hnone] at hd
      exact absurd hd (by simp)
    · have : (m.net.line (copiedLines m map)[t]).reader = inn := ct.mapInj _ _ _ hr hmi
      have b := (ct.mwf.back _ hi).2.2.2
      rw [this] at b
      have := getD_some_lt b
      have := ((mem_inPorts ct.shape inn).mp hin).2
      omega
  have inin : ∀ k1 k2 ll1 ll2, instIn h c k1 = some ll1 → instIn h c k2 = some ll2 →
      (h'.net.line ll1).reader = (h'.net.line ll2).reader → (h'.net.line ll1).rpin = (h'.net.line ll2).rpin → ll1 = ll2 := by
    intro k1 k2 ll1 ll2 hl1 hl2 e1 e2
    obtain ⟨inn1, r1, rp1, hinn1, htg1, f1, g1⟩ := ct.inWire k1 ll1 hl1
    obtain ⟨inn2, r2, rp2, hinn2, htg2, f2, g2⟩ := ct.inWire k2 ll2 hl2
    have hin1 : inn1 ∈ sh.inPorts := List.mem_of_getElem? hinn1
    have hin2 : inn2 ∈ sh.inPorts := List.mem_of_getElem? hinn2
    rw [f1, f2] at e1; rw [g1, g2] at e2
    subst e1; subst e2
    have key : inn1 = inn2 := by
      rcases inTarget_cases htg1 with ⟨hlen1, i1, hh1, hmr1, hrp1⟩ | ⟨hlen1, hmi1, hrp1⟩
      · rcases inTarget_cases htg2 with ⟨hlen2, i2, hh2, hmr2, hrp2⟩ | ⟨_, hmi2, _⟩
        · obtain ⟨hi1, hd1, _⟩ := ct.single_not_copied inn1 i1 hin1 hlen1 hh1
          obtain ⟨hi2, hd2, _⟩ := ct.single_not_copied inn2 i2 hin2 hlen2 hh2
          have := ct.pinU _ _ hi1 hi2 (ct.mapInj _ _ _ hmr1 hmr2) (hrp1.symm.trans hrp2)
          rw [← hd1, ← hd2, this]
        · obtain ⟨hi1, _, _⟩ := ct.single_not_copied inn1 i1 hin1 hlen1 hh1
          have : (m.net.line i1).reader = inn2 := ct.mapInj _ _ _ hmr1 hmi2
          have b := (ct.mwf.back _ hi1).2.2.2
          rw [this] at b
          have := getD_some_lt b
          have := ((mem_inPorts ct.shape inn2).mp hin2).2
          omega
      · rcases inTarget_cases htg2 with ⟨hlen2, i2, hh2, hmr2, _⟩ | ⟨_, hmi2, _⟩
        · obtain ⟨hi2, _, _⟩ := ct.single_not_copied inn2 i2 hin2 hlen2 hh2
          have : (m.net.line i2).reader = inn1 := ct.mapInj _ _ _ hmr2 hmi1
          have b := (ct.mwf.back _ hi2).2.2.2
          rw [this] at b
          have := getD_some_lt b
          have := ((mem_inPorts ct.shape inn1).mp hin1).2
          omega
        · exact ct.mapInj _ _ _ hmi1 hmi2
    subst key
    have hk : k1 = k2 := by
      rw [← inPorts_idxOf ct.shape ct.ioNodup k1 inn1 hinn1, ← inPorts_idxOf ct.shape ct.ioNodup k2 inn1 hinn2]
    subst hk
    rw [hl1] at hl2; exact Option.some.inj hl2
  have hsplit : ∀ l, h.net.lines.size ≤ l → l < h'.net.lines.size →
      ∃ t, ∃ _ : t < (copiedLines m map).length, l = h.net.lines.size + t := by
    intro l hl1 hl2
    rw [ct.lsize] at hl2
    exact ⟨l - h.net.lines.size, by omega, by omega⟩
  rcases h1 with ⟨a1, b1⟩ | ⟨k1, hk1⟩
  · obtain ⟨t1, ht1, e⟩ := hsplit l1 a1 b1
    subst e
    rcases h2 with ⟨a2, b2⟩ | ⟨k2, hk2⟩
    · obtain ⟨t2, ht2, e⟩ := hsplit l2 a2 b2
      subst e
      rw [newnew t1 t2 ht1 ht2 e1 e2]
    · exact absurd (newin t1 ht1 k2 l2 hk2 e1 e2) id
  · rcases h2 with ⟨a2, b2⟩ | ⟨k2, hk2⟩
    · obtain ⟨t2, ht2, e⟩ := hsplit l2 a2 b2
      subst e
      exact absurd (newin t2 ht2 k1 l1 hk1 e1.symm e2.symm) id
    · exact inin k1 k2 l1 l2 hk1 hk2 e1 e2

/-- end point (driver side) of a written line -/
theorem SubstPre.uniqD (l1 l2 : Nat)
    (h1 : (h.net.lines.size ≤ l1 ∧ l1 < h'.net.lines.size) ∨ ∃ k, instOut h c k = some l1)
    (h2 : (h.net.lines.size ≤ l2 ∧ l2 < h'.net.lines.size) ∨ ∃ k, instOut h c k = some l2)
    (e1 : (h'.net.line l1).driver = (h'.net.line l2).driver) (e2 : (h'.net.line l1).dpin = (h'.net.line l2).dpin) : l1 = l2 := by
  have outsLt : ∀ i, i < m.net.lines.size → (m.net.line i).dpin < (m.net.node (m.net.line i).driver).outs.length :=
    fun i hi => getD_some_lt (ct.mwf.back i hi).2.2.1
  have newnew : ∀ t1 t2 (ht1 : t1 < (copiedLines m map).length) (ht2 : t2 < (copiedLines m map).length),
      (h'.net.line (h.net.lines.size + t1)).driver = (h'.net.line (h.net.lines.size + t2)).driver →
      (h'.net.line (h.net.lines.size + t1)).dpin = (h'.net.line (h.net.lines.size + t2)).dpin → t1 = t2 := by
    intro t1 t2 ht1 ht2 e1 e2
    obtain ⟨hi1, xd1, xr1, hd1, _, hl1⟩ := ct.new_fields t1 ht1
    obtain ⟨hi2, xd2, xr2, hd2, _, hl2⟩ := ct.new_fields t2 ht2
    rw [hl1, hl2] at e1 e2
    dsimp only at e1 e2
    subst e1
    have := ct.poutU _ _ hi1 hi2 (ct.mapInj _ _ _ hd1 hd2) e2
    exact (List.getElem_inj copiedLines_nodup).mp this
  have newout : ∀ t (ht : t < (copiedLines m map).length) k ll, instOut h c k = some ll →
      (h'.net.line (h.net.lines.size + t)).driver = (h'.net.line ll).driver →
      (h'.net.line (h.net.lines.size + t)).dpin = (h'.net.line ll).dpin → False := by
    intro t ht k ll hll e1 e2
    obtain ⟨hi, xd, xr, hd, hr, hl⟩ := ct.new_fields t ht
    obtain ⟨il, d, dp, hil, htg, f1, f2⟩ := ct.outWire k ll hll
    obtain ⟨rd, _, hilt, hrd, hrio, hrins⟩ := ct.outLine_facts k il hil
    rw [hl, f1] at e1; rw [hl, f2] at e2
    dsimp only at e1 e2
    subst e1
    rcases outTarget_cases htg with ⟨_, hmr, hdp⟩ | ⟨hz, hmd, hdp⟩
    · have : (m.net.line (copiedLines m map)[t]).driver = (m.net.line il).reader := ct.mapInj _ _ _ hd hmr
      have h3 := outsLt _ hi
      rw [this] at h3
      omega
    · have := ct.poutU _ _ hi hilt (ct.mapInj _ _ _ hd hmd) (e2.trans hdp)
      rw [this, hrd] at hr
      have hj := ct.mwf.io rd hrio
      have := (ct.mapDom rd hj).mp (by rw [hr]; rfl)
      rw [hrd] at hz
      rcases this with h1 | h1 | h1
      · exact h1 hrio
      · omega
      · omega
  have outout : ∀ k1 k2 ll1 ll2, instOut h c k1 = some ll1 → instOut h c k2 = some ll2 →
      (h'.net.line ll1).driver = (h'.net.line ll2).driver → (h'.net.line ll1).dpin = (h'.net.line ll2).dpin → ll1 = ll2 := by
    intro k1 k2 ll1 ll2 hl1 hl2 e1 e2
    obtain ⟨il1, d1, dp1, hil1, htg1, f1, g1⟩ := ct.outWire k1 ll1 hl1
    obtain ⟨il2, d2, dp2, hil2, htg2, f2, g2⟩ := ct.outWire k2 ll2 hl2
    obtain ⟨rd1, hp1, hlt1, hr1, _, _⟩ := ct.outLine_facts k1 il1 hil1
    obtain ⟨rd2, hp2, hlt2, hr2, _, _⟩ := ct.outLine_facts k2 il2 hil2
    rw [f1, f2] at e1; rw [g1, g2] at e2
    subst e1; subst e2
    have key : rd1 = rd2 := by
      rcases outTarget_cases htg1 with ⟨_, hmr1, hdp1⟩ | ⟨_, hmd1, hdp1⟩
      · rcases outTarget_cases htg2 with ⟨_, hmr2, _⟩ | ⟨_, hmd2, hdp2⟩
        · rw [← hr1, ← hr2]; exact ct.mapInj _ _ _ hmr1 hmr2
        · have : (m.net.line il2).driver = (m.net.line il1).reader := ct.mapInj _ _ _ hmd2 hmr1
          have h3 := outsLt _ hlt2
          rw [this] at h3
          omega
      · rcases outTarget_cases htg2 with ⟨_, hmr2, hdp2⟩ | ⟨_, hmd2, hdp2⟩
        · have : (m.net.line il1).driver = (m.net.line il2).reader := ct.mapInj _ _ _ hmd1 hmr2
          have h3 := outsLt _ hlt1
          rw [this] at h3
          omega
        · have := ct.poutU _ _ hlt1 hlt2 (ct.mapInj _ _ _ hmd1 hmd2) (hdp1.symm.trans hdp2)
          rw [← hr1, ← hr2, this]
    subst key
    have hk : k1 = k2 := by
      obtain ⟨a1, b1⟩ := List.getElem?_eq_some_iff.mp hp1
      obtain ⟨a2, b2⟩ := List.getElem?_eq_some_iff.mp hp2
      exact (List.getElem_inj (outPorts_nodup ct.shape ct.ioNodup)).mp (b1.trans b2.symm)
    subst hk
    rw [hl1] at hl2; exact Option.some.inj hl2
  have hsplit : ∀ l, h.net.lines.size ≤ l → l < h'.net.lines.size →
      ∃ t, ∃ _ : t < (copiedLines m map).length, l = h.net.lines.size + t := by
    intro l hl1 hl2
    rw [ct.lsize] at hl2
    exact ⟨l - h.net.lines.size, by omega, by omega⟩
  rcases h1 with ⟨a1, b1⟩ | ⟨k1, hk1⟩
  · obtain ⟨t1, ht1, e⟩ := hsplit l1 a1 b1
    subst e
    rcases h2 with ⟨a2, b2⟩ | ⟨k2, hk2⟩
    · obtain ⟨t2, ht2, e⟩ := hsplit l2 a2 b2
      subst e
      rw [newnew t1 t2 ht1 ht2 e1 e2]
    · exact absurd (newout t1 ht1 k2 l2 hk2 e1 e2) id
  · rcases h2 with ⟨a2, b2⟩ | ⟨k2, hk2⟩
    · obtain ⟨t2, ht2, e⟩ := hsplit l2 a2 b2
      subst e
      exact absurd (newout t2 ht2 k1 l1 hk1 e1.symm e2.symm) id
    · exact outout k1 k2 l1 l2 hk1 hk2 e1 e2

end pre
end KV.Transform
