import KyupyVerif.Proofs.GridLanes
/-! CPU vs GPU-kernel code path of the stimulus assignment (`WaveSim.s_to_c` vs `wave_assign_gpu`): thresholds, the three
cells of a work item, reading a region back (stale cells behind the terminator are irrelevant), the whole arrays. -/
namespace KV.WaveIO
open KV.Wave KV.Grid

/-! ### thresholds -/
/-- a logic value on which `!= 0` and `>= 0.5` agree: `0`, or at least one half -/
def FlagOK (den : Nat) (v : Int) : Prop := v = 0 ∨ (den : Int) ≤ 2 * v

instance (den : Nat) (v : Int) : Decidable (FlagOK den v) := by unfold FlagOK; exact inferInstance

theorem flags_agree_iff (den : Nat) (hden : 0 < den) (v : Int) : cpuFlag v = gpuFlag den v ↔ FlagOK den v := by
  unfold cpuFlag gpuFlag FlagOK
  by_cases h0 : v = 0
  · subst h0
    have : ¬ den = 0 := by omega
    simp [this]
  · by_cases h : (den : Int) ≤ 2 * v
    · simp [h0, h]
    · simp [h0, h]

/-! ### the three cells -/
theorem cpuCells_eq_gpuCells (i f : Bool) (t : T) : cpuCells i f t = gpuCells i f t := by
  cases i <;> cases f <;> rfl

theorem gpuCells_length (i f : Bool) (t : T) : (gpuCells i f t).length = 3 := by
  cases i <;> cases f <;> rfl

theorem gpuCells_getD (i f : Bool) (t : T) :
    gpuCells i f t = [(gpuCells i f t).getD 0 T.tmax, (gpuCells i f t).getD 1 T.tmax, (gpuCells i f t).getD 2 T.tmax] := by
  cases i <;> cases f <;> rfl

/-- the cells differ exactly as the flags do: with the same flags the two paths write the same three cells; the third
    cell is `TMAX` in every case -/
theorem cells_third (i f : Bool) (t : T) : (gpuCells i f t).getD 2 T.tmax = T.tmax := by
  cases i <;> cases f <;> rfl

/-! ### reading a region -/
theorem readWave_end (e : T) (rest : List T) (he : isEnd e = true) : readWave (e :: rest) = ⟨[], e⟩ := by
  simp [readWave, he]

theorem readWave_cons (x : T) (l : List T) (hx : isEnd x = false) :
    readWave (x :: l) = ⟨x :: (readWave l).ents, (readWave l).term⟩ := by
  simp [readWave, hx]

/-- entries without a terminator cell, then a terminator cell: whatever follows is not looked at -/
theorem readWave_prefix (pre : List T) (e : T) (rest : List T) (hpre : ∀ x ∈ pre, isEnd x = false)
    (he : isEnd e = true) : readWave (pre ++ e :: rest) = ⟨pre, e⟩ := by
  induction pre with
  | nil => exact readWave_end e rest he
  | cons x pre ih =>
    rw [List.cons_append, readWave_cons x _ (hpre x List.mem_cons_self),
      ih (fun y hy => hpre y (List.mem_cons_of_mem _ hy))]

/-- **reading is insensitive to stale cells behind the terminator** -/
theorem read_stale_irrelevant (pre : List T) (e : T) (s1 s2 : List T) (hpre : ∀ x ∈ pre, isEnd x = false)
    (he : isEnd e = true) : readWave (pre ++ e :: s1) = readWave (pre ++ e :: s2) := by
  rw [readWave_prefix pre e s1 hpre he, readWave_prefix pre e s2 hpre he]

/-- a stored waveform reads back, whatever lies behind it -/
theorem readWave_stored (w : Wv) (stale : List T) (hents : ∀ x ∈ w.ents, isEnd x = false) (hterm : isEnd w.term = true) :
    readWave (w.ents ++ w.term :: stale) = w := readWave_prefix w.ents w.term stale hents hterm

/-- the three assigned cells always contain their terminator: reading them ignores what follows … -/
theorem read_assign_stale (i f : Bool) (t : T) (stale : List T) :
    readWave (gpuCells i f t ++ stale) = readWave (gpuCells i f t) := by
  cases i <;> cases f <;> cases t <;> simp [gpuCells, readWave, isEnd]

/-- … and for a finite time the waveform read back is the stimulus waveform of the waveform model (`Wave.stimWave`) -/
theorem read_assign (i f : Bool) (τ : Int) (stale : List T) :
    readWave (gpuCells i f (T.fin τ) ++ stale) = stimWave i τ f := by
  cases i <;> cases f <;> simp [gpuCells, readWave, isEnd, stimWave]

/-! ### memory -/
theorem updI_comm {α} (m : Int → α) (a b : Int) (v w : α) (h : a ≠ b) :
    updI (updI m a v) b w = updI (updI m b w) a v := by
  funext j
  unfold updI
  by_cases h1 : j = a <;> by_cases h2 : j = b
  · exact absurd (h1.symm.trans h2) h
  · subst h1; simp [h]
  · subst h2; simp [Ne.symm h]
  · simp [h1, h2]

theorem rdCells_write3 (c : Col) (loc : Int) (v0 v1 v2 : T) (n : Nat) :
    rdCells (write3 c loc [v0, v1, v2]) loc (3 + n) = [v0, v1, v2] ++ rdCells c (loc + 3) n := by
  unfold rdCells
  rw [List.range_add, List.map_append, List.map_map]
  congr 1
  · have e1 : loc + ((1 : Nat) : Int) = loc + 1 := rfl
    have e2 : loc + ((2 : Nat) : Int) = loc + 2 := rfl
    have : List.range 3 = [0, 1, 2] := rfl
    rw [this]
    simp only [List.map_cons, List.map_nil, write3, updI, List.getD_cons_zero, List.getD_cons_succ]
    have h0 : loc + ((0 : Nat) : Int) = loc := by omega
    simp only [h0, e1, e2]
    have n1 : ¬ loc = loc + 2 := by omega
    have n2 : ¬ loc = loc + 1 := by omega
    have n3 : ¬ loc + 1 = loc + 2 := by omega
    simp [n1, n2, n3]
  · apply List.map_congr_left
    intro k _
    simp only [Function.comp, write3, updI]
    have a1 : ¬ loc + ((3 + k : Nat) : Int) = loc + 2 := by omega
    have a2 : ¬ loc + ((3 + k : Nat) : Int) = loc + 1 := by omega
    have a3 : ¬ loc + ((3 + k : Nat) : Int) = loc := by omega
    simp only [a1, a2, a3, if_false]
    congr 1
    omega

/-- **one work item.** Whatever the two memories held before, after the kernel thread has stored its three cells at
    `c_loc` in one and the CPU statements theirs in the other — with the same flags — the region reads back as the same
    waveform, for every region capacity ≥ 3: the cells behind the third one keep their old contents in both. -/
theorem assign_item_read (c1 c2 : Col) (loc : Int) (cap : Nat) (hcap : 3 ≤ cap) (i f : Bool) (t : T) :
    readWave (rdCells (write3 c1 loc (gpuCells i f t)) loc cap) =
      readWave (rdCells (write3 c2 loc (cpuCells i f t)) loc cap) := by
  obtain ⟨n, rfl⟩ : ∃ n, cap = 3 + n := ⟨cap - 3, by omega⟩
  rw [cpuCells_eq_gpuCells, gpuCells_getD i f t, rdCells_write3, rdCells_write3, ← gpuCells_getD,
    read_assign_stale, read_assign_stale]

/-- the raw cells: the three written cells are equal, every other cell keeps what the respective memory held -/
theorem assign_item_raw (c : Col) (loc : Int) (i f : Bool) (t : T) :
    write3 c loc (gpuCells i f t) = write3 c loc (cpuCells i f t) ∧
    ∀ a, ¬ (loc ≤ a ∧ a < loc + 3) → write3 c loc (gpuCells i f t) a = c a := by
  refine ⟨by rw [cpuCells_eq_gpuCells], fun a ha => ?_⟩
  unfold write3 updI
  have a1 : ¬ a = loc + 2 := by omega
  have a2 : ¬ a = loc + 1 := by omega
  have a3 : ¬ a = loc := by omega
  simp only [a1, a2, a3, if_false]

end KV.WaveIO
