import KyupyVerif.Proofs.SubstSem4
/-! Helper lemmas for C10 (`substitute_sem`), part 5: the equation of a line driven by a node of `node_map` in the result
is the equation of the corresponding line of the implementation (`eq_line`), and the lines at the output pins of the
instance carry what the output lines of the implementation carry (`eq_outline`). -/
namespace KV.Transform
open KV

/-! ### `spN` and `lineEq` in the cases that occur -/
theorem isSeq_eq (n : NodeD) : n.isSeq = isSeqKind n.kind := rfl

theorem spN_io (net : Net) (n : Nat) (h : n ∈ net.io) : spN net n = some n := by
  have : n ∈ net.sNodes := (mem_sNodes net n).mpr (Or.inl h)
  simp [spN, this]

theorem spN_nio (net : Net) (n : Nat) (h : n ∉ net.io) (hn : n < net.nodes.size) :
    spN net n = if (net.node n).isSeq then some n else none := by
  have hm := mem_sNodes net n
  simp only [spN, List.contains_iff_mem]
  by_cases hs : (net.node n).isSeq = true
  · have : n ∈ net.sNodes := by
      rw [hm]
      simp only [NodeD.isSeq, Bool.or_eq_true] at hs
      rcases hs with hs | hs
      · exact Or.inr (Or.inl ⟨hn, hs⟩)
      · exact Or.inr (Or.inr ⟨hn, hs⟩)
    simp [this, hs]
  · have : n ∉ net.sNodes := by
      rw [hm]
      simp only [NodeD.isSeq, Bool.or_eq_true, not_or] at hs
      simp [h, hs.1, hs.2]
    simp [this, hs]

section eqs
variable {α : Type _} (net : Net) (sp : Nat → Option Nat) (z : α) (neg : α → α) (prim : String → α → α → α → α → α)
  (a v : Nat → α) (l : Nat)

/-- a port (or any unclocked `s_node`) without driver carries its assigned value -/
theorem lineEq_src (p : Nat) (hs : sp (net.line l).driver = some p) (hq : (net.node (net.line l).driver).isSeq = false)
    (hin : (net.node (net.line l).driver).inPin 0 = none) : lineEq net sp z neg prim a v l = a p := by
  simp [lineEq, hs, hq, hin]

/-- a driven port fork passes its driver's value -/
theorem lineEq_portFork (p l0 : Nat) (hs : sp (net.line l).driver = some p) (hq : (net.node (net.line l).driver).isSeq = false)
    (hin : (net.node (net.line l).driver).inPin 0 = some l0) (hf : (net.node (net.line l).driver).isFork = true) :
    lineEq net sp z neg prim a v l = v l0 := by
  simp [lineEq, hs, hq, hin, hf]

/-- a fork that is no `s_node` passes what it reads at pin 0 (`z` when unconnected) -/
theorem lineEq_forkNS (hs : sp (net.line l).driver = none) (hf : (net.node (net.line l).driver).isFork = true) :
    lineEq net sp z neg prim a v l = (((net.node (net.line l).driver).inPin 0).map v).getD z := by
  simp only [lineEq, hs, hf, if_true]
  cases (net.node (net.line l).driver).inPin 0 <;> rfl
end eqs

theorem isFork_of_kind {n : NodeD} (h : n.kind = "__fork__") : n.isFork = true := by simp [NodeD.isFork, h]

section cert
variable {h : NNet} {c : Nat} {m : NNet} {sh : Shape} {dn : Nat} {map : Array (Option Nat)} {h' : NNet}
variable (ct : SubstCert h c m sh dn map h')
include ct

theorem SubstCert.own_not_io (j x : Nat) (hm : map.getD j none = some x) : x ∉ h'.net.io := by
  rw [ct.io']
  intro hx
  have h1 := ct.hwf.io x hx
  rcases ct.mapGe j x hm with e | e
  · subst e; exact ct.hio hx
  · omega

/-- an implementation port that is no input port carries `z` (`portVal` of a non-input) -/
theorem SubstCert.portVal_nonInput {α : Type _} (z : α) (v : Nat → α) (p : Nat) (hp : p ∉ sh.inPorts) :
    portVal h c sh z v p = z := by
  have : sh.inPorts.idxOf p = sh.inPorts.length := List.idxOf_eq_length hp
  have hn : instIn h c (sh.inPorts.idxOf p) = none := by
    rw [this]
    simp only [instIn, List.getD_eq_getElem?_getD]
    rw [List.getElem?_eq_none ct.insLen]; rfl
  simp [portVal, hn]

/-- the fork made for an input port with several readers reads the instance's line at pin 0 -/
theorem SubstCert.inPort_pin (j x : Nat) (hin : j ∈ sh.inPorts) (hm : map.getD j none = some x) :
    (h'.net.node x).ins.getD 0 none = instIn h c (sh.inPorts.idxOf j) := by
  have hlen := ct.inPort_mapped j x hin hm
  obtain ⟨hio, hins⟩ := (mem_inPorts ct.shape j).mp hin
  have hnoin : ∀ i, i < m.net.lines.size → (m.net.line i).reader = j → False := by
    intro i hi e
    have b := (ct.mwf.back i hi).2.2.2
    rw [e] at b
    have := getD_some_lt b
    omega
  cases hll : instIn h c (sh.inPorts.idxOf j) with
  | some ll =>
    obtain ⟨inn', r, rp, hinn', htg, e1, e2⟩ := ct.inWire _ ll hll
    have : inn' = j := by
      have := getElem?_idxOf_mem hin
      rw [this] at hinn'
      exact (Option.some.inj hinn').symm
    subst this
    have hlt : ll < h'.net.lines.size := by
      have := (ct.hwf.fwdIn c ct.hc _ ll hll).1
      rw [ct.lsize]; omega
    have b : (h'.net.node (h'.net.line ll).reader).ins.getD (h'.net.line ll).rpin none = some ll :=
      ct.backR ll hlt (Or.inr (ct.hwf.ptsBack_of_pin c _ ll ct.hc hll))
    rw [e1, e2] at b
    rcases inTarget_cases htg with ⟨h1, _⟩ | ⟨_, hmr, hrp⟩
    · omega
    · have : r = x := by rw [hm] at hmr; exact (Option.some.inj hmr).symm
      subst this
      rw [hrp] at b
      exact b
  | none =>
    cases hx : (h'.net.node x).ins.getD 0 none with
    | none => rfl
    | some l' =>
      exfalso
      rcases ct.own_pin_src j x 0 l' hm hx with ⟨t, ht, _, hr, _⟩ | ⟨k0, inn, hk0, hinn, hc⟩
      · exact hnoin _ (ct.new_fields t ht).1 hr
      · have hin' : inn ∈ sh.inPorts := List.mem_of_getElem? hinn
        rcases hc with ⟨hl1, i0, hh, hr, _⟩ | ⟨_, e, _⟩
        · exact hnoin _ (ct.single_not_copied inn i0 hin' hl1 hh).1 hr
        · subst e
          rw [inPorts_idxOf ct.shape ct.ioNodup k0 inn hinn, hk0] at hll
          exact absurd hll (by simp)

/-- **the equation of a line driven by a node of `node_map`** equals the equation of any line of the implementation
    driven from the same pin of the original node -/
theorem SubstCert.eq_line {α : Type _} (z : α) (neg : α → α) (prim : String → α → α → α → α → α)
    (an' v' anm vm : Nat → α) (ag : Agree ct v' vm)
    (hA : ∀ j x, j ∉ m.net.io → map.getD j none = some x → anm j = an' x)
    (hP : ∀ p ∈ m.net.io, anm p = portVal h c sh z v' p)
    (l' i x : Nat) (hm : map.getD (m.net.line i).driver none = some x)
    (hd' : (h'.net.line l').driver = x) (hp : (h'.net.line l').dpin = (m.net.line i).dpin) :
    lineEq h'.net (spN h'.net) z neg prim an' v' l' =
      lineEq (cutIns m (deadLine h c m sh)).net (spN (cutIns m (deadLine h c m sh)).net) z neg prim anm vm i := by
  have hj := ct.mapM _ x hm
  have hxlt := ct.mapLt _ x hm
  have hxio := ct.own_not_io _ x hm
  have hkind := ct.kind' _ x hm
  by_cases hio : (m.net.line i).driver ∈ m.net.io
  · -- a port: a fork in the result
    rw [if_pos hio] at hkind
    have hfork : (h'.net.node (h'.net.line l').driver).isFork = true := by rw [hd']; exact isFork_of_kind hkind
    have hsp' : spN h'.net (h'.net.line l').driver = none := by
      rw [hd', spN_nio h'.net x hxio hxlt]
      have := fork_not_seq _ (isFork_of_kind hkind)
      simp [NodeD.isSeq, this.1, this.2]
    rw [lineEq_forkNS _ _ z neg prim an' v' l' hsp' hfork, hd']
    have hspm : spN (cutIns m (deadLine h c m sh)).net ((cutIns m (deadLine h c m sh)).net.line i).driver =
        some (m.net.line i).driver := by
      rw [cutIns_line, cutIns_spN]; exact spN_io _ _ hio
    have hseqm : ((cutIns m (deadLine h c m sh)).net.node ((cutIns m (deadLine h c m sh)).net.line i).driver).isSeq = false := by
      rw [cutIns_line, isSeq_eq, cutIns_kind]; exact ct.portNotSeq _ hio
    by_cases hins : (m.net.node (m.net.line i).driver).ins.length = 0
    · -- input port with several readers
      have hin : (m.net.line i).driver ∈ sh.inPorts := (mem_inPorts ct.shape _).mpr ⟨hio, hins⟩
      have hpin0 : ((cutIns m (deadLine h c m sh)).net.node ((cutIns m (deadLine h c m sh)).net.line i).driver).inPin 0 = none := by
        rw [cutIns_line, cutIns_inPin]
        have : (m.net.node (m.net.line i).driver).inPin 0 = none := by
          simp only [NodeD.inPin, List.getD_eq_getElem?_getD]
          rw [List.getElem?_eq_none (by omega)]; rfl
        rw [this]; rfl
      rw [lineEq_src _ _ z neg prim anm vm i _ hspm hseqm hpin0, hP _ hio]
      simp only [NodeD.inPin]
      rw [ct.inPort_pin _ x hin hm]
      simp only [portVal]
      cases instIn h c (sh.inPorts.idxOf (m.net.line i).driver) <;> rfl
    · -- output port read inside the implementation
      have hnp : ¬ ((m.net.line i).driver ∈ m.net.io ∧ (m.net.node (m.net.line i).driver).ins.length = 0) := fun hc => hins hc.2
      have hr := ct.reads_eq _ x hm hnp v' vm ag 0
      rw [hr]
      have hnin : (m.net.line i).driver ∉ sh.inPorts := fun hc => hins ((mem_inPorts ct.shape _).mp hc).2
      have houts : 0 < (m.net.node (m.net.line i).driver).outs.length := by
        have := (ct.mapDom _ hj).mp (by rw [hm]; rfl)
        rcases this with h1 | h1 | h1
        · exact absurd hio h1
        · exact h1.2
        · omega
      have hfm : ((cutIns m (deadLine h c m sh)).net.node ((cutIns m (deadLine h c m sh)).net.line i).driver).isFork = true := by
        rw [cutIns_line]
        have := ct.portFork _ hio (by omega) houts
        rw [← (isDff_of_kind (cutIns_kind m (deadLine h c m sh) (m.net.line i).driver)).2.2] at this
        exact this
      cases hpin0 : ((cutIns m (deadLine h c m sh)).net.node (m.net.line i).driver).inPin 0 with
      | none =>
        have hpin0' : ((cutIns m (deadLine h c m sh)).net.node ((cutIns m (deadLine h c m sh)).net.line i).driver).inPin 0 = none := by
          rw [cutIns_line]; exact hpin0
        rw [lineEq_src _ _ z neg prim anm vm i _ hspm hseqm hpin0', hP _ hio, ct.portVal_nonInput z v' _ hnin]
        rfl
      | some l0 =>
        have hpin0' : ((cutIns m (deadLine h c m sh)).net.node ((cutIns m (deadLine h c m sh)).net.line i).driver).inPin 0 = some l0 := by
          rw [cutIns_line]; exact hpin0
        rw [lineEq_portFork _ _ z neg prim anm vm i _ l0 hspm hseqm hpin0' hfm]
        rfl
  · -- an internal node: copied with its kind
    rw [if_neg hio] at hkind
    apply lineEq_congr
    · rw [hd', cutIns_line, cutIns_kind]; exact hkind
    · rw [cutIns_line]; exact hp
    · rw [hd', cutIns_line, cutIns_spN, spN_nio h'.net x hxio hxlt, spN_nio m.net _ hio hj, isSeq_eq, isSeq_eq, hkind]
      split
      · simp only [Option.map_some]; rw [hA _ x hio hm]
      · rfl
    · intro k
      rw [hd', cutIns_line]
      exact ct.reads_eq _ x hm (fun hc => hio hc.1) v' vm ag k

end cert
end KV.Transform
