import KyupyVerif.Proofs.CircObjState
/-! C09: on a well-formed circuit `copy()` computes exactly the pickle round trip; hence it preserves `WFc`. -/
namespace KV.CircObj

/-! ## copy = the pickle round trip (on well-formed circuits) -/
section copy
variable {c : Circ}

/-- `acc` is a partially built copy of `c`: same node list positions, names and kinds -/
structure Mirrors (c acc : Circ) : Prop where
  wf : WFc0 acc
  nodes : acc.nodes = List.range c.nodes.length
  objs : ∀ j (h : j < c.nodes.length), (acc.nobj j).name = (c.nobj c.nodes[j]).name ∧ (acc.nobj j).kind = (c.nobj c.nodes[j]).kind

theorem Mirrors.lookup {acc : Circ} (m : Mirrors c acc) (wf : WFc c) {i : Nat} (hi : i ∈ c.nodes) :
    lookupNode acc (c.nobj i).name (c.nobj i).kind = some (c.nobj i).index := by
  obtain ⟨hk, hki⟩ := wf.node_at hi
  obtain ⟨o1, o2⟩ := m.objs _ hk
  rw [hki] at o1 o2
  have hmem : (c.nobj i).index ∈ acc.nodes := by rw [m.nodes]; simp [hk]
  unfold lookupNode
  by_cases hkf : (c.nobj i).kind = FORK
  · simp only [hkf, beq_self_eq_true, if_true]
    rw [lookup_eq_some m.wf.fkeys, ← o1]
    exact m.wf.forksComplete _ hmem (by rw [o2]; exact hkf)
  · have : ((c.nobj i).kind == FORK) = false := by simp [hkf]
    simp only [this, Bool.false_eq_true, if_false]
    rw [lookup_eq_some m.wf.ckeys, ← o1]
    exact m.wf.cellsComplete _ hmem (by rw [o2]; exact hkf)

def specOf (c : Circ) (l : Nat) : LSpec :=
  (((c.lobj l).driver.map fun d => (c.nobj d).index).getD 0, (c.lobj l).driverPin,
   ((c.lobj l).reader.map fun r => (c.nobj r).index).getD 0, (c.lobj l).readerPin)

theorem copyLine_eq {acc : Circ} (m : Mirrors c acc) (wf : WFc c) {l : Nat} (hl : l ∈ c.lines) :
    copyLine c acc l = setLine acc (specOf c l) := by
  obtain ⟨d, d1, d2, _⟩ := wf.ldrv l hl
  obtain ⟨r, r1, r2, _⟩ := wf.lrdr l hl
  have h1 : acc.nodes[(c.nobj d).index]? = some (c.nobj d).index := by rw [m.nodes]; simp [(wf.node_at d2).1]
  have h2 : acc.nodes[(c.nobj r).index]? = some (c.nobj r).index := by rw [m.nodes]; simp [(wf.node_at r2).1]
  simp [copyLine, setLine, specOf, d1, r1, m.lookup wf d2, m.lookup wf r2, h1, h2]

theorem mirrors_of_inv2 {done : List LSpec} {acc : Circ}
    (inv : Inv2 (c.nodes.map fun i => ((c.nobj i).name, (c.nobj i).kind)) done acc) : Mirrors c acc :=
  ⟨inv.wf, by simpa using inv.nodes, fun j h => by
    have := inv.objs j (by simpa using h)
    simpa [List.getElem_map] using this⟩

theorem copyLines_eq (wf : WFc c) (todo : List Nat) (done : List LSpec) (acc : Circ)
    (inv : Inv2 (c.nodes.map fun i => ((c.nobj i).name, (c.nobj i).kind)) done acc)
    (htodo : ∀ l ∈ todo, l ∈ c.lines)
    (hends : ∀ e ∈ todo.map (specOf c), e.1 < c.nodes.length ∧ e.2.2.1 < c.nodes.length)
    (hout : (done ++ todo.map (specOf c)).Pairwise fun a b => ¬ (a.1 = b.1 ∧ a.2.1 = b.2.1))
    (hin : (done ++ todo.map (specOf c)).Pairwise fun a b => ¬ (a.2.2.1 = b.2.2.1 ∧ a.2.2.2 = b.2.2.2)) :
    todo.foldl (copyLine c) acc = (todo.map (specOf c)).foldl setLine acc := by
  induction todo generalizing done acc with
  | nil => rfl
  | cons x rest ih =>
    simp only [List.foldl_cons, List.map_cons]
    rw [copyLine_eq (mirrors_of_inv2 inv) wf (htodo x (by simp))]
    have h1 : ∀ a ∈ done, ¬ (a.1 = (specOf c x).1 ∧ a.2.1 = (specOf c x).2.1) := fun a ha =>
      (List.pairwise_append.1 hout).2.2 a ha _ (by simp)
    have h2 : ∀ a ∈ done, ¬ (a.2.2.1 = (specOf c x).2.2.1 ∧ a.2.2.2 = (specOf c x).2.2.2) := fun a ha =>
      (List.pairwise_append.1 hin).2.2 a ha _ (by simp)
    have hstep := inv2_step inv (specOf c x) (by simpa using hends (specOf c x) (by simp)) h1 h2
    exact ih (done ++ [specOf c x]) _ hstep.2 (fun l hl => htodo l (by simp [hl]))
      (fun e he => hends e (by simp at he ⊢; exact Or.inr he)) (by simpa using hout) (by simpa using hin)

theorem mirrors_setIo {acc : Circ} (m : Mirrors c acc) {k : Nat} (hk : k < c.nodes.length) :
    setIo acc k = ioAppend acc k ∧ Mirrors c (ioAppend acc k) := by
  have h1 : acc.nodes[k]? = some k := by rw [m.nodes]; simp [hk]
  refine ⟨by simp [setIo, h1], ⟨?_, m.nodes, m.objs⟩⟩
  have w := m.wf
  refine ⟨w.nidx, w.lidx, w.nfresh, w.lfresh, w.ckeys, w.fkeys, w.cellsSound, w.forksSound, w.cellsComplete,
    w.forksComplete, w.ldrv, w.lrdr, w.outsBack, w.insBack, ?_⟩
  intro j hj
  simp only [ioAppend, List.mem_append, List.mem_singleton] at hj
  rcases hj with h | h
  · exact w.ioIn j h
  · subst h; show j ∈ acc.nodes; rw [m.nodes]; simp [hk]

theorem copyIo_eq (wf : WFc c) (ios : List Nat) (acc : Circ) (m : Mirrors c acc) (hios : ∀ i ∈ ios, i ∈ c.nodes) :
    ios.foldl (copyIo c) acc = (ios.map fun i => (c.nobj i).index).foldl setIo acc := by
  induction ios generalizing acc with
  | nil => rfl
  | cons i rest ih =>
    simp only [List.foldl_cons, List.map_cons]
    have hi := hios i (by simp)
    have hk := (wf.node_at hi).1
    have := mirrors_setIo m hk
    rw [this.1]
    have h2 : copyIo c acc i = ioAppend acc (c.nobj i).index := by simp [copyIo, m.lookup wf hi]
    rw [h2]
    exact ih _ this.2 (fun i' hi' => hios i' (by simp [hi']))

theorem copy_eq_pickle (wf : WFc c) : copy c = pickle c := by
  have ok := getState_ok wf
  have hlines : (getState c).lines = c.lines.map (specOf c) := rfl
  have hio : (getState c).io = c.io.map fun i => (c.nobj i).index := rfl
  have e1 : c.nodes.foldl (fun acc i => addNode acc (c.nobj i).name (c.nobj i).kind) empty =
      (getState c).nodes.foldl (fun acc p => addNode acc p.1 p.2) empty := by
    show _ = (c.nodes.map fun i => ((c.nobj i).name, (c.nobj i).kind)).foldl _ empty
    rw [List.foldl_map]
  have i1 := inv1_fold (getState c).nodes [] empty inv1_empty (by simpa using ok.names)
  simp only [List.nil_append] at i1
  have i2 : Inv2 (c.nodes.map fun i => ((c.nobj i).name, (c.nobj i).kind)) [] _ := inv2_of_inv1 i1
  have hlen : (getState c).nodes.length = c.nodes.length := by simp [getState]
  have e2 := copyLines_eq wf c.lines [] _ i2 (fun l hl => hl)
    (by rw [← hlines, ← hlen]; exact ok.ends)
    (by rw [← hlines]; simpa using ok.outPins) (by rw [← hlines]; simpa using ok.inPins)
  have i3 := inv2_fold _ (c.lines.map (specOf c)) [] _ i2 (by rw [← hlines]; exact ok.ends)
    (by rw [← hlines]; simpa using ok.outPins) (by rw [← hlines]; simpa using ok.inPins)
  simp only [List.nil_append] at i3
  have e3 := copyIo_eq wf c.io _ (mirrors_of_inv2 i3) wf.ioIn
  show List.foldl (copyIo c) (List.foldl (copyLine c)
      (List.foldl (fun acc i => addNode acc (c.nobj i).name (c.nobj i).kind) empty c.nodes) c.lines) c.io =
    List.foldl setIo (List.foldl setLine (List.foldl (fun acc p => addNode acc p.1 p.2) empty (getState c).nodes)
      (getState c).lines) (getState c).io
  rw [e1, e2, e3, hlines, hio]

theorem copy_wf (wf : WFc c) : WFc (copy c) := by rw [copy_eq_pickle wf]; exact pickle_wf wf

end copy
end KV.CircObj
