import KyupyVerif.Model.Encode
/-! Helper lemmas for C15 (bit lists, byte packing, chunking). Core Lean only. -/
namespace KV.Enc

/-! ### bit lists -/
@[simp] theorem bitsLE_length (w n : Nat) : (bitsLE w n).length = w := by
  induction w generalizing n with
  | zero => rfl
  | succ w ih => simp [bitsLE, ih]

theorem b2n_mod (n : Nat) : (n % 2 == 1).toNat = n % 2 := by
  rcases Nat.mod_two_eq_zero_or_one n with h | h <;> simp [h]

theorem ofBitsLE_bitsLE (w n : Nat) : ofBitsLE (bitsLE w n) = n % 2 ^ w := by
  induction w generalizing n with
  | zero => simp [bitsLE, ofBitsLE, Nat.mod_one]
  | succ w ih =>
    simp only [bitsLE, ofBitsLE, ih, b2n_mod]
    rw [Nat.pow_succ, Nat.mul_comm (2 ^ w) 2, Nat.mod_mul]

theorem ofBitsLE_append_false (l : List Bool) (k : Nat) : ofBitsLE (l ++ List.replicate k false) = ofBitsLE l := by
  induction l with
  | nil => induction k with
    | zero => rfl
    | succ k ih =>
      simp only [List.nil_append] at ih
      simp [List.replicate_succ, ofBitsLE, ih]
  | cons b l ih => simp [ofBitsLE, ih]

theorem ofBitsLE_lt (l : List Bool) : ofBitsLE l < 2 ^ l.length := by
  induction l with
  | nil => simp [ofBitsLE]
  | cons b l ih =>
    simp only [ofBitsLE, List.length_cons, Nat.pow_succ]
    cases b <;> simp <;> omega

theorem bitsLE_ofBitsLE (w : Nat) (l : List Bool) (h : l.length ≤ w) :
    bitsLE w (ofBitsLE l) = l ++ List.replicate (w - l.length) false := by
  induction w generalizing l with
  | zero => cases l with
    | nil => rfl
    | cons b l => simp at h
  | succ w ih =>
    cases l with
    | nil =>
      have := ih [] (Nat.zero_le _)
      simp only [ofBitsLE, List.length_nil, Nat.sub_zero, List.nil_append] at this ⊢
      simp [bitsLE, this, List.replicate_succ]
    | cons b l =>
      have hl : l.length ≤ w := by simpa using h
      have e1 : (b.toNat + 2 * ofBitsLE l) % 2 = b.toNat := by cases b <;> simp <;> omega
      have e2 : (b.toNat + 2 * ofBitsLE l) / 2 = ofBitsLE l := by cases b <;> simp <;> omega
      simp only [bitsLE, ofBitsLE, e1, e2, ih l hl, List.length_cons, Nat.succ_sub_succ]
      cases b <;> simp

theorem take_bitsLE (k w n : Nat) (h : k ≤ w) : (bitsLE w n).take k = bitsLE k n := by
  induction k generalizing w n with
  | zero => simp [bitsLE]
  | succ k ih =>
    cases w with
    | zero => omega
    | succ w => simp [bitsLE, ih w (n / 2) (by omega)]

theorem getD_bitsLE (w n i : Nat) : (bitsLE w n).getD i false = (decide (i < w) && (n / 2 ^ i % 2 == 1)) := by
  induction w generalizing n i with
  | zero => simp [bitsLE]
  | succ w ih =>
    cases i with
    | zero => simp [bitsLE]
    | succ i =>
      simp only [bitsLE, List.getD_cons_succ, ih, Nat.pow_succ, Nat.add_lt_add_iff_right]
      rw [Nat.mul_comm (2 ^ i) 2, ← Nat.div_div_eq_div_mul]

/-! ### bytes -/
@[simp] theorem packBytes_length (n : Nat) (bs : List Bool) : (packBytes n bs).length = n := by
  induction n generalizing bs with
  | zero => rfl
  | succ n ih => simp [packBytes, ih]

@[simp] theorem unpackBytes_length (bytes : List Nat) : (unpackBytes bytes).length = 8 * bytes.length := by
  induction bytes with
  | nil => rfl
  | cons x xs ih =>
    simp only [unpackBytes, List.flatMap_cons, List.length_append, bitsLE_length, List.length_cons] at ih ⊢
    omega

theorem getD_append_left' {α} (l₁ l₂ : List α) (i : Nat) (d : α) (h : i < l₁.length) :
    (l₁ ++ l₂).getD i d = l₁.getD i d := by
  simp [List.getD_eq_getElem?_getD, List.getElem?_append, h]
theorem getD_append_right' {α} (l₁ l₂ : List α) (i : Nat) (d : α) (h : l₁.length ≤ i) :
    (l₁ ++ l₂).getD i d = l₂.getD (i - l₁.length) d := by
  simp [List.getD_eq_getElem?_getD, List.getElem?_append, Nat.not_lt.mpr h]
theorem getD_take' {α} (l : List α) (n i : Nat) (d : α) (h : i < n) : (l.take n).getD i d = l.getD i d := by
  simp [List.getD_eq_getElem?_getD, h]
theorem getD_drop' {α} (l : List α) (n i : Nat) (d : α) : (l.drop n).getD i d = l.getD (n + i) d := by
  simp [List.getD_eq_getElem?_getD, List.getElem?_drop]
theorem getD_replicate' {α} (n i : Nat) (d : α) : (List.replicate n d).getD i d = d := by
  simp only [List.getD_eq_getElem?_getD, List.getElem?_replicate]; split <;> rfl
theorem getD_ge {α} (l : List α) (i : Nat) (d : α) (h : l.length ≤ i) : l.getD i d = d := by
  simp [List.getD_eq_getElem?_getD, List.getElem?_eq_none h]

/-- bit `p` of the unpacked bytes is bit `p % 8` of byte `p / 8` -/
theorem getD_unpackBytes (bytes : List Nat) (p : Nat) :
    (unpackBytes bytes).getD p false = (bytes.getD (p / 8) 0 / 2 ^ (p % 8) % 2 == 1) := by
  induction bytes generalizing p with
  | nil => simp [unpackBytes]
  | cons x xs ih =>
    simp only [unpackBytes, List.flatMap_cons] at ih ⊢
    by_cases h : p < 8
    · rw [getD_append_left' _ _ _ _ (by simpa using h), getD_bitsLE]
      have : p / 8 = 0 := by omega
      have h' : p % 8 = p := by omega
      simp [this, h', h]
    · have h8 : 8 ≤ p := Nat.not_lt.mp h
      rw [getD_append_right' _ _ _ _ (by simpa using h8), bitsLE_length, ih]
      have e1 : p / 8 = (p - 8) / 8 + 1 := by omega
      have e2 : p % 8 = (p - 8) % 8 := by omega
      simp [e1, e2]

/-- unpacking packed bits gives the bits back; padding lanes read `false` -/
theorem getD_unpack_pack (n : Nat) (bs : List Bool) (p : Nat) :
    (unpackBytes (packBytes n bs)).getD p false = (decide (p < 8 * n) && bs.getD p false) := by
  induction n generalizing bs p with
  | zero => simp [packBytes, unpackBytes]
  | succ n ih =>
    simp only [packBytes, unpackBytes, List.flatMap_cons] at ih ⊢
    have hl : (bs.take 8).length ≤ 8 := by simp; omega
    rw [bitsLE_ofBitsLE 8 _ hl]
    by_cases h : p < 8
    · rw [getD_append_left' _ _ _ _ (by simp; omega)]
      have hp : p < 8 * (n + 1) := by omega
      by_cases h2 : p < (bs.take 8).length
      · rw [getD_append_left' _ _ _ _ h2, getD_take' _ _ _ _ h]; simp [hp]
      · rw [getD_append_right' _ _ _ _ (Nat.not_lt.mp h2), getD_replicate']
        have : bs.length ≤ p := by simp at h2; omega
        rw [getD_ge _ _ _ this]; simp
    · have h8 : 8 ≤ p := Nat.not_lt.mp h
      have hlen : (List.take 8 bs ++ List.replicate (8 - (List.take 8 bs).length) false).length = 8 := by
        simp; omega
      rw [getD_append_right' _ _ _ _ (by omega), hlen, ih, getD_drop']
      have e : 8 + (p - 8) = p := by omega
      have e2 : (p - 8 < 8 * n) = (p < 8 * (n + 1)) := by apply propext; omega
      simp [e, e2]

/-! ### chunks -/
@[simp] theorem chunks_length {α} (n k : Nat) (l : List α) : (chunks n k l).length = k := by
  induction k generalizing l with
  | zero => rfl
  | succ k ih => simp [chunks, ih]

theorem chunks_flatMap {α β} (n : Nat) (f : α → List β) (l : List α) (h : ∀ x ∈ l, (f x).length = n) :
    chunks n l.length (l.flatMap f) = l.map f := by
  induction l with
  | nil => rfl
  | cons x xs ih =>
    have hx := h x (List.mem_cons_self)
    simp only [List.length_cons, chunks, List.flatMap_cons, List.map_cons]
    rw [List.take_left' hx, List.drop_left' hx, ih (fun y hy => h y (List.mem_cons_of_mem _ hy))]

theorem chunks_flatten {α} (n : Nat) (l : List (List α)) (h : ∀ x ∈ l, x.length = n) :
    chunks n l.length l.flatten = l := by
  have := chunks_flatMap n (fun x => x) l h
  simpa [List.flatMap_id] using this

/-! ### one row: mv -> bp -> mv -/

theorem colBit (row : List Nat) (b i : Nat) (hb : b < 3) :
    ((row.map fun x => (bitsLE 8 x).take 3).map (·.getD b false)).getD i false
      = (decide (i < row.length) && (row.getD i 0 / 2 ^ b % 2 == 1)) := by
  simp only [List.map_map, List.getD_eq_getElem?_getD, List.getElem?_map]
  by_cases h : i < row.length
  · simp only [List.getElem?_eq_getElem h, Option.map_some, Option.getD_some, Function.comp]
    rw [take_bitsLE 3 8 _ (by omega)]
    have := getD_bitsLE 3 row[i] b
    have hb' : b < (bitsLE 3 row[i]).length := by simpa using hb
    simp only [List.getD_eq_getElem?_getD, List.getElem?_eq_getElem hb', Option.getD_some] at this
    simp [this, h, hb]
  · simp [h]

theorem of3 (x : Nat) : ofBitsLE [x / 2 ^ 0 % 2 == 1, x / 2 ^ 1 % 2 == 1, x / 2 ^ 2 % 2 == 1] = x % 8 := by
  simp only [ofBitsLE, b2n_mod]; omega

theorem cdiv8_ge (P : Nat) : P ≤ 8 * cdiv P 8 := by unfold cdiv; omega

theorem range3 : List.range 3 = [0, 1, 2] := by decide

theorem bpToMvRow_mvToBpRow (row : List Nat) :
    bpToMvRow (cdiv row.length 8) (mvToBpRow (cdiv row.length 8) row)
      = row.map (· % 8) ++ List.replicate (8 * cdiv row.length 8 - row.length) 0 := by
  have hge := cdiv8_ge row.length
  apply List.ext_getElem
  · simp [bpToMvRow]; omega
  · intro i h1 h2
    have hi : i < 8 * cdiv row.length 8 := by simpa [bpToMvRow] using h1
    simp only [bpToMvRow, mvToBpRow, range3, List.getElem_map, List.getElem_range, List.map_cons, List.map_nil,
      getD_unpack_pack, colBit _ 0 _ (by omega), colBit _ 1 _ (by omega), colBit _ 2 _ (by omega), hi, decide_true, Bool.true_and]
    by_cases hp : i < row.length
    · rw [List.getElem_append_left (by simpa using hp)]
      simp only [hp, decide_true, Bool.true_and, List.getElem_map]
      have : row.getD i 0 = row[i] := by simp [List.getD_eq_getElem?_getD, List.getElem?_eq_getElem hp]
      rw [this]
      simpa using of3 row[i]
    · rw [List.getElem_append_right (by simpa using Nat.not_lt.mp hp)]
      simp [hp, ofBitsLE]

/-! ### arrays: mv -> bp -> mv -/

theorem wf_iff {α} (a : Arr α) : a.wf = true ↔ a.rows.length = a.lead.prod ∧ ∀ r ∈ a.rows, r.length = a.last := by
  simp [Arr.wf, List.all_eq_true]

theorem mvToBpRow_length (nb : Nat) (r : List Nat) : (mvToBpRow nb r).length = 3 := by simp [mvToBpRow]

theorem and7 (x : Nat) : x &&& 7 = x % 8 := Nat.and_two_pow_sub_one_eq_mod x 3

/-- mv -> bp -> mv on arrays with at least two axes -/
theorem roundtrip_nd (a : Arr Nat) (hwf : a.wf = true) (hl : a.lead ≠ []) :
    bpToMv (mvToBp a) = some ⟨a.lead, 8 * cdiv a.last 8,
      a.rows.map fun r => r.map (· &&& 7) ++ List.replicate (8 * cdiv a.last 8 - a.last) 0⟩ := by
  obtain ⟨hlen, hrow⟩ := (wf_iff a).mp hwf
  simp only [mvToBp, hl, if_false, bpToMv, List.getLast?_concat, List.dropLast_concat]
  rw [← hlen, chunks_flatMap 3 _ _ (fun r _ => mvToBpRow_length _ r)]
  simp only [List.map_map, Option.some.injEq, Arr.mk.injEq, true_and]
  apply List.map_congr_left
  intro r hr
  have := bpToMvRow_mvToBpRow r
  rw [hrow r hr] at this
  simp only [Function.comp, this, and7]


/-! ### pack / unpack of one item -/

theorem two_pow_pred (w : Nat) (hw : 0 < w) : 2 ^ w = 2 * 2 ^ (w - 1) := by
  cases w with
  | zero => omega
  | succ w => simp [Nat.pow_succ, Nat.mul_comm]

theorem toU_natCast (w n : Nat) (h : n < 2 ^ w) : toU w (n : Int) = n := by
  unfold toU
  rw [Int.ofNat_mod_ofNat, Nat.mod_eq_of_lt h]; simp

theorem toU_lt (w : Nat) (x : Int) : toU w x < 2 ^ w := by
  unfold toU
  have hpos : (0 : Int) < ((2 ^ w : Nat) : Int) := by
    have := Nat.two_pow_pos w; omega
  have h1 := Int.emod_nonneg x (Int.ne_of_gt hpos)
  have h2 := Int.emod_lt_of_pos x hpos
  omega

theorem toU_toS (w n : Nat) (h : n < 2 ^ w) : toU w (toS w n) = n := by
  unfold toS
  split
  · exact toU_natCast w n h
  · unfold toU
    rw [Int.sub_emod, Int.emod_self, Int.sub_zero, Int.emod_emod, Int.ofNat_mod_ofNat, Nat.mod_eq_of_lt h]; simp

theorem toS_toU (w : Nat) (x : Int) (hw : 0 < w)
    (hlo : -((2 ^ (w - 1) : Nat) : Int) ≤ x) (hhi : x < ((2 ^ (w - 1) : Nat) : Int)) : toS w (toU w x) = x := by
  have e := two_pow_pred w hw
  have hm := Nat.two_pow_pos (w - 1)
  unfold toS toU
  rw [e]
  generalize 2 ^ (w - 1) = m at *
  by_cases hx : 0 ≤ x
  · have : x % ((2 * m : Nat) : Int) = x := Int.emod_eq_of_lt hx (by omega)
    rw [this]
    have : x.toNat < m := by omega
    simp only [this, if_true]; omega
  · have h1 : x % ((2 * m : Nat) : Int) = x + ((2 * m : Nat) : Int) := by
      rw [← Int.add_emod_right x]
      exact Int.emod_eq_of_lt (by omega) (by omega)
    rw [h1]
    have : ¬ (x + ((2 * m : Nat) : Int)).toNat < m := by omega
    simp only [this, if_false]; omega

theorem padTo_length (w : Nat) (f : Bool) (bs : List Bool) : (padTo w f bs).length = w := by
  simp [padTo]; omega

theorem padTo_self (w : Nat) (f : Bool) (bs : List Bool) (h : bs.length = w) : padTo w f bs = bs := by
  simp [padTo, ← h]

theorem bitsLE_ofBitsLE_self (l : List Bool) : bitsLE l.length (ofBitsLE l) = l := by
  simpa using bitsLE_ofBitsLE l.length l (Nat.le_refl _)

/-- unsigned: pack ∘ unpack = id on the dtype's range -/
theorem packElem_unpackElem_u (w : Nat) (x : Int) (h0 : 0 ≤ x) (h1 : x < ((2 ^ w : Nat) : Int)) :
    packElem w false (unpackElem w x) = x := by
  simp only [packElem, unpackElem, Bool.false_eq_true, if_false]
  rw [padTo_self _ _ _ (bitsLE_length _ _), ofBitsLE_bitsLE, Nat.mod_eq_of_lt (toU_lt w x)]
  have : toU w x = x.toNat := by
    have := toU_natCast w x.toNat (by omega)
    rwa [Int.toNat_of_nonneg h0] at this
  rw [this]; omega

/-- signed: pack ∘ unpack = id on the dtype's range -/
theorem packElem_unpackElem_s (w : Nat) (x : Int) (hw : 0 < w)
    (hlo : -((2 ^ (w - 1) : Nat) : Int) ≤ x) (hhi : x < ((2 ^ (w - 1) : Nat) : Int)) :
    packElem w true (unpackElem w x) = x := by
  simp only [packElem, unpackElem, if_true]
  rw [padTo_self _ _ _ (bitsLE_length _ _), ofBitsLE_bitsLE, Nat.mod_eq_of_lt (toU_lt w x), toS_toU w x hw hlo hhi]

/-- unsigned: unpack ∘ pack = the bits truncated to `w` / zero-padded to `w` -/
theorem unpackElem_packElem_u (w : Nat) (bs : List Bool) :
    unpackElem w (packElem w false bs) = padTo w false bs := by
  simp only [packElem, unpackElem, Bool.false_eq_true, if_false]
  have hl := padTo_length w false bs
  have hlt := ofBitsLE_lt (padTo w false bs)
  rw [hl] at hlt
  rw [toU_natCast _ _ hlt]
  have := bitsLE_ofBitsLE_self (padTo w false bs)
  rwa [hl] at this

/-- signed: unpack ∘ pack = the bits truncated to `w` / padded to `w` with the last given bit -/
theorem unpackElem_packElem_s (w : Nat) (bs : List Bool) :
    unpackElem w (packElem w true bs) = padTo w ((bs.take w).getLastD false) bs := by
  simp only [packElem, unpackElem, if_true]
  generalize (bs.take w).getLastD false = f
  have hl := padTo_length w f bs
  have hlt := ofBitsLE_lt (padTo w f bs)
  rw [hl] at hlt
  rw [toU_toS _ _ hlt]
  have := bitsLE_ofBitsLE_self (padTo w f bs)
  rwa [hl] at this

/-! ### popcount, bit_in, cdiv -/

/-! popcount -/
def lutOK (lut : List Nat) : Bool :=
  lut.length == 256 && (List.range 256).all fun i => lut.getD i 0 == (bitsLE 8 i).count true

theorem onesOf_cons (x : Nat) (xs : List Nat) : onesOf (x :: xs) = (bitsLE 8 x).count true + onesOf xs := by
  simp [onesOf, unpackBytes, List.count_append]

theorem popcount_eq_ones (lut : List Nat) (h : lutOK lut = true) (a : List Nat) (ha : ∀ x ∈ a, x < 256) :
    popcountWith lut a = onesOf a := by
  simp only [lutOK, Bool.and_eq_true, List.all_eq_true, List.mem_range, beq_iff_eq] at h
  induction a with
  | nil => rfl
  | cons x xs ih =>
    rw [onesOf_cons, ← ih (fun y hy => ha y (List.mem_cons_of_mem _ hy))]
    have := h.2 x (ha x List.mem_cons_self)
    simp only [popcountWith, List.map_cons, List.sum_cons, this]

/-! bit_in -/
def bitLutOK (lut : List Nat) : Bool := (List.range 8).all fun k => lut.getD k 0 == 2 ^ (7 - k)

theorem bitIn_eq (lut : List Nat) (h : bitLutOK lut = true) (a : List Nat) (pos : Nat) :
    bitInWith lut a pos = a.getD (pos / 8) 0 &&& 2 ^ (7 - pos % 8) := by
  simp only [bitLutOK, List.all_eq_true, List.mem_range, beq_iff_eq] at h
  have e1 : pos >>> 3 = pos / 8 := by simp [Nat.shiftRight_eq_div_pow]
  have e2 : pos &&& 7 = pos % 8 := Nat.and_two_pow_sub_one_eq_mod pos 3
  simp only [bitInWith, e1, e2, h (pos % 8) (Nat.mod_lt _ (by omega))]

/-! cdiv -/
theorem cdiv_ceil (x y : Nat) (hy : 0 < y) : x ≤ cdiv x y * y ∧ cdiv x y * y < x + y := by
  unfold cdiv
  have h1 := Nat.div_add_mod (x + y - 1) y
  have h2 := Nat.mod_lt (x + y - 1) hy
  rw [Nat.mul_comm] at h1
  constructor <;> omega

/-! ### mvarray -/

theorem range_map_getD {α β} (l : List α) (d : α) (f : α → β) :
    (List.range l.length).map (fun i => f (l.getD i d)) = l.map f := by
  apply List.ext_getElem
  · simp
  · intro i h1 h2
    have hi : i < l.length := by simpa using h1
    simp [List.getD_eq_getElem?_getD, List.getElem?_eq_getElem hi]

theorem range_map_congr {β} (n : Nat) (f g : Nat → β) (h : ∀ i, i < n → f i = g i) :
    (List.range n).map f = (List.range n).map g := by
  apply List.map_congr_left; intro i hi; exact h i (List.mem_range.mp hi)

theorem any_len_false (ss : List (List Nat)) (S : Nat) (hu : ∀ s ∈ ss, s.length = S) :
    ss.any (·.length != S) = false := by
  rw [List.any_eq_false]; intro s hs; simp [hu s hs]

/-- more than one pattern, signal count ≠ 1: the result of `mvarray` -/
theorem mvarray_2d (tbl : List (Nat × Nat)) (ss : List (List Nat)) (S : Nat)
    (hu : ∀ s ∈ ss, s.length = S) (hP : 2 ≤ ss.length) (hS : S ≠ 1) :
    mvarray tbl ss = some ⟨[S], ss.length,
      (List.range S).map fun j => (ss.map (·.map (interpretWith tbl))).map (·.getD j 0)⟩ := by
  cases ss with
  | nil => simp at hP
  | cons s0 rest =>
    have h0 : s0.length = S := hu s0 List.mem_cons_self
    have hany := any_len_false (s0 :: rest) S hu
    have hgt : (s0 :: rest).length > 1 := by omega
    simp only [mvarray, h0, hany, Bool.false_eq_true, if_false, beq_iff_eq, hS, hgt, if_true]

theorem mvarray_single (tbl : List (Nat × Nat)) (s : List Nat) :
    mvarray tbl [s] = some ⟨[], s.length, [s.map (interpretWith tbl)]⟩ := by
  simp only [mvarray, List.any_cons, List.any_nil, bne_self_eq_false, Bool.or_false, Bool.false_eq_true, if_false,
    List.length_cons, List.length_nil, Nat.lt_irrefl, List.map_cons, List.map_nil, List.headD_cons, beq_iff_eq]
  split
  · rename_i h
    match s, h with
    | [c], _ => simp
  · simp

theorem mvarray_one_signal (tbl : List (Nat × Nat)) (ss : List (List Nat)) (hne : ss ≠ [])
    (hu : ∀ s ∈ ss, s.length = 1) :
    mvarray tbl ss = some ⟨[], ss.length, [ss.map fun s => interpretWith tbl (s.headD 0)]⟩ := by
  cases ss with
  | nil => exact absurd rfl hne
  | cons s0 rest =>
    have h0 : s0.length = 1 := hu s0 List.mem_cons_self
    have hany := any_len_false (s0 :: rest) 1 hu
    simp only [mvarray, h0, hany, Bool.false_eq_true, if_false, beq_self_eq_true, if_true, List.map_map,
      Option.some.injEq, Arr.mk.injEq, true_and, List.cons.injEq, and_true]
    apply List.map_congr_left
    intro s hs
    have := hu s hs
    match s, this with
    | [c], _ => simp

theorem mvarray_ragged (tbl : List (Nat × Nat)) (s0 : List Nat) (rest : List (List Nat))
    (h : ∃ s ∈ rest, s.length ≠ s0.length) : mvarray tbl (s0 :: rest) = none := by
  obtain ⟨s, hs, hne⟩ := h
  have : (s0 :: rest).any (·.length != s0.length) = true := by
    rw [List.any_eq_true]; exact ⟨s, List.mem_cons_of_mem _ hs, by simpa using hne⟩
  simp only [mvarray, this, if_true]

/-- the entry `[sig][pat]` of the 2-D result -/
theorem mvarray_entry (tbl : List (Nat × Nat)) (ss : List (List Nat)) (S : Nat)
    (hu : ∀ s ∈ ss, s.length = S) (sig pat c : Nat) (hc : ss[pat]?.bind (·[sig]?) = some c) :
    (((List.range S).map fun j => (ss.map (·.map (interpretWith tbl))).map (·.getD j 0))[sig]?.bind (·[pat]?))
      = some (interpretWith tbl c) := by
  cases hp : ss[pat]? with
  | none => simp [hp] at hc
  | some s =>
    simp only [hp, Option.bind_some] at hc
    have hmem : s ∈ ss := List.mem_of_getElem? hp
    have hsig : sig < S := by
      have := hu s hmem
      have h2 : sig < s.length := by
        rcases Nat.lt_or_ge sig s.length with h | h
        · exact h
        · simp [List.getElem?_eq_none h] at hc
      omega
    simp [List.getElem?_map, List.getElem?_range hsig, hp, List.getD_eq_getElem?_getD, hc]

/-! ### mv_str -/

/-- every value `interpret` can return has a render character -/
def tblOK (tbl : List (Nat × Nat)) (chars : List Nat) : Bool := tbl.all (·.2 < chars.length) && 1 < chars.length

theorem interp_lt (tbl : List (Nat × Nat)) (chars : List Nat) (h : tblOK tbl chars = true) (c : Nat) :
    interpretWith tbl c < chars.length := by
  simp only [tblOK, Bool.and_eq_true, List.all_eq_true, decide_eq_true_eq] at h
  unfold interpretWith
  induction tbl with
  | nil => simpa [List.lookup] using h.2
  | cons kv rest ih =>
    obtain ⟨k, v⟩ := kv
    simp only [List.lookup]
    split
    · simpa using h.1 (k, v) List.mem_cons_self
    · exact ih ⟨fun x hx => h.1 x (List.mem_cons_of_mem _ hx), h.2⟩

/-- canonical character of a character: render (interpret c) -/
def canon (tbl : List (Nat × Nat)) (chars : List Nat) (c : Nat) : Nat := chars.getD (interpretWith tbl c) 0

theorem mvStr_2d (tbl : List (Nat × Nat)) (chars delim : List Nat) (hok : tblOK tbl chars = true)
    (ss : List (List Nat)) (S : Nat) (hu : ∀ s ∈ ss, s.length = S) :
    mvStr chars delim ⟨[S], ss.length,
      (List.range S).map fun j => (ss.map (·.map (interpretWith tbl))).map (·.getD j 0)⟩
      = some (delim.intercalate (ss.map (·.map (canon tbl chars)))) := by
  have hlt := interp_lt tbl chars hok
  have h0 : 0 < chars.length := by
    simp only [tblOK, Bool.and_eq_true, decide_eq_true_eq] at hok; omega
  have hany : (((List.range S).map fun j => (ss.map (·.map (interpretWith tbl))).map (·.getD j 0)).any
      (·.any (· ≥ chars.length))) = false := by
    rw [List.any_eq_false]; intro r hr
    rw [Bool.not_eq_true, List.any_eq_false]; intro x hx
    simp only [List.mem_map, List.mem_range] at hr
    obtain ⟨j, _, rfl⟩ := hr
    simp only [List.map_map, List.mem_map, Function.comp] at hx
    obtain ⟨s, _, rfl⟩ := hx
    simp only [ge_iff_le, decide_eq_true_eq, Nat.not_le, List.getD_eq_getElem?_getD, List.getElem?_map]
    cases s[j]? with
    | none => simpa using h0
    | some c => simpa using hlt c
  simp only [mvStr, hany, Bool.false_eq_true, if_false, Option.some.injEq]
  congr 1
  rw [← range_map_getD ss [] (·.map (canon tbl chars))]
  apply range_map_congr
  intro p hp
  have hs : (ss.getD p []).length = S := by
    have : ss.getD p [] ∈ ss := by
      simp [List.getD_eq_getElem?_getD, List.getElem?_eq_getElem hp]
    exact hu _ this
  rw [← range_map_getD (ss.getD p []) 0 (canon tbl chars), hs, List.map_map]
  apply range_map_congr
  intro j hj
  have hj' : j < (ss.getD p []).length := by omega
  simp only [Function.comp, canon, List.getD_eq_getElem?_getD, List.getElem?_map, List.getElem?_eq_getElem hp,
    Option.map_some, Option.getD_some] at hj' ⊢
  simp [List.getElem?_eq_getElem hj']

theorem mvStr_1d (tbl : List (Nat × Nat)) (chars delim : List Nat) (hok : tblOK tbl chars = true) (s : List Nat) :
    mvStr chars delim ⟨[], s.length, [s.map (interpretWith tbl)]⟩ = some (s.map (canon tbl chars)) := by
  have hlt := interp_lt tbl chars hok
  have hany : ([s.map (interpretWith tbl)].any (·.any (· ≥ chars.length))) = false := by
    simp only [List.any_cons, List.any_nil, Bool.or_false]
    rw [List.any_eq_false]; intro x hx
    simp only [List.mem_map] at hx
    obtain ⟨c, _, rfl⟩ := hx
    simpa using hlt c
  simp only [mvStr, hany, Bool.false_eq_true, if_false, List.headD_cons, List.map_map]
  rfl

/-! ### plane layout -/

theorem mvToBpRow_getD (nb : Nat) (row : List Nat) (b : Nat) (hb : b < 3) :
    (mvToBpRow nb row).getD b [] = packBytes nb ((row.map fun x => (bitsLE 8 x).take 3).map (·.getD b false)) := by
  simp only [mvToBpRow, range3]
  match b, hb with
  | 0, _ => rfl
  | 1, _ => rfl
  | 2, _ => rfl

/-- byte `p / 8` of plane `b` holds pattern `p` in bit `p % 8` (least significant first); lanes `≥ P` read 0 -/
theorem plane_bit (row : List Nat) (b p : Nat) (hb : b < 3) (hp : p < 8 * cdiv row.length 8) :
    (((mvToBpRow (cdiv row.length 8) row).getD b []).getD (p / 8) 0 / 2 ^ (p % 8) % 2 == 1)
      = (decide (p < row.length) && (row.getD p 0 / 2 ^ b % 2 == 1)) := by
  rw [← getD_unpackBytes, mvToBpRow_getD _ _ _ hb, getD_unpack_pack, colBit _ _ _ hb]
  simp [hp]

end KV.Enc
