import KyupyVerif.Proofs.MemMapSpec
/-! Facts about the greedy levelisation `levelise` (hand model of `sim.py:235-255`) needed by `ProgOK`:
the reference counts are the operand occurrence counts (`levelise_refc`), the level starts are a well-formed
`level_starts` list (`levelise_startsOK`) and the last writer of a signal sits in a strictly earlier level than a
reader (`levelise_writer_before_reader`).

Method: `levelise n st (ops ++ [o]) = levStep st (levelise n st ops) (ops.length, o)` (`levelise_snoc`), an invariant
`LevInv` of the state after a prefix, and induction over prefixes (`snoc_ind`, `List.take`). -/
namespace KV

/-! ### small generic helpers -/

theorem snoc_ind {α : Type} {P : List α → Prop} (h0 : P [])
    (hs : ∀ (l : List α) (a : α), P l → P (l ++ [a])) : ∀ l, P l := by
  have h : ∀ l : List α, P l.reverse := by
    intro l
    induction l with
    | nil => exact h0
    | cons a l ih => rw [List.reverse_cons]; exact hs _ _ ih
  intro l
  have := h l.reverse
  rwa [List.reverse_reverse] at this

theorem getD_setIfInBounds_nat (a : Array Nat) (i x : Nat) (v d : Nat) :
    (a.setIfInBounds i v).getD x d = if i = x ∧ i < a.size then v else a.getD x d := by
  simp only [Array.getD_eq_getD_getElem?, Array.getElem?_setIfInBounds]
  by_cases h : i = x
  · subst h
    by_cases h2 : i < a.size
    · simp [h2]
    · simp [h2]
  · simp [h]

theorem take_succ_of_getElem? {α : Type} (l : List α) (i : Nat) (a : α) (h : l[i]? = some a) :
    l.take (i + 1) = l.take i ++ [a] := by
  rw [List.take_add_one, h]; rfl

theorem levelOfS_reverse (l : List Nat) (k : Nat) :
    levelOfS l.reverse k = (l.filter (· ≤ k)).length := by
  simp [levelOfS, List.filter_reverse]

theorem occ_snoc (st : Array (Option Nat)) (x : Nat) (ops : List OpRow) (o : OpRow) :
    occ st x (ops ++ [o]) = occ st x ops + (opSrcs st o).count x := by
  simp [occ]

/-! ### the step in normal form -/

/-- the bump test of `levStep`: some operand already sits in the current level -/
def bumpB (st : Array (Option Nat)) (s : LevSt) (op : OpRow) : Bool :=
  (opSrcs st op).any fun x => decide (s.cur ≤ s.levels.getD x 0)

def curNext (st : Array (Option Nat)) (s : LevSt) (op : OpRow) : Nat :=
  if bumpB st s op then s.cur + 1 else s.cur

theorem levStep_eq (st : Array (Option Nat)) (s : LevSt) (i : Nat) (op : OpRow) :
    levStep st s (i, op) =
      { levels := s.levels.setIfInBounds op.out (curNext st s op)
        refc := incs s.refc (opSrcs st op)
        cur := curNext st s op
        starts := if bumpB st s op then i :: s.starts else s.starts } := by
  simp [levStep, curNext, bumpB, opSrcs, incs, Bool.or_assoc]

theorem levelise_nil (n : Nat) (st : Array (Option Nat)) :
    levelise n st [] = { levels := Array.replicate n 0, refc := Array.replicate n 0, cur := 1, starts := [0] } := by
  simp [levelise]

theorem levelise_snoc (n : Nat) (st : Array (Option Nat)) (ops : List OpRow) (o : OpRow) :
    levelise n st (ops ++ [o]) = levStep st (levelise n st ops) (ops.length, o) := by
  simp [levelise, List.zipIdx_append, List.foldl_append]

/-! ### invariant of the state after `m` ops -/

structure LevInv (n m : Nat) (s : LevSt) : Prop where
  lsz : s.levels.size = n
  rsz : s.refc.size = n
  le_cur : ∀ x, s.levels.getD x 0 ≤ s.cur
  lt0 : m = 0 → ∀ x, s.levels.getD x 0 < s.cur
  cur_len : s.cur = s.starts.length
  pw : s.starts.Pairwise (· > ·)
  head0 : s.starts.reverse.head? = some 0
  bound : ∀ t ∈ s.starts, t = 0 ∨ t < m

theorem levInv_init (n : Nat) :
    LevInv n 0 { levels := Array.replicate n 0, refc := Array.replicate n 0, cur := 1, starts := [0] } := by
  have h : ∀ x, (Array.replicate n 0).getD x 0 = 0 := by
    intro x
    simp only [Array.getD_eq_getD_getElem?, Array.getElem?_replicate]
    split <;> rfl
  constructor <;> simp [h]

theorem bumpB_false_lt (st : Array (Option Nat)) (s : LevSt) (op : OpRow) (h : bumpB st s op = false)
    (x : Nat) (hx : x ∈ opSrcs st op) : s.levels.getD x 0 < s.cur := by
  unfold bumpB at h
  rw [List.any_eq_false] at h
  have := h x hx
  simpa using this

theorem bumpB_true_pos (st : Array (Option Nat)) (s : LevSt) (op : OpRow) (n m : Nat) (hI : LevInv n m s)
    (h : bumpB st s op = true) : 0 < m := by
  unfold bumpB at h
  rw [List.any_eq_true] at h
  obtain ⟨x, _, hx⟩ := h
  have hx : s.cur ≤ s.levels.getD x 0 := by simpa using hx
  cases m with
  | zero => have := hI.lt0 rfl x; omega
  | succ m => omega

theorem curNext_ge (st : Array (Option Nat)) (s : LevSt) (op : OpRow) : s.cur ≤ curNext st s op := by
  unfold curNext; split <;> omega

/-- a read operand sits strictly below the level the reading op is put into -/
theorem curNext_gt (st : Array (Option Nat)) (s : LevSt) (op : OpRow) (n m : Nat) (hI : LevInv n m s)
    (x : Nat) (hx : x ∈ opSrcs st op) : s.levels.getD x 0 < curNext st s op := by
  unfold curNext
  cases hb : bumpB st s op with
  | true => have := hI.le_cur x; simp only [if_true]; omega
  | false => simpa using bumpB_false_lt st s op hb x hx

theorem levInv_step (st : Array (Option Nat)) (s : LevSt) (op : OpRow) (n m : Nat) (hI : LevInv n m s) :
    LevInv n (m + 1) (levStep st s (m, op)) := by
  rw [levStep_eq]
  have hge := curNext_ge st s op
  constructor
  · simp [hI.lsz]
  · simp [incs_size, hI.rsz]
  · intro x
    simp only [getD_setIfInBounds_nat]
    have := hI.le_cur x
    split <;> omega
  · intro h; omega
  · cases hb : bumpB st s op with
    | true => simp [curNext, hb, hI.cur_len]
    | false => simp [curNext, hb, hI.cur_len]
  · cases hb : bumpB st s op with
    | true =>
      have hpos := bumpB_true_pos st s op n m hI hb
      simp only [if_true, List.pairwise_cons]
      refine ⟨?_, hI.pw⟩
      intro t ht
      have := hI.bound t ht
      omega
    | false => simpa using hI.pw
  · cases hb : bumpB st s op with
    | true =>
      have := hI.head0
      simp only [if_true, List.reverse_cons, List.head?_append, this]
      rfl
    | false => simpa using hI.head0
  · intro t ht
    cases hb : bumpB st s op with
    | true =>
      rw [hb] at ht
      simp only [if_true, List.mem_cons] at ht
      rcases ht with rfl | ht
      · omega
      · have := hI.bound t ht; omega
    | false =>
      rw [hb] at ht
      have := hI.bound t (by simpa using ht); omega

theorem levelise_inv (n : Nat) (st : Array (Option Nat)) (ops : List OpRow) :
    LevInv n ops.length (levelise n st ops) := by
  induction ops using snoc_ind with
  | h0 => rw [levelise_nil]; exact levInv_init n
  | hs l a ih =>
    rw [levelise_snoc, List.length_append]
    exact levInv_step st _ a n l.length ih

/-! ### reference counts -/

theorem levelise_refc_size (n : Nat) (st : Array (Option Nat)) (ops : List OpRow) :
    (levelise n st ops).refc.size = n := (levelise_inv n st ops).rsz

theorem levelise_refc (n : Nat) (st : Array (Option Nat)) (ops : List OpRow) (x : Nat) (hx : x < n) :
    (levelise n st ops).refc.getD x 0 = (occ st x ops : Int) := by
  induction ops using snoc_ind with
  | h0 =>
    rw [levelise_nil]
    simp [occ, hx]
  | hs l a ih =>
    rw [levelise_snoc, levStep_eq]
    simp only
    rw [incs_getD _ _ _ (by rw [levelise_refc_size]; exact hx), ih, occ_snoc]
    omega

/-! ### level starts -/

theorem levelise_startsOK (n : Nat) (st : Array (Option Nat)) (ops : List OpRow) :
    StartsOK (levelise n st ops).starts.reverse ops.length := by
  have hI := levelise_inv n st ops
  refine ⟨hI.head0, ?_, ?_⟩
  · rw [List.pairwise_reverse]; exact hI.pw
  · intro t ht
    have := hI.bound t (by simpa using ht)
    omega

/-! ### the level of an op is the value of `cur` right after it was processed -/

/-- level of op number `i` read off the (reversed) starts of the run over `ops` -/
def lvl (n : Nat) (st : Array (Option Nat)) (ops : List OpRow) (i : Nat) : Nat :=
  ((levelise n st ops).starts.filter (· ≤ i)).length

theorem levelOfS_levelise (n : Nat) (st : Array (Option Nat)) (ops : List OpRow) (i : Nat) :
    levelOfS (levelise n st ops).starts.reverse i = lvl n st ops i := levelOfS_reverse _ _

theorem lvl_snoc_lt (n : Nat) (st : Array (Option Nat)) (ops : List OpRow) (o : OpRow) (i : Nat)
    (hi : i < ops.length) : lvl n st (ops ++ [o]) i = lvl n st ops i := by
  unfold lvl
  rw [levelise_snoc, levStep_eq]
  simp only
  split
  · have : ¬ ops.length ≤ i := by omega
    simp [this]
  · rfl

theorem lvl_append_lt (n : Nat) (st : Array (Option Nat)) (ops ext : List OpRow) (i : Nat)
    (hi : i < ops.length) : lvl n st (ops ++ ext) i = lvl n st ops i := by
  induction ext using snoc_ind with
  | h0 => simp
  | hs l a ih =>
    rw [← List.append_assoc, lvl_snoc_lt _ _ _ _ _ (by rw [List.length_append]; omega), ih]

theorem lvl_snoc_self (n : Nat) (st : Array (Option Nat)) (ops : List OpRow) (o : OpRow) :
    lvl n st (ops ++ [o]) ops.length = (levelise n st (ops ++ [o])).cur := by
  have hI := levelise_inv n st (ops ++ [o])
  unfold lvl
  rw [hI.cur_len]
  congr 1
  rw [List.filter_eq_self]
  intro t ht
  have := hI.bound t ht
  rw [List.length_append, List.length_singleton] at this
  simp only [decide_eq_true_eq]
  omega

/-- level of op `k` = `cur` after the first `k + 1` ops -/
theorem lvl_eq_cur (n : Nat) (st : Array (Option Nat)) (ops : List OpRow) (k : Nat) (o : OpRow)
    (h : ops[k]? = some o) : lvl n st ops k = (levelise n st (ops.take (k + 1))).cur := by
  have hk : k < ops.length := by
    rcases List.getElem?_eq_some_iff.mp h with ⟨hk, _⟩; exact hk
  have hlen : (ops.take k).length = k := List.length_take_of_le (by omega)
  have e1 : lvl n st ops k = lvl n st (ops.take (k + 1) ++ ops.drop (k + 1)) k := by
    rw [List.take_append_drop]
  rw [e1, lvl_append_lt _ _ _ _ _ (by rw [List.length_take_of_le (by omega)]; omega)]
  rw [take_succ_of_getElem? ops k o h]
  have := lvl_snoc_self n st (ops.take k) o
  rw [hlen] at this
  exact this

theorem cur_take_succ (n : Nat) (st : Array (Option Nat)) (ops : List OpRow) (k : Nat) (o : OpRow)
    (h : ops[k]? = some o) :
    (levelise n st (ops.take (k + 1))).cur = curNext st (levelise n st (ops.take k)) o := by
  rw [take_succ_of_getElem? ops k o h, levelise_snoc, levStep_eq]

theorem levels_take_succ (n : Nat) (st : Array (Option Nat)) (ops : List OpRow) (k : Nat) (o : OpRow)
    (h : ops[k]? = some o) :
    (levelise n st (ops.take (k + 1))).levels =
      (levelise n st (ops.take k)).levels.setIfInBounds o.out (curNext st (levelise n st (ops.take k)) o) := by
  rw [take_succ_of_getElem? ops k o h, levelise_snoc, levStep_eq]

/-- the level written by op `k'` stays in `levels[o'.out]` while no later op writes that signal -/
theorem levels_keep (n : Nat) (st : Array (Option Nat)) (ops : List OpRow) (k' : Nat) (o' : OpRow)
    (h1 : ops[k']? = some o') (hout : o'.out < n) (d : Nat)
    (hnow : ∀ j oj, k' < j → j < k' + 1 + d → ops[j]? = some oj → oj.out ≠ o'.out)
    (hd : k' + 1 + d ≤ ops.length) :
    (levelise n st (ops.take (k' + 1 + d))).levels.getD o'.out 0 = (levelise n st (ops.take (k' + 1))).cur := by
  induction d with
  | zero =>
    rw [Nat.add_zero, levels_take_succ n st ops k' o' h1, cur_take_succ n st ops k' o' h1,
      getD_setIfInBounds_nat, (levelise_inv n st (ops.take k')).lsz]
    simp [hout]
  | succ d ih =>
    have hj : k' + 1 + d < ops.length := by omega
    have hget : ops[k' + 1 + d]? = some ops[k' + 1 + d] := List.getElem?_eq_getElem hj
    have hne := hnow (k' + 1 + d) _ (by omega) (by omega) hget
    rw [← Nat.add_assoc, levels_take_succ n st ops (k' + 1 + d) _ hget, getD_setIfInBounds_nat]
    rw [if_neg (by intro h; exact hne h.1)]
    exact ih (fun j oj a b c => hnow j oj a (by omega) c) (by omega)

theorem levelise_writer_before_reader (n : Nat) (st : Array (Option Nat)) (ops : List OpRow)
    (k' k : Nat) (o' o : OpRow) (hk : k' < k) (h1 : ops[k']? = some o') (h2 : ops[k]? = some o)
    (hout : o'.out < n) (hread : o'.out ∈ opSrcs st o)
    (hnow : ∀ j oj, k' < j → j < k → ops[j]? = some oj → oj.out ≠ o'.out) :
    levelOfS (levelise n st ops).starts.reverse k' < levelOfS (levelise n st ops).starts.reverse k := by
  have hklen : k < ops.length := by
    rcases List.getElem?_eq_some_iff.mp h2 with ⟨hk, _⟩; exact hk
  rw [levelOfS_levelise, levelOfS_levelise, lvl_eq_cur n st ops k' o' h1, lvl_eq_cur n st ops k o h2,
    cur_take_succ n st ops k o h2]
  obtain ⟨d, rfl⟩ : ∃ d, k = k' + 1 + d := ⟨k - (k' + 1), by omega⟩
  rw [← levels_keep n st ops k' o' h1 hout d hnow (by omega)]
  have hI := levelise_inv n st (ops.take (k' + 1 + d))
  exact curNext_gt st _ o n _ hI _ hread

end KV
