import KyupyVerif.Model.DefText
import KyupyVerif.Proofs.TextLex
/-! Scanner facts for the DEF text model: how each state's scanner reads one printed token
(`Lx s t x`: in state `s`, a blank, the text `x` and then white space is the token `t` with text `x`). -/
namespace KV.DefText
open KV.TextLex

/-- the rest of the text starts with a white-space character -/
def WsHead (R : List Char) : Prop := ∃ c R', R = c :: R' ∧ isWs c = true

/-- in state `s`: blank, `x`, white space  ↦  token `t` with text `x` -/
def Lx (s : St) (t : Tm) (x : Txt) : Prop :=
  ∀ R, WsHead R → nextD s (' ' :: (x ++ R)) = some (.tok t x, R)

theorem wsHead_cons_blank (R : List Char) : WsHead (' ' :: R) := ⟨' ', R, rfl, by decide⟩
theorem wsHead_nl : WsHead ['\n'] := ⟨'\n', [], rfl, by decide⟩
theorem wsHead_enc (ts : List Txt) (R : List Char) (h : WsHead R) : WsHead (enc ts ++ R) := by
  cases ts with
  | nil => simpa [enc] using h
  | cons t ts => exact ⟨' ', t ++ (enc ts ++ R), by simp [enc], by decide⟩

theorem enc_cons (t : Txt) (ts : List Txt) (R : List Char) : enc (t :: ts) ++ R = ' ' :: (t ++ (enc ts ++ R)) := by
  simp [enc]
theorem enc_nil (R : List Char) : enc [] ++ R = R := rfl
theorem enc_append (a b : List Txt) : enc (a ++ b) = enc a ++ enc b := by simp [enc]

/-! ## skipping the blank -/
theorem ignM_blank (c : Char) (R : List Char) (hc : c ≠ '#') : ignM (' ' :: c :: R) = some ([], c :: R) := by
  simp [ignM, isWs, hc]

theorem ignM_nonws (c : Char) (R : List Char) (hc : isWs c = false) : ignM (c :: R) = none := by
  simp [ignM, hc]

theorem idM_blank (X : List Char) : idM (' ' :: X) = none := by simp [idM, isWs]
theorem numberM_blank (X : List Char) : numberM (' ' :: X) = none := by
  simp [numberM, plus, spanP, isDigit]
theorem signedM_blank (X : List Char) : signedM (' ' :: X) = none := by
  simp [signedM, numberM_blank]
theorem orientM_blank (X : List Char) : orientM (' ' :: X) = none := by
  cases X with
  | nil => rfl
  | cons b r => simp [orientM, isNWES]
theorem stringM_blank (X : List Char) : stringM (' ' :: X) = none := by simp [stringM]
theorem headM_blank (X : List Char) : headM (' ' :: X) = none := by simp [headM]

/-- terminals that cannot start at a blank -/
def noBlank : Tm → Bool
  | .id | .number | .signed | .orient | .string | .headComment => true
  | _ => false

theorem run_blank (t : Tm) (h : noBlank t = true) (X : List Char) : t.run (' ' :: X) = none := by
  cases t <;> simp [noBlank] at h <;>
    simp [Tm.run, idM_blank, numberM_blank, signedM_blank, orientM_blank, stringM_blank, headM_blank]

theorem first_pre (pre post : List Tm) (t : Tm) (cs x r : List Char) (hpre : ∀ u ∈ pre, u.run cs = none)
    (ht : t.run cs = some (x, r)) : first L (pre ++ t :: post) cs = some (t, x, r) := by
  induction pre with
  | nil => simp [first, L, ht]
  | cons u pre ih =>
    have hu : u.run cs = none := hpre u (by simp)
    simp only [List.cons_append, first, L, hu]
    exact ih (fun v hv => hpre v (by simp [hv]))

/-- one blank in front of a character that is neither white space nor `#` is skipped -/
theorem next_skip (pre post : List Tm) (hpre : pre.all noBlank = true) (c : Char) (R : List Char) (hc : c ≠ '#') :
    next L (pre ++ .ign :: post) (' ' :: c :: R) = next L (pre ++ .ign :: post) (c :: R) := by
  apply next_ign L _ _ .ign [] (c :: R)
  · apply first_pre
    · intro u hu
      exact run_blank u (List.all_eq_true.mp hpre u hu) _
    · simp [Tm.run, ignM_blank c R hc]
  · rfl
  · simp

/-! ## a terminal cannot start at the token -/
theorem kw_chars_ok (k : Kw) : k.chars ≠ [] ∧ k.chars.all notWs = true := by
  cases k <;> exact ⟨by simp [Kw.chars], by decide⟩

theorem stripPrefix_none (a b R : List Char) (h : a.isPrefixOf b = false) (ha : a.all notWs = true) (hR : WsHead R) :
    stripPrefix a (b ++ R) = none := by
  induction a generalizing b with
  | nil => simp at h
  | cons x a ih =>
    simp only [List.all_cons, Bool.and_eq_true] at ha
    cases b with
    | nil =>
      obtain ⟨c, R', rfl, hc⟩ := hR
      have : x ≠ c := by
        intro e; subst e
        have := ha.1
        simp [notWs, hc] at this
      simp [stripPrefix, this]
    | cons y b =>
      simp only [List.cons_append, stripPrefix]
      by_cases e : x = y
      · subst e
        simp only [List.isPrefixOf, beq_self_eq_true, Bool.true_and] at h
        simp [ih b h ha.2]
      · simp [e]

/-- `u` cannot match a text that starts with `c0` / is `x` followed by white space (sound, not complete) -/
def failsAt (c0 : Char) (x : Txt) : Tm → Bool
  | .ign => !isWs c0
  | .headComment => c0 ≠ '#'
  | .lit k => !(k.chars.isPrefixOf x)
  | .xy => c0 ≠ 'X' && c0 ≠ 'Y'
  | .number => !isDigit c0 && c0 ≠ '.'
  | .signed => !isDigit c0 && c0 ≠ '.' && c0 ≠ '+' && c0 ≠ '-'
  | .string => c0 ≠ '"'
  | .id => c0 = '+' || isWs c0
  | .orient => !isNWES c0 && c0 ≠ 'F'

theorem numberM_none (c0 : Char) (X : List Char) (h1 : isDigit c0 = false) (h2 : c0 ≠ '.') : numberM (c0 :: X) = none := by
  simp [numberM, plus, spanP, h1, h2]

theorem failsAt_sound (c0 : Char) (x' : Txt) (u : Tm) (h : failsAt c0 (c0 :: x') u = true)
    (hx : (c0 :: x').all notWs = true) (R : List Char) (hR : WsHead R) : u.run (c0 :: x' ++ R) = none := by
  cases u with
  | ign => simp only [failsAt, Bool.not_eq_true'] at h; simp [Tm.run, ignM, h]
  | headComment => simp only [failsAt, ne_eq, decide_not, Bool.not_eq_true', decide_eq_false_iff_not] at h; simp [Tm.run, headM, h]
  | lit k =>
    simp only [failsAt, Bool.not_eq_true'] at h
    simp only [Tm.run, TextLex.lit]
    rw [stripPrefix_none k.chars (c0 :: x') R h (kw_chars_ok k).2 hR]
    rfl
  | xy => simp only [failsAt, ne_eq, decide_not, Bool.and_eq_true, Bool.not_eq_true', decide_eq_false_iff_not] at h; simp [Tm.run, xyM, h]
  | number =>
    simp only [failsAt, ne_eq, decide_not, Bool.and_eq_true, Bool.not_eq_true', decide_eq_false_iff_not] at h
    simp [Tm.run, numberM_none c0 _ h.1 h.2]
  | signed =>
    simp only [failsAt, ne_eq, decide_not, Bool.and_eq_true, Bool.not_eq_true', decide_eq_false_iff_not] at h
    simp [Tm.run, signedM, h.1.2, h.2, numberM_none c0 _ h.1.1.1 h.1.1.2]
  | string => simp only [failsAt, ne_eq, decide_not, Bool.not_eq_true', decide_eq_false_iff_not] at h; simp [Tm.run, stringM, h]
  | id =>
    simp only [failsAt, Bool.or_eq_true, decide_eq_true_eq] at h
    rcases h with h | h
    · simp [Tm.run, idM, h]
    · simp [Tm.run, idM, h]
  | orient =>
    simp only [failsAt, ne_eq, decide_not, Bool.and_eq_true, Bool.not_eq_true', decide_eq_false_iff_not] at h
    simp only [Tm.run, List.cons_append]
    cases hX : x' ++ R with
    | nil => rfl
    | cons b r => simp [orientM, h.1, h.2]

/-! ## the generic scanner lemma -/
/-- `ts = a ++ t :: b`, found by search -/
def splitAtTm (t : Tm) : List Tm → Option (List Tm × List Tm)
  | [] => none
  | u :: us => if u = t then some ([], us) else (splitAtTm t us).map fun p => (u :: p.1, p.2)

theorem splitAtTm_spec (t : Tm) (ts a b : List Tm) (h : splitAtTm t ts = some (a, b)) : ts = a ++ t :: b := by
  induction ts generalizing a with
  | nil => simp [splitAtTm] at h
  | cons u us ih =>
    simp only [splitAtTm] at h
    split at h
    · rename_i e; cases h; simp [e]
    · simp only [Option.map_eq_some_iff] at h
      obtain ⟨p, hp, he⟩ := h
      cases he
      rw [ih p.1 hp]; rfl

theorem nextD_of_next (s : St) (cs : List Char) (t : Tm) (x r : List Char) (h : next L s.1 cs = some (.tok t x, r))
    (hre : t = .id → s.2.find? (fun k => k.chars == x) = none) : nextD s cs = some (.tok t x, r) := by
  unfold nextD
  rw [h]
  cases t with
  | id => simp [hre rfl]
  | _ => rfl

/-- the scan list alone (before the re-typing of folded strings) -/
def LxRaw (ts : List Tm) (t : Tm) (x : Txt) : Prop :=
  ∀ R, WsHead R → next L ts (' ' :: (x ++ R)) = some (.tok t x, R)

theorem LxRaw_core (ts : List Tm) (t : Tm) (c0 : Char) (x' : Txt) (a b c d : List Tm) (hc0 : c0 ≠ '#')
    (hskip : ts = a ++ .ign :: b) (ha : a.all noBlank = true) (hsplit : ts = c ++ t :: d)
    (hpre : ∀ R, WsHead R → ∀ u ∈ c, u.run (c0 :: x' ++ R) = none)
    (ht : ∀ R, WsHead R → t.run (c0 :: x' ++ R) = some (c0 :: x', R))
    (hign : t.ign? = false) : LxRaw ts t (c0 :: x') := by
  intro R hR
  have h1 : next L ts (' ' :: (c0 :: x' ++ R)) = next L ts (c0 :: x' ++ R) := by
    rw [hskip]; exact next_skip a b ha c0 _ hc0
  rw [h1, hsplit]
  exact next_tok L _ _ t _ _ (first_pre c d t _ _ _ (hpre R hR) (ht R hR)) hign (by simp)

theorem Lx_of_raw (s : St) (t : Tm) (x : Txt) (h : LxRaw s.1 t x)
    (hre : t = .id → s.2.find? (fun k => k.chars == x) = none) : Lx s t x :=
  fun R hR => nextD_of_next s _ t x R (h R hR) hre

/-- a folded string terminal: the `ID` match is re-typed -/
theorem Lx_emb_of_raw (s : St) (k : Kw) (h : LxRaw s.1 .id k.chars)
    (hf : s.2.find? (fun k' => k'.chars == k.chars) = some k) : Lx s (.lit k) k.chars := by
  intro R hR
  unfold nextD
  rw [h R hR]
  simp [hf]

theorem Lx_core (s : St) (t : Tm) (c0 : Char) (x' : Txt) (a b c d : List Tm) (hc0 : c0 ≠ '#')
    (hskip : s.1 = a ++ .ign :: b) (ha : a.all noBlank = true) (hsplit : s.1 = c ++ t :: d)
    (hpre : ∀ R, WsHead R → ∀ u ∈ c, u.run (c0 :: x' ++ R) = none)
    (ht : ∀ R, WsHead R → t.run (c0 :: x' ++ R) = some (c0 :: x', R))
    (hign : t.ign? = false)
    (hre : t = .id → s.2.find? (fun k => k.chars == c0 :: x') = none) : Lx s t (c0 :: x') :=
  Lx_of_raw s t _ (LxRaw_core s.1 t c0 x' a b c d hc0 hskip ha hsplit hpre ht hign) hre

/-! ## literals scanned as themselves -/
/-- decidable side conditions for a string / fixed-text terminal `k` in the scan list `ts` -/
def checkLit (ts : List Tm) (k : Kw) : Bool :=
  match splitAtTm .ign ts, splitAtTm (.lit k) ts, k.chars with
  | some (a, _), some (c, _), c0 :: x' => a.all noBlank && c.all (failsAt c0 (c0 :: x')) && c0 ≠ '#'
  | _, _, _ => false

theorem Lx_lit (s : St) (k : Kw) (h : checkLit s.1 k = true) : Lx s (.lit k) k.chars := by
  unfold checkLit at h
  split at h
  · rename_i a b c d c0 x' h1 h2 h3
    simp only [Bool.and_eq_true, ne_eq, decide_not, Bool.not_eq_true', decide_eq_false_iff_not] at h
    have hk := (kw_chars_ok k).2
    rw [h3] at hk ⊢
    refine Lx_core s (.lit k) c0 x' a b c d h.2 (splitAtTm_spec _ _ _ _ h1) h.1.1 (splitAtTm_spec _ _ _ _ h2) ?_ ?_ rfl (by simp)
    · intro R hR u hu
      exact failsAt_sound c0 x' u (List.all_eq_true.mp h.1.2 u hu) hk R hR
    · intro R hR
      have := lit_append k.chars R
      rw [h3] at this
      simpa [Tm.run, h3] using this
  · simp at h

/-! ## name, number, orientation, string tokens -/
theorem wsHead_notWs (R : List Char) (hR : WsHead R) : ∀ c r', R = c :: r' → notWs c = false := by
  intro c r' e
  obtain ⟨c', R', rfl, hc⟩ := hR
  cases e
  simp [notWs, hc]

theorem vId_spec (x : Txt) (h : vId x = true) :
    ∃ c0 x', x = c0 :: x' ∧ c0 ≠ '+' ∧ c0 ≠ '#' ∧ isWs c0 = false ∧ (∀ y ∈ x', notWs y = true) ∧ (c0 :: x').all notWs = true := by
  cases x with
  | nil => simp [vId] at h
  | cons c0 x' =>
    simp only [vId, ne_eq, decide_not, Bool.and_eq_true, Bool.not_eq_true', decide_eq_false_iff_not] at h
    obtain ⟨⟨h1, h2⟩, h3⟩ := h
    have h3' := h3
    simp only [List.all_cons, Bool.and_eq_true, List.all_eq_true] at h3
    exact ⟨c0, x', rfl, h1, h2, by simpa [notWs] using h3.1, h3.2, h3'⟩

theorem idM_tok (c0 : Char) (x' R : List Char) (h1 : c0 ≠ '+') (h2 : isWs c0 = false) (h3 : ∀ y ∈ x', notWs y = true)
    (hR : WsHead R) : idM (c0 :: x' ++ R) = some (c0 :: x', R) := by
  simp only [List.cons_append, idM, h2, Bool.not_false, ne_eq, h1, not_false_eq_true, decide_true, Bool.and_self,
    ↓reduceIte, spanP_append notWs x' R h3 (wsHead_notWs R hR)]

theorem isOrient_spec (o : Txt) (h : isOrient o = true) :
    (∃ c, o = [c] ∧ isNWES c = true) ∨ (∃ c, o = ['F', c] ∧ isNWES c = true) := by
  match o, h with
  | [c], h => exact Or.inl ⟨c, rfl, by simpa [isOrient] using h⟩
  | [f, c], h =>
    simp only [isOrient, Bool.and_eq_true, decide_eq_true_eq] at h
    exact Or.inr ⟨c, by rw [h.1], h.2⟩

theorem orientM_tok (o : Txt) (h : isOrient o = true) (R : List Char) (hR : WsHead R) : orientM (o ++ R) = some (o, R) := by
  obtain ⟨w, R', rfl, hw⟩ := hR
  rcases isOrient_spec o h with ⟨c, rfl, hc⟩ | ⟨c, rfl, hc⟩
  · have : c ≠ 'F' := by intro e; subst e; simp [isNWES] at hc
    simp [orientM, this, hc, hw]
  · simp [orientM, hc, hw]

theorem ws_not_nwes (w : Char) (hw : isWs w = true) : isNWES w = false := by
  rcases (by simpa [isWs] using hw : (((w = ' ' ∨ w = '\t') ∨ w = '\x0c') ∨ w = '\r') ∨ w = '\n') with (((e | e) | e) | e) | e <;>
    (subst e; decide)

theorem orientM_none (x : Txt) (h : isOrient x = false) (hx : x.all notWs = true) (hne : x ≠ []) (R : List Char)
    (hR : WsHead R) : orientM (x ++ R) = none := by
  obtain ⟨w, R', rfl, hw⟩ := hR
  match x, h, hx, hne with
  | [c], h, hx, _ =>
    simp only [isOrient] at h
    by_cases e : c = 'F'
    · subst e
      cases R' <;> simp [orientM, ws_not_nwes w hw]
    · simp [orientM, e, h]
  | [f, c], h, hx, _ =>
    simp only [List.all_cons, List.all_nil, Bool.and_true, Bool.and_eq_true, notWs, Bool.not_eq_true'] at hx
    simp only [isOrient, Bool.and_eq_false_iff, decide_eq_false_iff_not] at h
    by_cases e : f = 'F'
    · subst e
      rcases h with h | h
      · exact absurd rfl h
      · simp [orientM, h]
    · simp [orientM, e, hx.2]
  | a :: b :: c2 :: rest, _, hx, _ =>
    simp only [List.all_cons, Bool.and_eq_true, notWs, Bool.not_eq_true'] at hx
    by_cases e : a = 'F'
    · subst e; simp [orientM, hx.2.2.1]
    · simp [orientM, e, hx.2.1]

theorem expPart_ws (R : List Char) (hR : WsHead R) : expPart R = none := by
  obtain ⟨w, R', rfl, hw⟩ := hR
  have h1 : w ≠ 'e' := by intro e; subst e; simp [isWs] at hw
  have h2 : w ≠ 'E' := by intro e; subst e; simp [isWs] at hw
  simp [expPart, h1, h2]

theorem intOK_spec (x : Txt) (h : intOK x = true) : x ≠ [] ∧ ∀ y ∈ x, isDigit y = true := by
  simp only [intOK, Bool.and_eq_true, Bool.not_eq_true', List.isEmpty_eq_false_iff, List.all_eq_true] at h
  exact h

theorem numberM_tok (x : Txt) (h : intOK x = true) (R : List Char) (hR : WsHead R) : numberM (x ++ R) = some (x, R) := by
  obtain ⟨hne, hd⟩ := intOK_spec x h
  obtain ⟨w, R', rfl, hw⟩ := hR
  have hwd : isDigit w = false := by
    rcases (by simpa [isWs] using hw : (((w = ' ' ∨ w = '\t') ∨ w = '\x0c') ∨ w = '\r') ∨ w = '\n') with (((e | e) | e) | e) | e <;>
      (subst e; decide)
  have hp := plus_append isDigit x (w :: R') hne hd (by intro c r' e; cases e; exact hwd)
  have hdot : w ≠ '.' := by intro e; subst e; simp [isWs] at hw
  simp [numberM, hp, expPart_ws (w :: R') ⟨w, R', rfl, hw⟩, hdot]

theorem signedM_tok (x : Txt) (h : sintOK x = true) (R : List Char) (hR : WsHead R) : signedM (x ++ R) = some (x, R) := by
  cases x with
  | nil => simp [sintOK] at h
  | cons c r =>
    simp only [sintOK] at h
    split at h
    · rename_i hs
      simp only [List.cons_append, signedM, hs, ↓reduceIte, numberM_tok r h R hR, Option.map_some]
    · rename_i hs
      have := numberM_tok (c :: r) h R hR
      simp only [List.cons_append] at this
      simp [signedM, hs, this]

theorem strBody_plain (body R : List Char) (h : ∀ y ∈ body, y ≠ '"' ∧ y ≠ '\\') :
    strBody false (body ++ '"' :: R) = some (body ++ ['"'], R) := by
  induction body with
  | nil => simp [strBody]
  | cons y body ih =>
    have hy := h y (by simp)
    have := ih (fun z hz => h z (by simp [hz]))
    simp [strBody, hy.1, hy.2, this]

theorem vStr_spec (x : Txt) (h : vStr x = true) : ∃ body, x = '"' :: (body ++ ['"']) ∧ ∀ y ∈ body, y ≠ '"' ∧ y ≠ '\\' := by
  cases x with
  | nil => simp [vStr] at h
  | cons c r =>
    simp only [vStr, Bool.and_eq_true, decide_eq_true_eq, List.all_eq_true, ne_eq, decide_not, Bool.not_eq_true',
      decide_eq_false_iff_not] at h
    obtain ⟨⟨rfl, h2⟩, h3⟩ := h
    have hne : r ≠ [] := by intro e; subst e; simp at h2
    have hl : r.getLast hne = '"' := by
      rw [List.getLast?_eq_some_getLast hne] at h2; exact Option.some.inj h2
    refine ⟨r.dropLast, ?_, h3⟩
    rw [← hl, List.dropLast_concat_getLast hne]

theorem stringM_tok (x : Txt) (h : vStr x = true) (R : List Char) : stringM (x ++ R) = some (x, R) := by
  obtain ⟨body, rfl, hb⟩ := vStr_spec x h
  simp [stringM, strBody_plain body R hb]

/-! ## `Lx` for the name / number / string / orientation tokens, state by state -/
theorem intOK_head (x : Txt) (h : intOK x = true) : ∃ c0 x', x = c0 :: x' ∧ isDigit c0 = true ∧ c0 ≠ '#' := by
  obtain ⟨hne, hd⟩ := intOK_spec x h
  cases x with
  | nil => exact absurd rfl hne
  | cons c0 x' =>
    have := hd c0 (by simp)
    exact ⟨c0, x', rfl, this, by intro e; subst e; revert this; decide⟩

/-- an `ID` in a state whose scan list starts `ID, ignore` -/
theorem LxRaw_id (rest : List Tm) (x : Txt) (h : vId x = true) : LxRaw (.id :: .ign :: rest) .id x := by
  obtain ⟨c0, x', rfl, h1, h2, h3, h4, _⟩ := vId_spec x h
  exact LxRaw_core _ .id c0 x' [.id] rest [] (.ign :: rest) h2 rfl rfl rfl (by intro R _ u hu; cases hu)
    (fun R hR => idM_tok c0 x' R h1 h3 h4 hR) rfl

theorem Lx_id (x : Txt) (h : vId x = true) : Lx sId .id x := Lx_of_raw sId .id x (LxRaw_id [] x h) (fun _ => rfl)

theorem vIdPt_spec (x : Txt) (h : vIdPt x = true) : vId x = true ∧ x ≠ K .Lpar ∧ x ≠ K .New ∧ x ≠ K .Semi := by
  simpa [vIdPt, and_assoc] using h

theorem vVia_spec (x : Txt) (h : vVia x = true) : vIdPt x = true ∧ x ≠ K .Do ∧ isOrient x = false := by
  simpa [vVia, and_assoc] using h

theorem find_none (ks : List Kw) (x : Txt) (h : ∀ k ∈ ks, x ≠ K k) : ks.find? (fun k => k.chars == x) = none := by
  rw [List.find?_eq_none]
  intro k hk
  have := h k hk
  simp only [beq_iff_eq]
  exact fun e => this (by rw [K, e])

theorem Lx_pt_id (x : Txt) (h : vIdPt x = true) : Lx sAfterPt .id x := by
  obtain ⟨h0, h1, h2, h3⟩ := vIdPt_spec x h
  refine Lx_of_raw sAfterPt .id x (LxRaw_id _ x h0) (fun _ => find_none _ x ?_)
  intro k hk
  simp only [sAfterPt, List.mem_cons, List.not_mem_nil, or_false] at hk
  rcases hk with rfl | rfl | rfl <;> assumption

theorem Lx_spvia_id (x : Txt) (h : vVia x = true) : Lx sAfterSpVia .id x := by
  obtain ⟨hp, hd, _⟩ := vVia_spec x h
  obtain ⟨h0, h1, h2, h3⟩ := vIdPt_spec x hp
  refine Lx_of_raw sAfterSpVia .id x (LxRaw_id _ x h0) (fun _ => find_none _ x ?_)
  intro k hk
  simp only [sAfterSpVia, List.mem_cons, List.not_mem_nil, or_false] at hk
  rcases hk with rfl | rfl | rfl | rfl <;> assumption

/-- an `ID` behind `ORIENTATION` in the scan list: it must not look like an orientation -/
theorem LxRaw_via_id (x : Txt) (h : vId x = true) (ho : isOrient x = false) :
    LxRaw [.orient, .id, .ign, .lit .Plus] .id x := by
  obtain ⟨c0, x', rfl, h1, h2, h3, h4, h5⟩ := vId_spec x h
  refine LxRaw_core _ .id c0 x' [.orient, .id] [.lit .Plus] [.orient] [.ign, .lit .Plus] h2 rfl rfl rfl ?_
    (fun R hR => idM_tok c0 x' R h1 h3 h4 hR) rfl
  intro R hR u hu
  simp only [List.mem_cons, List.not_mem_nil, or_false] at hu
  subst hu
  exact orientM_none (c0 :: x') ho h5 (by simp) R hR

theorem Lx_via_id (x : Txt) (h : vVia x = true) : Lx sAfterVia .id x := by
  obtain ⟨hp, _, ho⟩ := vVia_spec x h
  obtain ⟨h0, h1, h2, h3⟩ := vIdPt_spec x hp
  refine Lx_of_raw sAfterVia .id x (LxRaw_via_id x h0 ho) (fun _ => find_none _ x ?_)
  intro k hk
  simp only [sAfterVia, List.mem_cons, List.not_mem_nil, or_false] at hk
  rcases hk with rfl | rfl | rfl <;> assumption

theorem Lx_via_orient (o : Txt) (h : isOrient o = true) : Lx sAfterVia .orient o := by
  have hne : ∃ c0 x', o = c0 :: x' ∧ c0 ≠ '#' := by
    rcases isOrient_spec o h with ⟨c, rfl, hc⟩ | ⟨c, rfl, _⟩
    · exact ⟨c, [], rfl, by intro e; subst e; simp [isNWES] at hc⟩
    · exact ⟨'F', [c], rfl, by decide⟩
  obtain ⟨c0, x', rfl, hc0⟩ := hne
  exact Lx_core sAfterVia .orient c0 x' [.orient, .id] [.lit .Plus] [] [.id, .ign, .lit .Plus] hc0 rfl rfl rfl
    (by intro R _ u hu; cases hu) (fun R hR => orientM_tok _ h R hR) rfl (by intro e; cases e)

/-- a NUMBER in a state whose scan list starts `NUMBER, ignore` -/
theorem LxRaw_num (rest : List Tm) (x : Txt) (h : vNum x = true) : LxRaw (.number :: .ign :: rest) .number x := by
  obtain ⟨c0, x', rfl, _, hc0⟩ := intOK_head x h
  exact LxRaw_core _ .number c0 x' [.number] rest [] (.ign :: rest) hc0 rfl rfl rfl (by intro R _ u hu; cases hu)
    (fun R hR => numberM_tok _ h R hR) rfl

theorem Lx_num (x : Txt) (h : vNum x = true) : Lx sNum .number x :=
  Lx_of_raw sNum .number x (LxRaw_num [] x h) (by intro e; cases e)
theorem Lx_coord_num (x : Txt) (h : vNum x = true) : Lx sCoord .number x :=
  Lx_of_raw sCoord .number x (LxRaw_num _ x h) (by intro e; cases e)
theorem Lx_coord3_num (x : Txt) (h : vNum x = true) : Lx sCoord3 .number x :=
  Lx_of_raw sCoord3 .number x (LxRaw_num _ x h) (by intro e; cases e)

theorem Lx_snum (x : Txt) (h : vSNum x = true) : Lx sStepNum .signed x := by
  have hne : ∃ c0 x', x = c0 :: x' ∧ c0 ≠ '#' := by
    cases x with
    | nil => simp [vSNum, sintOK] at h
    | cons c r =>
      refine ⟨c, r, rfl, ?_⟩
      intro e; subst e
      simp [vSNum, sintOK, intOK, isDigit] at h
  obtain ⟨c0, x', rfl, hc0⟩ := hne
  exact Lx_core sStepNum .signed c0 x' [.signed, .number] [] [] [.number, .ign] hc0 rfl rfl rfl
    (by intro R _ u hu; cases hu) (fun R hR => signedM_tok _ h R hR) rfl (by intro e; cases e)

theorem Lx_str (x : Txt) (h : vStr x = true) : Lx sString .string x := by
  obtain ⟨body, rfl, hb⟩ := vStr_spec x h
  exact Lx_core sString .string '"' (body ++ ['"']) [.string] [] [] [.ign] (by decide) rfl rfl rfl
    (by intro R _ u hu; cases hu) (fun R _ => stringM_tok _ h R) rfl (by intro e; cases e)

theorem Lx_xy (x : Txt) (h : vXY x = true) : Lx sXY .xy x := by
  simp only [vXY, Bool.or_eq_true, decide_eq_true_eq] at h
  rcases h with rfl | rfl
  · exact Lx_core sXY .xy 'X' [] [] [.xy] [.ign] [] (by decide) rfl rfl rfl
      (by intro R hR u hu; simp only [List.mem_cons, List.not_mem_nil, or_false] at hu; subst hu; simp [Tm.run, ignM, isWs])
      (fun R _ => by simp [Tm.run, xyM]) rfl (by intro e; cases e)
  · exact Lx_core sXY .xy 'Y' [] [] [.xy] [.ign] [] (by decide) rfl rfl rfl
      (by intro R hR u hu; simp only [List.mem_cons, List.not_mem_nil, or_false] at hu; subst hu; simp [Tm.run, ignM, isWs])
      (fun R _ => by simp [Tm.run, xyM]) rfl (by intro e; cases e)

/-! ## folded strings: `(`, `NEW`, `;`, `DO` read through `ID` -/
theorem Lx_pt_emb (k : Kw) (hk : k = .Lpar ∨ k = .New ∨ k = .Semi) : Lx sAfterPt (.lit k) k.chars := by
  rcases hk with rfl | rfl | rfl <;>
    exact Lx_emb_of_raw sAfterPt _ (LxRaw_id _ _ (by decide)) (by decide)

theorem Lx_spvia_emb (k : Kw) (hk : k = .Do ∨ k = .Lpar ∨ k = .New ∨ k = .Semi) : Lx sAfterSpVia (.lit k) k.chars := by
  rcases hk with rfl | rfl | rfl | rfl <;>
    exact Lx_emb_of_raw sAfterSpVia _ (LxRaw_id _ _ (by decide)) (by decide)

theorem Lx_via_emb (k : Kw) (hk : k = .Lpar ∨ k = .New ∨ k = .Semi) : Lx sAfterVia (.lit k) k.chars := by
  rcases hk with rfl | rfl | rfl <;>
    exact Lx_emb_of_raw sAfterVia _ (LxRaw_via_id _ (by decide) (by decide)) (by decide)

/-! ## literal checks used by the reader proofs (all by evaluation of `checkLit`) -/
theorem Lx_one (k : Kw) : Lx (one k) (.lit k) k.chars := by
  apply Lx_lit
  cases k <;> decide

end KV.DefText
