import KyupyVerif.Model.Sdf
/-! Helper lemmas for C14: sequences of array assignments, the `dict(...)` of `start`, `DelayFile.__init__`. -/
namespace KV.Sdf

/-! ## sequences of assignments -/
theorem foldl_apply_not_covered (ws : List W) (A : Arr) (d l : Nat) (ip op : Bool)
    (h : ∀ w ∈ ws, w.covers l ip = false) : (ws.foldl W.apply A) d l ip op = A d l ip op := by
  induction ws generalizing A with
  | nil => rfl
  | cons w ws ih =>
    simp only [List.foldl_cons]
    rw [ih _ (fun w' hw' => h w' (List.mem_cons_of_mem _ hw'))]
    simp [W.apply, h w List.mem_cons_self]

theorem foldl_apply_lands (pre post : List W) (w : W) (A : Arr) (d l : Nat) (ip op : Bool)
    (hc : w.covers l ip = true) (hd : d < 3) (hp : ∀ w' ∈ post, w'.covers l ip = false) :
    ((pre ++ w :: post).foldl W.apply A) d l ip op = w.val op d := by
  rw [List.foldl_append, List.foldl_cons, foldl_apply_not_covered _ _ _ _ _ _ hp]
  simp [W.apply, hc, hd]

theorem foldl_apply_agree (ws : List W) (A : Arr) (d l : Nat) (ip op : Bool) (v : Val) (hd : d < 3)
    (hex : A d l ip op = v ∨ ∃ w ∈ ws, w.covers l ip = true)
    (hall : ∀ w ∈ ws, w.covers l ip = true → w.val op d = v) :
    (ws.foldl W.apply A) d l ip op = v := by
  induction ws generalizing A with
  | nil =>
    rcases hex with h | ⟨w, hw, _⟩
    · exact h
    · cases hw
  | cons w ws ih =>
    simp only [List.foldl_cons]
    apply ih
    · by_cases hc : w.covers l ip = true
      · left; simp [W.apply, hc, hd, hall w List.mem_cons_self hc]
      · rcases hex with h | ⟨w', hw', hc'⟩
        · left; simp [W.apply, hc, h]
        · rcases List.mem_cons.mp hw' with rfl | h'
          · exact absurd hc' hc
          · right; exact ⟨w', h', hc'⟩
    · intro w' hw' hc'
      exact hall w' (List.mem_cons_of_mem _ hw') hc'

theorem applyAll_zero_of_not_covered (ws : List W) (d l : Nat) (ip op : Bool)
    (h : ∀ w ∈ ws, w.covers l ip = false) : applyAll ws d l ip op = 0 := by
  unfold applyAll; rw [foldl_apply_not_covered _ _ _ _ _ _ h]; rfl

theorem applyAll_high (ws : List W) (d l : Nat) (ip op : Bool) (hd : 3 ≤ d) : applyAll ws d l ip op = 0 := by
  unfold applyAll
  suffices h : ∀ A : Arr, A d l ip op = 0 → (ws.foldl W.apply A) d l ip op = 0 from h _ rfl
  induction ws with
  | nil => intro A h; exact h
  | cons w ws ih =>
    intro A h
    simp only [List.foldl_cons]
    apply ih
    have : ¬ d < 3 := by omega
    simp [W.apply, this, h]

/-! ## the dictionary of `start` -/
def keys (d : Dict) : List (Option String) := d.map (·.1)

theorem hasKey_iff (d : Dict) (k : Option String) : hasKey d k = true ↔ k ∈ keys d := by
  simp [hasKey, keys, List.any_eq_true]

theorem hasKey_false (d : Dict) (k : Option String) (h : ¬ k ∈ keys d) : hasKey d k = false := by
  cases hh : hasKey d k with
  | true => exact absurd ((hasKey_iff d k).mp hh) h
  | false => rfl

theorem keys_dictPut (m : Mode) (d : Dict) (kv : Option String × List Entry) :
    keys (dictPut m d kv) = if kv.1 ∈ keys d then keys d else keys d ++ [kv.1] := by
  unfold dictPut
  by_cases h' : kv.1 ∈ keys d
  · have h := (hasKey_iff d kv.1).mpr h'
    rw [if_pos h, if_pos h']
    simp only [keys, List.map_map]
    apply List.map_congr_left
    intro p _
    simp only [Function.comp]
    split <;> rfl
  · rw [if_neg h', hasKey_false d kv.1 h']
    simp [keys]

theorem nodup_dictPut (m : Mode) (d : Dict) (kv : Option String × List Entry) (h : (keys d).Nodup) :
    (keys (dictPut m d kv)).Nodup := by
  rw [keys_dictPut]
  by_cases hk : kv.1 ∈ keys d
  · simpa [hk] using h
  · simp only [hk, if_false]
    rw [List.nodup_append]
    refine ⟨h, by simp, ?_⟩
    intro a ha b hb
    simp at hb
    subst hb
    intro hab; subst hab; exact hk ha

theorem nodup_foldl_dictPut (m : Mode) (cs : List (Option String × List Entry)) (d : Dict)
    (h : (keys d).Nodup) : (keys (cs.foldl (dictPut m) d)).Nodup := by
  induction cs generalizing d with
  | nil => exact h
  | cons c cs ih => exact ih _ (nodup_dictPut m d c h)

theorem nodup_start (m : Mode) (B : List RawCell) : (keys (start m B)).Nodup :=
  nodup_foldl_dictPut m _ [] (by simp [keys])

theorem dictGet_eq_none (d : Dict) (k : Option String) (h : ¬ k ∈ keys d) : dictGet d k = none := by
  unfold dictGet
  rw [List.find?_eq_none.mpr]
  · rfl
  · intro p hp hk
    apply h
    simp only [beq_iff_eq] at hk
    exact List.mem_map.mpr ⟨p, hp, hk⟩

theorem dictGet_isSome (d : Dict) (k : Option String) (h : k ∈ keys d) : ∃ v, dictGet d k = some v := by
  unfold dictGet
  rcases List.mem_map.mp h with ⟨p, hp, hpk⟩
  cases hf : List.find? (fun x => x.1 == k) d with
  | some x => exact ⟨x.2, rfl⟩
  | none =>
    have := List.find?_eq_none.mp hf p hp
    simp [hpk] at this

theorem dictGet_map (d : Dict) (f : Option String × List Entry → Option String × List Entry)
    (hf : ∀ p, (f p).1 = p.1) (k : Option String) :
    dictGet (d.map f) k = (d.find? (·.1 == k)).map (fun p => (f p).2) := by
  unfold dictGet
  rw [List.find?_map]
  have : ((fun x : Option String × List Entry => x.1 == k) ∘ f) = (fun x => x.1 == k) := by
    funext p; simp [hf]
  rw [this]
  cases List.find? (fun x => x.1 == k) d <;> rfl

theorem dictGet_map_other (d : Dict) (k k' : Option String) (g : List Entry → List Entry → List Entry) (hk : k ≠ k') :
    dictGet (d.map fun p => if p.1 == k' then (p.1, g p.2 p.2) else p) k = dictGet d k := by
  rw [dictGet_map _ _ (by intro p; split <;> rfl)]
  unfold dictGet
  cases hf : List.find? (fun x => x.1 == k) d with
  | none => rfl
  | some x =>
    have hx := List.find?_some hf
    simp only [beq_iff_eq] at hx
    have : ¬ x.1 = k' := by intro h; exact hk (hx ▸ h)
    simp [this]

theorem dictGet_map_same (d : Dict) (k : Option String) (g : List Entry → List Entry) :
    dictGet (d.map fun p => if p.1 == k then (p.1, g p.2) else p) k = (dictGet d k).map g := by
  rw [dictGet_map _ _ (by intro p; split <;> rfl)]
  unfold dictGet
  cases hf : List.find? (fun x => x.1 == k) d with
  | none => rfl
  | some x =>
    have hx := List.find?_some hf
    simp only [beq_iff_eq] at hx
    simp [hx]

theorem dictGet_append_singleton (d : Dict) (kv : Option String × List Entry) (k : Option String)
    (h : ¬ kv.1 ∈ keys d) :
    dictGet (d ++ [kv]) k = if k = kv.1 then some kv.2 else dictGet d k := by
  by_cases hk : k = kv.1
  · rw [if_pos hk, hk]
    unfold dictGet
    simp only [List.find?_append]
    rw [List.find?_eq_none.mpr]
    · simp
    · intro p hp hpk
      simp only [beq_iff_eq] at hpk
      exact h (List.mem_map.mpr ⟨p, hp, hpk⟩)
  · rw [if_neg hk]
    unfold dictGet
    simp only [List.find?_append]
    cases hf : List.find? (fun x => x.1 == k) d with
    | some x => simp
    | none =>
      have : (kv.1 == k) = false := by simp only [beq_eq_false_iff_ne]; exact fun h => hk h.symm
      simp [this]

/-- value stored under a key after one insertion -/
theorem dictGet_dictPut (m : Mode) (d : Dict) (kv : Option String × List Entry) (k : Option String) :
    dictGet (dictPut m d kv) k =
      if k = kv.1 then
        (match m with
         | .lastWins => some kv.2
         | .merge => some ((dictGet d k).getD [] ++ kv.2))
      else dictGet d k := by
  unfold dictPut
  by_cases hmem : kv.1 ∈ keys d
  · rw [if_pos ((hasKey_iff d kv.1).mpr hmem)]
    by_cases hk : k = kv.1
    · rw [if_pos hk, hk]
      rcases dictGet_isSome d kv.1 hmem with ⟨v, hv⟩
      cases m with
      | lastWins =>
        have := dictGet_map_same d kv.1 (fun _ => kv.2)
        simp only [hv, Option.map_some] at this
        exact this
      | merge =>
        have := dictGet_map_same d kv.1 (fun v => v ++ kv.2)
        simp only [hv, Option.map_some] at this
        simpa [hv] using this
    · rw [if_neg hk]
      cases m with
      | lastWins => exact dictGet_map_other d k kv.1 (fun _ _ => kv.2) hk
      | merge => exact dictGet_map_other d k kv.1 (fun v _ => v ++ kv.2) hk
  · rw [hasKey_false d kv.1 hmem]
    rw [if_neg (by simp), dictGet_append_singleton d kv k hmem]
    by_cases hk : k = kv.1
    · rw [if_pos hk, if_pos hk, hk]
      cases m with
      | lastWins => rfl
      | merge => simp [dictGet_eq_none d kv.1 hmem]
    · rw [if_neg hk, if_neg hk]

/-- all entries filed under key `k`, in file order -/
def entriesOfKey (cs : List (Option String × List Entry)) (k : Option String) : List Entry :=
  (cs.filter (·.1 == k)).flatMap (·.2)

theorem dictGet_foldl_merge (cs : List (Option String × List Entry)) (d : Dict) (k : Option String) :
    dictGet (cs.foldl (dictPut .merge) d) k =
      if k ∈ keys d ∨ k ∈ cs.map (·.1) then some ((dictGet d k).getD [] ++ entriesOfKey cs k) else none := by
  induction cs generalizing d with
  | nil =>
    by_cases h : k ∈ keys d
    · simp only [List.foldl_nil, h, true_or, if_true, entriesOfKey, List.filter_nil, List.flatMap_nil, List.append_nil]
      unfold dictGet
      rcases List.mem_map.mp h with ⟨p, hp, hpk⟩
      cases hf : List.find? (fun x => x.1 == k) d with
      | some x => simp
      | none =>
        have := List.find?_eq_none.mp hf p hp
        simp [hpk] at this
    · simp [h, dictGet_eq_none d k h]
  | cons c cs ih =>
    simp only [List.foldl_cons]
    rw [ih]
    have hkeys : k ∈ keys (dictPut .merge d c) ↔ (k ∈ keys d ∨ k = c.1) := by
      rw [keys_dictPut]
      by_cases hc : c.1 ∈ keys d
      · simp only [hc, if_true]
        constructor
        · exact Or.inl
        · rintro (h | h)
          · exact h
          · exact h ▸ hc
      · simp [hc]
    rw [dictGet_dictPut]
    by_cases hk : k = c.1
    · subst hk
      have : (c.1 == c.1) = true := by simp
      simp [hkeys, entriesOfKey, List.append_assoc]
    · have hne : (c.1 == k) = false := by simp only [beq_eq_false_iff_ne]; exact fun h => hk h.symm
      simp only [hkeys, hk, or_false, if_false, List.map_cons, List.mem_cons, false_or, entriesOfKey,
        List.filter_cons, hne]
      rfl

theorem dictGet_foldl_lastWins (cs : List (Option String × List Entry)) (d : Dict) (k : Option String) :
    dictGet (cs.foldl (dictPut .lastWins) d) k =
      match cs.reverse.find? (·.1 == k) with
      | some c => some c.2
      | none => dictGet d k := by
  induction cs generalizing d with
  | nil => simp
  | cons c cs ih =>
    simp only [List.foldl_cons]
    rw [ih]
    simp only [List.reverse_cons, List.find?_append]
    cases hf : List.find? (fun x => x.1 == k) cs.reverse with
    | some x => simp
    | none =>
      simp only [Option.none_or, List.find?_cons, List.find?_nil]
      rw [dictGet_dictPut]
      by_cases hk : k = c.1
      · subst hk; simp
      · have hne : (c.1 == k) = false := by simp only [beq_eq_false_iff_ne]; exact fun h => hk h.symm
        simp [hk, hne]

/-- with pairwise different block names `dict(...)` is the list of blocks itself (both modes) -/
theorem foldl_dictPut_nodup (m : Mode) (cs : List (Option String × List Entry)) (d : Dict)
    (h : (keys d ++ cs.map (·.1)).Nodup) : cs.foldl (dictPut m) d = d ++ cs := by
  induction cs generalizing d with
  | nil => simp
  | cons c cs ih =>
    simp only [List.foldl_cons]
    have hc : ¬ c.1 ∈ keys d := by
      intro hm
      rw [List.nodup_append] at h
      exact h.2.2 _ hm _ (by simp) rfl
    have hput : dictPut m d c = d ++ [c] := by
      unfold dictPut
      have : hasKey d c.1 = false := by
        cases hh : hasKey d c.1 with
        | true => exact absurd ((hasKey_iff d c.1).mp hh) hc
        | false => rfl
      simp [this]
    rw [hput, ih]
    · simp
    · simpa [keys, List.append_assoc] using h

/-! ## `DelayFile.__init__` and what the two loops see -/
def namedKey (p : Option String × Entry) : Option (String × Entry) :=
  match p.1 with
  | some n => if n ≠ "" then some (n, p.2) else none
  | none => none

theorem namedEntries_mk (d : Dict) : namedEntries (mkDelayFile d) = (flatDict d).filterMap namedKey := by
  unfold namedEntries mkDelayFile flatDict
  simp only
  induction d with
  | nil => rfl
  | cons p d ih =>
    simp only [List.filterMap_cons, List.flatMap_cons, List.filterMap_append]
    rw [← ih]
    rcases p with ⟨k, es⟩
    cases k with
    | none =>
      simp only
      have : List.filterMap namedKey (List.map (fun e => ((none : Option String), e)) es) = [] := by
        induction es with
        | nil => rfl
        | cons e es ih2 => simp [namedKey]
      simp [this]
    | some n =>
      by_cases hn : n = ""
      · subst hn
        have : List.filterMap namedKey (List.map (fun e => (some "", e)) es) = [] := by
          induction es with
          | nil => rfl
          | cons e es ih2 => simp [namedKey, ih2]
        simp [this]
      · have : List.filterMap namedKey (List.map (fun e => (some n, e)) es) = es.map fun e => (n, e) := by
          induction es with
          | nil => rfl
          | cons e es ih2 => simp [namedKey, hn, ih2]
        simp [hn, this]

theorem mem_flatDict {d : Dict} {k : Option String} {e : Entry} :
    (k, e) ∈ flatDict d ↔ ∃ es, (k, es) ∈ d ∧ e ∈ es := by
  unfold flatDict
  simp only [List.mem_flatMap, List.mem_map]
  constructor
  · rintro ⟨p, hp, e', he', heq⟩
    cases heq
    exact ⟨p.2, hp, he'⟩
  · rintro ⟨es, hp, he⟩
    exact ⟨(k, es), hp, e, he, rfl⟩

theorem dictGet_of_mem (d : Dict) (h : (keys d).Nodup) (k : Option String) (es : List Entry)
    (hm : (k, es) ∈ d) : dictGet d k = some es := by
  induction d with
  | nil => cases hm
  | cons p d ih =>
    unfold dictGet
    simp only [List.find?_cons]
    simp only [keys, List.map_cons, List.nodup_cons] at h
    rcases List.mem_cons.mp hm with rfl | hm'
    · simp
    · have hne : (p.1 == k) = false := by
        simp only [beq_eq_false_iff_ne]
        intro hpk
        apply h.1
        exact List.mem_map.mpr ⟨(k, es), hm', hpk.symm⟩
      simp only [hne]
      exact ih h.2 hm'

theorem mem_of_dictGet (d : Dict) (k : Option String) (es : List Entry) (h : dictGet d k = some es) :
    (k, es) ∈ d := by
  unfold dictGet at h
  cases hf : List.find? (fun x => x.1 == k) d with
  | none => simp [hf] at h
  | some x =>
    simp only [hf, Option.map_some, Option.some.injEq] at h
    have hx := List.mem_of_find?_eq_some hf
    have hk := List.find?_some hf
    simp only [beq_iff_eq] at hk
    rcases x with ⟨k', v⟩
    simp only at hk h
    subst hk; subst h
    exact hx


/-! ## what `start` keeps per block name -/
theorem entriesOfKey_nil_of_not_mem (cs : List (Option String × List Entry)) (k : Option String)
    (h : ¬ k ∈ cs.map (·.1)) : entriesOfKey cs k = [] := by
  unfold entriesOfKey
  have : cs.filter (·.1 == k) = [] := by
    rw [List.filter_eq_nil_iff]
    intro p hp hk
    simp only [beq_iff_eq] at hk
    exact h (List.mem_map.mpr ⟨p, hp, hk⟩)
  rw [this]; rfl

theorem mem_entriesOfKey {cs : List (Option String × List Entry)} {k : Option String} {e : Entry} :
    e ∈ entriesOfKey cs k ↔ ∃ p ∈ cs, p.1 = k ∧ e ∈ p.2 := by
  unfold entriesOfKey
  simp only [List.mem_flatMap, List.mem_filter, beq_iff_eq]
  constructor
  · rintro ⟨p, ⟨hp, hk⟩, he⟩; exact ⟨p, hp, hk, he⟩
  · rintro ⟨p, hp, hk, he⟩; exact ⟨p, ⟨hp, hk⟩, he⟩

/-- the entries filed under a name depend only on the flat (name, entry) sequence of the file -/
theorem entriesOfKey_eq_flat (cs : List (Option String × List Entry)) (k : Option String) :
    entriesOfKey cs k = ((cs.flatMap fun p => p.2.map fun e => (p.1, e)).filter (·.1 == k)).map (·.2) := by
  unfold entriesOfKey
  induction cs with
  | nil => rfl
  | cons p cs ih =>
    simp only [List.flatMap_cons, List.filter_append, List.map_append]
    rw [← ih]
    by_cases hk : (p.1 == k) = true
    · have : (List.filter (fun x => x.1 == k) (List.map (fun e => (p.1, e)) p.2)).map (·.2) = p.2 := by
        rw [List.filter_eq_self.mpr]
        · simp [List.map_map, Function.comp_def]
        · intro a ha
          rcases List.mem_map.mp ha with ⟨e, _, rfl⟩
          exact hk
      rw [this, List.filter_cons]; simp [hk]
    · have : List.filter (fun x => x.1 == k) (List.map (fun e => (p.1, e)) p.2) = [] := by
        rw [List.filter_eq_nil_iff]
        intro a ha
        rcases List.mem_map.mp ha with ⟨e, _, rfl⟩
        exact hk
      rw [this, List.filter_cons]; simp [hk]

theorem dictGet_start_merge (B : List RawCell) (k : Option String) :
    dictGet (start .merge B) k =
      if k ∈ (B.map cell).map (·.1) then some (entriesOfKey (B.map cell) k) else none := by
  unfold start
  rw [dictGet_foldl_merge]
  simp [keys, dictGet]

theorem dictGet_start_lastWins (B : List RawCell) (k : Option String) :
    dictGet (start .lastWins B) k = ((B.map cell).reverse.find? (·.1 == k)).map (·.2) := by
  unfold start
  rw [dictGet_foldl_lastWins]
  cases List.find? (fun x => x.1 == k) (B.map cell).reverse <;> rfl

theorem mem_namedEntries_mk {d : Dict} {n : String} {e : Entry} :
    (n, e) ∈ namedEntries (mkDelayFile d) ↔ n ≠ "" ∧ ∃ es, (some n, es) ∈ d ∧ e ∈ es := by
  rw [namedEntries_mk, List.mem_filterMap]
  constructor
  · rintro ⟨⟨k, e'⟩, hm, hk⟩
    unfold namedKey at hk
    cases k with
    | none => simp at hk
    | some n' =>
      simp only at hk
      by_cases hn : n' = ""
      · simp [hn] at hk
      · simp only [ne_eq, hn, not_false_eq_true, if_true, Option.some.injEq, Prod.mk.injEq] at hk
        rcases hk with ⟨rfl, rfl⟩
        exact ⟨hn, mem_flatDict.mp hm⟩
  · rintro ⟨hn, hes⟩
    exact ⟨(some n, e), mem_flatDict.mpr hes, by simp [namedKey, hn]⟩

/-- nothing is invented: every (name, entry) pair the IOPATH loop sees stands in a block of that name (any mode) -/
theorem mem_namedEntries_origin (m : Mode) (B : List RawCell) (n : String) (e : Entry)
    (h : (n, e) ∈ namedEntries (parse m B)) : ∃ c ∈ B, (cell c).1 = some n ∧ e ∈ (cell c).2 := by
  unfold parse at h
  rcases mem_namedEntries_mk.mp h with ⟨_, es, hd, he⟩
  have hg := dictGet_of_mem _ (nodup_start m B) _ _ hd
  cases m with
  | merge =>
    rw [dictGet_start_merge] at hg
    split at hg
    · simp only [Option.some.injEq] at hg
      subst hg
      rcases mem_entriesOfKey.mp he with ⟨p, hp, hk, hep⟩
      rcases List.mem_map.mp hp with ⟨c, hc, rfl⟩
      exact ⟨c, hc, hk, hep⟩
    · cases hg
  | lastWins =>
    rw [dictGet_start_lastWins] at hg
    cases hf : List.find? (fun x => x.1 == some n) (B.map cell).reverse with
    | none => simp [hf] at hg
    | some p =>
      simp only [hf, Option.map_some, Option.some.injEq] at hg
      subst hg
      have hp := List.mem_of_find?_eq_some hf
      have hk := List.find?_some hf
      simp only [beq_iff_eq] at hk
      rw [List.mem_reverse] at hp
      rcases List.mem_map.mp hp with ⟨c, hc, rfl⟩
      exact ⟨c, hc, hk, he⟩

/-- repaired `start`: every entry of every named block reaches the IOPATH loop -/
theorem mem_namedEntries_merge (B : List RawCell) (c : RawCell) (n : String) (e : Entry)
    (hc : c ∈ B) (hn : (cell c).1 = some n) (hne : n ≠ "") (he : e ∈ (cell c).2) :
    (n, e) ∈ namedEntries (parse .merge B) := by
  unfold parse
  rw [mem_namedEntries_mk]
  refine ⟨hne, entriesOfKey (B.map cell) (some n), ?_, ?_⟩
  · apply mem_of_dictGet
    rw [dictGet_start_merge, if_pos]
    exact List.mem_map.mpr ⟨cell c, List.mem_map.mpr ⟨c, hc, rfl⟩, hn⟩
  · exact mem_entriesOfKey.mpr ⟨cell c, List.mem_map.mpr ⟨c, hc, rfl⟩, hn, he⟩

/-- current `start`: the entries of the LAST block of a name reach the IOPATH loop -/
theorem mem_namedEntries_lastWins (B1 B2 : List RawCell) (c : RawCell) (n : String) (e : Entry)
    (hn : (cell c).1 = some n) (hne : n ≠ "") (he : e ∈ (cell c).2)
    (hlast : ∀ c' ∈ B2, (cell c').1 ≠ some n) :
    (n, e) ∈ namedEntries (parse .lastWins (B1 ++ c :: B2)) := by
  unfold parse
  rw [mem_namedEntries_mk]
  refine ⟨hne, (cell c).2, ?_, he⟩
  apply mem_of_dictGet
  rw [dictGet_start_lastWins]
  simp only [List.map_append, List.map_cons, List.reverse_append, List.reverse_cons, List.find?_append]
  rw [List.find?_eq_none.mpr]
  · simp [hn]
  · intro p hp hk
    simp only [beq_iff_eq] at hk
    rw [List.mem_reverse] at hp
    rcases List.mem_map.mp hp with ⟨c', hc', rfl⟩
    exact hlast c' hc' hk

theorem icEntries_merge (B : List RawCell) :
    icEntries (parse .merge B) =
      if none ∈ (B.map cell).map (·.1) then some (entriesOfKey (B.map cell) none) else none := by
  unfold icEntries parse mkDelayFile
  simp only
  rw [dictGet_start_merge]

theorem icEntries_lastWins (B : List RawCell) :
    icEntries (parse .lastWins B) = ((B.map cell).reverse.find? (·.1 == none)).map (·.2) := by
  unfold icEntries parse mkDelayFile
  simp only
  rw [dictGet_start_lastWins]

/-- splitting a block into two adjacent blocks of the same name does not change the repaired dictionary -/
theorem dictPut_merge_split (d : Dict) (k : Option String) (v1 v2 : List Entry) :
    dictPut .merge (dictPut .merge d (k, v1)) (k, v2) = dictPut .merge d (k, v1 ++ v2) := by
  by_cases hmem : k ∈ keys d
  · have h1 : hasKey d k = true := (hasKey_iff d k).mpr hmem
    have hk2 : k ∈ keys (dictPut .merge d (k, v1)) := by rw [keys_dictPut]; simp [hmem]
    have h2 : hasKey (dictPut .merge d (k, v1)) k = true := (hasKey_iff _ k).mpr hk2
    unfold dictPut at h2 ⊢
    simp only [h1, if_true] at h2 ⊢
    simp only [h2, if_true, List.map_map]
    apply List.map_congr_left
    intro p _
    simp only [Function.comp]
    by_cases hp : (p.1 == k) = true
    · simp [hp, List.append_assoc]
    · simp [hp]
  · have h1 : hasKey d k = false := hasKey_false d k hmem
    have hput : dictPut .merge d (k, v1) = d ++ [(k, v1)] := by unfold dictPut; simp [h1]
    have hput' : dictPut .merge d (k, v1 ++ v2) = d ++ [(k, v1 ++ v2)] := by unfold dictPut; simp [h1]
    rw [hput, hput']
    have h2 : hasKey (d ++ [(k, v1)]) k = true := by
      rw [hasKey_iff]; simp [keys]
    unfold dictPut
    simp only [h2, if_true, List.map_append, List.map_cons, List.map_nil]
    congr 1
    · have : ∀ p ∈ d, (if (p.1 == k) = true then (p.1, p.2 ++ v2) else p) = p := by
        intro p hp
        have : (p.1 == k) = false := by
          simp only [beq_eq_false_iff_ne]
          intro hpk; exact hmem (List.mem_map.mpr ⟨p, hp, hpk⟩)
        simp [this]
      conv => rhs; rw [← List.map_id d]
      exact List.map_congr_left this
    · simp

/-! ## names -/
theorem posPrefix_eq : "(posedge ".toList = posPrefix := by decide +kernel
theorem negPrefix_eq : "(negedge ".toList = negPrefix := by decide +kernel
theorem rpar_eq : ")".toList = [')'] := by decide +kernel

theorem edge_qualified (pre : String) (pl : List Char) (b : Bool) (hpre : pre.toList = pl)
    (hpl : pl = posPrefix ∧ b = false ∨ pl = negPrefix ∧ b = true)
    (p : String) (h1 : p.toList ≠ []) (h2 : ')' ∉ p.toList) :
    polsOf (pre ++ p ++ ")") = [b] ∧ pinOf (pre ++ p ++ ")") = p := by
  have hl : (pre ++ p ++ ")").toList = pl ++ (p.toList ++ [')']) := by
    rw [String.toList_append, String.toList_append, hpre, rpar_eq, List.append_assoc]
  have hpf : pl.isPrefixOf (pl ++ (p.toList ++ [')'])) = true := by
    rw [List.isPrefixOf_iff_prefix]; exact List.prefix_append _ _
  have hlen : pl.length = 9 := by rcases hpl with ⟨h, _⟩ | ⟨h, _⟩ <;> rw [h] <;> decide
  have hd : List.drop 9 (pl ++ (p.toList ++ [')'])) = p.toList ++ [')'] := by
    rw [← hlen, List.drop_left]
  rcases hpl with ⟨rfl, rfl⟩ | ⟨rfl, rfl⟩
  · constructor
    · unfold polsOf; rw [hl, hpf]; rfl
    · unfold pinOf
      simp only [hl, hpf, Bool.true_or, if_true]
      rw [hd, List.dropLast_concat, ← List.append_assoc, List.getLast?_concat]
      simp [h1, h2, String.ofList_toList]
  · have hnp : posPrefix.isPrefixOf (negPrefix ++ (p.toList ++ [')'])) = false := by
      simp [posPrefix, negPrefix, List.isPrefixOf]
    constructor
    · unfold polsOf; rw [hl, hnp, hpf]; rfl
    · unfold pinOf
      simp only [hl, hpf, Bool.or_true, if_true]
      rw [hd, List.dropLast_concat, ← List.append_assoc, List.getLast?_concat]
      simp [h1, h2, String.ofList_toList]

theorem not_prefix_of_head (q s : List Char) (hq : q.head? = some '(') (h : s.head? ≠ some '(') :
    q.isPrefixOf s = false := by
  cases s with
  | nil => cases q with
    | nil => simp at hq
    | cons a q => rfl
  | cons c cs =>
    cases q with
    | nil => simp at hq
    | cons a q =>
      simp at hq; subst hq
      have : c ≠ '(' := by intro hc; apply h; simp [hc]
      simp [List.isPrefixOf]
      exact fun h => absurd h.symm this

/-! ## value conventions: definitional restatements (kept as lemmas; formerly listed in Props/C14.lean) -/
/-- `(a::)`, `(::c)`: an empty field reads as 0 -/
theorem triple_empty_fields (a c : Val) :
    triple [some a, none, none] = [a, 0, 0] ∧ triple [none, none, some c] = [0, 0, c] ∧
    triple [none, none, none] = [0, 0, 0] := ⟨rfl, rfl, rfl⟩

/-- `()` gives the empty list, which both annotation loops replace by three zeros -/
theorem triple_unit : triple [] = [] ∧ norm (triple []) = [0, 0, 0] := ⟨rfl, rfl⟩

theorem norm_full (a b c : Val) : norm [a, b, c] = [a, b, c] := rfl

/-- a single value list applies to both output polarities -/
theorem sanitize_single (a b : String) (t : RawTriple) :
    (sanitize ⟨a, b, [t]⟩).r = triple t ∧ (sanitize ⟨a, b, [t]⟩).f = triple t := ⟨rfl, rfl⟩

/-- two value lists: first = rising output, second = falling output -/
theorem sanitize_pair (a b : String) (t u : RawTriple) :
    (sanitize ⟨a, b, [t, u]⟩).r = triple t ∧ (sanitize ⟨a, b, [t, u]⟩).f = triple u := ⟨rfl, rfl⟩


end KV.Sdf
