import KyupyVerif.Proofs.StripLinkOk
import KyupyVerif.Proofs.SemL
/-! Fork stripping for signal-level execution with a code-indexed semantics (`Sig.exec`, LogicSim): when `BUF1` returns
its first operand, the stripped program (fork rows dropped, operands resolved through the stems) and the un-stripped
program agree on every signal that is not a branch, and a branch of the un-stripped run carries what the stripped run
leaves on its stem. Lock-step induction on the certificate `stripOkB`, any value domain. -/
namespace KV.Wave
open KV KV.Sig

/-- a reader row after stripping, four-index form: operands resolved through the stems -/
def redirect4 (st : List (Nat × Nat)) (op : Op) : Op := ⟨op.code, op.out, op.ins.map (src st)⟩

/-- the stripped program, four-index form -/
def stripOps4 (st : List (Nat × Nat)) (ops : List Op) : List Op :=
  (ops.filter fun op => (st.lookup op.out).isNone).map (redirect4 st)

theorem getD_map0 {α} (f : Nat → α) (ins : List Nat) (d : α) (h : 0 < ins.length) :
    (ins.map f).getD 0 d = f (ins.getD 0 0) := by
  cases ins with
  | nil => simp at h
  | cons a r => rfl

/-- lock-step simulation: `e1` = un-stripped, `e3` = stripped -/
theorem strip_lockstep_logic {α} (f : Nat → List α → α) (dflt : α) (hbuf : ∀ xs, f 0xAAAA xs = xs.getD 0 dflt)
    (st : List (Nat × Nat)) (zidx : Nat) (ops : List Op) (written : List Nat) (e1 e3 : Nat → α)
    (hs : stripOkB st zidx written ops = true)
    (hno : ∀ b s, st.lookup b = some s → b ∈ written → st.lookup s = none ∧ ∀ p ∈ ops, p.out ≠ s)
    (hsame : ∀ l, st.lookup l = none → e3 l = e1 l)
    (hbr : ∀ b s, st.lookup b = some s → b ∈ written → e1 b = e1 s) :
    (∀ l, st.lookup l = none → exec f (stripOps4 st ops) e3 l = exec f ops e1 l) ∧
    (∀ b s, st.lookup b = some s → (b ∈ written ∨ ∃ p ∈ ops, p.out = b) → exec f ops e1 b = exec f ops e1 s) := by
  induction ops generalizing written e1 e3 with
  | nil =>
    exact ⟨hsame, fun b s hb hw => hbr b s hb (hw.resolve_right (by rintro ⟨p, hp, _⟩; cases hp))⟩
  | cons op rest ih =>
    obtain ⟨hlen, _, hrest, hfork, hplain⟩ := stripOkB_cons hs
    have hcons : exec f (op :: rest) e1 = exec f rest (execOp f e1 op) := rfl
    have hmemb : ∀ b, (b ∈ written ∨ ∃ p ∈ op :: rest, p.out = b) → (b ∈ op.out :: written ∨ ∃ p ∈ rest, p.out = b) := by
      intro b hw
      rcases hw with h | ⟨p, hp, hpo⟩
      · exact Or.inl (List.mem_cons_of_mem _ h)
      · rcases List.mem_cons.mp hp with rfl | hp
        · exact Or.inl (hpo ▸ List.mem_cons_self)
        · exact Or.inr ⟨p, hp, hpo⟩
    rw [hcons]
    cases hlo : st.lookup op.out with
    | some s =>
      obtain ⟨hcode, _, hsrc, hsn, hw0, _, hlater⟩ := forkRowB_spec (hfork s hlo)
      have hstrip : stripOps4 st (op :: rest) = stripOps4 st rest := by
        simp [stripOps4, hlo]
      rw [hstrip]
      have hv : f op.code (op.ins.map e1) = e1 (op.ins.getD 0 0) := by
        rw [hcode, hbuf, getD_map0 _ _ _ (by omega)]
      have hsb : s ≠ op.out := by intro e; rw [e, hlo] at hsn; cases hsn
      have hx : e1 (op.ins.getD 0 0) = e1 s := by
        cases hlx : st.lookup (op.ins.getD 0 0) with
        | none => simp only [src, hlx, Option.getD_none] at hsrc; rw [hsrc]
        | some t =>
          simp only [src, hlx, Option.getD_some] at hsrc
          rcases hw0 with h0 | h0
          · rw [hlx] at h0; cases h0
          · rw [← hsrc]; exact hbr _ t hlx h0
      have key := ih (op.out :: written) (execOp f e1 op) e3 hrest ?_ ?_ ?_
      · exact ⟨key.1, fun b s' hb hw => key.2 b s' hb (hmemb b hw)⟩
      · intro b s' hb hbw
        rcases List.mem_cons.mp hbw with rfl | hbw
        · rw [hlo] at hb; cases hb; exact ⟨hsn, fun p hp => (hlater p hp).1⟩
        · exact ⟨(hno b s' hb hbw).1, fun p hp => (hno b s' hb hbw).2 p (List.mem_cons_of_mem _ hp)⟩
      · intro x hxn
        have : x ≠ op.out := by intro e; rw [e, hlo] at hxn; cases hxn
        simp only [execOp, Sig.upd, if_neg this]
        exact hsame x hxn
      · intro b s' hb hbw
        by_cases hbo : b = op.out
        · subst hbo
          rw [hlo] at hb; cases hb
          simp only [execOp, Sig.upd, if_true, if_neg hsb, hv, hx]
        · have hbw' : b ∈ written := by
            rcases List.mem_cons.mp hbw with h | h
            · exact absurd h hbo
            · exact h
          have hs' : s' ≠ op.out := fun e => (hno b s' hb hbw').2 op List.mem_cons_self e.symm
          simp only [execOp, Sig.upd, if_neg hbo, if_neg hs']
          exact hbr b s' hb hbw'
    | none =>
      have hops := plainRowB_spec (hplain hlo)
      have hstrip : stripOps4 st (op :: rest) = redirect4 st op :: stripOps4 st rest := by
        simp [stripOps4, hlo]
      rw [hstrip]
      have hcons3 : exec f (redirect4 st op :: stripOps4 st rest) e3 =
          exec f (stripOps4 st rest) (execOp f e3 (redirect4 st op)) := rfl
      rw [hcons3]
      have hval : f (redirect4 st op).code ((redirect4 st op).ins.map e3) = f op.code (op.ins.map e1) := by
        show f op.code ((op.ins.map (src st)).map e3) = _
        rw [List.map_map]
        congr 1
        apply List.map_congr_left
        intro x hx
        show e3 (src st x) = e1 x
        cases hlx : st.lookup x with
        | none => simp only [src, hlx, Option.getD_none]; exact hsame x hlx
        | some t =>
          simp only [src, hlx, Option.getD_some]
          rcases hops x hx with h0 | h0
          · rw [hlx] at h0; cases h0
          · rw [hbr x t hlx h0]
            exact hsame t (hno x t hlx h0).1
      have hwr : ∀ b s', st.lookup b = some s' → b ∈ op.out :: written → b ∈ written ∧ b ≠ op.out := by
        intro b s' hb hbw
        have hbo : b ≠ op.out := by intro e; rw [e, hlo] at hb; cases hb
        rcases List.mem_cons.mp hbw with h | h
        · exact absurd h hbo
        · exact ⟨h, hbo⟩
      have key := ih (op.out :: written) (execOp f e1 op) (execOp f e3 (redirect4 st op)) hrest ?_ ?_ ?_
      · exact ⟨key.1, fun b s' hb hw => key.2 b s' hb (hmemb b hw)⟩
      · intro b s' hb hbw
        obtain ⟨hbw', _⟩ := hwr b s' hb hbw
        exact ⟨(hno b s' hb hbw').1, fun p hp => (hno b s' hb hbw').2 p (List.mem_cons_of_mem _ hp)⟩
      · intro x hxn
        have ho : (redirect4 st op).out = op.out := rfl
        by_cases hxo : x = op.out
        · simp only [execOp, Sig.upd, ho, hxo, if_true, hval]
        · simp only [execOp, Sig.upd, ho, if_neg hxo]
          exact hsame x hxn
      · intro b s' hb hbw
        obtain ⟨hbw', hbo⟩ := hwr b s' hb hbw
        have hs' : s' ≠ op.out := fun e => (hno b s' hb hbw').2 op List.mem_cons_self e.symm
        simp only [execOp, Sig.upd, if_neg hbo, if_neg hs']
        exact hbr b s' hb hbw'

/-- fork stripping for `Sig.exec`, every program with the certificate -/
theorem strip_logic {α} (f : Nat → List α → α) (dflt : α) (hbuf : ∀ xs, f 0xAAAA xs = xs.getD 0 dflt)
    (st : List (Nat × Nat)) (zidx : Nat) (ops : List Op) (env : Nat → α) (hs : stripOkB st zidx [] ops = true) :
    (∀ l, st.lookup l = none → exec f (stripOps4 st ops) env l = exec f ops env l) ∧
    (∀ b s, st.lookup b = some s → (∃ p ∈ ops, p.out = b) → exec f ops env b = exec f (stripOps4 st ops) env s) := by
  obtain ⟨h1, h2⟩ := strip_lockstep_logic f dflt hbuf st zidx ops [] env env hs
    (fun b s _ hb => by cases hb) (fun _ _ => rfl) (fun b s _ hb => by cases hb)
  refine ⟨h1, fun b s hb hw => ?_⟩
  obtain ⟨p, hp, hpo⟩ := hw
  rw [h1 s (stripOkB_stem_none hs hp (hpo ▸ hb)), h2 b s hb (Or.inr ⟨p, hp, hpo⟩)]

end KV.Wave

namespace KV
open KV.Sig KV.Wave

/-- the stripped schedule with operands resolved through the stems is `stripOps4` of the un-stripped schedule -/
theorem genOps_strip_eq_stripOps4 (tbl : List PrefixRow) {net : Net} {order : List Nat}
    (hwf : net.wfB = true) (ho : orderOKB net order = true) (hf : forksOKB net order = true) :
    (genOps tbl net order true).map (fun r => (⟨r.lut, r.out, r.ins.map (viaStem (stemsOf net true))⟩ : Op)) =
      stripOps4 (stemList net) ((genOps tbl net order false).map OpRow.toOp) := by
  rw [genOps_strip_filter tbl net order hwf ho hf]
  unfold stripOps4
  rw [List.filter_map, List.map_map]
  have : (fun r => !isBranchRow net r) =
      ((fun op : Op => ((stemList net).lookup op.out).isNone) ∘ OpRow.toOp) := by
    funext r
    show (!isBranchRow net r) = (((stemList net).lookup r.out).isNone)
    rw [stemList_lookup]
    unfold isBranchRow
    cases (stemsOf net true).getD r.out none <;> rfl
  rw [this]
  apply List.map_congr_left
  intro r _
  show _ = redirect4 (stemList net) r.toOp
  unfold redirect4
  have : src (stemList net) = viaStem (stemsOf net true) := funext (src_stemList net)
  rw [this]
  rfl

/-! ### `BUF1` returns its first operand in the generated 2-, 4- and 8-valued semantics -/

theorem buf1_known : KnownCode BUF1 := ⟨"BUF1", by decide +kernel⟩

theorem semL2n_buf1 (xs : List Bool) : semL2n BUF1 xs = xs.getD 0 false := by
  rw [semL2n_eq_spec buf1_known]
  have h : ∀ a b c d : Bool, lutBit4 BUF1 a b c d = a := by decide
  exact h _ _ _ _

theorem semL4_buf1 (xs : List V2) : semL4 BUF1 xs = xs.getD 0 default := by
  rw [semL4_eq_spec buf1_known]
  unfold specL4
  have : nameOf BUF1 = some "BUF1" := nameOf_of_mem (by decide +kernel)
  rw [this]
  rfl

theorem semL8_buf1 (xs : List V3) : semL8 BUF1 xs = xs.getD 0 default := by
  rw [semL8_eq_spec buf1_known]
  unfold specL8
  have : nameOf BUF1 = some "BUF1" := nameOf_of_mem (by decide +kernel)
  rw [this]
  rfl

end KV
