import KyupyVerif.Model.Sig
import KyupyVerif.Model.Prim
/-! Running the LUT semantics on pairs (initial value, final value) is running it on each component. -/
namespace KV
open KV.Sig

/-- LUT-bit semantics of an op row on Booleans (missing operands read 0) -/
def lutSem (code : Nat) (xs : List Bool) : Bool :=
  lutBit4 code (xs.getD 0 false) (xs.getD 1 false) (xs.getD 2 false) (xs.getD 3 false)

def lutSemPair (code : Nat) (ys : List (Bool × Bool)) : Bool × Bool :=
  (lutSem code (ys.map (·.1)), lutSem code (ys.map (·.2)))

theorem getD_map_fst (ys : List (Bool × Bool)) (i : Nat) :
    (ys.map (·.1)).getD i false = (ys.getD i (false, false)).1 := by
  simp only [List.getD_eq_getElem?_getD, List.getElem?_map]
  cases ys[i]? <;> rfl
theorem getD_map_snd (ys : List (Bool × Bool)) (i : Nat) :
    (ys.map (·.2)).getD i false = (ys.getD i (false, false)).2 := by
  simp only [List.getD_eq_getElem?_getD, List.getElem?_map]
  cases ys[i]? <;> rfl

theorem exec_lutSemPair (ops : List Op) (e : Nat → Bool × Bool) (l : Nat) :
    exec lutSemPair ops e l = (exec lutSem ops (fun x => (e x).1) l, exec lutSem ops (fun x => (e x).2) l) := by
  induction ops generalizing e with
  | nil => rfl
  | cons op ops ih =>
    simp only [exec, List.foldl_cons]
    have h1 : (fun x => (execOp lutSemPair e op x).1) = execOp lutSem (fun x => (e x).1) op := by
      funext j; simp only [execOp, upd]; split <;> simp [lutSemPair, List.map_map, Function.comp_def]
    have h2 : (fun x => (execOp lutSemPair e op x).2) = execOp lutSem (fun x => (e x).2) op := by
      funext j; simp only [execOp, upd]; split <;> simp [lutSemPair, List.map_map, Function.comp_def]
    have := ih (execOp lutSemPair e op)
    simp only [exec] at this
    rw [this, h1, h2]

end KV
