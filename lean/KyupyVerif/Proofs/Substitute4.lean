import KyupyVerif.Proofs.SubstituteWire2
import KyupyVerif.Proofs.TransformSem2
/-! Helper lemmas for C10 (`substitute`), part 6: the regular case — names and order of the state elements, and the
equations of the lines outside the substituted cell. -/
namespace KV.Transform
open KV

theorem regularB_spec (h : NNet) (c : Nat) (m : NNet) (hr : regularB h c m = true) :
    ∃ sh dn, implShape m = some sh ∧ sh.des = some dn ∧
      NoIgnored m (sh.inPorts.zip (padTo (h.net.node c).ins sh.inPorts.length)) ∧
      (h.net.node c).outs.length = sh.outLines.length ∧ (h.net.node c).outs.all (·.isSome) = true := by
  unfold regularB at hr
  split at hr
  · exact absurd hr (by simp)
  · rename_i sh hs
    simp only [Bool.and_eq_true, beq_iff_eq] at hr
    obtain ⟨⟨⟨h1, h2⟩, h3⟩, h4⟩ := hr
    cases hd : sh.des with
    | none => rw [hd] at h1; simp at h1
    | some dn =>
      refine ⟨sh, dn, hs, hd, ?_, h3, h4⟩
      intro p hp hsome
      have := List.all_eq_true.mp h2 p hp
      simpa [hsome] using this

/-- in the regular case nothing is removed: the result is the circuit `substituteCore` builds, with the outputs of the
    copied forks made dense -/
theorem substitute_regular_eq' (h : NNet) (c : Nat) (m h' : NNet) (hr : regularB h c m = true) (he : substitute h c m = some h') :
    ∃ sh dn map h5, implShape m = some sh ∧ sh.des = some dn ∧ substituteCore h c m = some (h5, map, []) ∧
      h' = { h5 with net := densify h5.net map } ∧
      NoIgnored m (sh.inPorts.zip (padTo (h.net.node c).ins sh.inPorts.length)) := by
  obtain ⟨sh, dn, hs, hd, hni, hlen, hall⟩ := regularB_spec h c m hr
  unfold substitute at he
  split at he
  · exact absurd he (by simp)
  · rename_i h5 map dang hcore
    have hnil := substituteCore_dang_nil h c m sh hs h5 map dang hcore hlen hall
    subst hnil
    simp only [removeDangling, List.length_nil, Nat.zero_add] at he
    cases he
    exact ⟨sh, dn, map, h5, hs, hd, hcore, rfl, hni⟩

/-- ... and when no copied fork has a gap (`denseB`) it is exactly that circuit -/
theorem substitute_regular_eq (h : NNet) (c : Nat) (m h' : NNet) (hr : regularB h c m = true) (hdn : denseB h c m = true)
    (he : substitute h c m = some h') :
    ∃ sh dn map, implShape m = some sh ∧ sh.des = some dn ∧ substituteCore h c m = some (h', map, []) ∧
      NoIgnored m (sh.inPorts.zip (padTo (h.net.node c).ins sh.inPorts.length)) := by
  obtain ⟨sh, dn, map, h5, hs, hd, hcore, e, hni⟩ := substitute_regular_eq' h c m h' hr he
  unfold denseB at hdn
  simp only [hcore, Bool.not_eq_true'] at hdn
  rw [densify_of_dense h5.net map hdn] at e
  subst e
  exact ⟨sh, dn, map, hs, hd, hcore, hni⟩

theorem addedKN_noSeq (m : NNet) (hn : String) (dn : Nat)
    (hone : ∀ j, j < m.net.nodes.size → j ≠ dn → isSeqKind (m.net.node j).kind = false) :
    ∀ kn ∈ addedKN m hn (some dn), isSeqKind kn.1 = false := by
  intro kn hkn
  simp only [addedKN, List.mem_filterMap, List.mem_range] at hkn
  obtain ⟨j, hj, e⟩ := hkn
  have hfork : isSeqKind "__fork__" = false := by decide +kernel
  unfold addedOne at e
  dsimp only at e
  split at e
  · split at e
    · rename_i hne
      cases e
      exact hone j hj (fun e => by simp [e] at hne)
    · exact absurd e (by simp)
  · split at e
    · cases e; exact hfork
    · split at e
      · cases e; exact hfork
      · exact absurd e (by simp)

theorem filter_eq_nil_of {α} (q : α → Bool) (l : List α) (h : ∀ x ∈ l, q x = false) : l.filter q = [] := by
  rw [List.filter_eq_nil_iff]
  intro x hx; rw [h x hx]; simp

/-- names (in index order) of the nodes whose kind satisfies `q`, after the host cell took the designated cell's kind and
    the implementation's other nodes (none of them selected) were appended -/
theorem regular_names (h : NNet) (c : Nat) (hc : c < h.net.nodes.size) (k' : String) (added : List (String × String))
    (q : String → Bool) (hq : q k' = q (h.net.node c).kind) (hadd : ∀ kn ∈ added, q kn.1 = false) :
    (((h.kindNames.set c (k', h.names.getD c "")) ++ added).filter fun kn => q kn.1).map (·.2) =
    (h.kindNames.filter fun kn => q kn.1).map (·.2) := by
  rw [List.filter_append, filter_eq_nil_of _ added hadd, List.append_nil]
  have hlen : c < h.kindNames.length := by simp [kindNames_eq, hc]
  apply filter_set_map _ _ _ c _ hlen
  · rw [kindNames_getElem' h c hlen]; exact hq
  · rw [kindNames_getElem' h c hlen]

/-- a line whose driver and the driver's record are the same in two nets has the same equation -/
theorem lineEq_frame {α : Type _} (net net' : Net) (sp : Nat → Option Nat) (z : α) (neg : α → α)
    (prim : String → α → α → α → α → α) (a : Nat → α) (v : Nat → α) (l : Nat)
    (hd : (net'.line l).driver = (net.line l).driver) (hp : (net'.line l).dpin = (net.line l).dpin)
    (hn : net'.node (net.line l).driver = net.node (net.line l).driver) :
    lineEq net' sp z neg prim a v l = lineEq net sp z neg prim a v l := by
  apply lineEq_congr
  · rw [hd, hn]
  · exact hp
  · rw [hd]
  · intro k; rw [hd, hn]

end KV.Transform
