import KyupyVerif.Model.Sig
import KyupyVerif.Proofs.SemAll
/-! List-argument semantics of one op row in the three logics, as dispatched by the real code
(`semL2n/semL2p/semL2c`, `semL4`, `semL8` — from the generated dispatchers) and as specified
(`specL2` = LUT bit, `specL4/specL8` = documented composition of the primitive named by the code). -/
namespace KV
open KV.Sig

def nameOf (code : Nat) : Option String := (Gen.prims.find? (·.2 == code)).map (·.1)

abbrev arg {α} (xs : List α) (i : Nat) (d : α) : α := xs.getD i d

def semL2n (code : Nat) (xs : List Bool) : Bool := Gen.sem2n code (arg xs 0 false) (arg xs 1 false) (arg xs 2 false) (arg xs 3 false)
def semL2p (code : Nat) (xs : List Bool) : Bool := Gen.sem2p code (arg xs 0 false) (arg xs 1 false) (arg xs 2 false) (arg xs 3 false)
def semL2c (code : Nat) (xs : List Bool) : Bool := Gen.sem2c code (arg xs 0 false) (arg xs 1 false) (arg xs 2 false) (arg xs 3 false)
def specL2 (code : Nat) (xs : List Bool) : Bool := lutBit4 code (arg xs 0 false) (arg xs 1 false) (arg xs 2 false) (arg xs 3 false)

def semL4 (code : Nat) (xs : List V2) : V2 :=
  (Gen.sem4 code (.ofV2 (arg xs 0 default)) (.ofV2 (arg xs 1 default)) (.ofV2 (arg xs 2 default)) (.ofV2 (arg xs 3 default))).toV2
def semL8 (code : Nat) (xs : List V3) : V3 :=
  (Gen.sem8 code (.ofV3 (arg xs 0 default)) (.ofV3 (arg xs 1 default)) (.ofV3 (arg xs 2 default)) (.ofV3 (arg xs 3 default))).toV3

def specL4 (code : Nat) (xs : List V2) : V2 :=
  match (nameOf code).bind comp4 with
  | some f => f (arg xs 0 default) (arg xs 1 default) (arg xs 2 default) (arg xs 3 default)
  | none => default
def specL8 (code : Nat) (xs : List V3) : V3 :=
  match (nameOf code).bind comp8 with
  | some f => f (arg xs 0 default) (arg xs 1 default) (arg xs 2 default) (arg xs 3 default)
  | none => default

/-- the op codes that exist: `sim.names` -/
def KnownCode (code : Nat) : Prop := ∃ name, (name, code) ∈ Gen.prims

theorem codes_nodup : (Gen.prims.map (·.2)).Nodup := by decide +kernel

theorem nameOf_of_mem {name : String} {code : Nat} (h : (name, code) ∈ Gen.prims) : nameOf code = some name := by
  unfold nameOf
  have hnd := codes_nodup
  generalize Gen.prims = l at h hnd
  induction l with
  | nil => cases h
  | cons e l ih =>
    simp only [List.map_cons, List.nodup_cons] at hnd
    simp only [List.find?_cons]
    cases List.mem_cons.mp h with
    | inl he => subst he; simp
    | inr hl =>
      have hne : (e.2 == code) = false := by
        apply beq_false_of_ne; intro heq
        exact hnd.1 (List.mem_map.mpr ⟨(name, code), hl, heq.symm⟩)
      simp only [hne]; exact ih hl hnd.2

theorem name_in_primNames {name : String} {code : Nat} (h : (name, code) ∈ Gen.prims) : name ∈ primNames := by
  have := prims_names.1
  simp only [List.all_eq_true, List.mem_map, forall_exists_index, and_imp] at this
  have := this name (name, code) h rfl
  simpa using this

theorem semL8_eq_spec {code : Nat} (h : KnownCode code) (xs : List V3) : semL8 code xs = specL8 code xs := by
  obtain ⟨name, hm⟩ := h
  obtain ⟨f, hf, hall⟩ := sem8_eq_comp hm
  unfold semL8 specL8
  rw [nameOf_of_mem hm]; simp only [Option.bind_some, hf]
  exact hall _ _ _ _

theorem semL4_eq_spec {code : Nat} (h : KnownCode code) (xs : List V2) : semL4 code xs = specL4 code xs := by
  obtain ⟨name, hm⟩ := h
  obtain ⟨f, hf, hall⟩ := sem4_eq_comp hm
  unfold semL4 specL4
  rw [nameOf_of_mem hm]; simp only [Option.bind_some, hf]
  exact hall _ _ _ _

theorem semL2n_eq_spec {code : Nat} (h : KnownCode code) (xs : List Bool) : semL2n code xs = specL2 code xs := by
  obtain ⟨name, hm⟩ := h; exact (sem2_eq sem2n_all hm _ _ _ _).1
theorem semL2p_eq_spec {code : Nat} (h : KnownCode code) (xs : List Bool) : semL2p code xs = specL2 code xs := by
  obtain ⟨name, hm⟩ := h; exact (sem2_eq sem2p_all hm _ _ _ _).1
theorem semL2c_eq_spec {code : Nat} (h : KnownCode code) (xs : List Bool) : semL2c code xs = specL2 code xs := by
  obtain ⟨name, hm⟩ := h; exact (sem2_eq sem2c_all hm _ _ _ _).1

/-- the LUT bit of a known code is the documented formula of its name -/
theorem specL2_formula {name : String} {code : Nat} (hm : (name, code) ∈ Gen.prims) (a b c d : Bool) :
    formula name a b c d = some (lutBit4 code a b c d) := by
  have := sem2_eq sem2n_all hm a b c d
  rw [this.2, this.1]

/-- programs whose op codes all exist -/
def KnownProg (ops : List Op) : Prop := ∀ op ∈ ops, KnownCode op.code

end KV
