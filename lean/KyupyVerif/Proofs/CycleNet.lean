import KyupyVerif.Proofs.Cycle
import KyupyVerif.Proofs.CycleArr
import KyupyVerif.Proofs.StripLinkMem
/-! Facts about the tables of a well-formed netlist without fork stripping, and the one-cycle / k-cycle statements for the
op program `genOps` of every well-formed netlist in every topological order. -/
namespace KV.Cycle
open KV KV.Sig

theorem sigOps_false (tbl : List PrefixRow) (net : Net) (order : List Nat) :
    sigOps tbl net order false = (genOps tbl net order false).map OpRow.toOp := by
  unfold sigOps
  apply List.map_congr_left
  intro r _
  simp only [viaStem_false, OpRow.toOp]

theorem capSig_false (net : Net) (p : Nat) :
    capSig net false p = match (sNodeAt net p).inPin 0 with | some l => l | none => net.idx.zero := by
  unfold capSig capSigW
  split <;> simp [viaStem_false, *]

theorem node_oob (net : Net) (n : Nat) (h : net.nodes.size ≤ n) : net.node n = default := by
  unfold Net.node
  rw [Array.getD_eq_getD_getElem?, Array.getElem?_eq_none h]
  rfl

/-- a connected data pin of an `s_nodes` entry names a line of the netlist -/
theorem sNode_pin_lt (net : Net) (hwf : net.wfB = true) (p l : Nat) (h : (sNodeAt net p).inPin 0 = some l) :
    l < net.lines.size := by
  unfold sNodeAt at h
  by_cases hn : net.sNodes.getD p 0 < net.nodes.size
  · exact (wf_in hwf hn (inPin_some h)).1
  · rw [node_oob net _ (by omega)] at h
    cases h

/-- the captured signal is never the scratch slot -/
theorem capSig_notJunk (net : Net) (hwf : net.wfB = true) (p : Nat) : Jt net (capSig net false p) = false := by
  rw [capSig_false]
  obtain ⟨hz, ht, _⟩ := idx_vals net
  simp only [Jt, beq_eq_false_iff_ne]
  cases h : (sNodeAt net p).inPin 0 with
  | none => simp only; omega
  | some l => have := sNode_pin_lt net hwf p l h; simp only; omega

theorem orderOK_lt {net : Net} {order : List Nat} (ho : orderOKB net order = true) : ∀ n ∈ order, n < net.nodes.size := by
  unfold orderOKB at ho
  simp only [Bool.and_eq_true, List.all_eq_true, decide_eq_true_eq] at ho
  exact ho.1.2

/-- every op of the program writes a line or the scratch slot -/
theorem genOps_out (tbl : List PrefixRow) (net : Net) (order : List Nat) (strip : Bool) (hwf : net.wfB = true)
    (hlt : ∀ n ∈ order, n < net.nodes.size) (r : OpRow) (hr : r ∈ genOps tbl net order strip) :
    r.out = net.idx.tmp ∨ r.out < net.lines.size := by
  unfold genOps at hr
  simp only [List.mem_flatMap] at hr
  obtain ⟨n, hn, hr⟩ := hr
  rcases nodeOps_out tbl net net.sNodes net.idx strip n r hr with h | ⟨pin, hpin⟩
  · exact Or.inl h
  · exact Or.inr (wf_out hwf (hlt n hn) hpin).1

theorem genOps_out_ne_zero (tbl : List PrefixRow) (net : Net) (order : List Nat) (hwf : net.wfB = true)
    (hlt : ∀ n ∈ order, n < net.nodes.size) (o : Op) (ho : o ∈ (genOps tbl net order false).map OpRow.toOp) :
    o.out ≠ net.idx.zero := by
  obtain ⟨r, hr, rfl⟩ := List.mem_map.1 ho
  obtain ⟨hz, ht, _⟩ := idx_vals net
  have := genOps_out tbl net order false hwf hlt r hr
  show r.out ≠ _
  omega

theorem sigOps_out (tbl : List PrefixRow) (net : Net) (order : List Nat) (strip : Bool) (hwf : net.wfB = true)
    (hlt : ∀ n ∈ order, n < net.nodes.size) (o : Op) (ho : o ∈ sigOps tbl net order strip) : o.out < net.idx.len := by
  unfold sigOps at ho
  obtain ⟨r, hr, rfl⟩ := List.mem_map.1 ho
  have := genOps_out tbl net order strip hwf hlt r hr
  simp only [Net.idx] at this ⊢
  omega

theorem pippi_lt (net : Net) (strip : Bool) (px : Nat × Nat) (h : px ∈ (tabsOf net strip).pippi) : px.2 < net.idx.len := by
  simp only [tabsOf, List.mem_map, List.mem_append] at h
  obtain ⟨p, hp, rfl⟩ := h
  have := io_le_sNodes net
  have hlt : p < net.sNodes.length := by
    rcases hp with hp | hp
    · have := ((mem_piS net p).1 hp).1; omega
    · exact ((mem_ppiUsedS net p).1 hp).1.2
  simp only [Net.idx]
  omega

theorem isPoppo_of (net : Net) (p : Nat) (hp : p < net.sNodes.length)
    (hc : net.io.length ≤ p ∨ ((sNodeAt net p).inPin 0).isSome = true) : isPoppo net p = true := by
  unfold isPoppo
  split
  · rcases hc with h' | h'
    · omega
    · exact h'
  · simpa using hp

theorem captureRow_at {α} (net : Net) (strip : Bool) (sol : Nat → α) (s1 : List α) (p : Nat) (hp : p < s1.length)
    (hc : isPoppo net p = true) : (captureRow net strip sol s1)[p]? = some (sol (capSig net strip p)) := by
  unfold captureRow
  rw [List.getElem?_mapIdx, List.getElem?_eq_getElem hp]
  simp [hc]

theorem captureRow_skip {α} (net : Net) (strip : Bool) (sol : Nat → α) (s1 : List α) (p : Nat)
    (hc : isPoppo net p = false) : (captureRow net strip sol s1)[p]? = s1[p]? := by
  unfold captureRow
  rw [List.getElem?_mapIdx]
  cases s1[p]? <;> simp [hc]

theorem nextRow_state {α} (net : Net) (strip : Bool) (merge : α → α → α) (d : α) (sol : Nat → α) (a : List α) (p : Nat)
    (hio : net.io.length ≤ p) (hp : p < a.length) :
    (nextRow net strip merge sol a)[p]? = some (merge (a.getD p d) (sol (capSig net strip p))) := by
  unfold nextRow
  rw [List.getElem?_mapIdx, List.getElem?_eq_getElem hp, List.getD_eq_getElem?_getD, List.getElem?_eq_getElem hp]
  simp [hio]

theorem captureRow_captureRow {α} (net : Net) (strip : Bool) (sol sol' : Nat → α) (s1 : List α) :
    captureRow net strip sol' (captureRow net strip sol s1) = captureRow net strip sol' s1 := by
  apply List.ext_getElem?
  intro i
  unfold captureRow
  simp only [List.getElem?_mapIdx]
  cases s1[i]? with
  | none => rfl
  | some v => by_cases h : isPoppo net i = true <;> simp [h]

/-- the program of a well-formed netlist in a topological order computes what ANY solution of the gate equations says,
    on every signal but the scratch slot -/
theorem sol_eq_val {α} (tbl : List PrefixRow) (net : Net) (order : List Nat) (hwf : net.wfB = true)
    (ho : orderOKB net order = true) (sem : Op → List α → α) (e val : Nat → α)
    (hval : SolvesJ (Jt net) sem ((genOps tbl net order false).map OpRow.toOp) e val) :
    ∀ x, Jt net x = false → execG sem (sigOps tbl net order false) e x = val x := by
  intro x hx
  rw [sigOps_false]
  exact (solution_uniqueJ (Jt net) sem _ (genOps_WOJ tbl net order false hwf ho) e val hval x hx).symm

/-- `s[1]` after j + 1 applications of the one-cycle map: the capture of the labelling of the j-th assignment, on top of the
    ORIGINAL `s[1]` (positions nobody captures keep their content for ever) -/
theorem iter_stepS_s1 {α} (sem : Op → List α → α) (ops : List Op) (net : Net) (strip : Bool) (merge : α → α → α) (d : α)
    (env : Nat → α) (j : Nat) (s : S α) :
    (iter (stepS sem ops net strip merge d env) (j + 1) s).s1 =
      captureRow net strip (solOf sem ops (tabsOf net strip) d env (iter (nextState sem ops net strip merge d env) j s.s0)) s.s1 := by
  have key : ∀ j (sol' : Nat → α), captureRow net strip sol' (iter (stepS sem ops net strip merge d env) j s).s1 =
      captureRow net strip sol' s.s1 := by
    intro j
    induction j with
    | zero => intro _; rfl
    | succ j ih =>
      intro sol'
      rw [iter_succ']
      show captureRow net strip sol' (captureRow net strip _ _) = _
      rw [captureRow_captureRow, ih]
  rw [iter_succ']
  show captureRow net strip _ _ = _
  rw [key j, iter_stepS_s0]

end KV.Cycle
