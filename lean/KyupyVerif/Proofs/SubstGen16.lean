import KyupyVerif.Proofs.SubstGen15
/-! Helper lemmas for C10 (`substitute_sem_general`), part 16: the general certificate for `substitute` with an implementation
without designated cell (`substitute_general_none`): the instance is removed, every node of the implementation is copied. -/
namespace KV.Transform
open KV

theorem substitute_general_none {α : Type _} (z : α) (neg : α → α) (prim : String → α → α → α → α → α) (h m h' : NNet) (c : Nat)
    (w : WFm h) (mw : WF m) (hc : c < h.net.nodes.size) (hio : c ∉ h.net.io) (hcf : (h.net.node c).isFork = false)
    (sh : Shape) (hs : implShape m = some sh) (hd : sh.des = none)
    (k2 : m.net.io.Nodup) (k3 : ∀ p ∈ m.net.io, isSeqKind (m.net.node p).kind = false)
    (k4 : ∀ p ∈ m.net.io, 0 < (m.net.node p).ins.length → 0 < (m.net.node p).outs.length → (m.net.node p).isFork = true)
    (hself : ∀ ll, GhostLine h c m sh ll → (h.net.line ll).driver ≠ c) (he : substitute h c m = some h') :
    ∃ map R, SubstG z neg prim h c m sh map h' R := by
  unfold substitute at he
  split at he
  · exact absurd he (by simp)
  · rename_i h5 map dang hcore
    obtain ⟨h2v, mapB, b4, b5, ψ, dangB, hfoldB, hciB, hcoB, lk, hnm, hmap, hmapOwn, hsz, hnsz, hio5, hil, hol⟩ :=
      lockstep_none h c m sh w mw hc hio hs hd hself h5 map dang hcore
    obtain ⟨s1, s2, s3, s4⟩ := hostClr_sizes h c m sh
    have hcl : (hostClr h c m sh).net.node c = { h.net.node c with ins := clrIns m sh (h.net.node c).ins } := by
      rw [hostClr_node]; simp [hc]
    have hni : NoIgnored m (sh.inPorts.zip (padTo ((hostClr h c m sh).net.node c).ins sh.inPorts.length)) := by
      rw [hcl]
      show NoIgnored m (sh.inPorts.zip (padTo (clrIns m sh (h.net.node c).ins) sh.inPorts.length))
      rw [zip_clrIns m sh _ hil]
      exact noIgnored_clr m _
    have hdnode : m.net.node m.net.nodes.size = default := by
      simp only [Net.node, Array.getD_eq_getD_getElem?]
      rw [Array.getElem?_eq_none (Nat.le_refl _)]; rfl
    obtain ⟨ct, _⟩ := substituteCore_certP (hostClr h c m sh) c m sh m.net.nodes.size (hostClr_wfr h c m sh w hc hil) mw
      (by rw [s1]; exact hc) (by rw [s3]; exact hio) (by rw [isFork_of_kind_eq (hostClr_kind h c m sh c)]; exact hcf) hs
      (fun hlt => absurd hlt (Nat.lt_irrefl _)) (by rw [hdnode]; exact default_not_fork)
      (fun hm => absurd (mw.io _ hm) (Nat.lt_irrefl _)) k2 k3 k4 hni
      { h2v with net := b5 } mapB dangB h2v b4 b5 id
      (by rw [hcl]; exact Nat.le_of_eq (clrIns_length m sh _ hil)) (by rw [hcl]; exact hol)
      (by rw [phase1_hostClr]; exact hfoldB)
      (by
        rw [hcl]
        show connectIns m mapB (sh.inPorts.zip (padTo (clrIns m sh (h.net.node c).ins) sh.inPorts.length)) _ = _
        rw [zip_clrIns m sh _ hil]; exact hciB)
      (by
        rw [hcl]
        show connectOuts m mapB (sh.outLines.zip ((padTo (h.net.node c).outs sh.outLines.length).map id)) _ = _
        rw [List.map_id]; exact hcoB)
      rfl
    have sv := substV_of_cert z neg prim h c m sh m.net.nodes.size mapB { h2v with net := b5 } w mw hc hil hs ct
    have hnames : ∀ x, x < h5.net.nodes.size →
        h5.names.getD x "" = ({ h2v with net := b5 } : NNet).names.getD (piN h.net.nodes.size c x) "" := hnm
    have emb0 : Emb { h2v with net := b5 } h5 ⟨ψ, piN h.net.nodes.size c⟩ := lk.emb hnames hio5
    have wfm5 : WFm h5 := lk.wfm hnames hio5 ct.wf' sv.ptsBack hnsz
    have x0 : ExtP z neg prim { h2v with net := b5 } h5 ⟨ψ, piN h.net.nodes.size c⟩ := by
      apply ext_of_embP z neg prim _ h5 _ ct.wf' wfm5 emb0
      intro l hl _ k l0 hp
      exact lk.lineSurj l0 (ct.wf'.fwdIn _ (ct.wf'.back l hl).1 k l0 hp).1 (sv.pinNotGh _ k l0 (ct.wf'.back l hl).1 hp)
    obtain ⟨dd, wd, _⟩ := densNN_densM (map.toList.filterMap id) h5 wfm5
    have he' : removeDangling (dang.length + h5.net.lines.size + 1) (densNN h5 (map.toList.filterMap id))
        (map.toList.filterMap id) dang = some h' := he
    have ho : ∀ x ∈ map.toList.filterMap id, x < (densNN h5 (map.toList.filterMap id)).net.nodes.size := by
      intro x hx
      obtain ⟨k, hk⟩ := mem_map_values map x hx
      rw [dd.nsize]
      exact (hmapOwn k x hk).2
    obtain ⟨w', r, e, t, sq, xr⟩ := removeDangling_extP z neg prim _ _ _ dang h' wd ho he'
    have e5 : Emb h5 h' (Ren.id.comp r) :=
      ((dd.emb wfm5).trans e).weaken (X' := fun _ => False) (fun j _ hx => by rcases hx with hx | hx <;> exact hx)
    have x5 : ExtP z neg prim h5 h' (Ren.id.comp r) := ExtP.trans (dd.emb wfm5) e (dd.extP wfm5 z neg prim) xr
    have eV : Emb { h2v with net := b5 } h' ((⟨ψ, piN h.net.nodes.size c⟩ : Ren).comp (Ren.id.comp r)) :=
      (emb0.trans e5).weaken (X' := fun _ => False) (fun j _ hx => by rcases hx with hx | hx <;> exact hx)
    have xV : ExtP z neg prim { h2v with net := b5 } h' ((⟨ψ, piN h.net.nodes.size c⟩ : Ren).comp (Ren.id.comp r)) :=
      ExtP.trans emb0 e5 x0 x5
    refine ⟨mapB, _, substG_of sv w eV w' xV ?_ ?_⟩
    · intro d hd' hne
      obtain ⟨x, hx, hx1, _⟩ := piN_surj hc d hne
      have hxlt := hx1 hd'
      have hN5 : h.net.nodes.size - 1 ≤ h5.net.nodes.size := by
        have := sv.nsize
        have hb : ({ h2v with net := b5 } : NNet).net.nodes.size = h5.net.nodes.size + 1 := hsz
        omega
      have hd5 : x < (densNN h5 (map.toList.filterMap id)).net.nodes.size := by rw [dd.nsize]; omega
      have hno : x ∉ map.toList.filterMap id := by
        intro hm
        obtain ⟨k, hk⟩ := mem_map_values map x hm
        have := (hmapOwn k x hk).1
        omega
      obtain ⟨j', hj', ej⟩ := t x hd5 hno
      refine ⟨j', hj', ?_⟩
      show piN h.net.nodes.size c (r.node j') = d
      rw [ej]; exact hx
    · intro j0 y hm hsq
      rw [hmap j0] at hm
      cases hx : map.getD j0 none with
      | none => rw [hx] at hm; simp at hm
      | some x =>
        rw [hx] at hm
        simp only [Option.map_some, Option.some.injEq] at hm
        have hx5 : x < h5.net.nodes.size := (hmapOwn j0 x hx).2
        have hk : (h5.net.node x).kind = (({ h2v with net := b5 } : NNet).net.node (piN h.net.nodes.size c x)).kind := lk.kind x hx5
        obtain ⟨j', hj', ej⟩ := sq x (by rw [dd.nsize]; exact hx5) (by rw [dd.kind, hk, hm]; exact hsq)
        refine ⟨j', hj', ?_⟩
        show piN h.net.nodes.size c (r.node j') = y
        rw [ej]; exact hm

end KV.Transform
