import KyupyVerif.Proofs.TransformSem
/-! Helper lemmas for C10 (`elim_sem`), part 2: the equation of a line depends only on the driver's kind, the pin, the
assignment at the driver and what the driver reads; node-indexed form of consistency. -/
namespace KV.Transform
open KV

/-- `lineEq` with everything it looks at made explicit: kind of the driver, output pin, the assigned value if the driver
    is an `s_node`, the values read at the input pins (`none` = unconnected) -/
def lineEqN {α} (z : α) (neg : α → α) (prim : String → α → α → α → α → α) (kind : String) (dpin : Nat)
    (spa : Option α) (pv : Nat → Option α) : α :=
  let d : NodeD := ⟨kind, [], []⟩
  let pinVal := fun (i : Nat) => (pv i).getD z
  match spa with
  | some ap =>
    if d.isSeq then (if d.isDff && dpin == 1 then neg ap else ap)
    else match pv 0 with
      | some x => if d.isFork then x else ap
      | none => ap
  | none =>
    if d.isFork then pinVal 0
    else match specPrimName d.lkind (pv 2).isSome (pv 3).isSome with
      | some name => prim name (pinVal 0) (pinVal 1) (pinVal 2) (pinVal 3)
      | none => z

theorem lineEq_eq_N {α} (net : Net) (sp : Nat → Option Nat) (z : α) (neg : α → α) (prim : String → α → α → α → α → α)
    (a : Nat → α) (v : Nat → α) (l : Nat) :
    lineEq net sp z neg prim a v l =
      lineEqN z neg prim (net.node (net.line l).driver).kind (net.line l).dpin ((sp (net.line l).driver).map a)
        (fun k => ((net.node (net.line l).driver).inPin k).map v) := by
  simp only [lineEq, lineEqN]
  have e1 : (⟨(net.node (net.line l).driver).kind, [], []⟩ : NodeD).isSeq = (net.node (net.line l).driver).isSeq := rfl
  have e2 : (⟨(net.node (net.line l).driver).kind, [], []⟩ : NodeD).isDff = (net.node (net.line l).driver).isDff := rfl
  have e3 : (⟨(net.node (net.line l).driver).kind, [], []⟩ : NodeD).isFork = (net.node (net.line l).driver).isFork := rfl
  have e4 : (⟨(net.node (net.line l).driver).kind, [], []⟩ : NodeD).lkind = (net.node (net.line l).driver).lkind := rfl
  rw [e1, e2, e3, e4]
  cases sp (net.line l).driver <;> cases (net.node (net.line l).driver).inPin 0 <;>
    cases (net.node (net.line l).driver).inPin 1 <;> cases (net.node (net.line l).driver).inPin 2 <;>
    cases (net.node (net.line l).driver).inPin 3 <;> rfl

/-- two lines (of possibly different nets) whose drivers look alike carry the same equation -/
theorem lineEq_congr {α} (net net' : Net) (sp sp' : Nat → Option Nat) (z : α) (neg : α → α)
    (prim : String → α → α → α → α → α) (a a' : Nat → α) (v v' : Nat → α) (l l' : Nat)
    (hk : (net'.node (net'.line l').driver).kind = (net.node (net.line l).driver).kind)
    (hd : (net'.line l').dpin = (net.line l).dpin)
    (hs : (sp' (net'.line l').driver).map a' = (sp (net.line l).driver).map a)
    (hv : ∀ k, ((net'.node (net'.line l').driver).inPin k).map v' = ((net.node (net.line l).driver).inPin k).map v) :
    lineEq net' sp' z neg prim a' v' l' = lineEq net sp z neg prim a v l := by
  rw [lineEq_eq_N, lineEq_eq_N, hk, hd, hs]
  congr 1
  funext k; exact hv k

/-- node-indexed reading of the assignment: an `s_node` is its own position -/
def spN (net : Net) (n : Nat) : Option Nat := if net.sNodes.contains n then some n else none

/-- consistency with the assignment given per node and the labelling as a function -/
def ConsN {α} (nn : NNet) (z : α) (neg : α → α) (prim : String → α → α → α → α → α) (an : Nat → α) (v : Nat → α) : Prop :=
  ∀ l, l < nn.net.lines.size → v l = lineEq nn.net (spN nn.net) z neg prim an v l

end KV.Transform
