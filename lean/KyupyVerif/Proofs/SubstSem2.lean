import KyupyVerif.Proofs.SubstSem1
/-! Helper lemmas for C10 (`substitute_sem`), part 2: the structural certificate `SubstCert` (everything the semantic
argument uses about the result of `substitute`), and the classification of implementation nodes and lines under it. -/
namespace KV.Transform
open KV

/-- everything the semantic argument uses about `h' = substitute h c m` in regular use, except the well-formedness of
    the result; `map` = `node_map` -/
structure SubstPre (h : NNet) (c : Nat) (m : NNet) (sh : Shape) (dn : Nat) (map : Array (Option Nat)) (h' : NNet) : Prop where
  hwf : WFr h
  mwf : WF m
  hc : c < h.net.nodes.size
  hio : c ∉ h.net.io
  shape : implShape m = some sh
  des : dn < m.net.nodes.size → sh.des = some dn
  -- side conditions on the implementation
  dnNotPort : dn ∉ m.net.io
  ioNodup : m.net.io.Nodup
  portNotSeq : ∀ p ∈ m.net.io, isSeqKind (m.net.node p).kind = false
  portFork : ∀ p ∈ m.net.io, 0 < (m.net.node p).ins.length → 0 < (m.net.node p).outs.length → (m.net.node p).isFork = true
  -- regular use
  insLen : (h.net.node c).ins.length ≤ sh.inPorts.length
  noIgn : ∀ k ll inn, instIn h c k = some ll → sh.inPorts[k]? = some inn → (m.net.node inn).outs.length ≠ 0
  -- nodes
  nsize : h.net.nodes.size ≤ h'.net.nodes.size
  frameNode : ∀ d, d < h.net.nodes.size → d ≠ c → h'.net.node d = h.net.node d
  io' : h'.net.io = h.net.io
  keyFrame : ∀ d, d < h.net.nodes.size → h'.key d = h.key d
  -- `node_map`
  mapM : ∀ j x, map.getD j none = some x → j < m.net.nodes.size
  mapGe : ∀ j x, map.getD j none = some x → x = c ∨ h.net.nodes.size ≤ x
  mapLt : ∀ j x, map.getD j none = some x → x < h'.net.nodes.size
  mapInj : ∀ j1 j2 x, map.getD j1 none = some x → map.getD j2 none = some x → j1 = j2
  mapDom : ∀ j, j < m.net.nodes.size → ((map.getD j none).isSome ↔
    (j ∉ m.net.io ∨ (0 < (m.net.node j).ins.length ∧ 0 < (m.net.node j).outs.length) ∨
      ((m.net.node j).ins.length = 0 ∧ 1 < (m.net.node j).outs.length)))
  mapDn : dn < m.net.nodes.size → map.getD dn none = some c
  kind' : ∀ j x, map.getD j none = some x →
    (h'.net.node x).kind = if j ∈ m.net.io then "__fork__" else (m.net.node j).kind
  -- lines
  lsize : h'.net.lines.size = h.net.lines.size + (copiedLines m map).length
  drvFrame : ∀ l, l < h.net.lines.size → (h.net.line l).driver ≠ c →
    (h'.net.line l).driver = (h.net.line l).driver ∧ (h'.net.line l).dpin = (h.net.line l).dpin
  rdrFrame : ∀ l, l < h.net.lines.size → (h.net.line l).reader ≠ c →
    (h'.net.line l).reader = (h.net.line l).reader ∧ (h'.net.line l).rpin = (h.net.line l).rpin
  inWire : ∀ k ll, instIn h c k = some ll → ∃ inn r rp, sh.inPorts[k]? = some inn ∧
    inTarget m map inn = some (r, rp) ∧ (h'.net.line ll).reader = r ∧ (h'.net.line ll).rpin = rp
  outWire : ∀ k ll, instOut h c k = some ll → ∃ il d dp, sh.outLines[k]? = some il ∧
    outTarget m map il = some (d, dp) ∧ (h'.net.line ll).driver = d ∧ (h'.net.line ll).dpin = dp
  newLine : ∀ t (ht : t < (copiedLines m map).length),
    h'.net.line (h.net.lines.size + t) = mkLine m map (copiedLines m map)[t]

/-- … with the well-formedness of the result (`WFr`: without the reader-side back pointer; the host may hold lines that are
    stale on the reader side, they stay as they are): the copied lines and every host line that points back in the host
    point back in the result, and a host line at an input pin of the cell or of a new node is a line at an input pin of the
    instance -/
structure SubstCert (h : NNet) (c : Nat) (m : NNet) (sh : Shape) (dn : Nat) (map : Array (Option Nat)) (h' : NNet) : Prop
    extends SubstPre h c m sh dn map h' where
  wf' : WFr h'
  backR : ∀ l, l < h'.net.lines.size → (h.net.lines.size ≤ l ∨ PtsBack h l) → PtsBack h' l
  ownIns : ∀ x k l, (x = c ∨ h.net.nodes.size ≤ x) → (h'.net.node x).ins.getD k none = some l → l < h.net.lines.size →
    ∃ k0, instIn h c k0 = some l

/-! ### `inTarget` / `outTarget` by cases -/
theorem inTarget_cases {m : NNet} {map : Array (Option Nat)} {inn r rp : Nat} (h : inTarget m map inn = some (r, rp)) :
    ((m.net.node inn).outs.length = 1 ∧ ∃ i0, (m.net.node inn).outs.head? = some (some i0) ∧
      map.getD (m.net.line i0).reader none = some r ∧ rp = (m.net.line i0).rpin) ∨
    ((m.net.node inn).outs.length ≠ 1 ∧ map.getD inn none = some r ∧ rp = 0) := by
  unfold inTarget at h
  dsimp only at h
  split at h
  · rename_i h1
    left
    refine ⟨by simpa using h1, ?_⟩
    split at h
    · rename_i l hl
      simp only [Option.map_eq_some_iff, Prod.mk.injEq] at h
      obtain ⟨r', hr, e1, e2⟩ := h
      exact ⟨l, hl, e1 ▸ hr, e2.symm⟩
    · exact absurd h (by simp)
  · rename_i h1
    right
    simp only [Option.map_eq_some_iff, Prod.mk.injEq] at h
    obtain ⟨r', hr, e1, e2⟩ := h
    exact ⟨by simpa using h1, e1 ▸ hr, e2.symm⟩

theorem outTarget_cases {m : NNet} {map : Array (Option Nat)} {l d dp : Nat} (h : outTarget m map l = some (d, dp)) :
    (0 < (m.net.node (m.net.line l).reader).outs.length ∧ map.getD (m.net.line l).reader none = some d ∧
      dp = (m.net.node (m.net.line l).reader).outs.length) ∨
    ((m.net.node (m.net.line l).reader).outs.length = 0 ∧ map.getD (m.net.line l).driver none = some d ∧
      dp = (m.net.line l).dpin) := by
  unfold outTarget at h
  dsimp only at h
  split at h
  · rename_i h1
    left
    simp only [Option.map_eq_some_iff, Prod.mk.injEq] at h
    obtain ⟨r', hr, e1, e2⟩ := h
    exact ⟨by simpa using h1, e1 ▸ hr, e2.symm⟩
  · rename_i h1
    right
    simp only [Option.map_eq_some_iff, Prod.mk.injEq] at h
    obtain ⟨r', hr, e1, e2⟩ := h
    exact ⟨by simpa using h1, e1 ▸ hr, e2.symm⟩

/-! ### ports of the implementation -/
section ports
variable {m : NNet} {sh : Shape} (hs : implShape m = some sh)
include hs

theorem mem_inPorts (p : Nat) : p ∈ sh.inPorts ↔ p ∈ m.net.io ∧ (m.net.node p).ins.length = 0 := by
  rw [(implShape_spec m sh hs).1]; simp [List.mem_filter]

theorem mem_outPorts (p : Nat) : p ∈ sh.outPorts ↔ p ∈ m.net.io ∧ (m.net.node p).ins.length ≠ 0 := by
  rw [(implShape_spec m sh hs).2.1]; simp [List.mem_filter]

theorem inPorts_nodup (hn : m.net.io.Nodup) : sh.inPorts.Nodup := by
  rw [(implShape_spec m sh hs).1]; exact hn.filter _

theorem outPorts_nodup (hn : m.net.io.Nodup) : sh.outPorts.Nodup := by
  rw [(implShape_spec m sh hs).2.1]; exact hn.filter _

theorem inPorts_idxOf (hn : m.net.io.Nodup) (k inn : Nat) (hk : sh.inPorts[k]? = some inn) : sh.inPorts.idxOf inn = k := by
  obtain ⟨hlt, e⟩ := List.getElem?_eq_some_iff.mp hk
  rw [← e]
  exact idxOf_getElem_nodup _ k hlt (inPorts_nodup hs hn)

theorem outLines_port (k il : Nat) (hk : sh.outLines[k]? = some il) :
    ∃ rd, sh.outPorts[k]? = some rd ∧ (m.net.node rd).inPin 0 = some il := by
  have e := (implShape_spec m sh hs).2.2
  have h1 : (sh.outPorts.map (fun p => (m.net.node p).inPin 0))[k]? = some (some il) := by
    rw [e, List.getElem?_map, hk]; rfl
  rw [List.getElem?_map] at h1
  cases hp : sh.outPorts[k]? with
  | none => rw [hp] at h1; simp at h1
  | some rd => rw [hp] at h1; exact ⟨rd, rfl, by simpa using h1⟩

theorem outPorts_line (k rd : Nat) (hk : sh.outPorts[k]? = some rd) :
    ∃ il, sh.outLines[k]? = some il ∧ (m.net.node rd).inPin 0 = some il := by
  have e := (implShape_spec m sh hs).2.2
  have h1 : (sh.outLines.map some)[k]? = some ((m.net.node rd).inPin 0) := by
    rw [← e, List.getElem?_map, hk]; rfl
  rw [List.getElem?_map] at h1
  cases hp : sh.outLines[k]? with
  | none => rw [hp] at h1; simp at h1
  | some il => rw [hp] at h1; exact ⟨il, rfl, by simpa using h1.symm⟩
end ports

end KV.Transform
