import KyupyVerif.Proofs.CircNet
/-! Name-level reading of the gate equations of `Circ.toNet`.

A labelling of the lines is re-indexed by READER END POINTS (`w : Ep → α`: the value arriving at a fork / at a cell pin); the
specification evaluator's equation `lineEq` of line `i` of the dump becomes `driveVal` of the line's driver end point: a function
of the kind of the driver's node, its position in `s_nodes`, and the values arriving at the driver node's own input pins — no
line indices, no node indices (`toNet_lineEq`).  What a format-specific proof still has to supply is membership knowledge
about `flatLines` (which lines exist) and the `s_nodes` positions. -/
namespace KV.Netlist
open KV

/-! ## the last index with a property -/

def lastWith {β} (P : β → Bool) (xs : List β) (k : Nat := 0) : Option Nat :=
  (((xs.zipIdx k).filter fun p => P p.1).getLast?).map (·.2)

theorem lastWith_nil {β} (P : β → Bool) (k : Nat) : lastWith P [] k = none := rfl

theorem lastWith_cons {β} (P : β → Bool) (x : β) (xs : List β) (k : Nat) :
    lastWith P (x :: xs) k = if P x then some ((lastWith P xs (k + 1)).getD k) else lastWith P xs (k + 1) := by
  unfold lastWith
  simp only [List.zipIdx_cons, List.filter_cons]
  by_cases h : P x
  · simp only [h, if_true, List.getLast?_cons, Option.map_some]
    cases ((xs.zipIdx (k + 1)).filter fun p => P p.1).getLast? <;> rfl
  · simp only [h, Bool.false_eq_true, if_false]

theorem lastWith_congr {β γ} (P : β → Bool) (Q : γ → Bool) (xs : List β) (ys : List γ) (k : Nat)
    (hlen : xs.length = ys.length) (h : ∀ (j : Nat) x y, xs[j]? = some x → ys[j]? = some y → P x = Q y) :
    lastWith P xs k = lastWith Q ys k := by
  induction xs generalizing ys k with
  | nil =>
    cases ys with
    | nil => rfl
    | cons _ _ => cases hlen
  | cons x xs ih =>
    cases ys with
    | nil => cases hlen
    | cons y ys =>
      rw [lastWith_cons, lastWith_cons, h 0 x y rfl rfl,
        ih ys (k + 1) (by simpa using hlen) (fun j a b ha hb => h (j + 1) a b (by simpa using ha) (by simpa using hb))]

theorem lastWith_some {β} (P : β → Bool) (xs : List β) (k j : Nat) (h : lastWith P xs k = some j) :
    k ≤ j ∧ ∃ x, xs[j - k]? = some x ∧ P x = true := by
  induction xs generalizing k with
  | nil => cases h
  | cons x xs ih =>
    rw [lastWith_cons] at h
    by_cases hp : P x
    · simp only [hp, if_true, Option.some.injEq] at h
      cases hl : lastWith P xs (k + 1) with
      | none =>
        rw [hl] at h
        simp only [Option.getD_none] at h
        subst h
        exact ⟨Nat.le_refl _, x, by simp, hp⟩
      | some j' =>
        rw [hl] at h
        simp only [Option.getD_some] at h
        subst h
        obtain ⟨h1, y, h2, h3⟩ := ih (k + 1) hl
        refine ⟨by omega, y, ?_, h3⟩
        have : j' - k = (j' - (k + 1)) + 1 := by omega
        rw [this]; simpa using h2
    · simp only [hp, Bool.false_eq_true, if_false] at h
      obtain ⟨h1, y, h2, h3⟩ := ih (k + 1) h
      refine ⟨by omega, y, ?_, h3⟩
      have : j - k = (j - (k + 1)) + 1 := by omega
      rw [this]; simpa using h2

theorem lastWith_isSome {β} (P : β → Bool) (xs : List β) (k : Nat) : (lastWith P xs k).isSome = xs.any P := by
  induction xs generalizing k with
  | nil => rfl
  | cons x xs ih =>
    rw [lastWith_cons, List.any_cons]
    by_cases hp : P x
    · simp [hp]
    · simp [hp, ih]

/-- when at most one element has the property, `lastWith` finds it -/
theorem lastWith_unique {β} (P : β → Bool) (xs : List β) (i : Nat) (x : β) (hx : xs[i]? = some x) (hp : P x = true)
    (hu : ∀ i' x', xs[i']? = some x' → P x' = true → i' = i) : lastWith P xs 0 = some i := by
  have hs : (lastWith P xs 0).isSome = true := by
    rw [lastWith_isSome]
    exact List.any_eq_true.mpr ⟨x, List.mem_of_getElem? hx, hp⟩
  cases hl : lastWith P xs 0 with
  | none => rw [hl] at hs; cases hs
  | some j =>
    obtain ⟨_, y, h2, h3⟩ := lastWith_some P xs 0 j hl
    rw [hu j y (by simpa using h2) h3]

theorem pinTable_lastWith (ls : List LineD) (node pin : LineD → Nat) (n k : Nat) :
    (pinTable ls node pin n).getD k none = lastWith (fun l => node l == n && pin l == k) ls 0 :=
  pinTable_getD ls node pin n k

/-! ## end points -/

def Circ.resolved (C : Circ) (e : Ep) : Prop := C.nodeIdx e < C.nodes.length

instance (C : Circ) (e : Ep) : Decidable (C.resolved e) := by unfold Circ.resolved; infer_instance

/-- kind of the node an end point names (`""` when there is none) -/
def Circ.kindOf (C : Circ) (e : Ep) : String := (C.nodes.getD (C.nodeIdx e) default).kind

theorem resolved_fork_spec (C : Circ) (n : String) (h : C.resolved (.fork n)) :
    (C.nodes[C.nodeIdx (.fork n)]'h).kind = forkKind ∧ (C.nodes[C.nodeIdx (.fork n)]'h).name = n := by
  have := @List.findIdx_getElem _ (fun x : NodeM => x.kind == forkKind && x.name == n) C.nodes h
  simp only [Bool.and_eq_true, beq_iff_eq] at this
  exact this

theorem resolved_cell_spec (C : Circ) (n : String) (p : Nat) (h : C.resolved (.cell n p)) :
    (C.nodes[C.nodeIdx (.cell n p)]'h).kind ≠ forkKind ∧ (C.nodes[C.nodeIdx (.cell n p)]'h).name = n := by
  have := @List.findIdx_getElem _ (fun x : NodeM => x.kind != forkKind && x.name == n) C.nodes h
  simp only [Bool.and_eq_true, beq_iff_eq, bne_iff_ne] at this
  exact this

theorem kindOf_fork (C : Circ) (n : String) (h : C.resolved (.fork n)) : C.kindOf (.fork n) = forkKind := by
  unfold Circ.kindOf
  rw [List.getD_eq_getElem?_getD, List.getElem?_eq_getElem h]
  exact (resolved_fork_spec C n h).1

theorem kindOf_cell_ne (C : Circ) (n : String) (p : Nat) (h : C.resolved (.cell n p)) : C.kindOf (.cell n p) ≠ forkKind := by
  unfold Circ.kindOf
  rw [List.getD_eq_getElem?_getD, List.getElem?_eq_getElem h]
  exact (resolved_cell_spec C n p h).1

theorem nodeIdx_cell_pin (C : Circ) (n : String) (p q : Nat) : C.nodeIdx (.cell n p) = C.nodeIdx (.cell n q) := rfl

/-- a resolved end point is determined by its node index and reader pin -/
theorem ep_key_inj (C : Circ) (r r' : Ep) (hr : C.resolved r) (hi : C.nodeIdx r' = C.nodeIdx r) (hp : r'.rpin = r.rpin) : r' = r := by
  have hr' : C.resolved r' := by unfold Circ.resolved; rw [hi]; exact hr
  cases r with
  | fork n =>
    cases r' with
    | fork n' =>
      have h1 := (resolved_fork_spec C n hr).2
      have h2 := (resolved_fork_spec C n' hr').2
      simp only [hi] at h2
      rw [h2.symm.trans h1]
    | cell n' p' =>
      have h1 := (resolved_fork_spec C n hr).1
      have h2 := (resolved_cell_spec C n' p' hr').1
      simp only [hi] at h2
      exact absurd h1 h2
  | cell n p =>
    cases r' with
    | fork n' =>
      have h1 := (resolved_cell_spec C n p hr).1
      have h2 := (resolved_fork_spec C n' hr').1
      simp only [hi] at h2
      exact absurd h2 h1
    | cell n' p' =>
      have h1 := (resolved_cell_spec C n p hr).2
      have h2 := (resolved_cell_spec C n' p' hr').2
      simp only [hi] at h2
      have : p' = p := hp
      rw [h2.symm.trans h1, this]

/-- index of the last line that ends in `r` -/
def inLineOf (L : List (Ep × Ep)) (r : Ep) : Option Nat := lastWith (fun p => p.2 == r) L 0

theorem inLineOf_some (L : List (Ep × Ep)) (r : Ep) (j : Nat) (h : inLineOf L r = some j) :
    ∃ p, L[j]? = some p ∧ p.2 = r := by
  obtain ⟨_, p, h1, h2⟩ := lastWith_some _ L 0 j h
  exact ⟨p, by simpa using h1, by simpa using h2⟩

theorem inLineOf_isSome (L : List (Ep × Ep)) (r : Ep) : (inLineOf L r).isSome = L.any fun p => p.2 == r :=
  lastWith_isSome _ L 0

section
variable (C : Circ) (io : List Nat)

/-- input pin `r.rpin` of the node of a resolved end point `r`: the last line that ends in `r` -/
theorem toNet_inPin_ep (r : Ep) (hr : C.resolved r) :
    ((C.toNet io).node (C.nodeIdx r)).inPin r.rpin = inLineOf (flatLines C) r := by
  rw [toNet_node C io _ hr]
  show (pinTable C.lineDs (·.reader) (·.rpin) (C.nodeIdx r)).getD r.rpin none = _
  rw [pinTable_lastWith]
  apply lastWith_congr
  · exact lineDs_length C
  · intro j x y hx hy
    have hj : j < (flatLines C).length := (List.getElem?_eq_some_iff.mp hy).1
    rw [lineDs_getElem? C j hj] at hx
    have hy' : (flatLines C)[j] = y := by
      have := List.getElem?_eq_getElem hj
      rw [hy] at this
      exact (Option.some.inj this).symm
    simp only [Option.some.injEq] at hx
    subst hx
    simp only [hy']
    by_cases he : y.2 = r
    · simp [he]
    · have : (y.2 == r) = false := by simp [he]
      rw [this]
      simp only [Bool.and_eq_false_iff, beq_eq_false_iff_ne, ne_eq]
      by_cases h1 : C.nodeIdx y.2 = C.nodeIdx r
      · right
        intro h2
        exact he (ep_key_inj C r y.2 hr h1 h2)
      · left; exact h1

/-- a fork has no input pin beyond 0 -/
theorem toNet_inPin_fork_succ (n : String) (k : Nat) (hr : C.resolved (.fork n)) :
    ((C.toNet io).node (C.nodeIdx (.fork n))).inPin (k + 1) = none := by
  rw [toNet_node C io _ hr]
  show (pinTable C.lineDs (·.reader) (·.rpin) (C.nodeIdx (.fork n))).getD (k + 1) none = _
  rw [pinTable_lastWith]
  cases hl : lastWith (fun l : LineD => l.reader == C.nodeIdx (.fork n) && l.rpin == k + 1) C.lineDs 0 with
  | none => rfl
  | some j =>
    exfalso
    obtain ⟨_, ld, h1, h2⟩ := lastWith_some _ _ _ _ hl
    simp only [Nat.sub_zero, Bool.and_eq_true, beq_iff_eq] at h1 h2
    have hj : j < (flatLines C).length := by
      rw [← lineDs_length]; exact (List.getElem?_eq_some_iff.mp h1).1
    rw [lineDs_getElem? C j hj] at h1
    simp only [Option.some.injEq] at h1
    subst h1
    simp only at h2
    have := ep_key_inj C (.fork n) ((flatLines C)[j]).2 hr h2.1
    cases hq : ((flatLines C)[j]).2 with
    | fork n' => rw [hq] at h2; simp [Ep.rpin] at h2
    | cell n' p' =>
      have hr' : C.resolved (.cell n' p') := by
        unfold Circ.resolved; rw [← hq, h2.1]; exact hr
      have h3 := (resolved_cell_spec C n' p' hr').1
      have h4 := (resolved_fork_spec C n hr).1
      rw [hq] at h2
      simp only [h2.1] at h3
      exact h3 h4

end

/-! ## the gate equation of a line in terms of its driver end point -/

/-- the reader end point that is input pin `k` of the node of `d` -/
def Ep.inEp : Ep → Nat → Option Ep
  | .fork n, 0 => some (.fork n)
  | .fork _, _ + 1 => none
  | .cell n _, k => some (.cell n k)

/-- the output pin a cell end point names -/
def Ep.cpin : Ep → Nat
  | .fork _ => 0
  | .cell _ p => p

/-- the value arriving at input pin `k` of the node of `d` (`none`: nothing is connected) -/
def inVal {α} (L : List (Ep × Ep)) (w : Ep → α) (d : Ep) (k : Nat) : Option α :=
  match d.inEp k with
  | some e => if L.any (fun p => p.2 == e) then some (w e) else none
  | none => none

/-- what the node of the driver end point `d` puts on a line it drives, by names: `K` the kind of the node, `sp` its position
in `s_nodes`, `w` the values arriving at reader end points -/
def driveVal {α} (L : List (Ep × Ep)) (K : String) (sp : Option Nat) (z : α) (neg : α → α)
    (prim : String → α → α → α → α → α) (a : Nat → α) (w : Ep → α) (d : Ep) : α :=
  match sp with
  | some p =>
    if hasSub "dff" K.toLower || hasSub "latch" K.toLower then
      (if hasSub "dff" K.toLower && d.cpin == 1 then neg (a p) else a p)
    else match inVal L w d 0 with
      | some x => if K == forkKind then x else a p
      | none => a p
  | none =>
    if K == forkKind then (inVal L w d 0).getD z
    else match specPrimName K.toLower (inVal L w d 2).isSome (inVal L w d 3).isSome with
      | some name => prim name ((inVal L w d 0).getD z) ((inVal L w d 1).getD z) ((inVal L w d 2).getD z) ((inVal L w d 3).getD z)
      | none => z

section
variable (C : Circ) (io : List Nat)

theorem resolved_inEp (d e : Ep) (k : Nat) (hd : C.resolved d) (he : d.inEp k = some e) :
    C.resolved e ∧ C.nodeIdx e = C.nodeIdx d ∧ e.rpin = k := by
  cases d with
  | fork n =>
    cases k with
    | zero => simp only [Ep.inEp, Option.some.injEq] at he; subst he; exact ⟨hd, rfl, rfl⟩
    | succ k => cases he
  | cell n p =>
    simp only [Ep.inEp, Option.some.injEq] at he; subst he; exact ⟨hd, rfl, rfl⟩

/-- what the labelling `j ↦ w (reader end point of line j)` shows at input pin `k` of the node of `d` -/
theorem toNet_pin_inVal {α} (w : Ep → α) (d : Ep) (k : Nat) (hd : C.resolved d) :
    (((C.toNet io).node (C.nodeIdx d)).inPin k).map (fun j => w ((flatLines C).getD j default).2) =
      inVal (flatLines C) w d k := by
  unfold inVal
  cases he : d.inEp k with
  | none =>
    cases d with
    | fork n =>
      cases k with
      | zero => cases he
      | succ k => rw [toNet_inPin_fork_succ C io n k hd]; rfl
    | cell n p => cases he
  | some e =>
    obtain ⟨h1, h2, h3⟩ := resolved_inEp C d e k hd he
    have := toNet_inPin_ep C io e h1
    rw [h2, h3] at this
    rw [this]
    simp only
    have hs := inLineOf_isSome (flatLines C) e
    cases hl : inLineOf (flatLines C) e with
    | none => rw [hl] at hs; simp only [Option.isSome_none] at hs; rw [← hs]; rfl
    | some j =>
      rw [hl] at hs; simp only [Option.isSome_some] at hs; rw [← hs]
      obtain ⟨p, hp1, hp2⟩ := inLineOf_some _ _ _ hl
      simp only [Option.map_some, if_true, Option.some.injEq]
      rw [List.getD_eq_getElem?_getD, hp1, Option.getD_some, hp2]

/-- **the gate equation of line `i` of the dump, by names** -/
theorem toNet_lineEq {α} (sp : Nat → Option Nat) (z : α) (neg : α → α) (prim : String → α → α → α → α → α) (a : Nat → α)
    (w : Ep → α) (i : Nat) (hi : i < (flatLines C).length) (hd : C.resolved (flatLines C)[i].1) :
    lineEq (C.toNet io) sp z neg prim a (fun j => w ((flatLines C).getD j default).2) i =
      driveVal (flatLines C) (C.kindOf (flatLines C)[i].1) (sp (C.nodeIdx (flatLines C)[i].1)) z neg prim a w (flatLines C)[i].1 := by
  have hk : ((C.toNet io).node (C.nodeIdx (flatLines C)[i].1)).kind = C.kindOf (flatLines C)[i].1 := by
    rw [toNet_node_kind C io _ hd]
    unfold Circ.kindOf
    rw [List.getD_eq_getElem?_getD, List.getElem?_eq_getElem hd]; rfl
  have hdp : (hasSub "dff" (C.kindOf (flatLines C)[i].1).toLower &&
      dpinOf ((flatLines C).take i) (flatLines C)[i].1 == 1) =
      (hasSub "dff" (C.kindOf (flatLines C)[i].1).toLower && (flatLines C)[i].1.cpin == 1) := by
    cases hq : (flatLines C)[i].1 with
    | fork n =>
      rw [hq] at hd
      rw [kindOf_fork C n hd]
      have : hasSub "dff" forkKind.toLower = false := by decide +kernel
      rw [this]; rfl
    | cell n p => rfl
  unfold lineEq driveVal
  simp only [toNet_line C io i hi, NodeD.isSeq, NodeD.isDff, NodeD.isLatch, NodeD.isFork, NodeD.lkind, hk, hdp]
  rw [← toNet_pin_inVal C io w _ 0 hd, ← toNet_pin_inVal C io w _ 1 hd, ← toNet_pin_inVal C io w _ 2 hd,
    ← toNet_pin_inVal C io w _ 3 hd]
  generalize ((C.toNet io).node (C.nodeIdx (flatLines C)[i].1)).inPin 0 = o0
  generalize ((C.toNet io).node (C.nodeIdx (flatLines C)[i].1)).inPin 1 = o1
  generalize ((C.toNet io).node (C.nodeIdx (flatLines C)[i].1)).inPin 2 = o2
  generalize ((C.toNet io).node (C.nodeIdx (flatLines C)[i].1)).inPin 3 = o3
  cases sp (C.nodeIdx (flatLines C)[i].1) <;> cases o0 <;> cases o1 <;> cases o2 <;> cases o3 <;> rfl

end
end KV.Netlist
