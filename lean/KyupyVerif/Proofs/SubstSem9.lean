import KyupyVerif.Proofs.SubstSem8
import KyupyVerif.Proofs.SubstStruct5
import KyupyVerif.Proofs.Densify
/-! Helper lemmas for C10 (`substitute_sem`), part 9: the certificate for `substitute` in regular use under the decidable
side conditions, the converse of `WF.of_wf`, and the packaged semantic statement. -/
namespace KV.Transform
open KV

theorem implOKB_spec (m : NNet) (mw : WF m) (sh : Shape) (dn : Nat) (hs : implShape m = some sh) (hd : sh.des = some dn)
    (hok : implOKB m = true) :
    dn ∉ m.net.io ∧ m.net.io.Nodup ∧ (∀ p ∈ m.net.io, isSeqKind (m.net.node p).kind = false) ∧
    (∀ p ∈ m.net.io, 0 < (m.net.node p).ins.length → 0 < (m.net.node p).outs.length → (m.net.node p).isFork = true) := by
  unfold implOKB at hok
  rw [hs] at hok
  simp only [hd, Bool.and_eq_true, decide_eq_true_eq, List.all_eq_true, Bool.not_eq_true', Bool.or_eq_true] at hok
  obtain ⟨⟨_, h2⟩, h3⟩ := hok
  refine ⟨implShape_des_notPort m mw sh dn hs hd (fun p hp => (h3 p hp).1), h2, fun p hp => (h3 p hp).1, fun p hp hi ho => ?_⟩
  rcases (h3 p hp).2 with h4 | h4
  · simp [hi, ho] at h4
  · exact h4

/-- the decidable well-formedness predicate from its propositional form -/
theorem wf_of_WF {nn : NNet} (w : WF nn) : nn.wf = true := by
  simp only [NNet.wf, Bool.and_eq_true, beq_iff_eq, decide_eq_true_eq, List.all_eq_true, List.mem_range]
  refine ⟨⟨⟨⟨⟨w.names, w.nodup⟩, fun i hi => w.io i hi⟩, ?_⟩, ?_⟩, fun i hi => w.trail i hi⟩
  · simp only [NNet.pinsBack, List.all_eq_true, List.mem_range, Bool.and_eq_true, decide_eq_true_eq, beq_iff_eq]
    intro l hl
    obtain ⟨b1, b2, b3, b4⟩ := w.back l hl
    exact ⟨⟨⟨b1, b2⟩, b3⟩, b4⟩
  · simp only [NNet.pinsFwd, List.all_eq_true, List.mem_range, Bool.and_eq_true]
    intro i hi
    constructor
    · intro p _
      cases hp : (nn.net.node i).inPin p with
      | none => rfl
      | some l =>
        obtain ⟨a1, a2, a3⟩ := w.fwdIn i hi p l hp
        simp [a1, a2, a3]
    · intro p _
      cases hp : (nn.net.node i).outPin p with
      | none => rfl
      | some l =>
        obtain ⟨a1, a2, a3⟩ := w.fwdOut i hi p l hp
        simp [a1, a2, a3]

theorem removeDangling_kept (nn : NNet) (own : List Nat) : ∀ (fuel : Nat) (stack : List (Option Nat)), stack.length < fuel →
    (stack.all fun o => match o with
      | none => true
      | some root => keptRoot nn own root) = true → removeDangling fuel nn own stack = some nn
  | 0, _, h, _ => by omega
  | fuel + 1, [], _, _ => by simp [removeDangling]
  | fuel + 1, none :: rest, h, ha => by
    simp only [removeDangling]
    exact removeDangling_kept nn own fuel rest (by simpa using h) (by simpa using ha)
  | fuel + 1, some root :: rest, h, ha => by
    simp only [List.all_cons, Bool.and_eq_true] at ha
    have ih := removeDangling_kept nn own fuel rest (by simpa using h) ha.2
    have hk := ha.1
    simp only [keptRoot, Bool.or_eq_true] at hk
    simp only [removeDangling]
    split
    · exact ih
    · rename_i h1
      split
      · exact ih
      · rename_i h2
        split
        · exact ih
        · rename_i h3
          split
          · exact ih
          · rename_i h4
            exfalso
            rcases hk with ((hk | hk) | hk) | hk
            · exact h1 hk
            · exact h2 hk
            · exact h3 hk
            · exact h4 hk

/-- what `keepsAllB` says -/
theorem keepsAllB_spec (h : NNet) (c : Nat) (m : NNet) (hr : keepsAllB h c m = true) :
    ∃ sh dn h5 map dang, implShape m = some sh ∧ sh.des = some dn ∧ substituteCore h c m = some (h5, map, dang) ∧
      NoIgnored m (sh.inPorts.zip (padTo (h.net.node c).ins sh.inPorts.length)) ∧
      (dang.all fun o => match o with
        | none => true
        | some root => keptRoot h5 (map.toList.filterMap id) root) = true := by
  unfold keepsAllB at hr
  split at hr
  · rename_i sh h5 map dang hs hcore
    simp only [Bool.and_eq_true] at hr
    obtain ⟨⟨h1, h2⟩, h3⟩ := hr
    cases hd : sh.des with
    | none => rw [hd] at h1; simp at h1
    | some dn =>
      refine ⟨sh, dn, h5, map, dang, hs, hd, hcore, ?_, h3⟩
      intro p hp hsome
      have := List.all_eq_true.mp h2 p hp
      simpa [hsome] using this
  · exact absurd hr (by simp)

/-- when nothing is removed the result is the circuit `substituteCore` builds, with the outputs of the copied forks made
    dense (the loop added with the repair of D30) -/
theorem substitute_of_core (h : NNet) (c : Nat) (m h' h5 : NNet) (map : Array (Option Nat)) (dang : List (Option Nat))
    (hcore : substituteCore h c m = some (h5, map, dang)) (w5 : WF h5)
    (hk : (dang.all fun o => match o with
        | none => true
        | some root => keptRoot h5 (map.toList.filterMap id) root) = true)
    (he : substitute h c m = some h') : h' = densNN h5 (map.toList.filterMap id) := by
  unfold substitute at he
  rw [hcore] at he
  dsimp only at he
  obtain ⟨d, _⟩ := densNN_dens (map.toList.filterMap id) h5 w5
  have hk' : (dang.all fun o => match o with
        | none => true
        | some root => keptRoot (densNN h5 (map.toList.filterMap id)) (map.toList.filterMap id) root) = true := by
    rw [List.all_eq_true] at hk ⊢
    intro o ho
    have := hk o ho
    cases o with
    | none => rfl
    | some root => simpa only [keptRoot_dens d] using this
  have he' : removeDangling (dang.length + h5.net.lines.size + 1) (densNN h5 (map.toList.filterMap id))
      (map.toList.filterMap id) dang = some h' := he
  rw [removeDangling_kept _ _ _ dang (by omega) hk'] at he'
  exact (Option.some.inj he').symm

/-- the same under `keepsAllB`; `w5`: the circuit `substituteCore` builds is well-formed (`substituteCore_cert`) -/
theorem substitute_keepsAll_eq (h : NNet) (c : Nat) (m h' : NNet) (hr : keepsAllB h c m = true) (he : substitute h c m = some h')
    (w5 : ∀ h5 map dang, substituteCore h c m = some (h5, map, dang) → WF h5) :
    ∃ sh dn h5 map dang, implShape m = some sh ∧ sh.des = some dn ∧ substituteCore h c m = some (h5, map, dang) ∧
      h' = densNN h5 (map.toList.filterMap id) ∧
      NoIgnored m (sh.inPorts.zip (padTo (h.net.node c).ins sh.inPorts.length)) := by
  obtain ⟨sh, dn, h5, map, dang, hs, hd, hcore, hni, hk⟩ := keepsAllB_spec h c m hr
  exact ⟨sh, dn, h5, map, dang, hs, hd, hcore,
    substitute_of_core h c m h' h5 map dang hcore (w5 h5 map dang hcore) hk he, hni⟩

/-- regular use is a use in which nothing is removed -/
theorem regularB_keepsAll (h : NNet) (c : Nat) (m h' : NNet) (hr : regularB h c m = true) (he : substitute h c m = some h') :
    keepsAllB h c m = true := by
  obtain ⟨sh, dn, map, h5, hs, hd, hcore, _, hni⟩ := substitute_regular_eq' h c m h' hr he
  unfold keepsAllB
  rw [hs, hcore]
  simp only [hd, Option.isSome_some, Bool.true_and, List.all_nil, Bool.and_true, List.all_eq_true, Bool.or_eq_true,
    Bool.not_eq_true']
  intro p hp
  cases hp2 : p.2 with
  | none => left; rfl
  | some x =>
    right
    have := hni p hp (by rw [hp2]; rfl)
    simpa using this

/-- the certificate for the RESULT of `substitute` when nothing is removed: the circuit `h5` that `substituteCore` builds
    satisfies `SubstCert`, and the result is `h5` with the outputs of the copied forks made dense (`densify`; the same
    circuit when no copied fork has a gap, `denseB`) -/
def SubstCertD (h : NNet) (c : Nat) (m : NNet) (sh : Shape) (dn : Nat) (map : Array (Option Nat)) (h' : NNet) : Prop :=
  ∃ h5, SubstCert h c m sh dn map h5 ∧ WF h5 ∧ dn < m.net.nodes.size ∧ h' = densNN h5 (map.toList.filterMap id)

/-- the certificate for the circuit `substituteCore` builds when nothing is removed -/
theorem substituteCore_cert_keepsAll (h m : NNet) (c : Nat) (hw : WF h) (mw : WF m) (hc : c < h.net.nodes.size)
    (hio : h.net.io.contains c = false) (hcf : (h.net.node c).isFork = false)
    (hr : keepsAllB h c m = true) (hok : implOKB m = true) :
    ∃ sh dn h5 map dang, substituteCore h c m = some (h5, map, dang) ∧ (SubstCert h c m sh dn map h5 ∧ WF h5) ∧ dn < m.net.nodes.size ∧
      (dang.all fun o => match o with
        | none => true
        | some root => keptRoot h5 (map.toList.filterMap id) root) = true := by
  obtain ⟨sh, dn, h5, map, dang, hs, hd, hcore, hni, hk⟩ := keepsAllB_spec h c m hr
  obtain ⟨k1, k2, k3, k4⟩ := implOKB_spec m mw sh dn hs hd hok
  exact ⟨sh, dn, h5, map, dang, hcore, substituteCore_cert h c m sh dn hw mw hc (by simpa using hio) hcf hs hd k1 k2 k3 k4 hni
    h5 map dang hcore, (implShape_des m mw sh dn hs hd).1, hk⟩

/-- the certificate for `substitute` when nothing is removed -/
theorem substitute_cert (h m h' : NNet) (c : Nat) (hw : WF h) (mw : WF m) (hc : c < h.net.nodes.size)
    (hio : h.net.io.contains c = false) (hcf : (h.net.node c).isFork = false)
    (hr : keepsAllB h c m = true) (hok : implOKB m = true) (he : substitute h c m = some h') :
    ∃ sh dn map, SubstCertD h c m sh dn map h' := by
  obtain ⟨sh, dn, h5, map, dang, hcore, ⟨ct, w5⟩, hdl, hk⟩ := substituteCore_cert_keepsAll h m c hw mw hc hio hcf hr hok
  exact ⟨sh, dn, map, h5, ct, w5, hdl, substitute_of_core h c m h' h5 map dang hcore w5 hk he⟩

end KV.Transform

namespace KV.Transform
open KV

section cert
variable {h : NNet} {c : Nat} {m : NNet} {sh : Shape} {dn : Nat} {map : Array (Option Nat)} {h' : NNet}
variable (ct : SubstCert h c m sh dn map h')
include ct

/-- direction "result ⇒ host with hole + implementation", packaged -/
theorem SubstCert.forward {α : Type _} (z : α) (neg : α → α) (prim : String → α → α → α → α → α)
    (S : Nat → Prop) (hS : ∀ s, S s → s < h.net.nodes.size ∧ s ≠ c) (an' v' : Nat → α)
    (hc' : ConsOff h' S z neg prim an' v') :
    ConsOff h (fun d => S d ∨ d = c) z neg prim an' v' ∧
    ∃ anm vm, ImplMatches h c m sh z neg prim anm vm v' ∧
      (∀ j x, j ∉ m.net.io → map.getD j none = some x → anm j = an' x) ∧
      (∀ t (ht : t < (copiedLines m map).length), vm (copiedLines m map)[t] = v' (h.net.lines.size + t)) ∧
      (∀ j x k, map.getD j none = some x → ¬ (j ∈ m.net.io ∧ (m.net.node j).ins.length = 0) →
        ((h'.net.node x).inPin k).map v' = (((cutIns m (deadLine h c m sh)).net.node j).inPin k).map vm) := by
  refine ⟨ct.fw_hole z neg prim an' v' S hc', anmOf h c m sh map z an' v', vmOf h c m sh map z neg prim an' v',
    ⟨ct.fw_cons z neg prim an' v' S hS hc', fun p hp => ct.fw_hP z an' v' p hp,
      fun k il ll hk hll => ct.fw_outs z neg prim an' v' S hS hc' k il ll hk hll⟩,
    fun j x hj hm => ct.fw_hA z an' v' j x hj hm, ?_, ?_⟩
  · intro t ht; exact ((ct.fw_agree z neg prim an' v').new t ht).symm
  · intro j x k hm hnp
    exact ct.reads_eq j x hm hnp v' _ (ct.fw_agree z neg prim an' v') k

/-- direction "host with hole + implementation ⇒ result" (gluing), packaged -/
theorem SubstCert.backward {α : Type _} (z : α) (neg : α → α) (prim : String → α → α → α → α → α)
    (S : Nat → Prop) (an v anm vm : Nat → α)
    (hH : ConsOff h (fun d => S d ∨ d = c) z neg prim an v) (hM : ImplMatches h c m sh z neg prim anm vm v) :
    ∃ an' v', ConsOff h' S z neg prim an' v' ∧ (∀ l, l < h.net.lines.size → v' l = v l) ∧
      (∀ d, d < h.net.nodes.size → d ≠ c → an' d = an d) ∧
      (∀ j x, j ∉ m.net.io → map.getD j none = some x → an' x = anm j) ∧
      (∀ t (ht : t < (copiedLines m map).length), v' (h.net.lines.size + t) = vm (copiedLines m map)[t]) ∧
      (∀ j x k, map.getD j none = some x → ¬ (j ∈ m.net.io ∧ (m.net.node j).ins.length = 0) →
        ((h'.net.node x).inPin k).map v' = (((cutIns m (deadLine h c m sh)).net.node j).inPin k).map vm) := by
  refine ⟨glueA h c m map an anm, glueV h m map v vm, ct.bw_cons z neg prim an v anm vm S hH hM,
    fun l hl => ct.bw_host v vm l hl, fun d hd hne => ct.bw_hostA an anm d hd hne,
    fun j x hj hm => (ct.bw_hA an anm j x hj hm).symm, fun t ht => ct.bw_new v vm t ht, ?_⟩
  intro j x k hm hnp
  exact ct.reads_eq j x hm hnp _ vm (ct.bw_agree z neg prim v anm vm hM) k

end cert

/-! ### the same interface for the result of `substitute` (copied forks made dense) -/
section certD
variable {h : NNet} {c : Nat} {m : NNet} {sh : Shape} {dn : Nat} {map : Array (Option Nat)} {h' : NNet}
variable (ct : SubstCertD h c m sh dn map h')
include ct

theorem SubstCertD.shape : implShape m = some sh := by obtain ⟨h5, c5, _, _, _⟩ := ct; exact c5.shape
theorem SubstCertD.des : sh.des = some dn := by obtain ⟨h5, c5, _, hdl, _⟩ := ct; exact c5.des hdl
theorem SubstCertD.mapDn : map.getD dn none = some c := by obtain ⟨h5, c5, _, hdl, _⟩ := ct; exact c5.mapDn hdl
theorem SubstCertD.mapM : ∀ j x, map.getD j none = some x → j < m.net.nodes.size := by obtain ⟨h5, c5, _, _, _⟩ := ct; exact c5.mapM
theorem SubstCertD.mapGe : ∀ j x, map.getD j none = some x → x = c ∨ h.net.nodes.size ≤ x := by
  obtain ⟨h5, c5, _, _, _⟩ := ct; exact c5.mapGe
theorem SubstCertD.mapInj : ∀ j1 j2 x, map.getD j1 none = some x → map.getD j2 none = some x → j1 = j2 := by
  obtain ⟨h5, c5, _, _, _⟩ := ct; exact c5.mapInj

theorem SubstCertD.wf' : WF h' := by
  obtain ⟨h5, c5, w5, _, e⟩ := ct
  rw [e]; exact (densNN_dens _ h5 w5).2

theorem SubstCertD.nsize : h.net.nodes.size ≤ h'.net.nodes.size := by
  obtain ⟨h5, c5, w5, _, e⟩ := ct
  rw [e, (densNN_dens _ h5 w5).1.nsize]; exact c5.nsize

theorem SubstCertD.lsize : h'.net.lines.size = h.net.lines.size + (copiedLines m map).length := by
  obtain ⟨h5, c5, w5, _, e⟩ := ct
  rw [e, (densNN_dens _ h5 w5).1.lsize]; exact c5.lsize

theorem SubstCertD.io' : h'.net.io = h.net.io := by
  obtain ⟨h5, c5, w5, _, e⟩ := ct
  rw [e, (densNN_dens _ h5 w5).1.io]; exact c5.io'

theorem SubstCertD.mapLt : ∀ j x, map.getD j none = some x → x < h'.net.nodes.size := by
  obtain ⟨h5, c5, w5, _, e⟩ := ct
  intro j x hm
  rw [e, (densNN_dens _ h5 w5).1.nsize]; exact c5.mapLt j x hm

theorem SubstCertD.kind' : ∀ j x, map.getD j none = some x →
    (h'.net.node x).kind = if j ∈ m.net.io then "__fork__" else (m.net.node j).kind := by
  obtain ⟨h5, c5, w5, _, e⟩ := ct
  intro j x hm
  rw [e, (densNN_dens _ h5 w5).1.kind]; exact c5.kind' j x hm

/-- the loop touches only images of `node_map`: every other node of the host keeps its record -/
theorem SubstCertD.frameNode : ∀ d, d < h.net.nodes.size → d ≠ c → h'.net.node d = h.net.node d := by
  obtain ⟨h5, c5, w5, _, e⟩ := ct
  intro d hd hne
  rw [e, (densNN_dens _ h5 w5).1.frame d, c5.frameNode d hd hne]
  intro hmem
  obtain ⟨k, hk⟩ := mem_map_values map d hmem
  rcases c5.mapGe k d hk with h1 | h1
  · exact hne h1
  · omega

theorem SubstCertD.keyFrame : ∀ d, d < h.net.nodes.size → h'.key d = h.key d := by
  obtain ⟨h5, c5, w5, _, e⟩ := ct
  intro d hd
  rw [← c5.keyFrame d hd, e]
  have dd := (densNN_dens (map.toList.filterMap id) h5 w5).1
  simp only [NNet.key, dd.names, NodeD.isFork, dd.kind]

theorem SubstCertD.forward {α : Type _} (z : α) (neg : α → α) (prim : String → α → α → α → α → α)
    (S : Nat → Prop) (hS : ∀ s, S s → s < h.net.nodes.size ∧ s ≠ c) (an' v' : Nat → α)
    (hc' : ConsOff h' S z neg prim an' v') :
    ConsOff h (fun d => S d ∨ d = c) z neg prim an' v' ∧
    ∃ anm vm, ImplMatches h c m sh z neg prim anm vm v' ∧
      (∀ j x, j ∉ m.net.io → map.getD j none = some x → anm j = an' x) ∧
      (∀ t (ht : t < (copiedLines m map).length), vm (copiedLines m map)[t] = v' (h.net.lines.size + t)) ∧
      (∀ j x k, map.getD j none = some x → ¬ (j ∈ m.net.io ∧ (m.net.node j).ins.length = 0) →
        ((h'.net.node x).inPin k).map v' = (((cutIns m (deadLine h c m sh)).net.node j).inPin k).map vm) := by
  obtain ⟨h5, c5, w5, _, e⟩ := ct
  subst e
  have dd := (densNN_dens (map.toList.filterMap id) h5 w5).1
  obtain ⟨f1, anm, vm, g1, g2, g3, g4⟩ := c5.forward z neg prim S hS an' v' ((dd.consOff_iff w5.toWFm S z neg prim an' v').mp hc')
  refine ⟨f1, anm, vm, g1, g2, g3, fun j x k hm hnp => ?_⟩
  rw [← g4 j x k hm hnp]
  simp only [NodeD.inPin, dd.ins]

theorem SubstCertD.backward {α : Type _} (z : α) (neg : α → α) (prim : String → α → α → α → α → α)
    (S : Nat → Prop) (an v anm vm : Nat → α)
    (hH : ConsOff h (fun d => S d ∨ d = c) z neg prim an v) (hM : ImplMatches h c m sh z neg prim anm vm v) :
    ∃ an' v', ConsOff h' S z neg prim an' v' ∧ (∀ l, l < h.net.lines.size → v' l = v l) ∧
      (∀ d, d < h.net.nodes.size → d ≠ c → an' d = an d) ∧
      (∀ j x, j ∉ m.net.io → map.getD j none = some x → an' x = anm j) ∧
      (∀ t (ht : t < (copiedLines m map).length), v' (h.net.lines.size + t) = vm (copiedLines m map)[t]) ∧
      (∀ j x k, map.getD j none = some x → ¬ (j ∈ m.net.io ∧ (m.net.node j).ins.length = 0) →
        ((h'.net.node x).inPin k).map v' = (((cutIns m (deadLine h c m sh)).net.node j).inPin k).map vm) := by
  obtain ⟨h5, c5, w5, _, e⟩ := ct
  subst e
  have dd := (densNN_dens (map.toList.filterMap id) h5 w5).1
  obtain ⟨an', v', g0, g1, g2, g3, g4, g5⟩ := c5.backward z neg prim S an v anm vm hH hM
  refine ⟨an', v', (dd.consOff_iff w5.toWFm S z neg prim an' v').mpr g0, g1, g2, g3, g4, fun j x k hm hnp => ?_⟩
  rw [← g5 j x k hm hnp]
  simp only [NodeD.inPin, dd.ins]

end certD

/-- when no copied fork has a gap (`denseB`) the loop changes nothing: the result IS the circuit `substituteCore` builds -/
theorem densNN_of_denseB (h : NNet) (c : Nat) (m h5 : NNet) (map : Array (Option Nat)) (dang : List (Option Nat))
    (hcore : substituteCore h c m = some (h5, map, dang)) (hdn : denseB h c m = true) :
    densNN h5 (map.toList.filterMap id) = h5 := by
  unfold denseB at hdn
  simp only [hcore, Bool.not_eq_true'] at hdn
  show ({ h5 with net := densify h5.net map } : NNet) = h5
  rw [densify_of_dense h5.net map hdn]

end KV.Transform

namespace KV.Transform
open KV

/-- `consistentB` (labelling as an array, assignment by `s_nodes` position) in the node-indexed form used by the
    semantic statements, for every well-formed dump (no condition on forks) -/
theorem consistentB_iff_wf {α : Type _} [BEq α] [LawfulBEq α] {nn : NNet} (w : WF nn) (z : α) (neg : α → α)
    (prim : String → α → α → α → α → α) (asg : Nat → α) (v : Array α) :
    consistentB nn.net z neg prim asg v = true ↔
      ConsN nn z neg prim (fun n => asg (nn.net.sNodes.idxOf n)) (fun l => v.getD l z) := by
  simp only [consistentB, List.all_eq_true, List.mem_range, beq_iff_eq, ConsN]
  have key : ∀ l, l < nn.net.lines.size →
      lineEq nn.net (fun n => nn.net.sPosTable.getD n none) z neg prim asg (fun i => v.getD i z) l =
      lineEq nn.net (spN nn.net) z neg prim (fun n => asg (nn.net.sNodes.idxOf n)) (fun l => v.getD l z) l := by
    intro l hl
    apply lineEq_congr
    · rfl
    · rfl
    · exact sp_map_eq nn.net _ (w.back l hl).1 asg
    · intro k; rfl
  constructor
  · intro hc l hl; rw [hc l hl, key l hl]
  · intro hc l hl; rw [hc l hl, key l hl]

end KV.Transform
