import KyupyVerif.Proofs.SubstSem8
import KyupyVerif.Proofs.SubstStruct5
/-! Helper lemmas for C10 (`substitute_sem`), part 9: the certificate for `substitute` in regular use under the decidable
side conditions, the converse of `WF.of_wf`, and the packaged semantic statement. -/
namespace KV.Transform
open KV

theorem implOKB_spec (m : NNet) (sh : Shape) (dn : Nat) (hs : implShape m = some sh) (hd : sh.des = some dn)
    (hok : implOKB m = true) :
    dn ∉ m.net.io ∧ m.net.io.Nodup ∧ (∀ p ∈ m.net.io, isSeqKind (m.net.node p).kind = false) ∧
    (∀ p ∈ m.net.io, 0 < (m.net.node p).ins.length → 0 < (m.net.node p).outs.length → (m.net.node p).isFork = true) := by
  unfold implOKB at hok
  rw [hs] at hok
  simp only [hd, Bool.and_eq_true, decide_eq_true_eq, List.all_eq_true, Bool.not_eq_true', Bool.or_eq_true] at hok
  obtain ⟨⟨h1, h2⟩, h3⟩ := hok
  refine ⟨by simpa using h1, h2, fun p hp => (h3 p hp).1, fun p hp hi ho => ?_⟩
  rcases (h3 p hp).2 with h4 | h4
  · simp [hi, ho] at h4
  · exact h4

/-- the decidable well-formedness predicate from its propositional form -/
theorem wf_of_WF {nn : NNet} (w : WF nn) : nn.wf = true := by
  simp only [NNet.wf, Bool.and_eq_true, beq_iff_eq, decide_eq_true_eq, List.all_eq_true, List.mem_range]
  refine ⟨⟨⟨⟨⟨w.names, w.nodup⟩, fun i hi => w.io i hi⟩, ?_⟩, ?_⟩, fun i hi => w.trail i hi⟩
  · simp only [NNet.pinsBack, List.all_eq_true, List.mem_range, Bool.and_eq_true, decide_eq_true_eq, beq_iff_eq]
    intro l hl
    obtain ⟨b1, b2, b3, b4⟩ := w.back l hl
    exact ⟨⟨⟨b1, b2⟩, b3⟩, b4⟩
  · simp only [NNet.pinsFwd, List.all_eq_true, List.mem_range, Bool.and_eq_true]
    intro i hi
    constructor
    · intro p _
      cases hp : (nn.net.node i).inPin p with
      | none => rfl
      | some l =>
        obtain ⟨a1, a2, a3⟩ := w.fwdIn i hi p l hp
        simp [a1, a2, a3]
    · intro p _
      cases hp : (nn.net.node i).outPin p with
      | none => rfl
      | some l =>
        obtain ⟨a1, a2, a3⟩ := w.fwdOut i hi p l hp
        simp [a1, a2, a3]

theorem removeDangling_kept (nn : NNet) (own : List Nat) : ∀ (fuel : Nat) (stack : List (Option Nat)), stack.length < fuel →
    (stack.all fun o => match o with
      | none => true
      | some root => keptRoot nn own root) = true → removeDangling fuel nn own stack = some nn
  | 0, _, h, _ => by omega
  | fuel + 1, [], _, _ => by simp [removeDangling]
  | fuel + 1, none :: rest, h, ha => by
    simp only [removeDangling]
    exact removeDangling_kept nn own fuel rest (by simpa using h) (by simpa using ha)
  | fuel + 1, some root :: rest, h, ha => by
    simp only [List.all_cons, Bool.and_eq_true] at ha
    have ih := removeDangling_kept nn own fuel rest (by simpa using h) ha.2
    have hk := ha.1
    simp only [keptRoot, Bool.or_eq_true] at hk
    simp only [removeDangling]
    split
    · exact ih
    · rename_i h1
      split
      · exact ih
      · rename_i h2
        split
        · exact ih
        · rename_i h3
          split
          · exact ih
          · rename_i h4
            exfalso
            rcases hk with ((hk | hk) | hk) | hk
            · exact h1 hk
            · exact h2 hk
            · exact h3 hk
            · exact h4 hk

/-- when nothing is removed the result is the circuit `substituteCore` builds -/
theorem substitute_keepsAll_eq (h : NNet) (c : Nat) (m h' : NNet) (hr : keepsAllB h c m = true) (he : substitute h c m = some h') :
    ∃ sh dn map dang, implShape m = some sh ∧ sh.des = some dn ∧ substituteCore h c m = some (h', map, dang) ∧
      NoIgnored m (sh.inPorts.zip (padTo (h.net.node c).ins sh.inPorts.length)) := by
  unfold keepsAllB at hr
  split at hr
  · rename_i sh h5 map dang hs hcore
    simp only [Bool.and_eq_true] at hr
    obtain ⟨⟨h1, h2⟩, h3⟩ := hr
    cases hd : sh.des with
    | none => rw [hd] at h1; simp at h1
    | some dn =>
      unfold substitute at he
      rw [hcore] at he
      dsimp only at he
      rw [removeDangling_kept h5 _ _ dang (by omega) h3] at he
      cases (Option.some.inj he)
      refine ⟨sh, dn, map, dang, hs, hd, hcore, ?_⟩
      intro p hp hsome
      have := List.all_eq_true.mp h2 p hp
      simpa [hsome] using this
  · exact absurd hr (by simp)

/-- regular use is a use in which nothing is removed -/
theorem regularB_keepsAll (h : NNet) (c : Nat) (m h' : NNet) (hr : regularB h c m = true) (he : substitute h c m = some h') :
    keepsAllB h c m = true := by
  obtain ⟨sh, dn, map, hs, hd, hcore, hni⟩ := substitute_regular_eq h c m h' hr he
  unfold keepsAllB
  rw [hs, hcore]
  simp only [hd, Option.isSome_some, Bool.true_and, List.all_nil, Bool.and_true, List.all_eq_true, Bool.or_eq_true,
    Bool.not_eq_true']
  intro p hp
  cases hp2 : p.2 with
  | none => left; rfl
  | some x =>
    right
    have := hni p hp (by rw [hp2]; rfl)
    simpa using this

/-- the certificate for `substitute` when nothing is removed -/
theorem substitute_cert (h m h' : NNet) (c : Nat) (hw : WF h) (mw : WF m) (hc : c < h.net.nodes.size)
    (hio : h.net.io.contains c = false) (hcf : (h.net.node c).isFork = false)
    (hr : keepsAllB h c m = true) (hok : implOKB m = true) (he : substitute h c m = some h') :
    ∃ sh dn map, SubstCert h c m sh dn map h' := by
  obtain ⟨sh, dn, map, dang, hs, hd, hcore, hni⟩ := substitute_keepsAll_eq h c m h' hr he
  obtain ⟨k1, k2, k3, k4⟩ := implOKB_spec m sh dn hs hd hok
  exact ⟨sh, dn, map, substituteCore_cert h c m sh dn hw mw hc (by simpa using hio) hcf hs hd k1 k2 k3 k4 hni
    h' map dang hcore⟩

end KV.Transform

namespace KV.Transform
open KV

section cert
variable {h : NNet} {c : Nat} {m : NNet} {sh : Shape} {dn : Nat} {map : Array (Option Nat)} {h' : NNet}
variable (ct : SubstCert h c m sh dn map h')
include ct

/-- direction "result ⇒ host with hole + implementation", packaged -/
theorem SubstCert.forward {α : Type _} (z : α) (neg : α → α) (prim : String → α → α → α → α → α)
    (S : Nat → Prop) (hS : ∀ s, S s → s < h.net.nodes.size ∧ s ≠ c) (an' v' : Nat → α)
    (hc' : ConsOff h' S z neg prim an' v') :
    ConsOff h (fun d => S d ∨ d = c) z neg prim an' v' ∧
    ∃ anm vm, ImplMatches h c m sh z neg prim anm vm v' ∧
      (∀ j x, j ∉ m.net.io → map.getD j none = some x → anm j = an' x) ∧
      (∀ t (ht : t < (copiedLines m map).length), vm (copiedLines m map)[t] = v' (h.net.lines.size + t)) ∧
      (∀ j x k, map.getD j none = some x → ¬ (j ∈ m.net.io ∧ (m.net.node j).ins.length = 0) →
        ((h'.net.node x).inPin k).map v' = (((cutIns m (deadLine h c m sh)).net.node j).inPin k).map vm) := by
  refine ⟨ct.fw_hole z neg prim an' v' S hc', anmOf h c m sh map z an' v', vmOf h c m sh map z neg prim an' v',
    ⟨ct.fw_cons z neg prim an' v' S hS hc', fun p hp => ct.fw_hP z an' v' p hp,
      fun k il ll hk hll => ct.fw_outs z neg prim an' v' S hS hc' k il ll hk hll⟩,
    fun j x hj hm => ct.fw_hA z an' v' j x hj hm, ?_, ?_⟩
  · intro t ht; exact ((ct.fw_agree z neg prim an' v').new t ht).symm
  · intro j x k hm hnp
    exact ct.reads_eq j x hm hnp v' _ (ct.fw_agree z neg prim an' v') k

/-- direction "host with hole + implementation ⇒ result" (gluing), packaged -/
theorem SubstCert.backward {α : Type _} (z : α) (neg : α → α) (prim : String → α → α → α → α → α)
    (S : Nat → Prop) (an v anm vm : Nat → α)
    (hH : ConsOff h (fun d => S d ∨ d = c) z neg prim an v) (hM : ImplMatches h c m sh z neg prim anm vm v) :
    ∃ an' v', ConsOff h' S z neg prim an' v' ∧ (∀ l, l < h.net.lines.size → v' l = v l) ∧
      (∀ d, d < h.net.nodes.size → d ≠ c → an' d = an d) ∧
      (∀ j x, j ∉ m.net.io → map.getD j none = some x → an' x = anm j) ∧
      (∀ t (ht : t < (copiedLines m map).length), v' (h.net.lines.size + t) = vm (copiedLines m map)[t]) ∧
      (∀ j x k, map.getD j none = some x → ¬ (j ∈ m.net.io ∧ (m.net.node j).ins.length = 0) →
        ((h'.net.node x).inPin k).map v' = (((cutIns m (deadLine h c m sh)).net.node j).inPin k).map vm) := by
  refine ⟨glueA h c m map an anm, glueV h m map v vm, ct.bw_cons z neg prim an v anm vm S hH hM,
    fun l hl => ct.bw_host v vm l hl, fun d hd hne => ct.bw_hostA an anm d hd hne,
    fun j x hj hm => (ct.bw_hA an anm j x hj hm).symm, fun t ht => ct.bw_new v vm t ht, ?_⟩
  intro j x k hm hnp
  exact ct.reads_eq j x hm hnp _ vm (ct.bw_agree z neg prim v anm vm hM) k

end cert
end KV.Transform

namespace KV.Transform
open KV

/-- `consistentB` (labelling as an array, assignment by `s_nodes` position) in the node-indexed form used by the
    semantic statements, for every well-formed dump (no condition on forks) -/
theorem consistentB_iff_wf {α : Type _} [BEq α] [LawfulBEq α] {nn : NNet} (w : WF nn) (z : α) (neg : α → α)
    (prim : String → α → α → α → α → α) (asg : Nat → α) (v : Array α) :
    consistentB nn.net z neg prim asg v = true ↔
      ConsN nn z neg prim (fun n => asg (nn.net.sNodes.idxOf n)) (fun l => v.getD l z) := by
  simp only [consistentB, List.all_eq_true, List.mem_range, beq_iff_eq, ConsN]
  have key : ∀ l, l < nn.net.lines.size →
      lineEq nn.net (fun n => nn.net.sPosTable.getD n none) z neg prim asg (fun i => v.getD i z) l =
      lineEq nn.net (spN nn.net) z neg prim (fun n => asg (nn.net.sNodes.idxOf n)) (fun l => v.getD l z) l := by
    intro l hl
    apply lineEq_congr
    · rfl
    · rfl
    · exact sp_map_eq nn.net _ (w.back l hl).1 asg
    · intro k; rfl
  constructor
  · intro hc l hl; rw [hc l hl, key l hl]
  · intro hc l hl; rw [hc l hl, key l hl]

end KV.Transform
