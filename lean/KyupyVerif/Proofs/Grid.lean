import KyupyVerif.Model.Grid
/-! The mock-GPU launch covers the work items exactly: after the guards, the launched threads are a duplicate-free
enumeration of `{(x, y) | x < n ∧ y < m}` — a permutation of the CPU double loop — for every block shape. -/
namespace KV.Grid

theorem cdiv_spec (x y : Nat) (hy : 0 < y) : x ≤ cdiv x y * y ∧ (0 < x → (cdiv x y - 1) * y < x) := by
  unfold cdiv
  have h1 := Nat.div_add_mod (x + y - 1) y
  have h2 := Nat.mod_lt (x + y - 1) hy
  have hc : y * ((x + y - 1) / y) = (x + y - 1) / y * y := Nat.mul_comm _ _
  constructor
  · omega
  · intro hx
    have hpos : 0 < (x + y - 1) / y := Nat.div_pos (by omega) hy
    have : ((x + y - 1) / y - 1) * y = (x + y - 1) / y * y - y := by
      rw [Nat.sub_mul]; simp
    omega

theorem mem_launch {gx gy bx by_ : Nat} {p : Nat × Nat} :
    p ∈ launch gx gy bx by_ ↔ ∃ a < gx, ∃ b < gy, ∃ c < bx, ∃ d < by_, p = (a * bx + c, b * by_ + d) := by
  simp only [launch, List.mem_flatMap, List.mem_map, List.mem_range]
  constructor
  · rintro ⟨a, ha, b, hb, c, hc, d, hd, rfl⟩; exact ⟨a, ha, b, hb, c, hc, d, hd, rfl⟩
  · rintro ⟨a, ha, b, hb, c, hc, d, hd, rfl⟩; exact ⟨a, ha, b, hb, c, hc, d, hd, rfl⟩

theorem divmod_unique {b a c a' c' : Nat} (hc : c < b) (hc' : c' < b) (h : a * b + c = a' * b + c') : a = a' ∧ c = c' := by
  have hb : 0 < b := by omega
  have e1 : (a * b + c) / b = a := by
    rw [Nat.mul_comm, Nat.mul_add_div hb, Nat.div_eq_of_lt hc]; simp
  have e2 : (a' * b + c') / b = a' := by
    rw [Nat.mul_comm, Nat.mul_add_div hb, Nat.div_eq_of_lt hc']; simp
  have : a = a' := by rw [← e1, ← e2, h]
  subst this
  exact ⟨rfl, by omega⟩

theorem launch_nodup (gx gy bx by_ : Nat) : (launch gx gy bx by_).Nodup := by
  unfold launch
  simp only [List.Nodup, List.pairwise_flatMap, List.pairwise_map]
  refine ⟨fun a _ => ⟨fun b _ => ⟨fun c _ => ?_, ?_⟩, ?_⟩, ?_⟩
  · -- innermost: distinct b_y give distinct y
    refine List.Pairwise.imp ?_ (List.nodup_range (n := by_))
    intro d d' hne h
    simp only [Prod.mk.injEq] at h
    omega
  · -- different block_x
    refine List.Pairwise.imp ?_ (List.nodup_range (n := bx))
    intro c c' hne x hx y hy
    simp only [List.mem_map, List.mem_range] at hx hy
    obtain ⟨d, _, rfl⟩ := hx; obtain ⟨d', _, rfl⟩ := hy
    intro h; simp only [Prod.mk.injEq] at h; omega
  · -- different grid_y
    refine List.Pairwise.imp_of_mem ?_ (List.nodup_range (n := gy))
    intro b b' _ _ hne x hx y hy
    simp only [List.mem_flatMap, List.mem_map, List.mem_range] at hx hy
    obtain ⟨c, _, d, hd, rfl⟩ := hx; obtain ⟨c', _, d', hd', rfl⟩ := hy
    intro h; simp only [Prod.mk.injEq] at h
    exact hne (divmod_unique hd hd' h.2).1
  · -- different grid_x
    refine List.Pairwise.imp_of_mem ?_ (List.nodup_range (n := gx))
    intro a a' _ _ hne x hx y hy
    simp only [List.mem_flatMap, List.mem_map, List.mem_range] at hx hy
    obtain ⟨b, _, c, hc, d, _, rfl⟩ := hx; obtain ⟨b', _, c', hc', d', _, rfl⟩ := hy
    intro h; simp only [Prod.mk.injEq] at h
    exact hne (divmod_unique hc hc' h.1).1

theorem cpuLoop_nodup (n m : Nat) : (cpuLoop n m).Nodup := by
  unfold cpuLoop
  simp only [List.Nodup, List.pairwise_flatMap, List.pairwise_map]
  refine ⟨fun y _ => ?_, ?_⟩
  · refine List.Pairwise.imp ?_ (List.nodup_range (n := n))
    intro a b hne h; simp only [Prod.mk.injEq] at h; omega
  · refine List.Pairwise.imp ?_ (List.nodup_range (n := m))
    intro a b hne x hx y hy
    simp only [List.mem_map, List.mem_range] at hx hy
    obtain ⟨_, _, rfl⟩ := hx; obtain ⟨_, _, rfl⟩ := hy
    intro h; simp only [Prod.mk.injEq] at h; omega

theorem mem_cpuLoop {n m : Nat} {p : Nat × Nat} : p ∈ cpuLoop n m ↔ p.1 < n ∧ p.2 < m := by
  simp only [cpuLoop, List.mem_flatMap, List.mem_map, List.mem_range]
  constructor
  · rintro ⟨y, hy, x, hx, rfl⟩; exact ⟨hx, hy⟩
  · rintro ⟨hx, hy⟩; exact ⟨p.2, hy, p.1, hx, rfl⟩

/-- an index below `g * b` splits into a block number and an index within the block -/
theorem split_index {x g b : Nat} (hb : 0 < b) (hx : x < g * b) : ∃ a < g, ∃ c < b, x = a * b + c := by
  refine ⟨x / b, ?_, x % b, Nat.mod_lt _ hb, ?_⟩
  · exact (Nat.div_lt_iff_lt_mul hb).mpr hx
  · have := Nat.div_add_mod x b; rw [Nat.mul_comm] at this; omega

theorem mem_kernelThreads {n m bx by_ : Nat} (hbx : 0 < bx) (hby : 0 < by_) {p : Nat × Nat} :
    p ∈ kernelThreads n m bx by_ ↔ p.1 < n ∧ p.2 < m := by
  simp only [kernelThreads, active, List.mem_filter, Bool.and_eq_true, decide_eq_true_eq, mem_launch]
  constructor
  · exact fun h => h.2
  · rintro ⟨hx, hy⟩
    refine ⟨?_, hx, hy⟩
    obtain ⟨a, ha, c, hc, ex⟩ := split_index hbx (Nat.lt_of_lt_of_le hx (cdiv_spec n bx hbx).1)
    obtain ⟨b, hb, d, hd, ey⟩ := split_index hby (Nat.lt_of_lt_of_le hy (cdiv_spec m by_ hby).1)
    exact ⟨a, ha, b, hb, c, hc, d, hd, by rw [← ex, ← ey]⟩

theorem kernelThreads_nodup (n m bx by_ : Nat) : (kernelThreads n m bx by_).Nodup :=
  (launch_nodup _ _ _ _).filter _

theorem kernelThreads_perm (n m bx by_ : Nat) (hbx : 0 < bx) (hby : 0 < by_) :
    (kernelThreads n m bx by_).Perm (cpuLoop n m) :=
  (List.perm_ext_iff_of_nodup (kernelThreads_nodup n m bx by_) (cpuLoop_nodup n m)).mpr fun p => by
    rw [mem_kernelThreads hbx hby, mem_cpuLoop]

/-- no surplus block: the last block row / column contains an active thread (the grid is not larger than needed) -/
theorem grid_tight (n b : Nat) (hb : 0 < b) (hn : 0 < n) : (cdiv n b - 1) * b < n := (cdiv_spec n b hb).2 hn

end KV.Grid
