import KyupyVerif.Proofs.DanglingLens
import KyupyVerif.Proofs.SubstKeys
import KyupyVerif.Proofs.CopyTrim
/-! C10, audit 2 finding 6 (open part), transport lemma (1) assembled: every node of the result of `substitute` is (a) a host node
other than the cell with the SAME pin-list lengths (`Twin`), or (b) the re-kinded cell, or (c) an added node.  Hence (`LenFrame`) the
node found in the result under the key of a host node other than the cell has that node's pin-list lengths. -/
namespace KV.Transform
open KV

theorem kindNames_getElem? (nn : NNet) (x : Nat) (hx : x < nn.net.nodes.size) :
    nn.kindNames[x]? = some ((nn.net.node x).kind, nn.names.getD x "") := by
  simp [NNet.kindNames, hx]

theorem substitute_twin (h m h' : NNet) (c : Nat) (w : WFm h) (fd : FD h.net) (mw : WF m) (hc : c < h.net.nodes.size)
    (hio : c ∉ h.net.io) (hcf : (h.net.node c).isFork = false) (hok : implGenOKB m = true) (ht : targetsOKB m = true)
    (hns : noSelfIgnB h c m = true) (hfresh : addFreshB h c m = true)
    (har : ∀ sh, implShape m = some sh →
      (h.net.node c).ins.length ≤ sh.inPorts.length ∧ (h.net.node c).outs.length ≤ sh.outLines.length)
    (he : substitute h c m = some h') :
    ∃ sh, implShape m = some sh ∧ ∀ y, y < h'.net.nodes.size →
      (∃ x, x < h.net.nodes.size ∧ x ≠ c ∧ Twin h x h' y) ∨
      (∃ dn, sh.des = some dn ∧ ((h'.net.node y).kind, h'.names.getD y "") = ((m.net.node dn).kind, h.names.getD c "")) ∨
      ((h'.net.node y).kind, h'.names.getD y "") ∈ addedKN m (h.names.getD c "") sh.des := by
  obtain ⟨sh, hs, k2, k3, k4⟩ := implGenOKB_spec m hok
  have hself := noSelfIgnB_spec h c m sh hs hns
  obtain ⟨hil, hol⟩ := har sh hs
  obtain ⟨h5, map, dang, hcore, _, hls⟩ := core_some h c m sh hs w fd hc hil hol hfresh ht hself hio
  obtain ⟨wfm5, hmapLt⟩ := core_wfm h m c w mw hc hio hcf sh hs k2 k3 k4 hself h5 map dang hcore
  obtain ⟨dd, wd, _⟩ := densNN_densM (map.toList.filterMap id) h5 wfm5
  have ho : ∀ x ∈ map.toList.filterMap id, x < (densNN h5 (map.toList.filterMap id)).net.nodes.size := by
    intro x hx
    obtain ⟨k, hk⟩ := mem_map_values map x hx
    rw [dd.nsize]
    exact hmapLt k x hk
  have li : LI h := ⟨w.names, w.io⟩
  have hioB : h.net.io.contains c = false := by simpa using hio
  have p1 : LI (phase1 h c m sh.des).1 ∧ MapLt (phase1 h c m sh.des).2 (phase1 h c m sh.des).1.net.nodes.size := by
    cases hd : sh.des with
    | none => have := phase1_none_obs h c m li hc hioB; exact ⟨this.2.2.1, this.2.2.2⟩
    | some dn => have := phase1_some_obs h c m dn li hc; exact ⟨this.2.2.1, this.2.2.2⟩
  have o := (substituteCore_obs h c m sh hs h5 map dang hcore p1.1 p1.2).1
  unfold substitute at he
  rw [hcore] at he
  have he' : removeDangling (dang.length + h5.net.lines.size + 1) (densNN h5 (map.toList.filterMap id)) (map.toList.filterMap id) dang
      = some h' := he
  have tw := removeDangling_twin _ _ _ _ h' wd ho he'
  refine ⟨sh, hs, ?_⟩
  intro y hy
  obtain ⟨x5, hx5, t5⟩ := tw y hy
  rw [dd.nsize] at hx5
  -- `densify` keeps kind, name, input pins, and the outputs of everything that is no fork
  have td : Twin h5 x5 (densNN h5 (map.toList.filterMap id)) x5 :=
    ⟨dd.kind x5, by rw [dd.names], by rw [dd.ins x5], fun hf => by rw [dd.frameCell x5 hf]⟩
  have t : Twin h5 x5 h' y := td.trans t5
  have hlen5 : h5.net.nodes.size = (phase1 h c m sh.des).1.net.nodes.size + (addedKN m (h.names.getD c "") sh.des).length := by
    have := congrArg List.length o
    rw [List.length_append, kindNames_length, kindNames_length] at this
    exact this
  have hk5 := kindNames_getElem? h5 x5 hx5
  rw [o] at hk5
  by_cases hxP : x5 < (phase1 h c m sh.des).1.net.nodes.size
  · -- a node of the circuit after the first statements
    rw [List.getElem?_append_left (by rw [kindNames_length]; exact hxP), kindNames_getElem? _ x5 hxP] at hk5
    have hkn := Prod.mk.inj (Option.some.inj hk5)
    cases hd : sh.des with
    | some dn =>
      rw [hd] at hkn hxP hls
      obtain ⟨_, _, e3, e4⟩ := phase1_rest h c m dn
      rw [e3] at hxP
      by_cases hxc : x5 = c
      · right; left
        refine ⟨dn, rfl, ?_⟩
        rw [t.1, t.2.1, ← hkn.1, ← hkn.2, phase1_node h c m dn hc, if_pos hxc, e4, hxc]
      · left
        refine ⟨x5, hxP, hxc, Twin.trans ?_ t⟩
        have l := hls x5 (by rw [e3]; exact hxP) (fun _ => hxc)
        rw [LS, phase1_node h c m dn hc, if_neg hxc] at l
        exact ⟨l.1, by rw [← hkn.2, e4], l.2.1, l.2.2⟩
    | none =>
      rw [hd] at hkn hxP hls
      have hsz : (phase1 h c m none).1.net.nodes.size = h.net.nodes.size - 1 := (delNode_sizes h c).1
      rw [hsz] at hxP
      left
      have hlt : (if x5 = c then h.net.nodes.size - 1 else x5) < h.net.nodes.size := by split <;> omega
      have hne : (if x5 = c then h.net.nodes.size - 1 else x5) ≠ c := by
        split
        · rename_i e; omega
        · rename_i e; exact e
      refine ⟨_, hlt, hne, Twin.trans ?_ t⟩
      have l := hls x5 (by rw [hsz]; exact hxP) (fun hsome => absurd hsome (by simp))
      have hnode : (phase1 h c m none).1.net.node x5 = h.net.node (if x5 = c then h.net.nodes.size - 1 else x5) :=
        delNode_node h c x5 hc hxP
      have hname : (phase1 h c m none).1.names.getD x5 "" = h.names.getD (if x5 = c then h.net.nodes.size - 1 else x5) "" := by
        have := delNode_names_getD h c x5 li hc hxP
        show (delNode h c).names.getD x5 "" = _
        rw [this]; split <;> rfl
      rw [LS, hnode] at l
      exact ⟨l.1, by rw [← hkn.2, hname], l.2.1, l.2.2⟩
  · -- an added node
    right; right
    have hge : (phase1 h c m sh.des).1.kindNames.length ≤ x5 := by rw [kindNames_length]; omega
    rw [List.getElem?_append_right hge] at hk5
    rw [t.1, t.2.1]
    exact List.mem_of_getElem? hk5

/-- the node found in the result under the key of a host node other than the cell has that node's pin-list lengths -/
def LenFrame (h : NNet) (c : Nat) (h' : NNet) : Prop :=
  ∀ d j', d < h.net.nodes.size → d ≠ c → j' < h'.net.nodes.size → h'.key j' = h.key d →
    (h'.net.node j').ins.length = (h.net.node d).ins.length ∧
    ((h.net.node d).isFork = false → (h'.net.node j').outs.length = (h.net.node d).outs.length)

theorem key_of_kn (nn : NNet) (x : Nat) : nn.key x = keyOfKN ((nn.net.node x).kind, nn.names.getD x "") := rfl

/-- the key of a host node other than the cell is a key of the circuit after the first statements of `substitute` -/
theorem phase1_keeps_key (h : NNet) (c : Nat) (m : NNet) (des : Option Nat) (w : WFm h) (hc : c < h.net.nodes.size)
    (d : Nat) (hd : d < h.net.nodes.size) (hdc : d ≠ c) : h.key d ∈ (phase1 h c m des).1.keys := by
  have li : LI h := ⟨w.names, w.io⟩
  cases des with
  | some dn =>
    obtain ⟨_, _, e3, e4⟩ := phase1_rest h c m dn
    simp only [NNet.keys, List.mem_map, List.mem_range]
    refine ⟨d, by rw [e3]; exact hd, ?_⟩
    simp only [NNet.key, e4, phase1_node h c m dn hc, if_neg hdc]
  | none =>
    have hsz : (phase1 h c m none).1.net.nodes.size = h.net.nodes.size - 1 := (delNode_sizes h c).1
    simp only [NNet.keys, List.mem_map, List.mem_range]
    have hy : (if d = h.net.nodes.size - 1 then c else d) < h.net.nodes.size - 1 := by split <;> omega
    refine ⟨if d = h.net.nodes.size - 1 then c else d, by rw [hsz]; exact hy, ?_⟩
    have hnode : (phase1 h c m none).1.net.node (if d = h.net.nodes.size - 1 then c else d) = h.net.node d := by
      have := delNode_node h c _ hc hy
      show (delNode h c).net.node _ = _
      rw [this]
      by_cases e : d = h.net.nodes.size - 1
      · simp only [e, if_true]
      · simp only [e, if_false, hdc]
    have hname : (phase1 h c m none).1.names.getD (if d = h.net.nodes.size - 1 then c else d) "" = h.names.getD d "" := by
      have := delNode_names_getD h c _ li hc hy
      show (delNode h c).names.getD _ "" = _
      rw [this]
      by_cases e : d = h.net.nodes.size - 1
      · simp only [e, if_true]
      · simp only [e, if_false, hdc]
    simp only [NNet.key, hnode, hname]

theorem substitute_lenFrame (h m h' : NNet) (c : Nat) (w : WFm h) (fd : FD h.net) (mw : WF m) (hc : c < h.net.nodes.size)
    (hio : c ∉ h.net.io) (hcf : (h.net.node c).isFork = false) (hok : implGenOKB m = true) (ht : targetsOKB m = true)
    (hns : noSelfIgnB h c m = true) (hfresh : addFreshB h c m = true)
    (har : ∀ sh, implShape m = some sh →
      (h.net.node c).ins.length ≤ sh.inPorts.length ∧ (h.net.node c).outs.length ≤ sh.outLines.length)
    (he : substitute h c m = some h') : LenFrame h c h' := by
  obtain ⟨sh, hs, htw⟩ := substitute_twin h m h' c w fd mw hc hio hcf hok ht hns hfresh har he
  obtain ⟨_, _, _, k3, _⟩ := implGenOKB_spec m hok
  intro d j' hd hdc hj' hkey
  rcases htw j' hj' with ⟨x, hx, _, t⟩ | ⟨dn, hdn, e⟩ | hmem
  · have hkx : h.key x = h.key d := by
      rw [← hkey, key_of_kn, key_of_kn, t.1, t.2.1]
    have : x = d := by
      have h1 := lookup_key_m h w x hx
      have h2 := lookup_key_m h w d hd
      rw [hkx] at h1
      exact h1.symm.trans h2
    subst this
    exact ⟨t.2.2.1, t.2.2.2⟩
  · exfalso
    have hnp := implShape_des_notPort m mw sh dn hs hdn k3
    have hnf := (implShape_des m mw sh dn hs hdn).2 hnp
    have hkc : h.key c = h.key d := by
      rw [← hkey, key_of_kn h' j', e]
      simp only [NNet.key, keyOfKN, hcf]
      have : ((m.net.node dn).kind == "__fork__") = false := hnf
      rw [this]
    have h1 := lookup_key_m h w c hc
    have h2 := lookup_key_m h w d hd
    rw [hkc] at h1
    exact hdc (h2.symm.trans h1)
  · exfalso
    unfold addFreshB at hfresh
    rw [hs] at hfresh
    simp only [Bool.and_eq_true, decide_eq_true_eq, List.all_eq_true, Bool.not_eq_true'] at hfresh
    have hk : h'.key j' ∈ addedKeys m (h.names.getD c "") sh.des := by
      rw [key_of_kn]; exact List.mem_map_of_mem hmem
    have := hfresh.2 _ hk
    rw [hkey] at this
    have hin := phase1_keeps_key h c m sh.des w hc d hd hdc
    rw [List.contains_eq_mem, decide_eq_false_iff_not] at this
    exact this hin

end KV.Transform
