import KyupyVerif.Proofs.RemoveLine9
/-! Helper lemmas for C10 (`substitute_sem_general`), part 1: `Line.remove()` of a line whose reader has been set to `None`
before (`removeLine false`: the host line at an instance pin that the implementation ignores), on a circuit that is in the
middle of `substitute` — only the driver of the line has to be in order (`DrvAt`).  The result through accessors (`RLSpecF`):
as for `removeLine true` (Proofs/RemoveLine3.lean), except that no reader pin is cleared. -/
namespace KV.Transform
open KV

/-- the output list of node `d` and the lines that record `d` as their driver agree; `Ex` = lines whose driver side is
    stale (the lines at the output pins of the instance before they are connected to the copied implementation) -/
structure DrvAt (net : Net) (Ex : Nat → Prop) (d : Nat) : Prop where
  lt : d < net.nodes.size
  fwd : ∀ p y, (net.node d).outs.getD p none = some y →
    y < net.lines.size ∧ (net.line y).driver = d ∧ (net.line y).dpin = p ∧ ¬ Ex y
  back : ∀ y, y < net.lines.size → ¬ Ex y → (net.line y).driver = d → (net.node d).outs.getD (net.line y).dpin none = some y

theorem DrvAt.outs_nodup {net : Net} {Ex : Nat → Prop} {d : Nat} (w : DrvAt net Ex d) : PinNodup (net.node d).outs := by
  intro k1 k2 x h1 h2
  rw [← (w.fwd k1 x h1).2.2.1, ← (w.fwd k2 x h2).2.2.1]

/-- the circuit after `ll.reader = None; ll.remove()` -/
structure RLSpecF (net : Net) (Ex : Nat → Prop) (l : Nat) (net' : Net) : Prop where
  nsize : net'.nodes.size = net.nodes.size
  lsize : net'.lines.size = net.lines.size - 1
  io : net'.io = net.io
  kind : ∀ x, (net'.node x).kind = (net.node x).kind
  inPin : ∀ x k, (net'.node x).ins.getD k none = mvL (net.lines.size - 1) l ((net.node x).ins.getD k none)
  outPin : ∀ x k, (net'.node x).outs.getD k none =
    if x = (net.line l).driver then
      (if (net.node x).isFork then
        mvL (net.lines.size - 1) l ((net.node x).outs.getD (if k < (net.line l).dpin then k else k + 1) none)
       else if k = (net.line l).dpin then none else mvL (net.lines.size - 1) l ((net.node x).outs.getD k none))
    else mvL (net.lines.size - 1) l ((net.node x).outs.getD k none)
  line : ∀ l', l' < net.lines.size - 1 →
    (net'.line l').driver = (net.line (nmN net.lines.size l l')).driver ∧
    (net'.line l').reader = (net.line (nmN net.lines.size l l')).reader ∧
    (net'.line l').rpin = (net.line (nmN net.lines.size l l')).rpin ∧
    (Ex (nmN net.lines.size l l') → (net'.line l').dpin = (net.line (nmN net.lines.size l l')).dpin) ∧
    (¬ Ex (nmN net.lines.size l l') → (net'.line l').dpin =
      if (net.line (nmN net.lines.size l l')).driver = (net.line l).driver ∧
          (net.node (net.line l).driver).isFork = true ∧
          (net.line l).dpin < (net.line (nmN net.lines.size l l')).dpin
      then (net.line (nmN net.lines.size l l')).dpin - 1 else (net.line (nmN net.lines.size l l')).dpin)

theorem removeLineF_spec (net : Net) (Ex : Nat → Prop) (l : Nat) (hl : l < net.lines.size) (hex : ¬ Ex l)
    (w : DrvAt net Ex (net.line l).driver) (net' : Net)
    (he : removeLine false net l = some net') : RLSpecF net Ex l net' := by
  unfold removeLine at he
  simp only [Option.map_eq_some_iff] at he
  obtain ⟨net1, h1, e⟩ := he
  obtain ⟨O, hio1, hnodes1, hcase⟩ := detachDriver_spec net net1 l h1
  have bd := w.lt
  have bo := w.back l hl hex rfl
  have hsz1 : net1.lines.size = net.lines.size := by
    rcases hcase with ⟨_, _, _, hl1⟩ | ⟨_, _, hl1⟩
    · rw [hl1, renumberDpins_size]
    · rw [hl1]
  have hf1 : ∀ y, (net1.line y).driver = (net.line y).driver ∧ (net1.line y).reader = (net.line y).reader ∧
      (net1.line y).rpin = (net.line y).rpin := by
    intro y
    rcases hcase with ⟨_, _, _, hl1⟩ | ⟨_, _, hl1⟩
    · have := renumberDpins_fields O net.lines 0 y
      have e0 : net1.line y = lineA (renumberDpins net.lines O 0) y := by
        show lineA net1.lines y = _; rw [hl1]
      rw [e0]; exact this
    · have e0 : net1.line y = net.line y := by
        show lineA net1.lines y = lineA net.lines y; rw [hl1]
      rw [e0]; exact ⟨rfl, rfl, rfl⟩
  have hdpEx : ∀ y, Ex y → (net1.line y).dpin = (net.line y).dpin := by
    intro y hy
    rcases hcase with ⟨hF, hO, _, hl1⟩ | ⟨hF, _, hl1⟩
    · show (lineA net1.lines y).dpin = _
      rw [hl1, renumberDpins_other O net.lines 0 y]
      · rfl
      · intro k hk
        rw [hO, getD_eraseIdx, getD_growSet] at hk
        have : ¬ (if k < (net.line l).dpin then k else k + 1) = (net.line l).dpin := by split <;> omega
        rw [if_neg this] at hk
        exact (w.fwd _ y hk).2.2.2 hy
    · show (lineA net1.lines y).dpin = _
      rw [hl1]; rfl
  have hdp1 : ∀ y, y < net.lines.size → y ≠ l → ¬ Ex y → (net1.line y).dpin =
      if (net.line y).driver = (net.line l).driver ∧ (net.node (net.line l).driver).isFork = true ∧
          (net.line l).dpin < (net.line y).dpin
      then (net.line y).dpin - 1 else (net.line y).dpin := by
    intro y hy hne hexy
    rcases hcase with ⟨hF, hO, _, hl1⟩ | ⟨hF, _, hl1⟩
    · have hOget : ∀ k, O.getD k none = (net.node (net.line l).driver).outs.getD
          (if k < (net.line l).dpin then k else k + 1) none := by
        intro k
        rw [hO, getD_eraseIdx, getD_growSet]
        have : ¬ (if k < (net.line l).dpin then k else k + 1) = (net.line l).dpin := by split <;> omega
        rw [if_neg this]
      have hOnd : PinNodup O := by
        intro k1 k2 x a1 a2
        rw [hOget] at a1 a2
        have := w.outs_nodup _ _ x a1 a2
        split at this <;> split at this <;> omega
      show (lineA net1.lines y).dpin = _
      rw [hl1]
      by_cases hdy : (net.line y).driver = (net.line l).driver
      · have yo := w.back y hy hexy hdy
        have hpne : (net.line y).dpin ≠ (net.line l).dpin := by
          intro ep
          rw [ep, bo] at yo
          exact hne (Option.some.inj yo).symm
        by_cases hlt : (net.line l).dpin < (net.line y).dpin
        · have hk : O.getD ((net.line y).dpin - 1) none = some y := by
            rw [hOget]
            have : ¬ (net.line y).dpin - 1 < (net.line l).dpin := by omega
            rw [if_neg this]
            have : (net.line y).dpin - 1 + 1 = (net.line y).dpin := by omega
            rw [this]; exact yo
          rw [renumberDpins_at O net.lines 0 _ y hOnd hk hy]
          simp [hdy, hF, hlt]
        · have hk : O.getD (net.line y).dpin none = some y := by
            rw [hOget]
            have : (net.line y).dpin < (net.line l).dpin := by omega
            rw [if_pos this]; exact yo
          rw [renumberDpins_at O net.lines 0 _ y hOnd hk hy]
          simp [hlt]
      · rw [renumberDpins_other O net.lines 0 y]
        · simp [hdy]; rfl
        · intro k hk
          rw [hOget] at hk
          exact hdy (w.fwd _ y hk).2.1
    · show (lineA net1.lines y).dpin = _
      rw [hl1]
      simp [hF]; rfl
  have e' : net' = delLine net1 l := by rw [← e]; simp
  clear e
  subst e'
  have hn1 : ∀ y, net1.node y = if y = (net.line l).driver then { net.node y with outs := O } else net.node y := by
    intro y
    show nodeA net1.nodes y = _
    rw [hnodes1, nodeA_modify]
    by_cases e1 : y = (net.line l).driver
    · simp only [e1, bd, and_self, if_true]; rfl
    · simp only [e1, false_and, if_false]; rfl
  refine ⟨?_, ?_, ?_, ?_, ?_, ?_, ?_⟩
  · rw [(delLine_sizes _ l).1]; simp [hnodes1]
  · rw [(delLine_sizes _ l).2.1, hsz1]
  · rw [(delLine_sizes _ l).2.2]; exact hio1
  · intro x; rw [delLine_node, hn1]; split <;> rfl
  · intro x k
    rw [delLine_node, hsz1]
    dsimp only
    rw [getD_map_mvL, hn1]
    split <;> rfl
  · intro x k
    rw [delLine_node, hsz1]
    dsimp only
    rw [getD_map_mvL, hn1]
    by_cases e1 : x = (net.line l).driver
    · simp only [e1, if_true]
      rcases hcase with ⟨hF, hO, _, _⟩ | ⟨hF, hO, _⟩
      · rw [hF, if_pos rfl, hO, getD_eraseIdx, getD_growSet]
        have : ¬ (if k < (net.line l).dpin then k else k + 1) = (net.line l).dpin := by split <;> omega
        rw [if_neg this]
      · rw [hF, hO, getD_growSet]
        simp only [Bool.false_eq_true, if_false]
        by_cases e2 : k = (net.line l).dpin
        · simp [e2, mvL]
        · simp [e2]
    · simp [e1]
  · intro l' hl'
    have hy := nm_facts hl hl'
    rw [delLine_line _ l l' (by rw [hsz1]; exact hl) (by rw [hsz1]; exact hl'), hsz1]
    exact ⟨(hf1 _).1, (hf1 _).2.1, (hf1 _).2.2, hdpEx _, hdp1 _ hy.1 hy.2.1⟩

end KV.Transform

namespace KV.Transform
open KV

/-- every node whose output list was in order before `ll.remove()` has it in order afterwards -/
theorem rlF_drvAt {net : Net} {Ex : Nat → Prop} {l : Nat} (hl : l < net.lines.size) (hex : ¬ Ex l) {net' : Net}
    (sp : RLSpecF net Ex l net') (d : Nat) (wd : DrvAt net Ex d) :
    DrvAt net' (fun y => Ex (nmN net.lines.size l y)) d := by
  have hL : net.lines.size - 1 + 1 = net.lines.size := by omega
  refine ⟨by rw [sp.nsize]; exact wd.lt, ?_, ?_⟩
  · intro k l'' hp
    rw [sp.outPin] at hp
    have key : ∃ y0 k0, (net.node d).outs.getD k0 none = some y0 ∧ l'' = mvN net.lines.size l y0 ∧ y0 ≠ l ∧
        k = (if d = (net.line l).driver ∧ (net.node (net.line l).driver).isFork = true ∧ (net.line l).dpin < k0
          then k0 - 1 else k0) := by
      by_cases e1 : d = (net.line l).driver
      · rw [if_pos e1] at hp
        by_cases hF : (net.node d).isFork = true
        · rw [if_pos hF] at hp
          obtain ⟨y0, hy0, e⟩ := mvL_eq_some hp
          rw [hL] at e
          refine ⟨y0, _, hy0, e, ?_, ?_⟩
          · intro e0; subst e0
            have := (wd.fwd _ _ hy0).2.2.1
            split at this <;> omega
          · rw [← e1, hF]
            split <;> simp [e1] <;> omega
        · rw [if_neg hF] at hp
          split at hp
          · exact absurd hp (by simp)
          · rename_i hk
            obtain ⟨y0, hy0, e⟩ := mvL_eq_some hp
            rw [hL] at e
            refine ⟨y0, k, hy0, e, ?_, ?_⟩
            · intro e0; subst e0
              exact hk (wd.fwd _ _ hy0).2.2.1.symm
            · rw [← e1]; simp [hF]
      · rw [if_neg e1] at hp
        obtain ⟨y0, hy0, e⟩ := mvL_eq_some hp
        rw [hL] at e
        refine ⟨y0, k, hy0, e, ?_, by simp [e1]⟩
        intro e0; subst e0
        exact e1 (wd.fwd _ _ hy0).2.1.symm
    obtain ⟨y0, k0, hy0, e, hne, hk⟩ := key
    obtain ⟨a1, a2, a3, a4⟩ := wd.fwd k0 y0 hy0
    obtain ⟨m1, m2⟩ := mv_facts hl a1 hne
    subst e
    obtain ⟨f1, f2, f3, _, f4⟩ := sp.line _ m1
    rw [m2] at f1 f4
    rw [sp.lsize, f1, f4 a4, a2, a3, hk, m2]
    refine ⟨m1, rfl, ?_, a4⟩
    by_cases e1 : d = (net.line l).driver <;> simp [e1]
  · intro l' hl' hne' hd'
    have hl'' : l' < net.lines.size - 1 := by rw [← sp.lsize]; exact hl'
    obtain ⟨hy, hyl, hmv⟩ := nm_facts hl hl''
    obtain ⟨f1, f2, f3, _, f4⟩ := sp.line l' hl''
    rw [f1] at hd'
    have yo := wd.back _ hy hne' hd'
    rw [f4 hne', sp.outPin]
    by_cases e1 : d = (net.line l).driver
    · have w := wd
      rw [e1] at w yo hd'
      have bo := w.back l hl hex rfl
      have hpne : (net.line (nmN net.lines.size l l')).dpin ≠ (net.line l).dpin := by
        intro ep
        rw [ep, bo] at yo
        exact hyl (Option.some.inj yo).symm
      rw [if_pos e1, e1]
      simp only [hd', true_and]
      by_cases hF : (net.node (net.line l).driver).isFork = true
      · simp only [hF, if_true, true_and]
        by_cases hlt : (net.line l).dpin < (net.line (nmN net.lines.size l l')).dpin
        · simp only [hlt, if_true]
          have h1 : ¬ (net.line (nmN net.lines.size l l')).dpin - 1 < (net.line l).dpin := by omega
          have h2 : (net.line (nmN net.lines.size l l')).dpin - 1 + 1 = (net.line (nmN net.lines.size l l')).dpin := by omega
          rw [if_neg h1, h2, yo, mvL_some, hL, hmv]
        · simp only [hlt, if_false]
          have h1 : (net.line (nmN net.lines.size l l')).dpin < (net.line l).dpin := by omega
          rw [if_pos h1, yo, mvL_some, hL, hmv]
      · simp only [hF, Bool.false_eq_true, if_false, false_and]
        rw [if_neg hpne, yo, mvL_some, hL, hmv]
    · have : ¬ ((net.line (nmN net.lines.size l l')).driver = (net.line l).driver) := by rw [hd']; exact e1
      simp only [this, false_and, if_false, e1]
      rw [yo, mvL_some, hL, hmv]

end KV.Transform
