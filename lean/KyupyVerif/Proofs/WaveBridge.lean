import KyupyVerif.Proofs.Activity
import KyupyVerif.Proofs.WaveMemSound
/-! Bridge between the two memory-level models of a `WaveSim` propagation:

* `WaveIO` (Model/WaveIO.lean): the two code paths as the code has them — `cpuCProp` / `gpuCProp` over lanes, evaluator `evWave`
  reading `rdCells`/`readWave` and writing `wrWave` (entries + terminator, everything else untouched); tied to the real arrays
  (C06 `path-tie`: `s_to_c`, `s_ppo_to_ppi`, capture cell by cell; `path-tie-cprop`, driver `wio-cprop`: after a whole `c_prop` the
  waveform every region reads as and every accumulator);
* `Wave` / `MapSound` (Proofs/WaveMem.lean, WaveMemSound.lean): regions `rdWave`/`wrWave junk`, the evaluator contract `WaveStep`,
  runs `WaveRun`, the deterministic run `memRun`; the theorems C03–C05, C13 (`wave_memory_sound`, …) are about these.

Here: both read the same waveform from a region (`readWave_rdCells_eq`), both store the same cells when the waveform leaves room
for its terminator (`wrWave_eq`), the row semantics agree (`waveSem_wvOp`), hence a lane of the `WaveIO` propagation with the waveform
evaluator IS the deterministic run `memRun … keepJunk` of the rows in schedule order (`laneMem_eq_memRun`, capacities ≥ 2). -/
namespace KV.WaveIO
open KV KV.Sig KV.Wave KV.MapSound

theorem isEnd_eq_isTerm (t : T) : isEnd t = t.isTerm := by cases t <;> rfl

/-- scanning up to the first terminator: the two formulations -/
theorem readWave_eq_scan (cells : List T) : readWave cells = scan cells := by
  induction cells with
  | nil => rfl
  | cons x r ih =>
    unfold readWave at ih ⊢
    simp only [scan, List.takeWhile_cons, List.dropWhile_cons, isEnd_eq_isTerm]
    cases hx : x.isTerm with
    | true => simp
    | false =>
      simp only [Bool.not_false, if_true, Bool.false_eq_true, if_false]
      rw [← ih]
      simp only [isEnd_eq_isTerm]

theorem rdCells_eq_cells (c : Col) (loc : Int) (cap : Nat) : rdCells c loc cap = cells loc cap c := rfl

/-- both models read the same waveform from a region -/
theorem readWave_rdCells_eq (c : Col) (loc : Int) (cap : Nat) : readWave (rdCells c loc cap) = rdWave loc cap c := by
  rw [readWave_eq_scan, rdCells_eq_cells]; rfl

theorem writeCells_get (c : Col) (loc : Int) (l : List T) (a : Int) (h1 : loc ≤ a) (h2 : a < loc + (l.length : Int)) :
    writeCells c loc l a = l.getD (a - loc).toNat T.tmax := by
  induction l generalizing c loc with
  | nil => simp at h2; omega
  | cons t r ih =>
    simp only [writeCells]
    by_cases ha : a = loc
    · subst ha
      rw [writeCells_frame _ _ _ _ (by omega)]
      simp [updI]
    · have h2' : a < loc + 1 + (r.length : Int) := by simp only [List.length_cons] at h2; omega
      rw [ih (updI c loc t) (loc + 1) (by omega) h2']
      have : (a - loc).toNat = (a - (loc + 1)).toNat + 1 := by omega
      rw [this, List.getD_cons_succ]

/-- both models store the same cells: a waveform with room for its terminator, left-overs kept -/
theorem wrWave_eq (c : Col) (loc : Int) (cap : Nat) (w : Wv) (hfit : w.ents.length < cap) :
    WaveIO.wrWave c loc w = Wave.wrWave (keepJunk loc cap w c) loc cap w c := by
  funext a
  unfold Wave.wrWave keepJunk
  by_cases hin : loc ≤ a ∧ a < loc + (cap : Int)
  · rw [if_pos hin]
    by_cases h1 : (a - loc).toNat < w.ents.length
    · rw [if_pos h1]
      unfold WaveIO.wrWave
      rw [writeCells_get _ _ _ _ hin.1 (by simp; omega)]
      simp only [List.getD_eq_getElem?_getD]
      rw [List.getElem?_append_left h1]
    · rw [if_neg h1]
      by_cases h2 : (a - loc).toNat = w.ents.length
      · rw [if_pos h2]
        unfold WaveIO.wrWave
        rw [writeCells_get _ _ _ _ hin.1 (by simp; omega)]
        simp only [List.getD_eq_getElem?_getD]
        rw [h2, List.getElem?_append_right (Nat.le_refl _)]
        simp
      · rw [if_neg h2]
        exact wrWave_frame c loc w a (by intro h; omega)
  · rw [if_neg hin]
    exact wrWave_frame c loc w a (by intro h; apply hin; omega)

/-- the row semantics of the memory-level theorems (eight indices: stems ++ branches) = the evaluator's (four indices): only the
    code, the output and the delay lines of the LAST four indices enter -/
theorem waveSem_wvOp (p : MapIn) (cfg : WCfg) (o : OpRow) (xs : List Wv) :
    waveSem cfg (wvOp p o) xs = waveSem cfg ⟨o.lut, o.out, o.ins⟩ xs := by
  have hD : ∀ (i : Fin 4) a b, opDelays cfg (wvOp p o) i a b = opDelays cfg ⟨o.lut, o.out, o.ins⟩ i a b := by
    intro i a b
    match i with
    | 0 => rfl
    | 1 => rfl
    | 2 => rfl
    | 3 => rfl
  unfold waveSem
  show (⟨(waveEval o.lut (opDelays cfg (wvOp p o)) _ _ _).1, (waveEval o.lut (opDelays cfg (wvOp p o)) _ _ _).2.1⟩ : Wv) = _
  rw [waveEval_congr_D hD]
  rfl

/-- one evaluation: the `WaveIO` evaluator (one configuration) = `memStep` of the memory-level model with left-overs kept -/
theorem evWave_eq_memStep (p : MapIn) (delay : Nat → Bool → Bool → Int) (o : OpRow) (sim : Nat) (c : Col)
    (hcap : 2 ≤ p.cap o.out) :
    (evWave (fun _ => wcfg p delay) p.loc o sim c).1 = memStep p (waveRW keepJunk) (waveRow (wcfg p delay) p) c o := by
  have hxs : (o.ins.map fun i => readWave (rdCells c (p.loc i) ((wcfg p delay).cap i))) =
      (o.ins.map fun i => rdS p (waveRW keepJunk) i c) := by
    apply List.map_congr_left
    intro i _
    exact readWave_rdCells_eq c (p.loc i) (p.cap i)
  show WaveIO.wrWave c (p.loc o.out) (waveSem (wcfg p delay) ⟨o.lut, o.out, o.ins⟩ _) = _
  rw [hxs]
  unfold memStep waveRow
  rw [waveSem_wvOp]
  exact wrWave_eq c (p.loc o.out) (p.cap o.out) _ (waveSem_len (wcfg p delay) ⟨o.lut, o.out, o.ins⟩ _ hcap)

/-- **a lane of the code-path model = the deterministic run of the memory-level theorems**: rows in schedule order, every output
    capacity ≥ 2 (WaveSim allocates ≥ 4) -/
theorem laneMem_eq_memRun (p : MapIn) (delay : Nat → Bool → Bool → Int) (sim : Nat) (rows : List AOp) (c : Col)
    (hcap : ∀ o ∈ rows, 2 ≤ p.cap o.op.out) :
    laneMem (evWave (fun _ => wcfg p delay) p.loc) sim rows c =
      memRun p (waveRW keepJunk) (waveRow (wcfg p delay) p) (rows.map (·.op)) c := by
  unfold memRun
  induction rows generalizing c with
  | nil => rfl
  | cons o r ih =>
    simp only [laneMem, List.map_cons, List.foldl_cons]
    rw [evWave_eq_memStep p delay o.op sim c (hcap o List.mem_cons_self)]
    exact ih _ (fun o' ho' => hcap o' (List.mem_cons_of_mem _ ho'))

end KV.WaveIO
