import KyupyVerif.Model.Heap

namespace KV.Heap

theorem noAdj_tail {c : Chunk} {l : List Chunk} (h : NoAdj (c :: l)) (hl : l ≠ []) : NoAdj l := by
  cases l with
  | nil => exact absurd rfl hl
  | cons d r => exact h.2

/-- head may be replaced by a used chunk -/
theorem noAdj_cons_used {c : Chunk} {l : List Chunk} (hc : c.free = false) (h : l = [] ∨ NoAdj l) :
    NoAdj (c :: l) := by
  cases l with
  | nil => exact hc
  | cons d r =>
    refine ⟨?_, ?_⟩
    · intro ⟨h1, _⟩; simp [hc] at h1
    · cases h with
      | inl h => cases h
      | inr h => exact h

theorem allocIn_noAdj (size : Nat) : ∀ (start : Nat) (l : List Chunk) (loc : Nat) (l' : List Chunk),
    NoAdj l → allocIn size start l = some (loc, l') → NoAdj l' := by
  intro start l
  induction l generalizing start with
  | nil => intro loc l' _ h; simp [allocIn] at h
  | cons c rest ih =>
    intro loc l' hinv h
    unfold allocIn at h
    split at h
    · -- exact fit
      rename_i hfit
      simp at h; obtain ⟨_, rfl⟩ := h
      cases rest with
      | nil => simp [NoAdj]
      | cons d r => exact ⟨by simp, hinv.2⟩
    · split at h
      · -- split
        rename_i _ hgt
        simp at h; obtain ⟨_, rfl⟩ := h
        simp only [Bool.and_eq_true, decide_eq_true_eq] at hgt
        cases rest with
        | nil => -- c is last and free: contradicts invariant
          simp [NoAdj] at hinv; simp [hinv] at hgt
        | cons d r =>
          refine ⟨by simp, ?_, hinv.2⟩
          intro ⟨_, hd⟩; exact hinv.1 ⟨hgt.1, hd⟩
      · -- recurse
        rename_i hnf hng
        split at h
        · simp at h
        · rename_i loc2 rest' heq
          simp at h; obtain ⟨_, rfl⟩ := h
          cases rest with
          | nil => simp [allocIn] at heq
          | cons d r =>
            have hr := ih (start + c.size) loc2 rest' hinv.2 heq
            -- head of rest' : either d with free:=false / same free flag as d, or a used chunk
            unfold allocIn at heq
            split at heq
            · simp at heq; obtain ⟨_, rfl⟩ := heq
              exact ⟨by simp, hr⟩
            · split at heq
              · simp at heq; obtain ⟨_, rfl⟩ := heq
                exact ⟨by simp, hr⟩
              · split at heq
                · simp at heq
                · simp at heq; obtain ⟨_, rfl⟩ := heq
                  exact ⟨hinv.1, hr⟩

end KV.Heap
