import KyupyVerif.Proofs.NetlistCirc
/-! Helper lemmas for C11 (part 3): what pass 1, pass 1.5 and pass 2 add for one pin / one assign pair, and `io_nodes`. -/
namespace KV.Netlist

/-! ## pass 1: output pins -/
theorem pass1Pin_adds (tl : TL) (ds : List Decl) (ty inst p s : String) (idx : Nat) (C : Circ)
    (htl : tl ty p = some (idx, true)) :
    (⟨.cell inst idx, .fork (outSig ds s).1, none⟩ : LineM) ∈ (pass1Pin tl ds ty inst C (p, .one s)).lines ∧
    (pass1Pin tl ds ty inst C (p, .one s)).isFork (outSig ds s).1 = true := by
  unfold pass1Pin
  simp only [htl]
  refine ⟨by simp, ?_⟩
  simp only [failIf_isFork, addLine_isFork]
  exact isFork_addFork_self _ _ _

theorem pass1_reaches (tl : TL) (ds : List Decl) (stmts : List Stmt) (C0 : Circ) (ty inst p s : String) (idx : Nat)
    (pins : List (String × SelVal)) (hmem : Stmt.inst ty inst pins ∈ stmts) (hp : (p, SelVal.one s) ∈ pins)
    (htl : tl ty p = some (idx, true)) :
    (⟨.cell inst idx, .fork (outSig ds s).1, none⟩ : LineM) ∈ (stmts.foldl (pass1Stmt tl ds) C0).lines ∧
    (stmts.foldl (pass1Stmt tl ds) C0).isFork (outSig ds s).1 = true ∧
    (⟨ty, inst, false⟩ : NodeM) ∈ (stmts.foldl (pass1Stmt tl ds) C0).nodes := by
  obtain ⟨C, _, h1⟩ := foldl_reach (pass1Stmt tl ds) (sub_pass1Stmt tl ds) hmem C0
  have hstep : pass1Stmt tl ds C (Stmt.inst ty inst pins) = pins.foldl (pass1Pin tl ds ty inst) (C.addCell ty inst) := rfl
  obtain ⟨C', h0, h2⟩ := foldl_reach (pass1Pin tl ds ty inst) (sub_pass1Pin tl ds ty inst) hp (C.addCell ty inst)
  have ha := pass1Pin_adds tl ds ty inst p s idx C' htl
  rw [hstep] at h1
  refine ⟨h1.lines _ (h2.lines _ ha.1), h1.isFork (h2.isFork ha.2), ?_⟩
  exact h1.nodes _ ((sub_foldl _ (sub_pass1Pin tl ds ty inst) pins _).nodes _ (by simp))

/-! ## pass 2: input pins -/
theorem resolveRead_cases (cfg : Cfg) (ds : List Decl) (C : Circ) (s : String) :
    (resolveRead cfg ds C s).1 = s ∨ (resolveRead cfg ds C s).1 = s ++ "[0]" ∨
    (cfg.onebitDecl = true ∧ ∃ d, lookup ds s = some d ∧ d.names = [(resolveRead cfg ds C s).1]) := by
  unfold resolveRead
  split
  · left; rfl
  · split
    · rename_i x hx
      right; right
      by_cases hc : cfg.onebitDecl = true
      · simp only [hc, if_true] at hx
        refine ⟨hc, ?_⟩
        unfold declFork at hx
        split at hx
        · rename_i d hd
          split at hx
          · rename_i y hy
            split at hx
            · cases hx; exact ⟨d, hd, hy⟩
            · cases hx
          · cases hx
        · cases hx
      · simp [hc] at hx
    · split
      · right; left; rfl
      · left; rfl

theorem declFork_isFork (ds : List Decl) (C : Circ) (s x : String) (h : declFork ds C s = some x) : C.isFork x = true := by
  unfold declFork at h
  split at h
  · split at h
    · split at h
      · rename_i hf; cases h; exact hf
      · cases h
    · cases h
  · cases h

theorem forkFor_isFork (cfg : Cfg) (ds : List Decl) (C : Circ) (s : String) :
    (forkFor cfg ds C s).isFork (resolveRead cfg ds C s).1 = true := by
  unfold forkFor
  by_cases hf : (resolveRead cfg ds C s).2 = true
  · simp only [hf, if_true]; exact isFork_addFork_self _ _ _
  · simp only [hf]
    revert hf
    unfold resolveRead
    by_cases h1 : C.isFork s = true
    · simp [h1]
    · simp only [h1]
      cases hd : (if cfg.onebitDecl = true then declFork ds C s else none) with
      | some x =>
        intro _
        simp only []
        by_cases hc : cfg.onebitDecl = true
        · simp only [hc, if_true] at hd
          exact declFork_isFork ds C s x hd
        · simp [hc] at hd
      | none =>
        by_cases h2 : C.isFork (s ++ "[0]") = true
        · simp [h2]
        · simp [h2]

theorem resolveRead_of_isFork (cfg : Cfg) (ds : List Decl) (C : Circ) (s : String) (h : C.isFork s = true) :
    resolveRead cfg ds C s = (s, false) := by
  unfold resolveRead; simp [h]

/-- what an input pin naming `s` ends up connected to -/
def ReadOK (cfg : Cfg) (ds : List Decl) (inst pin : String) (idx : Nat) (s : String) (C : Circ) : Prop :=
  ∃ f, (⟨.fork f, .cell inst idx, if cfg.bf then some (branchName f inst pin) else none⟩ : LineM) ∈ C.lines ∧
    C.isFork f = true ∧
    (cfg.bf = true → (⟨forkKind, branchName f inst pin, true⟩ : NodeM) ∈ C.nodes) ∧
    ((isConstBit s = false ∧ (f = s ∨ f = s ++ "[0]" ∨
        (cfg.onebitDecl = true ∧ ∃ d, lookup ds s = some d ∧ d.names = [f]))) ∨
     (isConstBit s = true ∧ ∃ k, f = constName s k ∧ (⟨.cell f 0, .fork f, none⟩ : LineM) ∈ C.lines ∧
        (⟨constKind s, f, false⟩ : NodeM) ∈ C.nodes))

theorem ReadOK.mono {cfg : Cfg} {ds : List Decl} {inst pin : String} {idx : Nat} {s : String} {C C' : Circ}
    (hs : Sub C C') (h : ReadOK cfg ds inst pin idx s C) : ReadOK cfg ds inst pin idx s C' := by
  obtain ⟨f, h1, h2, h3, h4⟩ := h
  refine ⟨f, hs.lines _ h1, hs.isFork h2, fun hb => hs.nodes _ (h3 hb), ?_⟩
  rcases h4 with h4 | ⟨hc, k, hk, hl, hn⟩
  · left; exact h4
  · right; exact ⟨hc, k, hk, hs.lines _ hl, hs.nodes _ hn⟩

theorem connectPin_line (bf : Bool) (inst pin : String) (idx : Nat) (C : Circ) (f : String) :
    (⟨.fork f, .cell inst idx, if bf then some (branchName f inst pin) else none⟩ : LineM) ∈ (connectPin bf inst pin idx C f).lines ∧
    (bf = true → (⟨forkKind, branchName f inst pin, true⟩ : NodeM) ∈ (connectPin bf inst pin idx C f).nodes) := by
  unfold connectPin
  cases bf <;> simp

theorem constPin_facts (C : Circ) (s : String) :
    (isConstBit s = true → (constPin C s).2 = constName s C.cc ∧ (constPin C s).1.isFork (constName s C.cc) = true ∧
      (⟨.cell (constName s C.cc) 0, .fork (constName s C.cc), none⟩ : LineM) ∈ (constPin C s).1.lines ∧
      (⟨constKind s, constName s C.cc, false⟩ : NodeM) ∈ (constPin C s).1.nodes) ∧
    (isConstBit s = false → constPin C s = (C, s)) := by
  unfold constPin
  constructor
  · intro h
    simp only [h, if_true]
    refine ⟨by simp, ?_, by simp, by simp⟩
    simp only [addLine_isFork]
    exact isFork_addFork_self _ _ _
  · intro h; simp [h]

theorem readerCore_ok (cfg : Cfg) (ds : List Decl) (inst pin : String) (idx : Nat) (C1 : Circ) (s' : String) :
    (⟨.fork (resolveRead cfg ds C1 s').1, .cell inst idx,
        if cfg.bf then some (branchName (resolveRead cfg ds C1 s').1 inst pin) else none⟩ : LineM) ∈
      (connectPin cfg.bf inst pin idx (forkFor cfg ds C1 s') (resolveRead cfg ds C1 s').1).lines ∧
    (connectPin cfg.bf inst pin idx (forkFor cfg ds C1 s') (resolveRead cfg ds C1 s').1).isFork (resolveRead cfg ds C1 s').1 = true ∧
    (cfg.bf = true → (⟨forkKind, branchName (resolveRead cfg ds C1 s').1 inst pin, true⟩ : NodeM) ∈
      (connectPin cfg.bf inst pin idx (forkFor cfg ds C1 s') (resolveRead cfg ds C1 s').1).nodes) ∧
    Sub C1 (connectPin cfg.bf inst pin idx (forkFor cfg ds C1 s') (resolveRead cfg ds C1 s').1) := by
  have hcp := connectPin_line cfg.bf inst pin idx (forkFor cfg ds C1 s') (resolveRead cfg ds C1 s').1
  have hsub := sub_connectPin cfg.bf inst pin idx (forkFor cfg ds C1 s') (resolveRead cfg ds C1 s').1
  exact ⟨hcp.1, hsub.isFork (forkFor_isFork cfg ds C1 s'), hcp.2, (sub_forkFor _ _ _ _).trans hsub⟩

theorem readerOne_ok (cfg : Cfg) (ds : List Decl) (inst pin : String) (idx : Nat) (C : Circ) (s : String) :
    ReadOK cfg ds inst pin idx s (readerOne cfg ds inst pin idx C s) := by
  unfold readerOne
  have hfacts := constPin_facts C s
  have hcore := readerCore_ok cfg ds inst pin idx (constPin C s).1 (constPin C s).2
  generalize hC1 : (constPin C s).1 = C1 at hfacts hcore ⊢
  generalize hs' : (constPin C s).2 = s' at hfacts hcore ⊢
  obtain ⟨h1, h2, h3, h4⟩ := hcore
  refine ⟨_, h1, h2, h3, ?_⟩
  by_cases hc : isConstBit s = true
  · right
    obtain ⟨e1, e2, e3, e4⟩ := hfacts.1 hc
    subst e1
    have hf : (resolveRead cfg ds C1 (constName s C.cc)).1 = constName s C.cc := by
      rw [resolveRead_of_isFork _ _ _ _ e2]
    rw [hf] at h4 ⊢
    exact ⟨hc, C.cc, rfl, h4.lines _ e3, h4.nodes _ e4⟩
  · left
    have hc' : isConstBit s = false := by simpa using hc
    have hp := hfacts.2 hc'
    have e1 : C1 = C := by rw [← hC1, hp]
    have e2 : s' = s := by rw [← hs', hp]
    subst e1; subst e2
    exact ⟨hc', resolveRead_cases cfg ds C1 s'⟩

theorem pass2_reaches (cfg : Cfg) (tl : TL) (ds : List Decl) (stmts : List Stmt) (C0 : Circ) (ty inst p s : String) (idx : Nat)
    (pins : List (String × SelVal)) (hmem : Stmt.inst ty inst pins ∈ stmts) (hp : (p, SelVal.one s) ∈ pins)
    (htl : tl ty p = some (idx, false)) :
    ReadOK cfg ds inst p idx s (stmts.foldl (pass2Stmt cfg tl ds) C0) := by
  obtain ⟨C, _, h1⟩ := foldl_reach (pass2Stmt cfg tl ds) (sub_pass2Stmt cfg tl ds) hmem C0
  have hstep : pass2Stmt cfg tl ds C (Stmt.inst ty inst pins) = pins.foldl (readerPin cfg tl ds ty inst) C := rfl
  obtain ⟨C', _, h2⟩ := foldl_reach (readerPin cfg tl ds ty inst) (sub_readerPin cfg tl ds ty inst) hp C
  rw [hstep] at h1
  have hpin : readerPin cfg tl ds ty inst C' (p, SelVal.one s) = readerOne cfg ds inst p idx C' s := by
    unfold readerPin; simp only [htl]
  have := readerOne_ok cfg ds inst p idx C' s
  rw [← hpin] at this
  exact (this.mono h2).mono h1

/-! ## pass 1.5: one assign pair -/
theorem assignStep_spec (C : Circ) (t s : String) :
    (C.isFork t = true → (⟨.fork t, .fork s, none⟩ : LineM) ∈ (assignStep C (t, s)).lines) ∧
    (C.isFork t = false → C.isFork s = true → (⟨.fork s, .fork t, none⟩ : LineM) ∈ (assignStep C (t, s)).lines) ∧
    (C.isFork t = false → C.isFork s = false → isConstBit s = true →
      (⟨.cell (constName s C.cc) 0, .fork t, none⟩ : LineM) ∈ (assignStep C (t, s)).lines ∧
      (⟨constKind s, constName s C.cc, false⟩ : NodeM) ∈ (assignStep C (t, s)).nodes) ∧
    (C.isFork t = false → C.isFork s = false → isConstBit s = false → assignStep C (t, s) = C) := by
  unfold assignStep
  refine ⟨?_, ?_, ?_, ?_⟩
  · intro h; simp [h]
  · intro h1 h2; simp [h1, h2]
  · intro h1 h2 h3; simp [h1, h2, h3]
  · intro h1 h2 h3; simp [h1, h2, h3]

/-- a driven target stays a fork: after the step both sides are forks whenever the pair was handled -/
theorem assignStep_forks (C : Circ) (t s : String) (h : handled C (t, s) = true) :
    (assignStep C (t, s)).isFork t = true ∧ (isConstBit s = false ∨ C.isFork t = true ∨ C.isFork s = true → (assignStep C (t, s)).isFork s = true) := by
  unfold assignStep
  by_cases h1 : C.isFork t = true
  · simp only [h1, if_true, addLine_isFork]
    refine ⟨(sub_addFork _ _ _).isFork (by simpa using h1), fun _ => isFork_addFork_self _ _ _⟩
  · by_cases h2 : C.isFork s = true
    · simp only [h1, h2, if_true, addLine_isFork]
      refine ⟨isFork_addFork_self _ _ _, fun _ => (sub_addFork _ _ _).isFork h2⟩
    · have h3 : isConstBit s = true := by
        unfold handled at h; simp [h1, h2] at h; exact h
      simp only [h1, h2, h3, if_true, addLine_isFork]
      refine ⟨isFork_addFork_self _ _ _, ?_⟩
      intro hh; rcases hh with hh | hh | hh
      · simp [h3] at hh
      · simp at hh
      · simp at hh

/-! ## `io_nodes` -/
section io
theorem io_pass1Pin (tl : TL) (ds : List Decl) (ty inst : String) (C : Circ) (ps : String × SelVal) :
    (pass1Pin tl ds ty inst C ps).io = C.io := by
  unfold pass1Pin
  split
  · rfl
  · split <;> rfl
  · rfl

theorem io_foldl {α} (step : Circ → α → Circ) (h : ∀ C x, (step C x).io = C.io) (l : List α) (C : Circ) :
    (l.foldl step C).io = C.io := by
  induction l generalizing C with
  | nil => rfl
  | cons x xs ih => simp only [List.foldl_cons]; rw [ih, h]

theorem io_pass1Stmt (tl : TL) (ds : List Decl) (C : Circ) (s : Stmt) : (pass1Stmt tl ds C s).io = C.io := by
  cases s with
  | inst ty nm pins =>
    show (pins.foldl (pass1Pin tl ds ty nm) (C.addCell ty nm)).io = C.io
    rw [io_foldl _ (io_pass1Pin tl ds ty nm)]; rfl
  | decls _ => rfl
  | assign _ _ => rfl
  | other => rfl

def ioOfName (pn : List String) (n : String) : List (Nat × String) :=
  match posOf pn n with
  | some k => [(k, n)]
  | none => []

theorem io_ioStep (pn : List String) (C : Circ) (n : String) : (ioStep pn C n).io = C.io ++ ioOfName pn n := by
  cases h : posOf pn n <;> simp [ioStep, ioOfName, h]

theorem io_portName (pn : List String) (k : DKind) (C : Circ) (n : String) :
    (portName pn k C n).io = C.io ++ ioOfName pn n := by
  unfold portName
  split
  · simp [io_ioStep]
  · simp [io_ioStep]

theorem io_foldl_portName (pn : List String) (k : DKind) (names : List String) (C : Circ) :
    (names.foldl (portName pn k) C).io = C.io ++ names.flatMap (ioOfName pn) := by
  induction names generalizing C with
  | nil => simp
  | cons n ns ih => simp only [List.foldl_cons, List.flatMap_cons]; rw [ih, io_portName]; simp

def ioOfDecl (pn : List String) (d : Decl) : List (Nat × String) :=
  if d.kind == .wire then [] else d.names.flatMap (ioOfName pn)

theorem io_portDecl (pn : List String) (C : Circ) (d : Decl) : (portDecl pn C d).io = C.io ++ ioOfDecl pn d := by
  unfold portDecl ioOfDecl
  split
  · simp
  · exact io_foldl_portName pn d.kind d.names C

theorem io_portPass (pn : List String) (ds : List Decl) (C : Circ) :
    (portPass pn ds C).io = C.io ++ ds.flatMap (ioOfDecl pn) := by
  unfold portPass
  induction ds generalizing C with
  | nil => simp
  | cons d ds ih => simp only [List.foldl_cons, List.flatMap_cons]; rw [ih, io_portDecl]; simp

theorem io_assignStep (C : Circ) (ts : String × String) : (assignStep C ts).io = C.io := by
  unfold assignStep
  split
  · rfl
  · split
    · rfl
    · split <;> rfl

theorem io_roundStep (acc : Circ × List (String × String)) (ts : String × String) : (roundStep acc ts).1.io = acc.1.io := by
  unfold roundStep
  split
  · exact io_assignStep _ _
  · rfl

theorem io_assignRound_aux (pairs : List (String × String)) (acc : Circ × List (String × String)) :
    (pairs.foldl roundStep acc).1.io = acc.1.io := by
  induction pairs generalizing acc with
  | nil => rfl
  | cons ts rest ih => simp only [List.foldl_cons]; rw [ih, io_roundStep]

theorem io_assignFix (fuel : Nat) (C : Circ) (pairs : List (String × String)) : (assignFix fuel C pairs).1.io = C.io := by
  induction fuel generalizing C pairs with
  | zero => rfl
  | succ f ih =>
    unfold assignFix
    split
    · rfl
    · split
      · exact io_assignRound_aux pairs (C, [])
      · rw [ih]; exact io_assignRound_aux pairs (C, [])

theorem io_pass15 (cfg : Cfg) (C : Circ) (pairs : List (String × String)) : (pass15 cfg C pairs).io = C.io := by
  unfold pass15
  split
  · exact io_assignFix _ _ _
  · exact io_foldl _ io_assignStep _ _

theorem io_constPin (C : Circ) (s : String) : (constPin C s).1.io = C.io := by
  unfold constPin
  split <;> rfl

theorem io_readerPin (cfg : Cfg) (tl : TL) (ds : List Decl) (ty inst : String) (C : Circ) (ps : String × SelVal) :
    (readerPin cfg tl ds ty inst C ps).io = C.io := by
  unfold readerPin
  split
  · rfl
  · rfl
  · split
    · rfl
    · unfold readerOne connectPin forkFor
      split <;> split <;> simp [io_constPin]

theorem io_pass2Stmt (cfg : Cfg) (tl : TL) (ds : List Decl) (C : Circ) (s : Stmt) : (pass2Stmt cfg tl ds C s).io = C.io := by
  cases s with
  | inst ty nm pins => exact io_foldl _ (io_readerPin cfg tl ds ty nm) pins C
  | decls _ => rfl
  | assign _ _ => rfl
  | other => rfl

theorem io_outName (C : Circ) (n : String) : (outName C n).io = C.io := by
  unfold outName
  split
  · rfl
  · split <;> rfl

theorem io_outDecl (C : Circ) (d : Decl) : (outDecl C d).io = C.io := by
  unfold outDecl
  split
  · exact io_foldl _ io_outName _ _
  · rfl

theorem io_module (cfg : Cfg) (tl : TL) (ports : List String) (stmts : List Stmt) :
    (module cfg tl ports stmts).io = (sigDecls stmts).flatMap (ioOfDecl (posNames (sigDecls stmts) ports)) := by
  unfold module outPass afterPass2 afterPass15 afterPass1
  rw [io_foldl _ io_outDecl, io_foldl _ (io_pass2Stmt cfg tl _), io_pass15, io_portPass, io_foldl _ (io_pass1Stmt tl _)]
  simp
end io

/-! ### `ioNames` of a complete assignment list -/
theorem foldl_max_ge (l : List Nat) (a : Nat) : a ≤ l.foldl max a := by
  induction l generalizing a with
  | nil => exact Nat.le_refl _
  | cons x xs ih => exact Nat.le_trans (Nat.le_max_left a x) (ih _)

theorem foldl_max_mem (l : List Nat) (a x : Nat) (h : x ∈ l) : x ≤ l.foldl max a := by
  induction l generalizing a with
  | nil => cases h
  | cons y ys ih =>
    rcases List.mem_cons.mp h with rfl | h'
    · exact Nat.le_trans (Nat.le_max_right a x) (foldl_max_ge _ _)
    · exact ih _ h'

theorem foldl_max_le (l : List Nat) (a m : Nat) (ha : a ≤ m) (h : ∀ x ∈ l, x ≤ m) : l.foldl max a ≤ m := by
  induction l generalizing a with
  | nil => exact ha
  | cons y ys ih =>
    apply ih
    · exact Nat.max_le.mpr ⟨ha, h y List.mem_cons_self⟩
    · intro x hx; exact h x (List.mem_cons_of_mem _ hx)

/-- every assignment writes the name that belongs to its position, and every position is written:
then `io_nodes` is the position list itself -/
theorem ioNames_complete (C : Circ) (pn : List String)
    (hsound : ∀ p ∈ C.io, pn[p.1]? = some p.2)
    (hall : ∀ i, i < pn.length → ∃ n, (i, n) ∈ C.io) :
    ioNames C = pn.map some := by
  have hlen : (C.io.map (·.1 + 1)).foldl max 0 = pn.length := by
    apply Nat.le_antisymm
    · apply foldl_max_le _ _ _ (Nat.zero_le _)
      intro x hx
      obtain ⟨p, hp, rfl⟩ := List.mem_map.mp hx
      have := hsound p hp
      have := (List.getElem?_eq_some_iff.mp this).1
      omega
    · by_cases h0 : pn.length = 0
      · omega
      · obtain ⟨n, hn⟩ := hall (pn.length - 1) (by omega)
        have : pn.length - 1 + 1 ∈ C.io.map (·.1 + 1) := List.mem_map.mpr ⟨_, hn, rfl⟩
        have := foldl_max_mem _ 0 _ this
        omega
  unfold ioNames
  rw [hlen]
  apply List.ext_getElem?
  intro i
  by_cases hi : i < pn.length
  · rw [List.getElem?_map, List.getElem?_range hi, List.getElem?_map]
    simp only [Option.map_some]
    obtain ⟨n, hn⟩ := hall i hi
    have hne : (C.io.filter (·.1 == i)) ≠ [] := by
      intro he
      have : (i, n) ∈ C.io.filter (·.1 == i) := List.mem_filter.mpr ⟨hn, by simp⟩
      rw [he] at this; cases this
    obtain ⟨q, hq⟩ := Option.isSome_iff_exists.mp (by simpa using hne : ((C.io.filter (·.1 == i)).getLast?).isSome)
    rw [hq]
    have hqm : q ∈ C.io.filter (·.1 == i) := List.mem_of_getLast? hq
    obtain ⟨hq1, hq2⟩ := List.mem_filter.mp hqm
    have hqi : q.1 = i := by simpa using hq2
    have := hsound q hq1
    rw [hqi] at this
    rw [this]; rfl
  · have h1 : ((List.range pn.length).map fun i => ((C.io.filter (·.1 == i)).getLast?).map (·.2))[i]? = none := by
      rw [List.getElem?_eq_none_iff]; simp; omega
    have h2 : (pn.map some)[i]? = none := by
      rw [List.getElem?_eq_none_iff]; simp; omega
    rw [h1, h2]

end KV.Netlist
