import KyupyVerif.Model.VerilogSem
/-! "Either format" at the level of ONE gate (audit-2 finding 8 / B-C11-4, partial): the Verilog instance of the primitive library
that renders the bench statement `name = K(d0, …)` drives the signal `name` and puts on it what the bench statement computes.
The netlist-level theorem (`bench_verilog_equiv`, see Props/C11Library.lean) is NOT proved. -/
namespace KV.Netlist
open KV

/-- pin table of the library of simulation primitives in the renderings of the common fragment: output `o`, inputs `i0` … `i3` -/
def primTL : TL := fun _ p =>
  if p == "o" then some (0, true) else if p == "i0" then some (0, false) else if p == "i1" then some (1, false)
  else if p == "i2" then some (2, false) else if p == "i3" then some (3, false) else none

def primInPins : List String → List (String × SelVal)
  | [] => []
  | [d0] => [("i0", .one d0)]
  | [d0, d1] => [("i0", .one d0), ("i1", .one d1)]
  | [d0, d1, d2] => [("i0", .one d0), ("i1", .one d1), ("i2", .one d2)]
  | d0 :: d1 :: d2 :: d3 :: _ => [("i0", .one d0), ("i1", .one d1), ("i2", .one d2), ("i3", .one d3)]

/-- the Verilog instance of the bench gate statement `name = K(drv…)` -/
def instOfGate (K inst name : String) (drv : List String) : VInst := ⟨K, inst, ("o", .one name) :: primInPins drv⟩

theorem inSig_instOfGate (K inst name : String) (drv : List String) (hlen : drv.length ≤ 4) (k : Nat) (hk : k < 4) :
    inSig primTL (instOfGate K inst name drv) k = drv[k]? := by
  match drv, hlen with
  | [], _ => rcases (by omega : k = 0 ∨ k = 1 ∨ k = 2 ∨ k = 3) with rfl | rfl | rfl | rfl <;> rfl
  | [d0], _ => rcases (by omega : k = 0 ∨ k = 1 ∨ k = 2 ∨ k = 3) with rfl | rfl | rfl | rfl <;> rfl
  | [d0, d1], _ => rcases (by omega : k = 0 ∨ k = 1 ∨ k = 2 ∨ k = 3) with rfl | rfl | rfl | rfl <;> rfl
  | [d0, d1, d2], _ => rcases (by omega : k = 0 ∨ k = 1 ∨ k = 2 ∨ k = 3) with rfl | rfl | rfl | rfl <;> rfl
  | [d0, d1, d2, d3], _ => rcases (by omega : k = 0 ∨ k = 1 ∨ k = 2 ∨ k = 3) with rfl | rfl | rfl | rfl <;> rfl
  | _ :: _ :: _ :: _ :: _ :: _, h => simp at h

theorem outConn_instOfGate (ds : List Decl) (K inst name : String) (drv : List String) (hlen : drv.length ≤ 4) :
    outConn primTL ds (instOfGate K inst name drv) = [(0, (outSig ds name).1)] := by
  match drv, hlen with
  | [], _ => rfl
  | [d0], _ => rfl
  | [d0, d1], _ => rfl
  | [d0, d1, d2], _ => rfl
  | [d0, d1, d2, d3], _ => rfl
  | _ :: _ :: _ :: _ :: _ :: _, h => simp at h

/-- **one gate, either format**: the Verilog instance `K inst(.o(name), .i0(d0), …)` of the primitive library puts on its output
what the bench statement `name = K(d0, …)` computes (any value domain, at most four operands, no operand a constant literal) -/
theorem gate_format_equiv {α} (z : α) (neg : α → α) (prim : String → α → α → α → α → α) (a : Nat → α) (pos : Nat)
    (K inst name : String) (drv : List String) (hlen : drv.length ≤ 4) (hseq : isSeqKind K = false)
    (hc : ∀ d ∈ drv, isConstLit d = false) (σ : String → α) :
    instVal primTL z neg prim a pos (instOfGate K inst name drv) 0 σ = gateVal z prim K drv σ := by
  have hs : ∀ k, k < 4 → (match inSig primTL (instOfGate K inst name drv) k with | some s => sigVal z prim σ s | none => z) =
      (match drv[k]? with | some d => σ d | none => z) := by
    intro k hk
    rw [inSig_instOfGate K inst name drv hlen k hk]
    cases hd : drv[k]? with
    | none => rfl
    | some d =>
      have := hc d (List.mem_of_getElem? hd)
      simp only [sigVal, this, Bool.false_eq_true, if_false]
  have h2 : (inSig primTL (instOfGate K inst name drv) 2).isSome = decide (2 < drv.length) := by
    rw [inSig_instOfGate K inst name drv hlen 2 (by omega)]
    by_cases h : 2 < drv.length <;> simp [h]
  have h3 : (inSig primTL (instOfGate K inst name drv) 3).isSome = decide (3 < drv.length) := by
    rw [inSig_instOfGate K inst name drv hlen 3 (by omega)]
    by_cases h : 3 < drv.length <;> simp [h]
  unfold instVal gateVal
  have hty : (instOfGate K inst name drv).ty = K := rfl
  rw [hty, hseq, h2, h3]
  simp only [Bool.false_eq_true, if_false]
  cases specPrimName K.toLower (decide (2 < drv.length)) (decide (3 < drv.length)) with
  | none => rfl
  | some n =>
    show prim n _ _ _ _ = prim n _ _ _ _
    congr 1
    · exact hs 0 (by omega)
    · exact hs 1 (by omega)
    · exact hs 2 (by omega)
    · exact hs 3 (by omega)
end KV.Netlist
