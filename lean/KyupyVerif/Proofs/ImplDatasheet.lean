import KyupyVerif.Model.ImplCert
import KyupyVerif.Proofs.SubstSem1
import KyupyVerif.Proofs.NetSpec
import KyupyVerif.Proofs.GenOpsProg
/-! Glue for the composition C19 → C10, part 1 (netlist level, any acyclic implementation):
for a well-formed netlist with a topological order in which every line is written by a row, the labellings that are
consistent in the node-indexed form `ConsN` of C10 (`lineEq` with `spN`) are exactly the simulation result of the `SimOps`
program — existence (`consN_exec`) and uniqueness (`consN_unique`) from `C01.all_circuits_solution` (`logic_all_circuits`)
through `solves_iff_consistent`. The stimulus is ANY `env` that holds the assignment of the `p`-th `s_nodes` element in input
slot `ppi + p` and 0 in the constant-0 slot. -/
namespace KV.Transform
open KV KV.Sig

/-- the equation of a line in the position-indexed reading (`NetConsistent`, C01/C02) and in the node-indexed one (`ConsN`,
    C10) is the same when input slot `ppi + p` holds the assignment of the `p`-th `s_nodes` element -/
theorem lineEq_pos_node {α} (net : Net) (z : α) (neg : α → α) (prim : String → α → α → α → α → α) (env an : Nat → α)
    (henv : ∀ p, p < net.sNodes.length → env (net.idx.ppi + p) = an (net.sNodes.getD p 0)) (v1 v2 : Nat → α) (l : Nat)
    (hv : ∀ k, ((net.node (net.line l).driver).inPin k).map v1 = ((net.node (net.line l).driver).inPin k).map v2) :
    lineEq net net.sPos z neg prim (fun p => env (net.idx.ppi + p)) v1 l = lineEq net (spN net) z neg prim an v2 l := by
  apply Transform.lineEq_congr
  · rfl
  · rfl
  · simp only [spN, Net.sPos, sPosIn, List.contains_iff_mem]
    by_cases h : (net.line l).driver ∈ net.sNodes
    · have hlt := List.idxOf_lt_length_iff.mpr h
      simp only [h, hlt, if_true, Option.map_some]
      rw [henv _ hlt, List.getD_eq_getElem?_getD, List.getElem?_eq_getElem hlt]
      simp
    · have : ¬ List.idxOf (net.line l).driver net.sNodes < net.sNodes.length :=
        fun x => h (List.idxOf_lt_length_iff.mp x)
      simp [h, this]
  · intro k; exact hv k

variable (m : NNet) (order : List Nat)

/-- **uniqueness.** every `ConsN` labelling is the simulation result on the lines -/
theorem consN_unique (hwf : m.net.wfB = true) (ho : orderOKB m.net order = true) (hfk : forksOKB m.net order = true)
    (hall : linesDrivenB Gen.kindPrefixes m.net order = true) (env an v : Nat → Bool)
    (hz : env m.net.idx.zero = false)
    (henv : ∀ p, p < m.net.sNodes.length → env (m.net.idx.ppi + p) = an (m.net.sNodes.getD p 0))
    (hc : ConsN m false (!·) prim2 an v) :
    ∀ l, l < m.net.lines.size →
      v l = exec specL2 ((genOps Gen.kindPrefixes m.net order false).map OpRow.toOp) env l := by
  let val : Nat → Bool := fun x => if x < m.net.lines.size then v x else env x
  have hops := genOps_out_line Gen.kindPrefixes m.net order false hwf ho
  have hcons : NetConsistent m.net order (!·) prim2 env val := by
    constructor
    · intro x hx hw
      have hge : ¬ x < m.net.lines.size := by
        intro hlt
        unfold linesDrivenB at hall
        simp only [List.all_eq_true, List.mem_range, List.contains_eq_mem, decide_eq_true_eq] at hall
        obtain ⟨r, hr, he⟩ := List.mem_map.mp (hall x hlt)
        exact hw r hr he
      simp only [val, if_neg hge]
    · intro r hr hl
      have hlt : r.out < m.net.lines.size := by
        rcases hops r.toOp (List.mem_map_of_mem hr) with h | h
        · exact absurd h hl
        · exact h
      have hval : val r.out = v r.out := by simp only [val, if_pos hlt]
      rw [hval, hc r.out hlt, hz]
      symm
      apply lineEq_pos_node m.net false (!·) prim2 env an henv
      intro k
      cases hk : (m.net.node (m.net.line r.out).driver).inPin k with
      | none => rfl
      | some l' =>
        have hl' := (inPin_lt hwf hk).2
        simp only [Option.map_some, val, if_pos hl']
  have hsol := (solves_iff_consistent m.net order hwf ho hfk specL2 (!·) prim2 semSpec2 env val).mpr hcons
  intro l hl
  have := (logic_all_circuits specL2 specL2 (fun _ _ _ => rfl) m.net order false hwf ho env).2 val hsol l (Jt_line hl)
  simp only [val, if_pos hl] at this
  exact this

/-- **existence.** the simulation result is a `ConsN` labelling -/
theorem consN_exec (hwf : m.net.wfB = true) (ho : orderOKB m.net order = true) (hfk : forksOKB m.net order = true)
    (hall : linesDrivenB Gen.kindPrefixes m.net order = true) (env an : Nat → Bool)
    (hz : env m.net.idx.zero = false)
    (henv : ∀ p, p < m.net.sNodes.length → env (m.net.idx.ppi + p) = an (m.net.sNodes.getD p 0)) :
    ConsN m false (!·) prim2 an (exec specL2 ((genOps Gen.kindPrefixes m.net order false).map OpRow.toOp) env) := by
  have h1 := (logic_all_circuits specL2 specL2 (fun _ _ _ => rfl) m.net order false hwf ho env).1
  have h2 := (solves_iff_consistent m.net order hwf ho hfk specL2 (!·) prim2 semSpec2 env _).mp h1
  intro l hl
  unfold linesDrivenB at hall
  simp only [List.all_eq_true, List.mem_range, List.contains_eq_mem, decide_eq_true_eq] at hall
  obtain ⟨r, hr, he⟩ := List.mem_map.mp (hall l hl)
  have hne : r.out ≠ m.net.idx.tmp := by
    rw [he, (idx_vals m.net).2.1]; omega
  have := h2.2 r hr hne
  rw [he, hz] at this
  rw [this]
  exact lineEq_pos_node m.net false (!·) prim2 env an henv _ _ l (fun _ => rfl)

end KV.Transform
