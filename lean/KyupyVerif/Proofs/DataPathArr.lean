import KyupyVerif.Proofs.DataPath
/-! Array level and string level of the data path (Model/DataPath.lean `simArr`, `simStrings`), generic in the arity through
`LaneView`: entry `[q][p]` of the result array is the code of the one-lane simulation of pattern `p`. -/
namespace KV.DP
open KV KV.Sig KV.Cycle KV.Enc

theorem sRows_mvToBp (a : Arr Nat) (hl : a.lead ≠ []) (hlen : a.rows.length = a.lead.prod) :
    sRows (mvToBp a) = a.rows.map (mvToBpRow (cdiv a.last 8)) := by
  simp only [sRows, mvToBp, hl, if_false, List.dropLast_concat]
  rw [← hlen, chunks_flatMap 3 _ _ (fun r _ => mvToBpRow_length _ r)]

theorem bpToMv_ofSRows (nb : Nat) (rows : List SRow) (h3 : ∀ r ∈ rows, r.length = 3) :
    bpToMv (ofSRows nb rows) = some ⟨[rows.length], 8 * nb, rows.map (bpToMvRow nb)⟩ := by
  have hl : ([rows.length, 3] : List Nat).getLast? = some 3 := rfl
  have hd : ([rows.length, 3] : List Nat).dropLast = [rows.length] := rfl
  simp only [bpToMv, ofSRows, hl, hd, List.prod_cons, List.prod_nil, Nat.mul_one]
  rw [chunks_flatten 3 rows h3]

theorem getD_map_lt {γ δ} (f : γ → δ) (l : List γ) (i : Nat) (d : δ) (dg : γ) (h : i < l.length) :
    (l.map f).getD i d = f (l.getD i dg) := by
  simp [List.getD_eq_getElem?_getD, List.getElem?_map, List.getElem?_eq_getElem h]

theorem getD_take_lt {γ} (l : List γ) (n i : Nat) (d : γ) (h : i < n) : (l.take n).getD i d = l.getD i d :=
  getD_take' l n i d h

section
variable {A : Nat → Type} {β : Type} (C : ∀ nb, Codec (A nb)) (ln : ∀ nb, Nat → A nb → β) (ofCode : Nat → β) (code : β → Nat)
  (keep : Nat) (semW : ∀ nb, Nat → List (A nb) → A nb) (semL : Nat → List β → β)

/-- pattern `p` of the multi-valued array `a` as lane values: entry `[q][p]` is the value assigned to `s_nodes` position `q` -/
def column (a : Arr Nat) (p : Nat) : List β := a.rows.map fun row => ofCode (row.getD p 0)

/-- the one-lane simulation of one stimulus pattern (`stim[q]` = value at `s_nodes` position `q`): the memory a fresh simulator
    holds (all zero) with the pattern stored into the (P)PI slots, run through the op program -/
def laneRun (tbl : List PrefixRow) (net : Net) (order : List Nat) (strip : Bool) (stim : List β) : Nat → β :=
  exec semL (sigOps tbl net order strip) (sToC (tabsOf net strip) (ofCode 0) stim (fun _ => ofCode 0))

/-- **(T-B) array level, every arity**: for an array `a` of shape `(S, P)` (`S = len(s_nodes)`, any `P`), the result
    `bp_to_mv(s[1])[..., :P]` of a fresh simulator has shape `(S, P)`; entry `[q][p]` is the code of the one-lane simulation of
    pattern `p` at the signal position `q` captures, and UNASSIGNED (2) at a position nothing is captured into. -/
theorem simArr_entries (V : ∀ nb, LaneView (C nb) nb (ln nb) ofCode code keep)
    (hl : ∀ nb p, p < 8 * nb → ∀ (ops : List Op) (env : Nat → A nb) (l : Nat),
      ln nb p (exec (semW nb) ops env l) = exec semL ops (fun x => ln nb p (env x)) l)
    (tbl : List PrefixRow) (net : Net) (order : List Nat) (strip : Bool) (a : Arr Nat)
    (hwf : a.wf = true) (hS : a.lead = [net.sNodes.length]) :
    ∃ r, simArr C (fun nb op => semW nb op.code) tbl net order strip a = some r ∧
      r.lead = [net.sNodes.length] ∧ r.last = a.last ∧ r.wf = true ∧
      ∀ q p, q < net.sNodes.length → p < a.last →
        (r.rows.getD q []).getD p 0 =
          if isPoppo net q then code (laneRun ofCode semL tbl net order strip (column ofCode a p) (capSig net strip q))
          else 2 := by
  obtain ⟨hlen, hrow⟩ := (wf_iff a).mp hwf
  have hne : a.lead ≠ [] := by rw [hS]; simp
  have hlen' : a.rows.length = net.sNodes.length := by rw [hlen, hS]; simp
  have hpat : patterns a = a.last := by simp [patterns, hne]
  have hb_lead : (mvToBp a).lead = [net.sNodes.length, 3] := by simp [mvToBp, hne, hS]
  have hb_last : (mvToBp a).last = cdiv a.last 8 := by simp [mvToBp, hne]
  generalize hnb : cdiv a.last 8 = nb at hb_last
  have hge : a.last ≤ 8 * nb := by rw [← hnb]; exact cdiv8_ge a.last
  -- the captured rows
  let s1 := captureB (C nb) (fun op => semW nb op.code) (sigOps tbl net order strip) (tabsOf net strip)
    (fun _ => (C nb).dec []) (a.rows.map (mvToBpRow nb)) (List.replicate net.sNodes.length (freshRow nb))
  have hs1len : s1.length = net.sNodes.length := by
    show (cToSB _ _ _ _).length = _
    rw [cToSB_length]; simp
  have hs13 : ∀ r ∈ s1, r.length = 3 :=
    captureB_len3 (C nb) nb (ln nb) ofCode code keep (semW nb) (V nb) _ net strip _ _ _
      (fun r hr => by rw [List.eq_of_mem_replicate hr]; rfl)
  have hsim : simArr C (fun nb op => semW nb op.code) tbl net order strip a =
      some ⟨[net.sNodes.length], a.last, s1.map fun r => (bpToMvRow nb r).take a.last⟩ := by
    simp only [simArr]
    rw [if_pos hb_lead, hb_last, hpat, sRows_mvToBp a hne hlen, hnb]
    show (bpToMv (ofSRows nb s1)).map _ = _
    rw [bpToMv_ofSRows nb s1 hs13, hs1len]
    simp [takeLast, List.map_map, Function.comp_def]
  refine ⟨_, hsim, rfl, rfl, ?_, ?_⟩
  · rw [wf_iff]
    refine ⟨by simp [hs1len], ?_⟩
    intro r hr
    obtain ⟨r0, _, rfl⟩ := List.mem_map.1 hr
    simp only [List.length_take, bpToMvRow_length]
    omega
  · intro q p hq hp
    have hp8 : p < 8 * nb := by omega
    simp only
    rw [getD_map_lt _ _ _ _ [] (by omega : q < s1.length), getD_take_lt _ _ _ _ hp]
    by_cases hcap : isPoppo net q = true
    · rw [captureB_lane (C nb) nb (ln nb) ofCode code keep (semW nb) semL (V nb) (hl nb) _ net strip _ _ _ q p hp8
        (by simp [hq]) hcap]
      have hfr : (List.replicate net.sNodes.length (freshRow nb)).getD q [] = freshRow nb := by
        simp [List.getD_eq_getElem?_getD, List.getElem?_replicate, hq]
      rw [hfr, plane2_fresh]
      simp only [hcap, if_true, b2n, Bool.false_eq_true, if_false, Nat.mul_zero, Nat.add_zero, laneRun, column, List.map_map]
      congr 3
      · apply List.map_congr_left
        intro row hr
        have hrl := hrow row hr
        simp only [Function.comp]
        rw [(V nb).dec_row row p (by rw [hrl]; exact hnb)]
        simp [hrl, hp]
      · funext x; exact (V nb).dec_nil p
    · have hcf : isPoppo net q = false := by simpa using hcap
      rw [captureB_skip (C nb) (semW nb) _ net strip _ _ _ q hcf]
      have hfr : (List.replicate net.sNodes.length (freshRow nb)).getD q [] = freshRow nb := by
        simp [List.getD_eq_getElem?_getD, List.getElem?_replicate, hq]
      rw [hfr, bpToMvRow_fresh nb p hp8]
      simp [hcf]

end

end KV.DP
