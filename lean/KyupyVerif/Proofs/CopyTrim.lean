import KyupyVerif.Proofs.SubstSem10
import KyupyVerif.Proofs.TransformSem6
/-! C10, audit finding 5 (b2): `Circuit.copy()` / pickle round trip of a dump that is well-formed only up to trailing `None`s
(`wfNoTrail`, the shape `substitute` / `resolve_tlib_cells` return): the rebuilt circuit is the dump with the trailing `None`s of
every pin list trimmed (`trimNet`) — same nodes, names, lines, ports; same equations; well-formed. -/
namespace KV.Transform
open KV

/-- a pin list without its trailing `None`s -/
def trimTrail : List (Option Nat) → List (Option Nat)
  | [] => []
  | x :: xs => match trimTrail xs, x with
    | [], none => []
    | t, x => x :: t

/-- the dump with the trailing `None`s of every pin list removed (what `copy()` / a pickle round trip rebuilds) -/
def trimNet (nn : NNet) : NNet :=
  { nn with net := { nn.net with nodes := nn.net.nodes.map fun n => { n with ins := trimTrail n.ins, outs := trimTrail n.outs } } }

theorem trimTrail_getD : ∀ (l : List (Option Nat)) (p : Nat), (trimTrail l).getD p none = l.getD p none
  | [], _ => rfl
  | x :: xs, p => by
    have ih := trimTrail_getD xs
    unfold trimTrail
    split
    · rename_i h
      cases p with
      | zero => simp
      | succ q =>
        have := ih q
        rw [h] at this
        simpa using this
    · cases p with
      | zero => simp
      | succ q => simpa using ih q

theorem trimTrail_noTrail : ∀ (l : List (Option Nat)), noTrail (trimTrail l) = true
  | [] => by simp [trimTrail, noTrail]
  | x :: xs => by
    have ih := trimTrail_noTrail xs
    cases ht : trimTrail xs with
    | nil =>
      cases x with
      | none => simp [trimTrail, ht, noTrail]
      | some y => simp [trimTrail, ht, noTrail]
    | cons y ys =>
      rw [ht] at ih
      have : trimTrail (x :: xs) = x :: y :: ys := by simp [trimTrail, ht]
      rw [this]
      simp only [noTrail, List.getLast?_cons_cons] at ih ⊢
      exact ih

theorem trimTrail_of_noTrail (l : List (Option Nat)) (h : noTrail l = true) : trimTrail l = l :=
  ext_noTrail _ _ (trimTrail_noTrail l) h (trimTrail_getD l)

theorem trimNet_node (nn : NNet) (i : Nat) :
    (trimNet nn).net.node i = { nn.net.node i with ins := trimTrail (nn.net.node i).ins, outs := trimTrail (nn.net.node i).outs } := by
  by_cases hi : i < nn.net.nodes.size
  · apply node_of_getElem?
    simp [trimNet, Array.getElem?_map, node_getElem? nn.net i hi]
  · have h1 : nn.net.node i = default := by
      simp [Net.node, Array.getD_eq_getD_getElem?, Array.getElem?_eq_none (by omega : nn.net.nodes.size ≤ i)]
    have h2 : (trimNet nn).net.node i = default := by
      simp [Net.node, trimNet, Array.getD_eq_getD_getElem?, Array.getElem?_eq_none (by omega : nn.net.nodes.size ≤ i)]
    rw [h2, h1]; rfl

theorem trimNet_inPin (nn : NNet) (i k : Nat) : ((trimNet nn).net.node i).inPin k = (nn.net.node i).inPin k := by
  rw [trimNet_node]; exact trimTrail_getD _ k
theorem trimNet_outPin (nn : NNet) (i k : Nat) : ((trimNet nn).net.node i).outPin k = (nn.net.node i).outPin k := by
  rw [trimNet_node]; exact trimTrail_getD _ k
theorem trimNet_kind (nn : NNet) (i : Nat) : ((trimNet nn).net.node i).kind = (nn.net.node i).kind := by
  rw [trimNet_node]

/-! ### the rebuild invariant for `WFm` -/
theorem inv_step_m (nn : NNet) (w : WFm nn) (k : Nat) (hk : k < nn.net.lines.size) (st : Array NodeD × Array LineD)
    (h : Inv nn k st) :
    Inv nn (k + 1) (addLine st (nn.net.line k).driver (nn.net.line k).dpin (nn.net.line k).reader (nn.net.line k).rpin) := by
  obtain ⟨h1, h2, h3⟩ := h
  obtain ⟨bd, br, bo, bi⟩ := w.back k hk
  refine ⟨by simp [addLine, h1], by simp [addLine, Array.size_modify, h2], fun i hi => ?_⟩
  obtain ⟨n, hn, hkind, hins, houts⟩ := h3 i hi
  refine ⟨{ kind := n.kind,
            ins := if (nn.net.line k).reader = i then growSet n.ins (nn.net.line k).rpin (some k) else n.ins,
            outs := if (nn.net.line k).driver = i then growSet n.outs (nn.net.line k).dpin (some k) else n.outs }, ?_, hkind, ?_, ?_⟩
  · simp only [addLine, Array.getElem?_modify, hn, h1]
    by_cases e1 : (nn.net.line k).reader = i <;> by_cases e2 : (nn.net.line k).driver = i <;> simp [e1, e2]
  · by_cases e : (nn.net.line k).reader = i
    · simp only [e, if_true]
      apply pinsOK_hit hins (e ▸ bi)
      intro p hp
      exact ((w.fwdIn i hi p k hp).2.2).symm
    · simp only [e, if_false]
      apply pinsOK_miss hins
      intro p hp
      exact e (w.fwdIn i hi p k hp).2.1
  · by_cases e : (nn.net.line k).driver = i
    · simp only [e, if_true]
      apply pinsOK_hit houts (e ▸ bo)
      intro p hp
      exact ((w.fwdOut i hi p k hp).2.2).symm
    · simp only [e, if_false]
      apply pinsOK_miss houts
      intro p hp
      exact e (w.fwdOut i hi p k hp).2.1

theorem inv_foldl_m (nn : NNet) (w : WFm nn) : ∀ (suf pre : List LineD) (st : Array NodeD × Array LineD),
    pre ++ suf = nn.net.lines.toList → Inv nn pre.length st →
    Inv nn nn.net.lines.size
      (suf.foldl (fun st ln => addLine st ln.driver ln.dpin ln.reader ln.rpin) st)
  | [], pre, st, hp, h => by
    simp only [List.foldl_nil]
    have : pre.length = nn.net.lines.size := by
      rw [← Array.length_toList, ← hp]; simp
    rw [← this]; exact h
  | ln :: suf, pre, st, hp, h => by
    simp only [List.foldl_cons]
    have hlen : pre.length < nn.net.lines.size := by
      rw [← Array.length_toList, ← hp]; simp
    have hln : nn.net.line pre.length = ln := by
      have : nn.net.lines.toList[pre.length]? = some ln := by rw [← hp]; simp
      simp [Net.line, Array.getD_eq_getD_getElem?, ← Array.getElem?_toList, this]
    have hs := inv_step_m nn w pre.length hlen st h
    rw [hln] at hs
    have := inv_foldl_m nn w suf (pre ++ [ln]) _ (by simp [hp]) (by simpa using hs)
    exact this

theorem inv_final_m (nn : NNet) (w : WFm nn) (st : Array NodeD × Array LineD) (h : Inv nn nn.net.lines.size st) :
    st.1 = (trimNet nn).net.nodes := by
  obtain ⟨_, h2, h3⟩ := h
  apply Array.ext_getElem?
  intro i
  by_cases hi : i < nn.net.nodes.size
  · obtain ⟨n, hn, hkind, hins, houts⟩ := h3 i hi
    have hi' : i < (trimNet nn).net.nodes.size := by simpa [trimNet] using hi
    rw [hn, node_getElem? (trimNet nn).net i hi', trimNet_node]
    have e1 : n.ins = trimTrail (nn.net.node i).ins := by
      apply ext_noTrail _ _ hins.1 (trimTrail_noTrail _)
      intro p; rw [hins.2 p, trimTrail_getD]
      exact filter_lt_of_lt (fun l hl => (w.fwdIn i hi p l hl).1)
    have e2 : n.outs = trimTrail (nn.net.node i).outs := by
      apply ext_noTrail _ _ houts.1 (trimTrail_noTrail _)
      intro p; rw [houts.2 p, trimTrail_getD]
      exact filter_lt_of_lt (fun l hl => (w.fwdOut i hi p l hl).1)
    cases n
    simp_all
  · have : (trimNet nn).net.nodes.size = nn.net.nodes.size := by simp [trimNet]
    rw [Array.getElem?_eq_none (by omega), Array.getElem?_eq_none (by omega)]

/-- `copy()` / pickle round trip of a dump that is well-formed up to trailing `None`s: the dump with the pin lists trimmed -/
theorem rebuild_trim (nn : NNet) (w : WFm nn) (ix : Nat → Nat) (hix : ∀ i, i < nn.net.nodes.size → ix i = i) :
    rebuild nn ix = trimNet nn := by
  have hinv := inv_foldl_m nn w nn.net.lines.toList [] (blank nn.net.nodes, #[]) (by simp) (inv_zero nn)
  have hnodes := inv_final_m nn w _ hinv
  have hlines := foldl_lines (fun st ln => addLine st ln.driver ln.dpin ln.reader ln.rpin) (fun st ln => rfl)
    nn.net.lines.toList (blank nn.net.nodes, #[])
  have hfold : nn.net.lines.toList.foldl (fun st ln => addLine st (ix ln.driver) ln.dpin (ix ln.reader) ln.rpin)
        (blank nn.net.nodes, #[]) =
      nn.net.lines.toList.foldl (fun st ln => addLine st ln.driver ln.dpin ln.reader ln.rpin) (blank nn.net.nodes, #[]) := by
    apply foldl_congr_mem
    intro ln hln s
    obtain ⟨k, hk, e⟩ := List.getElem_of_mem hln
    have hk' : k < nn.net.lines.size := by simpa using hk
    have hl : nn.net.line k = ln := by
      simp [Net.line, Array.getD_eq_getD_getElem?, Array.getElem?_eq_getElem hk', ← e]
    have b := w.back k hk'
    rw [hl] at b
    simp only [hix _ b.1, hix _ b.2.1]
  have hio : nn.net.io.map ix = nn.net.io :=
    (List.map_congr_left (fun i hi => hix i (w.io i hi))).trans (List.map_id' _)
  apply NNet.ext'
  · simp only [rebuild]
    rw [hfold]; exact hnodes
  · simp only [rebuild]
    rw [hfold, hlines]; simp [trimNet]
  · exact hio
  · rfl

theorem lookup_key_m (nn : NNet) (w : WFm nn) (i : Nat) (hi : i < nn.net.nodes.size) : nn.lookup (nn.key i) = i := by
  have hlen : i < nn.keys.length := by simp [NNet.keys, hi]
  have hk : nn.keys[i] = nn.key i := by simp [NNet.keys]
  rw [NNet.lookup, ← hk]
  exact idxOf_getElem_nodup nn.keys i hlen w.nodup

/-! ### the trimmed dump is well-formed and has the same equations -/
theorem trimNet_key (nn : NNet) (i : Nat) : (trimNet nn).key i = nn.key i := by
  simp only [NNet.key, NodeD.isFork, trimNet_kind]; rfl

theorem trimNet_WF (nn : NNet) (w : WFm nn) : WF (trimNet nn) := by
  have hsz : (trimNet nn).net.nodes.size = nn.net.nodes.size := by simp [trimNet]
  have hls : (trimNet nn).net.lines = nn.net.lines := rfl
  have hln : ∀ l, (trimNet nn).net.line l = nn.net.line l := fun _ => rfl
  refine ⟨by rw [hsz]; exact w.names, ?_, fun i hi => by rw [hsz]; exact w.io i hi, ?_, ?_, ?_, ?_⟩
  · have : (trimNet nn).keys = nn.keys := by
      simp only [NNet.keys, hsz]
      exact List.map_congr_left (fun i _ => trimNet_key nn i)
    rw [this]; exact w.nodup
  · intro l hl
    have b := w.back l hl
    rw [hsz, hln]
    refine ⟨b.1, b.2.1, ?_, ?_⟩
    · have := trimNet_outPin nn (nn.net.line l).driver (nn.net.line l).dpin
      simp only [NodeD.outPin] at this; rw [this]; exact b.2.2.1
    · have := trimNet_inPin nn (nn.net.line l).reader (nn.net.line l).rpin
      simp only [NodeD.inPin] at this; rw [this]; exact b.2.2.2
  · intro i hi p l h
    rw [hsz] at hi
    have := trimNet_inPin nn i p
    simp only [NodeD.inPin] at this; rw [this] at h
    exact w.fwdIn i hi p l h
  · intro i hi p l h
    rw [hsz] at hi
    have := trimNet_outPin nn i p
    simp only [NodeD.outPin] at this; rw [this] at h
    exact w.fwdOut i hi p l h
  · intro i _
    rw [trimNet_node]
    exact ⟨trimTrail_noTrail _, trimTrail_noTrail _⟩

theorem trimNet_sNodes (nn : NNet) : (trimNet nn).net.sNodes = nn.net.sNodes := by
  have hsz : (trimNet nn).net.nodes.size = nn.net.nodes.size := by simp [trimNet]
  have hio : (trimNet nn).net.io = nn.net.io := rfl
  simp only [Net.sNodes, hsz, hio]
  have e1 : (fun i => ((trimNet nn).net.node i).isDff) = fun i => (nn.net.node i).isDff :=
    funext fun n => (isDff_of_kind (trimNet_kind nn n)).1
  have e2 : (fun i => ((trimNet nn).net.node i).isLatch) = fun i => (nn.net.node i).isLatch :=
    funext fun n => (isDff_of_kind (trimNet_kind nn n)).2.1
  rw [e1, e2]

/-- the trimmed dump has the same equations: a labelling is consistent for it iff it is for the dump -/
theorem trimNet_consistentB {α : Type _} [BEq α] (nn : NNet) (z : α) (neg : α → α) (prim : String → α → α → α → α → α)
    (asg : Nat → α) (v : Array α) :
    consistentB (trimNet nn).net z neg prim asg v = consistentB nn.net z neg prim asg v := by
  have hls : (trimNet nn).net.lines = nn.net.lines := rfl
  have hsp : (trimNet nn).net.sPosTable = nn.net.sPosTable := by
    have hsz : (trimNet nn).net.nodes.size = nn.net.nodes.size := by simp [trimNet]
    simp only [Net.sPosTable, trimNet_sNodes, hsz]
  simp only [consistentB, hls]
  congr 1
  funext l
  congr 1
  apply lineEq_congr
  · exact trimNet_kind nn _
  · rfl
  · rw [hsp]; rfl
  · intro k; rw [show (trimNet nn).net.line l = nn.net.line l from rfl]
    exact congrArg (Option.map _) (trimNet_inPin nn _ k)

end KV.Transform
