import KyupyVerif.Model.SdfWave
import KyupyVerif.Proofs.GenOpsWO
/-! Timing data path, part 3: the pin table and the fork table read off a well-formed netlist (`netPinLine`, `netIcLine`,
Model/SdfWave.lean). An IOPATH goes to the line whose reader is the named cell at the named pin; an INTERCONNECT goes to a
line whose reader is a fork; hence no line is reached by both loops. -/
namespace KV.SdfWave
open KV KV.Sdf

theorem inPin_some {n : NodeD} {k l : Nat} (h : n.inPin k = some l) : n.ins[k]? = some (some l) := by
  unfold NodeD.inPin at h
  rw [List.getD_eq_getElem?_getD] at h
  cases hx : n.ins[k]? with
  | none => rw [hx] at h; cases h
  | some v => rw [hx] at h; simp only [Option.getD_some] at h; rw [h]

theorem findCell_spec {net : Net} {names : Array String} {c : String} {i : Nat} (h : findCell net names c = some i) :
    i < net.nodes.size ∧ (net.node i).isFork = false ∧ names.getD i "" = c := by
  unfold findCell at h
  have h1 := List.find?_some h
  have h2 := List.mem_of_find?_eq_some h
  simp only [Bool.and_eq_true, Bool.not_eq_true', beq_iff_eq] at h1
  exact ⟨List.mem_range.mp h2, h1.1, h1.2⟩

/-- **where an IOPATH goes**: the line `netPinLine` names is the line whose reader is the cell of that name (not a fork) at the
pin position the library gives for the pin name -/
theorem netPinLine_spec {net : Net} (hwf : net.wfB = true) {names : Array String} {pinIdx : PinIdx} {cell pin : String}
    {l : Nat} (h : netPinLine net names pinIdx cell pin = some l) :
    ∃ i k, findCell net names cell = some i ∧ names.getD i "" = cell ∧ (net.node i).isFork = false ∧
      pinIdx (net.node i).kind pin = some k ∧ l < net.lines.size ∧ (net.line l).reader = i ∧ (net.line l).rpin = k := by
  unfold netPinLine at h
  cases hf : findCell net names cell with
  | none => rw [hf] at h; cases h
  | some i =>
    rw [hf] at h
    simp only [Option.bind_some] at h
    cases hk : pinIdx (net.node i).kind pin with
    | none => rw [hk] at h; cases h
    | some k =>
      rw [hk] at h
      simp only [Option.bind_some] at h
      obtain ⟨hi, hnf, hname⟩ := findCell_spec hf
      obtain ⟨h1, h2, h3⟩ := wf_in hwf hi (inPin_some h)
      exact ⟨i, k, rfl, hname, hnf, hk, h1, h2, h3⟩

/-- **where an INTERCONNECT goes**: the reader of the line `netIcLine` names is a fork (the branch fork in front of the reader
pin, or the only fork of a signal without fan-out) -/
theorem netIcLine_reader_fork {net : Net} (hwf : net.wfB = true) {names : Array String} {pinIdx : PinIdx}
    {c1 c2 : String} {p1 p2 : Option String} {l : Nat} (h : netIcLine net names pinIdx c1 p1 c2 p2 = some l) :
    l < net.lines.size ∧ (net.node (net.line l).reader).isFork = true := by
  unfold netIcLine at h
  obtain ⟨n1, _, h⟩ := Option.bind_eq_some_iff.mp h
  obtain ⟨n2, _, h⟩ := Option.bind_eq_some_iff.mp h
  obtain ⟨k1, _, h⟩ := Option.bind_eq_some_iff.mp h
  obtain ⟨k2, _, h⟩ := Option.bind_eq_some_iff.mp h
  obtain ⟨lo, _, h⟩ := Option.bind_eq_some_iff.mp h
  obtain ⟨li, _, h⟩ := Option.bind_eq_some_iff.mp h
  simp only at h
  split at h
  · cases h
  · rename_i hforks
    simp only [Bool.not_eq_true, Bool.not_eq_false', Bool.and_eq_true] at hforks
    obtain ⟨l', hl', h⟩ := Option.bind_eq_some_iff.mp h
    have hl : l' = l := by
      split at h
      · split at h
        · exact Option.some.inj h
        · cases h
      · split at h
        · exact Option.some.inj h
        · cases h
    subst hl
    have hf2 := hforks.2
    have hlt : (net.line li).driver < net.nodes.size := by
      by_cases hlt : (net.line li).driver < net.nodes.size
      · exact hlt
      · exfalso
        have : net.node (net.line li).driver = default := by
          unfold Net.node
          rw [Array.getD_eq_getD_getElem?, Array.getElem?_eq_none (by omega)]
          rfl
        rw [this] at hf2
        revert hf2
        decide
    obtain ⟨h1, h2, _⟩ := wf_in hwf hlt (inPin_some hl')
    exact ⟨h1, by rw [h2]; exact hf2⟩

/-- **no line is reached by both loops** (well-formed netlist): a line has one reader — a cell pin or a fork -/
theorem net_tables_disjoint {net : Net} (hwf : net.wfB = true) (names : Array String) (pinIdx : PinIdx)
    {cell pin : String} {l : Nat} (h : netPinLine net names pinIdx cell pin = some l)
    (c1 : String) (p1 : Option String) (c2 : String) (p2 : Option String) :
    netIcLine net names pinIdx c1 p1 c2 p2 ≠ some l := by
  intro h2
  obtain ⟨i, k, _, _, hnf, _, _, hr, _⟩ := netPinLine_spec hwf h
  have := (netIcLine_reader_fork hwf h2).2
  rw [hr, hnf] at this
  cases this

theorem net_tables_disjoint' {net : Net} (hwf : net.wfB = true) (names : Array String) (pinIdx : PinIdx)
    {c1 c2 : String} {p1 p2 : Option String} {l : Nat} (h : netIcLine net names pinIdx c1 p1 c2 p2 = some l)
    (cell pin : String) : netPinLine net names pinIdx cell pin ≠ some l :=
  fun h2 => net_tables_disjoint hwf names pinIdx h2 c1 p1 c2 p2 h

end KV.SdfWave
