import KyupyVerif.Proofs.TransformSem4
/-! Helper lemmas for C10 (`elim_sem`), part 5: the simulation relation between a circuit and the result of
`eliminate_1to1_forks` along the index maps, its composition over the visiting order, and the translation between the
node-indexed form of consistency and `consistentB`. -/
namespace KV.Transform
open KV
variable {skip : Bool}

/-- structural part: `r` maps the nodes / lines of `nn'` injectively to nodes / lines of `nn`, keeping kind, name, port
    list and the `s_node` status; every node that is not a fork survives -/
structure Sim (nn nn' : NNet) (r : Ren) : Prop where
  si : SI nn'
  nodeLt : ∀ j', j' < nn'.net.nodes.size → r.node j' < nn.net.nodes.size
  lineLt : ∀ l', l' < nn'.net.lines.size → r.line l' < nn.net.lines.size
  kind : ∀ j', j' < nn'.net.nodes.size → (nn'.net.node j').kind = (nn.net.node (r.node j')).kind
  name : ∀ j', j' < nn'.net.nodes.size → nn'.names.getD j' "" = nn.names.getD (r.node j') ""
  io : nn'.net.io.map r.node = nn.net.io
  mem : ∀ j', j' < nn'.net.nodes.size → (j' ∈ nn'.net.sNodes ↔ r.node j' ∈ nn.net.sNodes)
  inj : ∀ j1 j2, j1 < nn'.net.nodes.size → j2 < nn'.net.nodes.size → r.node j1 = r.node j2 → j1 = j2
  surj : ∀ j, j < nn.net.nodes.size → (nn.net.node j).isFork = false → ∃ j', j' < nn'.net.nodes.size ∧ r.node j' = j

/-- semantic part: consistent labellings are mapped to consistent labellings and every node reads the same values -/
def SemP {α : Type _} (z : α) (neg : α → α) (prim : String → α → α → α → α → α) (nn nn' : NNet) (r : Ren) : Prop :=
  ∀ (an v : Nat → α), ConsN nn z neg prim an v →
    ConsN nn' z neg prim (fun j => an (r.node j)) (fun l => v (r.line l)) ∧
    ∀ j' k, j' < nn'.net.nodes.size →
      ((nn'.net.node j').inPin k).map (fun l => v (r.line l)) = ((nn.net.node (r.node j')).inPin k).map v

theorem Sim.refl {nn : NNet} (h : SI nn) : Sim nn nn Ren.id :=
  ⟨h, fun _ h => h, fun _ h => h, fun _ _ => rfl, fun _ _ => rfl, List.map_id' _, fun _ _ => Iff.rfl,
   fun _ _ _ _ h => h, fun j hj _ => ⟨j, hj, rfl⟩⟩

theorem SemP.refl {α : Type _} (z : α) (neg : α → α) (prim : String → α → α → α → α → α) (nn : NNet) :
    SemP z neg prim nn nn Ren.id := fun _ _ h => ⟨h, fun _ _ _ => rfl⟩

theorem Sim.trans {a b c : NNet} {r1 r2 : Ren} (h1 : Sim a b r1) (h2 : Sim b c r2) : Sim a c (r1.comp r2) := by
  refine ⟨h2.si, fun j h => h1.nodeLt _ (h2.nodeLt j h), fun l h => h1.lineLt _ (h2.lineLt l h), ?_, ?_, ?_, ?_, ?_, ?_⟩
  · intro j h; exact (h2.kind j h).trans (h1.kind _ (h2.nodeLt j h))
  · intro j h; exact (h2.name j h).trans (h1.name _ (h2.nodeLt j h))
  · have : c.net.io.map (r1.comp r2).node = (c.net.io.map r2.node).map r1.node := by
      rw [List.map_map]; rfl
    rw [this, h2.io, h1.io]
  · intro j h; exact (h2.mem j h).trans (h1.mem _ (h2.nodeLt j h))
  · intro j1 j2 l1 l2 e
    exact h2.inj j1 j2 l1 l2 (h1.inj _ _ (h2.nodeLt _ l1) (h2.nodeLt _ l2) e)
  · intro j hj hf
    obtain ⟨j1, l1, e1⟩ := h1.surj j hj hf
    have hf1 : (b.net.node j1).isFork = false := by
      rw [(isDff_of_kind (h1.kind j1 l1)).2.2, e1]; exact hf
    obtain ⟨j2, l2, e2⟩ := h2.surj j1 l1 hf1
    exact ⟨j2, l2, by show r1.node (r2.node j2) = j; rw [e2, e1]⟩

theorem SemP.trans {α : Type _} {z : α} {neg : α → α} {prim : String → α → α → α → α → α} {a b c : NNet} {r1 r2 : Ren}
    (s2 : Sim b c r2) (h1 : SemP z neg prim a b r1) (h2 : SemP z neg prim b c r2) : SemP z neg prim a c (r1.comp r2) := by
  intro an v hc
  obtain ⟨c1, p1⟩ := h1 an v hc
  obtain ⟨c2, p2⟩ := h2 _ _ c1
  refine ⟨c2, fun j' k hj => ?_⟩
  exact (p2 j' k hj).trans (p1 _ k (s2.nodeLt j' hj))

theorem Sim.splice {nn : NNet} {i a b : Nat} (c : SC nn i a b) : Sim nn (splice nn i a b) (stepRen nn i b) := by
  have hsz := splice_sizes (nn := nn) (i := i) (a := a) (b := b)
  have hn : ∀ j, (stepRen nn i b).node j = nmN nn.net.nodes.size i j := fun _ => rfl
  have hl : ∀ l, (stepRen nn i b).line l = nmN nn.net.lines.size b l := fun _ => rfl
  refine ⟨splice_SI c, ?_, ?_, ?_, ?_, ?_, ?_, ?_, ?_⟩
  · intro j h; rw [hsz.1] at h; rw [hn]; exact (nm_facts c.hi h).1
  · intro l h; rw [hsz.2] at h; rw [hl]; exact (nm_facts c.b_facts.1 h).1
  · intro j h; rw [hsz.1] at h; rw [hn]; exact splice_kind c j h
  · intro j h; rw [hsz.1] at h; rw [hn]; exact splice_names c j h
  · rw [splice_io, List.map_map]
    have : nn.net.io.map ((stepRen nn i b).node ∘ mvN nn.net.nodes.size i) = nn.net.io.map id := by
      apply List.map_congr_left
      intro j hj
      have hne : j ≠ i := by
        intro e; subst e
        have : nn.net.io.contains j = true := by simpa using hj
        rw [c.nio] at this; exact absurd this (by simp)
      simp only [Function.comp, hn, id]
      exact (mv_facts c.hi (c.si.io j hj) hne).2
    rw [this, List.map_id]
  · intro j h; rw [hsz.1] at h; rw [hn]; exact splice_mem_sNodes c j h
  · intro j1 j2 h1 h2 e
    rw [hsz.1] at h1 h2
    rw [hn, hn] at e
    have e1 := (nm_facts c.hi h1).2.2
    have e2 := (nm_facts c.hi h2).2.2
    rw [← e1, ← e2, e]
  · intro j hj hf
    have hne : j ≠ i := by
      intro e; subst e
      rw [c.fork] at hf; exact absurd hf (by simp)
    have := mv_facts c.hi hj hne
    exact ⟨_, by rw [hsz.1]; exact this.1, by rw [hn]; exact this.2⟩

theorem SemP.splice {α : Type _} (z : α) (neg : α → α) (prim : String → α → α → α → α → α) {nn : NNet} {i a b : Nat}
    (c : SC nn i a b) : SemP z neg prim nn (splice nn i a b) (stepRen nn i b) := by
  intro an v hc
  refine ⟨splice_consN c z neg prim an v hc, fun j' k hj => ?_⟩
  rw [(splice_sizes (nn := nn) (i := i) (a := a) (b := b)).1] at hj
  exact splice_pins c v (consN_fork c z neg prim an v hc) j' k hj

/-- one loop iteration -/
theorem elimOneM_sim {α : Type _} (z : α) (neg : α → α) (prim : String → α → α → α → α → α) (nn nn' : NNet) (r : Ren) (i : Nat)
    (h : SI nn) (hi : i < nn.net.nodes.size) (hf : (nn.net.node i).isFork = true)
    (he : elimOneM skip nn i = some (nn', r)) : Sim nn nn' r ∧ SemP z neg prim nn nn' r := by
  rcases elimOneM_cases nn nn' r i he with ⟨e1, e2⟩ | ⟨a, b, hio, hlen, hin, hout, hab, e1, e2⟩
  · subst e1; subst e2; exact ⟨Sim.refl h, SemP.refl z neg prim _⟩
  · subst e1; subst e2
    have c : SC nn i a b := ⟨h, hi, hf, hio, hlen, hin, hout, hab⟩
    exact ⟨Sim.splice c, SemP.splice z neg prim c⟩

theorem foldM_sim {α : Type _} (z : α) (neg : α → α) (prim : String → α → α → α → α → α) :
    ∀ (order : List String) (s : NNet × Ren) (nn' : NNet) (r : Ren), SI s.1 →
    order.foldlM (fun (s : NNet × Ren) name =>
      let i := s.1.lookup (name, true)
      if i < s.1.net.nodes.size then (elimOneM skip s.1 i).map fun p => (p.1, s.2.comp p.2) else some s) s = some (nn', r) →
    ∃ r2, r = s.2.comp r2 ∧ Sim s.1 nn' r2 ∧ SemP z neg prim s.1 nn' r2
  | [], s, nn', r, h, he => by
    simp only [List.foldlM_nil] at he
    cases (Option.some.inj he)
    exact ⟨Ren.id, rfl, Sim.refl h, SemP.refl z neg prim _⟩
  | name :: order, s, nn', r, h, he => by
    simp only [List.foldlM_cons, Option.bind_eq_bind, Option.bind_eq_some_iff] at he
    obtain ⟨s1, hs, hrest⟩ := he
    by_cases hlt : s.1.lookup (name, true) < s.1.net.nodes.size
    · simp only [hlt, if_true, Option.map_eq_some_iff] at hs
      obtain ⟨p, hp, e⟩ := hs
      subst e
      have st := elimOneM_sim z neg prim s.1 p.1 p.2 _ h hlt (lookup_isFork s.1 name hlt) hp
      obtain ⟨r2, e2, sim2, sem2⟩ := foldM_sim z neg prim order (p.1, s.2.comp p.2) nn' r st.1.si hrest
      exact ⟨p.2.comp r2, by rw [e2]; rfl, st.1.trans sim2, SemP.trans sim2 st.2 sem2⟩
    · simp only [hlt, if_false] at hs
      cases (Option.some.inj hs)
      exact foldM_sim z neg prim order _ nn' r h hrest

theorem elimForksInM_sim {α : Type _} (z : α) (neg : α → α) (prim : String → α → α → α → α → α)
    (order : List String) (nn nn' : NNet) (r : Ren) (h : SI nn) (he : elimForksInM skip order nn = some (nn', r)) :
    Sim nn nn' r ∧ SemP z neg prim nn nn' r := by
  obtain ⟨r2, e, s1, s2⟩ := foldM_sim z neg prim order (nn, Ren.id) nn' r h he
  have : r = r2 := e
  subst this; exact ⟨s1, s2⟩

/-- the maps are an annotation: the circuit computed is the one of `elimForksIn` -/
theorem elimForksInM_fst : ∀ (order : List String) (s : NNet × Ren),
    (order.foldlM (fun (s : NNet × Ren) name =>
      let i := s.1.lookup (name, true)
      if i < s.1.net.nodes.size then (elimOneM skip s.1 i).map fun p => (p.1, s.2.comp p.2) else some s) s).map (·.1) =
    elimForksIn skip order s.1
  | [], s => by simp [elimForksIn]
  | name :: order, s => by
    simp only [List.foldlM_cons, elimForksIn]
    by_cases hlt : s.1.lookup (name, true) < s.1.net.nodes.size
    · simp only [hlt, if_true]
      rw [← elimOneM_fst (skip := skip) s.1 (s.1.lookup (name, true))]
      cases h : elimOneM skip s.1 (s.1.lookup (name, true)) with
      | none => simp
      | some p =>
        simp only [Option.map_some, Option.bind_eq_bind, Option.bind_some]
        exact elimForksInM_fst order _
    · simp only [hlt, if_false, Option.bind_eq_bind, Option.bind_some]
      exact elimForksInM_fst order _

end KV.Transform
