import KyupyVerif.Proofs.HeapFree
/-! Used regions of the address-ordered heap model: allocation adds exactly one region that overlaps no live
one, release removes exactly the released region, regions tile the managed range. -/
namespace KV.Heap

/-- (start, size) of the chunks in use, in address order; `s` = start address of the first chunk -/
def usedFrom : Nat → List Chunk → List (Nat × Nat)
  | _, [] => []
  | s, c :: r => (if c.free then [] else [(s, c.size)]) ++ usedFrom (s + c.size) r

theorem total_cons (c : Chunk) (r : List Chunk) : total (c :: r) = c.size + total r := by
  simp [total]

/-- every used region lies inside `[s, s + total l)` -/
theorem usedFrom_bounds (s : Nat) (l : List Chunk) : ∀ r ∈ usedFrom s l, s ≤ r.1 ∧ r.1 + r.2 ≤ s + total l := by
  induction l generalizing s with
  | nil => intro r hr; simp [usedFrom] at hr
  | cons c l ih =>
    intro r hr
    simp only [usedFrom, List.mem_append] at hr
    rw [total_cons]
    rcases hr with hr | hr
    · split at hr
      · simp at hr
      · simp at hr; subst hr; simp <;> omega
    · have := ih (s + c.size) r hr; omega

/-- used regions are pairwise disjoint and ordered by address (for any list: tiling is representational) -/
theorem usedFrom_sorted (s : Nat) (l : List Chunk) :
    (usedFrom s l).Pairwise (fun a b => a.1 + a.2 ≤ b.1) := by
  induction l generalizing s with
  | nil => simp [usedFrom]
  | cons c l ih =>
    simp only [usedFrom]
    rw [List.pairwise_append]
    refine ⟨by split <;> simp, ih _, ?_⟩
    intro a ha b hb
    split at ha
    · simp at ha
    · simp at ha; subst ha
      have := usedFrom_bounds (s + c.size) l b hb
      simp; omega

/-- allocation inside the list: total unchanged, exactly the region `(loc, size)` becomes used, and it was
    inside a FREE chunk (so it overlaps no live region) -/
theorem allocIn_spec (size : Nat) : ∀ (s : Nat) (l : List Chunk) (loc : Nat) (l' : List Chunk),
    allocIn size s l = some (loc, l') →
    total l' = total l ∧ (∀ r, r ∈ usedFrom s l' ↔ r = (loc, size) ∨ r ∈ usedFrom s l) ∧ s ≤ loc ∧ loc + size ≤ s + total l := by
  intro s l
  induction l generalizing s with
  | nil => intro loc l' h; simp [allocIn] at h
  | cons c rest ih =>
    intro loc l' h
    unfold allocIn at h
    split at h
    · rename_i hc
      simp only [Bool.and_eq_true, beq_iff_eq] at hc
      injection h with h; injection h with h1 h2; subst h1; subst h2
      refine ⟨by simp [total], ?_, Nat.le_refl _, by rw [total_cons]; omega⟩
      intro r; simp [usedFrom, hc.1, hc.2]
    · split at h
      · rename_i hc
        simp only [Bool.and_eq_true, decide_eq_true_eq] at hc
        injection h with h; injection h with h1 h2; subst h1; subst h2
        refine ⟨by simp [total]; omega, ?_, Nat.le_refl _, by rw [total_cons]; omega⟩
        intro r
        have : s + size + (c.size - size) = s + c.size := by omega
        simp [usedFrom, hc.1, this]
      · split at h
        · cases h
        · rename_i loc' rest' hrec
          injection h with h; injection h with h1 h2; subst h1; subst h2
          obtain ⟨ht, hu, hlo, hhi⟩ := ih (s + c.size) loc' rest' hrec
          refine ⟨by simp [total_cons, ht], ?_, by omega, by rw [total_cons]; omega⟩
          intro r
          simp only [usedFrom, List.mem_append, hu]
          constructor
          · rintro (h | h | h)
            · exact Or.inr (Or.inl h)
            · exact Or.inl h
            · exact Or.inr (Or.inr h)
          · rintro (h | h | h)
            · exact Or.inr (Or.inl h)
            · exact Or.inl h
            · exact Or.inr (Or.inr h)

/-- the region handed out does not overlap any region that was live before -/
theorem allocIn_fresh (size : Nat) : ∀ (s : Nat) (l : List Chunk) (loc : Nat) (l' : List Chunk),
    allocIn size s l = some (loc, l') → ∀ r ∈ usedFrom s l, r.1 + r.2 ≤ loc ∨ loc + size ≤ r.1 := by
  intro s l
  induction l generalizing s with
  | nil => intro loc l' h; simp [allocIn] at h
  | cons c rest ih =>
    intro loc l' h r hr
    unfold allocIn at h
    split at h
    · rename_i hc
      simp only [Bool.and_eq_true, beq_iff_eq] at hc
      injection h with h; injection h with h1 h2; subst h1
      simp only [usedFrom, hc.1, if_true, List.nil_append] at hr
      have := usedFrom_bounds _ _ r hr
      right; omega
    · split at h
      · rename_i hc
        simp only [Bool.and_eq_true, decide_eq_true_eq] at hc
        injection h with h; injection h with h1 h2; subst h1
        simp only [usedFrom, hc.1, if_true, List.nil_append] at hr
        have := usedFrom_bounds _ _ r hr
        right; omega
      · split at h
        · cases h
        · rename_i loc' rest' hrec
          injection h with h; injection h with h1 h2; subst h1
          obtain ⟨_, _, hlo, _⟩ := allocIn_spec size (s + c.size) rest loc' rest' hrec
          simp only [usedFrom, List.mem_append] at hr
          rcases hr with hr | hr
          · split at hr
            · simp at hr
            · simp at hr; subst hr; left; simp; omega
          · exact ih (s + c.size) loc' rest' hrec r hr

/-- release inside the list: the released region disappears from the used set, nothing else changes, the
    total never grows -/
theorem freeIn_spec (loc : Nat) : ∀ (s : Nat) (l l' : List Chunk), Pos l → freeIn loc s l = some l' →
    total l' ≤ total l ∧ ∃ n, (loc, n) ∈ usedFrom s l ∧ (∀ r, r ∈ usedFrom s l ↔ r = (loc, n) ∨ r ∈ usedFrom s l') := by
  intro s l
  induction l generalizing s with
  | nil => intro l' _ h; simp [freeIn] at h
  | cons c rest ih =>
    intro l' hpos h
    have hcpos : 0 < c.size := hpos c (List.mem_cons_self)
    have hrpos : Pos rest := fun x hx => hpos x (List.mem_cons_of_mem _ hx)
    unfold freeIn at h
    split at h
    · rename_i heq
      simp only [beq_iff_eq] at heq; subst heq
      split at h
      · cases h
      · rename_i hcf
        simp only [Bool.not_eq_true] at hcf
        cases rest with
        | nil =>
          simp only [Option.some.injEq] at h; subst h
          refine ⟨by simp [total], c.size, by simp [usedFrom, hcf], ?_⟩
          intro r; simp [usedFrom, hcf]
        | cons n rest' =>
          simp only at h
          split at h
          · rename_i hn
            simp only [Option.some.injEq] at h; subst h
            refine ⟨by simp [total]; omega, c.size, by simp [usedFrom, hcf], ?_⟩
            intro r
            have : s + (c.size + n.size) = s + c.size + n.size := by omega
            simp [usedFrom, hcf, hn, this]
          · rename_i hn
            simp only [Option.some.injEq] at h; subst h
            refine ⟨by simp [total], c.size, by simp [usedFrom, hcf], ?_⟩
            intro r
            simp [usedFrom, hcf]
    · split at h
      · rename_i hne hlt
        split at h
        · cases h
        · rename_i hrec
          -- freed chunk was the last one
          simp only [Option.some.injEq] at h
          obtain ⟨ht, n, hmem, hu⟩ := ih (s + c.size) [] hrpos hrec
          subst h
          refine ⟨?_, n, ?_, ?_⟩
          · rw [total_cons]; split <;> simp [total] <;> omega
          · simp only [usedFrom, List.mem_append]; exact Or.inr hmem
          · intro r
            simp only [usedFrom, List.mem_append, hu r]
            cases hcf : c.free <;> simp [usedFrom, hcf] <;> exact Or.comm
        · rename_i d rest' hrec
          obtain ⟨ht, n, hmem, hu⟩ := ih (s + c.size) (d :: rest') hrpos hrec
          split at h
          · rename_i hm
            simp only [Bool.and_eq_true, beq_iff_eq] at hm
            simp only [Option.some.injEq] at h; subst h
            refine ⟨?_, n, ?_, ?_⟩
            · simp only [total_cons] at ht ⊢; omega
            · simp only [usedFrom, List.mem_append]; exact Or.inr hmem
            · intro r
              have e : s + (c.size + d.size) = s + c.size + d.size := by omega
              simp [usedFrom, hu r, hm.1.1, hm.1.2, e]
          · simp only [Option.some.injEq] at h; subst h
            refine ⟨by simp only [total_cons] at ht ⊢; omega, n, ?_, ?_⟩
            · simp only [usedFrom, List.mem_append]; exact Or.inr hmem
            · intro r
              simp only [usedFrom, List.mem_append, hu r]
              constructor
              · rintro (h | h | h)
                · exact Or.inr (Or.inl h)
                · exact Or.inl h
                · exact Or.inr (Or.inr h)
              · rintro (h | h | h)
                · exact Or.inr (Or.inl h)
                · exact Or.inl h
                · exact Or.inr (Or.inr h)
      · cases h

end KV.Heap
