import KyupyVerif.Model.MapCert
import KyupyVerif.Proofs.MemMapFold
import KyupyVerif.Proofs.GenOpsWO
/-! Interface between the three parts of the proof that the memory map of `SimOps` passes the map certificate
(`simops_map_accepted`, Props/C08.lean):

* `ProgOK p` — facts about the op program, the level partition and the stems of a map record `p` (no mention of the
  location / capacity tables). Proved for the scheduler model (`genOps`, `stemsOf`, `levelise`) in
  `Proofs/GenOpsProg.lean` + `Proofs/LeveliseStarts.lean`;
* the allocation invariant along the fold form of `memMap` (`Proofs/MemMapAlloc.lean`) and the alias passes
  (`Proofs/MemMapAlias.lean`) use only `ProgOK`. -/
namespace KV

/-- number of operand occurrences (through stems) of signal `x` in the rows -/
def occ (st : Array (Option Nat)) (x : Nat) (ops : List OpRow) : Nat :=
  (ops.map fun o => (opSrcs st o).count x).sum

/-- 1-based level of op number `k` for a `level_starts` list (`MapIn.levelOf`) -/
def levelOfS (starts : List Nat) (k : Nat) : Nat := (starts.filter (· ≤ k)).length

/-- `level_starts`: begins with 0, strictly increasing, inside the program -/
def StartsOK (starts : List Nat) (n : Nat) : Prop :=
  starts.head? = some 0 ∧ starts.Pairwise (· < ·) ∧ ∀ t ∈ starts, t ≤ n

/-- domain predicate (decidable, evaluated on the real circuit): every line read by a scheduled non-source node and every
    line captured by an interface node is written by a row of the un-stripped program — no reader hangs on a cell of
    unknown kind, on an output pin `SimOps` does not schedule (pin ≥ 1 of a gate, pin ≥ 2 of a flip-flop) or on a node
    outside the order -/
def readsDrivenB (tbl : List PrefixRow) (net : Net) (order : List Nat) : Bool :=
  let outs := (genOps tbl net order false).map (·.out)
  (order.all fun n => isSrcNode net net.sNodes n || (net.node n).ins.all fun o => match o with
    | some l => outs.contains l
    | none => true) &&
  (net.sNodes.all fun n => match (net.node n).inPin 0 with
    | some l => outs.contains l
    | none => true)

/-- what the allocation proof needs to know about the program, its level partition and the stems -/
structure ProgOK (p : MapIn) : Prop where
  /-- a row writes the scratch slot or a line -/
  out_ok : ∀ o ∈ p.ops, o.out = p.ix.tmp ∨ o.out < p.ix.zero
  /-- a line has one writer -/
  first : ∀ (k : Nat) (o : OpRow), p.ops[k]? = some o → o.out ≠ p.ix.tmp →
    p.ops.findIdx? (fun o' => o'.out == o.out) = some k
  /-- an operand (through stems) is the zero slot, an input slot, or a line written by an EARLIER row -/
  opnd : ∀ (k : Nat) (o : OpRow), p.ops[k]? = some o → ∀ x ∈ opSrcs p.stems o,
    x = p.ix.zero ∨ x ∈ p.ppiSlots ∨ (x < p.ix.zero ∧ ∃ k' o', k' < k ∧ p.ops[k']? = some o' ∧ o'.out = x)
  /-- the writer of an operand sits in a strictly earlier level -/
  lev : ∀ (k' k : Nat) (o' o : OpRow), k' < k → p.ops[k']? = some o' → p.ops[k]? = some o → o'.out ≠ p.ix.tmp →
    o'.out ∈ opSrcs p.stems o → p.levelOf k' < p.levelOf k
  starts : StartsOK p.starts p.ops.length
  /-- a captured signal is a line written by a row -/
  ppo : ∀ j s, (j, s) ∈ p.ppoSrcs → s < p.ix.zero ∧ ∃ o ∈ p.ops, o.out = s
  /-- a branch is a line and no row writes it -/
  branch : ∀ l t, p.stems.getD l none = some t → l < p.ix.zero ∧ ∀ o ∈ p.ops, o.out ≠ l
  /-- the stem of an operand is not itself a branch -/
  stem_opnd : ∀ o ∈ p.ops, ∀ i ∈ o.ins, ∀ t, p.stems.getD i none = some t → p.stems.getD t none = none
  /-- the stem of a captured line is not itself a branch -/
  stem_cap : ∀ n i l, (n, i) ∈ p.net.sNodes.zipIdx → (p.net.node n).inPin 0 = some l →
    ∀ t, p.stems.getD l none = some t → p.stems.getD t none = none
  /-- a captured line is a line -/
  cap_lt : ∀ n i l, (n, i) ∈ p.net.sNodes.zipIdx → (p.net.node n).inPin 0 = some l → l < p.ix.zero

/-! ### reference-count arrays -/

/-- `ref_count[x] += 1` for every `x` of a list -/
def incs (r : Array Int) (xs : List Nat) : Array Int := xs.foldl (fun r x => r.setIfInBounds x (r.getD x 0 + 1)) r
/-- `ref_count[x] -= 1` for every `x` of a list -/
def decs (r : Array Int) (xs : List Nat) : Array Int := xs.foldl (fun r x => r.setIfInBounds x (r.getD x 0 - 1)) r

theorem getD_setIfInBounds_int (a : Array Int) (i x : Nat) (v d : Int) :
    (a.setIfInBounds i v).getD x d = if i = x ∧ i < a.size then v else a.getD x d := by
  simp only [Array.getD_eq_getD_getElem?, Array.getElem?_setIfInBounds]
  by_cases h : i = x
  · subst h
    by_cases h2 : i < a.size
    · simp [h2]
    · simp [h2]
  · simp [h]

theorem incs_size (r : Array Int) (xs : List Nat) : (incs r xs).size = r.size := by
  induction xs generalizing r with
  | nil => rfl
  | cons y ys ih => simp only [incs, List.foldl_cons] at ih ⊢; rw [ih]; simp

theorem decs_size (r : Array Int) (xs : List Nat) : (decs r xs).size = r.size := by
  induction xs generalizing r with
  | nil => rfl
  | cons y ys ih => simp only [decs, List.foldl_cons] at ih ⊢; rw [ih]; simp

theorem incs_getD (r : Array Int) (xs : List Nat) (x : Nat) (hx : x < r.size) :
    (incs r xs).getD x 0 = r.getD x 0 + (xs.count x : Int) := by
  induction xs generalizing r with
  | nil => simp [incs]
  | cons y ys ih =>
    simp only [incs, List.foldl_cons] at ih ⊢
    rw [ih _ (by simpa using hx), getD_setIfInBounds_int, List.count_cons]
    by_cases h : y = x
    · subst h; simp [hx]; omega
    · have : (y == x) = false := by simpa using h
      simp [h, this]

theorem decs_getD (r : Array Int) (xs : List Nat) (x : Nat) (hx : x < r.size) :
    (decs r xs).getD x 0 = r.getD x 0 - (xs.count x : Int) := by
  induction xs generalizing r with
  | nil => simp [decs]
  | cons y ys ih =>
    simp only [decs, List.foldl_cons] at ih ⊢
    rw [ih _ (by simpa using hx), getD_setIfInBounds_int, List.count_cons]
    by_cases h : y = x
    · subst h; simp [hx]; omega
    · have : (y == x) = false := by simpa using h
      simp [h, this]

theorem incs_append (r : Array Int) (xs ys : List Nat) : incs r (xs ++ ys) = incs (incs r xs) ys := by
  simp [incs, List.foldl_append]

end KV
