import KyupyVerif.Proofs.SubstSem5
/-! Helper lemmas for C10 (`substitute_sem`), part 6: the lines at the output pins of the instance, the frame of the host,
and the two directions of the semantic statement under the certificate. -/
namespace KV.Transform
open KV

section cert
variable {h : NNet} {c : Nat} {m : NNet} {sh : Shape} {dn : Nat} {map : Array (Option Nat)} {h' : NNet}
variable (ct : SubstCert h c m sh dn map h')
include ct

/-- the equation of a line whose driver is an input port of the implementation: the port's assigned value -/
theorem SubstCert.lineEq_inPort {α : Type _} (z : α) (neg : α → α) (prim : String → α → α → α → α → α)
    (anm vm : Nat → α) (i : Nat) (hin : (m.net.line i).driver ∈ sh.inPorts) :
    lineEq (cutIns m (deadLine h c m sh)).net (spN (cutIns m (deadLine h c m sh)).net) z neg prim anm vm i =
      anm (m.net.line i).driver := by
  obtain ⟨hio, hins⟩ := (mem_inPorts ct.shape _).mp hin
  apply lineEq_src
  · rw [cutIns_line, cutIns_spN]; exact spN_io _ _ hio
  · rw [cutIns_line, isSeq_eq, cutIns_kind]; exact ct.portNotSeq _ hio
  · rw [cutIns_line, cutIns_inPin]
    have : (m.net.node (m.net.line i).driver).inPin 0 = none := by
      simp only [NodeD.inPin, List.getD_eq_getElem?_getD]
      rw [List.getElem?_eq_none (by omega)]; rfl
    rw [this]; rfl

/-- **the line at output pin `k` of the instance** carries, by its equation in the result, what output line `k` of the
    implementation carries -/
theorem SubstCert.eq_outline {α : Type _} (z : α) (neg : α → α) (prim : String → α → α → α → α → α)
    (an' v' anm vm : Nat → α) (ag : Agree ct v' vm)
    (hA : ∀ j x, j ∉ m.net.io → map.getD j none = some x → anm j = an' x)
    (hP : ∀ p ∈ m.net.io, anm p = portVal h c sh z v' p)
    (hcons : ConsN (cutIns m (deadLine h c m sh)) z neg prim anm vm)
    (k il ll : Nat) (hk : sh.outLines[k]? = some il) (hll : instOut h c k = some ll) :
    lineEq h'.net (spN h'.net) z neg prim an' v' ll = vm il := by
  obtain ⟨il', d, dp, hk', htg, hd, hdp⟩ := ct.outWire k ll hll
  have : il' = il := by rw [hk] at hk'; exact (Option.some.inj hk').symm
  subst this
  obtain ⟨rd, hrd, hpin⟩ := outLines_port ct.shape k il' hk
  have hrdm : rd ∈ sh.outPorts := List.mem_of_getElem? hrd
  obtain ⟨hrio, hrins⟩ := (mem_outPorts ct.shape rd).mp hrdm
  obtain ⟨hil, hr, hrp⟩ := ct.mwf.fwdIn rd (ct.mwf.io rd hrio) 0 il' hpin
  have hc := hcons il' (by rw [cutIns_lsize]; exact hil)
  rcases outTarget_cases htg with ⟨hpos, hmr, hdpe⟩ | ⟨_, hmd, hdpe⟩
  · -- the output port is read inside the implementation: a fork in the result
    rw [hr] at hmr hpos
    have hkind := ct.kind' rd d hmr
    rw [if_pos hrio] at hkind
    have hxio := ct.own_not_io rd d hmr
    have hxlt := ct.mapLt rd d hmr
    have hfork : (h'.net.node (h'.net.line ll).driver).isFork = true := by rw [hd]; exact isFork_of_kind hkind
    have hsp' : spN h'.net (h'.net.line ll).driver = none := by
      rw [hd, spN_nio h'.net d hxio hxlt]
      have := fork_not_seq _ (isFork_of_kind hkind)
      simp [NodeD.isSeq, this.1, this.2]
    rw [lineEq_forkNS _ _ z neg prim an' v' ll hsp' hfork, hd]
    rw [ct.reads_eq rd d hmr (fun hcc => hrins hcc.2) v' vm ag 0, cutIns_inPin, hpin]
    by_cases hdead : deadLine h c m sh il' = true
    · simp only [Option.bind_some, hdead, if_true, Option.map_none, Option.getD_none]
      obtain ⟨dio, dins, _, dpin⟩ := (deadLine_iff h c m sh il').mp hdead
      have dinp : (m.net.line il').driver ∈ sh.inPorts := (mem_inPorts ct.shape _).mpr ⟨dio, dins⟩
      rw [hc, ct.lineEq_inPort z neg prim anm vm il' dinp, hP _ dio]
      simp [portVal, dpin]
    · simp [hdead]
  · rw [hc]
    exact ct.eq_line z neg prim an' v' anm vm ag hA hP ll il' d hmd hd (hdp.trans hdpe)

/-- a node of the host other than the cell is an `s_node` of the result iff it is one of the host -/
theorem SubstCert.spN_frame (d : Nat) (hd : d < h.net.nodes.size) (hne : d ≠ c) : spN h'.net d = spN h.net d := by
  have hm : d ∈ h'.net.sNodes ↔ d ∈ h.net.sNodes := by
    rw [mem_sNodes, mem_sNodes, ct.io', ct.frameNode d hd hne]
    have : d < h'.net.nodes.size := Nat.lt_of_lt_of_le hd ct.nsize
    simp only [hd, this]
  simp only [spN, List.contains_iff_mem]
  by_cases e : d ∈ h.net.sNodes
  · simp [e, hm.mpr e]
  · have : ¬ d ∈ h'.net.sNodes := fun x => e (hm.mp x)
    simp [e, this]

/-- the equation of a host line not driven by the cell is the same in the result, for labellings and assignments that
    agree on the host -/
theorem SubstCert.eq_hostline {α : Type _} (z : α) (neg : α → α) (prim : String → α → α → α → α → α)
    (an an' v v' : Nat → α) (hv : ∀ l, l < h.net.lines.size → v' l = v l)
    (ha : ∀ d, d < h.net.nodes.size → d ≠ c → an' d = an d)
    (l : Nat) (hl : l < h.net.lines.size) (hd : (h.net.line l).driver ≠ c) :
    lineEq h'.net (spN h'.net) z neg prim an' v' l = lineEq h.net (spN h.net) z neg prim an v l := by
  obtain ⟨f1, f2⟩ := ct.drvFrame l hl hd
  have hlt := (ct.hwf.back l hl).1
  have hn := ct.frameNode _ hlt hd
  apply lineEq_congr
  · rw [f1, hn]
  · exact f2
  · rw [f1, ct.spN_frame _ hlt hd]
    simp only [spN]
    split
    · simp only [Option.map_some]; rw [ha _ hlt hd]
    · rfl
  · intro k
    rw [f1, hn]
    cases hp : (h.net.node (h.net.line l).driver).inPin k with
    | none => rfl
    | some l0 =>
      simp only [Option.map_some]
      rw [hv l0 (ct.hwf.fwdIn _ hlt k l0 hp).1]

end cert
end KV.Transform
