import KyupyVerif.Proofs.CircObjRemoveLine
/-! C09: `eliminate_1to1_forks` preserves `WFc` (one loop iteration = `Node.remove`, `Line.remove`, re-connection of the
input line; proved by comparison with a sequence of `WFc`-preserving steps that agrees on all live objects). -/
namespace KV.CircObj

theorem NodeObj.ext' {a b : NodeObj} (h1 : a.name = b.name) (h2 : a.kind = b.kind) (h3 : a.index = b.index)
    (h4 : a.ins = b.ins) (h5 : a.outs = b.outs) (h6 : a.alive = b.alive) : a = b := by
  cases a; cases b; simp_all

theorem LineObj.ext' {a b : LineObj} (h1 : a.index = b.index) (h2 : a.driver = b.driver) (h3 : a.driverPin = b.driverPin)
    (h4 : a.reader = b.reader) (h5 : a.readerPin = b.readerPin) (h6 : a.alive = b.alive) : a = b := by
  cases a; cases b; simp_all

/-- `WFc` only looks at the containers and at the objects they hold -/
theorem WFc_congr {c c' : Circ} (wf : WFc c) (hn : c'.nodes = c.nodes) (hl : c'.lines = c.lines) (hio : c'.io = c.io)
    (hc : c'.cells = c.cells) (hf : c'.forks = c.forks) (hnN : c'.nextN = c.nextN) (hnL : c'.nextL = c.nextL)
    (hnobj : ∀ i ∈ c.nodes, c'.nobj i = c.nobj i) (hlobj : ∀ l ∈ c.lines, c'.lobj l = c.lobj l) : WFc c' := by
  refine ⟨⟨?_, ?_, ?_, ?_, ?_, ?_, ?_, ?_, ?_, ?_, ?_, ?_, ?_, ?_, ?_⟩, ?_⟩
  · intro p hp; simp only [hn] at hp ⊢; rw [hnobj _ (List.getElem_mem hp)]; exact wf.nidx p hp
  · intro p hp; simp only [hl] at hp ⊢; rw [hlobj _ (List.getElem_mem hp)]; exact wf.lidx p hp
  · intro i hi; rw [hn] at hi; rw [hnobj i hi, hnN]; exact wf.nfresh i hi
  · intro l hl'; rw [hl] at hl'; rw [hlobj l hl', hnL]; exact wf.lfresh l hl'
  · rw [hc]; exact wf.ckeys
  · rw [hf]; exact wf.fkeys
  · intro e he; rw [hc] at he; obtain ⟨h1, h2, h3⟩ := wf.cellsSound e he; rw [hn, hnobj _ h1]; exact ⟨h1, h2, h3⟩
  · intro e he; rw [hf] at he; obtain ⟨h1, h2, h3⟩ := wf.forksSound e he; rw [hn, hnobj _ h1]; exact ⟨h1, h2, h3⟩
  · intro i hi hk; rw [hn] at hi; rw [hnobj i hi] at hk ⊢; rw [hc]; exact wf.cellsComplete i hi hk
  · intro i hi hk; rw [hn] at hi; rw [hnobj i hi] at hk ⊢; rw [hf]; exact wf.forksComplete i hi hk
  · intro l hl'; rw [hl] at hl'; obtain ⟨d, h1, h2, h3⟩ := wf.ldrv l hl'
    exact ⟨d, by rw [hlobj l hl']; exact h1, by rw [hn]; exact h2, by rw [hlobj l hl', hnobj d h2]; exact h3⟩
  · intro l hl'; rw [hl] at hl'; obtain ⟨d, h1, h2, h3⟩ := wf.lrdr l hl'
    exact ⟨d, by rw [hlobj l hl']; exact h1, by rw [hn]; exact h2, by rw [hlobj l hl', hnobj d h2]; exact h3⟩
  · intro i hi p l hp; rw [hn] at hi; rw [hnobj i hi] at hp
    obtain ⟨h1, h2, h3⟩ := wf.outsBack i hi p l hp
    rw [hl, hlobj l h1]; exact ⟨h1, h2, h3⟩
  · intro i hi p l hp; rw [hn] at hi; rw [hnobj i hi] at hp
    obtain ⟨h1, h2, h3⟩ := wf.insBack i hi p l hp
    rw [hl, hlobj l h1]; exact ⟨h1, h2, h3⟩
  · intro i hi; rw [hio] at hi; rw [hn]; exact wf.ioIn i hi
  · intro i hi hk; rw [hn] at hi; rw [hnobj i hi] at hk ⊢; exact wf.forkFull i hi hk

/-! ## moving the reader end of a line (proof device for `eliminate_1to1_forks`) -/
/-- line `il` (read by `n` at pin `q`) is re-connected to input pin `rp` of `R`; `n`'s pin is cleared -/
def retarget (c : Circ) (il n q R rp : Nat) : Circ :=
  let h1 := upd c.nobj n { c.nobj n with ins := growSet (c.nobj n).ins q none }
  let h2 := upd h1 R { h1 R with ins := growSet (h1 R).ins rp (some il) }
  { c with nobj := h2, lobj := upd c.lobj il { c.lobj il with reader := some R, readerPin := rp } }

theorem retarget_nobj (c : Circ) (il n q R rp j : Nat) :
    ((retarget c il n q R rp).nobj j).name = (c.nobj j).name ∧ ((retarget c il n q R rp).nobj j).kind = (c.nobj j).kind ∧
    ((retarget c il n q R rp).nobj j).index = (c.nobj j).index ∧ ((retarget c il n q R rp).nobj j).alive = (c.nobj j).alive ∧
    ((retarget c il n q R rp).nobj j).outs = (c.nobj j).outs ∧
    ((retarget c il n q R rp).nobj j).ins =
      (if j = R then growSet (if j = n then growSet (c.nobj j).ins q none else (c.nobj j).ins) rp (some il)
       else if j = n then growSet (c.nobj j).ins q none else (c.nobj j).ins) := by
  simp only [retarget, upd_get]
  by_cases h1 : j = R <;> by_cases h2 : j = n <;> by_cases h3 : R = n <;> simp_all

theorem retarget_pin (c : Circ) (il n q R rp j p : Nat) :
    pin ((retarget c il n q R rp).nobj j).ins p =
      if j = R ∧ p = rp then some il else if j = n ∧ p = q then none else pin (c.nobj j).ins p := by
  rw [(retarget_nobj c il n q R rp j).2.2.2.2.2]
  by_cases h1 : j = R <;> by_cases h2 : j = n <;> by_cases h3 : p = rp <;> by_cases h4 : p = q <;>
    simp_all [pin_growSet] <;> grind

theorem retarget_wf {c : Circ} {il n q R rp : Nat} (wf : WFc c) (hil : il ∈ c.lines)
    (hrd : (c.lobj il).reader = some n) (hrq : (c.lobj il).readerPin = q)
    (hR : R ∈ c.nodes) (hfree : pin (c.nobj R).ins rp = none) : WFc (retarget c il n q R rp) := by
  have hn := retarget_nobj c il n q R rp
  obtain ⟨n', e1, e2, e3⟩ := wf.lrdr il hil
  rw [hrd] at e1; cases e1; rw [hrq] at e3
  have hpin := fun j p => retarget_pin c il n q R rp j p
  have hold : ∀ x, x ≠ il → (retarget c il n q R rp).lobj x = c.lobj x := by
    intro x hx; simp [retarget, hx]
  have hnew : (retarget c il n q R rp).lobj il = { c.lobj il with reader := some R, readerPin := rp } := by
    simp [retarget]
  have hlines : (retarget c il n q R rp).lines = c.lines := rfl
  have hnodes : (retarget c il n q R rp).nodes = c.nodes := rfl
  have hdrvf : ∀ x, ((retarget c il n q R rp).lobj x).driver = (c.lobj x).driver ∧
      ((retarget c il n q R rp).lobj x).driverPin = (c.lobj x).driverPin ∧
      ((retarget c il n q R rp).lobj x).index = (c.lobj x).index ∧
      ((retarget c il n q R rp).lobj x).alive = (c.lobj x).alive := by
    intro x; by_cases hx : x = il
    · subst hx; rw [hnew]; exact ⟨rfl, rfl, rfl, rfl⟩
    · rw [hold x hx]; exact ⟨rfl, rfl, rfl, rfl⟩
  refine ⟨⟨?_, ?_, ?_, ?_, wf.ckeys, wf.fkeys, ?_, ?_, ?_, ?_, ?_, ?_, ?_, ?_, wf.ioIn⟩, ?_⟩
  · intro p hp; rw [(hn _).2.2.1]; exact wf.nidx p hp
  · intro p hp; rw [(hdrvf _).2.2.1]; exact wf.lidx p hp
  · intro j hj; rw [(hn j).2.2.2.1]; exact wf.nfresh j hj
  · intro x hx; rw [(hdrvf x).2.2.2]; exact wf.lfresh x hx
  · intro e he; rw [(hn _).1, (hn _).2.1]; exact wf.cellsSound e he
  · intro e he; rw [(hn _).1, (hn _).2.1]; exact wf.forksSound e he
  · intro j hj hk; rw [(hn _).1]; rw [(hn _).2.1] at hk; exact wf.cellsComplete j hj hk
  · intro j hj hk; rw [(hn _).1]; rw [(hn _).2.1] at hk; exact wf.forksComplete j hj hk
  · intro x hx
    obtain ⟨d, d1, d2, d3⟩ := wf.ldrv x hx
    exact ⟨d, by rw [(hdrvf x).1]; exact d1, d2, by rw [(hdrvf x).2.1, (hn d).2.2.2.2.1]; exact d3⟩
  · -- lrdr
    intro x hx
    by_cases hxi : x = il
    · subst hxi
      refine ⟨R, by rw [hnew], hR, ?_⟩
      rw [hnew, hpin]; simp
    · obtain ⟨r0, r1, r2, r3⟩ := wf.lrdr x hx
      refine ⟨r0, by rw [hold x hxi]; exact r1, r2, ?_⟩
      rw [hold x hxi, hpin]
      split
      · rename_i h; rw [h.1, h.2, hfree] at r3; cases r3
      · split
        · rename_i h; rw [h.1, h.2, e3] at r3; exact absurd (Option.some.inj r3).symm hxi
        · exact r3
  · intro j hj p x hp
    rw [(hn j).2.2.2.2.1] at hp
    obtain ⟨b1, b2, b3⟩ := wf.outsBack j hj p x hp
    rw [(hdrvf x).1, (hdrvf x).2.1]; exact ⟨b1, b2, b3⟩
  · -- insBack
    intro j hj p x hp
    rw [hpin] at hp
    split at hp
    · rename_i h; cases hp; rw [hnew]; exact ⟨hil, by rw [h.1], by rw [h.2]⟩
    · split at hp
      · cases hp
      · rename_i h1 h2
        obtain ⟨b1, b2, b3⟩ := wf.insBack j hj p x hp
        have hxi : x ≠ il := by
          intro h; subst h; rw [hrd] at b2; rw [hrq] at b3
          exact h2 ⟨(Option.some.inj b2).symm, b3.symm⟩
        rw [hold x hxi]; exact ⟨b1, b2, b3⟩
  · intro j hj hk; rw [(hn j).2.1] at hk; rw [(hn j).2.2.2.2.1]; exact wf.forkFull j hj hk


theorem removeNode_mem {c : Circ} {i : Nat} (wf : WFc c) (hi : i ∈ c.nodes) (j : Nat) :
    j ∈ (removeNode c i).nodes ↔ j ∈ c.nodes ∧ j ≠ i := by
  have ha := (wf.nfresh i hi).2
  obtain ⟨hk, hki⟩ := wf.node_at hi
  have spec := idxDel_spec c.nodes (fun j => (c.nobj j).index) wf.nidx (c.nobj i).index hk
  rw [hki] at spec
  rw [removeNode_eq ha]; exact spec.2.1 j

theorem removeLine_mem {c : Circ} {l : Nat} (wf : WFc c) (hl : l ∈ c.lines) (x : Nat) :
    x ∈ (removeLine c l).lines ↔ x ∈ c.lines ∧ x ≠ l := by
  obtain ⟨d, hdrv, _, _⟩ := wf.ldrv l hl
  obtain ⟨r, hrdr, _, _⟩ := wf.lrdr l hl
  have ha := (wf.lfresh l hl).2
  obtain ⟨hk, hki⟩ := wf.line_at hl
  have spec := idxDel_spec c.lines (fun j => (c.lobj j).index) wf.lidx (c.lobj l).index hk
  rw [hki] at spec
  rw [removeLine_eq hdrv hrdr ha]; exact spec.2.1 x


/-- the state after one effective iteration of the loop of `eliminate_1to1_forks` -/
def elimRes (c : Circ) (n il ol R rp : Nat) : Circ :=
  let c2 := removeLine (removeNode c n) ol
  let c3 : Circ := { c2 with lobj := upd c2.lobj il { c2.lobj il with reader := some R, readerPin := rp } }
  { c3 with nobj := upd c3.nobj R { c3.nobj R with ins := growSet (c3.nobj R).ins rp (some il) } }

theorem elimStep_eq {c : Circ} {n il ol R : Nat}
    (hio : (c.io.any fun j => sameNode (c.nobj j) (c.nobj n)) = false) (hlen : (c.nobj n).outs.length = 1)
    (hil : pin (c.nobj n).ins 0 = some il) (hol : pin (c.nobj n).outs 0 = some ol)
    (hR : (c.lobj ol).reader = some R) : elimStep c n = elimRes c n il ol R (c.lobj ol).readerPin := by
  unfold elimStep elimRes
  simp [hio, hlen, hil, hol, hR]

section caseB
variable {c : Circ} {n il ol R : Nat}

theorem removeNode_lobj' (c : Circ) (n : Nat) : (removeNode c n).lobj = c.lobj := by
  unfold removeNode; by_cases h : (c.nobj n).alive = true <;> simp [h]
theorem removeNode_lines' (c : Circ) (n : Nat) : (removeNode c n).lines = c.lines := by
  unfold removeNode; by_cases h : (c.nobj n).alive = true <;> simp [h]

theorem lobjAfter_removeNode (ha : (c.nobj n).alive = true) (ol d : Nat) :
    lobjAfter (removeNode c n) ol d = lobjAfter c ol d := by
  have h := removeNode_nobj ha d
  unfold lobjAfter outsAfter
  rw [removeNode_lobj', h.2.1, h.2.2.2.1]

/-- Python's state after `n.remove(); out_line.remove()` and the comparison state after `out_line.remove()` alone
hold the same line objects (except the removed line) -/
theorem lobj_agree (wf : WFc c) (hn : n ∈ c.nodes) (hol : ol ∈ c.lines) (x : Nat) (hx : x ≠ ol) :
    (removeLine (removeNode c n) ol).lobj x = (removeLine c ol).lobj x := by
  have ha := (wf.nfresh n hn).2
  obtain ⟨d, hdrv, _, _⟩ := wf.ldrv ol hol
  obtain ⟨r, hrdr, _, _⟩ := wf.lrdr ol hol
  have hal := (wf.lfresh ol hol).2
  have h1 := removeLine_lobj (c := removeNode c n) (by rw [removeNode_lobj']; exact hdrv)
    (by rw [removeNode_lobj']; exact hrdr) (by rw [removeNode_lobj']; exact hal) x hx
  have h2 := removeLine_lobj hdrv hrdr hal x hx
  rw [lobjAfter_removeNode ha, removeNode_lobj', removeNode_lines'] at h1
  apply LineObj.ext'
  · rw [h1.2.2.2.2.2, h2.2.2.2.2.2]
  · rw [h1.1, h2.1]
  · rw [h1.2.2.2.2.1, h2.2.2.2.2.1]
  · rw [h1.2.1, h2.2.1]
  · rw [h1.2.2.1, h2.2.2.1]
  · rw [h1.2.2.2.1, h2.2.2.2.1]


theorem detachDriver_frame (c : Circ) (l : Nat) :
    (detachDriver c l).nodes = c.nodes ∧ (detachDriver c l).lines = c.lines ∧ (detachDriver c l).io = c.io ∧
    (detachDriver c l).cells = c.cells ∧ (detachDriver c l).forks = c.forks ∧
    (detachDriver c l).nextN = c.nextN ∧ (detachDriver c l).nextL = c.nextL := by
  unfold detachDriver
  cases h : (c.lobj.get l).driver with
  | none => simp [h]
  | some d => by_cases h' : (c.nobj.get d).kind = FORK <;> simp [h, h']

theorem detachReader_frame (c : Circ) (l : Nat) :
    (detachReader c l).nodes = c.nodes ∧ (detachReader c l).lines = c.lines ∧ (detachReader c l).io = c.io ∧
    (detachReader c l).cells = c.cells ∧ (detachReader c l).forks = c.forks ∧
    (detachReader c l).nextN = c.nextN ∧ (detachReader c l).nextL = c.nextL := by
  unfold detachReader
  cases h : (c.lobj.get l).reader <;> simp [h]

theorem delLine_frame (c : Circ) (l : Nat) :
    (delLine c l).nodes = c.nodes ∧ (delLine c l).io = c.io ∧
    (delLine c l).cells = c.cells ∧ (delLine c l).forks = c.forks ∧
    (delLine c l).nextN = c.nextN ∧ (delLine c l).nextL = c.nextL := by
  unfold delLine
  by_cases h : (c.lobj.get l).alive = true <;> simp [h]

theorem removeLine_frame (c : Circ) (l : Nat) :
    (removeLine c l).nodes = c.nodes ∧ (removeLine c l).io = c.io ∧
    (removeLine c l).cells = c.cells ∧ (removeLine c l).forks = c.forks ∧
    (removeLine c l).nextN = c.nextN ∧ (removeLine c l).nextL = c.nextL := by
  have h1 := detachDriver_frame c l
  have h2 := detachReader_frame (detachDriver c l) l
  have h3 := delLine_frame (detachReader (detachDriver c l) l) l
  unfold removeLine killLine
  simp only []
  grind


theorem removeLine_lines {c : Circ} {l : Nat} (wf : WFc c) (hl : l ∈ c.lines) :
    (removeLine c l).lines = (idxDel c.lines (c.lobj l).index).1 := by
  obtain ⟨d, hdrv, _, _⟩ := wf.ldrv l hl
  obtain ⟨r, hrdr, _, _⟩ := wf.lrdr l hl
  rw [removeLine_eq hdrv hrdr (wf.lfresh l hl).2]

theorem pin_singleton (x : Option Nat) (p : Nat) : pin [x] p = if p = 0 then x else none := by
  cases p <;> simp [pin]

theorem elimRes_wf_B (wf : WFc c) (hn : n ∈ c.nodes) (hkf : (c.nobj n).kind = FORK) (hnio : n ∉ c.io)
    (houts : (c.nobj n).outs = [some ol]) (hil : pin (c.nobj n).ins 0 = some il)
    (hrest : ∀ p, 1 ≤ p → pin (c.nobj n).ins p = none) (hR : (c.lobj ol).reader = some R) (hne : il ≠ ol) :
    WFc (elimRes c n il ol R (c.lobj ol).readerPin) := by
  have ha := (wf.nfresh n hn).2
  -- the two lines and the reader
  obtain ⟨hol, hod, hop⟩ := wf.outsBack n hn 0 ol (by rw [houts]; simp)
  obtain ⟨hilm, hird, hirp⟩ := wf.insBack n hn 0 il hil
  obtain ⟨R', hR', hRm, hRp⟩ := wf.lrdr ol hol
  rw [hR] at hR'; cases hR'
  have hal := (wf.lfresh ol hol).2
  have hRn : R ≠ n := by
    intro h; subst h
    by_cases h0 : (c.lobj ol).readerPin = 0
    · rw [h0, hil] at hRp; exact hne (Option.some.inj hRp)
    · rw [hrest _ (by omega)] at hRp; cases hRp
  -- comparison sequence: out_line.remove(); re-connect in_line; n.remove()
  have wf1 := removeLine_wf wf hol
  have fr1 := removeLine_frame c ol
  have n1 := removeLine_nobj hod hR hal
  have l1 := removeLine_lobj hod hR hal il hne
  have hil1 : il ∈ (removeLine c ol).lines := (removeLine_mem wf hol il).2 ⟨hilm, hne⟩
  have wf2 := retarget_wf (n := n) (q := 0) (R := R) (rp := (c.lobj ol).readerPin) wf1 hil1
    (by rw [l1.2.1]; exact hird) (by rw [l1.2.2.1]; exact hirp) (by rw [fr1.1]; exact hRm)
    (by rw [(n1 R).2.2.2.2.2]; simp [pin_growSet])
  have n2 := retarget_nobj (removeLine c ol) il n 0 R (c.lobj ol).readerPin
  have wf3 := removeNode_wf (i := n) wf2 (by show n ∈ (removeLine c ol).nodes; rw [fr1.1]; exact hn)
    (by
      intro p
      rw [retarget_pin]
      simp only [hRn.symm, false_and, if_false, true_and]
      split
      · rfl
      · rw [(n1 n).2.2.2.2.2]; simp only [hRn.symm, if_false]; exact hrest p (by omega))
    (by
      intro p
      rw [(n2 n).2.2.2.2.1, (n1 n).2.2.2.2.1]
      simp only [if_true, outsAfter, hkf, houts, hop]
      simp [growSet])
    (by show n ∉ (removeLine c ol).io; rw [fr1.2.1]; exact hnio)
  have ha2 : ((retarget (removeLine c ol) il n 0 R (c.lobj ol).readerPin).nobj n).alive = true := by
    rw [(n2 n).2.2.2.1, (n1 n).2.2.2.1]; exact ha
  have hb3 := removeNode_eq ha2
  have nb3 := removeNode_nobj ha2
  -- Python's sequence
  have hod1 : ((removeNode c n).lobj ol).driver = some n := by rw [removeNode_lobj']; exact hod
  have hR1 : ((removeNode c n).lobj ol).reader = some R := by rw [removeNode_lobj']; exact hR
  have hal1 : ((removeNode c n).lobj ol).alive = true := by rw [removeNode_lobj']; exact hal
  have p1 := removeNode_nobj ha
  have p2 := removeLine_nobj hod1 hR1 hal1
  have fr2 := removeLine_frame (removeNode c n) ol
  have hrp1 : ((removeNode c n).lobj ol).readerPin = (c.lobj ol).readerPin := by rw [removeNode_lobj']
  have hidx1 : ((removeNode c n).lobj ol).index = (c.lobj ol).index := by rw [removeNode_lobj']
  have hc1 := removeNode_eq ha
  have e2n : (retarget (removeLine c ol) il n 0 R (c.lobj ol).readerPin).nodes = c.nodes := fr1.1
  have e2i : ((retarget (removeLine c ol) il n 0 R (c.lobj ol).readerPin).nobj n).index = (c.nobj n).index := by
    rw [(n2 n).2.2.1, (n1 n).2.2.1]
  have e2k : ((retarget (removeLine c ol) il n 0 R (c.lobj ol).readerPin).nobj n).kind = (c.nobj n).kind := by
    rw [(n2 n).2.1, (n1 n).2.1]
  have e2m : ((retarget (removeLine c ol) il n 0 R (c.lobj ol).readerPin).nobj n).name = (c.nobj n).name := by
    rw [(n2 n).1, (n1 n).1]
  refine WFc_congr wf3 ?_ ?_ ?_ ?_ ?_ ?_ ?_ ?_ ?_
  · show (removeLine (removeNode c n) ol).nodes = _
    rw [fr2.1, hb3, hc1]; simp only [e2n, e2i]
  · show (removeLine (removeNode c n) ol).lines = _
    rw [removeLine_eq hod1 hR1 hal1, hb3]
    show _ = (removeLine c ol).lines
    rw [removeLine_lines wf hol, hidx1, removeNode_lines']
  · show (removeLine (removeNode c n) ol).io = _
    rw [fr2.2.1, hb3, hc1]; exact fr1.2.1.symm
  · show (removeLine (removeNode c n) ol).cells = _
    rw [fr2.2.2.1, hb3, hc1]; simp only [e2k, e2m]
    show _ = if _ then (removeLine c ol).cells else eraseKey (removeLine c ol).cells _
    rw [fr1.2.2.1]
  · show (removeLine (removeNode c n) ol).forks = _
    rw [fr2.2.2.2.1, hb3, hc1]; simp only [e2k, e2m]
    show _ = if _ then eraseKey (removeLine c ol).forks _ else (removeLine c ol).forks
    rw [fr1.2.2.2.1]
  · show (removeLine (removeNode c n) ol).nextN = _
    rw [fr2.2.2.2.2.1, hb3, hc1]; exact fr1.2.2.2.2.1.symm
  · show (removeLine (removeNode c n) ol).nextL = _
    rw [fr2.2.2.2.2.2, hb3, hc1]; exact fr1.2.2.2.2.2.symm
  · -- node objects
    intro j hj
    have hjn : j ≠ n := ((removeNode_mem wf2 (by show n ∈ (removeLine c ol).nodes; rw [fr1.1]; exact hn) j).1 hj).2
    have q := nb3 j
    show (upd (removeLine (removeNode c n) ol).nobj R _).get j = _
    apply NodeObj.ext'
    · rw [q.1, (n2 j).1, (n1 j).1]
      by_cases hjR : j = R <;> simp [upd_get, hjR, (p2 _).1, (p1 _).1]
    · rw [q.2.1, (n2 j).2.1, (n1 j).2.1]
      by_cases hjR : j = R <;> simp [upd_get, hjR, (p2 _).2.1, (p1 _).2.1]
    · rw [q.2.2.2.2.1, (n2 j).2.2.1, (n1 j).2.2.1]
      simp only [e2n, e2i]
      by_cases hjR : j = R <;> simp [upd_get, hjR, (p2 _).2.2.1, (p1 _).2.2.2.2.1]
    · rw [q.2.2.1, (n2 j).2.2.2.2.2, (n1 j).2.2.2.2.2]
      by_cases hjR : j = R
      · subst hjR; simp [upd_get, hjn, (p2 _).2.2.2.2.2, (p1 _).2.2.1, hrp1]
      · simp [upd_get, hjR, hjn, (p2 _).2.2.2.2.2, (p1 _).2.2.1]
    · rw [q.2.2.2.1, (n2 j).2.2.2.2.1, (n1 j).2.2.2.2.1]
      by_cases hjR : j = R <;> simp [upd_get, hjR, hjn, hRn, (p2 _).2.2.2.2.1, (p1 _).2.2.2.1]
    · rw [q.2.2.2.2.2 hjn, (n2 j).2.2.2.1, (n1 j).2.2.2.1]
      by_cases hjR : j = R <;> simp [upd_get, hjR, (p2 _).2.2.2.1, (p1 _).2.2.2.2.2 hjn, (p1 _).2.2.2.2.2 hRn]
  · -- line objects
    intro x hx
    have hx' : x ∈ (removeLine c ol).lines := by rw [hb3] at hx; exact hx
    have hxo : x ≠ ol := ((removeLine_mem wf hol x).1 hx').2
    rw [hb3]
    show (upd (removeLine (removeNode c n) ol).lobj il _).get x = (upd (removeLine c ol).lobj il _).get x
    simp only [upd_get]
    rw [lobj_agree wf hn hol x hxo, lobj_agree wf hn hol il hne]


/-- the 1:1 fork is a self loop (its only output line is its input line): everything touched afterwards is dead -/
theorem elimRes_wf_A (wf : WFc c) (hn : n ∈ c.nodes) (hkf : (c.nobj n).kind = FORK) (hnio : n ∉ c.io)
    (houts : (c.nobj n).outs = [some ol]) (hil : pin (c.nobj n).ins 0 = some ol)
    (hrest : ∀ p, 1 ≤ p → pin (c.nobj n).ins p = none) :
    WFc (elimRes c n ol ol n (c.lobj ol).readerPin) := by
  have ha := (wf.nfresh n hn).2
  obtain ⟨hol, hod, hop⟩ := wf.outsBack n hn 0 ol (by rw [houts]; simp)
  obtain ⟨_, hR, hirp⟩ := wf.insBack n hn 0 ol hil
  have hal := (wf.lfresh ol hol).2
  have wf1 := removeLine_wf wf hol
  have fr1 := removeLine_frame c ol
  have n1 := removeLine_nobj hod hR hal
  have wf3 := removeNode_wf (i := n) wf1 (by rw [fr1.1]; exact hn)
    (by
      intro p
      rw [(n1 n).2.2.2.2.2]; simp only [if_true, pin_growSet, hirp]
      split
      · rfl
      · exact hrest p (by omega))
    (by
      intro p
      rw [(n1 n).2.2.2.2.1]
      simp only [if_true, outsAfter, hkf, houts, hop]
      simp [growSet])
    (by rw [fr1.2.1]; exact hnio)
  have ha2 : ((removeLine c ol).nobj n).alive = true := by rw [(n1 n).2.2.2.1]; exact ha
  have hb3 := removeNode_eq ha2
  have nb3 := removeNode_nobj ha2
  have hod1 : ((removeNode c n).lobj ol).driver = some n := by rw [removeNode_lobj']; exact hod
  have hR1 : ((removeNode c n).lobj ol).reader = some n := by rw [removeNode_lobj']; exact hR
  have hal1 : ((removeNode c n).lobj ol).alive = true := by rw [removeNode_lobj']; exact hal
  have p1 := removeNode_nobj ha
  have p2 := removeLine_nobj hod1 hR1 hal1
  have fr2 := removeLine_frame (removeNode c n) ol
  have hidx1 : ((removeNode c n).lobj ol).index = (c.lobj ol).index := by rw [removeNode_lobj']
  have hc1 := removeNode_eq ha
  refine WFc_congr wf3 ?_ ?_ ?_ ?_ ?_ ?_ ?_ ?_ ?_
  · show (removeLine (removeNode c n) ol).nodes = _
    rw [fr2.1, hb3, hc1]; simp only [fr1.1, (n1 n).2.2.1]
  · show (removeLine (removeNode c n) ol).lines = _
    rw [removeLine_eq hod1 hR1 hal1, hb3]
    show _ = (removeLine c ol).lines
    rw [removeLine_lines wf hol, hidx1, removeNode_lines']
  · show (removeLine (removeNode c n) ol).io = _
    rw [fr2.2.1, hb3, hc1]; exact fr1.2.1.symm
  · show (removeLine (removeNode c n) ol).cells = _
    rw [fr2.2.2.1, hb3, hc1]; simp only [(n1 n).1, (n1 n).2.1, fr1.2.2.1]
  · show (removeLine (removeNode c n) ol).forks = _
    rw [fr2.2.2.2.1, hb3, hc1]; simp only [(n1 n).1, (n1 n).2.1, fr1.2.2.2.1]
  · show (removeLine (removeNode c n) ol).nextN = _
    rw [fr2.2.2.2.2.1, hb3, hc1]; exact fr1.2.2.2.2.1.symm
  · show (removeLine (removeNode c n) ol).nextL = _
    rw [fr2.2.2.2.2.2, hb3, hc1]; exact fr1.2.2.2.2.2.symm
  · intro j hj
    have hjn : j ≠ n := ((removeNode_mem wf1 (by rw [fr1.1]; exact hn) j).1 hj).2
    have q := nb3 j
    show (upd (removeLine (removeNode c n) ol).nobj n _).get j = _
    simp only [upd_get, hjn, if_false]
    apply NodeObj.ext'
    · rw [q.1, (n1 j).1, (p2 j).1, (p1 j).1]
    · rw [q.2.1, (n1 j).2.1, (p2 j).2.1, (p1 j).2.1]
    · rw [q.2.2.2.2.1, (n1 j).2.2.1, (p2 j).2.2.1, (p1 j).2.2.2.2.1]; simp only [fr1.1, (n1 n).2.2.1]
    · rw [q.2.2.1, (n1 j).2.2.2.2.2, (p2 j).2.2.2.2.2, (p1 j).2.2.1]; simp [hjn]
    · rw [q.2.2.2.1, (n1 j).2.2.2.2.1, (p2 j).2.2.2.2.1, (p1 j).2.2.2.1]; simp [hjn]
    · rw [q.2.2.2.2.2 hjn, (n1 j).2.2.2.1, (p2 j).2.2.2.1, (p1 j).2.2.2.2.2 hjn]
  · intro x hx
    have hx' : x ∈ (removeLine c ol).lines := by rw [hb3] at hx; exact hx
    have hxo : x ≠ ol := ((removeLine_mem wf hol x).1 hx').2
    rw [hb3]
    show (upd (removeLine (removeNode c n) ol).lobj ol _).get x = (removeLine c ol).lobj.get x
    simp only [upd_get, hxo, if_false]
    exact lobj_agree wf hn hol x hxo

end caseB


theorem all_isNone_pin {l : Pins} (h : l.all (·.isNone) = true) (p : Nat) : pin l p = none := by
  unfold pin
  rw [List.getD_eq_getElem?_getD]
  by_cases hp : p < l.length
  · rw [List.getElem?_eq_getElem hp]
    have := List.all_eq_true.1 h _ (List.getElem_mem hp)
    cases hx : l[p] <;> simp_all
  · rw [List.getElem?_eq_none (by omega)]; rfl

theorem drop1_all_iff (l : Pins) : (l.drop 1).all (·.isNone) = true ↔ ∀ p, 1 ≤ p → pin l p = none := by
  cases l with
  | nil => simp
  | cons a l =>
    simp only [List.drop_succ_cons, List.drop_zero]
    constructor
    · intro h p hp
      obtain ⟨q, rfl⟩ : ∃ q, p = q + 1 := ⟨p - 1, by omega⟩
      rw [pin_cons_succ]; exact all_isNone_pin h q
    · intro h
      rw [List.all_eq_true]
      intro x hx
      obtain ⟨q, hq, rfl⟩ := List.mem_iff_getElem.1 hx
      have := h (q + 1) (by omega)
      rw [pin_cons_succ] at this
      simpa [pin, List.getD_eq_getElem?_getD, List.getElem?_eq_getElem hq] using this

theorem elimNodeOK_iff (c : Circ) (m : Nat) : elimNodeOK c m = true ↔
    (c.io.any fun j => sameNode (c.nobj j) (c.nobj m)) = true ∨ (c.nobj m).outs.length ≠ 1 ∨
    ((pin (c.nobj m).ins 0).isSome = true ∧ ∀ p, 1 ≤ p → pin (c.nobj m).ins p = none) := by
  unfold elimNodeOK
  simp only [Bool.or_eq_true, Bool.and_eq_true, bne_iff_ne, drop1_all_iff, or_assoc]

/-- node objects after one effective iteration (all but the removed fork) -/
theorem elimRes_nobj {c : Circ} {n il ol R : Nat} (wf : WFc c) (hn : n ∈ c.nodes) (hol : ol ∈ c.lines)
    (hod : (c.lobj ol).driver = some n) (hR : (c.lobj ol).reader = some R) (j : Nat) (hj : j ≠ n) :
    ((elimRes c n il ol R (c.lobj ol).readerPin).nobj j).name = (c.nobj j).name ∧
    ((elimRes c n il ol R (c.lobj ol).readerPin).nobj j).kind = (c.nobj j).kind ∧
    ((elimRes c n il ol R (c.lobj ol).readerPin).nobj j).outs = (c.nobj j).outs ∧
    ((elimRes c n il ol R (c.lobj ol).readerPin).nobj j).ins =
      (if j = R then growSet (growSet (c.nobj j).ins (c.lobj ol).readerPin none) (c.lobj ol).readerPin (some il)
       else (c.nobj j).ins) := by
  have ha := (wf.nfresh n hn).2
  have hal := (wf.lfresh ol hol).2
  have hod1 : ((removeNode c n).lobj ol).driver = some n := by rw [removeNode_lobj']; exact hod
  have hR1 : ((removeNode c n).lobj ol).reader = some R := by rw [removeNode_lobj']; exact hR
  have hal1 : ((removeNode c n).lobj ol).alive = true := by rw [removeNode_lobj']; exact hal
  have p1 := removeNode_nobj ha
  have p2 := removeLine_nobj hod1 hR1 hal1
  have hrp1 : ((removeNode c n).lobj ol).readerPin = (c.lobj ol).readerPin := by rw [removeNode_lobj']
  unfold elimRes
  simp only [upd_get]
  by_cases hjR : j = R
  · subst hjR
    simp [(p2 _).1, (p1 _).1, (p2 _).2.1, (p1 _).2.1, (p2 _).2.2.2.2.1, (p1 _).2.2.2.1,
      (p2 _).2.2.2.2.2, (p1 _).2.2.1, hj, hrp1]
  · simp [hjR, (p2 _).1, (p1 _).1, (p2 _).2.1, (p1 _).2.1, (p2 _).2.2.2.2.1, (p1 _).2.2.2.1,
      (p2 _).2.2.2.2.2, (p1 _).2.2.1, hj]


theorem sameNode_self (a : NodeObj) : sameNode a a = true := by simp [sameNode]

theorem full_singleton {l : Pins} (hlen : l.length = 1) (hfull : none ∉ l) : ∃ x, l = [some x] := by
  match l, hlen with
  | [a], _ =>
    cases a with
    | none => simp at hfull
    | some x => exact ⟨x, rfl⟩

/-- loop invariant of `eliminate_1to1_forks`: `rest` = the part of the snapshot `list(self.forks.values())` still to visit -/
structure LoopInv (c : Circ) (rest : List Nat) : Prop where
  wf : WFc c
  mem : ∀ n ∈ rest, n ∈ c.nodes ∧ (c.nobj n).kind = FORK
  nodup : rest.Nodup
  ok : ∀ n ∈ c.nodes, (c.nobj n).kind = FORK → elimNodeOK c n = true

theorem loopInv_step {c : Circ} {n : Nat} {rest : List Nat} (inv : LoopInv c (n :: rest)) :
    LoopInv (elimStep c n) rest := by
  have wf := inv.wf
  obtain ⟨hn, hkf⟩ := inv.mem n (by simp)
  have hnd := List.nodup_cons.1 inv.nodup
  have keep : LoopInv c rest := ⟨wf, fun m hm => inv.mem m (by simp [hm]), hnd.2, inv.ok⟩
  by_cases hio : (c.io.any fun j => sameNode (c.nobj j) (c.nobj n)) = true
  · have : elimStep c n = c := by unfold elimStep; simp [hio]
    rw [this]; exact keep
  by_cases hlen' : (c.nobj n).outs.length ≠ 1
  · have : elimStep c n = c := by unfold elimStep; simp [hio, hlen']
    rw [this]; exact keep
  have hlen : (c.nobj n).outs.length = 1 := Decidable.of_not_not hlen'
  have hio' : (c.io.any fun j => sameNode (c.nobj j) (c.nobj n)) = false := by simpa using hio
  -- the fork is eliminated
  have hok := (elimNodeOK_iff c n).1 (inv.ok n hn hkf)
  rcases hok with h | h | ⟨h0, hrest⟩
  · exact absurd h hio
  · exact absurd hlen h
  obtain ⟨il, hil⟩ := Option.isSome_iff_exists.1 h0
  obtain ⟨ol, houts⟩ := full_singleton hlen (wf.forkFull n hn hkf)
  have hol0 : pin (c.nobj n).outs 0 = some ol := by rw [houts]; simp
  obtain ⟨hol, hod, hop⟩ := wf.outsBack n hn 0 ol hol0
  obtain ⟨R, hR, hRm, hRp⟩ := wf.lrdr ol hol
  have hnio : n ∉ c.io := by
    intro h
    have : (c.io.any fun j => sameNode (c.nobj j) (c.nobj n)) = true :=
      List.any_eq_true.2 ⟨n, h, sameNode_self _⟩
    exact hio this
  rw [elimStep_eq hio' hlen hil hol0 hR]
  have hwf : WFc (elimRes c n il ol R (c.lobj ol).readerPin) := by
    by_cases hne : il = ol
    · subst hne
      obtain ⟨_, hR', _⟩ := wf.insBack n hn 0 il hil
      rw [hR] at hR'; cases hR'
      exact elimRes_wf_A wf hn hkf hnio houts hil hrest
    · exact elimRes_wf_B wf hn hkf hnio houts hil hrest hR hne
  have hnodes : ∀ j, j ∈ (elimRes c n il ol R (c.lobj ol).readerPin).nodes ↔ j ∈ c.nodes ∧ j ≠ n := by
    intro j
    show j ∈ (removeLine (removeNode c n) ol).nodes ↔ _
    rw [(removeLine_frame _ _).1]; exact removeNode_mem wf hn j
  have hobj := fun j hj => elimRes_nobj (il := il) wf hn hol hod hR j hj
  have hioeq : (elimRes c n il ol R (c.lobj ol).readerPin).io = c.io := by
    show (removeLine (removeNode c n) ol).io = _
    rw [(removeLine_frame _ _).2.1, removeNode_eq (wf.nfresh n hn).2]
  refine ⟨hwf, ?_, hnd.2, ?_⟩
  · intro m hm
    obtain ⟨h1, h2⟩ := inv.mem m (by simp [hm])
    have hmn : m ≠ n := fun h => hnd.1 (h ▸ hm)
    exact ⟨(hnodes m).2 ⟨h1, hmn⟩, by rw [(hobj m hmn).2.1]; exact h2⟩
  · intro m hm hk
    obtain ⟨hm1, hmn⟩ := (hnodes m).1 hm
    rw [(hobj m hmn).2.1] at hk
    have hold := (elimNodeOK_iff c m).1 (inv.ok m hm1 hk)
    rw [elimNodeOK_iff, hioeq]
    have hany : (c.io.any fun j => sameNode ((elimRes c n il ol R (c.lobj ol).readerPin).nobj j)
        ((elimRes c n il ol R (c.lobj ol).readerPin).nobj m)) = (c.io.any fun j => sameNode (c.nobj j) (c.nobj m)) := by
      have hpt : ∀ j ∈ c.io, sameNode ((elimRes c n il ol R (c.lobj ol).readerPin).nobj j)
          ((elimRes c n il ol R (c.lobj ol).readerPin).nobj m) = sameNode (c.nobj j) (c.nobj m) := by
        intro j hj
        have hjn : j ≠ n := fun h => hnio (h ▸ hj)
        simp only [sameNode, (hobj j hjn).1, (hobj j hjn).2.1, (hobj m hmn).1, (hobj m hmn).2.1]
      rw [Bool.eq_iff_iff, List.any_eq_true, List.any_eq_true]
      constructor
      · rintro ⟨j, hj, h⟩; exact ⟨j, hj, by rw [← hpt j hj]; exact h⟩
      · rintro ⟨j, hj, h⟩; exact ⟨j, hj, by rw [hpt j hj]; exact h⟩
    rw [hany, (hobj m hmn).2.2.1, (hobj m hmn).2.2.2]
    rcases hold with h | h | ⟨h1, h2⟩
    · exact Or.inl h
    · exact Or.inr (Or.inl h)
    · refine Or.inr (Or.inr ?_)
      split
      · rename_i hmR; subst hmR
        -- the reader of the removed output line is itself a 1:1 fork: its input pin 0 now holds `il`
        have hrp0 : (c.lobj ol).readerPin = 0 := by
          by_cases h : (c.lobj ol).readerPin = 0
          · exact h
          · rw [h2 _ (by omega)] at hRp; cases hRp
        rw [hrp0]
        refine ⟨by simp [pin_growSet], ?_⟩
        intro p hp
        have : p ≠ 0 := by omega
        simp [pin_growSet, this, h2 p hp]
      · exact ⟨h1, h2⟩

theorem loopInv_fold (rest : List Nat) (c : Circ) (inv : LoopInv c rest) : WFc (rest.foldl elimStep c) := by
  induction rest generalizing c with
  | nil => exact inv.wf
  | cons n rest ih => exact ih _ (loopInv_step inv)

theorem elim_wf {c : Circ} (wf : WFc c) (hpre : elimPre c = true) : WFc (elim c) := by
  unfold elim
  apply loopInv_fold
  refine ⟨wf, ?_, ?_, ?_⟩
  · intro n hn
    obtain ⟨e, he, rfl⟩ := List.mem_map.1 hn
    obtain ⟨h1, h2, _⟩ := wf.forksSound e he
    exact ⟨h1, h2⟩
  · show List.Pairwise (· ≠ ·) _
    rw [List.pairwise_map, List.pairwise_iff_getElem]
    intro p q hp hq hpq heq
    have h1 := (wf.forksSound _ (List.getElem_mem hp)).2.2
    have h2 := (wf.forksSound _ (List.getElem_mem hq)).2.2
    rw [heq] at h1
    have hk : c.forks[p].1 = c.forks[q].1 := by rw [← h1, ← h2]
    have := wf.fkeys
    unfold keysNodup at this
    have := (List.pairwise_iff_getElem.1 (List.pairwise_map.1 this)) p q hp hq hpq
    exact this hk
  · intro n hn hk
    have := wf.forksComplete n hn hk
    unfold elimPre at hpre
    exact List.all_eq_true.1 hpre _ this


end KV.CircObj
