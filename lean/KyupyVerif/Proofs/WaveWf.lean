import KyupyVerif.Proofs.WaveTerm
/-! Well-formedness of the produced waveform: only the bottom (first) entry of the output stack can be
`tmin`, every other entry is finite — so a gate's output is again a legal operand (`WfRem`), which is
what lets the gate-level theorems be chained through a whole circuit. -/
namespace KV.Wave

/-- stack (newest first): all entries except the bottom one are finite, the bottom is `tmin` or finite -/
def ZW (z : List T) : Prop := (∀ e ∈ z.dropLast, e.isFin = true) ∧ (∀ e ∈ z, e = T.tmin ∨ e.isFin = true)

theorem ZW.nil : ZW [] := ⟨by simp, by simp⟩
theorem ZW.tmin1 : ZW [T.tmin] := ⟨by simp, by simp⟩

theorem ZW.tail {z : List T} (h : ZW z) : ZW z.tail := by
  refine ⟨?_, fun e he => h.2 e (List.mem_of_mem_tail he)⟩
  intro e he
  cases z with
  | nil => simp at he
  | cons x r =>
    simp only [List.tail_cons] at he
    apply h.1
    cases r with
    | nil => simp at he
    | cons y r' => simp only [List.dropLast_cons₂]; exact List.mem_cons_of_mem _ he

theorem ZW.push_fin {z : List T} (h : ZW z) (t : Int) : ZW (T.fin t :: z) := by
  refine ⟨?_, ?_⟩
  · intro e he
    cases z with
    | nil => simp at he
    | cons y r =>
      simp only [List.dropLast_cons₂, List.mem_cons] at he
      rcases he with rfl | he
      · rfl
      · exact h.1 e he
  · intro e he
    rcases List.mem_cons.mp he with rfl | he
    · exact Or.inr rfl
    · exact h.2 e he

theorem ZW.toWfRem {z : List T} (h : ZW z) : WfRem z.reverse := by
  refine ⟨?_, fun e he => h.2 e (List.mem_reverse.mp he)⟩
  intro e he
  rw [List.tail_reverse] at he
  exact h.1 e (List.mem_reverse.mp he)

theorem stepB_zw (E : Env) (s : St) (hB : InvB s) (hlt : T.lt (cur E.D E.terms s) .tmax = true) (hz : ZW s.z) :
    ZW (step E.lut E.D E.terms E.zcap s).z := by
  obtain ⟨t, ht⟩ := cur_fin E s hB hlt
  unfold step
  simp only [ht]
  split
  · split
    · split
      · exact hz.push_fin t
      · exact hz.tail
    · exact hz.tail
  · exact hz

theorem step_QZ (E : Env) (m0) (s : St) (hq : Q E m0 s) (hz : ZW s.z)
    (hlt : T.lt (cur E.D E.terms s) .tmax = true) : ZW (step E.lut E.D E.terms E.zcap s).z := by
  obtain ⟨hP, h⟩ := hq
  rcases h with ⟨hA, he⟩ | ⟨hB, _⟩
  · cases hp : anyPend s with
    | true =>
      rcases (stepA_z E s hA hp).1 with h | h <;> rw [h]
      · exact ZW.nil
      · exact ZW.tmin1
    | false =>
      obtain ⟨hB, _⟩ := A_to_B E s m0 hP hA he hp
      exact stepB_zw E s hB hlt hz
  · exact stepB_zw E s hB hlt hz

theorem run_QZ (E : Env) (m0) (fuel : Nat) (s : St) (hq : Q E m0 s) (hz : ZW s.z) :
    ZW (run E.lut E.D E.terms E.zcap fuel s).z := by
  induction fuel generalizing s with
  | zero => simpa [run]
  | succ n ih =>
    unfold run; split
    · rename_i hlt; exact ih _ (step_Q E m0 s hq hlt) (step_QZ E m0 s hq hz hlt)
    · exact hz

/-- the output of a gate is a well-formed operand -/
theorem wave_gate_wf (E : Env) (ws : Fin 4 → List T) (hwf : ∀ i, WfRem (ws i)) :
    WfRem (run E.lut E.D E.terms E.zcap (totalLen ws) (init E.lut ws)).z.reverse := by
  apply ZW.toWfRem
  apply run_QZ E (initMask ws) _ _ (init_Q E ws hwf)
  simp only [init]
  cases (E.lut % 2 == 1)
  · exact ZW.nil
  · exact ZW.tmin1

end KV.Wave
