import KyupyVerif.Proofs.MemMapAccept
import KyupyVerif.Proofs.Cycle
/-! C01, audit-2 finding 7 (second part): the table condition `Cycle.zeroCapB` of `cycle_on_memory` / `cycle_end_to_end` holds for
the tables the `SimOps` model builds (`simopsMap`): the last pass of `memMap` copies the row of the constant-0 slot into the (P)PO
slot of every flip-flop / latch with open data pin (the D9 repair). -/
namespace KV
open KV.Cycle

/-- pass 2 of the alias passes: the output slot of a state element with OPEN data pin ends with the location of the constant slot -/
theorem mapAliases_zero (net : Net) (st : Array (Option Nat)) (s : MapSt)
    (hl : s.locs.size = net.idx.len) (hc : s.caps.size = net.idx.len)
    (q : Nat) (hq : q < net.sNodes.length) (hio : net.io.length ≤ q) (hpin : (sNodeAt net q).inPin 0 = none) :
    (mapAliases net st s).locs.getD (net.idx.ppo + q) (-1) = (mapAliases net st s).locs.getD net.idx.zero (-1) := by
  rw [mapAliases_eq]
  obtain ⟨hz, hlen⟩ := idx_facts net
  obtain ⟨_, a2, a3⟩ := aliasFold_basic s (stemPairs st)
  have hlow : ∀ p ∈ ppoPairs net, p.1 ≠ net.idx.zero := by
    intro p hp heq
    obtain ⟨n, i, _, hd⟩ := ppoPairs_dst net p hp
    omega
  have hmem : (net.idx.ppo + q, net.idx.zero) ∈ ppoPairs net := by
    unfold ppoPairs
    rw [List.mem_filterMap]
    refine ⟨(net.sNodes[q], q), List.mem_zipIdx_iff_getElem?.2 (by simp [hq]), ?_⟩
    unfold sNodeAt at hpin
    rw [List.getD_eq_getElem?_getD, List.getElem?_eq_getElem hq] at hpin
    simp only [Option.getD_some] at hpin
    unfold ppoPairF
    simp only [hpin, hio, if_true]
  have k1 := (aliasFold_set (aliasFold s (stemPairs st)) (ppoPairs net) (net.idx.ppo + q) net.idx.zero
    (ppoPairs_pairwise net) hmem hlow (by omega) (by omega)).1
  have k2 := (aliasFold_keep (aliasFold s (stemPairs st)) (ppoPairs net) net.idx.zero hlow).1
  rw [k1, k2]

/-- **`zeroCapB` holds for the `SimOps` model tables**, every well-formed netlist, topological order, capacity vector, with or without
`c_reuse` / `strip_forks` -/
theorem zeroCapB_simopsMap (tbl : List PrefixRow) (net : Net) (order : List Nat) (strip : Bool) (capsIn : Nat → Nat)
    (capsMin : Nat) (reuse : Bool) (hwf : net.wfB = true) (ho : orderOKB net order = true)
    (hf : strip = true → forksOKB net order = true) (hr : readsDrivenB tbl net order = true) (hpos : 0 < capsMin) :
    zeroCapB (simopsMap tbl net order strip capsIn capsMin reuse) = true := by
  let p := simopsMap tbl net order strip capsIn capsMin reuse
  have hp : ProgOK p := simops_progOK tbl p order hwf ho hf hr rfl rfl
  have hM := mapLevels_inv hp hpos reuse capsIn (levelise p.ix.len p.stems p.ops) rfl
    (levelise_refc_size _ _ _) (fun x hx => levelise_refc _ _ _ x hx)
  obtain ⟨hA, _⟩ := hM
  have hlocs : p.locs = (mapAliases p.net p.stems (mapLevels p.net p.ops p.stems (levelise p.ix.len p.stems p.ops) capsIn
      p.capsMin reuse)).locs := by
    show (memMap _ _ _ _ _ _ _).locs = _
    rw [memMap_eq_fold]; rfl
  show zeroCapB p = true
  unfold zeroCapB
  rw [List.all_eq_true]
  intro q hq
  obtain ⟨hio, hlt⟩ := (mem_ppioS p.net q).1 hq
  cases hpin : (sNodeAt p.net q).inPin 0 with
  | some l => rfl
  | none =>
    simp only [Option.isSome_none, Bool.false_or, beq_iff_eq]
    unfold MapIn.loc
    rw [hlocs]
    exact mapAliases_zero p.net p.stems _ hA.szl hA.szc q hlt hio hpin
end KV
