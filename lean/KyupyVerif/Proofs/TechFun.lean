import KyupyVerif.Proofs.TechCells
import KyupyVerif.Proofs.TechFun0
import KyupyVerif.Proofs.TechFun1
import KyupyVerif.Proofs.TechFun2
import KyupyVerif.Proofs.TechFun3
import KyupyVerif.Proofs.TechFun4
import KyupyVerif.Proofs.TechFun5
import KyupyVerif.Proofs.TechFun6
import KyupyVerif.Proofs.TechFun7
/-! the per-chunk function checks assembled over `Gen.techChunks` -/
namespace KV.Tech
open KV.TL KV.DS

theorem gates_all : ∀ ch ∈ Gen.techChunks, ch.all (funOK (!·.isAdder)) = true :=
  forall_chunks (p := fun ch => ch.all (funOK (!·.isAdder)) = true)
    gates0 gates1 gates2 gates3 gates4 gates5 gates6 gates7

end KV.Tech
