import KyupyVerif.Model.Sig
/-! An op program whose operands are never written at or after their use computes THE solution of its own
equation system: every op equation holds in the final state, inputs are untouched, and the solution is
unique. This is "evaluating the netlist gate by gate" for any value domain. -/
namespace KV.Sig

theorem execG_frame {α} (sem : Op → List α → α) (ops : List Op) (env : Nat → α) (j : Nat)
    (h : ∀ p ∈ ops, p.out ≠ j) : execG sem ops env j = env j := by
  induction ops generalizing env with
  | nil => rfl
  | cons p ops ih =>
    simp only [execG, List.foldl_cons]
    have := ih (execOpG sem env p) (fun q hq => h q (List.mem_cons_of_mem _ hq))
    simp only [execG] at this
    rw [this]
    have hp := h p List.mem_cons_self
    simp [execOpG, upd, Ne.symm hp]

theorem execG_append {α} (sem : Op → List α → α) (a b : List Op) (env : Nat → α) :
    execG sem (a ++ b) env = execG sem b (execG sem a env) := by
  simp [execG, List.foldl_append]

/-- operands of the op at each position are not written at or after that position (in particular no op reads
    its own output), and every signal has at most one writer -/
def WellOrdered : List Op → Prop
  | [] => True
  | o :: rest => (∀ p ∈ rest, p.out ≠ o.out) ∧ (∀ x ∈ o.ins, x ≠ o.out ∧ ∀ p ∈ rest, p.out ≠ x) ∧ WellOrdered rest

def wellOrderedB : List Op → Bool
  | [] => true
  | o :: rest =>
    rest.all (fun p => p.out != o.out) && o.ins.all (fun x => x != o.out && rest.all (fun p => p.out != x)) && wellOrderedB rest

theorem wellOrderedB_sound : ∀ ops, wellOrderedB ops = true → WellOrdered ops
  | [], _ => trivial
  | o :: rest, h => by
    simp only [wellOrderedB, Bool.and_eq_true, List.all_eq_true, bne_iff_ne] at h
    exact ⟨h.1.1, fun x hx => ⟨(h.1.2 x hx).1, (h.1.2 x hx).2⟩, wellOrderedB_sound rest h.2⟩

/-- the final state satisfies the equation of EVERY op of a well-ordered program -/
theorem execG_solves {α} (sem : Op → List α → α) (ops : List Op) (hw : WellOrdered ops) (env : Nat → α) :
    ∀ o ∈ ops, execG sem ops env o.out = sem o (o.ins.map (execG sem ops env)) := by
  induction ops generalizing env with
  | nil => intro o ho; cases ho
  | cons p rest ih =>
    obtain ⟨hout, hins, hrest⟩ := hw
    intro o ho
    have hcons : execG sem (p :: rest) env = execG sem rest (execOpG sem env p) := rfl
    rcases List.mem_cons.mp ho with rfl | hmem
    · rw [hcons, execG_frame sem rest _ o.out hout]
      have hargs : o.ins.map (execG sem rest (execOpG sem env o)) = o.ins.map env := by
        apply List.map_congr_left
        intro x hx
        rw [execG_frame sem rest _ x (hins x hx).2]
        simp [execOpG, upd, (hins x hx).1]
      rw [hargs]
      simp [execOpG, upd]
    · rw [hcons]; exact ih hrest _ o hmem

/-- signals that no op writes keep their initial value (primary inputs, state slots, the zero slot) -/
theorem execG_inputs {α} (sem : Op → List α → α) (ops : List Op) (env : Nat → α) (x : Nat)
    (h : ∀ p ∈ ops, p.out ≠ x) : execG sem ops env x = env x := execG_frame sem ops env x h

/-- a labelling solves the system: inputs as given, every op equation holds -/
def Solves {α} (sem : Op → List α → α) (ops : List Op) (env val : Nat → α) : Prop :=
  (∀ x, (∀ p ∈ ops, p.out ≠ x) → val x = env x) ∧ (∀ o ∈ ops, val o.out = sem o (o.ins.map val))

/-- any labelling that solves the system of a well-ordered program agrees with the program's result on every
    signal: the gate-by-gate meaning is unique -/
theorem solution_unique {α} (sem : Op → List α → α) (ops : List Op) (hw : WellOrdered ops) (env val : Nat → α)
    (hs : Solves sem ops env val) : ∀ x, val x = execG sem ops env x := by
  induction ops generalizing env with
  | nil => intro x; exact hs.1 x (by intro p hp; cases hp)
  | cons o rest ih =>
    obtain ⟨hout, hins, hrest⟩ := hw
    have hcons : execG sem (o :: rest) env = execG sem rest (execOpG sem env o) := rfl
    rw [hcons]
    apply ih hrest
    refine ⟨?_, fun p hp => hs.2 p (List.mem_cons_of_mem _ hp)⟩
    intro x hx
    by_cases hxo : x = o.out
    · subst hxo
      have heq := hs.2 o List.mem_cons_self
      have hargs : o.ins.map val = o.ins.map env := by
        apply List.map_congr_left
        intro y hy
        apply hs.1 y
        intro p hp
        rcases List.mem_cons.mp hp with rfl | hp
        · exact fun h => (hins y hy).1 h.symm
        · exact (hins y hy).2 p hp
      rw [heq, hargs]; simp [execOpG, upd]
    · have : val x = env x := hs.1 x (by
        intro p hp
        rcases List.mem_cons.mp hp with rfl | hp
        · exact fun h => hxo h.symm
        · exact hx p hp)
      rw [this]; simp [execOpG, upd, hxo]

end KV.Sig

namespace KV.Sig
/-! ### generalisation with a scratch ("junk") signal that several ops may write and nobody reads -/

def RelJ (J : Nat → Bool) (o p : Op) : Prop := (J o.out = false → p.out ≠ o.out) ∧ ∀ x ∈ o.ins, p.out ≠ x
def LocalJ (J : Nat → Bool) (o : Op) : Prop := ∀ x ∈ o.ins, J x = false ∧ x ≠ o.out
/-- every op is followed only by ops that neither rewrite its (non-scratch) output nor write one of its operands;
    no op reads the scratch signal or its own output -/
def WOJ (J : Nat → Bool) (ops : List Op) : Prop := ops.Pairwise (RelJ J) ∧ ∀ o ∈ ops, LocalJ J o

theorem WOJ.tail {J} {o : Op} {rest : List Op} (h : WOJ J (o :: rest)) : WOJ J rest :=
  ⟨(List.pairwise_cons.mp h.1).2, fun p hp => h.2 p (List.mem_cons_of_mem _ hp)⟩

theorem execG_solvesJ {α} (J : Nat → Bool) (sem : Op → List α → α) (ops : List Op) (hw : WOJ J ops) (env : Nat → α) :
    ∀ o ∈ ops, J o.out = false → execG sem ops env o.out = sem o (o.ins.map (execG sem ops env)) := by
  induction ops generalizing env with
  | nil => intro o ho; cases ho
  | cons p rest ih =>
    intro o ho hj
    have hcons : execG sem (p :: rest) env = execG sem rest (execOpG sem env p) := rfl
    have hrel := (List.pairwise_cons.mp hw.1).1
    rcases List.mem_cons.mp ho with rfl | hmem
    · have hloc := hw.2 o List.mem_cons_self
      rw [hcons, execG_frame sem rest _ o.out (fun q hq => (hrel q hq).1 hj)]
      have hargs : o.ins.map (execG sem rest (execOpG sem env o)) = o.ins.map env := by
        apply List.map_congr_left
        intro x hx
        rw [execG_frame sem rest _ x (fun q hq => (hrel q hq).2 x hx)]
        simp [execOpG, upd, (hloc x hx).2]
      rw [hargs]
      simp [execOpG, upd]
    · rw [hcons]; exact ih hw.tail _ o hmem hj

def SolvesJ {α} (J : Nat → Bool) (sem : Op → List α → α) (ops : List Op) (env val : Nat → α) : Prop :=
  (∀ x, J x = false → (∀ p ∈ ops, p.out ≠ x) → val x = env x) ∧
  (∀ o ∈ ops, J o.out = false → val o.out = sem o (o.ins.map val))

theorem solution_uniqueJ {α} (J : Nat → Bool) (sem : Op → List α → α) (ops : List Op) (hw : WOJ J ops) (env val : Nat → α)
    (hs : SolvesJ J sem ops env val) : ∀ x, J x = false → val x = execG sem ops env x := by
  induction ops generalizing env with
  | nil => intro x hj; exact hs.1 x hj (by intro p hp; cases hp)
  | cons o rest ih =>
    have hcons : execG sem (o :: rest) env = execG sem rest (execOpG sem env o) := rfl
    have hrel := (List.pairwise_cons.mp hw.1).1
    have hloc := hw.2 o List.mem_cons_self
    rw [hcons]
    apply ih hw.tail
    refine ⟨?_, fun p hp hj => hs.2 p (List.mem_cons_of_mem _ hp) hj⟩
    intro x hj hx
    by_cases hxo : x = o.out
    · subst hxo
      have heq := hs.2 o List.mem_cons_self hj
      have hargs : o.ins.map val = o.ins.map env := by
        apply List.map_congr_left
        intro y hy
        apply hs.1 y (hloc y hy).1
        intro p hp
        rcases List.mem_cons.mp hp with rfl | hp
        · exact fun h => (hloc y hy).2 h.symm
        · exact (hrel p hp).2 y hy
      rw [heq, hargs]; simp [execOpG, upd]
    · have : val x = env x := hs.1 x hj (by
        intro p hp
        rcases List.mem_cons.mp hp with rfl | hp
        · exact fun h => hxo h.symm
        · exact hx p hp)
      rw [this]; simp [execOpG, upd, hxo]

theorem execG_solution {α} (J : Nat → Bool) (sem : Op → List α → α) (ops : List Op) (hw : WOJ J ops) (env : Nat → α) :
    SolvesJ J sem ops env (execG sem ops env) :=
  ⟨fun x _ hx => execG_frame sem ops env x hx, execG_solvesJ J sem ops hw env⟩

end KV.Sig
