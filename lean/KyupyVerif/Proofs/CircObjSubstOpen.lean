import KyupyVerif.Proofs.CircObjSubstFull
/-! C09: `substitute` with open output pins.  `setPin c i m sh n p` predicts structurally whether output pin `p` of the image
of implementation node `n` holds a line after the call; the prediction is exact (`setPin_sound`, `setPin_complete`).  If for
every copied fork the predicted pins form an initial segment (`substOpenOK`), the forks of the result are gap-free, and
the removal of the dangling logic keeps them so: `substStatic ∧ substOpenOK ⇒ WFc`. -/
namespace KV.CircObj

theorem eq_of_fst_nodup {α β : Type} {L : List (α × β)} (h : (L.map (·.1)).Nodup) {a b : α × β} (ha : a ∈ L) (hb : b ∈ L)
    (hab : a.1 = b.1) : a = b := by
  induction L with
  | nil => simp at ha
  | cons e L ih =>
    simp only [List.map_cons, List.nodup_cons] at h
    simp only [List.mem_cons] at ha hb
    rcases ha with rfl | ha <;> rcases hb with rfl | hb
    · rfl
    · exact absurd (List.mem_map.2 ⟨b, hb, hab.symm⟩) h.1
    · exact absurd (List.mem_map.2 ⟨a, ha, hab⟩) h.1
    · exact ih h.2 ha hb

/-- every visited CONNECTED output line of the implementation occupies its target pin -/
def Done5o (m : Circ) (nm : NMap) (allp : List (Nat × Option Nat)) (c : Circ) (rest : List (Nat × Option Nat)) : Prop :=
  ∀ l ll, (l, some ll) ∈ allp → l ∉ rest.map (·.1) → ∀ D dp, outTarget m nm l = some (D, dp) → pin (c.nobj D).outs dp ≠ none

theorem connectOut_ff5o {m : Circ} {nm : NMap} {allp : List (Nat × Option Nat)} {st st' : Circ × List Nat} {p : Nat × Option Nat}
    {rest : List (Nat × Option Nat)} (hnd : (allp.map (·.1)).Nodup) (hp : p ∈ allp) (f : FFk m nm st.1) (d3 : Done3 m nm st.1 [])
    (d5 : Done5o m nm allp st.1 (p :: rest)) (h : connectOut m nm st p = some st') :
    FFk m nm st'.1 ∧ Done3 m nm st'.1 [] ∧ Done5o m nm allp st'.1 rest := by
  obtain ⟨l, o⟩ := p
  cases o with
  | none =>
    simp only [connectOut, Option.some.injEq] at h
    subst h
    refine ⟨f, d3, ?_⟩
    intro x ll hx hxr D dp hq
    have hxl : x ≠ l := by
      intro e; subst e
      have := eq_of_fst_nodup hnd hx hp rfl
      simp at this
    exact d5 x ll hx (by simp only [List.map_cons, List.mem_cons, not_or]; exact ⟨hxl, hxr⟩) D dp hq
  | some ll =>
    simp only [connectOut] at h
    cases ht : outTarget m nm l with
    | none => simp [ht] at h
    | some q =>
      obtain ⟨D, dp⟩ := q
      simp only [ht, Option.some.injEq] at h
      subst h
      have hn := setDriver_nobj st.1 ll D dp
      obtain ⟨e, he, hed⟩ := outTarget_mem ht
      refine ⟨f.step rfl (fun j => (hn j).2.1) ?_, ?_, ?_⟩
      · intro j
        rw [(hn j).2.2.2.2.2]
        by_cases hj : j = D
        · subst hj; exact Or.inr ⟨⟨e, he, hed⟩, dp, ll, by simp⟩
        · exact Or.inl (by simp [hj])
      · intro x hx hxr D' dp' R' rp' hq
        rw [(hn D').2.2.2.2.2]
        have old := d3 x hx hxr D' dp' R' rp' hq
        split
        · rw [pin_growSet]; split
          · simp
          · exact old
        · exact old
      · intro x ll' hx hxr D' dp' hq
        rw [(hn D').2.2.2.2.2]
        by_cases hxl : x = l
        · subst hxl
          rw [ht] at hq
          simp only [Option.some.injEq, Prod.mk.injEq] at hq
          obtain ⟨rfl, rfl⟩ := hq
          simp [pin_growSet]
        · have old := d5 x ll' hx (by simp only [List.map_cons, List.mem_cons, not_or]; exact ⟨hxl, hxr⟩) D' dp' hq
          split
          · rw [pin_growSet]; split
            · simp
            · exact old
          · exact old

/-! ## the prediction is exact -/
theorem outConnected_iff {c : Circ} {i : Nat} {sh : Shape} {l : Nat} :
    outConnected c i sh l = true ↔ ∃ ll, (l, some ll) ∈ sh.outLines.zip (padTo (c.nobj i).outs sh.outLines.length) := by
  unfold outConnected
  rw [List.any_eq_true]
  constructor
  · rintro ⟨⟨a, b⟩, hm, hc⟩
    simp only [Bool.and_eq_true, beq_iff_eq] at hc
    obtain ⟨rfl, hb⟩ := hc
    cases b with
    | none => simp at hb
    | some ll => exact ⟨ll, hm⟩
  · rintro ⟨ll, hm⟩
    exact ⟨(l, some ll), hm, by simp⟩

/-- facts about the final state of the connecting loops that the two directions need -/
structure Final (c : Circ) (i : Nat) (m : Circ) (sh : Shape) (nm : NMap) (c5 : Circ) : Prop where
  wf : WFc0 m
  ok : NmOK m nm
  keysC : KeysC m nm []
  keyCond : ∀ e ∈ nm, inIos m e.1 = true → forkCond m e.1 = true
  inv5 : Inv5 m nm (sh.outLines.zip (padTo (c.nobj i).outs sh.outLines.length)) (c5, []) []
  d3 : Done3 m nm c5 []
  d5 : Done5o m nm (sh.outLines.zip (padTo (c.nobj i).outs sh.outLines.length)) c5 []
  outl : ∀ l ll, (l, some ll) ∈ sh.outLines.zip (padTo (c.nobj i).outs sh.outLines.length) → OutLine m l

theorem hasImage_key {m : Circ} {nm : NMap} (_wf : WFc0 m) (keysC : KeysC m nm []) {r : Nat} (hr : r ∈ m.nodes)
    (h : hasImage m r = true) : ∃ v, (r, v) ∈ nm := by
  rcases keysC r hr (by simp) with hk | ⟨h1, h2⟩
  · exact hk
  · unfold hasImage at h; simp [h1, h2] at h

/-- a pin predicted to be occupied is occupied -/
theorem setPin_sound {c : Circ} {i : Nat} {m : Circ} {sh : Shape} {nm : NMap} {c5 : Circ} (F : Final c i m sh nm c5)
    {e : Nat × Nat} (he : e ∈ nm) {p : Nat} (h : setPin c i m sh e.1 p = true) : pin (c5.nobj e.2).outs p ≠ none := by
  have wf := F.wf
  have hn : e.1 ∈ m.nodes := F.ok.keysIn e he
  have hee : (e.1, e.2) ∈ nm := he
  unfold setPin at h
  split at h
  · rename_i hp
    cases hl : pin (m.nobj e.1).outs p with
    | none => simp [hl] at h
    | some l =>
      simp only [hl] at h
      obtain ⟨hlm, hld, hlp⟩ := wf.outsBack e.1 hn p l hl
      obtain ⟨r, hr1, hr2, hr3⟩ := wf.lrdr l hlm
      simp only [hr1, Bool.or_eq_true] at h
      by_cases himg : hasImage m r = true
      · obtain ⟨R, hR⟩ := hasImage_key wf F.keysC hr2 himg
        have : implLineEnds m nm l = some (e.2, p, R, (m.lobj l).readerPin) := by
          unfold implLineEnds
          simp only [hr1, hld, (nmFind_iff wf F.ok hr2).2 hR, (nmFind_iff wf F.ok hn).2 hee, hlp]
        exact F.d3 l hlm (by simp) _ _ _ _ this
      · have hconn : outConnected c i sh l = true := by
          rcases h with h | h
          · exact absurd h himg
          · exact h
        obtain ⟨ll, hll⟩ := outConnected_iff.1 hconn
        obtain ⟨O, hO, hOl, hOp⟩ := F.outl l ll hll
        have hrO := (wf.insBack O (wf.ioIn O hO) 0 l hOp).2.1
        rw [hr1] at hrO; cases hrO
        -- the reader is a port without an image, hence without outputs
        have houts0 : (m.nobj r).outs.length = 0 := by
          have hio : inIos m r = true := (inIos_iff wf hr2).2 hO
          unfold hasImage forkCond at himg
          simp only [hio, Bool.not_true, Bool.false_or, Bool.not_eq_true, Bool.or_eq_false_iff, Bool.and_eq_false_iff,
            decide_eq_false_iff_not, Nat.not_lt, Nat.le_zero_eq, beq_eq_false_iff_ne, ne_eq] at himg
          rcases himg.1 with h1 | h1
          · exact h1
          · exact absurd h1 hOl
        have : outTarget m nm l = some (e.2, p) := by
          unfold outTarget
          simp only [hr1, houts0, Nat.lt_irrefl, if_false, hld, (nmFind_iff wf F.ok hn).2 hee, Option.map_some, hlp]
        exact F.d5 l ll hll (by simp) _ _ this
  · simp only [Bool.and_eq_true, beq_iff_eq, decide_eq_true_eq] at h
    obtain ⟨⟨⟨hpL, hio⟩, hpos⟩, hrest⟩ := h
    cases hl : pin (m.nobj e.1).ins 0 with
    | none => simp [hl] at hrest
    | some l =>
      simp only [hl] at hrest
      obtain ⟨ll, hll⟩ := outConnected_iff.1 hrest
      obtain ⟨hlm, hlr, _⟩ := wf.insBack e.1 hn 0 l hl
      have : outTarget m nm l = some (e.2, p) := by
        unfold outTarget
        simp only [hlr, hpos, if_true, (nmFind_iff wf F.ok hn).2 hee, Option.map_some, hpL]
      exact F.d5 l ll hll (by simp) _ _ this

/-- an occupied pin was predicted -/
theorem setPin_complete {c : Circ} {i : Nat} {m : Circ} {sh : Shape} {nm : NMap} {c5 : Circ} (F : Final c i m sh nm c5)
    {e : Nat × Nat} (he : e ∈ nm) {p y : Nat} (h : pin (c5.nobj e.2).outs p = some y) : setPin c i m sh e.1 p = true := by
  have wf := F.wf
  have hn : e.1 ∈ m.nodes := F.ok.keysIn e he
  have hee : (e.1, e.2) ∈ nm := he
  rcases F.inv5.outs e he p y h with ⟨l', hl', h1, h2, e', he', h3⟩ | ⟨l2, ll2, hall2, hol2, _, ht2⟩
  · -- a copied line
    have hlt := outs_lt_of_driver wf hl' h1
    obtain ⟨d', e1, _, p1⟩ := wf.ldrv l' hl'
    rw [h1] at e1; cases e1
    rw [h2] at p1 hlt
    unfold setPin
    simp only [hlt, if_true, p1, h3, Bool.or_eq_true]
    left
    unfold hasImage
    by_cases hio : inIos m e'.1 = true
    · simp [hio, F.keyCond e' he' hio]
    · simp [hio]
  · -- the host line of a connected output
    obtain ⟨hlm2, O2, hO2, hrO2, hpO2, hcase2⟩ := outTarget_spec wf F.ok hol2 ht2
    have hconn : outConnected c i sh l2 = true := outConnected_iff.2 ⟨ll2, hall2⟩
    rcases hcase2 with ⟨hlen, hDm2, hdp2⟩ | ⟨hlen, d2, hd2, hDm2, hdp2⟩
    · have hO2e : O2 = e.1 := (Prod.mk.inj (pairwise_snd_unique F.ok.valsD hDm2 hee rfl)).1
      rw [hO2e] at hO2 hpO2 hlen hdp2
      unfold setPin
      have hio : inIos m e.1 = true := (inIos_iff wf hn).2 hO2
      have hpos : (m.nobj e.1).outs.length > 0 := by omega
      simp [hdp2, hio, hpO2, hconn, hpos]
    · have : d2 = e.1 := (Prod.mk.inj (pairwise_snd_unique F.ok.valsD hDm2 hee rfl)).1
      subst this
      have hlt := outs_lt_of_driver wf hlm2 hd2
      obtain ⟨d', e1, _, p1⟩ := wf.ldrv l2 hlm2
      rw [hd2] at e1; cases e1
      rw [← hdp2] at p1 hlt
      unfold setPin
      simp only [hlt, if_true, p1, hrO2, hconn, Bool.or_true]

theorem setPin_le {c : Circ} {i : Nat} {m : Circ} {sh : Shape} {n p : Nat} (h : setPin c i m sh n p = true) :
    p ≤ (m.nobj n).outs.length := by
  unfold setPin at h
  split at h
  · omega
  · simp only [Bool.and_eq_true, beq_iff_eq] at h
    omega

theorem ffull_final_open {c : Circ} {i : Nat} {m : Circ} {sh : Shape} {nm : NMap} {c5 : Circ} (F : Final c i m sh nm c5)
    (hs : implShape m = some sh) (hopen : substOpenOK c i m = true) (f : FFk m nm c5) : FFull c5 := by
  intro j hj hk
  by_cases himg : ∃ e ∈ nm, e.2 = j
  · obtain ⟨e, he, rfl⟩ := himg
    have hn : e.1 ∈ m.nodes := F.ok.keysIn e he
    have hfi := f.gap e he hk
    -- downward closure of the predicted pins
    have hclosed : ∀ p, setPin c i m sh e.1 p = true → ∀ q, q < p → setPin c i m sh e.1 q = true := by
      intro p hp q hq
      unfold substOpenOK at hopen
      simp only [hs, List.all_eq_true, Bool.or_eq_true, Bool.not_eq_true', List.mem_range] at hopen
      rcases hopen e.1 hn with h1 | h1
      · rw [hfi] at h1; cases h1
      · have hple := setPin_le hp
        rcases h1 p (by omega) with h2 | h2
        · rw [hp] at h2; cases h2
        · exact h2 q hq
    apply gapfree_of_pins
    intro p hp
    obtain ⟨q, hpq, hq⟩ := f.last e he p hp
    cases hqy : pin (c5.nobj e.2).outs q with
    | none => exact absurd hqy hq
    | some y =>
      have hsq := setPin_complete F he hqy
      by_cases hpq' : p = q
      · rw [hpq']; exact hq
      · exact setPin_sound F he (hclosed q hsq p (by omega))
  · exact f.old j hj (fun e he hej => himg ⟨e, he, hej⟩) hk

/-! ## removal of the dangling logic keeps the forks gap-free -/
theorem dangling_ffull {own : List Nat} : ∀ (dang : List Nat) (c c' : Circ), WFc0 c → FFull c →
    (∀ n ∈ dang, n ∈ c.nodes ∨ (c.nobj n).alive = false) → foldO (danglingStep own) c dang = some c' → FFull c' := by
  intro dang
  induction dang with
  | nil => intro c c' _ ff _ h; simp only [foldO, Option.some.injEq] at h; exact h ▸ ff
  | cons n rest ih =>
    intro c c' wf ff hd h
    simp only [foldO] at h
    cases hs : danglingStep own c n with
    | none => simp [hs] at h
    | some c1 =>
      simp only [hs] at h
      unfold danglingStep at hs
      split at hs
      · rename_i hal
        have hn : n ∈ c.nodes := by
          rcases hd n (by simp) with h1 | h1
          · exact h1
          · rw [h1] at hal; cases hal
        obtain ⟨wf1, ff1, keeps⟩ := removeDanglingFrom_wf0 wf (Or.inl hn) hs
        exact ih c1 c' wf1 (ff1 ff) (fun x hx => keeps x (hd x (by simp [hx]))) h
      · cases hs
        exact ih c c' wf ff (fun x hx => hd x (by simp [hx])) h

/-! ## the theorem -/
/-- `substitute` under the structural precondition with open output pins that leave no gap (`substOpenOK`): gap-free forks -/
theorem substituteObj_ffull_open {c c' : Circ} {i : Nat} {m : Circ} (wfc : WFc c) (hst : substStatic c i m = true)
    (hopen : substOpenOK c i m = true) (h : substituteObj c i m = some c') : FFull c' := by
  have wfc0 := wfc.toWFc0
  have hst0 := hst
  unfold substStatic implStatic at hst
  simp only [Bool.and_eq_true, List.contains_eq_mem, decide_eq_true_eq] at hst
  obtain ⟨⟨⟨hi, hk⟩, hloop⟩, ⟨hinv, hioN⟩, hdesNP⟩ := hst
  have wfm : WFc m := (invOK_iff m).1 hinv
  have wf : WFc0 m := wfm.toWFc0
  unfold substituteObj at h
  cases hs : implShape m with
  | none => simp [hs] at h
  | some sh =>
    simp only [hs] at h
    split at h
    · cases h
    rename_i har
    have har' : arityOK c i sh = true := by simpa using har
    unfold arityOK at har'
    simp only [Bool.and_eq_true, decide_eq_true_eq] at har'
    have hdes : ∀ dn, sh.des = some dn → inIos m dn = false := by
      intro dn hd
      unfold desNotPort at hdesNP
      simp only [hs, hd, Bool.not_eq_true'] at hdesNP
      exact hdesNP
    obtain ⟨k1, k2, k3⟩ := substKinds_des hk hs
    obtain ⟨hsp1, hsp2, _⟩ := implShape_spec hs
    unfold substCopy at h
    cases h2 : foldO (addImplNode m (c.nobj i).name sh.des) (phase1 c i m sh.des) m.nodes with
    | none => simp [h2] at h
    | some st2 =>
      obtain ⟨c2, nm⟩ := st2
      simp only [h2] at h
      cases h3 : foldO (addImplLine m nm) c2 m.lines with
      | none => simp [h3] at h
      | some c3 =>
        simp only [h3, Option.map_some] at h
        unfold substConnect at h
        cases h4 : foldO (connectIn m nm) c3 (sh.inPorts.zip (padTo (c.nobj i).ins sh.inPorts.length)) with
        | none => simp [h4] at h
        | some c4 =>
          simp only [h4] at h
          cases h5 : foldO (connectOut m nm) (c4, []) (sh.outLines.zip (padTo (c.nobj i).outs sh.outLines.length)) with
          | none => simp [h5] at h
          | some st5 =>
            obtain ⟨c5, dang⟩ := st5
            simp only [h5] at h
            -- the node loop
            have n2 := foldO_inv (addImplNode m (c.nobj i).name sh.des)
              (fun st rest => CopyInv (InL c i) (OutL c i) st.1 st.2 ∧ NmInv m sh.des st.1 st.2 rest ∧ st.1.nextL = c.nextL ∧
                (∀ x ∈ rest, x ∈ m.nodes) ∧ rest.Nodup ∧ FF2 m sh.des st.1 st.2 rest)
              (fun s a rest s' hinv hf => by
                obtain ⟨a1, a2, a3, a4, a5, a6⟩ := hinv
                have hnd := List.nodup_cons.1 a5
                have han := a4 a (by simp)
                exact ⟨addImplNode_inv a1 hf, addImplNode_nm wf hdes han hnd.1 a2 hf, by rw [addImplNode_nextL hf]; exact a3,
                  fun x hx => a4 x (by simp [hx]), hnd.2, addImplNode_ff2 wfm hdes han a1 a2 a6 hf⟩)
              m.nodes _ _ ⟨phase1_inv wfc0 hi hk hs, phase1_nm wfc0 hi wf hs hdes _, phase1_nextL c i m sh.des, fun x hx => hx,
                wf.nodes_nodup, phase1_ff2 wfc hi k2⟩ h2
            obtain ⟨i2, nmi, hnl2, _, _, ff2⟩ := n2
            simp only at i2 nmi hnl2 ff2
            have ok := nmi.ok
            -- the line loop
            have inv3_0 : Inv3 m nm c.nextL c2 m.lines := by
              refine ⟨by rw [hnl2]; exact Nat.le_refl _, ?_, ?_⟩
              · intro e he p y hp; rw [(nmi.empty e he).2] at hp; simp at hp
              · intro e he p y hp; rw [(nmi.empty e he).1] at hp; simp at hp
            have n3 := foldO_inv (addImplLine m nm)
              (fun cc rest => Inv3 m nm c.nextL cc rest ∧ CopyInv (InL c i) (OutL c i) cc nm ∧ (∀ x ∈ rest, x ∈ m.lines) ∧ rest.Nodup ∧
                FFk m nm cc ∧ Done3 m nm cc rest)
              (fun s a rest s' hinv hf => by
                obtain ⟨a1, a2, a3, a4, a5, a6⟩ := hinv
                have hnd := List.nodup_cons.1 a4
                have hla := a3 a (by simp)
                have hff := addImplLine_ff3 wf ok hla a5 a6 hf
                exact ⟨addImplLine_inv3 wf ok hla hnd.1 a1 hf, addImplLine_inv a2 (gImplLine_of_inv3 wf ok hla a1) hf,
                  fun x hx => a3 x (by simp [hx]), hnd.2, hff.1, hff.2⟩)
              m.lines c2 c3 ⟨inv3_0, i2, fun x hx => hx, wf.lines_nodup, ff2.k, fun l hl hlr => absurd hl hlr⟩ h3
            obtain ⟨inv3, ci3, _, _, ff3, d3⟩ := n3
            -- the inputs
            have hinjI : ∀ p q y, pin (c.nobj i).ins p = some y → pin (c.nobj i).ins q = some y → p = q := by
              intro p q y a b
              have := (wfc0.insBack i hi p y a).2.2; have := (wfc0.insBack i hi q y b).2.2; omega
            have hinjO : ∀ p q y, pin (c.nobj i).outs p = some y → pin (c.nobj i).outs q = some y → p = q := by
              intro p q y a b
              have := (wfc0.outsBack i hi p y a).2.2; have := (wfc0.outsBack i hi q y b).2.2; omega
            have hinN : sh.inPorts.Nodup := by rw [hsp1]; exact hioN.sublist List.filter_sublist
            have inv4_0 : Inv4 c i m nm c.nextL c3 (sh.inPorts.zip (padTo (c.nobj i).ins sh.inPorts.length)) := by
              refine ⟨⟨ci3.s.congr_pred (fun l => zip_padTo_pend har'.1 l) (fun _ => Iff.rfl), ci3.nm⟩,
                zip_padTo_pendNodup har'.1 hinjI,
                fun l hl => noSelfLoop_disj wfc0 hi hloop l ((zip_padTo_pend har'.1 l).1 hl), ?_, zip_map_fst_nodup hinN, ?_, ?_, ?_⟩
              · intro l hl
                obtain ⟨p, hp⟩ := (zip_padTo_pend har'.1 l).1 hl
                exact (wfc0.lfresh l (wfc0.insBack i hi p l hp).1).1
              · intro pr hpr
                have := mem_zip_fst hpr
                rw [hsp1, List.mem_filter] at this
                exact ⟨this.1, by simpa using this.2⟩
              · intro e he p y hp
                obtain ⟨h0, l', h1, _, h3'⟩ := inv3.outs e he p y hp
                exact ⟨h0, l', h1, h3'⟩
              · intro e he p y hp
                obtain ⟨_, l', h1, _, h3'⟩ := inv3.ins e he p y hp
                exact Or.inl ⟨l', h1, h3'⟩
            have n4 := foldO_inv (connectIn m nm)
              (fun cc rest => Inv4 c i m nm c.nextL cc rest ∧ FFk m nm cc ∧ Done3 m nm cc [])
              (fun s a rest s' hinv hf => by
                obtain ⟨a1, a2, a3⟩ := hinv
                have hff := connectIn_ff4 a1 a2 a3 hf
                exact ⟨connectIn_inv4 a1 (gConnectIn_of_inv4 wf ok nmi.keyCond a1) hf, hff.1, hff.2⟩)
              _ c3 c4 ⟨inv4_0, ff3, d3⟩ h4
            obtain ⟨inv4, ff4, d34⟩ := n4
            -- the outputs
            have houtN : sh.outLines.Nodup := by
              rw [hsp2, List.filterMap_map]
              apply nodup_filterMap_of_inj _ _ (hioN.sublist List.filter_sublist)
              intro a ha b hb y h1 h2'
              simp only [Function.comp, id] at h1 h2'
              have ha' := (List.mem_filter.1 ha).1
              have hb' := (List.mem_filter.1 hb).1
              have r1 := (wf.insBack a (wf.ioIn a ha') 0 y h1).2.1
              have r2 := (wf.insBack b (wf.ioIn b hb') 0 y h2').2.1
              rw [r1] at r2; exact Option.some.inj r2
            have houtl : ∀ pr ∈ sh.outLines.zip (padTo (c.nobj i).outs sh.outLines.length), OutLine m pr.1 := by
              intro pr hpr
              have := mem_zip_fst hpr
              rw [hsp2] at this
              simp only [List.mem_filterMap, List.mem_map, List.mem_filter, id] at this
              obtain ⟨a, ⟨O, ⟨hO, hOl⟩, hOa⟩, ha⟩ := this
              subst ha
              exact ⟨O, hO, by simpa using hOl, hOa⟩
            have inv5_0 : Inv5 m nm (sh.outLines.zip (padTo (c.nobj i).outs sh.outLines.length)) (c4, [])
                (sh.outLines.zip (padTo (c.nobj i).outs sh.outLines.length)) := by
              refine ⟨⟨inv4.ci.s.congr_pred (fun _ => Iff.rfl) (fun l => zip_padTo_pend har'.2 l), inv4.ci.nm,
                fun n hn => by simp at hn⟩, zip_padTo_pendNodup har'.2 hinjO, zip_map_fst_nodup houtN, houtl, fun _ h => h, ?_⟩
              intro e he p y hp
              obtain ⟨_, l', h1, h3'⟩ := inv4.outs e he p y hp
              exact Or.inl ⟨l', h1, h3'⟩
            have n5 := foldO_inv (connectOut m nm)
              (fun st rest => Inv5 m nm (sh.outLines.zip (padTo (c.nobj i).outs sh.outLines.length)) st rest ∧ FFk m nm st.1 ∧
                Done3 m nm st.1 [] ∧ Done5o m nm (sh.outLines.zip (padTo (c.nobj i).outs sh.outLines.length)) st.1 rest)
              (fun s a rest s' hinv hf => by
                obtain ⟨a1, a2, a3, a4⟩ := hinv
                have hff := connectOut_ff5o (zip_map_fst_nodup houtN) (a1.sub a (by simp)) a2 a3 a4 hf
                exact ⟨connectOut_inv5 a1 (gConnectOut_of_inv5 wf ok nmi.keyCond a1) hf, hff.1, hff.2.1, hff.2.2⟩)
              _ (c4, []) (c5, dang)
              ⟨inv5_0, ff4, d34, fun l ll hl hlr => absurd (List.mem_map.2 ⟨(l, some ll), hl, rfl⟩) hlr⟩ h5
            obtain ⟨inv5, ff5, d35, d5⟩ := n5
            simp only at ff5 d35 d5
            -- the state before the removal of the dangling logic is well formed and gap-free
            have wf5 : WFc0 c5 := inv5.oi.s.to_wfc0 (fun l _ => pend_nil l) (fun l _ => pend_nil l)
            have inv5' : Inv5 m nm (sh.outLines.zip (padTo (c.nobj i).outs sh.outLines.length)) (c5, []) [] :=
              ⟨⟨inv5.oi.s, inv5.oi.nm, fun n hn => by simp at hn⟩, inv5.nd, inv5.keysNd, inv5.lines5, inv5.sub, inv5.outs⟩
            have F : Final c i m sh nm c5 := ⟨wf, ok, ff2.keysC, nmi.keyCond, inv5', d35, d5, fun l ll hl => houtl _ hl⟩
            have ff5' : FFull c5 := ffull_final_open F hs hopen ff5
            exact dangling_ffull dang c5 c' wf5 ff5' (fun n hn => Or.inl (inv5.oi.dang n hn)) h

/-- `substitute` under the structural preconditions `substStatic` and `substOpenOK`: the result satisfies `WFc` -/
theorem substituteObj_wf_open {c c' : Circ} {i : Nat} {m : Circ} (wfc : WFc c) (hst : substStatic c i m = true)
    (hopen : substOpenOK c i m = true) (h : substituteObj c i m = some c') : WFc c' :=
  ⟨substituteObj_wf0 wfc.toWFc0 (substPre0_of_static wfc.toWFc0 hst) h, substituteObj_ffull_open wfc hst hopen h⟩

theorem substPre_of_static_open {c : Circ} {i : Nat} {m : Circ} (wfc : WFc c) (hst : substStatic c i m = true)
    (hopen : substOpenOK c i m = true) : substPre c i m = true := by
  unfold substPre
  rw [substPre0_of_static wfc.toWFc0 hst, Bool.true_and]
  cases h : substituteObj c i m with
  | none => rfl
  | some c' => exact ffull_forksFull (substituteObj_ffull_open wfc hst hopen h)

/-! ## `resolve_tlib_cells` -/
theorem foldG_mono {σ α : Type} (f : σ → α → Option σ) (g g' : σ → α → Bool) (Inv : σ → Prop)
    (himp : ∀ s a, Inv s → g s a = true → g' s a = true) (step : ∀ s a s', Inv s → g s a = true → f s a = some s' → Inv s') :
    ∀ (as : List α) (s : σ), Inv s → foldG f g s as = true → foldG f g' s as = true := by
  intro as
  induction as with
  | nil => intro _ _ _; rfl
  | cons a rest ih =>
    intro s hs h
    simp only [foldG, Bool.and_eq_true] at h ⊢
    refine ⟨himp s a hs h.1, ?_⟩
    cases hf : f s a with
    | none => rfl
    | some s1 =>
      simp only [hf] at h
      exact ih s1 (step s a s1 hs h.1 hf) h.2

theorem resolvePre_of_static {lib : Lib} {c : Circ} (wf : WFc c) (h : resolveStatic lib c = true) : resolvePre lib c = true := by
  unfold resolveStatic at h
  unfold resolvePre
  refine foldG_mono (resolveStep lib) _ _ (fun cc => WFc cc) ?_ ?_ c.nodes c wf h
  · intro s a hs hg
    cases hl : lib.find (s.nobj a).kind with
    | none => rfl
    | some mm =>
      simp only [hl, Bool.and_eq_true, Bool.or_eq_true] at hg ⊢
      rcases hg.2 with h2 | h2
      · exact substPre_of_static hs hg.1 h2
      · exact substPre_of_static_open hs hg.1 h2
  · intro s a s' hs hg hf
    unfold resolveStep at hf
    cases hl : lib.find (s.nobj a).kind with
    | none => simp only [hl, Option.some.injEq] at hf; exact hf ▸ hs
    | some mm =>
      simp only [hl, Bool.and_eq_true, Bool.or_eq_true] at hf hg
      rcases hg.2 with h2 | h2
      · exact substituteObj_wf_static hs hg.1 h2 hf
      · exact substituteObj_wf_open hs hg.1 h2 hf

end KV.CircObj
