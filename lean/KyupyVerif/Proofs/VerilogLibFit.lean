import KyupyVerif.Model.VerilogLibFit
/-! Inside `tlFitsB` the index reading of library pins (`VModelLib`) is the reading BY NAME (`VModelLibN`):
`vModelLib_iff_byName` (audit-2 finding 8, B-C11-2). -/
namespace KV.Netlist
open KV KV.Transform KV.TL KV.DS

/-- the three clauses of `tlFitsRowB` as propositions -/
structure TlFits (tl : TL) (cr : Cell) (i : VInst) : Prop where
  hin : ∀ k, k < cr.inNames.length → tl i.ty (String.ofList (cr.inNames.getD k [])) = some (k, false)
  hout : ∀ k, k < cr.outNames.length → tl i.ty (String.ofList (cr.outNames.getD k [])) = some (k, true)
  hpin : ∀ ps ∈ i.pins, ps.1.toList ∈ cr.inNames ++ cr.outNames

theorem tlFits_of {tl : TL} {cr : Cell} {i : VInst} (h : tlFitsRowB tl cr i = true) : TlFits tl cr i := by
  simp only [tlFitsRowB, Bool.and_eq_true, List.all_eq_true, List.mem_range, beq_iff_eq, List.contains_iff_mem] at h
  exact ⟨h.1.1, h.1.2, h.2⟩

theorem mem_getD {α} {l : List α} {x d : α} (h : x ∈ l) : ∃ j, j < l.length ∧ l.getD j d = x := by
  obtain ⟨j, hj, rfl⟩ := List.getElem_of_mem h
  exact ⟨j, hj, by simp [List.getD_eq_getElem?_getD, hj]⟩

/-- a connected pin is input pin `k` of the table iff it is NAMED like the `k`-th input of the row -/
theorem TlFits.in_iff {tl : TL} {cr : Cell} {i : VInst} (h : TlFits tl cr i) {p : String}
    (hp : p.toList ∈ cr.inNames ++ cr.outNames) {k : Nat} (hk : k < cr.inNames.length) :
    tl i.ty p = some (k, false) ↔ p = String.ofList (cr.inNames.getD k []) := by
  constructor
  · intro ht
    rcases List.mem_append.mp hp with hm | hm
    · obtain ⟨j, hj, he⟩ := mem_getD (d := []) hm
      have h1 := h.hin j hj
      rw [he, String.ofList_toList, ht] at h1
      have : k = j := by simpa using h1
      subst this
      rw [he, String.ofList_toList]
    · obtain ⟨j, hj, he⟩ := mem_getD (d := []) hm
      have h1 := h.hout j hj
      rw [he, String.ofList_toList, ht] at h1
      simp at h1
  · intro he
    rw [he]
    exact h.hin k hk

/-- a connected pin is output pin `k` of the table iff it is NAMED like the `k`-th output of the row -/
theorem TlFits.out_iff {tl : TL} {cr : Cell} {i : VInst} (h : TlFits tl cr i) {p : String}
    (hp : p.toList ∈ cr.inNames ++ cr.outNames) {k : Nat} :
    tl i.ty p = some (k, true) ↔ cr.outNames[k]? = some p.toList := by
  constructor
  · intro ht
    rcases List.mem_append.mp hp with hm | hm
    · obtain ⟨j, hj, he⟩ := mem_getD (d := []) hm
      have h1 := h.hin j hj
      rw [he, String.ofList_toList, ht] at h1
      simp at h1
    · obtain ⟨j, hj, he⟩ := mem_getD (d := []) hm
      have h1 := h.hout j hj
      rw [he, String.ofList_toList, ht] at h1
      have : k = j := by simpa using h1
      subst this
      rw [← he, List.getD_eq_getElem?_getD, List.getElem?_eq_getElem hj]
      rfl
  · intro he
    obtain ⟨hk, hg⟩ := List.getElem?_eq_some_iff.mp he
    have h1 := h.hout k hk
    rw [List.getD_eq_getElem?_getD, he] at h1
    simpa [String.ofList_toList] using h1

/-- the signal on input pin INDEX `k` is the signal on the pin NAMED like the `k`-th input of the row (list level) -/
theorem find_in_eq {tl : TL} {ty : String} {pk : String} {k : Nat} :
    ∀ (pins : List (String × SelVal)), (∀ ps ∈ pins, (tl ty ps.1 = some (k, false) ↔ ps.1 = pk)) →
      (((pins.filterMap (p2In tl ty)).find? fun c => c.2.1 == k).map (·.2.2)) =
        pins.findSome? fun ps => if ps.1 == pk then (match ps.2 with | .one s => some s | .many _ => none) else none
  | [], _ => rfl
  | ps :: r, h => by
    have ih := find_in_eq r (fun q hq => h q (List.mem_cons_of_mem _ hq))
    have hps := h ps (List.mem_cons_self ..)
    rw [List.filterMap_cons, List.findSome?_cons]
    by_cases hn : ps.1 = pk
    · have ht := hps.mpr hn
      cases hv : ps.2 with
      | one s =>
        have : p2In tl ty ps = some (ps.1, k, s) := by simp only [p2In, ht, hv]
        simp [this, hn]
      | many l =>
        have : p2In tl ty ps = none := by simp only [p2In, ht, hv]
        simp only [this, hn, beq_self_eq_true, if_true]
        exact ih
    · have hne : (ps.1 == pk) = false := by simpa using hn
      simp only [hne, Bool.false_eq_true, if_false]
      cases hp : p2In tl ty ps with
      | none => exact ih
      | some c =>
        have hc : (c.2.1 == k) = false := by
          unfold p2In at hp
          split at hp
          · next idx s ht hv =>
            cases hp
            have : ¬ idx = k := fun e => hn (hps.mp (by rw [ht, e]))
            simpa using this
          · cases hp
        simp only [List.find?_cons, hc]
        exact ih

theorem TlFits.inSig_eq {tl : TL} {cr : Cell} {i : VInst} (h : TlFits tl cr i) {k : Nat} (hk : k < cr.inNames.length) :
    inSig tl i k = pinSigN i (String.ofList (cr.inNames.getD k [])) :=
  find_in_eq i.pins fun ps hps => h.in_iff (h.hpin ps hps) hk

theorem TlFits.inVals_eq {tl : TL} {cr : Cell} {i : VInst} (h : TlFits tl cr i) (σ : String → Bool) :
    libInVals tl σ i cr.inNames.length = libInValsN cr σ i := by
  apply List.ext_getElem
  · simp [libInVals, libInValsN]
  · intro k h1 h2
    have hk : k < cr.inNames.length := by simpa [libInVals] using h1
    simp only [libInVals, libInValsN, List.getElem_map, List.getElem_range]
    rw [h.inSig_eq hk, List.getD_eq_getElem?_getD, List.getElem?_eq_getElem hk]
    rfl

/-- the output clause: by index over `outConn` ⇔ by name over the connection list -/
theorem TlFits.outs_iff {tl : TL} {cr : Cell} {i : VInst} (h : TlFits tl cr i) (ds : List Decl) (σ : String → Bool)
    (fs : List (List Bool → Bool)) (x : List Bool) :
    (∀ o ∈ outConn tl ds i, ∀ f, fs[o.1]? = some f → σ o.2 = f x) ↔
    (∀ ps ∈ i.pins, ∀ k : Nat, cr.outNames[k]? = some ps.1.toList → ∀ s, ps.2 = .one s → ∀ f : List Bool → Bool, fs[k]? = some f →
      σ (outSig ds s).1 = f x) := by
  constructor
  · intro H ps hps k hk s hs f hf
    have ht := (h.out_iff (h.hpin ps hps)).mpr hk
    have : (k, (outSig ds s).1) ∈ outConn tl ds i := by
      simp only [outConn, List.mem_filterMap]
      exact ⟨ps, hps, by simp only [p1Out, ht, hs]⟩
    exact H _ this f hf
  · intro H o ho f hf
    simp only [outConn, List.mem_filterMap] at ho
    obtain ⟨ps, hps, hp⟩ := ho
    unfold p1Out at hp
    split at hp
    · next idx s ht hv =>
      cases hp
      exact H ps hps idx ((h.out_iff (h.hpin ps hps)).mp ht) s hv f hf
    · cases hp

/-- **inside `tlFitsB` the index reading of library pins is the reading by NAME** -/
theorem vModelLib_iff_byName (isLib : String → Bool) (row : String → Cell) (tl : TL) (ports : List String) (stmts : List Stmt)
    (hfit : tlFitsB isLib row tl stmts = true) (a : Nat → Bool) (σ : String → Bool) :
    VModelLib isLib row tl ports stmts a σ ↔ VModelLibN isLib row tl ports stmts a σ := by
  have hf : ∀ i ∈ vInsts stmts, isLib i.ty = true → TlFits tl (row i.ty) i := by
    intro i hi hl
    simp only [tlFitsB, List.all_eq_true] at hfit
    have := hfit i hi
    rw [hl] at this
    exact tlFits_of (by simpa using this)
  unfold VModelLib VModelLibN
  refine and_congr Iff.rfl ?_
  constructor
  · intro H i hi hl
    obtain ⟨fs, hfs, ho⟩ := H i hi hl
    refine ⟨fs, hfs, ?_⟩
    rw [(hf i hi hl).inVals_eq σ] at ho
    exact ((hf i hi hl).outs_iff _ σ fs _).mp ho
  · intro H i hi hl
    obtain ⟨fs, hfs, ho⟩ := H i hi hl
    refine ⟨fs, hfs, ?_⟩
    rw [(hf i hi hl).inVals_eq σ]
    exact ((hf i hi hl).outs_iff _ σ fs _).mpr ho

end KV.Netlist
