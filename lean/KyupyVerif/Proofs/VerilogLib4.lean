import KyupyVerif.Proofs.VerilogLib3
import KyupyVerif.Props.C10Datasheet
/-! Capstone C11 ∘ C10 ∘ C19, part 4: composition with `C10.resolve_sem` / `C10.resolve_datasheet_sem` — the consistent
labellings of the RESOLVED circuit (`resolveCells lib (verilogNNet …)`) versus the environments of the module in which every
library instance has (b) the relational meaning of its implementation, (c) its datasheet function. -/
namespace KV.Transform
open KV

/-- `ImplMatches` looks at the host labelling only on the lines of the host -/
theorem implMatches_congr {α : Type _} (h : NNet) (hw : WFm h) (c : Nat) (m : NNet) (sh : Shape) (z : α) (neg : α → α)
    (prim : String → α → α → α → α → α) (anm vm v v' : Nat → α) (hv : ∀ l, l < h.net.lines.size → v l = v' l)
    (hm : ImplMatches h c m sh z neg prim anm vm v) : ImplMatches h c m sh z neg prim anm vm v' := by
  have hlt : ∀ k ll, (instIn h c k = some ll ∨ instOut h c k = some ll) → ll < h.net.lines.size := by
    intro k ll hor
    by_cases hc : c < h.net.nodes.size
    · rcases hor with hh | hh
      · exact (hw.fwdIn c hc k ll hh).1
      · exact (hw.fwdOut c hc k ll hh).1
    · exfalso
      have hd1 : (h.net.node c).ins = [] := by
        unfold Net.node
        rw [Array.getD_eq_getD_getElem?, Array.getElem?_eq_none (by omega)]; rfl
      have hd2 : (h.net.node c).outs = [] := by
        unfold Net.node
        rw [Array.getD_eq_getD_getElem?, Array.getElem?_eq_none (by omega)]; rfl
      rcases hor with hh | hh
      · unfold instIn at hh; rw [hd1] at hh; simp at hh
      · unfold instOut at hh; rw [hd2] at hh; simp at hh
  obtain ⟨h1, h2, h3⟩ := hm
  refine ⟨h1, fun p hp => ?_, fun k il ll hil hll => ?_⟩
  · rw [h2 p hp]
    unfold portVal
    cases hi : instIn h c (sh.inPorts.idxOf p) with
    | none => rfl
    | some ll => exact hv ll (hlt _ ll (Or.inl hi))
  · rw [h3 k il ll hil hll]
    exact hv ll (hlt _ ll (Or.inr hll))

end KV.Transform

namespace KV.Netlist
open KV KV.Transform KV.TL KV.DS

universe u
variable {cfg : Cfg} {tl : TL} {ports : List String} {stmts : List Stmt}

/-- every library-cell node of the parsed net is the node of a library instance -/
theorem libHole_is_inst (hok : VOK cfg tl ports stmts) (lib : Lib) (hcl : LibClean lib stmts) (c : Nat)
    (hc : libHole lib (verilogNNet cfg tl ports stmts) c) :
    ∃ i ∈ vInsts stmts, isLibInst lib i ∧ c = (module cfg tl ports stmts).nodeIdx (.cell i.name 0) := by
  obtain ⟨hlt, hk⟩ := hc
  have hlt' : c < (module cfg tl ports stmts).nodes.length := by
    have : c < (verilogNet cfg tl ports stmts).nodes.size := hlt
    unfold verilogNet at this; rwa [toNet_nodes_size] at this
  have hkind : ((verilogNNet cfg tl ports stmts).net.node c).kind = ((module cfg tl ports stmts).nodes[c]).kind :=
    toNet_node_kind _ _ c hlt'
  rw [hkind] at hk
  by_cases hf : ((module cfg tl ports stmts).nodes[c]).kind = forkKind
  · rw [hf, hcl.fork] at hk; cases hk
  · have hmem : (module cfg tl ports stmts).nodes[c] ∈ cellsOf (module cfg tl ports stmts) := by
      unfold cellsOf
      exact List.mem_filter.mpr ⟨List.getElem_mem _, by simp [hf]⟩
    have hidx := nodeIdx_cell_unique _ (module_cells_nodup hok) c _ (List.getElem?_eq_getElem hlt') hf 0
    rw [module_cells hok] at hmem
    simp only [List.mem_append, List.mem_map, List.mem_flatMap] at hmem
    rcases hmem with (⟨i, hi, hx⟩ | ⟨d, hd, hx⟩) | hx
    · refine ⟨i, hi, ?_, ?_⟩
      · unfold isLibInst; rw [← hx] at hk; exact hk
      · rw [← hidx, ← hx]; rfl
    · exfalso
      unfold portCells at hx
      split at hx
      · cases hx
      · obtain ⟨n, _, hn⟩ := List.mem_map.mp hx
        rw [← hn] at hk
        simp only at hk
        cases hdk : d.kind with
        | input => rw [hdk] at hk; simp only [DKind.str] at hk; rw [hcl.input] at hk; cases hk
        | output => rw [hdk] at hk; simp only [DKind.str] at hk; rw [hcl.output] at hk; cases hk
        | wire => rename_i hw _; rw [hdk] at hw; simp at hw
    · exfalso
      obtain ⟨s, hs, hks⟩ := constCells_kind _ _ _ _ _ hx
      rw [hks] at hk
      rcases constKind_cases s hs with h | h <;> rw [h] at hk
      · rw [hcl.c0] at hk; cases hk
      · rw [hcl.c1] at hk; cases hk

/-- the relational meaning of every library instance under the labelling of `σ` -/
def LibRel {α : Type u} (cfg : Cfg) (tl : TL) (ports : List String) (stmts : List Stmt) (lib : Lib) (z : α) (neg : α → α)
    (prim : String → α → α → α → α → α) (σ : String → α) : Prop :=
  ∀ i ∈ vInsts stmts, isLibInst lib i → ∃ impl sh anm vm, lib.find i.ty = some impl ∧ implShape impl = some sh ∧
    ImplMatches (verilogNNet cfg tl ports stmts) ((module cfg tl ports stmts).nodeIdx (.cell i.name 0)) impl sh z neg prim anm vm
      (vLabel cfg tl stmts z prim σ)

theorem inst_node_kind (hok : VOK cfg tl ports stmts) (i : VInst) (hi : i ∈ vInsts stmts) :
    ((verilogNNet cfg tl ports stmts).net.node ((module cfg tl ports stmts).nodeIdx (.cell i.name 0))).kind = i.ty := by
  rw [verilogNNet_net, verilogNet_kind _ (v_resolved_inst hok i hi 0), v_kindOf_inst hok i hi]

/-- **(b) resolved labellings ↔ module environments with relational cell meanings** (composition of the hole-set
`verilog_parsed_sem` with `C10.resolve_sem`) -/
theorem verilog_resolved_rel {α : Type u} (hok : VOK cfg tl ports stmts) (lib : Lib) (hcl : LibClean lib stmts) (h' : NNet)
    (hw : (verilogNNet cfg tl ports stmts).wf = true)
    (hrok : resolveOKB lib (verilogNNet cfg tl ports stmts).keys (verilogNNet cfg tl ports stmts) = true)
    (he : resolveCells lib (verilogNNet cfg tl ports stmts) = some h') (z : α) (neg : α → α) (prim : String → α → α → α → α → α) :
    h'.wf = true ∧ h'.net.io = (verilogNet cfg tl ports stmts).io ∧
    (verilogNet cfg tl ports stmts).lines.size ≤ h'.net.lines.size ∧
    (∀ d, d < (verilogNet cfg tl ports stmts).nodes.size → (lib.find ((verilogNet cfg tl ports stmts).node d).kind).isSome = false →
      h'.net.node d = (verilogNet cfg tl ports stmts).node d) ∧
    (∀ an' v' : Nat → α, ConsOff h' (fun _ => False) z neg prim an' v' →
      ∃ σ, VModelOff (isLibInst lib) tl ports stmts z neg prim (fun p => an' ((verilogNet cfg tl ports stmts).sNodes.getD p 0)) σ ∧
        (∀ l, l < (verilogNet cfg tl ports stmts).lines.size → v' l = vLabel cfg tl stmts z prim σ l) ∧
        LibRel cfg tl ports stmts lib z neg prim σ) ∧
    (∀ (a : Nat → α) (σ : String → α), VModelOff (isLibInst lib) tl ports stmts z neg prim a σ →
      LibRel cfg tl ports stmts lib z neg prim σ →
      ∃ an' v', ConsOff h' (fun _ => False) z neg prim an' v' ∧
        (∀ l, l < (verilogNet cfg tl ports stmts).lines.size → v' l = vLabel cfg tl stmts z prim σ l) ∧
        (∀ d, d < (verilogNet cfg tl ports stmts).nodes.size → (lib.find ((verilogNet cfg tl ports stmts).node d).kind).isSome = false →
          an' d = a ((verilogNet cfg tl ports stmts).sNodes.idxOf d))) := by
  have hW := WF.of_wf hw
  obtain ⟨r1, r2, _, r4, r5, _, fw, bw⟩ := C10.resolve_sem lib (verilogNNet cfg tl ports stmts) h' hw hrok he z neg prim
  refine ⟨r1, r2, r4, r5, ?_, ?_⟩
  · intro an' v' hc
    obtain ⟨g1, g2⟩ := fw an' v' hc
    obtain ⟨σ, hm, hl⟩ := verilog_consOff_model hok lib hcl z neg prim an' v' g1
    refine ⟨σ, hm, hl, ?_⟩
    intro i hi hlib
    have hres := v_resolved_inst hok i hi 0
    have hsz : (module cfg tl ports stmts).nodeIdx (.cell i.name 0) < (verilogNNet cfg tl ports stmts).net.nodes.size := by
      show _ < (verilogNet cfg tl ports stmts).nodes.size
      unfold verilogNet; rw [toNet_nodes_size]; exact hres
    obtain ⟨impl, sh, anm, vm, hf, hs, hmm⟩ := g2 _ hsz (by rw [inst_node_kind hok i hi]; exact hlib)
    rw [inst_node_kind hok i hi] at hf
    exact ⟨impl, sh, anm, vm, hf, hs, implMatches_congr _ hW.toWFm _ _ _ z neg prim anm vm v' _ hl hmm⟩
  · intro a σ hm hrel
    have hc := verilog_model_consOff (cfg := cfg) hok lib z neg prim a σ hm
    obtain ⟨an', v', c1, c2, c3⟩ := bw _ _ hc (by
      intro c hc1 hc2
      obtain ⟨i, hi, hlib, rfl⟩ := libHole_is_inst hok lib hcl c ⟨hc1, hc2⟩
      obtain ⟨impl, sh, anm, vm, hf, hs, hmm⟩ := hrel i hi hlib
      exact ⟨impl, sh, anm, vm, by rw [inst_node_kind hok i hi]; exact hf, hs, hmm⟩)
    exact ⟨an', v', c1, c2, c3⟩

/-- **(b') the same through substitutions that REMOVE lines, instances and dangling logic** (composition with
`C10.resolve_sem_general`: every library of the built-in kind — ignored input pins, implementations without designated cell,
unconnected outputs): along the index maps `ρ` from the result to the parsed circuit -/
theorem verilog_resolved_rel_general {α : Type u} (hok : VOK cfg tl ports stmts) (lib : Lib) (hcl : LibClean lib stmts) (h' : NNet)
    (hw : (verilogNNet cfg tl ports stmts).wfNoTrail = true)
    (hrok : resolveGenOKB lib (verilogNNet cfg tl ports stmts).keys (verilogNNet cfg tl ports stmts) = true)
    (he : resolveCells lib (verilogNNet cfg tl ports stmts) = some h') (z : α) (neg : α → α) (prim : String → α → α → α → α → α) :
    h'.wfNoTrail = true ∧ ∃ ρ : Ren, h'.net.io.map ρ.node = (verilogNet cfg tl ports stmts).io ∧
    (∀ an' v' : Nat → α, ConsOff h' (fun _ => False) z neg prim an' v' →
      ∃ (an : Nat → α) (σ : String → α),
        VModelOff (isLibInst lib) tl ports stmts z neg prim (fun p => an ((verilogNet cfg tl ports stmts).sNodes.getD p 0)) σ ∧
        LibRel cfg tl ports stmts lib z neg prim σ ∧
        (∀ l', l' < h'.net.lines.size → ρ.line l' < (verilogNet cfg tl ports stmts).lines.size →
          v' l' = vLabel cfg tl stmts z prim σ (ρ.line l')) ∧
        (∀ j, j < h'.net.nodes.size → ρ.node j < (verilogNet cfg tl ports stmts).nodes.size → an (ρ.node j) = an' j)) ∧
    (∀ (a : Nat → α) (σ : String → α), VModelOff (isLibInst lib) tl ports stmts z neg prim a σ →
      LibRel cfg tl ports stmts lib z neg prim σ →
      ∃ an' v', ConsOff h' (fun _ => False) z neg prim an' v' ∧
        (∀ l', l' < h'.net.lines.size → ρ.line l' < (verilogNet cfg tl ports stmts).lines.size →
          v' l' = vLabel cfg tl stmts z prim σ (ρ.line l')) ∧
        (∀ j, j < h'.net.nodes.size → ρ.node j < (verilogNet cfg tl ports stmts).nodes.size →
          an' j = a ((verilogNet cfg tl ports stmts).sNodes.idxOf (ρ.node j)))) := by
  have hW := WFm.of_wfNoTrail hw
  obtain ⟨r1, ρ, r2, _, _, _, fw, bw⟩ := C10.resolve_sem_general lib (verilogNNet cfg tl ports stmts) h' hw hrok he z neg prim
  refine ⟨r1, ρ, r2, ?_, ?_⟩
  · intro an' v' hc
    obtain ⟨an, v, g1, g2, g3, g4⟩ := fw an' v' hc
    obtain ⟨σ, hm, hl⟩ := verilog_consOff_model hok lib hcl z neg prim an v g1
    refine ⟨an, σ, hm, ?_, fun l' h1 h2 => by rw [← g3 l' h1 h2]; exact hl _ h2, g4⟩
    intro i hi hlib
    have hres := v_resolved_inst hok i hi 0
    have hsz : (module cfg tl ports stmts).nodeIdx (.cell i.name 0) < (verilogNNet cfg tl ports stmts).net.nodes.size := by
      show _ < (verilogNet cfg tl ports stmts).nodes.size
      unfold verilogNet; rw [toNet_nodes_size]; exact hres
    obtain ⟨impl, sh, anm, vm, hf, hs, hmm⟩ := g2 _ hsz (by rw [inst_node_kind hok i hi]; exact hlib)
    rw [inst_node_kind hok i hi] at hf
    exact ⟨impl, sh, anm, vm, hf, hs, implMatches_congr _ hW _ _ _ z neg prim anm vm v _ hl hmm⟩
  · intro a σ hm hrel
    have hc := verilog_model_consOff (cfg := cfg) hok lib z neg prim a σ hm
    obtain ⟨an', v', c1, c2, c3⟩ := bw _ _ hc (by
      intro c hc1 hc2
      obtain ⟨i, hi, hlib, rfl⟩ := libHole_is_inst hok lib hcl c ⟨hc1, hc2⟩
      obtain ⟨impl, sh, anm, vm, hf, hs, hmm⟩ := hrel i hi hlib
      exact ⟨impl, sh, anm, vm, by rw [inst_node_kind hok i hi]; exact hf, hs, hmm⟩)
    exact ⟨an', v', c1, c2, c3⟩

/-! ## (c) the datasheet step -/

/-- a certified instance has as many input pins as its table row has inputs -/
theorem cert_ins_length {lib : Lib} {row : String → Cell} {ord : String → List Nat} {h : NNet} {c : Nat}
    (cert : InstCert lib row ord h c) : (h.net.node c).ins.length = (row (h.net.node c).kind).inNames.length := by
  obtain ⟨impl, sh, _, hsh, _, _, _, _, hdesc, hfit, _⟩ := cert
  have hd := describes_of hsh hdesc
  simp only [pinsFitB, Bool.and_eq_true, beq_iff_eq] at hfit
  rw [hfit.1, hd.nIn]

/-- every library instance carries its datasheet function under `σ` -/
def LibDS (tl : TL) (stmts : List Stmt) (lib : Lib) (row : String → Cell) (σ : String → Bool) : Prop :=
  ∀ i ∈ vInsts stmts, libHas lib i.ty = true → ∃ fs, cellFuns row i.ty = some fs ∧
    ∀ o ∈ outConn tl (sigDecls stmts) i, ∀ f, fs[o.1]? = some f → σ o.2 = f (libInVals tl σ i (row i.ty).inNames.length)

/-- for certified instances: relational meaning of the implementations ⇔ datasheet functions -/
theorem libRel_iff_libDS (hok : VOK cfg tl ports stmts) (lib : Lib) (hw : WF (verilogNNet cfg tl ports stmts))
    (row : String → Cell) (ord : String → List Nat)
    (hcert : ∀ c, c < (verilogNNet cfg tl ports stmts).net.nodes.size →
      (lib.find ((verilogNNet cfg tl ports stmts).net.node c).kind).isSome = true → InstCert lib row ord (verilogNNet cfg tl ports stmts) c)
    (σ : String → Bool) :
    LibRel cfg tl ports stmts lib false (!·) prim2 σ ↔ LibDS tl stmts lib row σ := by
  have key : ∀ i ∈ vInsts stmts, isLibInst lib i →
      ((∃ impl sh anm vm, lib.find i.ty = some impl ∧ implShape impl = some sh ∧
        ImplMatches (verilogNNet cfg tl ports stmts) ((module cfg tl ports stmts).nodeIdx (.cell i.name 0)) impl sh false (!·) prim2
          anm vm (vLabel cfg tl stmts false prim2 σ)) ↔
       ∃ fs, cellFuns row i.ty = some fs ∧ ∀ o ∈ outConn tl (sigDecls stmts) i, ∀ f, fs[o.1]? = some f →
         σ o.2 = f (libInVals tl σ i (row i.ty).inNames.length)) := by
    intro i hi hlib
    have hres := v_resolved_inst hok i hi 0
    have hsz : (module cfg tl ports stmts).nodeIdx (.cell i.name 0) < (verilogNNet cfg tl ports stmts).net.nodes.size := by
      show _ < (verilogNet cfg tl ports stmts).nodes.size
      unfold verilogNet; rw [toNet_nodes_size]; exact hres
    have hk := inst_node_kind hok i hi
    have cert := hcert _ hsz (by rw [hk]; exact hlib)
    have hn := cert_ins_length cert
    rw [hk] at hn
    have h1 := cell_datasheet_iff cert (vLabel cfg tl stmts false prim2 σ)
    rw [hk] at h1
    rw [h1]
    exact cellDatasheet_iff_module hok hw row i hi σ _ (fun _ _ => rfl) hn
  constructor
  · intro h i hi hlib
    exact (key i hi hlib).mp (h i hi hlib)
  · intro h i hi hlib
    exact (key i hi hlib).mpr (h i hi hlib)

theorem vModelLib_iff (lib : Lib) (row : String → Cell) (a : Nat → Bool) (σ : String → Bool) :
    VModelLib (libHas lib) row tl ports stmts a σ ↔
      VModelOff (isLibInst lib) tl ports stmts false (!·) prim2 a σ ∧ LibDS tl stmts lib row σ := Iff.rfl

/-- **(c) resolved labellings ↔ datasheet models of the module** -/
theorem verilog_resolved_datasheet (hok : VOK cfg tl ports stmts) (lib : Lib) (hcl : LibClean lib stmts) (h' : NNet)
    (hw : (verilogNNet cfg tl ports stmts).wf = true)
    (hrok : resolveOKB lib (verilogNNet cfg tl ports stmts).keys (verilogNNet cfg tl ports stmts) = true)
    (he : resolveCells lib (verilogNNet cfg tl ports stmts) = some h') (row : String → Cell) (ord : String → List Nat)
    (hcert : ∀ c, c < (verilogNNet cfg tl ports stmts).net.nodes.size →
      (lib.find ((verilogNNet cfg tl ports stmts).net.node c).kind).isSome = true → InstCert lib row ord (verilogNNet cfg tl ports stmts) c) :
    h'.wf = true ∧ h'.net.io = (verilogNet cfg tl ports stmts).io ∧
    (verilogNet cfg tl ports stmts).lines.size ≤ h'.net.lines.size ∧
    (∀ d, d < (verilogNet cfg tl ports stmts).nodes.size → (lib.find ((verilogNet cfg tl ports stmts).node d).kind).isSome = false →
      h'.net.node d = (verilogNet cfg tl ports stmts).node d) ∧
    (∀ an' v' : Nat → Bool, ConsOff h' (fun _ => False) false (!·) prim2 an' v' →
      ∃ σ, VModelLib (libHas lib) row tl ports stmts (fun p => an' ((verilogNet cfg tl ports stmts).sNodes.getD p 0)) σ ∧
        (∀ l, l < (verilogNet cfg tl ports stmts).lines.size → v' l = vLabel cfg tl stmts false prim2 σ l)) ∧
    (∀ (a : Nat → Bool) (σ : String → Bool), VModelLib (libHas lib) row tl ports stmts a σ →
      ∃ an' v', ConsOff h' (fun _ => False) false (!·) prim2 an' v' ∧
        (∀ l, l < (verilogNet cfg tl ports stmts).lines.size → v' l = vLabel cfg tl stmts false prim2 σ l) ∧
        (∀ d, d < (verilogNet cfg tl ports stmts).nodes.size → (lib.find ((verilogNet cfg tl ports stmts).node d).kind).isSome = false →
          an' d = a ((verilogNet cfg tl ports stmts).sNodes.idxOf d))) := by
  have hW := WF.of_wf hw
  obtain ⟨r1, r2, r3, r4, fw, bw⟩ := verilog_resolved_rel hok lib hcl h' hw hrok he false (!·) prim2
  refine ⟨r1, r2, r3, r4, ?_, ?_⟩
  · intro an' v' hc
    obtain ⟨σ, hm, hl, hrel⟩ := fw an' v' hc
    exact ⟨σ, ⟨hm, (libRel_iff_libDS hok lib hW row ord hcert σ).mp hrel⟩, hl⟩
  · intro a σ hm
    exact bw a σ hm.1 ((libRel_iff_libDS hok lib hW row ord hcert σ).mpr hm.2)

end KV.Netlist
